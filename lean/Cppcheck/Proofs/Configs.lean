/-
C12 — helper lemmas for Props/C12.lean (core Lean only).

  * string layer: `pieces`/`joinSemi`/`nameOf`/`cfg` on well-formed `configs_if` entries;
  * `walk_struct`: effect of the fold on a family tree (stack = `drop (loss t)`, result set grows, only
    the tree's macros become mentioned);
  * `walk_cover`: every region of a tree accepted by `safeItems` is live in a configuration of the result;
  * `getConfigs_no_undef`, `defines_currentConfig`: -U / -D;
  * `walk_added`, `walk_uncov`: which configurations a stretch of the fold adds, and necessity of `safeItems`
    (a tree it rejects has a region that is live in no configuration of the result).
-/
import Cppcheck.Model.Configs
set_option linter.unusedSimpArgs false
set_option linter.unusedVariables false
namespace Cppcheck.Configs

/-! ### sets as lists -/

theorem mem_setInsert {a x : Str} {l : List Str} : x ∈ setInsert a l ↔ x = a ∨ x ∈ l := by
  induction l with
  | nil => simp [setInsert]
  | cons b bs ih =>
    simp only [setInsert]
    split
    · next h => subst h; simp
    · split
      · simp
      · simp [ih]; constructor
        · rintro (h | h | h) <;> simp [h]
        · rintro (h | h | h) <;> simp [h]

theorem mem_toSet {x : Str} {l : List Str} : x ∈ toSet l ↔ x ∈ l := by
  induction l with
  | nil => simp [toSet]
  | cons b bs ih => simp only [toSet, List.foldr_cons] at *; simp [mem_setInsert, ih]

/-! ### names -/


/-- the entry `M=M` -/
def eD (m : Str) : Str := m ++ '=' :: m

theorem okName_ne_nil {m : Str} (h : okName m = true) : m ≠ [] := by
  intro h'; subst h'; simp [okName] at h

theorem okName_chars {m : Str} (h : okName m = true) : ∀ c ∈ m, c ≠ ';' ∧ c ≠ '=' ∧ c ≠ '(' := by
  simp [okName] at h
  intro c hc
  have := h.1.2 c hc
  simp_all

theorem takeWhile_append_of_all {p : Char → Bool} {m r : Str} {c : Char} (hm : ∀ x ∈ m, p x = true) (hc : p c = false) :
    (m ++ c :: r).takeWhile p = m := by
  induction m with
  | nil => simp [List.takeWhile, hc]
  | cons a as ih =>
    have ha : p a = true := hm a (by simp)
    simp [List.takeWhile, ha]
    exact ih (fun x hx => hm x (by simp [hx]))

theorem takeWhile_of_all {p : Char → Bool} {m : Str} (hm : ∀ x ∈ m, p x = true) : m.takeWhile p = m := by
  induction m with
  | nil => rfl
  | cons a as ih =>
    have ha : p a = true := hm a (by simp)
    simp [List.takeWhile, ha]
    exact ih (fun x hx => hm x (by simp [hx]))

theorem nameOf_ok {m : Str} (h : okName m = true) : nameOf m = m := by
  unfold nameOf
  apply takeWhile_of_all
  intro x hx
  have := okName_chars h x hx
  simp [this]

theorem nameOf_eD {m : Str} (h : okName m = true) : nameOf (eD m) = m := by
  unfold nameOf eD
  apply takeWhile_append_of_all
  · intro x hx
    have := okName_chars h x hx
    simp [this]
  · simp

theorem beforeEq_eD {m : Str} (h : okName m = true) : beforeEq (eD m) = m := by
  unfold beforeEq eD
  apply takeWhile_append_of_all
  · intro x hx
    have := okName_chars h x hx
    simp [this]
  · simp

theorem hasEq_eD (m : Str) : hasEq (eD m) = true := by simp [hasEq, eD]

theorem hasEq_ok {m : Str} (h : okName m = true) : hasEq m = false := by
  simp [hasEq]
  intro hc
  exact (okName_chars h _ hc).2.1 rfl


theorem splitSemi_ne_nil (s : Str) : splitSemi s ≠ [] := by
  induction s with
  | nil => simp [splitSemi]
  | cons c cs ih =>
    simp only [splitSemi]
    split
    · simp
    · split <;> simp

theorem splitSemi_noSemi {m : Str} (h : ∀ c ∈ m, c ≠ ';') : splitSemi m = [m] := by
  induction m with
  | nil => rfl
  | cons a as ih =>
    have ha : a ≠ ';' := h a (by simp)
    have := ih (fun c hc => h c (by simp [hc]))
    simp [splitSemi, ha, this]

theorem splitSemi_append {m r : Str} (h : ∀ c ∈ m, c ≠ ';') : splitSemi (m ++ ';' :: r) = m :: splitSemi r := by
  induction m with
  | nil => simp [splitSemi]
  | cons a as ih =>
    have ha : a ≠ ';' := h a (by simp)
    have := ih (fun c hc => h c (by simp [hc]))
    simp [splitSemi, ha, this]

theorem dropTrailingEmpty_cons {x : Str} {l : List Str} (hl : l ≠ []) :
    dropTrailingEmpty (x :: l) = x :: dropTrailingEmpty l := by
  cases l with
  | nil => exact absurd rfl hl
  | cons y r => rfl

/-- entries that survive a `;`-join unchanged -/
def okPiece (x : Str) : Prop := x ≠ [] ∧ ∀ c ∈ x, c ≠ ';'

theorem pieces_joinSemi : ∀ {xs : List Str}, (∀ x ∈ xs, okPiece x) → pieces (joinSemi xs) = xs
  | [], _ => by simp [pieces, joinSemi, splitSemi, dropTrailingEmpty]
  | [x], h => by
    have hx := h x (by simp)
    simp [pieces, joinSemi, splitSemi_noSemi hx.2, dropTrailingEmpty, hx.1]
  | x :: y :: r, h => by
    have hx := h x (by simp)
    have ih := pieces_joinSemi (xs := y :: r) (fun z hz => h z (by simp [hz]))
    simp only [pieces, joinSemi] at ih ⊢
    rw [splitSemi_append hx.2, dropTrailingEmpty_cons (splitSemi_ne_nil _), ih]

theorem pieces_nil : pieces [] = [] := by simp [pieces, splitSemi, dropTrailingEmpty]

theorem defines_nil (x : Str) : defines [] x = false := by simp [defines, pieces_nil]


/-! ### stack entries and `cfg` -/

/-- well-formed `configs_if` entry: empty, `M` or `M=M` for a name `M` -/
def EntryWF (e : Str) : Prop := e = [] ∨ ∃ m, okName m = true ∧ (e = m ∨ e = eD m)

theorem EntryWF.nil : EntryWF [] := Or.inl rfl
theorem EntryWF.bare {m : Str} (h : okName m = true) : EntryWF m := Or.inr ⟨m, h, Or.inl rfl⟩
theorem EntryWF.self {m : Str} (h : okName m = true) : EntryWF (eD m) := Or.inr ⟨m, h, Or.inr rfl⟩

theorem okPiece_of_ok {m : Str} (h : okName m = true) : okPiece m :=
  ⟨okName_ne_nil h, fun c hc => (okName_chars h c hc).1⟩

theorem okPiece_eD {m : Str} (h : okName m = true) : okPiece (eD m) := by
  refine ⟨by simp [eD], ?_⟩
  intro c hc
  simp [eD] at hc
  rcases hc with hc | hc | hc
  · exact (okName_chars h c hc).1
  · subst hc; decide
  · exact (okName_chars h c hc).1

theorem EntryWF.okPiece {e : Str} (h : EntryWF e) (hne : e ≠ []) : okPiece e := by
  rcases h with h | ⟨m, hm, h | h⟩
  · exact absurd h hne
  · subst h; exact okPiece_of_ok hm
  · subst h; exact okPiece_eD hm

theorem EntryWF.ne_zero {e : Str} (h : EntryWF e) : e ≠ ['0'] := by
  rcases h with h | ⟨m, hm, h | h⟩
  · subst h; simp
  · subst h; intro h0; subst h0; simp [okName] at hm
  · subst h; intro h0
    have : '=' ∈ eD m := by simp [eD]
    rw [h0] at this; simp at this

theorem EntryWF.nameOf_okName {e : Str} (h : EntryWF e) (hne : e ≠ []) : okName (nameOf e) = true := by
  rcases h with h | ⟨m, hm, h | h⟩
  · exact absurd h hne
  · subst h; rw [nameOf_ok hm]; exact hm
  · subst h; rw [nameOf_eD hm]; exact hm

theorem nameOf_nil : nameOf [] = [] := rfl

theorem EntryWF.nameOf_eq_nil {e : Str} (h : EntryWF e) : nameOf e = [] ↔ e = [] := by
  constructor
  · intro hn
    apply Classical.byContradiction
    intro hne
    have := okName_ne_nil (h.nameOf_okName hne)
    exact this hn
  · intro h; subst h; rfl

theorem hasDefine_nil (c : Str) : hasDefine [] c = false := by
  simp [hasDefine, hasDefineGo]

theorem pieces_cfg {ifs : List Str} (ud : Str) (h : ∀ e ∈ ifs, EntryWF e) :
    pieces (cfg ifs ud) = (toSet ifs).filter fun c => !c.isEmpty && !hasDefine ud c := by
  have h0 : ifs.contains ['0'] = false := by
    cases hc : ifs.contains ['0'] with
    | false => rfl
    | true =>
      have := List.contains_iff_mem.mp hc
      exact absurd rfl (h _ this).ne_zero
  simp only [cfg, h0]
  apply pieces_joinSemi
  intro x hx
  have hx' := List.mem_filter.mp hx
  have hmem : x ∈ ifs := mem_toSet.mp hx'.1
  have hne : x ≠ [] := by
    intro hnil; subst hnil; simp at hx'
  exact (h x hmem).okPiece hne

theorem defines_cfg_nil {ifs : List Str} (h : ∀ e ∈ ifs, EntryWF e) (x : Str) :
    defines (cfg ifs []) x = true ↔ ∃ e ∈ ifs, e ≠ [] ∧ nameOf e = x := by
  simp only [defines, pieces_cfg [] h, List.contains_iff_mem, List.mem_map, List.mem_filter, mem_toSet, hasDefine_nil]
  constructor
  · rintro ⟨e, ⟨he, hne⟩, hn⟩
    refine ⟨e, he, ?_, hn⟩
    intro h0; subst h0; simp at hne
  · rintro ⟨e, he, hne, hn⟩
    refine ⟨e, ⟨he, ?_⟩, hn⟩
    cases e with
    | nil => exact absurd rfl hne
    | cons a as => simp

theorem defines_cfg_sub {ifs : List Str} (ud : Str) (h : ∀ e ∈ ifs, EntryWF e) (x : Str) :
    defines (cfg ifs ud) x = true → ∃ e ∈ ifs, e ≠ [] ∧ nameOf e = x := by
  simp only [defines, pieces_cfg ud h, List.contains_iff_mem, List.mem_map, List.mem_filter, mem_toSet]
  rintro ⟨e, ⟨he, hne⟩, hn⟩
  refine ⟨e, he, ?_, hn⟩
  intro h0; subst h0; simp at hne

theorem defines_ok {m : Str} (h : okName m = true) (x : Str) : defines m x = true ↔ x = m := by
  have : pieces m = [m] := by
    have := pieces_joinSemi (xs := [m]) (by intro y hy; simp at hy; subst hy; exact okPiece_of_ok h)
    simpa [joinSemi] using this
  simp [defines, this, nameOf_ok h, eq_comm]

theorem defines_eD {m : Str} (h : okName m = true) (x : Str) : defines (eD m) x = true ↔ x = m := by
  have : pieces (eD m) = [eD m] := by
    have := pieces_joinSemi (xs := [eD m]) (by intro y hy; simp at hy; subst hy; exact okPiece_eD h)
    simpa [joinSemi] using this
  simp [defines, this, nameOf_eD h, eq_comm]

theorem isUndefined_nil (undefs : List Str) : isUndefined [] undefs = false := by
  simp [isUndefined, pieces_nil]

theorem isUndefined_ok {m : Str} {undefs : List Str} (h : okName m = true) (hu : m ∉ undefs) :
    isUndefined m undefs = false := by
  have : pieces m = [m] := by
    have := pieces_joinSemi (xs := [m]) (by intro y hy; simp at hy; subst hy; exact okPiece_of_ok h)
    simpa [joinSemi] using this
  simp [isUndefined, this, isUndefinedPiece, hasEq_ok h, hu]

theorem isUndefined_eD {m : Str} {undefs : List Str} (h : okName m = true) (hu : m ∉ undefs) :
    isUndefined (eD m) undefs = false := by
  have : pieces (eD m) = [eD m] := by
    have := pieces_joinSemi (xs := [eD m]) (by intro y hy; simp at hy; subst hy; exact okPiece_eD h)
    simpa [joinSemi] using this
  simp [isUndefined, this, isUndefinedPiece, hasEq_eD, beforeEq_eD h, hu]


/-! ### the fold on family trees: structural part -/

/-- macro `x` occurs in a configuration of the result set or on `configs_if` -/
def mentioned (s : St) (x : Str) : Prop :=
  (∃ c ∈ s.ret, defines c x = true) ∨ (∃ e ∈ s.ifs, e ≠ [] ∧ nameOf e = x)

structure Fresh (inp : Inp) (s : St) (m : Str) : Prop where
  ok : okName m = true
  notMentioned : ¬ mentioned s m
  notDefined : m ∉ s.defined
  notUndef : m ∉ inp.undefs

def entry (fl : Flags) (k : Kind) (m : Str) : Str :=
  match cls fl k with
  | .pos => eD m
  | .neg => []
  | .nd => m

def nentry (fl : Flags) (k : Kind) (m : Str) : Str :=
  match cls fl k with
  | .neg => m
  | _ => []

theorem entry_wf (fl : Flags) (k : Kind) {m : Str} (h : okName m = true) : EntryWF (entry fl k m) := by
  unfold entry; split
  · exact EntryWF.self h
  · exact EntryWF.nil
  · exact EntryWF.bare h

theorem not_mem_ret_of_fresh {inp : Inp} {s : St} {m c : Str} (h : Fresh inp s m) (hd : defines c m = true) : c ∉ s.ret :=
  fun hc => h.notMentioned (Or.inl ⟨c, hc, hd⟩)

def openCfg (k : Kind) (m : Str) : Str :=
  match k with
  | .ifdef | .ifDefined => eD m
  | _ => m

theorem openConfig_spec {inp : Inp} {s : St} {m : Str} (k : Kind) (h : Fresh inp s m) :
    openConfig k m s.defined inp.undefs = openCfg k m := by
  have hd := h.notDefined
  have hu := h.notUndef
  have i1 := isUndefined_ok h.ok h.notUndef
  have i2 := isUndefined_eD h.ok h.notUndef
  unfold eD at i2
  cases k <;> simp [openConfig, openCfg, hd, hu, i1, i2, eD]

theorem stepOpen_spec {fl : Flags} {inp : Inp} {s : St} {k : Kind} {m : Str} (h : Fresh inp s m) :
    stepOpen fl inp s k m =
      { s with ifs := entry fl k m :: s.ifs, ifndefs := nentry fl k m :: s.ifndefs,
               ret := setInsert (cfg (entry fl k m :: s.ifs) inp.userDefines) s.ret } := by
  have h1 : m ∉ s.ret := not_mem_ret_of_fresh h ((defines_ok h.ok m).mpr rfl)
  have h2 : eD m ∉ s.ret := not_mem_ret_of_fresh h ((defines_eD h.ok m).mpr rfl)
  have hne : m.isEmpty = false := by
    cases m with
    | nil => exact absurd rfl (okName_ne_nil h.ok)
    | cons a as => rfl
  have e1 : m ++ '=' :: m = eD m := rfl
  unfold stepOpen
  rw [openConfig_spec k h]
  cases k <;> cases hfn : fl.fixNotDef <;>
    simp [openCfg, entry, nentry, cls, hfn, hasEq_eD, hasEq_ok h.ok, beforeEq_eD h.ok, h1, h2, hne, e1]

theorem elseIsFalse_nil (ifs : List Str) : elseIsFalse ifs [] = false := by
  simp [elseIsFalse, hasDefine_nil]

theorem stepElse_nopush {fl : Flags} {inp : Inp} {s : St} {rest : List Str} (hud : inp.userDefines = [])
    (hn : s.ifndefs = [] :: rest) (h0 : [] ∈ s.ret) :
    stepElse fl inp s = { s with ifs := (if fl.fixElse then [[]] else []) ++ pop s.ifs } := by
  unfold stepElse
  rw [hud, elseIsFalse_nil, hn]
  cases hf : fl.fixElse <;> simp [h0]

theorem stepElse_push {fl : Flags} {inp : Inp} {s : St} {rest : List Str} {m : Str} (hud : inp.userDefines = [])
    (hn : s.ifndefs = m :: rest) (h : Fresh inp s m) :
    stepElse fl inp s = { s with ifs := m :: pop s.ifs, ret := setInsert (cfg (m :: pop s.ifs) []) s.ret } := by
  have h1 : m ∉ s.ret := not_mem_ret_of_fresh h ((defines_ok h.ok m).mpr rfl)
  have h2 : eD m ∉ s.ret := not_mem_ret_of_fresh h ((defines_eD h.ok m).mpr rfl)
  have e1 : m ++ '=' :: m = eD m := rfl
  unfold stepElse
  rw [hud, elseIsFalse_nil, hn]
  simp [h1, e1, List.erase_of_not_mem h2]


theorem run_append (fl : Flags) (inp : Inp) (s : St) (a b : List Dir) :
    run fl inp s (a ++ b) = run fl inp (run fl inp s a) b := List.foldl_append

theorem run_cons (fl : Flags) (inp : Inp) (s : St) (d : Dir) (ds : List Dir) :
    run fl inp s (d :: ds) = run fl inp (step fl inp s d) ds := rfl

theorem run_nil (fl : Flags) (inp : Inp) (s : St) : run fl inp s [] = s := rfl

theorem step_opn {fl : Flags} {inp : Inp} {s : St} (h : s.skip = none) (k : Kind) (m : Str) :
    step fl inp s (.opn k m) = stepOpen fl inp s k m := by simp [step, h]
theorem step_els {fl : Flags} {inp : Inp} {s : St} (h : s.skip = none) :
    step fl inp s .els = stepElse fl inp s := by simp [step, h]
theorem step_endif {fl : Flags} {inp : Inp} {s : St} (h : s.skip = none) :
    step fl inp s .endif = stepEndif s := by simp [step, h]
theorem step_region {fl : Flags} {inp : Inp} {s : St} (h : s.skip = none) (r : Nat) :
    step fl inp s (.region r) = s := by simp [step, h]

structure Good (s : St) : Prop where
  skip : s.skip = none
  wf : ∀ e ∈ s.ifs, EntryWF e
  empty : [] ∈ s.ret

def FreshAll (inp : Inp) (s : St) (ms : List Str) : Prop := ∀ x ∈ ms, Fresh inp s x

theorem FreshAll.transfer {inp : Inp} {s s' : St} {ms : List Str} (h : FreshAll inp s ms)
    (hd : s'.defined = s.defined) (hm : ∀ x ∈ ms, mentioned s' x → mentioned s x) : FreshAll inp s' ms := by
  intro x hx
  have := h x hx
  exact ⟨this.ok, fun hmm => this.notMentioned (hm x hx hmm), by rw [hd]; exact this.notDefined, this.notUndef⟩

/-- effect of a stretch of directives: `a` surplus pops, only macros of `ms` newly mentioned -/
structure Post (a : Nat) (ms : List Str) (s s' : St) : Prop where
  skip : s'.skip = none
  ifs : s'.ifs = s.ifs.drop a
  ifndefs : s'.ifndefs = s.ifndefs
  defined : s'.defined = s.defined
  mono : ∀ c ∈ s.ret, c ∈ s'.ret
  ment : ∀ x, mentioned s' x → mentioned s x ∨ x ∈ ms

theorem Post.good {a : Nat} {ms : List Str} {s s' : St} (p : Post a ms s s') (g : Good s) : Good s' :=
  ⟨p.skip, fun e he => g.wf e (List.mem_of_mem_drop (p.ifs ▸ he)), p.mono _ g.empty⟩

theorem Post.refl (s : St) (g : Good s) : Post 0 [] s s :=
  ⟨g.skip, rfl, rfl, rfl, fun _ h => h, fun _ h => Or.inl h⟩

theorem Post.trans {a b : Nat} {ms ms' : List Str} {s s1 s2 : St} (p : Post a ms s s1) (q : Post b ms' s1 s2) :
    Post (a + b) (ms ++ ms') s s2 :=
  ⟨q.skip, by rw [q.ifs, p.ifs, List.drop_drop], by rw [q.ifndefs, p.ifndefs], by rw [q.defined, p.defined],
   fun c h => q.mono c (p.mono c h), by
    intro x hx
    rcases q.ment x hx with h | h
    · rcases p.ment x h with h | h
      · exact Or.inl h
      · exact Or.inr (List.mem_append_left _ h)
    · exact Or.inr (List.mem_append_right _ h)⟩

theorem Post.freshAll {inp : Inp} {a : Nat} {ms ms' : List Str} {s s' : St} (p : Post a ms s s')
    (h : FreshAll inp s ms') (hdisj : ∀ x ∈ ms', x ∉ ms) : FreshAll inp s' ms' :=
  h.transfer p.defined (fun x hx hm => (p.ment x hm).resolve_right (hdisj x hx))

/-- state after a push of entry `e` (and `n` on configs_ifndef) with the insertion of the new configuration -/
def pushed (s : St) (e n : Str) : St :=
  { s with ifs := e :: s.ifs, ifndefs := n :: s.ifndefs, ret := setInsert (cfg (e :: s.ifs) []) s.ret }

theorem mentioned_pushed {s : St} {e n x : Str} (g : Good s) (he : EntryWF e) :
    mentioned (pushed s e n) x → mentioned s x ∨ (e ≠ [] ∧ nameOf e = x) := by
  have wf' : ∀ e' ∈ e :: s.ifs, EntryWF e' := by
    intro e' h'; rcases List.mem_cons.mp h' with h' | h'
    · subst h'; exact he
    · exact g.wf e' h'
  have key : ∀ e' ∈ e :: s.ifs, e' ≠ [] → nameOf e' = x → mentioned s x ∨ (e ≠ [] ∧ nameOf e = x) := by
    intro e' h' hne hn
    rcases List.mem_cons.mp h' with h' | h'
    · subst h'; exact Or.inr ⟨hne, hn⟩
    · exact Or.inl (Or.inr ⟨e', h', hne, hn⟩)
  rintro (⟨c, hc, hd⟩ | ⟨e', h', hne, hn⟩)
  · rcases mem_setInsert.mp hc with hc | hc
    · subst hc
      obtain ⟨e', h', hne, hn⟩ := (defines_cfg_nil wf' x).mp hd
      exact key e' h' hne hn
    · exact Or.inl (Or.inl ⟨c, hc, hd⟩)
  · exact key e' h' hne hn

theorem good_pushed {s : St} {e n : Str} (g : Good s) (he : EntryWF e) : Good (pushed s e n) :=
  ⟨g.skip, by
    intro e' h'; rcases List.mem_cons.mp h' with h' | h'
    · subst h'; exact he
    · exact g.wf e' h',
   mem_setInsert.mpr (Or.inr g.empty)⟩

theorem nameOf_entry {fl : Flags} {k : Kind} {m : Str} (h : okName m = true) (hne : entry fl k m ≠ []) :
    nameOf (entry fl k m) = m := by
  unfold entry at *
  split at hne
  · rw [nameOf_eD h]
  · exact absurd rfl hne
  · rw [nameOf_ok h]

theorem pop_drop_cons (a : Nat) (e : Str) (l : List Str) : pop (List.drop a (e :: l)) = List.drop a l := by
  cases a with
  | zero => rfl
  | succ n => simp [pop, List.tail_drop]


theorem entry_ne_nil_cls {fl : Flags} {k : Kind} {m : Str} (hne : entry fl k m ≠ []) : cls fl k ≠ .neg := by
  intro h; simp [entry, h] at hne

theorem open_post {fl : Flags} {inp : Inp} {s : St} {k : Kind} {m : Str} (hud : inp.userDefines = [])
    (g : Good s) (hm : Fresh inp s m) :
    stepOpen fl inp s k m = pushed s (entry fl k m) (nentry fl k m) ∧ Good (stepOpen fl inp s k m) ∧
      ∀ x, mentioned (stepOpen fl inp s k m) x → mentioned s x ∨ (x = m ∧ cls fl k ≠ .neg) := by
  have e1 : stepOpen fl inp s k m = pushed s (entry fl k m) (nentry fl k m) := by
    rw [stepOpen_spec hm, hud]; rfl
  have ewf := entry_wf fl k hm.ok
  refine ⟨e1, e1 ▸ good_pushed g ewf, ?_⟩
  intro x hx
  rw [e1] at hx
  rcases mentioned_pushed g ewf hx with h | ⟨hne, hn⟩
  · exact Or.inl h
  · right; exact ⟨by rw [← hn, nameOf_entry hm.ok hne], entry_ne_nil_cls hne⟩

/-- the `configs_if` vector right after `#else` -/
def elseIfs (fl : Flags) (k : Kind) (m : Str) (ifs2 : List Str) : List Str :=
  match cls fl k with
  | .neg => m :: pop ifs2
  | _ => (if fl.fixElse then [[]] else []) ++ pop ifs2

theorem else_post {fl : Flags} {inp : Inp} {s2 : St} {k : Kind} {m : Str} {nd : List Str} (hud : inp.userDefines = [])
    (g : Good s2) (hn : s2.ifndefs = nentry fl k m :: nd) (hm : cls fl k = .neg → Fresh inp s2 m) :
    let s3 := stepElse fl inp s2
    Good s3 ∧ s3.ifs = elseIfs fl k m s2.ifs ∧ s3.ifndefs = s2.ifndefs ∧ s3.defined = s2.defined ∧
      (∀ c ∈ s2.ret, c ∈ s3.ret) ∧ (∀ x, mentioned s3 x → mentioned s2 x ∨ x = m) ∧
      (cls fl k = .neg → cfg (m :: pop s2.ifs) [] ∈ s3.ret) := by
  intro s3
  have wfpop : ∀ e ∈ pop s2.ifs, EntryWF e := fun e he => g.wf e (List.mem_of_mem_tail he)
  cases hc : cls fl k with
  | neg =>
    have hn' : s2.ifndefs = m :: nd := by simpa [nentry, hc] using hn
    have hm := hm hc
    have e3 : s3 = { s2 with ifs := m :: pop s2.ifs, ret := setInsert (cfg (m :: pop s2.ifs) []) s2.ret } :=
      stepElse_push hud hn' hm
    have wf3 : ∀ e ∈ m :: pop s2.ifs, EntryWF e := by
      intro e he; rcases List.mem_cons.mp he with he | he
      · subst he; exact EntryWF.bare hm.ok
      · exact wfpop e he
    rw [e3]
    refine ⟨⟨g.skip, wf3, mem_setInsert.mpr (Or.inr g.empty)⟩, by simp [elseIfs, hc], rfl, rfl,
      fun c h => mem_setInsert.mpr (Or.inr h), ?_, fun _ => mem_setInsert.mpr (Or.inl rfl)⟩
    have key : ∀ e' ∈ m :: pop s2.ifs, e' ≠ [] → ∀ x, nameOf e' = x → mentioned s2 x ∨ x = m := by
      intro e' h' hne x hx
      rcases List.mem_cons.mp h' with h' | h'
      · subst h'; right; rw [← hx, nameOf_ok hm.ok]
      · exact Or.inl (Or.inr ⟨e', List.mem_of_mem_tail h', hne, hx⟩)
    intro x hx
    rcases hx with ⟨c, hcm, hd⟩ | ⟨e', h', hne, hx⟩
    · rcases mem_setInsert.mp hcm with hcm | hcm
      · subst hcm
        obtain ⟨e', h', hne, hx⟩ := (defines_cfg_nil wf3 x).mp hd
        exact key e' h' hne x hx
      · exact Or.inl (Or.inl ⟨c, hcm, hd⟩)
    · exact key e' h' hne x hx
  | pos =>
    have hn' : s2.ifndefs = [] :: nd := by simpa [nentry, hc] using hn
    have e3 : s3 = { s2 with ifs := (if fl.fixElse then [[]] else []) ++ pop s2.ifs } := stepElse_nopush hud hn' g.empty
    rw [e3]
    refine ⟨⟨g.skip, ?_, g.empty⟩, by simp [elseIfs, hc], rfl, rfl, fun c h => h, ?_, by simp⟩
    · intro e he
      rcases List.mem_append.mp he with he | he
      · cases hf : fl.fixElse <;> simp [hf] at he
        subst he; exact EntryWF.nil
      · exact wfpop e he
    · rintro x (⟨c, hcm, hd⟩ | ⟨e', h', hne, hx⟩)
      · exact Or.inl (Or.inl ⟨c, hcm, hd⟩)
      · rcases List.mem_append.mp h' with h' | h'
        · cases hf : fl.fixElse <;> simp [hf] at h'
          exact absurd h' hne
        · exact Or.inl (Or.inr ⟨e', List.mem_of_mem_tail h', hne, hx⟩)
  | nd =>
    have hn' : s2.ifndefs = [] :: nd := by simpa [nentry, hc] using hn
    have e3 : s3 = { s2 with ifs := (if fl.fixElse then [[]] else []) ++ pop s2.ifs } := stepElse_nopush hud hn' g.empty
    rw [e3]
    refine ⟨⟨g.skip, ?_, g.empty⟩, by simp [elseIfs, hc], rfl, rfl, fun c h => h, ?_, by simp⟩
    · intro e he
      rcases List.mem_append.mp he with he | he
      · cases hf : fl.fixElse <;> simp [hf] at he
        subst he; exact EntryWF.nil
      · exact wfpop e he
    · rintro x (⟨c, hcm, hd⟩ | ⟨e', h', hne, hx⟩)
      · exact Or.inl (Or.inl ⟨c, hcm, hd⟩)
      · rcases List.mem_append.mp h' with h' | h'
        · cases hf : fl.fixElse <;> simp [hf] at h'
          exact absurd h' hne
        · exact Or.inl (Or.inr ⟨e', List.mem_of_mem_tail h', hne, hx⟩)


theorem else_ret {fl : Flags} {inp : Inp} {s2 : St} {k : Kind} {m : Str} {nd : List Str} (hud : inp.userDefines = [])
    (g : Good s2) (hn : s2.ifndefs = nentry fl k m :: nd) (hm : cls fl k = .neg → Fresh inp s2 m) :
    ∀ c ∈ (stepElse fl inp s2).ret, c ∈ s2.ret ∨ (cls fl k = .neg ∧ c = cfg (m :: pop s2.ifs) []) := by
  intro c hc
  cases hcl : cls fl k with
  | neg =>
    have hn' : s2.ifndefs = m :: nd := by simpa [nentry, hcl] using hn
    rw [stepElse_push hud hn' (hm hcl)] at hc
    rcases mem_setInsert.mp hc with h | h
    · exact Or.inr ⟨rfl, h⟩
    · exact Or.inl h
  | pos =>
    have hn' : s2.ifndefs = [] :: nd := by simpa [nentry, hcl] using hn
    rw [stepElse_nopush hud hn' g.empty] at hc
    exact Or.inl hc
  | nd =>
    have hn' : s2.ifndefs = [] :: nd := by simpa [nentry, hcl] using hn
    rw [stepElse_nopush hud hn' g.empty] at hc
    exact Or.inl hc

theorem endif_post {s2 : St} {e n : Str} {ifs nd : List Str} {a : Nat} (g : Good s2)
    (hi : s2.ifs = List.drop a (e :: ifs)) (hn : s2.ifndefs = n :: nd) :
    let s3 := stepEndif s2
    s3.skip = none ∧ s3.ifs = List.drop a ifs ∧ s3.ifndefs = nd ∧ s3.defined = s2.defined ∧ s3.ret = s2.ret ∧
      (∀ x, mentioned s3 x → mentioned s2 x) := by
  intro s3
  refine ⟨g.skip, by simp [s3, stepEndif, hi, pop_drop_cons], by simp [s3, stepEndif, hn, pop], rfl, rfl, ?_⟩
  rintro x (h | ⟨e', h', hne, hx⟩)
  · exact Or.inl h
  · exact Or.inr ⟨e', List.mem_of_mem_tail h', hne, hx⟩

theorem endif_facts {s2 : St} (g : Good s2) :
    let s3 := stepEndif s2
    s3.skip = none ∧ s3.ifs = pop s2.ifs ∧ s3.ifndefs = pop s2.ifndefs ∧ s3.defined = s2.defined ∧ s3.ret = s2.ret ∧
      (∀ x, mentioned s3 x → mentioned s2 x) := by
  intro s3
  refine ⟨g.skip, rfl, rfl, rfl, rfl, ?_⟩
  rintro x (h | ⟨e', h', hne, hx⟩)
  · exact Or.inl h
  · exact Or.inr ⟨e', List.mem_of_mem_tail h', hne, hx⟩

theorem pop_drop_elseIfs (fl : Flags) (k : Kind) (m e : Str) (ifs : List Str) (a b : Nat) :
    pop (List.drop b (elseIfs fl k m (List.drop a (e :: ifs)))) =
      List.drop (a + b + (if dropsAtElse fl k then 1 else 0)) ifs := by
  unfold elseIfs dropsAtElse
  cases hc : cls fl k <;> cases hf : fl.fixElse <;>
    simp [pop_drop_cons, List.drop_drop, pop, List.tail_drop] <;> simp [← pop, pop_drop_cons, List.drop_drop]

theorem flatten_cond (k : Kind) (m : Str) (t rest : Items) :
    (Items.cond k m t rest).flatten = .opn k m :: (t.flatten ++ (.endif :: rest.flatten)) := rfl

theorem flatten_condElse (k : Kind) (m : Str) (t e rest : Items) :
    (Items.condElse k m t e rest).flatten = .opn k m :: (t.flatten ++ (.els :: (e.flatten ++ (.endif :: rest.flatten)))) := by
  simp [Items.flatten]

/-- intermediate states of the fold over one conditional -/
def stThen (fl : Flags) (inp : Inp) (s : St) (k : Kind) (m : Str) (t : Items) : St :=
  run fl inp (stepOpen fl inp s k m) t.flatten
def stElse (fl : Flags) (inp : Inp) (s : St) (k : Kind) (m : Str) (t e : Items) : St :=
  run fl inp (stepElse fl inp (stThen fl inp s k m t)) e.flatten

theorem run_cond {fl : Flags} {inp : Inp} {s : St} (k : Kind) (m : Str) (t rest : Items)
    (h1 : s.skip = none) (h2 : (stThen fl inp s k m t).skip = none) :
    run fl inp s (Items.cond k m t rest).flatten = run fl inp (stepEndif (stThen fl inp s k m t)) rest.flatten := by
  rw [flatten_cond, run_cons, step_opn h1, run_append, run_cons]
  show run fl inp (step fl inp (stThen fl inp s k m t) .endif) rest.flatten = _
  rw [step_endif h2]

theorem run_condElse {fl : Flags} {inp : Inp} {s : St} (k : Kind) (m : Str) (t e rest : Items)
    (h1 : s.skip = none) (h2 : (stThen fl inp s k m t).skip = none) (h3 : (stElse fl inp s k m t e).skip = none) :
    run fl inp s (Items.condElse k m t e rest).flatten = run fl inp (stepEndif (stElse fl inp s k m t e)) rest.flatten := by
  rw [flatten_condElse, run_cons, step_opn h1, run_append, run_cons]
  show run fl inp (step fl inp (stThen fl inp s k m t) .els) _ = _
  rw [step_els h2, run_append, run_cons]
  show run fl inp (step fl inp (stElse fl inp s k m t e) .endif) rest.flatten = _
  rw [step_endif h3]


/-- everything the fold establishes around one `#if.. [#else ..] #endif`, given the effect of the branches -/
structure CondFacts (fl : Flags) (inp : Inp) (s : St) (k : Kind) (m : Str) (thn rest : Items) : Prop where
  hm : Fresh inp s m
  hmT : m ∉ thn.macros
  ndT : thn.macros.Nodup
  ndR : rest.macros.Nodup
  g1 : Good (stepOpen fl inp s k m)
  ifs1 : (stepOpen fl inp s k m).ifs = entry fl k m :: s.ifs
  ret1 : ∀ c ∈ s.ret, c ∈ (stepOpen fl inp s k m).ret
  cfg1 : cfg (entry fl k m :: s.ifs) [] ∈ (stepOpen fl inp s k m).ret
  ret1' : ∀ c ∈ (stepOpen fl inp s k m).ret, c = cfg (entry fl k m :: s.ifs) [] ∨ c ∈ s.ret
  fr1 : FreshAll inp (stepOpen fl inp s k m) thn.macros
  p2 : Post (loss fl thn) thn.macros (stepOpen fl inp s k m) (stThen fl inp s k m thn)
  g2 : Good (stThen fl inp s k m thn)
  ifs2 : (stThen fl inp s k m thn).ifs = List.drop (loss fl thn) (entry fl k m :: s.ifs)
  nd2 : (stThen fl inp s k m thn).ifndefs = nentry fl k m :: s.ifndefs
  d2 : (stThen fl inp s k m thn).defined = s.defined
  m2 : ∀ x, mentioned (stThen fl inp s k m thn) x → mentioned s x ∨ (x = m ∧ cls fl k ≠ .neg) ∨ x ∈ thn.macros

theorem cond_facts {fl : Flags} {inp : Inp} {s : St} {k : Kind} {m : Str} {thn rest : Items} {extra : List Str}
    (hud : inp.userDefines = []) (g : Good s)
    (nd : (m :: (thn.macros ++ extra)).Nodup) (ndR : rest.macros.Nodup) (fr : FreshAll inp s (m :: (thn.macros ++ extra)))
    (ih : ∀ s1, Good s1 → thn.macros.Nodup → FreshAll inp s1 thn.macros →
      Post (loss fl thn) thn.macros s1 (run fl inp s1 thn.flatten)) :
    CondFacts fl inp s k m thn rest := by
  obtain ⟨hm_notin, nd'⟩ := List.nodup_cons.mp nd
  obtain ⟨ndT, _, _⟩ := List.nodup_append.mp nd'
  have hm : Fresh inp s m := fr m (by simp)
  have hmT : m ∉ thn.macros := fun h => hm_notin (by simp [h])
  obtain ⟨e1, g1, m1⟩ := open_post (fl := fl) (k := k) hud g hm
  have o_ifs : (stepOpen fl inp s k m).ifs = entry fl k m :: s.ifs := by rw [e1]; rfl
  have o_nd : (stepOpen fl inp s k m).ifndefs = nentry fl k m :: s.ifndefs := by rw [e1]; rfl
  have o_def : (stepOpen fl inp s k m).defined = s.defined := by rw [e1]; rfl
  have o_ret : ∀ c ∈ s.ret, c ∈ (stepOpen fl inp s k m).ret := by
    intro c hc; rw [e1]; exact mem_setInsert.mpr (Or.inr hc)
  have o_cfg : cfg (entry fl k m :: s.ifs) [] ∈ (stepOpen fl inp s k m).ret := by
    rw [e1]; exact mem_setInsert.mpr (Or.inl rfl)
  have fr1 : FreshAll inp (stepOpen fl inp s k m) thn.macros :=
    FreshAll.transfer (fun x hx => fr x (by simp [hx])) o_def (by
      intro x hx hmm
      rcases m1 x hmm with h | ⟨h, _⟩
      · exact h
      · subst h; exact absurd hx hmT)
  have p2 : Post (loss fl thn) thn.macros (stepOpen fl inp s k m) (stThen fl inp s k m thn) := ih _ g1 ndT fr1
  have o_ret' : ∀ c ∈ (stepOpen fl inp s k m).ret, c = cfg (entry fl k m :: s.ifs) [] ∨ c ∈ s.ret := by
    intro c hc; rw [e1] at hc; exact mem_setInsert.mp hc
  refine ⟨hm, hmT, ndT, ndR, g1, o_ifs, o_ret, o_cfg, o_ret', fr1, p2, p2.good g1, by rw [← o_ifs]; exact p2.ifs,
    by rw [← o_nd]; exact p2.ifndefs, by rw [p2.defined, o_def], ?_⟩
  intro x hx
  rcases p2.ment x hx with h | h
  · rcases m1 x h with h | h
    · exact Or.inl h
    · exact Or.inr (Or.inl h)
  · exact Or.inr (Or.inr h)

/-- after `#endif` of a conditional without `#else` -/
theorem cond_close {fl : Flags} {inp : Inp} {s : St} {k : Kind} {m : Str} {thn rest : Items}
    (g : Good s) (F : CondFacts fl inp s k m thn rest) :
    Post (loss fl thn) (m :: thn.macros) s (stepEndif (stThen fl inp s k m thn)) ∧
      (stepEndif (stThen fl inp s k m thn)).ret = (stThen fl inp s k m thn).ret := by
  obtain ⟨k3, i3, n3, d3, r3, mm3⟩ := endif_post F.g2 F.ifs2 F.nd2
  refine ⟨⟨k3, i3, n3, by rw [d3, F.d2], ?_, ?_⟩, r3⟩
  · intro c hc; rw [r3]; exact F.p2.mono c (F.ret1 c hc)
  · intro x hx
    rcases F.m2 x (mm3 x hx) with h | h | h
    · exact Or.inl h
    · exact Or.inr (by simp [h.1])
    · exact Or.inr (by simp [h])

structure ElseFacts (fl : Flags) (inp : Inp) (s : St) (k : Kind) (m : Str) (thn els : Items) : Prop where
  hmE : m ∉ els.macros
  ndE : els.macros.Nodup
  g3 : Good (stepElse fl inp (stThen fl inp s k m thn))
  ifs3 : (stepElse fl inp (stThen fl inp s k m thn)).ifs = elseIfs fl k m (stThen fl inp s k m thn).ifs
  ret3 : ∀ c ∈ (stThen fl inp s k m thn).ret, c ∈ (stepElse fl inp (stThen fl inp s k m thn)).ret
  cfg3 : cls fl k = .neg → cfg (m :: pop (stThen fl inp s k m thn).ifs) [] ∈ (stepElse fl inp (stThen fl inp s k m thn)).ret
  ret3' : ∀ c ∈ (stepElse fl inp (stThen fl inp s k m thn)).ret, c ∈ (stThen fl inp s k m thn).ret ∨
    (cls fl k = .neg ∧ c = cfg (m :: pop (stThen fl inp s k m thn).ifs) [])
  fr3 : FreshAll inp (stepElse fl inp (stThen fl inp s k m thn)) els.macros
  p4 : Post (loss fl els) els.macros (stepElse fl inp (stThen fl inp s k m thn)) (stElse fl inp s k m thn els)
  g4 : Good (stElse fl inp s k m thn els)
  p5 : Post (loss fl thn + loss fl els + (if dropsAtElse fl k then 1 else 0)) (m :: (thn.macros ++ els.macros)) s
        (stepEndif (stElse fl inp s k m thn els))
  ret5 : (stepEndif (stElse fl inp s k m thn els)).ret = (stElse fl inp s k m thn els).ret

theorem else_facts {fl : Flags} {inp : Inp} {s : St} {k : Kind} {m : Str} {thn els rest : Items} {extra : List Str}
    (hud : inp.userDefines = []) (fr : FreshAll inp s (m :: (thn.macros ++ els.macros ++ extra)))
    (nd : (m :: (thn.macros ++ els.macros ++ extra)).Nodup)
    (F : CondFacts fl inp s k m thn rest)
    (ih : ∀ s1, Good s1 → els.macros.Nodup → FreshAll inp s1 els.macros →
      Post (loss fl els) els.macros s1 (run fl inp s1 els.flatten)) :
    ElseFacts fl inp s k m thn els := by
  obtain ⟨hm_notin, nd'⟩ := List.nodup_cons.mp nd
  obtain ⟨ndTE, _, _⟩ := List.nodup_append.mp nd'
  obtain ⟨ndT, ndE, disjTE⟩ := List.nodup_append.mp ndTE
  have hmE : m ∉ els.macros := fun h => hm_notin (by simp [h])
  have hm2 : cls fl k = .neg → Fresh inp (stThen fl inp s k m thn) m := fun hc =>
    ⟨F.hm.ok, fun h => by
      rcases F.m2 m h with h | h | h
      · exact F.hm.notMentioned h
      · exact h.2 hc
      · exact F.hmT h, by rw [F.d2]; exact F.hm.notDefined, F.hm.notUndef⟩
  obtain ⟨g3, i3, n3, d3, mono3, ment3, c3⟩ := else_post hud F.g2 F.nd2 hm2
  have fr3 : FreshAll inp (stepElse fl inp (stThen fl inp s k m thn)) els.macros :=
    FreshAll.transfer (fun x hx => fr x (by simp [hx])) (by rw [d3, F.d2]) (by
      intro x hx hmm
      rcases ment3 x hmm with h | h
      · rcases F.m2 x h with h | h | h
        · exact h
        · rw [h.1] at hx; exact absurd hx hmE
        · exact absurd rfl (disjTE x h x hx)
      · subst h; exact absurd hx hmE)
  have p4 : Post (loss fl els) els.macros (stepElse fl inp (stThen fl inp s k m thn)) (stElse fl inp s k m thn els) :=
    ih _ g3 ndE fr3
  have g4 : Good (stElse fl inp s k m thn els) := p4.good g3
  obtain ⟨k5, i5, n5, d5, r5, mm5⟩ := endif_facts g4
  refine ⟨hmE, ndE, g3, i3, mono3, c3, else_ret hud F.g2 F.nd2 hm2, fr3, p4, g4, ⟨k5, ?_, ?_, by rw [d5, p4.defined, d3, F.d2], ?_, ?_⟩, r5⟩
  · rw [i5, p4.ifs, i3, F.ifs2, pop_drop_elseIfs]
  · rw [n5, p4.ifndefs, n3, F.nd2]; rfl
  · intro c hc; rw [r5]; exact p4.mono c (mono3 c (F.p2.mono c (F.ret1 c hc)))
  · intro x hx
    rcases p4.ment x (mm5 x hx) with h | h
    · rcases ment3 x h with h | h
      · rcases F.m2 x h with h | h | h
        · exact Or.inl h
        · exact Or.inr (by simp [h.1])
        · exact Or.inr (by simp [h])
      · exact Or.inr (by simp [h])
    · exact Or.inr (by simp [h])

theorem walk_struct (fl : Flags) (inp : Inp) (hud : inp.userDefines = []) :
    ∀ (t : Items) (s : St), Good s → t.macros.Nodup → FreshAll inp s t.macros →
      Post (loss fl t) t.macros s (run fl inp s t.flatten)
  | .done, s, g, _, _ => Post.refl s g
  | .region r rest, s, g, nd, fr => by
    have ih := walk_struct fl inp hud rest s g nd fr
    simpa [Items.flatten, run_cons, step_region g.skip, loss, Items.macros] using ih
  | .cond k m thn rest, s, g, nd, fr => by
    have nd0 : (m :: (thn.macros ++ rest.macros)).Nodup := nd
    have fr0 : FreshAll inp s (m :: (thn.macros ++ rest.macros)) := fr
    obtain ⟨hm_notin, nd'⟩ := List.nodup_cons.mp nd0
    obtain ⟨ndT, ndR, disj⟩ := List.nodup_append.mp nd'
    have F : CondFacts fl inp s k m thn rest :=
      cond_facts hud g nd0 ndR fr0 (fun s1 g1 n1 f1 => walk_struct fl inp hud thn s1 g1 n1 f1)
    obtain ⟨p3, _⟩ := cond_close g F
    have fr3 : FreshAll inp (stepEndif (stThen fl inp s k m thn)) rest.macros :=
      p3.freshAll (fun x hx => fr0 x (by simp [hx])) (by
        intro x hx hmem
        rcases List.mem_cons.mp hmem with h | h
        · subst h; exact hm_notin (List.mem_append_right _ hx)
        · exact disj x h x hx rfl)
    have p4 := walk_struct fl inp hud rest _ (p3.good g) ndR fr3
    rw [run_cond k m thn rest g.skip F.g2.skip]
    have := p3.trans p4
    simpa [loss, Items.macros] using this
  | .condElse k m thn els rest, s, g, nd, fr => by
    have nd0 : (m :: (thn.macros ++ els.macros ++ rest.macros)).Nodup := nd
    have fr0 : FreshAll inp s (m :: (thn.macros ++ els.macros ++ rest.macros)) := fr
    obtain ⟨hm_notin, nd'⟩ := List.nodup_cons.mp nd0
    obtain ⟨ndTE, ndR, disjR⟩ := List.nodup_append.mp nd'
    have F : CondFacts fl inp s k m thn rest :=
      cond_facts (extra := els.macros ++ rest.macros) hud g (by simpa [List.append_assoc] using nd0) ndR
        (by simpa [List.append_assoc] using fr0) (fun s1 g1 n1 f1 => walk_struct fl inp hud thn s1 g1 n1 f1)
    have E : ElseFacts fl inp s k m thn els :=
      else_facts hud fr0 nd0 F (fun s1 g1 n1 f1 => walk_struct fl inp hud els s1 g1 n1 f1)
    have fr5 : FreshAll inp (stepEndif (stElse fl inp s k m thn els)) rest.macros :=
      E.p5.freshAll (fun x hx => fr0 x (by simp [hx])) (by
        intro x hx hmem
        rcases List.mem_cons.mp hmem with h | h
        · subst h; exact hm_notin (List.mem_append_right _ hx)
        · exact disjR x h x hx rfl)
    have p6 := walk_struct fl inp hud rest _ (E.p5.good g) ndR fr5
    rw [run_condElse k m thn els rest g.skip F.g2.skip E.g4.skip]
    have := E.p5.trans p6
    simpa [loss, Items.macros, Nat.add_assoc] using this


/-! ### coverage -/

/-- configuration `c` satisfies the requirements of a branch: all of `P` defined, none of `N` -/
def sat (c : Str) (P N : List Str) : Prop := (∀ p ∈ P, defines c p = true) ∧ (∀ n ∈ N, defines c n = false)

theorem sameSet_iff {a b : List Str} : sameSet a b = true ↔ ∀ x, x ∈ a ↔ x ∈ b := by
  simp only [sameSet, Bool.and_eq_true, List.all_eq_true, List.contains_iff_mem]
  constructor
  · rintro ⟨h1, h2⟩ x; exact ⟨h1 x, h2 x⟩
  · intro h; exact ⟨fun x hx => (h x).mp hx, fun x hx => (h x).mpr hx⟩

theorem mem_names_map {ifs : List Str} (wf : ∀ e ∈ ifs, EntryWF e) (x : Str) :
    x ∈ names (ifs.map nameOf) ↔ ∃ e ∈ ifs, e ≠ [] ∧ nameOf e = x := by
  simp only [names, List.mem_filter, List.mem_map]
  constructor
  · rintro ⟨⟨e, he, hn⟩, hne⟩
    refine ⟨e, he, ?_, hn⟩
    intro h0; subst h0; subst hn; simp [nameOf] at hne
  · rintro ⟨e, he, hne, hn⟩
    refine ⟨⟨e, he, hn⟩, ?_⟩
    have := mt ((wf e he).nameOf_eq_nil).mp hne
    rw [hn] at this
    cases x with
    | nil => exact absurd rfl this
    | cons a as => rfl

theorem defines_cfg_names {ifs : List Str} (wf : ∀ e ∈ ifs, EntryWF e) (x : Str) :
    defines (cfg ifs []) x = true ↔ x ∈ names (ifs.map nameOf) := by
  rw [defines_cfg_nil wf, mem_names_map wf]

theorem holds_pos {fl : Flags} {k : Kind} (h : cls fl k = .pos) (d : Str → Bool) (m : Str) : k.holds d m = d m := by
  cases k <;> simp [cls] at h <;> simp [Kind.holds]
  split at h <;> simp at h

theorem holds_nonpos {fl : Flags} {k : Kind} (h : cls fl k ≠ .pos) (d : Str → Bool) (m : Str) : k.holds d m = !d m := by
  cases k <;> simp [cls] at h <;> simp [Kind.holds]

theorem names_cons_ne {e : Str} {l : List Str} (h : e ≠ []) : names (e :: l) = e :: names l := by
  cases e with
  | nil => exact absurd rfl h
  | cons a as => simp [names]

theorem names_cons_nil (l : List Str) : names ([] :: l) = names l := by simp [names]

theorem sat_weaken {c : Str} {P N P' N' : List Str} (h : sat c P' N') (hp : ∀ p ∈ P, p ∈ P') (hn : ∀ n ∈ N, n ∈ N') :
    sat c P N := ⟨fun p hp' => h.1 p (hp p hp'), fun n hn' => h.2 n (hn n hn')⟩

/-- the configuration inserted by a push of an entry that names `m`, when the names on the stack are
    exactly the required macros -/
theorem sat_pushed {ifs : List Str} {e m c0 : Str} {P N : List Str} (wf : ∀ e' ∈ e :: ifs, EntryWF e')
    (hne : e ≠ []) (hn : nameOf e = m) (hs : sameSet (names (ifs.map nameOf)) P = true)
    (h0 : sat c0 P N) (hmN : m ∉ N) : sat (cfg (e :: ifs) []) (m :: P) N := by
  have wf' : ∀ e' ∈ ifs, EntryWF e' := fun e' h => wf e' (List.mem_cons_of_mem _ h)
  have key : ∀ x, defines (cfg (e :: ifs) []) x = true ↔ x = m ∨ x ∈ P := by
    intro x
    rw [defines_cfg_nil wf]
    constructor
    · rintro ⟨e', h', hne', hx⟩
      rcases List.mem_cons.mp h' with h' | h'
      · subst h'; left; rw [← hx, hn]
      · right; exact (sameSet_iff.mp hs x).mp ((mem_names_map wf' x).mpr ⟨e', h', hne', hx⟩)
    · rintro (h | h)
      · exact ⟨e, by simp, hne, by rw [h, hn]⟩
      · obtain ⟨e', h', hne', hx⟩ := (mem_names_map wf' x).mp ((sameSet_iff.mp hs x).mpr h)
        exact ⟨e', List.mem_cons_of_mem _ h', hne', hx⟩
  constructor
  · intro p hp
    rw [key]
    rcases List.mem_cons.mp hp with h | h
    · exact Or.inl h
    · exact Or.inr h
  · intro n hn'
    cases hd : defines (cfg (e :: ifs) []) n with
    | false => rfl
    | true =>
      rcases (key n).mp hd with h | h
      · subst h; exact absurd hn' hmN
      · have := h0.1 n h; rw [h0.2 n hn'] at this; exact absurd this (by simp)


theorem sat_fresh {inp : Inp} {s : St} {m c : Str} {P N : List Str} (hm : Fresh inp s m) (hc : c ∈ s.ret)
    (h : sat c P N) : sat c P (m :: N) := by
  refine ⟨h.1, fun n hn => ?_⟩
  rcases List.mem_cons.mp hn with h' | h'
  · subst h'
    cases hd : defines c n with
    | false => rfl
    | true => exact absurd (Or.inl ⟨c, hc, hd⟩) hm.notMentioned
  · exact h.2 n h'

/-- what the coverage induction proves for a tree -/
def Covers (fl : Flags) (inp : Inp) (t : Items) : Prop :=
  ∀ (s : St) (P N : List Str), Good s → t.macros.Nodup → FreshAll inp s t.macros → (∀ x ∈ t.macros, x ∉ N) →
    (∃ c ∈ s.ret, sat c P N) → safeItems fl (s.ifs.map nameOf) P t = true →
    ∀ r ∈ t.regions, ∃ c ∈ (run fl inp s t.flatten).ret, sat c P N ∧ r ∈ t.emit (defines c)

theorem nameOf_entry_cls (fl : Flags) (k : Kind) {m : Str} (h : okName m = true) :
    nameOf (entry fl k m) = if cls fl k = .neg then [] else m := by
  unfold entry
  cases hc : cls fl k <;> simp [nameOf_eD h, nameOf_ok h, nameOf_nil]

theorem entry_ne_nil {fl : Flags} {k : Kind} {m : Str} (h : okName m = true) (hc : cls fl k ≠ .neg) : entry fl k m ≠ [] := by
  unfold entry
  have := okName_ne_nil h
  cases hc' : cls fl k <;> simp_all [eD]

theorem then_cover {fl : Flags} {inp : Inp} {s : St} {k : Kind} {m : Str} {thn rest : Items} {P N : List Str} {c0 : Str}
    (g : Good s) (F : CondFacts fl inp s k m thn rest) (ih : Covers fl inp thn)
    (hmN : m ∉ N) (hN : ∀ x ∈ thn.macros, x ∉ N) (hc0 : c0 ∈ s.ret) (hs0 : sat c0 P N)
    (sf : thenCheck fl k m (s.ifs.map nameOf) P (fun stk' P' => safeItems fl stk' P' thn) = true) :
    ∀ r ∈ thn.regions, ∃ c ∈ (stThen fl inp s k m thn).ret, sat c P N ∧ k.holds (defines c) m = true ∧ r ∈ thn.emit (defines c) := by
  intro r hr
  have wf1 : ∀ e' ∈ entry fl k m :: s.ifs, EntryWF e' := by rw [← F.ifs1]; exact F.g1.wf
  have stk1 : (stepOpen fl inp s k m).ifs.map nameOf = nameOf (entry fl k m) :: s.ifs.map nameOf := by rw [F.ifs1]; rfl
  unfold thenCheck at sf
  cases hc : cls fl k with
  | pos =>
    simp only [hc, Bool.and_eq_true] at sf
    have hne := entry_ne_nil (fl := fl) (k := k) F.hm.ok (by simp [hc])
    have hnm : nameOf (entry fl k m) = m := by rw [nameOf_entry_cls fl k F.hm.ok]; simp [hc]
    have av : ∃ c ∈ (stepOpen fl inp s k m).ret, sat c (m :: P) N :=
      ⟨_, F.cfg1, sat_pushed wf1 hne hnm sf.1 hs0 hmN⟩
    obtain ⟨c, hc', hs, he⟩ := ih _ (m :: P) N F.g1 F.ndT F.fr1 hN av (by rw [stk1, hnm]; exact sf.2) r hr
    refine ⟨c, hc', sat_weaken hs (fun p hp => List.mem_cons_of_mem _ hp) (fun n hn => hn), ?_, he⟩
    rw [holds_pos hc]; exact hs.1 m (by simp)
  | neg =>
    simp only [hc] at sf
    have hnm : nameOf (entry fl k m) = [] := by rw [nameOf_entry_cls fl k F.hm.ok]; simp [hc]
    have av : ∃ c ∈ (stepOpen fl inp s k m).ret, sat c P (m :: N) := ⟨c0, F.ret1 c0 hc0, sat_fresh F.hm hc0 hs0⟩
    have hN' : ∀ x ∈ thn.macros, x ∉ m :: N := by
      intro x hx hmem
      rcases List.mem_cons.mp hmem with h | h
      · subst h; exact F.hmT hx
      · exact hN x hx h
    obtain ⟨c, hc', hs, he⟩ := ih _ P (m :: N) F.g1 F.ndT F.fr1 hN' av (by rw [stk1, hnm]; exact sf) r hr
    refine ⟨c, hc', sat_weaken hs (fun p hp => hp) (fun n hn => List.mem_cons_of_mem _ hn), ?_, he⟩
    rw [holds_nonpos (fl := fl) (by simp [hc])]; simp [hs.2 m (by simp)]
  | nd =>
    simp only [hc] at sf
    have hnm : nameOf (entry fl k m) = m := by rw [nameOf_entry_cls fl k F.hm.ok]; simp [hc]
    have av : ∃ c ∈ (stepOpen fl inp s k m).ret, sat c P (m :: N) := ⟨c0, F.ret1 c0 hc0, sat_fresh F.hm hc0 hs0⟩
    have hN' : ∀ x ∈ thn.macros, x ∉ m :: N := by
      intro x hx hmem
      rcases List.mem_cons.mp hmem with h | h
      · subst h; exact F.hmT hx
      · exact hN x hx h
    obtain ⟨c, hc', hs, he⟩ := ih _ P (m :: N) F.g1 F.ndT F.fr1 hN' av (by rw [stk1, hnm]; exact sf) r hr
    refine ⟨c, hc', sat_weaken hs (fun p hp => hp) (fun n hn => List.mem_cons_of_mem _ hn), ?_, he⟩
    rw [holds_nonpos (fl := fl) (by simp [hc])]; simp [hs.2 m (by simp)]

theorem map_nameOf_elseIfs {fl : Flags} {k : Kind} {m e : Str} {ifs : List Str} {a : Nat} (h : okName m = true) :
    (elseIfs fl k m (List.drop a (e :: ifs))).map nameOf =
      if cls fl k = .neg then m :: (ifs.map nameOf).drop a else elseStack fl (ifs.map nameOf) a := by
  unfold elseIfs elseStack
  cases hc : cls fl k <;> cases hf : fl.fixElse <;>
    simp [pop_drop_cons, List.map_drop, nameOf_ok h, nameOf_nil]

theorem else_cover {fl : Flags} {inp : Inp} {s : St} {k : Kind} {m : Str} {thn els rest : Items} {P N : List Str} {c0 : Str}
    (g : Good s) (F : CondFacts fl inp s k m thn rest) (E : ElseFacts fl inp s k m thn els) (ih : Covers fl inp els)
    (hmN : m ∉ N) (hN : ∀ x ∈ els.macros, x ∉ N) (hc0 : c0 ∈ s.ret) (hs0 : sat c0 P N)
    (sf : elseCheck fl k m (s.ifs.map nameOf) P (loss fl thn) (fun stk' P' => safeItems fl stk' P' els) = true) :
    ∀ r ∈ els.regions, ∃ c ∈ (stElse fl inp s k m thn els).ret, sat c P N ∧ k.holds (defines c) m = false ∧ r ∈ els.emit (defines c) := by
  intro r hr
  have wf1 : ∀ e' ∈ entry fl k m :: s.ifs, EntryWF e' := by rw [← F.ifs1]; exact F.g1.wf
  have stk3 : (stepElse fl inp (stThen fl inp s k m thn)).ifs.map nameOf =
      if cls fl k = .neg then m :: (s.ifs.map nameOf).drop (loss fl thn) else elseStack fl (s.ifs.map nameOf) (loss fl thn) := by
    rw [E.ifs3, F.ifs2, map_nameOf_elseIfs F.hm.ok]
  have mono3 : ∀ c ∈ s.ret, c ∈ (stepElse fl inp (stThen fl inp s k m thn)).ret :=
    fun c hc => E.ret3 c (F.p2.mono c (F.ret1 c hc))
  have hN' : ∀ x ∈ els.macros, x ∉ m :: N := by
    intro x hx hmem
    rcases List.mem_cons.mp hmem with h | h
    · subst h; exact E.hmE hx
    · exact hN x hx h
  unfold elseCheck at sf
  cases hc : cls fl k with
  | pos =>
    simp only [hc] at sf
    have av : ∃ c ∈ (stepElse fl inp (stThen fl inp s k m thn)).ret, sat c P (m :: N) :=
      ⟨c0, mono3 c0 hc0, sat_fresh F.hm hc0 hs0⟩
    obtain ⟨c, hc', hs, he⟩ := ih _ P (m :: N) E.g3 E.ndE E.fr3 hN' av (by rw [stk3]; simpa [hc] using sf) r hr
    refine ⟨c, hc', sat_weaken hs (fun p hp => hp) (fun n hn => List.mem_cons_of_mem _ hn), ?_, he⟩
    rw [holds_pos hc]; exact hs.2 m (by simp)
  | neg =>
    simp only [hc, Bool.and_eq_true] at sf
    have e3 : (stepElse fl inp (stThen fl inp s k m thn)).ifs = m :: List.drop (loss fl thn) s.ifs := by
      rw [E.ifs3, F.ifs2]; simp [elseIfs, hc, pop_drop_cons]
    have wf3 : ∀ e' ∈ m :: List.drop (loss fl thn) s.ifs, EntryWF e' := by rw [← e3]; exact E.g3.wf
    have c3 : cfg (m :: List.drop (loss fl thn) s.ifs) [] ∈ (stepElse fl inp (stThen fl inp s k m thn)).ret := by
      have := E.cfg3 hc; rw [F.ifs2, pop_drop_cons] at this; exact this
    have av : ∃ c ∈ (stepElse fl inp (stThen fl inp s k m thn)).ret, sat c (m :: P) N :=
      ⟨_, c3, sat_pushed wf3 (okName_ne_nil F.hm.ok) (nameOf_ok F.hm.ok) (by rw [List.map_drop]; exact sf.1) hs0 hmN⟩
    obtain ⟨c, hc', hs, he⟩ := ih _ (m :: P) N E.g3 E.ndE E.fr3 hN av (by rw [stk3]; simpa [hc] using sf.2) r hr
    refine ⟨c, hc', sat_weaken hs (fun p hp => List.mem_cons_of_mem _ hp) (fun n hn => hn), ?_, he⟩
    rw [holds_nonpos (fl := fl) (by simp [hc])]; simp [hs.1 m (by simp)]
  | nd =>
    simp only [hc, Bool.and_eq_true] at sf
    have hne := entry_ne_nil (fl := fl) (k := k) F.hm.ok (by simp [hc])
    have hnm : nameOf (entry fl k m) = m := by rw [nameOf_entry_cls fl k F.hm.ok]; simp [hc]
    have av : ∃ c ∈ (stepElse fl inp (stThen fl inp s k m thn)).ret, sat c (m :: P) N :=
      ⟨_, E.ret3 _ (F.p2.mono _ F.cfg1), sat_pushed wf1 hne hnm sf.1 hs0 hmN⟩
    obtain ⟨c, hc', hs, he⟩ := ih _ (m :: P) N E.g3 E.ndE E.fr3 hN av (by rw [stk3]; simpa [hc] using sf.2) r hr
    refine ⟨c, hc', sat_weaken hs (fun p hp => List.mem_cons_of_mem _ hp) (fun n hn => hn), ?_, he⟩
    rw [holds_nonpos (fl := fl) (by simp [hc])]; simp [hs.1 m (by simp)]

theorem regions_isEmpty_false {t : Items} {r : Nat} (h : r ∈ t.regions) : t.regions.isEmpty = false := by
  cases hr : t.regions with
  | nil => rw [hr] at h; simp at h
  | cons a as => rfl

theorem walk_cover (fl : Flags) (inp : Inp) (hud : inp.userDefines = []) : ∀ t : Items, Covers fl inp t
  | .done => by intro s P N _ _ _ _ _ _ r hr; simp [Items.regions] at hr
  | .region r0 rest => by
    intro s P N g nd fr hN av sf r hr
    have ps := walk_struct fl inp hud rest s g nd fr
    simp only [Items.flatten, run_cons, step_region g.skip]
    rcases List.mem_cons.mp hr with h | h
    · subst h
      obtain ⟨c0, hc0, hs0⟩ := av
      exact ⟨c0, ps.mono c0 hc0, hs0, by simp [Items.emit]⟩
    · obtain ⟨c, hc, hs, he⟩ := walk_cover fl inp hud rest s P N g nd fr hN av (by simpa [safeItems] using sf) r h
      exact ⟨c, hc, hs, by simp [Items.emit, he]⟩
  | .cond k m thn rest => by
    intro s P N g nd fr hN av sf r hr
    have nd0 : (m :: (thn.macros ++ rest.macros)).Nodup := nd
    have fr0 : FreshAll inp s (m :: (thn.macros ++ rest.macros)) := fr
    have hN0 : ∀ x ∈ m :: (thn.macros ++ rest.macros), x ∉ N := hN
    obtain ⟨hm_notin, nd'⟩ := List.nodup_cons.mp nd0
    obtain ⟨ndT, ndR, disj⟩ := List.nodup_append.mp nd'
    have F : CondFacts fl inp s k m thn rest :=
      cond_facts hud g nd0 ndR fr0 (fun s1 g1 n1 f1 => walk_struct fl inp hud thn s1 g1 n1 f1)
    obtain ⟨p3, r3⟩ := cond_close g F
    have fr3 : FreshAll inp (stepEndif (stThen fl inp s k m thn)) rest.macros :=
      p3.freshAll (fun x hx => fr0 x (by simp [hx])) (by
        intro x hx hmem
        rcases List.mem_cons.mp hmem with h | h
        · subst h; exact hm_notin (List.mem_append_right _ hx)
        · exact disj x h x hx rfl)
    have p4 := walk_struct fl inp hud rest _ (p3.good g) ndR fr3
    rw [run_cond k m thn rest g.skip F.g2.skip]
    obtain ⟨c0, hc0, hs0⟩ := av
    simp only [safeItems, Bool.and_eq_true] at sf
    have hr' : r ∈ thn.regions ++ rest.regions := hr
    rcases List.mem_append.mp hr' with h | h
    · have sfT := sf.1
      rw [regions_isEmpty_false h] at sfT
      obtain ⟨c, hc, hs, hh, he⟩ := then_cover g F (walk_cover fl inp hud thn) (hN0 m (by simp))
        (fun x hx => hN0 x (by simp [hx])) hc0 hs0 (by simpa using sfT) r h
      refine ⟨c, p4.mono c (by rw [r3]; exact hc), hs, ?_⟩
      simp [Items.emit, hh, he]
    · have sfR := sf.2
      obtain ⟨c, hc, hs, he⟩ := walk_cover fl inp hud rest _ P N (p3.good g) ndR fr3
        (fun x hx => hN0 x (by simp [hx])) ⟨c0, p3.mono c0 hc0, hs0⟩ (by rw [p3.ifs, List.map_drop]; exact sfR) r h
      exact ⟨c, hc, hs, by simp [Items.emit, he]⟩
  | .condElse k m thn els rest => by
    intro s P N g nd fr hN av sf r hr
    have nd0 : (m :: (thn.macros ++ els.macros ++ rest.macros)).Nodup := nd
    have fr0 : FreshAll inp s (m :: (thn.macros ++ els.macros ++ rest.macros)) := fr
    have hN0 : ∀ x ∈ m :: (thn.macros ++ els.macros ++ rest.macros), x ∉ N := hN
    obtain ⟨hm_notin, nd'⟩ := List.nodup_cons.mp nd0
    obtain ⟨ndTE, ndR, disjR⟩ := List.nodup_append.mp nd'
    have F : CondFacts fl inp s k m thn rest :=
      cond_facts (extra := els.macros ++ rest.macros) hud g (by simpa [List.append_assoc] using nd0) ndR
        (by simpa [List.append_assoc] using fr0) (fun s1 g1 n1 f1 => walk_struct fl inp hud thn s1 g1 n1 f1)
    have E : ElseFacts fl inp s k m thn els :=
      else_facts hud fr0 nd0 F (fun s1 g1 n1 f1 => walk_struct fl inp hud els s1 g1 n1 f1)
    have fr5 : FreshAll inp (stepEndif (stElse fl inp s k m thn els)) rest.macros :=
      E.p5.freshAll (fun x hx => fr0 x (by simp [hx])) (by
        intro x hx hmem
        rcases List.mem_cons.mp hmem with h | h
        · subst h; exact hm_notin (List.mem_append_right _ hx)
        · exact disjR x h x hx rfl)
    have p6 := walk_struct fl inp hud rest _ (E.p5.good g) ndR fr5
    rw [run_condElse k m thn els rest g.skip F.g2.skip E.g4.skip]
    obtain ⟨c0, hc0, hs0⟩ := av
    simp only [safeItems, Bool.and_eq_true] at sf
    have hr' : r ∈ thn.regions ++ els.regions ++ rest.regions := hr
    rcases List.mem_append.mp hr' with h | h
    · rcases List.mem_append.mp h with h | h
      · have sfT := sf.1.1
        rw [regions_isEmpty_false h] at sfT
        obtain ⟨c, hc, hs, hh, he⟩ := then_cover g F (walk_cover fl inp hud thn) (hN0 m (by simp))
          (fun x hx => hN0 x (by simp [hx])) hc0 hs0 (by simpa using sfT) r h
        refine ⟨c, p6.mono c (by rw [E.ret5]; exact E.p4.mono c (E.ret3 c hc)), hs, ?_⟩
        simp [Items.emit, hh, he]
      · have sfE := sf.1.2
        rw [regions_isEmpty_false h] at sfE
        obtain ⟨c, hc, hs, hh, he⟩ := else_cover g F E (walk_cover fl inp hud els) (hN0 m (by simp))
          (fun x hx => hN0 x (by simp [hx])) hc0 hs0 (by simpa using sfE) r h
        refine ⟨c, p6.mono c (by rw [E.ret5]; exact hc), hs, ?_⟩
        simp [Items.emit, hh, he]
    · have sfR := sf.2
      obtain ⟨c, hc, hs, he⟩ := walk_cover fl inp hud rest _ P N (E.p5.good g) ndR fr5
        (fun x hx => hN0 x (by simp [hx])) ⟨c0, E.p5.mono c0 hc0, hs0⟩ (by rw [E.p5.ifs, List.map_drop]; exact sfR) r h
      exact ⟨c, hc, hs, by simp [Items.emit, he]⟩


/-! ### the repaired algorithm is safe on every tree -/

theorem loss_fixElse {fl : Flags} (h : fl.fixElse = true) : ∀ t : Items, loss fl t = 0
  | .done => rfl
  | .region _ rest => by simp [loss, loss_fixElse h rest]
  | .cond _ _ t rest => by simp [loss, loss_fixElse h t, loss_fixElse h rest]
  | .condElse k _ t e rest => by simp [loss, loss_fixElse h t, loss_fixElse h e, loss_fixElse h rest, dropsAtElse, h]

theorem sameSet_push {stk P : List Str} {m : Str} (hm : m ≠ []) (h : sameSet (names stk) P = true) :
    sameSet (names (m :: stk)) (m :: P) = true := by
  rw [sameSet_iff] at *
  intro x
  rw [names_cons_ne hm]
  simp [h x]

theorem sameSet_push_nil {stk P : List Str} (h : sameSet (names stk) P = true) :
    sameSet (names ([] :: stk)) P = true := by rw [names_cons_nil]; exact h

theorem safeItems_repaired {fl : Flags} (h1 : fl.fixElse = true) (h2 : fl.fixNotDef = true) :
    ∀ (t : Items) (stk P : List Str), (∀ m ∈ t.macros, m ≠ []) → sameSet (names stk) P = true → safeItems fl stk P t = true
  | .done, _, _, _, _ => rfl
  | .region _ rest, stk, P, hm, hs => by simpa [safeItems] using safeItems_repaired h1 h2 rest stk P hm hs
  | .cond k m t rest, stk, P, hm, hs => by
    have hmm : m ≠ [] := hm m (by simp [Items.macros])
    have hT := fun stk' P' => safeItems_repaired h1 h2 t stk' P' (fun x hx => hm x (by simp [Items.macros, hx]))
    have hR := safeItems_repaired h1 h2 rest stk P (fun x hx => hm x (by simp [Items.macros, hx])) hs
    simp only [safeItems, loss_fixElse h1, List.drop_zero, hR, Bool.and_true, Bool.or_eq_true]
    right
    unfold thenCheck
    cases k <;> simp [cls, h2, hs, hT _ _ (sameSet_push hmm hs), hT _ _ (sameSet_push_nil hs)]
  | .condElse k m t e rest, stk, P, hm, hs => by
    have hmm : m ≠ [] := hm m (by simp [Items.macros])
    have hT := fun stk' P' => safeItems_repaired h1 h2 t stk' P' (fun x hx => hm x (by simp [Items.macros, hx]))
    have hE := fun stk' P' => safeItems_repaired h1 h2 e stk' P' (fun x hx => hm x (by simp [Items.macros, hx]))
    have hR := safeItems_repaired h1 h2 rest stk P (fun x hx => hm x (by simp [Items.macros, hx])) hs
    have d0 : dropsAtElse fl k = false := by simp [dropsAtElse, h1]
    simp only [safeItems, loss_fixElse h1, d0, Bool.or_eq_true, Bool.and_eq_true]
    refine ⟨⟨Or.inr ?_, Or.inr ?_⟩, by simpa using hR⟩
    · unfold thenCheck
      cases k <;> simp [cls, h2, hs, hT _ _ (sameSet_push hmm hs), hT _ _ (sameSet_push_nil hs)]
    · unfold elseCheck elseStack
      cases k <;> simp [cls, h1, h2, hs, hE _ _ (sameSet_push hmm hs), hE _ _ (sameSet_push_nil hs)]


/-! ### -U: no extracted configuration names an undefined macro (any directive list, any variant) -/

theorem dropWhile_append_of_all {p : Char → Bool} {m r : Str} {c : Char} (hm : ∀ x ∈ m, p x = true) (hc : p c = false) :
    (m ++ c :: r).dropWhile p = c :: r := by
  induction m with
  | nil => simp [List.dropWhile, hc]
  | cons a as ih =>
    have ha : p a = true := hm a (by simp)
    simp [List.dropWhile, ha]
    exact ih (fun x hx => hm x (by simp [hx]))

theorem fromEq_eD {m : Str} (h : okName m = true) : fromEq (eD m) = '=' :: m := by
  unfold fromEq eD
  apply dropWhile_append_of_all
  · intro x hx
    have := okName_chars h x hx
    simp [this]
  · simp

theorem isUndefined_ok_mem {m : Str} {undefs : List Str} (h : okName m = true) (hu : m ∈ undefs) :
    isUndefined m undefs = true := by
  have : pieces m = [m] := by
    have := pieces_joinSemi (xs := [m]) (by intro y hy; simp at hy; subst hy; exact okPiece_of_ok h)
    simpa [joinSemi] using this
  simp [isUndefined, this, isUndefinedPiece, hasEq_ok h, hu]

theorem isUndefined_eD_mem {m : Str} {undefs : List Str} (h : okName m = true) (hu : m ∈ undefs) :
    isUndefined (eD m) undefs = true := by
  have : pieces (eD m) = [eD m] := by
    have := pieces_joinSemi (xs := [eD m]) (by intro y hy; simp at hy; subst hy; exact okPiece_eD h)
    simpa [joinSemi] using this
  have h0 : m ≠ ['0'] := by intro h0; subst h0; simp [okName] at h
  simp [isUndefined, this, isUndefinedPiece, hasEq_eD, beforeEq_eD h, fromEq_eD h, hu, h0]

/-- entry is well formed and names no `-U` macro -/
def UOk (undefs : List Str) (e : Str) : Prop := EntryWF e ∧ (e ≠ [] → nameOf e ∉ undefs)

theorem UOk.nil (undefs : List Str) : UOk undefs [] := ⟨EntryWF.nil, fun h => absurd rfl h⟩

theorem openConfig_uok (k : Kind) {m : Str} (defined undefs : List Str) (h : okName m = true) :
    UOk undefs (openConfig k m defined undefs) := by
  have e1 : m ++ '=' :: m = eD m := rfl
  by_cases hu : m ∈ undefs
  · have i1 := isUndefined_ok_mem h hu
    have i2 := isUndefined_eD_mem h hu
    have : openConfig k m defined undefs = [] := by
      cases k <;> simp only [openConfig, e1] <;> split <;> simp_all [isUndefined_nil]
    rw [this]; exact UOk.nil _
  · have i1 := isUndefined_ok (undefs := undefs) h hu
    have i2 := isUndefined_eD (undefs := undefs) h hu
    have u1 : UOk undefs m := ⟨EntryWF.bare h, fun _ => by rw [nameOf_ok h]; exact hu⟩
    have u2 : UOk undefs (eD m) := ⟨EntryWF.self h, fun _ => by rw [nameOf_eD h]; exact hu⟩
    cases k <;> simp only [openConfig, e1] <;> split <;> simp_all [isUndefined_nil, UOk.nil]

structure UInv (undefs : List Str) (s : St) : Prop where
  ifs : ∀ e ∈ s.ifs, UOk undefs e
  ifndefs : ∀ e ∈ s.ifndefs, UOk undefs e
  ret : ∀ c ∈ s.ret, ∀ x ∈ undefs, defines c x = false

theorem defines_cfg_uok {ifs : List Str} {undefs : List Str} (ud : Str) (h : ∀ e ∈ ifs, UOk undefs e) :
    ∀ x ∈ undefs, defines (cfg ifs ud) x = false := by
  intro x hx
  cases hd : defines (cfg ifs ud) x with
  | false => rfl
  | true =>
    obtain ⟨e, he, hne, hn⟩ := defines_cfg_sub ud (fun e he => (h e he).1) x hd
    exact absurd (hn ▸ hx) ((h e he).2 hne)

theorem UInv.push {undefs : List Str} {s : St} {e n ud : Str} {ret : List Str} (h : UInv undefs s) (he : UOk undefs e)
    (hn : UOk undefs n) (hr : ∀ c ∈ ret, c ∈ s.ret) :
    UInv undefs { s with ifs := e :: s.ifs, ifndefs := n :: s.ifndefs, ret := setInsert (cfg (e :: s.ifs) ud) ret } := by
  have hi : ∀ e' ∈ e :: s.ifs, UOk undefs e' := by
    intro e' h'; rcases List.mem_cons.mp h' with h' | h'
    · subst h'; exact he
    · exact h.ifs e' h'
  refine ⟨hi, ?_, ?_⟩
  · intro e' h'; rcases List.mem_cons.mp h' with h' | h'
    · subst h'; exact hn
    · exact h.ifndefs e' h'
  · intro c hc
    rcases mem_setInsert.mp hc with hc | hc
    · subst hc; exact defines_cfg_uok ud hi
    · exact h.ret c (hr c hc)

theorem stepOpen_cases (fl : Flags) (inp : Inp) (s : St) (k : Kind) (m : Str) :
    stepOpen fl inp s k m = s ∨
    ∃ e n ret, (e = [] ∨ e = openConfig k m s.defined inp.undefs) ∧ (n = [] ∨ n = openConfig k m s.defined inp.undefs) ∧
      (ret = s.ret ∨ ∃ y, ret = s.ret.erase (y ++ '=' :: y)) ∧
      stepOpen fl inp s k m =
        { s with ifs := e :: s.ifs, ifndefs := n :: s.ifndefs, ret := setInsert (cfg (e :: s.ifs) inp.userDefines) ret } := by
  unfold stepOpen
  generalize openConfig k m s.defined inp.undefs = config
  by_cases h1 : (k == Kind.ifndef || fl.fixNotDef && k == Kind.ifNotDefined && !config.isEmpty) = true
  · right
    refine ⟨[], config, s.ret, Or.inl rfl, Or.inr rfl, Or.inl rfl, ?_⟩
    simp [h1]
  · by_cases h2 : (if hasEq config then beforeEq config else config ++ '=' :: config) ∈ s.ret
    · by_cases h3 : hasEq config = true
      · left; simp only [h3, if_true] at h2; simp [h1, h2, h3]
      · right
        refine ⟨config, [], s.ret.erase (config ++ '=' :: config), Or.inr rfl, Or.inl rfl, Or.inr ⟨config, rfl⟩, ?_⟩
        have h3' : hasEq config = false := by simpa using h3
        simp only [h3', Bool.false_eq_true, if_false] at h2
        simp [h1, h2, h3']
    · right
      refine ⟨config, [], s.ret, Or.inr rfl, Or.inl rfl, Or.inl rfl, ?_⟩
      simp [h1, h2]

theorem uinv_step (fl : Flags) (inp : Inp) (s : St) (d : Dir) (h : UInv inp.undefs s)
    (hd : ∀ k m, d = .opn k m → okName m = true) : UInv inp.undefs (step fl inp s d) := by
  unfold step
  cases hs : s.skip with
  | some lvl =>
    cases d with
    | opn k m => exact ⟨h.ifs, h.ifndefs, h.ret⟩
    | endif =>
      simp only
      split
      · exact ⟨fun e he => h.ifs e (List.mem_of_mem_tail he), fun e he => h.ifndefs e (List.mem_of_mem_tail he), h.ret⟩
      · exact ⟨h.ifs, h.ifndefs, h.ret⟩
    | els => exact h
    | region r => exact h
    | define m => exact h
  | none =>
    cases d with
    | region r => exact h
    | define m => exact ⟨h.ifs, h.ifndefs, h.ret⟩
    | endif => exact ⟨fun e he => h.ifs e (List.mem_of_mem_tail he), fun e he => h.ifndefs e (List.mem_of_mem_tail he), h.ret⟩
    | opn k m =>
      have hc := openConfig_uok k s.defined inp.undefs (hd k m rfl)
      rcases stepOpen_cases fl inp s k m with e | ⟨e, n, ret, he, hn, hr, eq⟩
      · simp only [e]; exact h
      · simp only [eq]
        have hr' : ∀ c ∈ ret, c ∈ s.ret := by
          rcases hr with hr | ⟨y, hr⟩ <;> subst hr
          · exact fun c hc => hc
          · exact fun c hc => List.mem_of_mem_erase hc
        refine h.push ?_ ?_ hr'
        · rcases he with he | he <;> subst he
          · exact UOk.nil _
          · exact hc
        · rcases hn with hn | hn <;> subst hn
          · exact UOk.nil _
          · exact hc
    | els =>
      simp only [stepElse]
      split
      · exact ⟨h.ifs, h.ifndefs, h.ret⟩
      · have hp : ∀ e ∈ pop s.ifs, UOk inp.undefs e := fun e he => h.ifs e (List.mem_of_mem_tail he)
        split
        · exact ⟨hp, h.ifndefs, h.ret⟩
        · next cand rest hnd =>
          have hcand : UOk inp.undefs cand := h.ifndefs cand (by rw [hnd]; simp)
          split
          · have hi : ∀ e' ∈ cand :: pop s.ifs, UOk inp.undefs e' := by
              intro e' h'; rcases List.mem_cons.mp h' with h' | h'
              · subst h'; exact hcand
              · exact hp e' h'
            refine ⟨hi, h.ifndefs, ?_⟩
            intro c hc
            rcases mem_setInsert.mp hc with hc | hc
            · subst hc; exact defines_cfg_uok _ hi
            · exact h.ret c (List.mem_of_mem_erase hc)
          · split
            · refine ⟨?_, h.ifndefs, h.ret⟩
              intro e' h'; rcases List.mem_cons.mp h' with h' | h'
              · subst h'; exact UOk.nil _
              · exact hp e' h'
            · exact ⟨hp, h.ifndefs, h.ret⟩

theorem uinv_run (fl : Flags) (inp : Inp) : ∀ (ds : List Dir) (s : St), UInv inp.undefs s →
    (∀ k m, Dir.opn k m ∈ ds → okName m = true) → UInv inp.undefs (run fl inp s ds)
  | [], s, h, _ => h
  | d :: ds, s, h, hd => by
    rw [run_cons]
    exact uinv_run fl inp ds _ (uinv_step fl inp s d h (fun k m e => hd k m (by simp [e])))
      (fun k m hm => hd k m (List.mem_cons_of_mem _ hm))

theorem getConfigs_no_undef (fl : Flags) (inp : Inp) (ds : List Dir) (hd : ∀ k m, Dir.opn k m ∈ ds → okName m = true) :
    ∀ c ∈ getConfigsWith fl inp ds, ∀ x ∈ inp.undefs, defines c x = false := by
  have h0 : UInv inp.undefs (St.init inp) :=
    ⟨by intro e he; simp [St.init] at he, by intro e he; simp [St.init] at he,
     by intro c hc x _; simp [St.init] at hc; subst hc; exact defines_nil x⟩
  exact (uinv_run fl inp ds _ h0 hd).ret

/-! ### the empty configuration is never removed (no `#error` in the alphabet) -/

theorem nil_mem_step (fl : Flags) (inp : Inp) (s : St) (d : Dir) (h : [] ∈ s.ret) : [] ∈ (step fl inp s d).ret := by
  have hne : ∀ y : Str, ([] : Str) ≠ y ++ '=' :: y := by intro y; simp
  unfold step
  cases hs : s.skip with
  | some lvl =>
    cases d with
    | endif => simp only; split <;> exact h
    | opn k m => exact h
    | els => exact h
    | region r => exact h
    | define m => exact h
  | none =>
    cases d with
    | region r => exact h
    | define m => exact h
    | endif => exact h
    | opn k m =>
      rcases stepOpen_cases fl inp s k m with e | ⟨e, n, ret, _, _, hr, eq⟩
      · simp only [e]; exact h
      · simp only [eq]
        apply mem_setInsert.mpr; right
        rcases hr with hr | ⟨y, hr⟩ <;> subst hr
        · exact h
        · exact (List.mem_erase_of_ne (hne y)).mpr h
    | els =>
      simp only [stepElse]
      split
      · exact h
      · split
        · exact h
        · split
          · apply mem_setInsert.mpr; right
            exact (List.mem_erase_of_ne (hne _)).mpr h
          · split <;> exact h

theorem nil_mem_run (fl : Flags) (inp : Inp) : ∀ (ds : List Dir) (s : St), [] ∈ s.ret → [] ∈ (run fl inp s ds).ret
  | [], _, h => h
  | d :: ds, s, h => by rw [run_cons]; exact nil_mem_run fl inp ds _ (nil_mem_step fl inp s d h)

theorem nil_mem_getConfigs (fl : Flags) (inp : Inp) (ds : List Dir) : [] ∈ getConfigsWith fl inp ds :=
  nil_mem_run fl inp ds _ (by simp [St.init])


/-! ### -D: composition of `currentConfig` -/

theorem splitSemi_append_semi (a b : Str) : splitSemi (a ++ ';' :: b) = splitSemi a ++ splitSemi b := by
  induction a with
  | nil => simp [splitSemi]
  | cons c cs ih =>
    simp only [List.cons_append, splitSemi]
    split
    · simp [ih]
    · rw [ih]
      cases h : splitSemi cs with
      | nil => exact absurd h (splitSemi_ne_nil cs)
      | cons p ps => simp

theorem mem_of_mem_dropTrailingEmpty {p : Str} : ∀ {l : List Str}, p ∈ dropTrailingEmpty l → p ∈ l
  | [], h => by simp [dropTrailingEmpty] at h
  | [x], h => by
    simp only [dropTrailingEmpty] at h
    split at h
    · simp at h
    · exact h
  | x :: y :: r, h => by
    simp only [dropTrailingEmpty] at h
    rcases List.mem_cons.mp h with h | h
    · simp [h]
    · exact List.mem_cons_of_mem _ (mem_of_mem_dropTrailingEmpty h)

theorem dropTrailingEmpty_append {l l' : List Str} (h : l' ≠ []) :
    dropTrailingEmpty (l ++ l') = l ++ dropTrailingEmpty l' := by
  induction l with
  | nil => rfl
  | cons x xs ih =>
    rw [List.cons_append, dropTrailingEmpty_cons (by simp [h]), ih]; rfl

theorem mem_pieces_append {p a b : Str} (h : p ∈ pieces a) : p ∈ pieces (a ++ ';' :: b) := by
  unfold pieces at *
  rw [splitSemi_append_semi, dropTrailingEmpty_append (splitSemi_ne_nil b)]
  exact List.mem_append_left _ (mem_of_mem_dropTrailingEmpty h)

theorem defines_append {a b : Str} {x : Str} (h : defines a x = true) : defines (a ++ ';' :: b) x = true := by
  simp only [defines, List.contains_iff_mem, List.mem_map] at *
  obtain ⟨p, hp, hn⟩ := h
  exact ⟨p, mem_pieces_append hp, hn⟩

theorem flatMap_semi_shape (l : List Str) :
    l.flatMap (fun c => ';' :: c) = [] ∨ ∃ r, l.flatMap (fun c => ';' :: c) = ';' :: r := by
  cases l with
  | nil => exact Or.inl rfl
  | cons a as => exact Or.inr ⟨_, rfl⟩

theorem defines_currentConfig {ud c x : Str} (h : defines ud x = true) : defines (currentConfig ud c) x = true := by
  unfold currentConfig
  split
  · next he =>
    have : ud = [] := by simpa using he
    subst this; rw [defines_nil] at h; exact absurd h (by simp)
  · rcases flatMap_semi_shape ((splitQ c).filter (fun c => !(splitQ ud).contains c)) with e | ⟨r, e⟩
    · simp only [e, List.append_nil]; exact h
    · simp only [e]; exact defines_append h

theorem currentConfig_nil (c : Str) : currentConfig [] c = c := by simp [currentConfig]


/-! ### syntactic classes inside `safe` -/

theorem flat_regions_or {t : Items} (h : t.flat = true) (fl : Flags) : ∀ stk P, safeItems fl stk P t = true := by
  induction t with
  | done => intro _ _; rfl
  | region r rest ih => intro stk P; simpa [safeItems] using ih (by simpa [Items.flat] using h) stk P
  | cond => simp [Items.flat] at h
  | condElse => simp [Items.flat] at h

theorem sameSet_refl (l : List Str) : sameSet l l = true := sameSet_iff.mpr (fun _ => Iff.rfl)

/-- `#else` stack repair only: every tree whose `#if !defined` conditionals contain regions only is safe -/
theorem safeItems_fixElse {fl : Flags} (h1 : fl.fixElse = true) :
    ∀ (t : Items) (stk P : List Str), (∀ m ∈ t.macros, m ≠ []) → ndLeaf t = true → sameSet (names stk) P = true →
      safeItems fl stk P t = true
  | .done, _, _, _, _, _ => rfl
  | .region _ rest, stk, P, hm, hl, hs => by
    simpa [safeItems] using safeItems_fixElse h1 rest stk P hm (by simpa [ndLeaf] using hl) hs
  | .cond k m t rest, stk, P, hm, hl, hs => by
    have hmm : m ≠ [] := hm m (by simp [Items.macros])
    simp only [ndLeaf, Bool.and_eq_true] at hl
    have hR := safeItems_fixElse h1 rest stk P (fun x hx => hm x (by simp [Items.macros, hx])) hl.2 hs
    simp only [safeItems, loss_fixElse h1, Bool.or_eq_true, Bool.and_eq_true]
    refine ⟨Or.inr ?_, by simpa using hR⟩
    unfold thenCheck
    by_cases hk : k = .ifNotDefined
    · have hf : t.flat = true := by simpa [hk] using hl.1
      subst hk
      cases hfn : fl.fixNotDef <;> simp [cls, hfn, flat_regions_or hf]
    · have hT := fun stk' P' => safeItems_fixElse h1 t stk' P' (fun x hx => hm x (by simp [Items.macros, hx])) (by simpa [hk] using hl.1)
      cases k <;> simp_all [cls, hT _ _ (sameSet_push hmm hs), hT _ _ (sameSet_push_nil hs)]
  | .condElse k m t e rest, stk, P, hm, hl, hs => by
    have hmm : m ≠ [] := hm m (by simp [Items.macros])
    simp only [ndLeaf, Bool.and_eq_true] at hl
    have hR := safeItems_fixElse h1 rest stk P (fun x hx => hm x (by simp [Items.macros, hx])) hl.2 hs
    have d0 : dropsAtElse fl k = false := by simp [dropsAtElse, h1]
    simp only [safeItems, loss_fixElse h1, d0, Bool.or_eq_true, Bool.and_eq_true]
    refine ⟨⟨Or.inr ?_, Or.inr ?_⟩, by simpa using hR⟩
    · unfold thenCheck
      by_cases hk : k = .ifNotDefined
      · have hf : t.flat = true := by have := hl.1; simp [hk] at this; exact this.1
        subst hk
        cases hfn : fl.fixNotDef <;> simp [cls, hfn, flat_regions_or hf]
      · have hT := fun stk' P' => safeItems_fixElse h1 t stk' P' (fun x hx => hm x (by simp [Items.macros, hx]))
          (by have := hl.1; simp [hk] at this; exact this.1)
        cases k <;> simp_all [cls, hT _ _ (sameSet_push hmm hs), hT _ _ (sameSet_push_nil hs)]
    · unfold elseCheck elseStack
      by_cases hk : k = .ifNotDefined
      · have hf : e.flat = true := by have := hl.1; simp [hk] at this; exact this.2
        subst hk
        cases hfn : fl.fixNotDef <;> simp [cls, hfn, h1, hs, flat_regions_or hf]
      · have hE := fun stk' P' => safeItems_fixElse h1 e stk' P' (fun x hx => hm x (by simp [Items.macros, hx]))
          (by have := hl.1; simp [hk] at this; exact this.2)
        cases k <;> simp_all [cls, hE _ _ (sameSet_push hmm hs), hE _ _ (sameSet_push_nil hs)]

theorem loss_noDrop (fl : Flags) : ∀ t : Items, noDropElse t = true → loss fl t = 0
  | .done, _ => rfl
  | .region _ rest, h => by simpa [loss] using loss_noDrop fl rest (by simpa [noDropElse] using h)
  | .cond _ _ t rest, h => by
    simp only [noDropElse, Bool.and_eq_true] at h
    simp [loss, loss_noDrop fl t h.1, loss_noDrop fl rest h.2]
  | .condElse k _ t e rest, h => by
    simp only [noDropElse, Bool.and_eq_true, beq_iff_eq] at h
    obtain ⟨⟨⟨hk, ht⟩, he⟩, hr⟩ := h
    subst hk
    simp [loss, loss_noDrop fl t ht, loss_noDrop fl e he, loss_noDrop fl rest hr, dropsAtElse, cls]

/-- below the top level: no `#else` except on `#ifndef`, `#if !defined` conditionals contain regions only -/
theorem safeItems_noDrop (fl : Flags) :
    ∀ (t : Items) (stk P : List Str), (∀ m ∈ t.macros, m ≠ []) → ndLeaf t = true → noDropElse t = true →
      sameSet (names stk) P = true → safeItems fl stk P t = true
  | .done, _, _, _, _, _, _ => rfl
  | .region _ rest, stk, P, hm, hl, hn, hs => by
    simpa [safeItems] using safeItems_noDrop fl rest stk P hm (by simpa [ndLeaf] using hl) (by simpa [noDropElse] using hn) hs
  | .cond k m t rest, stk, P, hm, hl, hn, hs => by
    have hmm : m ≠ [] := hm m (by simp [Items.macros])
    simp only [ndLeaf, Bool.and_eq_true] at hl
    simp only [noDropElse, Bool.and_eq_true] at hn
    have hR := safeItems_noDrop fl rest stk P (fun x hx => hm x (by simp [Items.macros, hx])) hl.2 hn.2 hs
    simp only [safeItems, loss_noDrop fl t hn.1, Bool.or_eq_true, Bool.and_eq_true]
    refine ⟨Or.inr ?_, by simpa using hR⟩
    unfold thenCheck
    by_cases hk : k = .ifNotDefined
    · have hf : t.flat = true := by simpa [hk] using hl.1
      subst hk
      cases hfn : fl.fixNotDef <;> simp [cls, hfn, flat_regions_or hf]
    · have hT := fun stk' P' => safeItems_noDrop fl t stk' P' (fun x hx => hm x (by simp [Items.macros, hx]))
        (by simpa [hk] using hl.1) hn.1
      cases k <;> simp_all [cls, hT _ _ (sameSet_push hmm hs), hT _ _ (sameSet_push_nil hs)]
  | .condElse k m t e rest, stk, P, hm, hl, hn, hs => by
    have hmm : m ≠ [] := hm m (by simp [Items.macros])
    simp only [noDropElse, Bool.and_eq_true, beq_iff_eq] at hn
    obtain ⟨⟨⟨hk, hnt⟩, hne⟩, hnr⟩ := hn
    subst hk
    simp only [ndLeaf, Bool.and_eq_true] at hl
    have hlt : ndLeaf t = true := by have := hl.1; simp at this; exact this.1
    have hle : ndLeaf e = true := by have := hl.1; simp at this; exact this.2
    have hR := safeItems_noDrop fl rest stk P (fun x hx => hm x (by simp [Items.macros, hx])) hl.2 hnr hs
    have hT := safeItems_noDrop fl t ([] :: stk) P (fun x hx => hm x (by simp [Items.macros, hx])) hlt hnt (sameSet_push_nil hs)
    have hE := safeItems_noDrop fl e (m :: stk) (m :: P) (fun x hx => hm x (by simp [Items.macros, hx])) hle hne (sameSet_push hmm hs)
    simp only [safeItems, loss_noDrop fl t hnt, loss_noDrop fl e hne, Bool.or_eq_true, Bool.and_eq_true]
    refine ⟨⟨Or.inr ?_, Or.inr ?_⟩, by simpa [dropsAtElse, cls] using hR⟩
    · simp [thenCheck, cls, hT]
    · simp [elseCheck, cls, hs, hE]

/-- top level of the code as it is: surplus pops hit the empty vector -/
theorem safeItems_simpleElse (fl : Flags) :
    ∀ (t : Items), (∀ m ∈ t.macros, m ≠ []) → ndLeaf t = true → simpleElse t = true → safeItems fl [] [] t = true
  | .done, _, _, _ => rfl
  | .region _ rest, hm, hl, hn => by
    simpa [safeItems] using safeItems_simpleElse fl rest hm (by simpa [ndLeaf] using hl) (by simpa [simpleElse] using hn)
  | .cond k m t rest, hm, hl, hn => by
    have hmm : m ≠ [] := hm m (by simp [Items.macros])
    simp only [simpleElse, Bool.and_eq_true] at hn
    have hl0 := hl
    simp only [ndLeaf, Bool.and_eq_true] at hl
    have hR := safeItems_simpleElse fl rest (fun x hx => hm x (by simp [Items.macros, hx])) hl.2 hn.2
    have h0 : sameSet (names ([] : List Str)) [] = true := by decide
    have hC := safeItems_noDrop fl (.cond k m t .done) [] [] (fun x hx => hm x (by simp [Items.macros] at hx ⊢; rcases hx with h | h <;> simp [h]))
      (by simpa [ndLeaf] using hl.1) (by simpa [noDropElse] using hn.1) h0
    simp only [safeItems, Bool.and_eq_true, List.drop_nil] at hC ⊢
    exact ⟨hC.1, hR⟩
  | .condElse k m t e rest, hm, hl, hn => by
    have hmm : m ≠ [] := hm m (by simp [Items.macros])
    simp only [simpleElse, Bool.and_eq_true] at hn
    simp only [ndLeaf, Bool.and_eq_true] at hl
    have hR := safeItems_simpleElse fl rest (fun x hx => hm x (by simp [Items.macros, hx])) hl.2 hn.2
    have h0 : sameSet (names ([] : List Str)) [] = true := by decide
    have hm1 : sameSet (names [m]) [m] = true := sameSet_push (stk := []) (P := []) hmm h0
    have hn1 : sameSet (names [([] : Str)]) [] = true := sameSet_push_nil (stk := []) h0
    simp only [safeItems, List.drop_nil, loss_noDrop fl t hn.1.1, Bool.or_eq_true, Bool.and_eq_true]
    refine ⟨⟨Or.inr ?_, Or.inr ?_⟩, hR⟩
    · unfold thenCheck
      by_cases hk : k = .ifNotDefined
      · have hf : t.flat = true := by have := hl.1; simp [hk] at this; exact this.1
        subst hk
        cases hfn : fl.fixNotDef <;> simp [cls, hfn, flat_regions_or hf]
      · have hT := fun stk' P' => safeItems_noDrop fl t stk' P' (fun x hx => hm x (by simp [Items.macros, hx]))
          (by have := hl.1; simp [hk] at this; exact this.1) hn.1.1
        cases k <;> simp_all [cls]
    · unfold elseCheck elseStack
      by_cases hk : k = .ifNotDefined
      · have hf : e.flat = true := by have := hl.1; simp [hk] at this; exact this.2
        subst hk
        cases hfn : fl.fixNotDef <;> cases hfe : fl.fixElse <;> simp [cls, hfn, h0, flat_regions_or hf]
      · have hE := fun stk' P' => safeItems_noDrop fl e stk' P' (fun x hx => hm x (by simp [Items.macros, hx]))
          (by have := hl.1; simp [hk] at this; exact this.2) hn.1.2
        cases k <;> cases hfe : fl.fixElse <;> simp_all [cls]

/-! ## necessity: `safe` is exactly the class of covered trees -/

/-! ### which configurations a stretch of the fold adds -/

/-- `c` was inserted while the bottom `ifs.drop j` of the stack was still in place: it defines all names of that part,
    and beyond them only macros of `ms` -/
def AddedBy (ifs : List Str) (ms : List Str) (c : Str) : Prop :=
  ∃ j, (∀ x, defines c x = true → x ∈ names ((ifs.drop j).map nameOf) ∨ x ∈ ms) ∧
       (∀ x ∈ names ((ifs.drop j).map nameOf), defines c x = true)

theorem AddedBy.mono {ifs ms ms' : List Str} {c : Str} (h : AddedBy ifs ms c) (hs : ∀ x ∈ ms, x ∈ ms') : AddedBy ifs ms' c := by
  obtain ⟨j, h1, h2⟩ := h
  exact ⟨j, fun x hx => (h1 x hx).imp id (hs x), h2⟩

theorem AddedBy.of_drop {ifs ms : List Str} {c : Str} {a : Nat} (h : AddedBy (ifs.drop a) ms c) : AddedBy ifs ms c := by
  obtain ⟨j, h1, h2⟩ := h
  refine ⟨a + j, ?_, ?_⟩ <;> rw [List.drop_drop] at * <;> assumption

theorem mem_names {l : List Str} {x : Str} : x ∈ names l ↔ x ∈ l ∧ x ≠ [] := by
  simp [names, List.mem_filter]

theorem AddedBy.of_cons {e : Str} {ifs ms ms' : List Str} {c : Str} (h : AddedBy (e :: ifs) ms c)
    (he : nameOf e ≠ [] → nameOf e ∈ ms') (hs : ∀ x ∈ ms, x ∈ ms') : AddedBy ifs ms' c := by
  obtain ⟨j, h1, h2⟩ := h
  cases j with
  | zero =>
    refine ⟨0, ?_, ?_⟩
    · intro x hx
      rcases h1 x hx with h | h
      · simp only [List.drop_zero, List.map_cons, mem_names, List.mem_cons] at h
        rcases h with ⟨h | h, hne⟩
        · right; subst h; exact he hne
        · left; simp only [List.drop_zero, mem_names]; exact ⟨h, hne⟩
      · exact Or.inr (hs x h)
    · intro x hx
      apply h2
      simp only [List.drop_zero, List.map_cons, mem_names, List.mem_cons] at hx ⊢
      exact ⟨Or.inr hx.1, hx.2⟩
  | succ j => exact ⟨j, fun x hx => (h1 x hx).imp id (hs x), h2⟩

theorem cfg_addedBy {ifs : List Str} (wf : ∀ e ∈ ifs, EntryWF e) : AddedBy ifs [] (cfg ifs []) :=
  ⟨0, fun x hx => Or.inl ((defines_cfg_names wf x).mp hx), fun x hx => (defines_cfg_names wf x).mpr hx⟩

theorem walk_added (fl : Flags) (inp : Inp) (hud : inp.userDefines = []) :
    ∀ (t : Items) (s : St), Good s → t.macros.Nodup → FreshAll inp s t.macros →
      ∀ c ∈ (run fl inp s t.flatten).ret, c ∈ s.ret ∨ AddedBy s.ifs t.macros c
  | .done, s, _, _, _ => fun c hc => Or.inl hc
  | .region r rest, s, g, nd, fr => by
    have ih := walk_added fl inp hud rest s g nd fr
    simpa [Items.flatten, run_cons, step_region g.skip, Items.macros] using ih
  | .cond k m thn rest, s, g, nd, fr => by
    intro c hc
    have nd0 : (m :: (thn.macros ++ rest.macros)).Nodup := nd
    have fr0 : FreshAll inp s (m :: (thn.macros ++ rest.macros)) := fr
    obtain ⟨hm_notin, nd'⟩ := List.nodup_cons.mp nd0
    obtain ⟨ndT, ndR, disj⟩ := List.nodup_append.mp nd'
    have F : CondFacts fl inp s k m thn rest :=
      cond_facts hud g nd0 ndR fr0 (fun s1 g1 n1 f1 => walk_struct fl inp hud thn s1 g1 n1 f1)
    obtain ⟨p3, r3⟩ := cond_close g F
    have fr3 : FreshAll inp (stepEndif (stThen fl inp s k m thn)) rest.macros :=
      p3.freshAll (fun x hx => fr0 x (by simp [hx])) (by
        intro x hx hmem
        rcases List.mem_cons.mp hmem with h | h
        · subst h; exact hm_notin (List.mem_append_right _ hx)
        · exact disj x h x hx rfl)
    rw [run_cond k m thn rest g.skip F.g2.skip] at hc
    have hsub : ∀ x ∈ m :: thn.macros, x ∈ (Items.cond k m thn rest).macros := by
      intro x hx; simp only [Items.macros]; rcases List.mem_cons.mp hx with h | h <;> simp [h]
    have hne : nameOf (entry fl k m) ≠ [] → nameOf (entry fl k m) ∈ (Items.cond k m thn rest).macros := by
      intro h
      rw [nameOf_entry_cls fl k F.hm.ok] at h ⊢
      by_cases hcl : cls fl k = .neg
      · simp [hcl] at h
      · simp [hcl, Items.macros]
    rcases walk_added fl inp hud rest _ (p3.good g) ndR fr3 c hc with h | h
    · rw [r3] at h
      rcases walk_added fl inp hud thn _ F.g1 F.ndT F.fr1 c h with h | h
      · rcases F.ret1' c h with h | h
        · right
          have wf1 : ∀ e' ∈ entry fl k m :: s.ifs, EntryWF e' := by rw [← F.ifs1]; exact F.g1.wf
          rw [h]
          exact (cfg_addedBy wf1).of_cons hne (by simp)
        · exact Or.inl h
      · right
        rw [F.ifs1] at h
        exact h.of_cons hne (fun x hx => hsub x (List.mem_cons_of_mem _ hx))
    · right
      rw [p3.ifs] at h
      exact h.of_drop.mono (fun x hx => by simp [Items.macros, hx])
  | .condElse k m thn els rest, s, g, nd, fr => by
    intro c hc
    have nd0 : (m :: (thn.macros ++ els.macros ++ rest.macros)).Nodup := nd
    have fr0 : FreshAll inp s (m :: (thn.macros ++ els.macros ++ rest.macros)) := fr
    obtain ⟨hm_notin, nd'⟩ := List.nodup_cons.mp nd0
    obtain ⟨ndTE, ndR, disjR⟩ := List.nodup_append.mp nd'
    have F : CondFacts fl inp s k m thn rest :=
      cond_facts (extra := els.macros ++ rest.macros) hud g (by simpa [List.append_assoc] using nd0) ndR
        (by simpa [List.append_assoc] using fr0) (fun s1 g1 n1 f1 => walk_struct fl inp hud thn s1 g1 n1 f1)
    have E : ElseFacts fl inp s k m thn els :=
      else_facts hud fr0 nd0 F (fun s1 g1 n1 f1 => walk_struct fl inp hud els s1 g1 n1 f1)
    have fr5 : FreshAll inp (stepEndif (stElse fl inp s k m thn els)) rest.macros :=
      E.p5.freshAll (fun x hx => fr0 x (by simp [hx])) (by
        intro x hx hmem
        rcases List.mem_cons.mp hmem with h | h
        · subst h; exact hm_notin (List.mem_append_right _ hx)
        · exact disjR x h x hx rfl)
    rw [run_condElse k m thn els rest g.skip F.g2.skip E.g4.skip] at hc
    have hmem : ∀ x, x = m ∨ x ∈ thn.macros ∨ x ∈ els.macros → x ∈ (Items.condElse k m thn els rest).macros := by
      intro x hx; simp only [Items.macros]; rcases hx with h | h | h <;> simp [h]
    have hne : nameOf (entry fl k m) ≠ [] → nameOf (entry fl k m) ∈ (Items.condElse k m thn els rest).macros := by
      intro h
      rw [nameOf_entry_cls fl k F.hm.ok] at h ⊢
      by_cases hcl : cls fl k = .neg
      · simp [hcl] at h
      · simp only [hcl, if_false]; exact hmem m (Or.inl rfl)
    have wf1 : ∀ e' ∈ entry fl k m :: s.ifs, EntryWF e' := by rw [← F.ifs1]; exact F.g1.wf
    -- configurations present after the then-branch
    have key2 : ∀ c ∈ (stThen fl inp s k m thn).ret, c ∈ s.ret ∨ AddedBy s.ifs (Items.condElse k m thn els rest).macros c := by
      intro c h
      rcases walk_added fl inp hud thn _ F.g1 F.ndT F.fr1 c h with h | h
      · rcases F.ret1' c h with h | h
        · right; rw [h]; exact (cfg_addedBy wf1).of_cons hne (by simp)
        · exact Or.inl h
      · right
        rw [F.ifs1] at h
        exact h.of_cons hne (fun x hx => hmem x (Or.inr (Or.inl hx)))
    rcases walk_added fl inp hud rest _ (E.p5.good g) ndR fr5 c hc with h | h
    · rw [E.ret5] at h
      rcases walk_added fl inp hud els _ E.g3 E.ndE E.fr3 c h with h | h
      · rcases E.ret3' c h with h | ⟨hcl, h⟩
        · exact key2 c h
        · right
          rw [h, F.ifs2, pop_drop_cons]
          have wf3 : ∀ e' ∈ m :: List.drop (loss fl thn) s.ifs, EntryWF e' := by
            intro e' he'
            rcases List.mem_cons.mp he' with he' | he'
            · subst he'; exact EntryWF.bare F.hm.ok
            · exact g.wf e' (List.mem_of_mem_drop he')
          have := (cfg_addedBy wf3).of_cons (ms' := (Items.condElse k m thn els rest).macros)
            (fun _ => by rw [nameOf_ok F.hm.ok]; exact hmem m (Or.inl rfl)) (by simp)
          exact this.of_drop
      · right
        rw [E.ifs3, F.ifs2] at h
        -- the stack right after `#else` is `drop (loss thn) s.ifs` with at most one entry on top
        unfold elseIfs at h
        rw [pop_drop_cons] at h
        cases hcl : cls fl k <;> simp only [hcl] at h
        · cases hf : fl.fixElse <;> simp only [hf, if_true, if_false, List.nil_append, List.cons_append, Bool.false_eq_true] at h
          · exact (h.of_drop).mono (fun x hx => hmem x (Or.inr (Or.inr hx)))
          · exact (h.of_cons (ms' := (Items.condElse k m thn els rest).macros) (fun hh => absurd rfl hh)
              (fun x hx => hmem x (Or.inr (Or.inr hx)))).of_drop
        · exact (h.of_cons (ms' := (Items.condElse k m thn els rest).macros)
            (fun _ => by rw [nameOf_ok F.hm.ok]; exact hmem m (Or.inl rfl)) (fun x hx => hmem x (Or.inr (Or.inr hx)))).of_drop
        · cases hf : fl.fixElse <;> simp only [hf, if_true, if_false, List.nil_append, List.cons_append, Bool.false_eq_true] at h
          · exact (h.of_drop).mono (fun x hx => hmem x (Or.inr (Or.inr hx)))
          · exact (h.of_cons (ms' := (Items.condElse k m thn els rest).macros) (fun hh => absurd rfl hh)
              (fun x hx => hmem x (Or.inr (Or.inr hx)))).of_drop
    · right
      rw [E.p5.ifs] at h
      exact h.of_drop.mono (fun x hx => by simp [Items.macros, hx])


theorem names_drop_sub {l : List Str} {j : Nat} {x : Str} (h : x ∈ names (l.drop j)) : x ∈ names l := by
  rw [mem_names] at *; exact ⟨List.mem_of_mem_drop h.1, h.2⟩

theorem defines_false_of_addedBy {ifs ms : List Str} {c Y : Str} (h : AddedBy ifs ms c) (h1 : Y ∉ ms)
    (h2 : Y ∉ names (ifs.map nameOf)) : defines c Y = false := by
  obtain ⟨j, hu, _⟩ := h
  cases hd : defines c Y with
  | false => rfl
  | true =>
    rcases hu Y hd with h | h
    · rw [List.map_drop] at h; exact absurd (names_drop_sub h) h2
    · exact absurd h h1

/-- a configuration that defines the name on top of the stack was inserted while the whole stack was in place -/
theorem addedBy_top {e Y : Str} {ifs ms : List Str} {c : Str} (h : AddedBy (e :: ifs) ms c) (hn : nameOf e = Y)
    (hd : defines c Y = true) (h1 : Y ∉ ms) (h2 : Y ∉ names (ifs.map nameOf)) :
    (∀ x ∈ names (ifs.map nameOf), defines c x = true) ∧
    (∀ x, defines c x = true → x ∈ names (ifs.map nameOf) ∨ x = Y ∨ x ∈ ms) := by
  obtain ⟨j, hu, hl⟩ := h
  cases j with
  | succ j =>
    exfalso
    rcases hu Y hd with h | h
    · simp only [List.drop_succ_cons, List.map_drop] at h; exact h2 (names_drop_sub h)
    · exact h1 h
  | zero =>
    simp only [List.drop_zero, List.map_cons, hn] at hu hl
    constructor
    · intro x hx
      apply hl
      rw [mem_names] at hx ⊢
      exact ⟨List.mem_cons_of_mem _ hx.1, hx.2⟩
    · intro x hx
      rcases hu x hx with h | h
      · rw [mem_names] at h
        rcases List.mem_cons.mp h.1 with h' | h'
        · exact Or.inr (Or.inl h')
        · exact Or.inl (mem_names.mpr ⟨h', h.2⟩)
      · exact Or.inr (Or.inr h)

theorem sameSet_false_witness {a b : List Str} (h : sameSet a b = false) : ∃ x, (x ∈ a ∧ x ∉ b) ∨ (x ∈ b ∧ x ∉ a) := by
  apply Classical.byContradiction
  intro hne
  have : sameSet a b = true := by
    rw [sameSet_iff]
    intro x
    constructor
    · intro hx; apply Classical.byContradiction; intro hb; exact hne ⟨x, Or.inl ⟨hx, hb⟩⟩
    · intro hx; apply Classical.byContradiction; intro ha; exact hne ⟨x, Or.inr ⟨hx, ha⟩⟩
  rw [this] at h; exact absurd h (by simp)

/-- the core of necessity: a configuration built on a stack whose names differ from the required macros cannot
    satisfy the requirements -/
theorem fail_core {stk P N ms : List Str} {Y c : Str} (hs : sameSet (names stk) P = false)
    (hPN : ∀ x ∈ names stk, x ∈ P ∨ x ∈ N) (hl : ∀ x ∈ names stk, defines c x = true)
    (hu : ∀ x, defines c x = true → x ∈ names stk ∨ x = Y ∨ x ∈ ms) (hY : Y ∉ P) (hms : ∀ x ∈ ms, x ∉ P) :
    ¬ sat c P N := by
  intro hsat
  obtain ⟨x, ⟨hx, hxP⟩ | ⟨hxP, hx⟩⟩ := sameSet_false_witness hs
  · rcases hPN x hx with h | h
    · exact hxP h
    · have := hsat.2 x h; rw [hl x hx] at this; exact absurd this (by simp)
  · rcases hu x (hsat.1 x hxP) with h | h | h
    · exact hx h
    · subst h; exact hY hxP
    · exact hms x h hxP

theorem emit_sub_regions (d : Str → Bool) : ∀ (t : Items) (r : Nat), r ∈ t.emit d → r ∈ t.regions
  | .done, r, h => by simp [Items.emit] at h
  | .region r0 rest, r, h => by
    simp only [Items.emit, List.mem_cons] at h
    simp only [Items.regions, List.mem_cons]
    exact h.imp id (emit_sub_regions d rest r)
  | .cond k m t rest, r, h => by
    simp only [Items.emit, List.mem_append] at h
    simp only [Items.regions, List.mem_append]
    rcases h with h | h
    · split at h
      · exact Or.inl (emit_sub_regions d t r h)
      · simp at h
    · exact Or.inr (emit_sub_regions d rest r h)
  | .condElse k m t e rest, r, h => by
    simp only [Items.emit, List.mem_append] at h
    simp only [Items.regions, List.mem_append]
    rcases h with h | h
    · split at h
      · exact Or.inl (Or.inl (emit_sub_regions d t r h))
      · exact Or.inl (Or.inr (emit_sub_regions d e r h))
    · exact Or.inr (emit_sub_regions d rest r h)

theorem not_sat_cons_P {c m : Str} {P N : List Str} (h : ¬ sat c (m :: P) N) : defines c m = false ∨ ¬ sat c P N := by
  cases hd : defines c m with
  | false => exact Or.inl rfl
  | true =>
    right; intro hs; apply h
    refine ⟨?_, hs.2⟩
    intro p hp
    rcases List.mem_cons.mp hp with h' | h'
    · rw [h']; exact hd
    · exact hs.1 p h'

theorem not_sat_cons_N {c m : Str} {P N : List Str} (h : ¬ sat c P (m :: N)) : defines c m = true ∨ ¬ sat c P N := by
  cases hd : defines c m with
  | true => exact Or.inl rfl
  | false =>
    right; intro hs; apply h
    refine ⟨hs.1, ?_⟩
    intro n hn
    rcases List.mem_cons.mp hn with h' | h'
    · rw [h']; exact hd
    · exact hs.2 n h'

/-- what the necessity induction proves for a tree -/
def Uncov (fl : Flags) (inp : Inp) (t : Items) : Prop :=
  ∀ (s : St) (P N : List Str), Good s → t.macros.Nodup → FreshAll inp s t.macros → t.regions.Nodup →
    (∀ x ∈ t.macros, x ∉ P ∧ x ∉ N) → (∀ x ∈ names (s.ifs.map nameOf), x ∈ P ∨ x ∈ N) →
    safeItems fl (s.ifs.map nameOf) P t = false →
    ∃ r ∈ t.regions, ∃ Y ∈ t.macros, (∀ d : Str → Bool, r ∈ t.emit d → d Y = true) ∧
      ∀ c ∈ (run fl inp s t.flatten).ret, defines c Y = true → r ∉ t.emit (defines c) ∨ ¬ sat c P N

theorem fresh_not_in_stack {inp : Inp} {s : St} {m : Str} (g : Good s) (h : Fresh inp s m) :
    m ∉ names (s.ifs.map nameOf) := by
  intro hm
  obtain ⟨e, he, hne, hn⟩ := (mem_names_map g.wf m).mp hm
  exact h.notMentioned (Or.inr ⟨e, he, hne, hn⟩)

theorem fresh_not_defined {inp : Inp} {s : St} {m c : Str} (h : Fresh inp s m) (hc : c ∈ s.ret) : defines c m = false := by
  cases hd : defines c m with
  | false => rfl
  | true => exact absurd (Or.inl ⟨c, hc, hd⟩) h.notMentioned

theorem exists_mem_of_ne_nil {l : List Nat} (h : l ≠ []) : ∃ r, r ∈ l := by
  cases l with
  | nil => exact absurd rfl h
  | cons a _ => exact ⟨a, by simp⟩

theorem then_fail {fl : Flags} {inp : Inp} {s : St} {k : Kind} {m : Str} {thn rest : Items} {P N : List Str}
    (hud : inp.userDefines = []) (g : Good s) (F : CondFacts fl inp s k m thn rest) (ih : Uncov fl inp thn)
    (hreg : thn.regions.Nodup) (hne : thn.regions ≠ [])
    (hfr : ∀ x ∈ m :: thn.macros, x ∉ P ∧ x ∉ N)
    (hstk : ∀ x ∈ names (s.ifs.map nameOf), x ∈ P ∨ x ∈ N)
    (hsf : thenCheck fl k m (s.ifs.map nameOf) P (fun stk' P' => safeItems fl stk' P' thn) = false) :
    ∃ r ∈ thn.regions, ∃ Y, (Y ∈ thn.macros ∨ (Y = m ∧ cls fl k = .pos)) ∧
      (∀ d : Str → Bool, r ∈ thn.emit d → k.holds d m = true → d Y = true) ∧
      ∀ c ∈ (stThen fl inp s k m thn).ret, defines c Y = true →
        (r ∉ thn.emit (defines c) ∨ k.holds (defines c) m = false) ∨ ¬ sat c P N := by
  have stk1 : (stepOpen fl inp s k m).ifs.map nameOf = nameOf (entry fl k m) :: s.ifs.map nameOf := by rw [F.ifs1]; rfl
  have hmP := hfr m (by simp)
  have hT : ∀ x ∈ thn.macros, x ∉ P ∧ x ∉ N := fun x hx => hfr x (List.mem_cons_of_mem _ hx)
  have hmS := fresh_not_in_stack g F.hm
  have hmne := okName_ne_nil F.hm.ok
  unfold thenCheck at hsf
  cases hc : cls fl k with
  | pos =>
    simp only [hc] at hsf
    have hnm : nameOf (entry fl k m) = m := by rw [nameOf_entry_cls fl k F.hm.ok]; simp [hc]
    by_cases hs : sameSet (names (s.ifs.map nameOf)) P = true
    · have hrec : safeItems fl (m :: s.ifs.map nameOf) (m :: P) thn = false := by simpa [hs] using hsf
      obtain ⟨r, hr, Y, hY, hd, hcf⟩ := ih (stepOpen fl inp s k m) (m :: P) N F.g1 F.ndT F.fr1 hreg
        (fun x hx => ⟨fun h => by
            rcases List.mem_cons.mp h with h | h
            · subst h; exact F.hmT hx
            · exact (hT x hx).1 h, (hT x hx).2⟩)
        (by
          rw [stk1, hnm, names_cons_ne hmne]
          intro x hx
          rcases List.mem_cons.mp hx with h | h
          · exact Or.inl (by simp [h])
          · exact (hstk x h).imp (List.mem_cons_of_mem _) id)
        (by rw [stk1, hnm]; exact hrec)
      refine ⟨r, hr, Y, Or.inl hY, fun d he _ => hd d he, ?_⟩
      intro c hcm hdef
      rcases hcf c hcm hdef with h | h
      · exact Or.inl (Or.inl h)
      · rcases not_sat_cons_P h with h | h
        · exact Or.inl (Or.inr (by rw [holds_pos hc]; exact h))
        · exact Or.inr h
    · have hs' : sameSet (names (s.ifs.map nameOf)) P = false := by simpa using hs
      obtain ⟨r, hr⟩ := exists_mem_of_ne_nil hne
      refine ⟨r, hr, m, Or.inr ⟨rfl, rfl⟩, fun d _ hh => by rw [holds_pos hc] at hh; exact hh, ?_⟩
      intro c hcm hdef
      right
      have wf1 : ∀ e' ∈ entry fl k m :: s.ifs, EntryWF e' := by rw [← F.ifs1]; exact F.g1.wf
      have hadd : AddedBy (entry fl k m :: s.ifs) thn.macros c := by
        rcases walk_added fl inp hud thn _ F.g1 F.ndT F.fr1 c hcm with h | h
        · rcases F.ret1' c h with h | h
          · rw [h]; exact (cfg_addedBy wf1).mono (by simp)
          · rw [fresh_not_defined F.hm h] at hdef; exact absurd hdef (by simp)
        · rw [F.ifs1] at h; exact h
      obtain ⟨hl, hu⟩ := addedBy_top hadd hnm hdef F.hmT hmS
      exact fail_core hs' hstk hl hu hmP.1 (fun x hx => (hT x hx).1)
  | neg =>
    simp only [hc] at hsf
    have hnm : nameOf (entry fl k m) = [] := by rw [nameOf_entry_cls fl k F.hm.ok]; simp [hc]
    obtain ⟨r, hr, Y, hY, hd, hcf⟩ := ih (stepOpen fl inp s k m) P (m :: N) F.g1 F.ndT F.fr1 hreg
      (fun x hx => ⟨(hT x hx).1, fun h => by
          rcases List.mem_cons.mp h with h | h
          · subst h; exact F.hmT hx
          · exact (hT x hx).2 h⟩)
      (by
        rw [stk1, hnm, names_cons_nil]
        intro x hx
        exact (hstk x hx).imp id (List.mem_cons_of_mem _))
      (by rw [stk1, hnm]; exact hsf)
    refine ⟨r, hr, Y, Or.inl hY, fun d he _ => hd d he, ?_⟩
    intro c hcm hdef
    rcases hcf c hcm hdef with h | h
    · exact Or.inl (Or.inl h)
    · rcases not_sat_cons_N h with h | h
      · exact Or.inl (Or.inr (by rw [holds_nonpos (fl := fl) (by simp [hc])]; simp [h]))
      · exact Or.inr h
  | nd =>
    simp only [hc] at hsf
    have hnm : nameOf (entry fl k m) = m := by rw [nameOf_entry_cls fl k F.hm.ok]; simp [hc]
    obtain ⟨r, hr, Y, hY, hd, hcf⟩ := ih (stepOpen fl inp s k m) P (m :: N) F.g1 F.ndT F.fr1 hreg
      (fun x hx => ⟨(hT x hx).1, fun h => by
          rcases List.mem_cons.mp h with h | h
          · subst h; exact F.hmT hx
          · exact (hT x hx).2 h⟩)
      (by
        rw [stk1, hnm, names_cons_ne hmne]
        intro x hx
        rcases List.mem_cons.mp hx with h | h
        · exact Or.inr (by simp [h])
        · exact (hstk x h).imp id (List.mem_cons_of_mem _))
      (by rw [stk1, hnm]; exact hsf)
    refine ⟨r, hr, Y, Or.inl hY, fun d he _ => hd d he, ?_⟩
    intro c hcm hdef
    rcases hcf c hcm hdef with h | h
    · exact Or.inl (Or.inl h)
    · rcases not_sat_cons_N h with h | h
      · exact Or.inl (Or.inr (by rw [holds_nonpos (fl := fl) (by simp [hc])]; simp [h]))
      · exact Or.inr h

theorem names_elseStack_sub {fl : Flags} {stk : List Str} {a : Nat} {x : Str} (h : x ∈ names (elseStack fl stk a)) :
    x ∈ names stk := by
  unfold elseStack at h
  rw [mem_names] at h
  rcases List.mem_append.mp h.1 with h' | h'
  · cases hf : fl.fixElse <;> simp [hf] at h'
    exact absurd h' h.2
  · exact names_drop_sub (mem_names.mpr ⟨h', h.2⟩)

theorem else_fail {fl : Flags} {inp : Inp} {s : St} {k : Kind} {m : Str} {thn els rest : Items} {P N : List Str}
    (hud : inp.userDefines = []) (g : Good s) (F : CondFacts fl inp s k m thn rest) (E : ElseFacts fl inp s k m thn els)
    (ih : Uncov fl inp els) (hreg : els.regions.Nodup) (hne : els.regions ≠ [])
    (hfr : ∀ x ∈ m :: (thn.macros ++ els.macros), x ∉ P ∧ x ∉ N)
    (hstk : ∀ x ∈ names (s.ifs.map nameOf), x ∈ P ∨ x ∈ N)
    (hsf : elseCheck fl k m (s.ifs.map nameOf) P (loss fl thn) (fun stk' P' => safeItems fl stk' P' els) = false) :
    ∃ r ∈ els.regions, ∃ Y, (Y ∈ els.macros ∨ (Y = m ∧ cls fl k ≠ .pos)) ∧
      (∀ d : Str → Bool, r ∈ els.emit d → k.holds d m = false → d Y = true) ∧
      ∀ c ∈ (stElse fl inp s k m thn els).ret, defines c Y = true →
        (r ∉ els.emit (defines c) ∨ k.holds (defines c) m = true) ∨ ¬ sat c P N := by
  have stk3 : (stepElse fl inp (stThen fl inp s k m thn)).ifs.map nameOf =
      if cls fl k = .neg then m :: (s.ifs.map nameOf).drop (loss fl thn) else elseStack fl (s.ifs.map nameOf) (loss fl thn) := by
    rw [E.ifs3, F.ifs2, map_nameOf_elseIfs F.hm.ok]
  have hmP := hfr m (by simp)
  have hT : ∀ x ∈ thn.macros, x ∉ P ∧ x ∉ N := fun x hx => hfr x (by simp [hx])
  have hE : ∀ x ∈ els.macros, x ∉ P ∧ x ∉ N := fun x hx => hfr x (by simp [hx])
  have hmS := fresh_not_in_stack g F.hm
  have hmne := okName_ne_nil F.hm.ok
  have wf1 : ∀ e' ∈ entry fl k m :: s.ifs, EntryWF e' := by rw [← F.ifs1]; exact F.g1.wf
  -- configurations present after the then-branch that define `m` (only when the `#if` pushed `m`)
  have thenM : ∀ c ∈ (stThen fl inp s k m thn).ret, defines c m = true →
      nameOf (entry fl k m) = m ∧ AddedBy (entry fl k m :: s.ifs) thn.macros c := by
    intro c hcm hdef
    have hadd : AddedBy (entry fl k m :: s.ifs) thn.macros c := by
      rcases walk_added fl inp hud thn _ F.g1 F.ndT F.fr1 c hcm with h | h
      · rcases F.ret1' c h with h | h
        · rw [h]; exact (cfg_addedBy wf1).mono (by simp)
        · rw [fresh_not_defined F.hm h] at hdef; exact absurd hdef (by simp)
      · rw [F.ifs1] at h; exact h
    refine ⟨?_, hadd⟩
    apply Classical.byContradiction
    intro hnm
    have hnil : nameOf (entry fl k m) = [] := by
      rw [nameOf_entry_cls fl k F.hm.ok] at hnm ⊢
      by_cases hcl : cls fl k = .neg <;> simp_all
    have : defines c m = false := by
      apply defines_false_of_addedBy hadd F.hmT
      simp only [List.map_cons, hnil, names_cons_nil]; exact hmS
    rw [this] at hdef; exact absurd hdef (by simp)
  unfold elseCheck at hsf
  cases hc : cls fl k with
  | pos =>
    simp only [hc] at hsf
    obtain ⟨r, hr, Y, hY, hd, hcf⟩ := ih _ P (m :: N) E.g3 E.ndE E.fr3 hreg
      (fun x hx => ⟨(hE x hx).1, fun h => by
          rcases List.mem_cons.mp h with h | h
          · subst h; exact E.hmE hx
          · exact (hE x hx).2 h⟩)
      (by
        rw [stk3]; simp only [hc]
        intro x hx
        exact (hstk x (names_elseStack_sub hx)).imp id (List.mem_cons_of_mem _))
      (by rw [stk3]; simpa [hc] using hsf)
    refine ⟨r, hr, Y, Or.inl hY, fun d he _ => hd d he, ?_⟩
    intro c hcm hdef
    rcases hcf c hcm hdef with h | h
    · exact Or.inl (Or.inl h)
    · rcases not_sat_cons_N h with h | h
      · exact Or.inl (Or.inr (by rw [holds_pos hc]; exact h))
      · exact Or.inr h
  | neg =>
    simp only [hc] at hsf
    have e3 : (stepElse fl inp (stThen fl inp s k m thn)).ifs = m :: List.drop (loss fl thn) s.ifs := by
      rw [E.ifs3, F.ifs2]; simp [elseIfs, hc, pop_drop_cons]
    have hmS' : m ∉ names ((List.drop (loss fl thn) s.ifs).map nameOf) := by
      intro h; rw [List.map_drop] at h; exact hmS (names_drop_sub h)
    by_cases hs : sameSet (names ((s.ifs.map nameOf).drop (loss fl thn))) P = true
    · have hrec : safeItems fl (m :: (s.ifs.map nameOf).drop (loss fl thn)) (m :: P) els = false := by simpa [hs] using hsf
      obtain ⟨r, hr, Y, hY, hd, hcf⟩ := ih _ (m :: P) N E.g3 E.ndE E.fr3 hreg
        (fun x hx => ⟨fun h => by
            rcases List.mem_cons.mp h with h | h
            · subst h; exact E.hmE hx
            · exact (hE x hx).1 h, (hE x hx).2⟩)
        (by
          rw [stk3]; simp only [hc, if_true, names_cons_ne hmne]
          intro x hx
          rcases List.mem_cons.mp hx with h | h
          · exact Or.inl (by simp [h])
          · exact (hstk x (names_drop_sub h)).imp (List.mem_cons_of_mem _) id)
        (by rw [stk3]; simpa [hc] using hrec)
      refine ⟨r, hr, Y, Or.inl hY, fun d he _ => hd d he, ?_⟩
      intro c hcm hdef
      rcases hcf c hcm hdef with h | h
      · exact Or.inl (Or.inl h)
      · rcases not_sat_cons_P h with h | h
        · exact Or.inl (Or.inr (by rw [holds_nonpos (fl := fl) (by simp [hc])]; simp [h]))
        · exact Or.inr h
    · have hs' : sameSet (names ((s.ifs.map nameOf).drop (loss fl thn))) P = false := by simpa using hs
      obtain ⟨r, hr⟩ := exists_mem_of_ne_nil hne
      refine ⟨r, hr, m, Or.inr ⟨rfl, by simp⟩, fun d _ hh => by
        rw [holds_nonpos (fl := fl) (by simp [hc])] at hh; simpa using hh, ?_⟩
      intro c hcm hdef
      right
      have wf3 : ∀ e' ∈ m :: List.drop (loss fl thn) s.ifs, EntryWF e' := by rw [← e3]; exact E.g3.wf
      have hadd : AddedBy (m :: List.drop (loss fl thn) s.ifs) els.macros c := by
        rcases walk_added fl inp hud els _ E.g3 E.ndE E.fr3 c hcm with h | h
        · rcases E.ret3' c h with h | ⟨_, h⟩
          · have := (thenM c h hdef).1
            rw [nameOf_entry_cls fl k F.hm.ok] at this
            simp [hc] at this
            exact absurd this hmne
          · rw [h, F.ifs2, pop_drop_cons]; exact (cfg_addedBy wf3).mono (by simp)
        · rw [e3] at h; exact h
      obtain ⟨hl, hu⟩ := addedBy_top hadd (nameOf_ok F.hm.ok) hdef E.hmE hmS'
      rw [List.map_drop] at hl hu
      exact fail_core hs' (fun x hx => hstk x (names_drop_sub hx)) hl hu hmP.1 (fun x hx => (hE x hx).1)
  | nd =>
    simp only [hc] at hsf
    by_cases hs : sameSet (names (s.ifs.map nameOf)) P = true
    · have hrec : safeItems fl (elseStack fl (s.ifs.map nameOf) (loss fl thn)) (m :: P) els = false := by simpa [hs] using hsf
      obtain ⟨r, hr, Y, hY, hd, hcf⟩ := ih _ (m :: P) N E.g3 E.ndE E.fr3 hreg
        (fun x hx => ⟨fun h => by
            rcases List.mem_cons.mp h with h | h
            · subst h; exact E.hmE hx
            · exact (hE x hx).1 h, (hE x hx).2⟩)
        (by
          rw [stk3]; simp only [hc]
          intro x hx
          exact (hstk x (names_elseStack_sub hx)).imp (List.mem_cons_of_mem _) id)
        (by rw [stk3]; simpa [hc] using hrec)
      refine ⟨r, hr, Y, Or.inl hY, fun d he _ => hd d he, ?_⟩
      intro c hcm hdef
      rcases hcf c hcm hdef with h | h
      · exact Or.inl (Or.inl h)
      · rcases not_sat_cons_P h with h | h
        · exact Or.inl (Or.inr (by rw [holds_nonpos (fl := fl) (by simp [hc])]; simp [h]))
        · exact Or.inr h
    · have hs' : sameSet (names (s.ifs.map nameOf)) P = false := by simpa using hs
      obtain ⟨r, hr⟩ := exists_mem_of_ne_nil hne
      refine ⟨r, hr, m, Or.inr ⟨rfl, by simp⟩, fun d _ hh => by
        rw [holds_nonpos (fl := fl) (by simp [hc])] at hh; simpa using hh, ?_⟩
      intro c hcm hdef
      right
      have hthen : c ∈ (stThen fl inp s k m thn).ret := by
        rcases walk_added fl inp hud els _ E.g3 E.ndE E.fr3 c hcm with h | h
        · rcases E.ret3' c h with h | ⟨hcl, _⟩
          · exact h
          · rw [hc] at hcl; exact absurd hcl (by simp)
        · have : defines c m = false := by
            apply defines_false_of_addedBy h E.hmE
            rw [stk3]; simp only [hc]
            exact fun hx => hmS (names_elseStack_sub hx)
          rw [this] at hdef; exact absurd hdef (by simp)
      obtain ⟨hnm, hadd⟩ := thenM c hthen hdef
      obtain ⟨hl, hu⟩ := addedBy_top hadd hnm hdef F.hmT hmS
      exact fail_core hs' hstk hl hu hmP.1 (fun x hx => (hT x hx).1)

theorem emit_cond_then {k : Kind} {m : Str} {thn rest : Items} {r : Nat} (d : Str → Bool) (h2 : r ∉ rest.regions) :
    r ∈ (Items.cond k m thn rest).emit d ↔ (k.holds d m = true ∧ r ∈ thn.emit d) := by
  simp only [Items.emit, List.mem_append]
  constructor
  · rintro (h | h)
    · split at h
      · next hh => exact ⟨hh, h⟩
      · simp at h
    · exact absurd (emit_sub_regions d rest r h) h2
  · rintro ⟨hh, h⟩; left; simp [hh, h]

theorem emit_cond_rest {k : Kind} {m : Str} {thn rest : Items} {r : Nat} (d : Str → Bool) (h1 : r ∉ thn.regions) :
    r ∈ (Items.cond k m thn rest).emit d ↔ r ∈ rest.emit d := by
  simp only [Items.emit, List.mem_append]
  constructor
  · rintro (h | h)
    · split at h
      · exact absurd (emit_sub_regions d thn r h) h1
      · simp at h
    · exact h
  · intro h; exact Or.inr h

theorem emit_condElse_then {k : Kind} {m : Str} {thn els rest : Items} {r : Nat} (d : Str → Bool)
    (h2 : r ∉ els.regions) (h3 : r ∉ rest.regions) :
    r ∈ (Items.condElse k m thn els rest).emit d ↔ (k.holds d m = true ∧ r ∈ thn.emit d) := by
  simp only [Items.emit, List.mem_append]
  constructor
  · rintro (h | h)
    · split at h
      · next hh => exact ⟨hh, h⟩
      · exact absurd (emit_sub_regions d els r h) h2
    · exact absurd (emit_sub_regions d rest r h) h3
  · rintro ⟨hh, h⟩; left; simp [hh, h]

theorem emit_condElse_else {k : Kind} {m : Str} {thn els rest : Items} {r : Nat} (d : Str → Bool)
    (h1 : r ∉ thn.regions) (h3 : r ∉ rest.regions) :
    r ∈ (Items.condElse k m thn els rest).emit d ↔ (k.holds d m = false ∧ r ∈ els.emit d) := by
  simp only [Items.emit, List.mem_append]
  constructor
  · rintro (h | h)
    · split at h
      · exact absurd (emit_sub_regions d thn r h) h1
      · next hh => exact ⟨by simpa using hh, h⟩
    · exact absurd (emit_sub_regions d rest r h) h3
  · rintro ⟨hh, h⟩; left; simp [hh, h]

theorem emit_condElse_rest {k : Kind} {m : Str} {thn els rest : Items} {r : Nat} (d : Str → Bool)
    (h1 : r ∉ thn.regions) (h2 : r ∉ els.regions) :
    r ∈ (Items.condElse k m thn els rest).emit d ↔ r ∈ rest.emit d := by
  simp only [Items.emit, List.mem_append]
  constructor
  · rintro (h | h)
    · split at h
      · exact absurd (emit_sub_regions d thn r h) h1
      · exact absurd (emit_sub_regions d els r h) h2
    · exact h
  · intro h; exact Or.inr h

theorem isEmpty_false_ne {l : List Nat} (h : l.isEmpty = false) : l ≠ [] := by
  intro h'; subst h'; simp at h

theorem walk_uncov (fl : Flags) (inp : Inp) (hud : inp.userDefines = []) : ∀ t : Items, Uncov fl inp t
  | .done => by intro s P N _ _ _ _ _ _ h; simp [safeItems] at h
  | .region r0 rest => by
    intro s P N g nd fr hreg hfr hstk hsafe
    have hreg0 : (r0 :: rest.regions).Nodup := hreg
    obtain ⟨hr0, hregR⟩ := List.nodup_cons.mp hreg0
    obtain ⟨r, hr, Y, hY, hd, hcf⟩ := walk_uncov fl inp hud rest s P N g nd fr hregR hfr hstk (by simpa [safeItems] using hsafe)
    have hne : r ≠ r0 := fun h => hr0 (h ▸ hr)
    refine ⟨r, List.mem_cons_of_mem _ hr, Y, hY, ?_, ?_⟩
    · intro d he
      simp only [Items.emit, List.mem_cons] at he
      exact hd d (he.resolve_left hne)
    · intro c hc hdef
      simp only [Items.flatten, run_cons, step_region g.skip] at hc
      rcases hcf c hc hdef with h | h
      · left; simp only [Items.emit, List.mem_cons]; exact fun he => h (he.resolve_left hne)
      · exact Or.inr h
  | .cond k m thn rest => by
    intro s P N g nd fr hreg hfr hstk hsafe
    have nd0 : (m :: (thn.macros ++ rest.macros)).Nodup := nd
    have fr0 : FreshAll inp s (m :: (thn.macros ++ rest.macros)) := fr
    have hfr0 : ∀ x ∈ m :: (thn.macros ++ rest.macros), x ∉ P ∧ x ∉ N := hfr
    have hreg0 : (thn.regions ++ rest.regions).Nodup := hreg
    obtain ⟨hregT, hregR, hdisjR⟩ := List.nodup_append.mp hreg0
    obtain ⟨hm_notin, nd'⟩ := List.nodup_cons.mp nd0
    obtain ⟨ndT, ndR, disj⟩ := List.nodup_append.mp nd'
    have F : CondFacts fl inp s k m thn rest :=
      cond_facts hud g nd0 ndR fr0 (fun s1 g1 n1 f1 => walk_struct fl inp hud thn s1 g1 n1 f1)
    obtain ⟨p3, r3⟩ := cond_close g F
    have fr3 : FreshAll inp (stepEndif (stThen fl inp s k m thn)) rest.macros :=
      p3.freshAll (fun x hx => fr0 x (by simp [hx])) (by
        intro x hx hmem
        rcases List.mem_cons.mp hmem with h | h
        · subst h; exact hm_notin (List.mem_append_right _ hx)
        · exact disj x h x hx rfl)
    have g3 := p3.good g
    have stk3 : (stepEndif (stThen fl inp s k m thn)).ifs.map nameOf = (s.ifs.map nameOf).drop (loss fl thn) := by
      rw [p3.ifs, List.map_drop]
    rw [run_cond k m thn rest g.skip F.g2.skip]
    simp only [safeItems, Bool.and_eq_false_iff] at hsafe
    rcases hsafe with hsafe | hsafe
    · have hsafe' : thn.regions.isEmpty = false ∧
          thenCheck fl k m (s.ifs.map nameOf) P (fun stk' P' => safeItems fl stk' P' thn) = false := by
        simpa [Bool.or_eq_false_iff] using hsafe
      obtain ⟨r, hr, Y, hYm, hd, hcf⟩ := then_fail hud g F (walk_uncov fl inp hud thn) hregT (isEmpty_false_ne hsafe'.1)
        (fun x hx => hfr0 x (by rcases List.mem_cons.mp hx with h | h <;> simp [h])) hstk hsafe'.2
      have hrR : r ∉ rest.regions := fun h => hdisjR r hr r h rfl
      have hYin : Y ∈ m :: thn.macros := by
        rcases hYm with h | ⟨h, _⟩
        · exact List.mem_cons_of_mem _ h
        · simp [h]
      have hYrest : Y ∉ rest.macros := by
        intro h
        rcases List.mem_cons.mp hYin with h' | h'
        · subst h'; exact hm_notin (List.mem_append_right _ h)
        · exact disj Y h' Y h rfl
      have hYfresh : Fresh inp s Y := fr0 Y (by rcases List.mem_cons.mp hYin with h | h <;> simp [h])
      refine ⟨r, List.mem_append_left _ hr, Y, by
        simp only [Items.macros]; rcases List.mem_cons.mp hYin with h | h <;> simp [h], ?_, ?_⟩
      · intro d he
        obtain ⟨hh, he'⟩ := (emit_cond_then d hrR).mp he
        exact hd d he' hh
      · intro c hc hdef
        rcases walk_added fl inp hud rest _ g3 ndR fr3 c hc with h | h
        · rw [r3] at h
          rcases hcf c h hdef with (h | h) | h
          · left; intro he; exact h ((emit_cond_then _ hrR).mp he).2
          · left; intro he; have := ((emit_cond_then _ hrR).mp he).1; rw [h] at this; exact absurd this (by simp)
          · exact Or.inr h
        · have : defines c Y = false := by
            apply defines_false_of_addedBy h hYrest
            rw [stk3]; exact fun hx => fresh_not_in_stack g hYfresh (names_drop_sub hx)
          rw [this] at hdef; exact absurd hdef (by simp)
    · obtain ⟨r, hr, Y, hY, hd, hcf⟩ := walk_uncov fl inp hud rest _ P N g3 ndR fr3 hregR
        (fun x hx => hfr0 x (by simp [hx])) (by rw [stk3]; exact fun x hx => hstk x (names_drop_sub hx))
        (by rw [stk3]; exact hsafe)
      have hrT : r ∉ thn.regions := fun h => hdisjR r h r hr rfl
      refine ⟨r, List.mem_append_right _ hr, Y, by simp [Items.macros, hY], ?_, ?_⟩
      · intro d he; exact hd d ((emit_cond_rest d hrT).mp he)
      · intro c hc hdef
        rcases hcf c hc hdef with h | h
        · left; intro he; exact h ((emit_cond_rest _ hrT).mp he)
        · exact Or.inr h
  | .condElse k m thn els rest => by
    intro s P N g nd fr hreg hfr hstk hsafe
    have nd0 : (m :: (thn.macros ++ els.macros ++ rest.macros)).Nodup := nd
    have fr0 : FreshAll inp s (m :: (thn.macros ++ els.macros ++ rest.macros)) := fr
    have hfr0 : ∀ x ∈ m :: (thn.macros ++ els.macros ++ rest.macros), x ∉ P ∧ x ∉ N := hfr
    have hreg0 : (thn.regions ++ els.regions ++ rest.regions).Nodup := hreg
    obtain ⟨hregTE, hregR, hdisjR⟩ := List.nodup_append.mp hreg0
    obtain ⟨hregT, hregE, hdisjTE⟩ := List.nodup_append.mp hregTE
    obtain ⟨hm_notin, nd'⟩ := List.nodup_cons.mp nd0
    obtain ⟨ndTE, ndR, disjR⟩ := List.nodup_append.mp nd'
    obtain ⟨ndT, ndE, disjTE⟩ := List.nodup_append.mp ndTE
    have F : CondFacts fl inp s k m thn rest :=
      cond_facts (extra := els.macros ++ rest.macros) hud g (by simpa [List.append_assoc] using nd0) ndR
        (by simpa [List.append_assoc] using fr0) (fun s1 g1 n1 f1 => walk_struct fl inp hud thn s1 g1 n1 f1)
    have E : ElseFacts fl inp s k m thn els :=
      else_facts hud fr0 nd0 F (fun s1 g1 n1 f1 => walk_struct fl inp hud els s1 g1 n1 f1)
    have fr5 : FreshAll inp (stepEndif (stElse fl inp s k m thn els)) rest.macros :=
      E.p5.freshAll (fun x hx => fr0 x (by simp [hx])) (by
        intro x hx hmem
        rcases List.mem_cons.mp hmem with h | h
        · subst h; exact hm_notin (List.mem_append_right _ hx)
        · exact disjR x h x hx rfl)
    have g5 := E.p5.good g
    have stk5 : (stepEndif (stElse fl inp s k m thn els)).ifs.map nameOf =
        (s.ifs.map nameOf).drop (loss fl thn + loss fl els + (if dropsAtElse fl k then 1 else 0)) := by
      rw [E.p5.ifs, List.map_drop]
    have stk3 : (stepElse fl inp (stThen fl inp s k m thn)).ifs.map nameOf =
        if cls fl k = .neg then m :: (s.ifs.map nameOf).drop (loss fl thn) else elseStack fl (s.ifs.map nameOf) (loss fl thn) := by
      rw [E.ifs3, F.ifs2, map_nameOf_elseIfs F.hm.ok]
    have hmem : ∀ x, x = m ∨ x ∈ thn.macros ∨ x ∈ els.macros ∨ x ∈ rest.macros →
        x ∈ m :: (thn.macros ++ els.macros ++ rest.macros) := by
      intro x hx; rcases hx with h | h | h | h <;> simp [h]
    -- a configuration of the final set that defines a macro of the conditional was present right after `#else .. `
    have later : ∀ (Y : Str), (Y = m ∨ Y ∈ thn.macros ∨ Y ∈ els.macros) → ∀ c ∈ (run fl inp (stepEndif (stElse fl inp s k m thn els)) rest.flatten).ret,
        defines c Y = true → c ∈ (stElse fl inp s k m thn els).ret := by
      intro Y hY c hc hdef
      have hYfresh : Fresh inp s Y := fr0 Y (hmem Y (by rcases hY with h | h | h <;> simp [h]))
      have hYrest : Y ∉ rest.macros := by
        intro h
        rcases hY with h' | h' | h'
        · subst h'; exact hm_notin (List.mem_append_right _ h)
        · exact disjR Y (List.mem_append_left _ h') Y h rfl
        · exact disjR Y (List.mem_append_right _ h') Y h rfl
      rcases walk_added fl inp hud rest _ g5 ndR fr5 c hc with h | h
      · rw [E.ret5] at h; exact h
      · have : defines c Y = false := by
          apply defines_false_of_addedBy h hYrest
          rw [stk5]; exact fun hx => fresh_not_in_stack g hYfresh (names_drop_sub hx)
        rw [this] at hdef; exact absurd hdef (by simp)
    rw [run_condElse k m thn els rest g.skip F.g2.skip E.g4.skip]
    simp only [safeItems, Bool.and_eq_false_iff] at hsafe
    rcases hsafe with (hsafe | hsafe) | hsafe
    · -- the then-branch
      have hsafe' : thn.regions.isEmpty = false ∧
          thenCheck fl k m (s.ifs.map nameOf) P (fun stk' P' => safeItems fl stk' P' thn) = false := by
        simpa [Bool.or_eq_false_iff] using hsafe
      obtain ⟨r, hr, Y, hYm, hd, hcf⟩ := then_fail hud g F (walk_uncov fl inp hud thn) hregT (isEmpty_false_ne hsafe'.1)
        (fun x hx => hfr0 x (hmem x (by rcases List.mem_cons.mp hx with h | h <;> simp [h]))) hstk hsafe'.2
      have hrE : r ∉ els.regions := fun h => hdisjTE r hr r h rfl
      have hrR : r ∉ rest.regions := fun h => hdisjR r (List.mem_append_left _ hr) r h rfl
      have hYin : Y = m ∨ Y ∈ thn.macros ∨ Y ∈ els.macros := by
        rcases hYm with h | ⟨h, _⟩
        · exact Or.inr (Or.inl h)
        · exact Or.inl h
      have hYfresh : Fresh inp s Y := fr0 Y (hmem Y (by rcases hYin with h | h | h <;> simp [h]))
      refine ⟨r, List.mem_append_left _ (List.mem_append_left _ hr), Y, hmem Y (by rcases hYin with h | h | h <;> simp [h]), ?_, ?_⟩
      · intro d he
        obtain ⟨hh, he'⟩ := (emit_condElse_then d hrE hrR).mp he
        exact hd d he' hh
      · intro c hc hdef
        have hc4 := later Y hYin c hc hdef
        -- was it already there after the then-branch?
        have hthen : c ∈ (stThen fl inp s k m thn).ret := by
          rcases walk_added fl inp hud els _ E.g3 E.ndE E.fr3 c hc4 with h | h
          · rcases E.ret3' c h with h | ⟨hcl, h⟩
            · exact h
            · -- the configuration pushed at `#else` defines `m` and names of the old stack only
              exfalso
              have wf3 : ∀ e' ∈ m :: List.drop (loss fl thn) s.ifs, EntryWF e' := by
                intro e' he'
                rcases List.mem_cons.mp he' with he' | he'
                · subst he'; exact EntryWF.bare F.hm.ok
                · exact g.wf e' (List.mem_of_mem_drop he')
              rw [h, F.ifs2, pop_drop_cons, defines_cfg_names wf3] at hdef
              simp only [List.map_cons, nameOf_ok F.hm.ok, names_cons_ne (okName_ne_nil F.hm.ok), List.mem_cons] at hdef
              rcases hdef with hdef | hdef
              · rcases hYm with h' | ⟨_, h'⟩
                · rw [hdef] at h'; exact F.hmT h'
                · rw [hcl] at h'; exact absurd h' (by simp)
              · rw [List.map_drop] at hdef; exact fresh_not_in_stack g hYfresh (names_drop_sub hdef)
          · exfalso
            have hYE : Y ∉ els.macros := by
              intro h'
              rcases hYm with h'' | ⟨h'', _⟩
              · exact disjTE Y h'' Y h' rfl
              · rw [h''] at h'; exact E.hmE h'
            have : defines c Y = false := by
              apply defines_false_of_addedBy h hYE
              rw [stk3]
              by_cases hcl : cls fl k = .neg
              · simp only [hcl, if_true, names_cons_ne (okName_ne_nil F.hm.ok), List.mem_cons]
                rintro (h' | h')
                · rcases hYm with h'' | ⟨_, h''⟩
                  · rw [h'] at h''; exact F.hmT h''
                  · rw [hcl] at h''; exact absurd h'' (by simp)
                · exact fresh_not_in_stack g hYfresh (names_drop_sub h')
              · simp only [hcl, if_false]
                exact fun hx => fresh_not_in_stack g hYfresh (names_elseStack_sub hx)
            rw [this] at hdef; exact absurd hdef (by simp)
        rcases hcf c hthen hdef with (h | h) | h
        · left; intro he; exact h ((emit_condElse_then _ hrE hrR).mp he).2
        · left; intro he; have := ((emit_condElse_then _ hrE hrR).mp he).1; rw [h] at this; exact absurd this (by simp)
        · exact Or.inr h
    · -- the else-branch
      have hsafe' : els.regions.isEmpty = false ∧
          elseCheck fl k m (s.ifs.map nameOf) P (loss fl thn) (fun stk' P' => safeItems fl stk' P' els) = false := by
        simpa [Bool.or_eq_false_iff] using hsafe
      obtain ⟨r, hr, Y, hYm, hd, hcf⟩ := else_fail hud g F E (walk_uncov fl inp hud els) hregE (isEmpty_false_ne hsafe'.1)
        (fun x hx => hfr0 x (hmem x (by
          rcases List.mem_cons.mp hx with h | h
          · exact Or.inl h
          · rcases List.mem_append.mp h with h | h <;> simp [h]))) hstk hsafe'.2
      have hrT : r ∉ thn.regions := fun h => hdisjTE r h r hr rfl
      have hrR : r ∉ rest.regions := fun h => hdisjR r (List.mem_append_right _ hr) r h rfl
      have hYin : Y = m ∨ Y ∈ thn.macros ∨ Y ∈ els.macros := by
        rcases hYm with h | ⟨h, _⟩
        · exact Or.inr (Or.inr h)
        · exact Or.inl h
      refine ⟨r, List.mem_append_left _ (List.mem_append_right _ hr), Y, hmem Y (by rcases hYin with h | h | h <;> simp [h]), ?_, ?_⟩
      · intro d he
        obtain ⟨hh, he'⟩ := (emit_condElse_else d hrT hrR).mp he
        exact hd d he' hh
      · intro c hc hdef
        rcases hcf c (later Y hYin c hc hdef) hdef with (h | h) | h
        · left; intro he; exact h ((emit_condElse_else _ hrT hrR).mp he).2
        · left; intro he; have := ((emit_condElse_else _ hrT hrR).mp he).1; rw [h] at this; exact absurd this (by simp)
        · exact Or.inr h
    · -- what follows the conditional
      obtain ⟨r, hr, Y, hY, hd, hcf⟩ := walk_uncov fl inp hud rest _ P N g5 ndR fr5 hregR
        (fun x hx => hfr0 x (by simp [hx])) (by rw [stk5]; exact fun x hx => hstk x (names_drop_sub hx))
        (by rw [stk5]; exact hsafe)
      have hrT : r ∉ thn.regions := fun h => hdisjR r (List.mem_append_left _ h) r hr rfl
      have hrE : r ∉ els.regions := fun h => hdisjR r (List.mem_append_right _ h) r hr rfl
      refine ⟨r, List.mem_append_right _ hr, Y, by simp [Items.macros, hY], ?_, ?_⟩
      · intro d he; exact hd d ((emit_condElse_rest d hrT hrE).mp he)
      · intro c hc hdef
        rcases hcf c hc hdef with h | h
        · left; intro he; exact h ((emit_condElse_rest _ hrT hrE).mp he)
        · exact Or.inr h

/-! ## `reach`: the regions that some configuration consistent with -D / -U contains -/

theorem holds_of_positive {k : Kind} (h : k.positive = true) (d : Str → Bool) (m : Str) : k.holds d m = d m := by
  cases k <;> simp [Kind.positive] at h <;> rfl
theorem holds_of_negative {k : Kind} (h : k.positive = false) (d : Str → Bool) (m : Str) : k.holds d m = !d m := by
  cases k <;> simp [Kind.positive] at h <;> rfl

/-- assignments that agree with the forced macros -/
def Agrees (d : Str → Bool) (pos neg : List Str) : Prop := (∀ x ∈ pos, d x = true) ∧ (∀ x ∈ neg, d x = false)

theorem agrees_cons_pos {d : Str → Bool} {pos neg : List Str} {m : Str} (h : Agrees d pos neg) (hm : d m = true) :
    Agrees d (m :: pos) neg := by
  refine ⟨fun x hx => ?_, h.2⟩
  rcases List.mem_cons.mp hx with h' | h'
  · rw [h']; exact hm
  · exact h.1 x h'

theorem agrees_cons_neg {d : Str → Bool} {pos neg : List Str} {m : Str} (h : Agrees d pos neg) (hm : d m = false) :
    Agrees d pos (m :: neg) := by
  refine ⟨h.1, fun x hx => ?_⟩
  rcases List.mem_cons.mp hx with h' | h'
  · rw [h']; exact hm
  · exact h.2 x h'

theorem not_contains_of_agrees_neg {d : Str → Bool} {pos neg : List Str} {m : Str} (ha : Agrees d pos neg) (hm : d m = true) :
    neg.contains m = false := by
  cases hc : neg.contains m with
  | false => rfl
  | true => have := ha.2 m (List.contains_iff_mem.mp hc); rw [hm] at this; exact absurd this (by simp)

theorem not_contains_of_agrees_pos {d : Str → Bool} {pos neg : List Str} {m : Str} (ha : Agrees d pos neg) (hm : d m = false) :
    pos.contains m = false := by
  cases hc : pos.contains m with
  | false => rfl
  | true => have := ha.1 m (List.contains_iff_mem.mp hc); rw [hm] at this; exact absurd this (by simp)

/-- then-part of `reach` -/
def reachThen (k : Kind) (m : Str) (t : Items) (pos neg : List Str) : List Nat :=
  if k.positive then (if neg.contains m then [] else t.reach (m :: pos) neg)
  else (if pos.contains m then [] else t.reach pos (m :: neg))
def reachElse (k : Kind) (m : Str) (e : Items) (pos neg : List Str) : List Nat :=
  if k.positive then (if pos.contains m then [] else e.reach pos (m :: neg))
  else (if neg.contains m then [] else e.reach (m :: pos) neg)

theorem reach_cond (k : Kind) (m : Str) (t rest : Items) (pos neg : List Str) :
    (Items.cond k m t rest).reach pos neg = reachThen k m t pos neg ++ rest.reach pos neg := rfl
theorem reach_condElse (k : Kind) (m : Str) (t e rest : Items) (pos neg : List Str) :
    (Items.condElse k m t e rest).reach pos neg = reachThen k m t pos neg ++ reachElse k m e pos neg ++ rest.reach pos neg := rfl

theorem then_complete {d : Str → Bool} {k : Kind} {m : Str} {t : Items} {pos neg : List Str} {r : Nat}
    (ih : ∀ pos neg, Agrees d pos neg → r ∈ t.emit d → r ∈ t.reach pos neg)
    (ha : Agrees d pos neg) (hh : k.holds d m = true) (h : r ∈ t.emit d) : r ∈ reachThen k m t pos neg := by
  unfold reachThen
  cases hk : k.positive with
  | true =>
    rw [holds_of_positive hk] at hh
    simp only [if_true, not_contains_of_agrees_neg ha hh, Bool.false_eq_true, if_false]
    exact ih _ _ (agrees_cons_pos ha hh) h
  | false =>
    rw [holds_of_negative hk] at hh
    have hm : d m = false := by simpa using hh
    simp only [Bool.false_eq_true, if_false, not_contains_of_agrees_pos ha hm]
    exact ih _ _ (agrees_cons_neg ha hm) h

theorem else_complete {d : Str → Bool} {k : Kind} {m : Str} {e : Items} {pos neg : List Str} {r : Nat}
    (ih : ∀ pos neg, Agrees d pos neg → r ∈ e.emit d → r ∈ e.reach pos neg)
    (ha : Agrees d pos neg) (hh : k.holds d m = false) (h : r ∈ e.emit d) : r ∈ reachElse k m e pos neg := by
  unfold reachElse
  cases hk : k.positive with
  | true =>
    rw [holds_of_positive hk] at hh
    simp only [if_true, not_contains_of_agrees_pos ha hh, Bool.false_eq_true, if_false]
    exact ih _ _ (agrees_cons_neg ha hh) h
  | false =>
    rw [holds_of_negative hk] at hh
    have hm : d m = true := by simpa using hh
    simp only [Bool.false_eq_true, if_false, not_contains_of_agrees_neg ha hm]
    exact ih _ _ (agrees_cons_pos ha hm) h

/-- completeness of `reach`: whatever a consistent assignment emits is reachable -/
theorem reach_complete (d : Str → Bool) : ∀ (t : Items) (r : Nat) (pos neg : List Str), Agrees d pos neg →
    r ∈ t.emit d → r ∈ t.reach pos neg
  | .done, _, _, _, _, h => by simp [Items.emit] at h
  | .region r0 rest, r, pos, neg, ha, h => by
    simp only [Items.emit, List.mem_cons] at h
    simp only [Items.reach, List.mem_cons]
    exact h.imp id (reach_complete d rest r pos neg ha)
  | .cond k m t rest, r, pos, neg, ha, h => by
    simp only [Items.emit, List.mem_append] at h
    rw [reach_cond, List.mem_append]
    rcases h with h | h
    · split at h
      · next hh => exact Or.inl (then_complete (reach_complete d t r) ha hh h)
      · simp at h
    · exact Or.inr (reach_complete d rest r pos neg ha h)
  | .condElse k m t e rest, r, pos, neg, ha, h => by
    simp only [Items.emit, List.mem_append] at h
    rw [reach_condElse, List.mem_append, List.mem_append]
    rcases h with h | h
    · split at h
      · next hh => exact Or.inl (Or.inl (then_complete (reach_complete d t r) ha hh h))
      · next hh => exact Or.inl (Or.inr (else_complete (reach_complete d e r) ha (by simpa using hh) h))
    · exact Or.inr (reach_complete d rest r pos neg ha h)

/-- soundness of `reach`: a reachable region is emitted by the assignment "exactly the macros forced on the way" -/
theorem reach_sound : ∀ (t : Items) (r : Nat) (pos neg : List Str), (∀ x ∈ pos, x ∉ neg) → r ∈ t.reach pos neg →
    ∃ d : Str → Bool, Agrees d pos neg ∧ r ∈ t.emit d
  | .done, _, _, _, _, h => by simp [Items.reach] at h
  | .region r0 rest, r, pos, neg, hc, h => by
    simp only [Items.reach, List.mem_cons] at h
    rcases h with h | h
    · refine ⟨fun x => pos.contains x, ⟨fun x hx => by simpa using hx, fun x hx => ?_⟩, by simp [Items.emit, h]⟩
      cases hp : pos.contains x with
      | false => exact hp
      | true => exact absurd hx (hc x (List.contains_iff_mem.mp hp))
    · obtain ⟨d, ha, he⟩ := reach_sound rest r pos neg hc h
      exact ⟨d, ha, by simp [Items.emit, he]⟩
  | .cond k m t rest, r, pos, neg, hc, h => by
    rw [reach_cond, List.mem_append] at h
    rcases h with h | h
    · obtain ⟨d, ha, hh, he⟩ := then_sound (fun pos neg => reach_sound t r pos neg) hc h
      exact ⟨d, ha, by simp [Items.emit, hh, he]⟩
    · obtain ⟨d, ha, he⟩ := reach_sound rest r pos neg hc h
      exact ⟨d, ha, by simp [Items.emit, he]⟩
  | .condElse k m t e rest, r, pos, neg, hc, h => by
    rw [reach_condElse, List.mem_append, List.mem_append] at h
    rcases h with (h | h) | h
    · obtain ⟨d, ha, hh, he⟩ := then_sound (fun pos neg => reach_sound t r pos neg) hc h
      exact ⟨d, ha, by simp [Items.emit, hh, he]⟩
    · obtain ⟨d, ha, hh, he⟩ := else_sound (fun pos neg => reach_sound e r pos neg) hc h
      exact ⟨d, ha, by simp [Items.emit, hh, he]⟩
    · obtain ⟨d, ha, he⟩ := reach_sound rest r pos neg hc h
      exact ⟨d, ha, by simp [Items.emit, he]⟩
where
  then_sound {k : Kind} {m : Str} {t : Items} {pos neg : List Str} {r : Nat}
      (ih : ∀ pos neg, (∀ x ∈ pos, x ∉ neg) → r ∈ t.reach pos neg → ∃ d : Str → Bool, Agrees d pos neg ∧ r ∈ t.emit d)
      (hc : ∀ x ∈ pos, x ∉ neg) (h : r ∈ reachThen k m t pos neg) :
      ∃ d : Str → Bool, Agrees d pos neg ∧ k.holds d m = true ∧ r ∈ t.emit d := by
    unfold reachThen at h
    cases hk : k.positive with
    | true =>
      simp only [hk, if_true] at h
      split at h
      · simp at h
      · next hn =>
        have hn' : m ∉ neg := by simpa using hn
        obtain ⟨d, ha, he⟩ := ih (m :: pos) neg (by
          intro x hx; rcases List.mem_cons.mp hx with h' | h'
          · rw [h']; exact hn'
          · exact hc x h') h
        exact ⟨d, ⟨fun x hx => ha.1 x (List.mem_cons_of_mem _ hx), ha.2⟩, by rw [holds_of_positive hk]; exact ha.1 m (by simp), he⟩
    | false =>
      simp only [hk, Bool.false_eq_true, if_false] at h
      split at h
      · simp at h
      · next hn =>
        have hn' : m ∉ pos := by simpa using hn
        obtain ⟨d, ha, he⟩ := ih pos (m :: neg) (by
          intro x hx hmem; rcases List.mem_cons.mp hmem with h' | h'
          · rw [h'] at hx; exact hn' hx
          · exact hc x hx h') h
        exact ⟨d, ⟨ha.1, fun x hx => ha.2 x (List.mem_cons_of_mem _ hx)⟩, by rw [holds_of_negative hk]; simp [ha.2 m (by simp)], he⟩
  else_sound {k : Kind} {m : Str} {e : Items} {pos neg : List Str} {r : Nat}
      (ih : ∀ pos neg, (∀ x ∈ pos, x ∉ neg) → r ∈ e.reach pos neg → ∃ d : Str → Bool, Agrees d pos neg ∧ r ∈ e.emit d)
      (hc : ∀ x ∈ pos, x ∉ neg) (h : r ∈ reachElse k m e pos neg) :
      ∃ d : Str → Bool, Agrees d pos neg ∧ k.holds d m = false ∧ r ∈ e.emit d := by
    unfold reachElse at h
    cases hk : k.positive with
    | true =>
      simp only [hk, if_true] at h
      split at h
      · simp at h
      · next hn =>
        have hn' : m ∉ pos := by simpa using hn
        obtain ⟨d, ha, he⟩ := ih pos (m :: neg) (by
          intro x hx hmem; rcases List.mem_cons.mp hmem with h' | h'
          · rw [h'] at hx; exact hn' hx
          · exact hc x hx h') h
        exact ⟨d, ⟨ha.1, fun x hx => ha.2 x (List.mem_cons_of_mem _ hx)⟩, by rw [holds_of_positive hk]; exact ha.2 m (by simp), he⟩
    | false =>
      simp only [hk, Bool.false_eq_true, if_false] at h
      split at h
      · simp at h
      · next hn =>
        have hn' : m ∉ neg := by simpa using hn
        obtain ⟨d, ha, he⟩ := ih (m :: pos) neg (by
          intro x hx; rcases List.mem_cons.mp hx with h' | h'
          · rw [h']; exact hn'
          · exact hc x h') h
        exact ⟨d, ⟨fun x hx => ha.1 x (List.mem_cons_of_mem _ hx), ha.2⟩, by rw [holds_of_negative hk]; simp [ha.1 m (by simp)], he⟩


/-! ### size of the result set -/

theorem length_setInsert_le (a : Str) (l : List Str) : (setInsert a l).length ≤ l.length + 1 := by
  induction l with
  | nil => simp [setInsert]
  | cons b bs ih =>
    simp only [setInsert]
    split
    · simp
    · split
      · simp
      · simp only [List.length_cons]; omega

/-- directives at which the fold can insert a configuration -/
def Dir.weight : Dir → Nat
  | .opn _ _ => 1
  | .els => 1
  | _ => 0

def dirsWeight (ds : List Dir) : Nat := (ds.map Dir.weight).sum

theorem dirsWeight_cons (d : Dir) (ds : List Dir) : dirsWeight (d :: ds) = d.weight + dirsWeight ds := by
  simp [dirsWeight]

theorem dirsWeight_append (a b : List Dir) : dirsWeight (a ++ b) = dirsWeight a + dirsWeight b := by
  simp [dirsWeight]

theorem length_step_le (fl : Flags) (inp : Inp) (s : St) (d : Dir) :
    (step fl inp s d).ret.length ≤ s.ret.length + d.weight := by
  unfold step
  cases hs : s.skip with
  | some lvl =>
    cases d with
    | endif => simp only; split <;> simp [stepEndif, Dir.weight]
    | opn k m => simp [Dir.weight]
    | els => simp [Dir.weight]
    | region r => simp [Dir.weight]
    | define m => simp [Dir.weight]
  | none =>
    cases d with
    | region r => simp [Dir.weight]
    | define m => simp [Dir.weight]
    | endif => simp [stepEndif, Dir.weight]
    | opn k m =>
      simp only [Dir.weight]
      rcases stepOpen_cases fl inp s k m with e | ⟨e, n, ret, _, _, hr, eq⟩
      · simp only [e]; omega
      · simp only [eq]
        have h1 := length_setInsert_le (cfg (e :: s.ifs) inp.userDefines) ret
        have h2 : ret.length ≤ s.ret.length := by
          rcases hr with hr | ⟨y, hr⟩ <;> subst hr
          · exact Nat.le_refl _
          · exact List.length_erase_le
        omega
    | els =>
      simp only [Dir.weight, stepElse]
      split
      · simp
      · split
        · simp
        · split
          · next cand rest _ _ =>
            have h1 := length_setInsert_le (cfg (cand :: pop s.ifs) inp.userDefines) (s.ret.erase (cand ++ '=' :: cand))
            have h2 : (s.ret.erase (cand ++ '=' :: cand)).length ≤ s.ret.length := List.length_erase_le
            exact Nat.le_trans h1 (by omega)
          · split <;> simp

theorem length_run_le (fl : Flags) (inp : Inp) : ∀ (ds : List Dir) (s : St),
    (run fl inp s ds).ret.length ≤ s.ret.length + dirsWeight ds
  | [], s => by simp [run_nil, dirsWeight]
  | d :: ds, s => by
    rw [run_cons, dirsWeight_cons]
    have h1 := length_run_le fl inp ds (step fl inp s d)
    have h2 := length_step_le fl inp s d
    omega

theorem dirsWeight_flatten : ∀ t : Items, dirsWeight t.flatten ≤ 2 * t.macros.length
  | .done => by simp [Items.flatten, dirsWeight]
  | .region r rest => by
    have := dirsWeight_flatten rest
    simpa [Items.flatten, dirsWeight_cons, Dir.weight, Items.macros] using this
  | .cond k m t rest => by
    have h1 := dirsWeight_flatten t
    have h2 := dirsWeight_flatten rest
    simp only [Items.flatten, dirsWeight_cons, dirsWeight_append, Dir.weight, Items.macros, List.length_cons, List.length_append]
    omega
  | .condElse k m t e rest => by
    have h1 := dirsWeight_flatten t
    have h2 := dirsWeight_flatten e
    have h3 := dirsWeight_flatten rest
    simp only [Items.flatten, dirsWeight_cons, dirsWeight_append, Dir.weight, Items.macros, List.length_cons, List.length_append]
    omega

/-- at most one configuration per `#if..`/`#else` line besides the empty one -/
theorem length_getConfigsWith_le (fl : Flags) (inp : Inp) (t : Items) :
    (getConfigsWith fl inp t.flatten).length ≤ 1 + 2 * t.macros.length := by
  have h1 := length_run_le fl inp t.flatten (St.init inp)
  have h2 := dirsWeight_flatten t
  simp only [getConfigsWith]
  have : (St.init inp).ret.length = 1 := rfl
  omega

theorem effDefines_eq_defines (inp : Inp) (c x : Str) (hud : inp.userDefines = []) (hx : x ∉ inp.undefs) :
    effDefines inp c x = defines c x := by
  simp [effDefines, hud, hx, defines_nil]

/-- facts about the specification-side definition `effDefines` (what `simplecpp::preprocess` makes of -D / -U); true by
    unfolding, they say nothing about the code -/
theorem U_effective (inp : Inp) (c X : Str) (h : X ∈ inp.undefs) : effDefines inp c X = false := by
  simp [effDefines, h]

theorem D_effective (inp : Inp) (c X : Str) (h : defines inp.userDefines X = true) (hu : X ∉ inp.undefs) :
    effDefines inp c X = true := by
  simp [effDefines, h, hu]

/-! ## the duplicate-configuration purge -/

theorem dedupByGo_key (key : Str → Nat) : ∀ (cs : List Str) (seen : List Nat) (c : Str), c ∈ cs →
    key c ∈ seen ∨ ∃ c' ∈ dedupByGo key seen cs, key c' = key c
  | [], _, _, h => by simp at h
  | x :: xs, seen, c, h => by
    simp only [dedupByGo]
    rcases List.mem_cons.mp h with h | h
    · subst h
      split
      · next hs => exact Or.inl (List.contains_iff_mem.mp hs)
      · exact Or.inr ⟨c, by simp, rfl⟩
    · split
      · exact dedupByGo_key key xs seen c h
      · rcases dedupByGo_key key xs (key x :: seen) c h with h' | ⟨c', hc', hk⟩
        · rcases List.mem_cons.mp h' with h' | h'
          · exact Or.inr ⟨x, by simp, h'.symm⟩
          · exact Or.inl h'
        · exact Or.inr ⟨c', List.mem_cons_of_mem _ hc', hk⟩

theorem dedupBy_key (key : Str → Nat) (cs : List Str) (c : Str) (h : c ∈ cs) : ∃ c' ∈ dedupBy key cs, key c' = key c := by
  rcases dedupByGo_key key cs [] c h with h' | h'
  · simp at h'
  · exact h'

theorem dedupByGo_sub (key : Str → Nat) : ∀ (cs : List Str) (seen : List Nat) (c : Str), c ∈ dedupByGo key seen cs → c ∈ cs
  | [], _, _, h => by simp [dedupByGo] at h
  | x :: xs, seen, c, h => by
    simp only [dedupByGo] at h
    split at h
    · exact List.mem_cons_of_mem _ (dedupByGo_sub key xs seen c h)
    · rcases List.mem_cons.mp h with h | h
      · simp [h]
      · exact List.mem_cons_of_mem _ (dedupByGo_sub key xs _ c h)

end Cppcheck.Configs

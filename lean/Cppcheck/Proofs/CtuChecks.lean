import Cppcheck.Proofs.CtuRoundtrip
/-
C22 — unsafe-usage lists, the four checks' summaries, the cache file and the whole-program input.
-/
namespace Cppcheck.Ctu
open Cppcheck.Wire

/-! ## unsafe usage -/

def uuAttrs (u : UnsafeUsage) : List (Str × Str) :=
  [("my-id".toList, u.myId), ("my-argnr".toList, showInt u.myArgNr), ("my-argname".toList, u.myArgName),
   ("file".toList, toxml u.loc.file), ("line".toList, showInt u.loc.line), ("col".toList, showInt u.loc.col),
   ("value".toList, showInt u.value)]

def uuElem (u : UnsafeUsage) : Elem := .mk "unsafe-usage".toList (uuAttrs u) []

theorem uu_text (u : UnsafeUsage) :
    u.toStr = ("    ".toList ++ headText "unsafe-usage".toList (uuAttrs u) ++ ['/', '>']) ++ "\n".toList := by
  unfold UnsafeUsage.toStr headText uuAttrs
  rw [show "    <unsafe-usage".toList = "    ".toList ++ '<' :: "unsafe-usage".toList from rfl,
    show "/>\n".toList = ['/', '>'] ++ "\n".toList from rfl]
  simp only [attr_render, ← renderAttrs_append, List.append_assoc, List.cons_append, List.nil_append, List.singleton_append]

theorem uuAttrs_ok (u : UnsafeUsage) (h1 : RawSafe u.myId = true) (h2 : RawSafe u.myArgName = true) : AttrsOK (uuAttrs u) = true := by
  have : uuAttrs u = ["my-id".toList, "my-argnr".toList, "my-argname".toList, "file".toList, "line".toList, "col".toList, "value".toList].zip
      [u.myId, showInt u.myArgNr, u.myArgName, toxml u.loc.file, showInt u.loc.line, showInt u.loc.col, showInt u.value] := rfl
  rw [this]
  apply attrsOK_zip _ _ (by decide)
  simp only [List.mem_cons, List.mem_nil_iff, or_false, forall_eq_or_imp, forall_eq]
  exact ⟨clean_raw _ h1, clean_int _, clean_raw _ h2, clean_toxml _, clean_int _, clean_int _, clean_int _⟩

theorem unsafeList_renders : ∀ l : List UnsafeUsage, (∀ u ∈ l, RawSafe u.myId = true ∧ RawSafe u.myArgName = true) →
    Renders 0 (unsafeListStr l) (l.map uuElem) := by
  intro l
  induction l with
  | nil => intro _; exact renders_nil 0
  | cons u r ih =>
    intro h
    have hu := h u (by simp)
    have h1 : Renders 0 u.toStr ([uuElem u] ++ []) := by
      rw [uu_text]
      exact renders_append (renders_closed 0 "    ".toList "unsafe-usage".toList _ (by decide) (by decide) (by decide) (uuAttrs_ok u hu.1 hu.2))
        (renders_ws 0 "\n".toList (by decide))
    have := renders_append h1 (ih (fun x hx => h x (by simp [hx])))
    simpa [unsafeListStr] using this

theorem uu_load_one (u : UnsafeUsage) (h : u.Ok = true) (r : List Elem) :
    loadUnsafeKids (uuElem u :: r) = u :: loadUnsafeKids r := by
  simp only [UnsafeUsage.Ok, Loc.Ok, Bool.and_eq_true] at h
  obtain ⟨⟨⟨⟨hid, han⟩, hnm⟩, ⟨⟨hlf, hll⟩, hlc⟩⟩, hv⟩ := h
  have b1 : attrStr (uuElem u) "my-id" = some (attrDecode u.myId) := by simp only [uuElem, uuAttrs]; find_attr
  have b2 : attrStr (uuElem u) "my-argnr" = some (attrDecode (showInt u.myArgNr)) := by simp only [uuElem, uuAttrs]; find_attr
  have b3 : attrStr (uuElem u) "my-argname" = some (attrDecode u.myArgName) := by simp only [uuElem, uuAttrs]; find_attr
  have b4 : attrStr (uuElem u) "file" = some (attrDecode (toxml u.loc.file)) := by simp only [uuElem, uuAttrs]; find_attr
  have b5 : attrStr (uuElem u) "line" = some (attrDecode (showInt u.loc.line)) := by simp only [uuElem, uuAttrs]; find_attr
  have b6 : attrStr (uuElem u) "col" = some (attrDecode (showInt u.loc.col)) := by simp only [uuElem, uuAttrs]; find_attr
  have b7 : attrStr (uuElem u) "value" = some (attrDecode (showInt u.value)) := by simp only [uuElem, uuAttrs]; find_attr
  have hn : (uuElem u).name = "unsafe-usage".toList := rfl
  simp only [loadUnsafeKids, hn, ne_eq, not_true_eq_false, if_false, rdS_some _ _ _ _ b1, rdI_showInt _ _ _ b2 (inS32_64 _ han),
    rdS_some _ _ _ _ b3, rdS_some _ _ _ _ b4, rdI_showInt _ _ _ b5 (inS32_64 _ hll), rdI_showInt _ _ _ b6 (inS32_64 _ hlc),
    rdI_showInt _ _ _ b7 hv, Bool.false_eq_true, attrDecode_rawSafe _ hid, attrDecode_rawSafe _ hnm, decode_safe _ hlf,
    wrapS_id 32 (by decide) _ han, wrapS_id 32 (by decide) _ hll, wrapS_id 32 (by decide) _ hlc]

theorem uu_load : ∀ l : List UnsafeUsage, l.all UnsafeUsage.Ok = true → loadUnsafeKids (l.map uuElem) = l := by
  intro l
  induction l with
  | nil => intro _; rfl
  | cons u r ih =>
    intro h
    simp only [List.all_cons, Bool.and_eq_true] at h
    rw [List.map_cons, uu_load_one u h.1, ih h.2]

theorem uu_ok_raw (l : List UnsafeUsage) (h : l.all UnsafeUsage.Ok = true) :
    ∀ u ∈ l, RawSafe u.myId = true ∧ RawSafe u.myArgName = true := by
  intro u hu
  have := List.all_eq_true.mp h u hu
  simp only [UnsafeUsage.Ok, Bool.and_eq_true] at this
  exact ⟨this.1.1.1.1, this.1.1.2⟩

/-! ## CheckBufferOverrun -/

def BufferInfo.Ok (b : BufferInfo) : Bool := b.arrayIndex.all UnsafeUsage.Ok && b.pointerArith.all UnsafeUsage.Ok

def bufferElems (b : BufferInfo) : List Elem :=
  (if b.arrayIndex = [] then [] else [.mk "array-index".toList [] (b.arrayIndex.map uuElem)])
  ++ (if b.pointerArith = [] then [] else [.mk "pointer-arith".toList [] (b.pointerArith.map uuElem)])

theorem wrapper_renders (name : String) (hname : IsName name.toList = true) (hnn : NUL ∉ name.toList) (l : List UnsafeUsage)
    (h : l.all UnsafeUsage.Ok = true) :
    Renders 1 ("    ".toList ++ headText name.toList [] ++ '>' :: (("\n".toList ++ unsafeListStr l) ++ "    ".toList ++ '<' :: '/' :: (name.toList ++ ['>'])) ++ "\n".toList)
      ([.mk name.toList [] (l.map uuElem)] ++ []) := by
  have hin : Renders 0 ("\n".toList ++ unsafeListStr l) ([] ++ l.map uuElem) :=
    renders_append (renders_ws 0 "\n".toList (by decide)) (unsafeList_renders l (uu_ok_raw l h))
  exact renders_append (renders_wrap "    ".toList name.toList [] "    ".toList (by decide) (by decide) hname hnn (by decide) hin)
    (renders_ws 1 "\n".toList (by decide))

theorem buffer_text (b : BufferInfo) :
    b.toStr =
      (if b.arrayIndex = [] then [] else "    ".toList ++ headText "array-index".toList [] ++ '>' :: (("\n".toList ++ unsafeListStr b.arrayIndex) ++ "    ".toList ++ '<' :: '/' :: ("array-index".toList ++ ['>'])) ++ "\n".toList)
      ++ (if b.pointerArith = [] then [] else "    ".toList ++ headText "pointer-arith".toList [] ++ '>' :: (("\n".toList ++ unsafeListStr b.pointerArith) ++ "    ".toList ++ '<' :: '/' :: ("pointer-arith".toList ++ ['>'])) ++ "\n".toList) := by
  unfold BufferInfo.toStr headText
  rw [show "    <array-index>\n".toList = "    ".toList ++ '<' :: ("array-index".toList ++ '>' :: "\n".toList) from rfl,
    show "    </array-index>\n".toList = "    ".toList ++ '<' :: '/' :: ("array-index".toList ++ '>' :: "\n".toList) from rfl,
    show "    <pointer-arith>\n".toList = "    ".toList ++ '<' :: ("pointer-arith".toList ++ '>' :: "\n".toList) from rfl,
    show "    </pointer-arith>\n".toList = "    ".toList ++ '<' :: '/' :: ("pointer-arith".toList ++ '>' :: "\n".toList) from rfl]
  simp only [renderAttrs, List.append_nil, List.append_assoc, List.cons_append, List.nil_append]

theorem buffer_renders (b : BufferInfo) (h : b.Ok = true) : Renders 1 b.toStr (bufferElems b) := by
  simp only [BufferInfo.Ok, Bool.and_eq_true] at h
  rw [buffer_text]
  unfold bufferElems
  apply renders_append
  · split
    · exact renders_nil 1
    · exact wrapper_renders "array-index" (by decide) (by decide) _ h.1
  · split
    · exact renders_nil 1
    · exact wrapper_renders "pointer-arith" (by decide) (by decide) _ h.2

theorem buffer_load (b : BufferInfo) (h : b.Ok = true) (name : Str) (as : List (Str × Str)) :
    BufferInfo.load (.mk name as (bufferElems b)) = if b.arrayIndex = [] ∧ b.pointerArith = [] then none else some b := by
  simp only [BufferInfo.Ok, Bool.and_eq_true] at h
  unfold BufferInfo.load bufferElems
  simp only [Elem.kids]
  have hne : ("pointer-arith".toList = "array-index".toList) = False := by decide
  by_cases ha : b.arrayIndex = [] <;> by_cases hp : b.pointerArith = []
  · simp [ha, hp, loadBufferKids]
  · simp [ha, hp, loadBufferKids, Elem.name, hne, loadUnsafeUsageList, Elem.kids, uu_load _ h.2]
    rw [← ha]
  · simp [ha, hp, loadBufferKids, Elem.name, loadUnsafeUsageList, Elem.kids, uu_load _ h.1]
    rw [← hp]
  · simp [ha, hp, loadBufferKids, Elem.name, hne, loadUnsafeUsageList, Elem.kids, uu_load _ h.1, uu_load _ h.2]

/-! ## CheckNullPointer / CheckUninitVar -/

theorem unsafeInfo_load (l : List UnsafeUsage) (h : l.all UnsafeUsage.Ok = true) (name : Str) (as : List (Str × Str)) :
    loadUnsafeInfo (.mk name as (l.map uuElem)) = if l = [] then none else some l := by
  simp [loadUnsafeInfo, loadUnsafeUsageList, Elem.kids, uu_load l h]

/-! ## CheckClass -/

def cdAttrs (c : ClassDef) : List (Str × Str) :=
  [("name".toList, toxml c.className), ("file".toList, toxml c.fileName), ("configuration".toList, toxml c.configuration),
   ("line".toList, showInt c.line), ("col".toList, showInt c.col), ("hash".toList, showNat c.hash)]

def cdElem (c : ClassDef) : Elem := .mk "class".toList (cdAttrs c) []

theorem cd_text (c : ClassDef) : c.toStr = ([] ++ headText "class".toList (cdAttrs c) ++ ['/', '>']) ++ "\n".toList := by
  unfold ClassDef.toStr headText cdAttrs
  rw [show "<class name=\"".toList = '<' :: ("class".toList ++ ' ' :: ("name".toList ++ ['=', '"'])) from rfl,
    show "\" file=\"".toList = '"' :: ' ' :: ("file".toList ++ ['=', '"']) from rfl,
    show "\" configuration=\"".toList = '"' :: ' ' :: ("configuration".toList ++ ['=', '"']) from rfl,
    show "\" line=\"".toList = '"' :: ' ' :: ("line".toList ++ ['=', '"']) from rfl,
    show "\" col=\"".toList = '"' :: ' ' :: ("col".toList ++ ['=', '"']) from rfl,
    show "\" hash=\"".toList = '"' :: ' ' :: ("hash".toList ++ ['=', '"']) from rfl,
    show "\"/>\n".toList = '"' :: '/' :: '>' :: "\n".toList from rfl]
  simp only [renderAttrs, List.append_assoc, List.cons_append, List.nil_append, List.append_nil]

theorem cdAttrs_ok (c : ClassDef) : AttrsOK (cdAttrs c) = true := by
  have : cdAttrs c = ["name".toList, "file".toList, "configuration".toList, "line".toList, "col".toList, "hash".toList].zip
      [toxml c.className, toxml c.fileName, toxml c.configuration, showInt c.line, showInt c.col, showNat c.hash] := rfl
  rw [this]
  apply attrsOK_zip _ _ (by decide)
  simp only [List.mem_cons, List.mem_nil_iff, or_false, forall_eq_or_imp, forall_eq]
  exact ⟨clean_toxml _, clean_toxml _, clean_toxml _, clean_int _, clean_int _, clean_nat _⟩

theorem classList_renders : ∀ l : List ClassDef, Renders 0 (classListStr l) (l.map cdElem) := by
  intro l
  induction l with
  | nil => exact renders_nil 0
  | cons c r ih =>
    have h1 : Renders 0 c.toStr ([cdElem c] ++ []) := by
      rw [cd_text]
      exact renders_append (renders_closed 0 [] "class".toList _ (by decide) (by decide) (by decide) (cdAttrs_ok c))
        (renders_ws 0 "\n".toList (by decide))
    have := renders_append h1 ih
    simpa [classListStr] using this

theorem cd_load_one (c : ClassDef) (h : c.Ok = true) (r : List Elem) (acc : List ClassDef) :
    loadClassKids (cdElem c :: r) acc = loadClassKids r (acc ++ [c]) := by
  simp only [ClassDef.Ok, Bool.and_eq_true] at h
  obtain ⟨⟨⟨⟨⟨hn, hf⟩, hc⟩, hl⟩, hco⟩, hh⟩ := h
  have b1 : attrStr (cdElem c) "name" = some (attrDecode (toxml c.className)) := by simp only [cdElem, cdAttrs]; find_attr
  have b2 : attrStr (cdElem c) "file" = some (attrDecode (toxml c.fileName)) := by simp only [cdElem, cdAttrs]; find_attr
  have b3 : attrStr (cdElem c) "configuration" = some (attrDecode (toxml c.configuration)) := by simp only [cdElem, cdAttrs]; find_attr
  have b4 : attrStr (cdElem c) "line" = some (attrDecode (showInt c.line)) := by simp only [cdElem, cdAttrs]; find_attr
  have b5 : attrStr (cdElem c) "col" = some (attrDecode (showInt c.col)) := by simp only [cdElem, cdAttrs]; find_attr
  have b6 : attrStr (cdElem c) "hash" = some (attrDecode (showNat c.hash)) := by simp only [cdElem, cdAttrs]; find_attr
  have hname : (cdElem c).name = "class".toList := rfl
  have r32 : ∀ i : Int, inS 32 i = true → i32lo ≤ i ∧ i ≤ i32hi := by
    intro i hi
    simp only [inS, Bool.and_eq_true, decide_eq_true_eq, Int.reducePow, Nat.reduceSub] at hi
    simp only [i32lo, i32hi]; omega
  have hh' : c.hash ≤ sizeMax := by
    simp only [inU, Bool.and_eq_true, decide_eq_true_eq, Int.reducePow] at hh
    simp only [sizeMax]; omega
  simp only [loadClassKids, hname, ne_eq, not_true_eq_false, if_false, b1, b2, b3, b4, b5, b6, attrDecode_showInt, attrDecode_showNat,
    strToIntS_showInt _ _ _ (r32 _ hl).1 (r32 _ hl).2 (inS32_64 _ hl), strToIntS_showInt _ _ _ (r32 _ hco).1 (r32 _ hco).2 (inS32_64 _ hco),
    strToIntU_showNat sizeMax c.hash hh' (by decide), decode_safe _ hn, decode_safe _ hf, decode_safe _ hc]

theorem cd_load : ∀ (l : List ClassDef) (acc : List ClassDef), l.all ClassDef.Ok = true →
    loadClassKids (l.map cdElem) acc = some (acc ++ l) := by
  intro l
  induction l with
  | nil => intro acc _; simp [loadClassKids]
  | cons c r ih =>
    intro acc h
    simp only [List.all_cons, Bool.and_eq_true] at h
    rw [List.map_cons, cd_load_one c h.1, ih _ h.2]
    simp

theorem classInfo_load (l : List ClassDef) (h : l.all ClassDef.Ok = true) (name : Str) (as : List (Str × Str)) :
    loadClassInfo (.mk name as (l.map cdElem)) = if l = [] then .null else .value l := by
  unfold loadClassInfo
  simp only [Elem.kids, cd_load l [] h, List.nil_append]
  cases l <;> simp

/-! ## the cache file -/

/-- a check name as `setFileInfo` writes it (raw, between quotes) -/
def CheckNameOk (c : Str) : Bool := RawSafe c

def infoElems : List (Str × Str × List Elem) → List Elem
  | [] => []
  | x :: r => (if x.2.1 = [] then [] else [Elem.mk "FileInfo".toList [("check".toList, x.1)] x.2.2]) ++ infoElems r

theorem fileInfoElem_renders {h : Nat} (check text : Str) (es : List Elem) (hc : CheckNameOk check = true) (r : Renders h text es) :
    Renders (h + 1) (fileInfoElem check text) (if text = [] then [] else [Elem.mk "FileInfo".toList [("check".toList, check)] es]) := by
  unfold fileInfoElem
  split
  · exact renders_nil _
  · have e : "  <FileInfo check=\"".toList ++ check ++ "\">\n".toList ++ text ++ "  </FileInfo>\n".toList
        = ("  ".toList ++ headText "FileInfo".toList [("check".toList, check)] ++ '>' :: (("\n".toList ++ text) ++ "  ".toList ++ '<' :: '/' :: ("FileInfo".toList ++ ['>']))) ++ "\n".toList := by
      unfold headText
      rw [show "  <FileInfo check=\"".toList = "  ".toList ++ '<' :: ("FileInfo".toList ++ ' ' :: ("check".toList ++ ['=', '"'])) from rfl,
        show "\">\n".toList = '"' :: '>' :: "\n".toList from rfl,
        show "  </FileInfo>\n".toList = "  ".toList ++ '<' :: '/' :: ("FileInfo".toList ++ '>' :: "\n".toList) from rfl]
      simp only [renderAttrs, List.append_assoc, List.cons_append, List.nil_append, List.append_nil]
    rw [e]
    have hin : Renders h ("\n".toList ++ text) ([] ++ es) := renders_append (renders_ws h "\n".toList (by decide)) r
    have hok : AttrsOK [("check".toList, check)] = true := by
      have : [("check".toList, check)] = ["check".toList].zip [check] := rfl
      rw [this]
      apply attrsOK_zip _ _ (by decide)
      simp only [List.mem_cons, List.mem_nil_iff, or_false, forall_eq]
      exact clean_raw _ hc
    have := renders_append (renders_wrap "  ".toList "FileInfo".toList [("check".toList, check)] "  ".toList (by decide) (by decide) (by decide) (by decide) hok hin)
      (renders_ws (h + 1) "\n".toList (by decide))
    simpa using this

/-- the FileInfo part of a cache file, given what each summary text renders -/
theorem fileInfoElems_renders {h : Nat} : ∀ (infos : List (Str × Str × List Elem)),
    (∀ x ∈ infos, CheckNameOk x.1 = true ∧ Renders h x.2.1 x.2.2) →
    Renders (h + 1) (fileInfoElems (infos.map fun x => (x.1, x.2.1))) (infoElems infos) := by
  intro infos
  induction infos with
  | nil => intro _; exact renders_nil _
  | cons x r ih =>
    intro hx
    have h1 := hx x (by simp)
    have := renders_append (fileInfoElem_renders x.1 x.2.1 x.2.2 h1.1 h1.2) (ih (fun y hy => hx y (by simp [hy])))
    exact this

theorem splitDeclEnd_append (pre rest : Str) (h : '?' ∉ pre) : splitDeclEnd (pre ++ '?' :: '>' :: rest) = some rest := by
  induction pre with
  | nil => simp [splitDeclEnd]
  | cons a t ih =>
    have ha : a ≠ '?' := fun e => h (by simp [e])
    have ht : '?' ∉ t := fun e => h (by simp [e])
    simp [splitDeclEnd, ha, ih ht]

theorem splitDeclEnd_header (rest : Str) : splitDeclEnd ("xml version=\"1.0\"?>".toList ++ rest) = some rest := by
  have : "xml version=\"1.0\"?>".toList ++ rest = "xml version=\"1.0\"".toList ++ '?' :: '>' :: rest := by
    rw [show "xml version=\"1.0\"?>".toList = "xml version=\"1.0\"".toList ++ ['?', '>'] from rfl]
    simp only [List.append_assoc, List.cons_append, List.nil_append]
  rw [this]
  exact splitDeclEnd_append _ _ (by decide)

theorem storeFile_parse {h : Nat} (hash : Nat) (infos : List (Str × Str × List Elem))
    (hi : ∀ x ∈ infos, CheckNameOk x.1 = true ∧ Renders h x.2.1 x.2.2) (hh : h + 4 < 500) :
    parseDoc (storeFile hash (infos.map fun x => (x.1, x.2.1)))
      = .ok [Elem.mk "analyzerinfo".toList [("hash".toList, showNat hash)] (infoElems infos)] := by
  have hbody := fileInfoElems_renders infos hi
  have hin : Renders (h + 1) ("\n".toList ++ fileInfoElems (infos.map fun x => (x.1, x.2.1))) ([] ++ infoElems infos) :=
    renders_append (renders_ws _ "\n".toList (by decide)) hbody
  have hok : AttrsOK [("hash".toList, showNat hash)] = true := by
    have : [("hash".toList, showNat hash)] = ["hash".toList].zip [showNat hash] := rfl
    rw [this]
    apply attrsOK_zip _ _ (by decide)
    simp only [List.mem_cons, List.mem_nil_iff, or_false, forall_eq]
    exact clean_nat _
  have hroot := renders_wrap [] "analyzerinfo".toList [("hash".toList, showNat hash)] [] (by decide) (by decide) (by decide) (by decide) hok hin
  have e : storeFile hash (infos.map fun x => (x.1, x.2.1))
      = '<' :: '?' :: ("xml version=\"1.0\"?>".toList ++ ("\n".toList ++
          ([] ++ headText "analyzerinfo".toList [("hash".toList, showNat hash)] ++ '>' :: (("\n".toList ++ fileInfoElems (infos.map fun x => (x.1, x.2.1))) ++ [] ++ '<' :: '/' :: ("analyzerinfo".toList ++ ['>']))) ++ "\n".toList)) := by
    unfold storeFile headText
    rw [show "<?xml version=\"1.0\"?>\n".toList = '<' :: '?' :: ("xml version=\"1.0\"?>".toList ++ "\n".toList) from rfl,
      show "<analyzerinfo hash=\"".toList = '<' :: ("analyzerinfo".toList ++ ' ' :: ("hash".toList ++ ['=', '"'])) from rfl,
      show "\">\n".toList = '"' :: '>' :: "\n".toList from rfl,
      show "</analyzerinfo>\n".toList = '<' :: '/' :: ("analyzerinfo".toList ++ '>' :: "\n".toList) from rfl]
    simp only [renderAttrs, List.append_assoc, List.cons_append, List.nil_append, List.append_nil]
  rw [e]
  refine parseDoc_root _ _ _ _ "\n".toList (splitDeclEnd_header _) ?_ ⟨"\n".toList, by decide, rfl⟩ (by decide) hroot (by omega)
  -- NUL-free
  have hn := hroot.nonul
  intro hm
  rcases List.mem_append.mp hm with h1 | h2
  · exact absurd h1 (by decide)
  · rcases List.mem_append.mp h2 with h3 | h4
    · rcases List.mem_append.mp h3 with h5 | h6
      · exact absurd h5 (by decide)
      · exact hn h6
    · exact absurd h4 (by decide)

end Cppcheck.Ctu

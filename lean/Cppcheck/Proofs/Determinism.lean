import Cppcheck.Model.Determinism
import Cppcheck.Proofs.FileLister
/-
C29 — helper lemmas: listings of reordered directory trees are permutations of each other; a strictly sorted list
is determined by its elements; `canon` forgets an injective renaming of the ids.
-/
namespace Cppcheck.Determinism
open Cppcheck.Wire Cppcheck.PathMatch Cppcheck.FileLister

/-! ## directory trees -/

theorem allFiles_file (p : Str) (c : List Str) (n : Str) : allFiles p c (.file n) = [(p, c)] := by
  simp [allFiles]

theorem allFiles_dir (p : Str) (c : List Str) (n : Str) (ch : List Tree) :
    allFiles p c (.dir n ch) = allFilesL p (c ++ [p]) ch := by
  simp [allFiles]

/-- the listing of the entries of a directory is the concatenation of the listings of the entries -/
theorem allFilesL_eq_flatMap (p : Str) (c : List Str) : ∀ l : List Tree,
    allFilesL p c l = l.flatMap (fun t => allFiles (childPath p t.name) c t) := by
  intro l
  induction l with
  | nil => simp [allFilesL]
  | cons t rest ih =>
    cases t with
    | file n => simp [allFilesL, allFiles, Tree.name, ih]
    | dir n ch => simp [allFilesL, Tree.name, ih]

theorem entriesReordered_name {a b : Tree} (h : entriesReordered a b) : a.name = b.name := by
  induction h with
  | refl t => rfl
  | dir n ch ch' _ => rfl
  | sub n pre post t t' _ _ => rfl
  | trans _ _ ih1 ih2 => exact ih1.trans ih2

/-- reordering directory entries permutes the listing (the files with the directories passed on the way) -/
theorem allFiles_perm {a b : Tree} (h : entriesReordered a b) :
    ∀ (p : Str) (c : List Str), (allFiles p c a).Perm (allFiles p c b) := by
  induction h with
  | refl t => intro p c; exact List.Perm.refl _
  | dir n ch ch' hp =>
    intro p c
    rw [allFiles_dir, allFiles_dir, allFilesL_eq_flatMap, allFilesL_eq_flatMap]
    exact List.Perm.flatMap_right _ hp
  | sub n pre post t t' ht ih =>
    intro p c
    rw [allFiles_dir, allFiles_dir, allFilesL_eq_flatMap, allFilesL_eq_flatMap]
    simp only [List.flatMap_append, List.flatMap_cons]
    apply List.Perm.append_left
    apply List.Perm.append_right
    rw [entriesReordered_name ht]
    exact ih _ _
  | trans _ _ ih1 ih2 => intro p c; exact (ih1 p c).trans (ih2 p c)

/-! ## sorting -/

/-- a list sorted by a strict (asymmetric) order is determined by its elements -/
theorem eq_of_perm_of_strict {α : Type} (lt : α → α → Prop) (hasym : ∀ a b, lt a b → ¬ lt b a) :
    ∀ (l l' : List α), l.Perm l' → l.Pairwise lt → l'.Pairwise lt → l = l' := by
  intro l
  induction l with
  | nil => intro l' hp _ _; exact (List.Perm.nil_eq hp)
  | cons a t ih =>
    intro l' hp hs hs'
    cases l' with
    | nil => exact absurd hp.symm (by simp)
    | cons b t' =>
      have hab : a = b := by
        have ha : a ∈ b :: t' := hp.subset (by simp)
        have hb : b ∈ a :: t := hp.symm.subset (by simp)
        rcases List.mem_cons.1 ha with h | h
        · exact h
        · rcases List.mem_cons.1 hb with h2 | h2
          · exact h2.symm
          · have l1 : lt b a := (List.pairwise_cons.1 hs').1 a h
            have l2 : lt a b := (List.pairwise_cons.1 hs).1 b h2
            exact absurd l1 (hasym _ _ l2)
      subst hab
      congr 1
      exact ih t' (List.Perm.cons_inv hp) (List.pairwise_cons.1 hs).2 (List.pairwise_cons.1 hs').2

/-- sorting a list without repeated paths gives a strictly ascending list -/
theorem sortFiles_strict (l : List (Str × Lang)) (hnd : (l.map (·.1)).Nodup) :
    (sortFiles l).Pairwise (fun a b => strLt a.1 b.1 = true) := by
  have hs := sortFiles_sorted l
  have hnd' : ((sortFiles l).map (·.1)).Nodup := ((sortFiles_perm l).map (·.1)).nodup_iff.2 hnd
  have hne : (sortFiles l).Pairwise (fun a b => a.1 ≠ b.1) := by
    rw [List.Nodup, List.pairwise_map] at hnd'
    exact hnd'
  refine (hs.and hne).imp ?_
  intro a b h
  obtain ⟨h1, h2⟩ := h
  rcases strLt_trichotomy a.1 b.1 with h | h | h
  · exact h
  · exact absurd h h2
  · simp [pathLe, h] at h1

/-- **sorting is invariant under permutation** for lists without repeated paths -/
theorem sortFiles_perm_invariant (l l' : List (Str × Lang)) (hp : l.Perm l') (hnd : (l.map (·.1)).Nodup) :
    sortFiles l = sortFiles l' := by
  have hnd' : (l'.map (·.1)).Nodup := (hp.map (·.1)).nodup_iff.1 hnd
  apply eq_of_perm_of_strict (fun a b : Str × Lang => strLt a.1 b.1 = true)
  · intro a b h1 h2
    rw [strLt_asymm _ _ h1] at h2
    cases h2
  · exact (sortFiles_perm l).trans (hp.trans (sortFiles_perm l').symm)
  · exact sortFiles_strict l hnd
  · exact sortFiles_strict l' hnd'

/-! ## dump ids -/

theorem indexIn_map (π : Nat → Nat) (i : Nat) : ∀ (seen : List Nat),
    (∀ j, j ∈ seen → π j = π i → j = i) → indexIn (π i) (seen.map π) = indexIn i seen := by
  intro seen
  induction seen with
  | nil => intro _; rfl
  | cons j rest ih =>
    intro h
    simp only [List.map_cons, indexIn]
    by_cases hj : j = i
    · simp [hj]
    · have : π j ≠ π i := fun e => hj (h j (by simp) e)
      simp only [this, hj, if_false]
      rw [ih (fun k hk => h k (by simp [hk]))]

theorem contains_map (π : Nat → Nat) (i : Nat) (seen : List Nat)
    (h : ∀ j, j ∈ seen → π j = π i → j = i) : (seen.map π).contains (π i) = seen.contains i := by
  apply Bool.eq_iff_iff.2
  simp only [List.contains_iff_mem, List.mem_map]
  constructor
  · rintro ⟨j, hj, e⟩
    rw [← h j hj e]; exact hj
  · intro hi; exact ⟨i, hi, rfl⟩

theorem canonAux_rename (π : Nat → Nat) : ∀ (d : List Item) (seen : List Nat),
    (∀ i j, (i ∈ seen ∨ i ∈ idsOf d) → (j ∈ seen ∨ j ∈ idsOf d) → π i = π j → i = j) →
    canonAux (seen.map π) (rename π d) = canonAux seen d := by
  intro d
  induction d with
  | nil => intro _ _; rfl
  | cons it rest ih =>
    intro seen h
    cases it with
    | lit s =>
      simp only [rename, List.map_cons, canonAux]
      congr 1
      exact ih seen (fun i j hi hj => h i j (by simpa [idsOf] using hi) (by simpa [idsOf] using hj))
    | ref i =>
      simp only [rename, List.map_cons, canonAux]
      have hinj : ∀ j, j ∈ seen → π j = π i → j = i :=
        fun j hj e => h j i (Or.inl hj) (Or.inr (by simp [idsOf])) e
      rw [indexIn_map π i seen hinj, contains_map π i seen hinj]
      congr 1
      have hmap : List.map π (if seen.contains i then seen else seen ++ [i]) =
          (if seen.contains i then seen.map π else seen.map π ++ [π i]) := by
        split <;> simp
      rw [← hmap]
      apply ih
      intro a b ha hb
      apply h a b
      · rcases ha with ha | ha
        · by_cases hc : seen.contains i = true
          · simp only [hc, if_true] at ha; exact Or.inl ha
          · simp only [hc, if_false, Bool.false_eq_true, List.mem_append, List.mem_singleton] at ha
            rcases ha with ha | ha
            · exact Or.inl ha
            · exact Or.inr (by simp [idsOf, ha])
        · exact Or.inr (by simp [idsOf, ha])
      · rcases hb with hb | hb
        · by_cases hc : seen.contains i = true
          · simp only [hc, if_true] at hb; exact Or.inl hb
          · simp only [hc, if_false, Bool.false_eq_true, List.mem_append, List.mem_singleton] at hb
            rcases hb with hb | hb
            · exact Or.inl hb
            · exact Or.inr (by simp [idsOf, hb])
        · exact Or.inr (by simp [idsOf, hb])

/-- `dedupPaths` keeps a list without repeated paths -/
theorem dedupPathsAux_id : ∀ (l : List (Str × Lang)) (seen : List Str),
    (∀ x, x ∈ l → seen.contains x.1 = false) → (l.map (·.1)).Nodup → dedupPathsAux seen l = l := by
  intro l
  induction l with
  | nil => intro _ _ _; rfl
  | cons x t ih =>
    intro seen h1 h2
    have hx := h1 x (by simp)
    simp only [dedupPathsAux, hx, Bool.false_eq_true, if_false]
    congr 1
    simp only [List.map_cons, List.nodup_cons] at h2
    apply ih _ _ h2.2
    intro y hy
    rw [List.contains_cons, h1 y (by simp [hy]), Bool.or_false]
    apply beq_false_of_ne
    intro e
    exact h2.1 (List.mem_map.2 ⟨y, hy, e⟩)

/-! ## the listing of one argument (re-derived from the lemmas of the file lister, C31) -/

/-- the files `FileLister::addFiles` selects below `root` (accepted, not cut off by an ignore pattern) -/
def selectedFiles (ign : Str → Filemode → Bool) (acc : Str → Bool × Lang) (root : Str) (node : Tree) : List (Str × Lang) :=
  ((allFiles root [] node).filter (fun f => accepted acc root f && !ignoredAlong ign root f)).map
    (fun f => (f.1, langOf acc root f.1))

theorem addFiles_eq (ign : Str → Filemode → Bool) (acc : Str → Bool × Lang) (path : Str) (node : Tree) (hp : path ≠ []) :
    addFiles ign acc path (some node) = ("", sortFiles (selectedFiles ign acc (correctedPath path) node)) := by
  have : path.isEmpty = false := by cases path <;> simp_all
  simp only [addFiles, this, Bool.false_eq_true, if_false, selectedFiles, collectPath_eq]

theorem selectedFiles_nodup (ign : Str → Filemode → Bool) (acc : Str → Bool × Lang) (root : Str) (node : Tree)
    (hw : node.wf = true) : ((selectedFiles ign acc root node).map (·.1)).Nodup := by
  simp only [selectedFiles, List.map_map]
  have hsub : (((allFiles root [] node).filter
      (fun f => accepted acc root f && !ignoredAlong ign root f)).map (·.1)).Sublist
      ((allFiles root [] node).map (·.1)) := List.Sublist.map _ List.filter_sublist
  exact (nodup_allFiles root [] node hw).sublist hsub

/-! ## `canon` is a renaming, injective on the ids of the dump -/

theorem indexIn_not_mem (i : Nat) : ∀ s : List Nat, i ∉ s → indexIn i s = s.length := by
  intro s
  induction s with
  | nil => intro _; rfl
  | cons j r ih =>
    intro h
    have hj : j ≠ i := fun e => h (by simp [e])
    simp only [indexIn, hj, if_false, List.length_cons]
    rw [ih (fun hm => h (by simp [hm]))]

theorem indexIn_append_mem (i : Nat) (t : List Nat) : ∀ s : List Nat, i ∈ s → indexIn i (s ++ t) = indexIn i s := by
  intro s
  induction s with
  | nil => intro h; simp at h
  | cons j r ih =>
    intro h
    by_cases hj : j = i
    · simp [indexIn, hj]
    · simp only [List.cons_append, indexIn, hj, if_false]
      rcases List.mem_cons.1 h with e | hm
      · exact absurd e.symm hj
      · rw [ih hm]

theorem indexIn_append_new (i : Nat) (t : List Nat) : ∀ s : List Nat, i ∉ s → indexIn i (s ++ i :: t) = s.length := by
  intro s
  induction s with
  | nil => intro _; simp [indexIn]
  | cons j r ih =>
    intro h
    have hj : j ≠ i := fun e => h (by simp [e])
    simp only [List.cons_append, indexIn, hj, if_false, List.length_cons]
    rw [ih (fun hm => h (by simp [hm]))]

/-- the position function is injective on the members of the list -/
theorem indexIn_inj : ∀ (s : List Nat) (i j : Nat), i ∈ s → j ∈ s → indexIn i s = indexIn j s → i = j := by
  intro s
  induction s with
  | nil => intro i j h; simp at h
  | cons k r ih =>
    intro i j hi hj e
    by_cases hki : k = i
    · by_cases hkj : k = j
      · exact hki.symm.trans hkj
      · simp only [indexIn, if_pos hki, if_neg hkj] at e
        omega
    · by_cases hkj : k = j
      · simp only [indexIn, if_neg hki, if_pos hkj] at e
        omega
      · simp only [indexIn, if_neg hki, if_neg hkj, Nat.add_right_cancel_iff] at e
        rcases List.mem_cons.1 hi with e1 | hi'
        · exact absurd e1.symm hki
        · rcases List.mem_cons.1 hj with e2 | hj'
          · exact absurd e2.symm hkj
          · exact ih i j hi' hj' e

/-- the element at the position of a member is that member -/
theorem getD_indexIn : ∀ (s : List Nat) (i : Nat), i ∈ s → s.getD (indexIn i s) 0 = i := by
  intro s
  induction s with
  | nil => intro i h; simp at h
  | cons k r ih =>
    intro i h
    by_cases hk : k = i
    · simp [indexIn, hk]
    · simp only [indexIn, hk, if_false]
      rcases List.mem_cons.1 h with e | hm
      · exact absurd e.symm hk
      · simpa using ih i hm

theorem finalSeen_prefix : ∀ (d : List Item) (s : List Nat), ∃ t, finalSeen s d = s ++ t := by
  intro d
  induction d with
  | nil => intro s; exact ⟨[], by simp [finalSeen]⟩
  | cons it rest ih =>
    intro s
    cases it with
    | lit x => exact ih s
    | ref i =>
      simp only [finalSeen]
      by_cases hc : s.contains i = true
      · simp only [hc, if_true]; exact ih s
      · simp only [hc, if_false, Bool.false_eq_true]
        obtain ⟨t, ht⟩ := ih (s ++ [i])
        exact ⟨i :: t, by rw [ht]; simp⟩

theorem finalSeen_ids : ∀ (d : List Item) (s : List Nat) (i : Nat), i ∈ idsOf d → i ∈ finalSeen s d := by
  intro d
  induction d with
  | nil => intro s i h; simp [idsOf] at h
  | cons it rest ih =>
    intro s i h
    cases it with
    | lit x => exact ih s i (by simpa [idsOf] using h)
    | ref j =>
      simp only [finalSeen]
      simp only [idsOf, List.mem_cons] at h
      rcases h with e | h
      · subst e
        obtain ⟨t, ht⟩ := finalSeen_prefix rest (if s.contains i then s else s ++ [i])
        rw [ht]
        by_cases hc : s.contains i = true
        · simp only [hc, if_true]
          exact List.mem_append_left _ (by simpa using hc)
        · have hn : i ∉ s := by simpa using hc
          simp [hn]
      · exact ih _ i h

/-- `canonAux` applies the position function of the final list -/
theorem canonAux_eq_rename : ∀ (d : List Item) (s : List Nat),
    canonAux s d = rename (fun i => indexIn i (finalSeen s d)) d := by
  intro d
  induction d with
  | nil => intro s; rfl
  | cons it rest ih =>
    intro s
    cases it with
    | lit x =>
      simp only [canonAux, rename, List.map_cons, finalSeen]
      congr 1
      exact ih s
    | ref i =>
      simp only [canonAux, rename, List.map_cons, finalSeen]
      obtain ⟨t, ht⟩ := finalSeen_prefix rest (if s.contains i then s else s ++ [i])
      congr 1
      · congr 1
        rw [ht]
        by_cases hc : s.contains i = true
        · simp only [hc, if_true]
          exact (indexIn_append_mem i t s (by simpa using hc)).symm
        · have hn : i ∉ s := by simpa using hc
          simp only [hc, if_false, Bool.false_eq_true, List.append_assoc, List.singleton_append]
          rw [indexIn_append_new i t s hn, indexIn_not_mem i s hn]
      · exact ih _

theorem idsOf_rename (f : Nat → Nat) : ∀ d : List Item, idsOf (rename f d) = (idsOf d).map f := by
  intro d
  induction d with
  | nil => rfl
  | cons it rest ih =>
    cases it with
    | lit x => simpa [rename, idsOf] using ih
    | ref i => simpa [rename, idsOf] using ih

/-- two renamings of two dumps that agree: the second dump is the first one relabelled through the positions -/
theorem rename_eq_rename (f1 f2 : Nat → Nat) (L2 : List Nat) :
    ∀ (d1 d2 : List Item), (∀ j, j ∈ idsOf d2 → j ∈ L2) → (∀ j, f2 j = indexIn j L2) →
    rename f1 d1 = rename f2 d2 → d2 = rename (fun i => L2.getD (f1 i) 0) d1 := by
  intro d1
  induction d1 with
  | nil =>
    intro d2 _ _ h
    cases d2 with
    | nil => rfl
    | cons _ _ => simp [rename] at h
  | cons it rest ih =>
    intro d2 hm hf h
    cases d2 with
    | nil => simp [rename] at h
    | cons it2 rest2 =>
      simp only [rename, List.map_cons, List.cons.injEq] at h
      obtain ⟨hh, ht⟩ := h
      have hrest := ih rest2 (fun j hj => hm j (by cases it2 <;> simp [idsOf, hj])) hf ht
      simp only [rename, List.map_cons]
      cases it with
      | lit x =>
        cases it2 with
        | lit y => simp only at hh; rw [Item.lit.injEq] at hh; rw [hh]; congr 1
        | ref j => simp at hh
      | ref i =>
        cases it2 with
        | lit y => simp at hh
        | ref j =>
          simp only [Item.ref.injEq] at hh
          congr 1
          have hj : j ∈ L2 := hm j (by simp [idsOf])
          simp only
          rw [hh, hf j, getD_indexIn L2 j hj]

/-! ## sorting by a layout-independent key -/

section keyed
variable {α : Type} (key : α → Nat)

theorem ins_perm (x : α) : ∀ l : List α, (ins key x l).Perm (x :: l) := by
  intro l
  induction l with
  | nil => exact List.Perm.refl _
  | cons y t ih =>
    simp only [ins]
    split
    · exact List.Perm.refl _
    · exact (List.Perm.cons y ih).trans (List.Perm.swap x y t)

theorem ins_sorted (x : α) : ∀ l : List α, l.Pairwise (fun a b => key a ≤ key b) →
    (ins key x l).Pairwise (fun a b => key a ≤ key b) := by
  intro l
  induction l with
  | nil => intro _; simp [ins]
  | cons y t ih =>
    intro h
    simp only [ins]
    have hy := (List.pairwise_cons.1 h).1
    have ht := (List.pairwise_cons.1 h).2
    split
    · rename_i hlt
      refine List.pairwise_cons.2 ⟨?_, h⟩
      intro z hz
      rcases List.mem_cons.1 hz with rfl | hz
      · omega
      · have := hy z hz; omega
    · rename_i hge
      refine List.pairwise_cons.2 ⟨?_, ih ht⟩
      intro z hz
      rcases List.mem_cons.1 ((ins_perm key x t).subset hz) with rfl | hz
      · omega
      · exact hy z hz

theorem foldl_ins_perm : ∀ (l acc : List α), (l.foldl (fun acc x => ins key x acc) acc).Perm (acc ++ l) := by
  intro l
  induction l with
  | nil => intro acc; simp
  | cons x t ih =>
    intro acc
    simp only [List.foldl_cons]
    refine (ih _).trans ?_
    refine ((ins_perm key x acc).append_right t).trans ?_
    simpa using (List.perm_middle (a := x) (l₁ := acc) (l₂ := t)).symm

theorem foldl_ins_sorted : ∀ (l acc : List α), acc.Pairwise (fun a b => key a ≤ key b) →
    (l.foldl (fun acc x => ins key x acc) acc).Pairwise (fun a b => key a ≤ key b) := by
  intro l
  induction l with
  | nil => intro acc h; exact h
  | cons x t ih => intro acc h; exact ih _ (ins_sorted key x acc h)

theorem isortBy_perm (l : List α) : (isortBy key l).Perm l := by
  simpa [isortBy] using foldl_ins_perm key l []

theorem isortBy_sorted (l : List α) : (isortBy key l).Pairwise (fun a b => key a ≤ key b) :=
  foldl_ins_sorted key l [] List.Pairwise.nil

theorem isortBy_strict (l : List α) (hnd : (l.map key).Nodup) : (isortBy key l).Pairwise (fun a b => key a < key b) := by
  have hnd' : ((isortBy key l).map key).Nodup := ((isortBy_perm key l).map key).nodup_iff.2 hnd
  have hne : (isortBy key l).Pairwise (fun a b => key a ≠ key b) := by
    rw [List.Nodup, List.pairwise_map] at hnd'
    exact hnd'
  refine ((isortBy_sorted key l).and hne).imp ?_
  intro a b h
  omega

/-- inserting into a sorted list puts the element behind every element with the same key -/
theorem filter_ins (x : α) (k : Nat) : ∀ l : List α, l.Pairwise (fun a b => key a ≤ key b) →
    (ins key x l).filter (fun y => key y == k) =
      l.filter (fun y => key y == k) ++ (if key x == k then [x] else []) := by
  intro l
  induction l with
  | nil => intro _; by_cases hk : key x = k <;> simp [ins, List.filter, hk]
  | cons y t ih =>
    intro h
    have hy := (List.pairwise_cons.1 h).1
    have ht := (List.pairwise_cons.1 h).2
    simp only [ins]
    split
    · rename_i hlt
      by_cases hk : key x = k
      · have hnone : (y :: t).filter (fun z => key z == k) = [] := by
          apply List.filter_eq_nil_iff.2
          intro z hz
          rcases List.mem_cons.1 hz with rfl | hz
          · simp; omega
          · have := hy z hz; simp; omega
        rw [List.filter_cons, hnone]
        simp [hk]
      · simp [List.filter_cons, hk]
    · rw [List.filter_cons, List.filter_cons, ih ht]
      split <;> simp

theorem foldl_ins_filter (k : Nat) : ∀ (l acc : List α), acc.Pairwise (fun a b => key a ≤ key b) →
    (l.foldl (fun acc x => ins key x acc) acc).filter (fun y => key y == k) =
      acc.filter (fun y => key y == k) ++ l.filter (fun y => key y == k) := by
  intro l
  induction l with
  | nil => intro acc _; simp
  | cons x t ih =>
    intro acc h
    simp only [List.foldl_cons]
    rw [ih _ (ins_sorted key x acc h), filter_ins key x k acc h, List.filter_cons]
    split <;> simp

theorem foldl_oset_eq (l : List α) : ∀ (acc : List α), ((acc ++ l).map key).Nodup →
    l.foldl (fun acc x => osetInsert key x acc) acc = l.foldl (fun acc x => ins key x acc) acc := by
  induction l with
  | nil => intro _ _; rfl
  | cons x t ih =>
    intro acc h
    simp only [List.foldl_cons]
    have hx : acc.any (fun y => key y == key x) = false := by
      apply Bool.eq_false_iff.2
      intro hc
      obtain ⟨y, hy, hk⟩ := List.any_eq_true.1 hc
      simp only [List.map_append, List.map_cons] at h
      have := (List.nodup_append.1 h).2.2 (key y) (List.mem_map.2 ⟨y, hy, rfl⟩) (key x) (by simp)
      exact this (by simpa using hk)
    have e : osetInsert key x acc = ins key x acc := by simp [osetInsert, hx]
    rw [e]
    apply ih
    have hp : ((ins key x acc ++ t).map key).Perm ((acc ++ x :: t).map key) := by
      apply List.Perm.map
      refine ((ins_perm key x acc).append_right t).trans ?_
      simpa using (List.perm_middle (a := x) (l₁ := acc) (l₂ := t)).symm
    exact hp.nodup_iff.2 h

end keyed

end Cppcheck.Determinism

import Cppcheck.Model.Addon
/-
C34 — helper lemmas: the duplicate filter, the conversion loop, the location array, summaries.
-/
namespace Cppcheck.Addon
open Cppcheck.Wire

/-! ### the duplicate filter -/

theorem dedupAux_sublist : ∀ (fs : List Finding) (seen), (dedupAux fs seen).Sublist fs := by
  intro fs
  induction fs with
  | nil => intro seen; simp [dedupAux]
  | cons f r ih =>
    intro seen
    simp only [dedupAux]
    split
    · exact (ih seen).cons f
    · exact (ih _).cons_cons f

theorem dedupAux_not_seen : ∀ (fs : List Finding) (seen), ∀ g ∈ dedupAux fs seen, g.key ∉ seen := by
  intro fs
  induction fs with
  | nil => intro seen g hg; simp [dedupAux] at hg
  | cons f r ih =>
    intro seen g hg
    simp only [dedupAux] at hg
    split at hg
    · exact ih seen g hg
    · rename_i hns
      simp only [List.mem_cons] at hg
      rcases hg with rfl | hg
      · exact hns
      · have := ih (f.key :: seen) g hg
        simp only [List.mem_cons, not_or] at this
        exact this.2

theorem dedupAux_nodup : ∀ (fs : List Finding) (seen), ((dedupAux fs seen).map Finding.key).Nodup := by
  intro fs
  induction fs with
  | nil => intro seen; simp [dedupAux]
  | cons f r ih =>
    intro seen
    simp only [dedupAux]
    split
    · exact ih seen
    · simp only [List.map_cons, List.nodup_cons, List.mem_map, not_exists, not_and]
      refine ⟨?_, ih _⟩
      intro g hg hk
      have := dedupAux_not_seen r (f.key :: seen) g hg
      simp [hk] at this

/-- the first finding of every rendered text that was not seen before survives, and only that one -/
theorem dedupAux_find : ∀ (fs : List Finding) (seen) (k), k ∉ seen →
    (dedupAux fs seen).find? (fun g => g.key = k) = fs.find? (fun g => g.key = k) := by
  intro fs
  induction fs with
  | nil => intro seen k _; simp [dedupAux]
  | cons f r ih =>
    intro seen k hk
    simp only [dedupAux]
    split
    · rename_i hs
      have hne : f.key ≠ k := by intro h; exact hk (h ▸ hs)
      simp only [List.find?_cons, hne, decide_false]
      exact ih seen k hk
    · by_cases he : f.key = k
      · simp [he]
      · simp only [List.find?_cons, he, decide_false]
        exact ih (f.key :: seen) k (by simp [hk, Ne.symm he])

theorem dedupAux_eq_self : ∀ (fs : List Finding) (seen), (fs.map Finding.key).Nodup →
    (∀ f ∈ fs, f.key ∉ seen) → dedupAux fs seen = fs := by
  intro fs
  induction fs with
  | nil => intro seen _ _; simp [dedupAux]
  | cons f r ih =>
    intro seen hn hs
    simp only [List.map_cons, List.nodup_cons] at hn
    simp only [dedupAux, hs f (by simp), if_false]
    congr 1
    apply ih _ hn.2
    intro g hg
    simp only [List.mem_cons, not_or]
    refine ⟨?_, hs g (by simp [hg])⟩
    intro h
    exact hn.1 (List.mem_map.mpr ⟨g, hg, h⟩)

theorem dedup_sublist (fs : List Finding) : (dedup fs).Sublist fs := dedupAux_sublist fs []
theorem dedup_nodup (fs : List Finding) : ((dedup fs).map Finding.key).Nodup := dedupAux_nodup fs []
theorem dedup_find (fs : List Finding) (k) :
    (dedup fs).find? (fun g => g.key = k) = fs.find? (fun g => g.key = k) := dedupAux_find fs [] k (by simp)
theorem dedup_eq_self (fs : List Finding) (h : (fs.map Finding.key).Nodup) : dedup fs = fs :=
  dedupAux_eq_self fs [] h (by simp)

/-- every finding's rendered text is shown (by the first finding that renders to it) -/
theorem dedup_complete (fs : List Finding) (f : Finding) (h : f ∈ fs) : ∃ g ∈ dedup fs, g.key = f.key := by
  have h1 : (fs.find? (fun g => g.key = f.key)).isSome := by
    rw [List.find?_isSome]; exact ⟨f, h, by simp⟩
  rw [← dedup_find] at h1
  obtain ⟨g, hg⟩ := Option.isSome_iff_exists.mp h1
  exact ⟨g, List.mem_of_find?_eq_some hg, by simpa using List.find?_some hg⟩

/-! ### the conversion loop -/

/-- the finding an object line is converted to, if any -/
def reported (o : Opts) (ob : ObjLine) : Option Finding :=
  match convert o ob with | .report f => some f | _ => none

theorem relayObjs_findings (o : Opts) : ∀ objs : List ObjLine,
    (relayObjs o objs).findings = (objs.takeWhile fun ob => convert o ob ≠ .throw).filterMap (reported o) := by
  intro objs
  induction objs with
  | nil => rfl
  | cons ob r ih =>
    simp only [relayObjs]
    cases hc : convert o ob with
    | throw => simp [Outcome.findings, List.takeWhile, hc]
    | skip => simp [List.takeWhile, hc, ih, reported]
    | report f =>
      dsimp only
      cases hr : relayObjs o r <;> rw [hr] at ih <;>
        simp [Outcome.findings, List.takeWhile, hc, reported] at ih ⊢ <;> exact ih

theorem relayObjs_isFailed (o : Opts) : ∀ objs : List ObjLine, (relayObjs o objs).isFailed = throws o objs := by
  intro objs
  induction objs with
  | nil => rfl
  | cons ob r ih =>
    simp only [relayObjs]
    cases hc : convert o ob with
    | throw => simp [Outcome.isFailed, throws, hc]
    | skip => rw [ih]; simp [throws, hc]
    | report f =>
      dsimp only
      cases hr : relayObjs o r <;> rw [hr] at ih <;>
        simp [Outcome.isFailed, throws, hc] at ih ⊢ <;> simpa [throws] using ih

theorem takeWhile_eq_self_of_all {α} (p : α → Bool) (l : List α) (h : ∀ a ∈ l, p a = true) : l.takeWhile p = l := by
  induction l with
  | nil => rfl
  | cons a r ih => simp [List.takeWhile, h a (by simp), ih (fun b hb => h b (by simp [hb]))]

/-- the object lines of an output without a non-brace line -/
def objsOf (lines : List Line) : List ObjLine := lines.filterMap fun | .obj ob => some ob | _ => none

theorem validate_objsOf : ∀ lines : List Line, (∀ l ∈ lines, l ≠ .notBrace) → validate lines = some (objsOf lines) := by
  intro lines
  induction lines with
  | nil => intro _; rfl
  | cons l r ih =>
    intro h
    have hr := ih (fun x hx => h x (by simp [hx]))
    cases l with
    | notBrace => exact absurd rfl (h _ (by simp))
    | obj ob => simp [validate, hr, objsOf]
    | empty => simpa [validate, objsOf] using hr
    | checking => simpa [validate, objsOf] using hr
    | badJson => simpa [validate, objsOf] using hr

theorem validate_none_iff : ∀ lines : List Line, validate lines = none ↔ Line.notBrace ∈ lines := by
  intro lines
  induction lines with
  | nil => simp [validate]
  | cons l r ih => cases l <;> simp [validate, ih]

/-! ### the location array -/

/-- one element of the `loc` array gives exactly one location, with its four members -/
def locItem (it : Option Fields) (l : Loc) : Prop :=
  ∃ f, it = some f ∧ getStr "file" f = some l.file ∧ getInt "linenr" f = some l.line ∧
    getInt "column" f = some l.col ∧ getStr "info" f = some l.info

/-- element by element, in order, nothing more and nothing less -/
def locItems : List (Option Fields) → List Loc → Prop
  | [], [] => True
  | it :: r, l :: ls => locItem it l ∧ locItems r ls
  | _, _ => False

theorem convLocs_eq_some_iff : ∀ (items : List (Option Fields)) (ls : List Loc),
    convLocs items = some ls ↔ locItems items ls := by
  intro items
  induction items with
  | nil => intro ls; cases ls <;> simp [convLocs, locItems]
  | cons it r ih =>
    intro ls
    cases it with
    | none =>
      cases ls with
      | nil => simp [convLocs, locItems]
      | cons l ls' =>
        simp only [convLocs, reduceCtorEq, false_iff, locItems, not_and]
        intro h1; obtain ⟨f, hf, _⟩ := h1; simp at hf
    | some f =>
      constructor
      · intro h
        simp only [convLocs] at h
        split at h
        · rename_i fl l c i ls' h1 h2 h3 h4 h5
          simp only [Option.some.injEq] at h
          subst h
          exact ⟨⟨f, rfl, h1, h2, h3, h4⟩, (ih ls').mp h5⟩
        · simp at h
      · intro h
        cases ls with
        | nil => simp [locItems] at h
        | cons l ls' =>
          obtain ⟨⟨f', hf, h1, h2', h3, h4⟩, h2⟩ := h
          simp only [Option.some.injEq] at hf
          subst hf
          simp only [convLocs, h1, h2', h3, h4, (ih ls').mpr h2]

/-! ### summaries -/

theorem summaryObjs_eq (o : Opts) : ∀ objs : List ObjLine,
    summaryObjs o objs = (objs.takeWhile fun ob => convert o ob ≠ .throw).filter fun ob => has "summary" ob.fields := by
  intro objs
  induction objs with
  | nil => rfl
  | cons ob r ih =>
    simp only [summaryObjs]
    by_cases hs : has "summary" ob.fields = true
    · have hc : convert o ob = .skip := by simp [convert, hs]
      simp [hs, List.takeWhile, hc, ih]
    · simp only [hs, Bool.false_eq_true, if_false]
      cases hc : convert o ob with
      | throw => simp [List.takeWhile, hc]
      | skip => simp [List.takeWhile, hc, ih, hs]
      | report f => simp [List.takeWhile, hc, ih, hs]

theorem throws_false_iff (o : Opts) (objs : List ObjLine) :
    throws o objs = false ↔ ∀ ob ∈ objs, convert o ob ≠ .throw := by
  simp [throws]

end Cppcheck.Addon

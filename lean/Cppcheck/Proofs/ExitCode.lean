import Cppcheck.Model.ExitCode
namespace Cppcheck.ExitCode

theorem gate_sub (d k : Bool) (p : Finding → Bool) : ∀ (es : List Emit) (seen : List Nat) (e : Emit),
    e ∈ gate d k p seen es → e ∈ es ∧ (e.internal = true → k = true) ∧ (e.internal = false → p e.f = true) := by
  intro es
  induction es with
  | nil => intro seen e h; simp [gate] at h
  | cons a r ih =>
    intro seen e h
    unfold gate at h
    split at h
    · split at h
      · rcases List.mem_cons.mp h with h | h
        · subst h; simp_all
        · have := ih _ _ h; simp_all
      · have := ih _ _ h; simp_all
    · split at h
      · have := ih _ _ h; simp_all
      · split at h
        · rcases List.mem_cons.mp h with h | h
          · subst h; simp_all
          · have := ih _ _ h; simp_all
        · split at h
          · have := ih _ _ h; simp_all
          · rcases List.mem_cons.mp h with h | h
            · subst h; simp_all
            · have := ih _ _ h; simp_all

theorem gate_rep (d k : Bool) (p : Finding → Bool) : ∀ (es : List Emit) (seen : List Nat) (e : Emit),
    e ∈ es → e.internal = false → p e.f = true →
    seen.contains e.f.key = true ∨ ∃ e' ∈ gate d k p seen es, e'.internal = false ∧ e'.f.key = e.f.key := by
  intro es
  induction es with
  | nil => intro seen e h; simp at h
  | cons a r ih =>
    intro seen e h hi hp
    rcases List.mem_cons.mp h with h | h
    · subst h
      unfold gate
      simp [hi, hp]
      by_cases hd : d = true
      · simp [hd, hi]
      · by_cases hc : seen.contains e.f.key = true
        · left; simpa using hc
        · right; simp [hd, hc, hi]
          simp at hc
          simp [hc, hi]
    · unfold gate
      split
      · split
        · rcases ih seen e h hi hp with h1 | ⟨e', h1, h2⟩
          · exact Or.inl h1
          · exact Or.inr ⟨e', List.mem_cons_of_mem _ h1, h2⟩
        · exact ih seen e h hi hp
      · split
        · exact ih seen e h hi hp
        · split
          · rcases ih seen e h hi hp with h1 | ⟨e', h1, h2⟩
            · exact Or.inl h1
            · exact Or.inr ⟨e', List.mem_cons_of_mem _ h1, h2⟩
          · split
            · exact ih seen e h hi hp
            · rcases ih (a.f.key :: seen) e h hi hp with h1 | ⟨e', h1, h2⟩
              · simp at h1
                rcases h1 with h1 | h1
                · right
                  refine ⟨a, List.mem_cons_self, ?_, h1.symm⟩
                  simp_all
                · left; simpa using h1
              · exact Or.inr ⟨e', List.mem_cons_of_mem _ h1, h2⟩
theorem step_cases (o : Opts) (g : Bool) (s : LState) (f : Finding) (hs : o.safety = false) :
    (loggerStep o g s f = s) ∨
    (∃ sn sp, loggerStep o g s f = { s with seen := sn, seenSup := sp }) ∨
    (f.internal = true ∧ loggerStep o g s f = { s with out := s.out ++ [⟨f, false⟩] }) ∨
    (f.internal = false ∧ f.emptyText = false ∧ (g = true → f.nomsgGlobal = false) ∧
      ∃ sn sp, loggerStep o g s f = { exit := s.exit || (!f.nofail && !f.nomsgGlobal), seen := sn, seenSup := sp, out := s.out ++ [⟨f, false⟩] }) := by
  unfold loggerStep
  simp only [hs, Bool.and_false, Bool.false_and, Bool.false_eq_true, if_false]
  by_cases h1 : f.internal = true
  · simp [h1]
  · by_cases h2 : f.libSkip = true
    · simp [h1, h2]
    · by_cases h3 : f.emptyText = true
      · simp [h1, h2, h3]
      · have h1' : f.internal = false := by simpa using h1
        have h2' : f.libSkip = false := by simpa using h2
        have h3' : f.emptyText = false := by simpa using h3
        simp only [h1', h2', h3', Bool.false_eq_true, if_false]
        by_cases hm : f.key ∈ s.seen <;> by_cases hm2 : f.key ∈ s.seenSup <;>
          cases h6 : o.emitDuplicates <;> cases g <;> cases hng : f.nomsgGlobal <;> cases hnl : f.nomsgLocal <;> cases hnf : f.nofail <;> simp [hm, hm2]

/-- what a forwarded, visible message guarantees about the logger that forwarded it -/
def Good (g : Bool) (s : LState) : Prop :=
  ∀ e ∈ s.out, e.internal = false →
    e.f.emptyText = false ∧ (g = true → e.f.nomsgGlobal = false) ∧
    (e.f.nofail = false → e.f.nomsgGlobal = false → s.exit = true)

/-- why the exit flag is set -/
def Expl (b : Bool) (s : LState) : Prop :=
  s.exit = true → b = true ∨ ∃ e ∈ s.out, e.internal = false ∧ e.f.nofail = false ∧ e.f.nomsgGlobal = false ∧ e.f.emptyText = false

/-- every forwarded message stems from the start state or from one of the findings processed -/
def From (s0 : LState) (fs : List Finding) (s : LState) : Prop :=
  ∀ e ∈ s.out, e ∈ s0.out ∨ e.f ∈ fs

theorem step_good (o : Opts) (g : Bool) (s : LState) (f : Finding) (hs : o.safety = false)
    (h : Good g s) : Good g (loggerStep o g s f) := by
  rcases step_cases o g s f hs with h1 | ⟨sn, sp, h1⟩ | ⟨hi, h1⟩ | ⟨hi, he, hg, sn, sp, h1⟩ <;> rw [h1]
  · exact h
  · exact h
  · intro e he hint
    simp only [List.mem_append, List.mem_singleton] at he
    rcases he with he | he
    · exact h e he hint
    · subst he; simp [Emit.internal, hi] at hint
  · intro e he' hint
    simp only [List.mem_append, List.mem_singleton] at he'
    rcases he' with he' | he'
    · have := h e he' hint
      refine ⟨this.1, this.2.1, ?_⟩
      intro a b; simp [this.2.2 a b]
    · subst he'
      refine ⟨he, hg, ?_⟩
      intro a b; simp at a b; simp [a, b]

theorem step_expl (o : Opts) (g b : Bool) (s : LState) (f : Finding) (hs : o.safety = false)
    (h : Expl b s) : Expl b (loggerStep o g s f) := by
  rcases step_cases o g s f hs with h1 | ⟨sn, sp, h1⟩ | ⟨hi, h1⟩ | ⟨hi, he, hg, sn, sp, h1⟩ <;> rw [h1]
  · exact h
  · exact h
  · intro hx
    rcases h hx with h2 | ⟨e, h2, h3⟩
    · exact Or.inl h2
    · exact Or.inr ⟨e, List.mem_append_left _ h2, h3⟩
  · intro hx
    simp only [Bool.or_eq_true, Bool.and_eq_true, Bool.not_eq_true'] at hx
    rcases hx with hx | hx
    · rcases h hx with h2 | ⟨e, h2, h3⟩
      · exact Or.inl h2
      · exact Or.inr ⟨e, List.mem_append_left _ h2, h3⟩
    · right
      refine ⟨⟨f, false⟩, by simp, ?_, hx.1, hx.2, he⟩
      simp [Emit.internal, hi]

theorem step_mono (o : Opts) (g : Bool) (s : LState) (f : Finding) (hs : o.safety = false) (h : s.exit = true) :
    (loggerStep o g s f).exit = true := by
  rcases step_cases o g s f hs with h1 | ⟨sn, sp, h1⟩ | ⟨hi, h1⟩ | ⟨hi, he, hg, sn, sp, h1⟩ <;> rw [h1] <;> simp [h]

theorem step_out (o : Opts) (g : Bool) (s : LState) (f : Finding) (hs : o.safety = false) (e : Emit) :
    (e ∈ s.out → e ∈ (loggerStep o g s f).out) ∧ (e ∈ (loggerStep o g s f).out → e ∈ s.out ∨ e.f = f) := by
  rcases step_cases o g s f hs with h1 | ⟨sn, sp, h1⟩ | ⟨hi, h1⟩ | ⟨hi, he, hg, sn, sp, h1⟩ <;> rw [h1]
  · exact ⟨id, Or.inl⟩
  · exact ⟨id, Or.inl⟩
  · refine ⟨fun h => List.mem_append_left _ h, fun h => ?_⟩
    simp only [List.mem_append, List.mem_singleton] at h
    rcases h with h | h
    · exact Or.inl h
    · right; rw [h]
  · refine ⟨fun h => List.mem_append_left _ h, fun h => ?_⟩
    simp only [List.mem_append, List.mem_singleton] at h
    rcases h with h | h
    · exact Or.inl h
    · right; rw [h]

/- ---- the fold ---------------------------------------------------------------------------------------- -/

theorem run_good (o : Opts) (g : Bool) (hs : o.safety = false) : ∀ (fs : List Finding) (s : LState),
    Good g s → Good g (runLogger o g s fs) := by
  intro fs
  induction fs with
  | nil => intro s h; exact h
  | cons f r ih => intro s h; exact ih _ (step_good o g s f hs h)

theorem run_expl (o : Opts) (g b : Bool) (hs : o.safety = false) : ∀ (fs : List Finding) (s : LState),
    Expl b s → Expl b (runLogger o g s fs) := by
  intro fs
  induction fs with
  | nil => intro s h; exact h
  | cons f r ih => intro s h; exact ih _ (step_expl o g b s f hs h)

theorem run_mono (o : Opts) (g : Bool) (hs : o.safety = false) : ∀ (fs : List Finding) (s : LState),
    s.exit = true → (runLogger o g s fs).exit = true := by
  intro fs
  induction fs with
  | nil => intro s h; exact h
  | cons f r ih => intro s h; exact ih _ (step_mono o g s f hs h)

theorem run_out (o : Opts) (g : Bool) (hs : o.safety = false) : ∀ (fs : List Finding) (s : LState) (e : Emit),
    (e ∈ s.out → e ∈ (runLogger o g s fs).out) ∧ (e ∈ (runLogger o g s fs).out → e ∈ s.out ∨ e.f ∈ fs) := by
  intro fs
  induction fs with
  | nil => intro s e; exact ⟨id, Or.inl⟩
  | cons f r ih =>
    intro s e
    have h1 := step_out o g s f hs e
    have h2 := ih (loggerStep o g s f) e
    refine ⟨fun h => h2.1 (h1.1 h), fun h => ?_⟩
    rcases h2.2 h with h | h
    · rcases h1.2 h with h | h
      · exact Or.inl h
      · right; rw [h]; exact List.mem_cons_self
    · exact Or.inr (List.mem_cons_of_mem _ h)

theorem good_init (g b : Bool) : Good g (LState.init b) := by
  intro e he; simp [LState.init] at he

theorem expl_init (b : Bool) : Expl b (LState.init b) := by
  intro h; left; simpa [LState.init] using h


/- ---- the run ----------------------------------------------------------------------------------------- -/

theorem fileState_mem {r : Run} {s : LState} (h : s ∈ fileStates r) :
    ∃ fs ∈ r.files, s = runFile r.o (useGlobal r) fs := by
  simp only [fileStates, List.mem_map] at h
  rcases h with ⟨fs, h1, h2⟩
  exact ⟨fs, h1, h2.symm⟩

theorem fileState_good {r : Run} (hs : r.o.safety = false) {s : LState} (h : s ∈ fileStates r) :
    Good (useGlobal r) s := by
  rcases fileState_mem h with ⟨fs, _, rfl⟩
  exact run_good _ _ hs _ _ (good_init _ _)

theorem fileState_expl {r : Run} (hs : r.o.safety = false) {s : LState} (h : s ∈ fileStates r) :
    Expl false s := by
  rcases fileState_mem h with ⟨fs, _, rfl⟩
  exact run_expl _ _ _ hs _ _ (expl_init _)

theorem fileState_from {r : Run} (hs : r.o.safety = false) {s : LState} (h : s ∈ fileStates r) {e : Emit}
    (he : e ∈ s.out) : e.f ∈ r.files.flatten := by
  rcases fileState_mem h with ⟨fs, hfs, rfl⟩
  rcases (run_out r.o (useGlobal r) hs fs (LState.init false) e).2 he with h1 | h1
  · simp [LState.init] at h1
  · exact List.mem_flatten.mpr ⟨fs, hfs, h1⟩

theorem main1_good (r : Run) (hs : r.o.safety = false) : Good true (main1 r) := by
  unfold main1
  split
  · exact run_good _ _ hs _ _ (good_init _ _)
  · exact good_init _ _

theorem main2_good (r : Run) (hs : r.o.safety = false) : Good true (main2 r) :=
  run_good _ _ hs _ _ (main1_good r hs)

theorem main1_expl (r : Run) (hs : r.o.safety = false) : Expl (mainStart r) (main1 r) := by
  unfold main1
  split
  · exact run_expl _ _ _ hs _ _ (expl_init _)
  · exact expl_init _

theorem main2_expl (r : Run) (hs : r.o.safety = false) : Expl (mainStart r) (main2 r) :=
  run_expl _ _ _ hs _ _ (main1_expl r hs)

theorem main12_mono (r : Run) (hs : r.o.safety = false) (h : (main1 r).exit = true) : (main2 r).exit = true :=
  run_mono _ _ hs _ _ h

theorem main2_from (r : Run) (hs : r.o.safety = false) {e : Emit} (he : e ∈ (main2 r).out) :
    e.f ∈ r.wp1 ∨ e.f ∈ r.wp2 := by
  rcases (run_out r.o true hs r.wp2 (main1 r) e).2 he with h1 | h1
  · left
    unfold main1 at h1
    split at h1
    · rcases (run_out r.o true hs r.wp1 _ e).2 h1 with h2 | h2
      · simp [LState.init] at h2
      · exact h2
    · simp [LState.init] at h1
  · exact Or.inr h1

theorem mainStart_file {r : Run} (h : mainStart r = true) : ∃ s ∈ fileStates r, s.exit = true := by
  unfold mainStart at h
  split at h
  · split at h
    · rename_i s hl
      exact ⟨s, List.mem_of_getLast? hl, h⟩
    · simp at h
  · simp at h

theorem sum_le_length (l : List LState) (f : LState → Nat) (hf : ∀ s, f s ≤ 1) : (l.map f).sum ≤ l.length := by
  induction l with
  | nil => simp
  | cons a r ih => simp only [List.map_cons, List.sum_cons, List.length_cons]; have := hf a; omega

theorem sum_pos_of_mem (l : List LState) (f : LState → Nat) (s : LState) (hs : s ∈ l) (h : 0 < f s) : 0 < (l.map f).sum := by
  induction l with
  | nil => simp at hs
  | cons a r ih =>
    simp only [List.map_cons, List.sum_cons]
    rcases List.mem_cons.mp hs with h1 | h1
    · subst h1; omega
    · have := ih h1; omega

theorem mem_of_sum_pos (l : List LState) (f : LState → Nat) (h : 0 < (l.map f).sum) : ∃ s ∈ l, 0 < f s := by
  induction l with
  | nil => simp at h
  | cons a r ih =>
    simp only [List.map_cons, List.sum_cons] at h
    by_cases ha : 0 < f a
    · exact ⟨a, List.mem_cons_self, ha⟩
    · have : 0 < (r.map f).sum := by omega
      rcases ih this with ⟨s, h1, h2⟩
      exact ⟨s, List.mem_cons_of_mem _ h1, h2⟩

theorem fileRet_le (r : Run) (s : LState) : fileRet r s ≤ 1 := by
  unfold fileRet; split
  · omega
  · split <;> omega

theorem sumRets_le (r : Run) : sumRets r ≤ r.files.length := by
  have := sum_le_length (fileStates r) (fileRet r) (fileRet_le r)
  simpa [sumRets, fileStates] using this

theorem or_ne_zero_left {a b : Nat} (h : a ≠ 0) : a ||| b ≠ 0 := by
  intro h0
  have := Nat.or_eq_zero_iff.mp h0
  exact h this.1

theorem or_ne_zero_right {a b : Nat} (h : b ≠ 0) : a ||| b ≠ 0 := by
  intro h0
  have := Nat.or_eq_zero_iff.mp h0
  exact h this.2

/-- the file-level exit flag reaches `returnValue` -/
theorem rv1_of_file {r : Run} (hw : noWrap r = true) (hcc : avoidsCheckConfig r = true)
    {s : LState} (hs : s ∈ fileStates r) (hx : s.exit = true) : rv1 r ≠ 0 := by
  apply or_ne_zero_left
  have h1 : 0 < fileRet r s := by
    unfold fileRet
    simp only [avoidsCheckConfig, Bool.or_eq_true, Bool.not_eq_true'] at hcc
    rcases hcc with hcc | hcc <;> simp [hcc, hx]
  have h2 := sum_pos_of_mem (fileStates r) (fileRet r) s hs h1
  have h3 := sumRets_le r
  simp only [noWrap, decide_eq_true_eq] at hw
  unfold execResult
  simp only
  have h4 : (if r.o.executor = Executor.process then r.lostPipes else 0) ≤ r.lostPipes := by split <;> omega
  have h5 : (if (r.o.executor == Executor.single && r.wp1Errors && (main1 r).exit) = true then 1 else 0) ≤ 1 := by split <;> omega
  have h2' : 0 < sumRets r := h2
  rw [Nat.mod_eq_of_lt (by simp only [beq_iff_eq] at *; omega)]
  omega

theorem rv1_of_main {r : Run} (hx : (main2 r).exit = true) : rv1 r ≠ 0 := by
  apply or_ne_zero_right
  simp [hx]

theorem rv2_of_rv1 {r : Run} (h : rv1 r ≠ 0) : rv2 r ≠ 0 := by
  unfold rv2
  have : (rv1 r == 0) = false := by simpa using h
  simp [this, h]

theorem status_of_rv2 {r : Run} (hs : r.o.safety = false) (h : rv2 r ≠ 0) :
    exitStatus r = waitStatus r.o.errorExitCode := by
  unfold exitStatus mainReturn
  have : (rv2 r != 0) = true := by simpa using h
  simp [hs, this]

theorem status_of_rv2_zero {r : Run} (hs : r.o.safety = false) (h : rv2 r = 0) : exitStatus r = 0 := by
  unfold exitStatus mainReturn
  simp [hs, h, waitStatus]


/- ---- the two directions ------------------------------------------------------------------------------- -/

theorem stdInput_cases {r : Run} {e : Emit} (h : e ∈ stdInput r) :
    (r.o.executor = .single ∧ ∃ s ∈ fileStates r, e ∈ s.out) ∨
    (r.o.executor ≠ .single ∧ e ∈ hasToLog r.o ((fileStates r).flatMap (·.out))) ∨
    e ∈ (main2 r).out ∨
    (r.unmatchedGate = true ∧ ∃ u ∈ r.unmatched, e = ⟨u, false⟩) := by
  unfold stdInput at h
  simp only [List.mem_append] at h
  rcases h with (h | h) | h
  · by_cases hx : r.o.executor = .single
    · left
      simp only [hx, beq_self_eq_true, if_true, List.mem_flatMap] at h
      exact ⟨hx, h⟩
    · right; left
      have : (r.o.executor == Executor.single) = false := by simpa using hx
      simp only [this, Bool.false_eq_true, if_false] at h
      exact ⟨hx, h⟩
  · exact Or.inr (Or.inr (Or.inl h))
  · right; right; right
    split at h
    · rename_i hg
      simp only [List.mem_map] at h
      rcases h with ⟨u, h1, h2⟩
      exact ⟨hg, u, h1, h2.symm⟩
    · simp at h

theorem stdInput_all {r : Run} (hs : r.o.safety = false) {e : Emit} (h : e ∈ stdInput r) : e.f ∈ allFindings r := by
  unfold allFindings
  simp only [List.mem_append]
  rcases stdInput_cases h with ⟨_, s, h1, h2⟩ | ⟨_, h1⟩ | h1 | ⟨_, u, h1, h2⟩
  · exact Or.inl (Or.inl (Or.inl (fileState_from hs h1 h2)))
  · have := (gate_sub _ _ _ _ _ _ h1).1
    simp only [List.mem_flatMap] at this
    rcases this with ⟨s, h2, h3⟩
    exact Or.inl (Or.inl (Or.inl (fileState_from hs h2 h3)))
  · rcases main2_from r hs h1 with h2 | h2
    · exact Or.inl (Or.inl (Or.inr h2))
    · exact Or.inl (Or.inr h2)
  · subst h2; exact Or.inr h1

/-- completeness: a printed finding that is not exit-code-suppressed forces the error exit code -/
theorem complete (r : Run) (hs : r.o.safety = false) (hw : noWrap r = true) (hcc : avoidsCheckConfig r = true)
    (f : Finding) (hf : f ∈ printed r) (hn : f.nofail = false) :
    exitStatus r = waitStatus r.o.errorExitCode := by
  simp only [printed, List.mem_map] at hf
  rcases hf with ⟨e, he, rfl⟩
  have hsub := gate_sub _ _ _ _ _ _ he
  have hint : e.internal = false := by
    cases h : e.internal
    · rfl
    · have := hsub.2.1 h; simp at this
  rcases stdInput_cases hsub.1 with ⟨hx, s, h1, h2⟩ | ⟨hx, h1⟩ | h1 | ⟨hg, u, h1, h2⟩
  · have hgd := fileState_good hs h1 e h2 hint
    have hgl : useGlobal r = true := by simp [useGlobal, hx]
    have hng := hgd.2.1 hgl
    exact status_of_rv2 hs (rv2_of_rv1 (rv1_of_file hw hcc h1 (hgd.2.2 hn hng)))
  · have h3 := gate_sub _ _ _ _ _ _ h1
    have hp := h3.2.2 hint
    simp only [Bool.and_eq_true, Bool.not_eq_true'] at hp
    have := h3.1
    simp only [List.mem_flatMap] at this
    rcases this with ⟨s, h4, h5⟩
    have hgd := fileState_good hs h4 e h5 hint
    exact status_of_rv2 hs (rv2_of_rv1 (rv1_of_file hw hcc h4 (hgd.2.2 hn hp.1)))
  · have hgd := main2_good r hs e h1 hint
    exact status_of_rv2 hs (rv2_of_rv1 (rv1_of_main (hgd.2.2 hn (hgd.2.1 rfl))))
  · subst h2
    by_cases hz : rv2 r = 0
    · rw [status_of_rv2_zero hs hz]
      have hue : unmatchedErr r = true := by
        unfold unmatchedErr
        split
        · simp only [List.any_eq_true, Bool.not_eq_true']; exact ⟨u, h1, hn⟩
        · cases hl : r.unmatched with
          | nil => rw [hl] at h1; simp at h1
          | cons a t => simp
      unfold rv2 at hz
      by_cases h0 : rv1 r = 0
      · simp only [hg, hue, h0, beq_self_eq_true, Bool.and_self, if_true] at hz
        unfold waitStatus
        simp only [two32] at hz
        omega
      · have : (rv1 r == 0) = false := by simpa using h0
        simp [this] at hz
        exact absurd hz h0
    · exact status_of_rv2 hs hz

theorem key_nofail {r : Run} (hk : keyCoherent r = true) {f g : Finding} (hf : f ∈ allFindings r) (hg : g ∈ allFindings r)
    (h : f.key = g.key) : f.nofail = g.nofail := by
  simp only [keyCoherent, List.all_eq_true] at hk
  have := hk f hf g hg
  simp only [Bool.or_eq_true, bne_iff_ne, ne_eq, Bool.and_eq_true, beq_iff_eq] at this
  rcases this with h1 | h1
  · exact absurd h h1
  · exact h1.1

/-- a visible message at StdLogger that is not exit-code-suppressed has a printed representative -/
theorem culprit_printed {r : Run} (hs : r.o.safety = false) (hk : keyCoherent r = true) {e : Emit}
    (he : e ∈ stdInput r) (hint : e.internal = false) (hn : e.f.nofail = false) :
    ∃ f ∈ printed r, f.nofail = false := by
  rcases gate_rep r.o.emitDuplicates false (fun _ => true) (stdInput r) [] e he hint rfl with h | ⟨e', h1, _, h3⟩
  · simp at h
  · refine ⟨e'.f, ?_, ?_⟩
    · simp only [printed, List.mem_map]; exact ⟨e', h1, rfl⟩
    · have h4 := (gate_sub _ _ _ _ _ _ h1).1
      rw [key_nofail hk (stdInput_all hs h4) (stdInput_all hs he) h3]; exact hn

theorem file_culprit {r : Run} (hs : r.o.safety = false) (hk : keyCoherent r = true) {s : LState}
    (h : s ∈ fileStates r) (hx : s.exit = true) : ∃ f ∈ printed r, f.nofail = false := by
  rcases fileState_expl hs h hx with h1 | ⟨e, h1, h2, h3, h4, h5⟩
  · simp at h1
  · have hmem : e ∈ (fileStates r).flatMap (·.out) := List.mem_flatMap.mpr ⟨s, h, h1⟩
    by_cases hsingle : r.o.executor = .single
    · refine culprit_printed hs hk (e := e) ?_ h2 h3
      unfold stdInput
      simp only [hsingle, beq_self_eq_true, if_true, List.mem_append]
      exact Or.inl (Or.inl hmem)
    · have hp : (fun f : Finding => !f.nomsgGlobal && !f.emptyText) e.f = true := by simp [h4, h5]
      rcases gate_rep r.o.emitDuplicates true (fun f : Finding => !f.nomsgGlobal && !f.emptyText) _ [] e hmem h2 hp with h6 | ⟨e', h6, h7, h8⟩
      · simp at h6
      · have hin : e' ∈ stdInput r := by
          unfold stdInput
          have : (r.o.executor == Executor.single) = false := by simpa using hsingle
          simp only [this, Bool.false_eq_true, if_false, List.mem_append]
          exact Or.inl (Or.inl h6)
        have hall : e.f ∈ allFindings r := by
          unfold allFindings
          simp only [List.mem_append]
          exact Or.inl (Or.inl (Or.inl (fileState_from hs h h1)))
        refine culprit_printed hs hk hin h7 ?_
        rw [key_nofail hk (stdInput_all hs hin) hall h8]; exact h3

theorem main_culprit {r : Run} (hs : r.o.safety = false) (hk : keyCoherent r = true)
    (hx : (main2 r).exit = true) : ∃ f ∈ printed r, f.nofail = false := by
  rcases main2_expl r hs hx with h1 | ⟨e, h1, h2, h3, _, _⟩
  · rcases mainStart_file h1 with ⟨s, h2, h3⟩
    exact file_culprit hs hk h2 h3
  · refine culprit_printed hs hk (e := e) ?_ h2 h3
    unfold stdInput
    simp only [List.mem_append]
    exact Or.inl (Or.inr h1)

/-- soundness: the error exit code is explained by a printed finding that is not exit-code-suppressed -/
theorem sound (r : Run) (hs : r.o.safety = false) (hc : r.o.errorExitCode % 256 ≠ 0) (hl : r.lostPipes = 0)
    (hk : keyCoherent r = true) (hu : unmatchedPlain r = true) (h9 : avoidsUnmatchedNofail r = true)
    (h : exitStatus r = waitStatus r.o.errorExitCode) : ∃ f ∈ printed r, f.nofail = false := by
  have hnz : rv2 r ≠ 0 := by
    intro hz
    rw [status_of_rv2_zero hs hz] at h
    unfold waitStatus at h
    omega
  by_cases h1 : rv1 r = 0
  · -- the unmatchedSuppression branch
    unfold rv2 at hnz
    by_cases hcond : (r.unmatchedGate && unmatchedErr r && rv1 r == 0) = true
    · simp only [Bool.and_eq_true] at hcond
      have hg := hcond.1.1
      have hue := hcond.1.2
      have : ∃ u ∈ r.unmatched, u.nofail = false := by
        unfold unmatchedErr at hue
        split at hue
        · simpa using hue
        · rename_i hv
          simp only [avoidsUnmatchedNofail, Bool.or_eq_true, Bool.not_eq_true'] at h9
          rcases h9 with ((h9 | h9) | h9) | h9
          · exact absurd h9 hv
          · rw [hg] at h9; simp at h9
          · rw [h9] at hue; simp at hue
          · simpa using h9
      rcases this with ⟨u, hu1, hu2⟩
      have hpl : u.internal = false ∧ u.emptyText = false := by
        simp only [unmatchedPlain, List.all_eq_true, Bool.and_eq_true, Bool.not_eq_true'] at hu
        exact hu u hu1
      refine culprit_printed hs hk (e := ⟨u, false⟩) ?_ ?_ hu2
      · unfold stdInput
        simp only [hg, if_true, List.mem_append, List.mem_map]
        exact Or.inr ⟨u, hu1, rfl⟩
      · simp [Emit.internal, hpl.1]
    · have : (r.unmatchedGate && unmatchedErr r && rv1 r == 0) = false := by simpa using hcond
      simp only [this, Bool.false_eq_true, if_false] at hnz
      exact absurd h1 hnz
  · -- some logger raised its flag
    by_cases hm : (main2 r).exit = true
    · exact main_culprit hs hk hm
    · have hm' : (main2 r).exit = false := by simpa using hm
      have hex : execResult r ≠ 0 := by
        intro h0
        apply h1
        unfold rv1
        simp [h0, hm']
      have hm1 : (main1 r).exit = false := by
        cases hh : (main1 r).exit
        · rfl
        · rw [main12_mono r hs hh] at hm'; simp at hm'
      unfold execResult at hex
      simp only [hm1, Bool.and_false, Bool.false_eq_true, if_false, hl, Nat.add_zero] at hex
      have hpos : 0 < sumRets r := by
        apply Nat.pos_of_ne_zero
        intro h0
        apply hex
        simp [h0]
      rcases mem_of_sum_pos (fileStates r) (fileRet r) hpos with ⟨s, h2, h3⟩
      have hx : s.exit = true := by
        unfold fileRet at h3
        split at h3
        · omega
        · split at h3
          · assumption
          · omega
      exact file_culprit hs hk h2 hx

/- ---- any arrival order of the workers' messages (audit follow-up) ----------------------------------------------- -/


theorem stdInput_eq (r : Run) : stdInput r = stdInputOf r (fromFiles r) := rfl
theorem printed_eq (r : Run) : printed r = printedOf r (fromFiles r) := rfl

theorem fromFiles_all {r : Run} (hs : r.o.safety = false) {e : Emit} (h : e ∈ fromFiles r) : e.f ∈ allFindings r := by
  simp only [fromFiles, List.mem_flatMap] at h
  rcases h with ⟨s, h1, h2⟩
  unfold allFindings
  simp only [List.mem_append]
  exact Or.inl (Or.inl (Or.inl (fileState_from hs h1 h2)))

theorem stdInputOf_cases {r : Run} {es : List Emit} {e : Emit} (h : e ∈ stdInputOf r es) :
    (r.o.executor = .single ∧ e ∈ es) ∨ (r.o.executor ≠ .single ∧ e ∈ hasToLog r.o es) ∨ e ∈ (main2 r).out ∨
    (r.unmatchedGate = true ∧ ∃ u ∈ r.unmatched, e = ⟨u, false⟩) := by
  unfold stdInputOf at h
  simp only [List.mem_append] at h
  rcases h with (h | h) | h
  · by_cases hx : r.o.executor = .single
    · left; simp only [hx, beq_self_eq_true, if_true] at h; exact ⟨hx, h⟩
    · right; left
      have : (r.o.executor == Executor.single) = false := by simpa using hx
      simp only [this, Bool.false_eq_true, if_false] at h
      exact ⟨hx, h⟩
  · exact Or.inr (Or.inr (Or.inl h))
  · right; right; right
    split at h
    · rename_i hg
      simp only [List.mem_map] at h
      rcases h with ⟨u, h1, h2⟩
      exact ⟨hg, u, h1, h2.symm⟩
    · simp at h

theorem stdInputOf_all {r : Run} (hs : r.o.safety = false) {es : List Emit} (hes : ∀ e, e ∈ es → e ∈ fromFiles r) {e : Emit}
    (h : e ∈ stdInputOf r es) : e.f ∈ allFindings r := by
  rcases stdInputOf_cases h with ⟨_, h1⟩ | ⟨_, h1⟩ | h1 | ⟨_, u, h1, h2⟩
  · exact fromFiles_all hs (hes e h1)
  · exact fromFiles_all hs (hes e (gate_sub _ _ _ _ _ _ h1).1)
  · unfold allFindings
    simp only [List.mem_append]
    rcases main2_from r hs h1 with h2 | h2
    · exact Or.inl (Or.inl (Or.inr h2))
    · exact Or.inl (Or.inr h2)
  · subst h2; unfold allFindings; simp only [List.mem_append]; exact Or.inr h1

theorem culprit_printedOf {r : Run} (hs : r.o.safety = false) (hk : keyCoherent r = true) {es : List Emit}
    (hes : ∀ e, e ∈ es → e ∈ fromFiles r) {e : Emit} (he : e ∈ stdInputOf r es) (hint : e.internal = false)
    (hn : e.f.nofail = false) : ∃ f ∈ printedOf r es, f.nofail = false := by
  rcases gate_rep r.o.emitDuplicates false (fun _ => true) (stdInputOf r es) [] e he hint rfl with h | ⟨e', h1, _, h3⟩
  · simp at h
  · refine ⟨e'.f, ?_, ?_⟩
    · simp only [printedOf, List.mem_map]; exact ⟨e', h1, rfl⟩
    · have h4 := (gate_sub _ _ _ _ _ _ h1).1
      rw [key_nofail hk (stdInputOf_all hs hes h4) (stdInputOf_all hs hes he) h3]; exact hn

/-- which messages can make a printed, not exitcode-suppressed finding: independent of the arrival order -/
def Cand (r : Run) : Prop :=
  (∃ e ∈ fromFiles r, e.internal = false ∧ e.f.nofail = false ∧
      (r.o.executor = .single ∨ (e.f.nomsgGlobal = false ∧ e.f.emptyText = false))) ∨
  (∃ e ∈ (main2 r).out, e.internal = false ∧ e.f.nofail = false) ∨
  (r.unmatchedGate = true ∧ ∃ u ∈ r.unmatched, u.nofail = false)

theorem printedOf_iff_cand (r : Run) (hs : r.o.safety = false) (hk : keyCoherent r = true) (hu : unmatchedPlain r = true)
    (es : List Emit) (hes : ∀ e, e ∈ es ↔ e ∈ fromFiles r) :
    (∃ f ∈ printedOf r es, f.nofail = false) ↔ Cand r := by
  have hes1 : ∀ e, e ∈ es → e ∈ fromFiles r := fun e h => (hes e).mp h
  constructor
  · rintro ⟨f, hf, hn⟩
    simp only [printedOf, List.mem_map] at hf
    rcases hf with ⟨e, he, rfl⟩
    have hsub := gate_sub _ _ _ _ _ _ he
    have hint : e.internal = false := by
      cases h : e.internal
      · rfl
      · have := hsub.2.1 h; simp at this
    rcases stdInputOf_cases hsub.1 with ⟨hx, h1⟩ | ⟨hx, h1⟩ | h1 | ⟨hg, u, h1, h2⟩
    · exact Or.inl ⟨e, hes1 e h1, hint, hn, Or.inl hx⟩
    · have h3 := gate_sub _ _ _ _ _ _ h1
      have hp := h3.2.2 hint
      simp only [Bool.and_eq_true, Bool.not_eq_true'] at hp
      exact Or.inl ⟨e, hes1 e h3.1, hint, hn, Or.inr hp⟩
    · exact Or.inr (Or.inl ⟨e, h1, hint, hn⟩)
    · subst h2; exact Or.inr (Or.inr ⟨hg, u, h1, hn⟩)
  · rintro (⟨e, h1, hint, hn, hc⟩ | ⟨e, h1, hint, hn⟩ | ⟨hg, u, h1, hn⟩)
    · have hmem : e ∈ es := (hes e).mpr h1
      by_cases hsingle : r.o.executor = .single
      · refine culprit_printedOf hs hk hes1 (e := e) ?_ hint hn
        unfold stdInputOf
        simp only [hsingle, beq_self_eq_true, if_true, List.mem_append]
        exact Or.inl (Or.inl hmem)
      · rcases hc with hc | hc
        · exact absurd hc hsingle
        · have hp : (fun f : Finding => !f.nomsgGlobal && !f.emptyText) e.f = true := by simp [hc.1, hc.2]
          rcases gate_rep r.o.emitDuplicates true (fun f : Finding => !f.nomsgGlobal && !f.emptyText) _ [] e hmem hint hp with h6 | ⟨e', h6, h7, h8⟩
          · simp at h6
          · have hin : e' ∈ stdInputOf r es := by
              unfold stdInputOf
              have : (r.o.executor == Executor.single) = false := by simpa using hsingle
              simp only [this, Bool.false_eq_true, if_false, List.mem_append]
              exact Or.inl (Or.inl h6)
            refine culprit_printedOf hs hk hes1 hin h7 ?_
            rw [key_nofail hk (stdInputOf_all hs hes1 hin) (fromFiles_all hs h1) h8]; exact hn
    · refine culprit_printedOf hs hk hes1 (e := e) ?_ hint hn
      unfold stdInputOf
      simp only [List.mem_append]
      exact Or.inl (Or.inr h1)
    · have hpl : u.internal = false ∧ u.emptyText = false := by
        simp only [unmatchedPlain, List.all_eq_true, Bool.and_eq_true, Bool.not_eq_true'] at hu
        exact hu u h1
      refine culprit_printedOf hs hk hes1 (e := ⟨u, false⟩) ?_ ?_ hn
      · unfold stdInputOf
        simp only [hg, if_true, List.mem_append, List.mem_map]
        exact Or.inr ⟨u, h1, rfl⟩
      · simp [Emit.internal, hpl.1]


theorem status_eq_of_rv1 {r r' : Run} (ho : r'.o = r.o) (hg : r'.unmatchedGate = r.unmatchedGate) (hu : unmatchedErr r' = unmatchedErr r)
    (hc : hasCritical r' = hasCritical r) (h : (rv1 r' = rv1 r) ∨ (rv1 r' ≠ 0 ∧ rv1 r ≠ 0)) : exitStatus r' = exitStatus r := by
  unfold exitStatus mainReturn
  rw [ho, hc]
  have : (rv2 r' != 0) = (rv2 r != 0) := by
    unfold rv2
    rw [ho, hg, hu]
    rcases h with h | ⟨h1, h2⟩
    · rw [h]
    · have a : (rv1 r' == 0) = false := by simpa using h1
      have b : (rv1 r == 0) = false := by simpa using h2
      have c : (rv1 r' != 0) = true := by simpa using h1
      have d : (rv1 r != 0) = true := by simpa using h2
      simp [a, b, c, d]
  rw [this]


end Cppcheck.ExitCode

import Cppcheck.Model.SevGate
/-
Soundness of the decision procedures of Model/SevGate.lean (general: for every formula, option set, environment).
-/
namespace Cppcheck.SevGate

theorem evalAtom_mono {o o' : Opts} (h : o ≤ o') (env : Env) (a : OptAtom) :
    evalAtom o env a = true → evalAtom o' env a = true := by
  cases a with
  | enabled e => exact h.1 _
  | inconclusive => exact h.2

/-- guards in the positive fragment are monotone in the options: enabling more never disables a site.  (False for formulas
with `nopt`: `eval` of `nopt a` flips when `a` is enabled.) -/
theorem eval_mono {o o' : Opts} (h : o ≤ o') (env : Env) (f : Formula) (hp : f.positive = true) :
    eval o env f = true → eval o' env f = true := by
  induction f with
  | tt => intro _; rfl
  | ff => intro h; exact h
  | opt a => exact evalAtom_mono h env a
  | nopt a => cases hp
  | lit k p => intro h; exact h
  | and a b iha ihb =>
    simp only [Formula.positive, Bool.and_eq_true] at hp
    intro hh
    simp only [eval, Bool.and_eq_true] at hh ⊢
    exact ⟨iha hp.1 hh.1, ihb hp.2 hh.2⟩
  | or a b iha ihb =>
    simp only [Formula.positive, Bool.and_eq_true] at hp
    intro hh
    simp only [eval, Bool.or_eq_true] at hh ⊢
    cases hh with
    | inl h1 => exact Or.inl (iha hp.1 h1)
    | inr h2 => exact Or.inr (ihb hp.2 h2)

/-- the hypothesis cannot be dropped -/
theorem eval_not_mono_nopt : ¬ (∀ (f : Formula) (o o' : Opts) (env : Env), o ≤ o' → eval o env f = true → eval o' env f = true) := by
  intro h
  have hle : (⟨fun _ => false, false⟩ : Opts) ≤ ⟨fun _ => true, true⟩ := ⟨fun _ _ => rfl, fun _ => rfl⟩
  have := h (.nopt .inconclusive) _ _ env0 hle rfl
  cases this

theorem evalDnf_append (o : Opts) (env : Env) (xs ys : List Conj) :
    evalDnf o env (xs ++ ys) = (evalDnf o env xs || evalDnf o env ys) := by
  simp [evalDnf, List.any_append]

theorem evalDnf_prefix (o : Opts) (env : Env) (c : Conj) (ys : List Conj) :
    evalDnf o env (ys.map (fun d => c ++ d)) = (c.all (evalLit o env) && evalDnf o env ys) := by
  induction ys with
  | nil => simp [evalDnf]
  | cons d t iht =>
    simp only [evalDnf, List.map_cons, List.any_cons, List.all_append] at iht ⊢
    rw [iht]
    cases c.all (evalLit o env) <;> simp

theorem evalDnf_product (o : Opts) (env : Env) (xs ys : List Conj) :
    evalDnf o env (xs.flatMap (fun c => ys.map (fun d => c ++ d))) = (evalDnf o env xs && evalDnf o env ys) := by
  induction xs with
  | nil => simp [evalDnf]
  | cons c r ih =>
    rw [List.flatMap_cons, evalDnf_append, ih, evalDnf_prefix]
    simp only [evalDnf, List.any_cons]
    cases c.all (evalLit o env) <;> simp

theorem eval_dnf (o : Opts) (env : Env) (f : Formula) : eval o env f = evalDnf o env (dnf f) := by
  induction f with
  | tt => simp [eval, dnf, evalDnf]
  | ff => simp [eval, dnf, evalDnf]
  | opt a => simp [eval, dnf, evalDnf, evalLit]
  | nopt a => simp [eval, dnf, evalDnf, evalLit]
  | lit k p => simp [eval, dnf, evalDnf, evalLit]
  | and a b iha ihb => simp only [eval, dnf, evalDnf_product, iha, ihb]
  | or a b iha ihb => simp only [eval, dnf, evalDnf_append, iha, ihb]

theorem SevExpr.beq_eq {a b : SevExpr} (h : a.beq b = true) : a = b := by
  cases a <;> cases b <;> simp [SevExpr.beq] at h <;> simp [h]

theorem OptAtom.beq_eq {a b : OptAtom} (h : a.beq b = true) : a = b := by
  cases a <;> cases b <;> simp [OptAtom.beq] at h
  · rw [SevExpr.beq_eq h]
  · rfl

theorem hasOpt_mem {c : Conj} {a : OptAtom} (h : hasOpt c a = true) : Literal.opt a ∈ c := by
  simp only [hasOpt, List.any_eq_true] at h
  obtain ⟨l, hl, hb⟩ := h
  cases l with
  | lit k p => cases hb
  | nopt b => cases hb
  | opt b => rw [← OptAtom.beq_eq hb]; exact hl

theorem hasLit_mem {c : Conj} {k : Nat} {p : Bool} (h : hasLit c k p = true) : Literal.lit k p ∈ c := by
  simp only [hasLit, List.any_eq_true] at h
  obtain ⟨l, hl, hb⟩ := h
  cases l with
  | opt b => cases hb
  | nopt b => cases hb
  | lit k' p' =>
    simp only [Bool.and_eq_true, beq_iff_eq] at hb
    rw [← hb.1, ← hb.2]; exact hl

theorem dead_sound {D : Nat} {env : Env} (hD : defaultsHold D env) (o : Opts) (c : Conj)
    (hd : dead D c = true) : c.all (evalLit o env) = false := by
  simp only [dead, List.any_eq_true] at hd
  obtain ⟨l, hl, hcase⟩ := hd
  cases l with
  | opt a => cases hcase
  | nopt a =>
    rw [Bool.eq_false_iff]
    intro hall
    rw [List.all_eq_true] at hall
    have h1 := hall _ hl
    have h2 := hall _ (hasOpt_mem hcase)
    simp only [evalLit] at h1 h2
    rw [h2] at h1
    cases h1
  | lit k p =>
    simp only [Bool.or_eq_true, Bool.and_eq_true, decide_eq_true_eq] at hcase
    rw [Bool.eq_false_iff]
    intro hall
    rw [List.all_eq_true] at hall
    have h1 := hall _ hl
    simp only [evalLit, beq_iff_eq] at h1
    cases hcase with
    | inl hdflt =>
      have := hD k hdflt.2
      rw [h1, hdflt.1] at this
      cases this
    | inr hc =>
      have h2 := hall _ (hasLit_mem hc)
      simp only [evalLit, beq_iff_eq] at h2
      rw [h1] at h2
      cases p <;> simp at h2

theorem entails_sound {D : Nat} {f : Formula} {a : OptAtom} (h : entails D f a = true)
    {env : Env} (hD : defaultsHold D env) (o : Opts) (he : eval o env f = true) : evalAtom o env a = true := by
  rw [eval_dnf] at he
  simp only [evalDnf, List.any_eq_true] at he
  obtain ⟨c, hc, hall⟩ := he
  simp only [entails, List.all_eq_true] at h
  have hc' := h c hc
  simp only [Bool.or_eq_true] at hc'
  cases hc' with
  | inl hdead => rw [dead_sound hD o c hdead] at hall; cases hall
  | inr hmem =>
    have := (List.all_eq_true.mp hall) _ (hasOpt_mem hmem)
    simpa [evalLit] using this

theorem entailsCli_sound {D : Nat} {f : Formula} {a : OptAtom} (h : entailsCli D f a = true)
    {env : Env} (hD : defaultsHold D env) (o : Opts) (hcli : o.cliClosed) (he : eval o env f = true) :
    evalAtom o env a = true := by
  rw [eval_dnf] at he
  simp only [evalDnf, List.any_eq_true] at he
  obtain ⟨c, hc, hall⟩ := he
  simp only [entailsCli, List.all_eq_true] at h
  have hc' := h c hc
  simp only [Bool.or_eq_true, Bool.and_eq_true] at hc'
  rcases hc' with (hdead | hmem) | ⟨himp, hstyle⟩
  · rw [dead_sound hD o c hdead] at hall; cases hall
  · have := (List.all_eq_true.mp hall) _ (hasOpt_mem hmem)
    simpa [evalLit] using this
  · have hs := (List.all_eq_true.mp hall) _ (hasOpt_mem hstyle)
    simp only [evalLit, evalAtom, SevExpr.eval] at hs
    obtain ⟨hw, hp, hq⟩ := hcli hs
    cases a with
    | inconclusive => simp [impliedByStyle] at himp
    | enabled e =>
      cases e with
      | sym k => simp [impliedByStyle] at himp
      | const s =>
        cases s <;> simp [impliedByStyle] at himp <;> simp [evalAtom, SevExpr.eval, hw, hp, hq]

/-- whatever the environment (with default flags): a row that reports under `o` is `possible` under `o` -/
theorem possible_complete {D : Nat} {env : Env} (hD : defaultsHold D env) (f : Formula) (o : Opts)
    (he : eval o env f = true) : possible D f o = true := by
  rw [eval_dnf] at he
  simp only [evalDnf, List.any_eq_true] at he
  obtain ⟨c, hc, hall⟩ := he
  simp only [possible, List.any_eq_true]
  refine ⟨c, hc, ?_⟩
  have hnd : dead D c = false := by
    cases hdd : dead D c with
    | false => rfl
    | true => rw [dead_sound hD o c hdd] at hall; cases hall
  simp only [hnd, Bool.not_false, Bool.true_and, List.all_eq_true]
  intro l hl
  have hv := (List.all_eq_true.mp hall) l hl
  cases l with
  | lit k p => rfl
  | opt a =>
    cases a with
    | inconclusive => simpa [evalLit, evalAtom] using hv
    | enabled e =>
      cases e with
      | sym k => rfl
      | const s => simpa [evalLit, evalAtom, SevExpr.eval] using hv
  | nopt a =>
    cases a with
    | inconclusive => simpa [evalLit, evalAtom] using hv
    | enabled e =>
      cases e with
      | sym k => rfl
      | const s => simpa [evalLit, evalAtom, SevExpr.eval] using hv

/-! ### lifting the per-row checks to the statements of the property -/

theorem gateOk_sound {D : Nat} {r : Row} (h : r.gateOk D = true) {env : Env} (hD : defaultsHold D env) (o : Opts)
    (hm : mayReport r o env = true) (hg : gatedSev (r.sev.eval env) = true) : o.sev (r.sev.eval env) = true := by
  simp only [Row.gateOk, Bool.or_eq_true, Bool.not_eq_true'] at h
  cases h with
  | inl hn =>
    -- a constant severity outside the gated ones: contradiction with hg
    simp only [Row.needsGate] at hn
    cases hs : r.sev with
    | sym k => rw [hs] at hn; cases hn
    | const s =>
      rw [hs] at hn hg
      simp only [SevExpr.eval] at hg
      have hn' : gatedSev s = false := hn
      rw [hg] at hn'; cases hn'
  | inr he => exact entails_sound he hD o hm

theorem gateOkCli_sound {D : Nat} {r : Row} (h : r.gateOkCli D = true) {env : Env} (hD : defaultsHold D env) (o : Opts)
    (hcli : o.cliClosed) (hm : mayReport r o env = true) (hg : gatedSev (r.sev.eval env) = true) :
    o.sev (r.sev.eval env) = true := by
  simp only [Row.gateOkCli, Bool.or_eq_true, Bool.not_eq_true'] at h
  cases h with
  | inl hn =>
    simp only [Row.needsGate] at hn
    cases hs : r.sev with
    | sym k => rw [hs] at hn; cases hn
    | const s =>
      rw [hs] at hn hg
      simp only [SevExpr.eval] at hg
      have hn' : gatedSev s = false := hn
      rw [hg] at hn'; cases hn'
  | inr he => exact entailsCli_sound he hD o hcli hm

theorem incOk_sound {D : Nat} {r : Row} (h : r.incOk D = true) {env : Env} (hD : defaultsHold D env) (o : Opts)
    (hc : r.cert = .inconclusive) (hm : mayReport r o env = true) : o.inconclusive = true := by
  simp only [Row.incOk, Bool.or_eq_true, bne_iff_ne, ne_eq] at h
  cases h with
  | inl hn => exact absurd hc hn
  | inr he => exact entails_sound he hD o hm

theorem hasNopt_false {c : Conj} (h : hasNopt c = false) {l : Literal} (hl : l ∈ c) : ∀ a, l ≠ .nopt a := by
  intro a heq
  subst heq
  have : hasNopt c = true := by
    simp only [hasNopt, List.any_eq_true]
    exact ⟨_, hl, rfl⟩
  rw [h] at this; cases this

/-- a row whose guard has no live conjunction with a disabled-option test is monotone in the options -/
theorem posOk_sound {D : Nat} {r : Row} (h : r.posOk D = true) {env : Env} (hD : defaultsHold D env) {o o' : Opts} (hle : o ≤ o')
    (hm : mayReport r o env = true) : mayReport r o' env = true := by
  simp only [mayReport] at hm ⊢
  rw [eval_dnf] at hm ⊢
  simp only [evalDnf, List.any_eq_true] at hm ⊢
  obtain ⟨c, hc, hall⟩ := hm
  refine ⟨c, hc, ?_⟩
  simp only [Row.posOk, List.all_eq_true] at h
  have hc' := h c hc
  simp only [Bool.or_eq_true, Bool.not_eq_true'] at hc'
  cases hc' with
  | inl hdead => rw [dead_sound hD o c hdead] at hall; cases hall
  | inr hnn =>
    rw [List.all_eq_true] at hall ⊢
    intro l hl
    have hv := hall l hl
    cases l with
    | lit k p => exact hv
    | opt a => exact evalAtom_mono hle env a hv
    | nopt a => exact absurd rfl (hasNopt_false hnn hl a)

theorem defaultsHold_env0 (D : Nat) : defaultsHold D env0 := fun _ _ => rfl

/-! ### value selection -/
namespace Select

theorem gateVal_mono {o o' : Opts} (h : o ≤ o') (v : Val) : gateVal o v = true → gateVal o' v = true := by
  simp only [gateVal, Bool.and_eq_true, Bool.or_eq_true, Bool.not_eq_true']
  intro hh
  refine ⟨?_, ?_⟩
  · cases hh.1 with
    | inl h1 => exact Or.inl h1
    | inr h1 => exact Or.inr (h.2 h1)
  · cases hh.2 with
    | inl h1 => exact Or.inl h1
    | inr h1 => exact Or.inr (h.1 _ h1)

/-- ANY selector that does not look at the options, followed by the gate, is monotone: the value reported under the smaller
option set is reported, unchanged, under the larger one -/
theorem select_then_gate_monotone (sel : List Val → Option Val) {o o' : Opts} (h : o ≤ o') (vs : List Val) (v : Val)
    (hv : (sel vs).filter (gateVal o) = some v) : (sel vs).filter (gateVal o') = some v := by
  cases hs : sel vs with
  | none => rw [hs] at hv; cases hv
  | some w =>
    rw [hs] at hv
    simp only [Option.filter] at hv ⊢
    by_cases hg : gateVal o w = true
    · simp only [hg, if_true] at hv
      simp only [gateVal_mono h w hg, if_true]
      exact hv
    · simp only [hg] at hv
      cases hv

theorem filter_gated {o : Opts} {x : Option Val} {v : Val} (h : x.filter (gateVal o) = some v) : gateVal o v = true := by
  cases x with
  | none => cases h
  | some w =>
    simp only [Option.filter] at h
    by_cases hg : gateVal o w = true
    · simp only [hg, if_true] at h
      cases h; exact hg
    · simp only [hg] at h; cases h

end Select

end Cppcheck.SevGate

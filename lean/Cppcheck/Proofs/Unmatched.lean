import Cppcheck.Model.Unmatched
/- helper lemmas for C24 (core Lean only) -/
namespace Cppcheck.Unmatched
open Cppcheck.Wire (Str)


/-- drop the two flags -/
def clear (s : Suppr) : Suppr := { s with checked := false, matched := false }

/-- the verdict function reads no flag (true of `Suppression::isSuppressed`, a const member that never mentions them) -/
def FlagFree (v : Suppr → Msg → Res) : Prop := ∀ s m, v s m = v (clear s) m

/-- one token location lies in the scope of a suppression (`markUnmatchedInlineSuppressionsAsChecked`) -/
def markHit (l : Str × Int) (s : Suppr) : Bool :=
  match s.type with
  | .unique => s.lineNumber == l.2 && s.fileName == l.1
  | .block => decide (s.lineBegin ≤ l.2) && decide (s.lineEnd ≥ l.2) && s.fileName == l.1
  | _ => s.fileName == l.1

/-- history fact: some `isSuppressed` call of `ops` looked at `s` and its verdict was Matched -/
def MatchedBy (v : Suppr → Msg → Res) (ops : List Op) (s : Suppr) : Prop :=
  ∃ g m, Op.sup g m ∈ ops ∧ eligible g m.id s = true ∧ v s m = .matched

/-- history fact: some call looked at `s` inside its scope (verdict Checked or Matched), or a token line hit its scope -/
def CheckedBy (v : Suppr → Msg → Res) (ops : List Op) (s : Suppr) : Prop :=
  (∃ g m, Op.sup g m ∈ ops ∧ eligible g m.id s = true ∧ v s m ≠ .none) ∨
  (∃ locs l, Op.mark locs ∈ ops ∧ l ∈ locs ∧ markHit l s = true)

/-- what one op does to one entry that is already in the list -/
def evolve1 (v : Suppr → Msg → Res) (s : Suppr) : Op → Suppr
  | .add _ => s
  | .sup g m => if eligible g m.id s then (applyRes s (v s m)).1 else s
  | .mark locs => locs.foldl (fun s l => markOne l.1 l.2 s) s

def evolve (v : Suppr → Msg → Res) (s : Suppr) (ops : List Op) : Suppr := ops.foldl (evolve1 v) s

theorem clear_applyRes (s : Suppr) (r : Res) : clear (applyRes s r).1 = clear s := by
  cases r <;> simp [applyRes, clear]

theorem clear_markOne (f : Str) (l : Int) (s : Suppr) : clear (markOne f l s) = clear s := by
  unfold markOne
  split <;> split <;> simp [clear]

theorem clear_markFold (locs : List (Str × Int)) : ∀ s, clear (locs.foldl (fun s l => markOne l.1 l.2 s) s) = clear s := by
  induction locs with
  | nil => intro s; rfl
  | cons a r ih => intro s; simp only [List.foldl_cons]; rw [ih, clear_markOne]

theorem clear_evolve1 (v) (s : Suppr) (op : Op) : clear (evolve1 v s op) = clear s := by
  cases op with
  | add _ => rfl
  | sup g m => simp only [evolve1]; split <;> simp [clear_applyRes]
  | mark locs => exact clear_markFold locs s

theorem clear_evolve (v) (ops : List Op) : ∀ s, clear (evolve v s ops) = clear s := by
  induction ops with
  | nil => intro s; rfl
  | cons a r ih => intro s; simp only [evolve, List.foldl_cons]; exact (ih _).trans (clear_evolve1 v s a)

theorem eligible_clear (g : Bool) (id : Str) (s : Suppr) : eligible g id (clear s) = eligible g id s := rfl
theorem markHit_clear (l : Str × Int) (s : Suppr) : markHit l (clear s) = markHit l s := rfl

theorem eligible_congr {a b : Suppr} (h : clear a = clear b) (g : Bool) (id : Str) : eligible g id a = eligible g id b := by
  rw [← eligible_clear g id a, ← eligible_clear g id b, h]

theorem markHit_congr {a b : Suppr} (h : clear a = clear b) (l : Str × Int) : markHit l a = markHit l b := by
  rw [← markHit_clear l a, ← markHit_clear l b, h]

theorem v_congr {v} (hv : FlagFree v) {a b : Suppr} (h : clear a = clear b) (m : Msg) : v a m = v b m := by
  rw [hv a m, hv b m, h]

theorem MatchedBy_congr {v} (hv : FlagFree v) {a b : Suppr} (h : clear a = clear b) (ops : List Op) :
    MatchedBy v ops a ↔ MatchedBy v ops b := by
  unfold MatchedBy
  constructor
  · rintro ⟨g, m, h1, h2, h3⟩; exact ⟨g, m, h1, by rw [← eligible_congr h]; exact h2, by rw [← v_congr hv h]; exact h3⟩
  · rintro ⟨g, m, h1, h2, h3⟩; exact ⟨g, m, h1, by rw [eligible_congr h]; exact h2, by rw [v_congr hv h]; exact h3⟩

theorem CheckedBy_congr {v} (hv : FlagFree v) {a b : Suppr} (h : clear a = clear b) (ops : List Op) :
    CheckedBy v ops a ↔ CheckedBy v ops b := by
  unfold CheckedBy
  constructor
  · rintro (⟨g, m, h1, h2, h3⟩ | ⟨locs, l, h1, h2, h3⟩)
    · exact Or.inl ⟨g, m, h1, by rw [← eligible_congr h]; exact h2, by rw [← v_congr hv h]; exact h3⟩
    · exact Or.inr ⟨locs, l, h1, h2, by rw [← markHit_congr h]; exact h3⟩
  · rintro (⟨g, m, h1, h2, h3⟩ | ⟨locs, l, h1, h2, h3⟩)
    · exact Or.inl ⟨g, m, h1, by rw [eligible_congr h]; exact h2, by rw [v_congr hv h]; exact h3⟩
    · exact Or.inr ⟨locs, l, h1, h2, by rw [markHit_congr h]; exact h3⟩

/-- the marking loop on one entry: the flag is raised iff some location hits the scope -/
theorem markFold_flags (locs : List (Str × Int)) : ∀ s : Suppr,
    ((locs.foldl (fun s l => markOne l.1 l.2 s) s).checked = true ↔ s.checked = true ∨ ∃ l ∈ locs, markHit l s = true) ∧
    (locs.foldl (fun s l => markOne l.1 l.2 s) s).matched = s.matched := by
  induction locs with
  | nil => intro s; simp
  | cons a r ih =>
    intro s
    simp only [List.foldl_cons]
    have h := ih (markOne a.1 a.2 s)
    have hc : clear (markOne a.1 a.2 s) = clear s := clear_markOne _ _ _
    have h1 : (markOne a.1 a.2 s).checked = true ↔ s.checked = true ∨ markHit a s = true := by
      unfold markOne markHit
      cases ht : s.type <;> cases hcc : s.checked <;> simp <;> (try split) <;> simp_all
    have h2 : (markOne a.1 a.2 s).matched = s.matched := by
      unfold markOne
      split <;> split <;> rfl
    refine ⟨?_, by rw [h.2, h2]⟩
    rw [h.1, h1]
    constructor
    · rintro ((h3 | h3) | ⟨l, h4, h5⟩)
      · exact Or.inl h3
      · exact Or.inr ⟨a, List.mem_cons_self, h3⟩
      · exact Or.inr ⟨l, List.mem_cons_of_mem _ h4, by rw [← markHit_congr hc]; exact h5⟩
    · rintro (h3 | ⟨l, h4, h5⟩)
      · exact Or.inl (Or.inl h3)
      · rcases List.mem_cons.mp h4 with h6 | h6
        · subst h6; exact Or.inl (Or.inr h5)
        · exact Or.inr ⟨l, h6, by rw [markHit_congr hc]; exact h5⟩

theorem applyRes_flags (s : Suppr) (r : Res) :
    ((applyRes s r).1.checked = true ↔ s.checked = true ∨ r ≠ .none) ∧
    ((applyRes s r).1.matched = true ↔ s.matched = true ∨ r = .matched) := by
  cases r <;> simp [applyRes]

/-- one op on one entry: the flags afterwards = the flags before ∨ the history fact of that single op -/
theorem evolve1_flags (v) (s : Suppr) (op : Op) :
    ((evolve1 v s op).checked = true ↔ s.checked = true ∨ CheckedBy v [op] s) ∧
    ((evolve1 v s op).matched = true ↔ s.matched = true ∨ MatchedBy v [op] s) := by
  cases op with
  | add a =>
    simp only [evolve1, CheckedBy, MatchedBy, List.mem_singleton]
    constructor
    · constructor
      · exact Or.inl
      · rintro (h | ⟨g, m, h, _⟩ | ⟨locs, l, h, _⟩)
        · exact h
        · cases h
        · cases h
    · constructor
      · exact Or.inl
      · rintro (h | ⟨g, m, h, _⟩)
        · exact h
        · cases h
  | sup g m =>
    simp only [evolve1, CheckedBy, MatchedBy, List.mem_singleton]
    by_cases he : eligible g m.id s = true
    · simp only [he, if_true]
      have := applyRes_flags s (v s m)
      constructor
      · rw [this.1]
        constructor
        · rintro (h | h)
          · exact Or.inl h
          · exact Or.inr (Or.inl ⟨g, m, rfl, he, h⟩)
        · rintro (h | ⟨g', m', h1, h2, h3⟩ | ⟨locs, l, h1, _⟩)
          · exact Or.inl h
          · cases h1; exact Or.inr h3
          · cases h1
      · rw [this.2]
        constructor
        · rintro (h | h)
          · exact Or.inl h
          · exact Or.inr ⟨g, m, rfl, he, h⟩
        · rintro (h | ⟨g', m', h1, h2, h3⟩)
          · exact Or.inl h
          · cases h1; exact Or.inr h3
    · simp only [he, if_false, Bool.false_eq_true]
      constructor
      · constructor
        · exact Or.inl
        · rintro (h | ⟨g', m', h1, h2, _⟩ | ⟨locs, l, h1, _⟩)
          · exact h
          · cases h1; exact absurd h2 he
          · cases h1
      · constructor
        · exact Or.inl
        · rintro (h | ⟨g', m', h1, h2, _⟩)
          · exact h
          · cases h1; exact absurd h2 he
  | mark locs =>
    simp only [evolve1, CheckedBy, MatchedBy, List.mem_singleton]
    have := markFold_flags locs s
    constructor
    · rw [this.1]
      constructor
      · rintro (h | ⟨l, h1, h2⟩)
        · exact Or.inl h
        · exact Or.inr (Or.inr ⟨locs, l, rfl, h1, h2⟩)
      · rintro (h | ⟨g', m', h1, _⟩ | ⟨locs', l, h1, h2, h3⟩)
        · exact Or.inl h
        · cases h1
        · cases h1; exact Or.inr ⟨l, h2, h3⟩
    · rw [this.2]
      constructor
      · exact Or.inl
      · rintro (h | ⟨g', m', h1, _⟩)
        · exact h
        · cases h1

theorem MatchedBy_cons (v) (op : Op) (ops : List Op) (s : Suppr) :
    MatchedBy v (op :: ops) s ↔ MatchedBy v [op] s ∨ MatchedBy v ops s := by
  unfold MatchedBy
  constructor
  · rintro ⟨g, m, h1, h2, h3⟩
    rcases List.mem_cons.mp h1 with h | h
    · exact Or.inl ⟨g, m, by rw [h]; exact List.mem_singleton.mpr rfl, h2, h3⟩
    · exact Or.inr ⟨g, m, h, h2, h3⟩
  · rintro (⟨g, m, h1, h2, h3⟩ | ⟨g, m, h1, h2, h3⟩)
    · exact ⟨g, m, by rw [List.mem_singleton.mp h1]; exact List.mem_cons_self, h2, h3⟩
    · exact ⟨g, m, List.mem_cons_of_mem _ h1, h2, h3⟩

theorem CheckedBy_cons (v) (op : Op) (ops : List Op) (s : Suppr) :
    CheckedBy v (op :: ops) s ↔ CheckedBy v [op] s ∨ CheckedBy v ops s := by
  unfold CheckedBy
  constructor
  · rintro (⟨g, m, h1, h2, h3⟩ | ⟨locs, l, h1, h2, h3⟩)
    · rcases List.mem_cons.mp h1 with h | h
      · exact Or.inl (Or.inl ⟨g, m, by rw [h]; exact List.mem_singleton.mpr rfl, h2, h3⟩)
      · exact Or.inr (Or.inl ⟨g, m, h, h2, h3⟩)
    · rcases List.mem_cons.mp h1 with h | h
      · exact Or.inl (Or.inr ⟨locs, l, by rw [h]; exact List.mem_singleton.mpr rfl, h2, h3⟩)
      · exact Or.inr (Or.inr ⟨locs, l, h, h2, h3⟩)
  · rintro ((⟨g, m, h1, h2, h3⟩ | ⟨locs, l, h1, h2, h3⟩) | (⟨g, m, h1, h2, h3⟩ | ⟨locs, l, h1, h2, h3⟩))
    · exact Or.inl ⟨g, m, by rw [List.mem_singleton.mp h1]; exact List.mem_cons_self, h2, h3⟩
    · exact Or.inr ⟨locs, l, by rw [List.mem_singleton.mp h1]; exact List.mem_cons_self, h2, h3⟩
    · exact Or.inl ⟨g, m, List.mem_cons_of_mem _ h1, h2, h3⟩
    · exact Or.inr ⟨locs, l, List.mem_cons_of_mem _ h1, h2, h3⟩

/-- an entry that lives through `ops`: its flags = the flags it started with ∨ the history facts of `ops` -/
theorem evolve_flags (v) (hv : FlagFree v) (ops : List Op) : ∀ s : Suppr,
    ((evolve v s ops).checked = true ↔ s.checked = true ∨ CheckedBy v ops s) ∧
    ((evolve v s ops).matched = true ↔ s.matched = true ∨ MatchedBy v ops s) := by
  induction ops with
  | nil =>
    intro s
    simp only [evolve, List.foldl_nil, CheckedBy, MatchedBy, List.not_mem_nil, false_and, exists_false, or_false, and_self]
  | cons op r ih =>
    intro s
    have h1 := evolve1_flags v s op
    have h2 := ih (evolve1 v s op)
    have hc : clear (evolve1 v s op) = clear s := clear_evolve1 v s op
    have e : evolve v s (op :: r) = evolve v (evolve1 v s op) r := rfl
    have hC := CheckedBy_cons v op r s
    have hM := MatchedBy_cons v op r s
    refine ⟨?_, ?_⟩
    · rw [hC, e, h2.1, h1.1, CheckedBy_congr hv hc r]; exact or_assoc
    · rw [hM, e, h2.2, h1.2, MatchedBy_congr hv hc r]; exact or_assoc

/- ---- from one entry to the list ------------------------------------------------------------------------------ -/

theorem sup_map (v) (g : Bool) (m : Msg) : ∀ st : State,
    (isSuppressedWith g m.id st (st.map (v · m))).1 = st.map (fun s => evolve1 v s (.sup g m)) := by
  intro st
  induction st with
  | nil => rfl
  | cons s r ih =>
    simp only [List.map_cons, isSuppressedWith, List.headD_cons, List.tail_cons, evolve1]
    split <;> simp_all [evolve1]

theorem mark_map (locs : List (Str × Int)) : ∀ st : State,
    mark locs st = st.map (fun s => evolve1 (fun _ _ => Res.none) s (.mark locs)) := by
  induction locs with
  | nil => intro st; simp [mark, evolve1]
  | cons a r ih =>
    intro st
    have h : mark (a :: r) st = mark r (st.map (markOne a.1 a.2)) := rfl
    rw [h, ih]
    simp [evolve1, List.map_map, Function.comp_def]

/-- the entries an op appends -/
def newOf (st : State) : Op → List Suppr
  | .add s => if (addSuppression true s st).2 = .ok then [s] else []
  | _ => []

theorem step_struct (v) (st : State) (op : Op) :
    stepOp v st op = st.map (fun s => evolve1 v s op) ++ newOf st op := by
  cases op with
  | add s =>
    simp only [stepOp, newOf, evolve1, List.map_id']
    unfold addSuppression
    split
    · simp
    · split
      · simp
      · split
        · simp
        · simp
  | sup g m => simp [stepOp, newOf, sup_map]
  | mark locs =>
    simp only [stepOp, newOf, List.append_nil, mark_map]
    rfl

/-- where an entry of the final list comes from: the initial list, or an `add` op; `after` = the ops it lived through -/
inductive Origin (st0 : State) (ops : List Op) (s0 : Suppr) (after : List Op) : Prop
  | initial : s0 ∈ st0 → after = ops → Origin st0 ops s0 after
  | added (pre : List Op) : ops = pre ++ Op.add s0 :: after → Origin st0 ops s0 after

theorem runOps_origin (v) : ∀ (ops : List Op) (st0 : State) (e : Suppr), e ∈ runOps v st0 ops →
    ∃ s0 after, Origin st0 ops s0 after ∧ e = evolve v s0 after := by
  intro ops
  induction ops with
  | nil => intro st0 e h; exact ⟨e, [], .initial h rfl, rfl⟩
  | cons op r ih =>
    intro st0 e h
    have h' : e ∈ runOps v (stepOp v st0 op) r := h
    rcases ih _ e h' with ⟨s0', after', ho, he⟩
    cases ho with
    | initial hm ha =>
      rw [step_struct, List.mem_append] at hm
      rcases hm with hm | hm
      · rcases List.mem_map.mp hm with ⟨s0, h1, h2⟩
        refine ⟨s0, op :: r, .initial h1 rfl, ?_⟩
        rw [he, ha, ← h2]; rfl
      · cases op with
        | add s =>
          simp only [newOf] at hm
          split at hm
          · simp only [List.mem_singleton] at hm
            subst hm
            exact ⟨s0', after', .added [] (by rw [ha]; rfl), he⟩
          · simp at hm
        | sup g m => simp [newOf] at hm
        | mark locs => simp [newOf] at hm
    | added pre hp =>
      exact ⟨s0', after', .added (op :: pre) (by rw [hp]; rfl), he⟩



/-- the early return of `reportUnmatchedSuppressions` -/
def bail (st : State) : Bool :=
  st.any (fun s => s.errorId == unmatchedId && (s.fileName.isEmpty || s.fileName == starStr) && s.lineNumber == noLine)

theorem mem_toReport (filt : Suppr → Bool) (l : List Suppr) (s : Suppr) :
    s ∈ toReport filt l ↔ s ∈ l ∧ selfSuppressed l s = false ∧ filt s = false := by
  simp [toReport, List.mem_filter]

theorem mem_unmatchedLocal (pm : Suppr → Bool) (st : State) (s : Suppr) :
    s ∈ unmatchedLocal pm st ↔ s ∈ st ∧ s.isInline = false ∧ s.matched = false ∧ (s.lineNumber = noLine ∨ s.checked = true) ∧
      s.type ≠ .macro ∧ s.hash = 0 ∧ s.errorId ≠ checkersReportId ∧ s.isLocal = true ∧ pm s = true := by
  simp only [unmatchedLocal, List.mem_filter, Bool.and_eq_true, Bool.not_eq_true', bne_iff_ne, ne_eq, decide_eq_false_iff_not,
    Bool.not_eq_eq_eq_not, Bool.not_true, Bool.and_eq_false_imp]
  constructor
  · rintro ⟨h0, ⟨⟨⟨⟨⟨⟨h1, h2⟩, h3⟩, h4⟩, h5⟩, h6⟩, h7⟩, h8⟩
    refine ⟨h0, h1, h2, ?_, h4, by omega, h6, h7, h8⟩
    by_cases hl : s.lineNumber = noLine
    · exact Or.inl hl
    · exact Or.inr (by simpa using h3 hl)
  · rintro ⟨h0, h1, h2, h3, h4, h5, h6, h7, h8⟩
    refine ⟨h0, ⟨⟨⟨⟨⟨⟨h1, h2⟩, ?_⟩, h4⟩, by omega⟩, h6⟩, h7⟩, h8⟩
    intro hl
    rcases h3 with h3 | h3
    · exact absurd h3 hl
    · simp [h3]

theorem mem_unmatchedGlobal (st : State) (s : Suppr) :
    s ∈ unmatchedGlobal st ↔ s ∈ st ∧ s.isInline = false ∧ s.matched = false ∧ (s.checked = true ∨ s.isWildcard = false) ∧
      s.hash = 0 ∧ s.errorId ≠ checkersReportId ∧ s.isLocal = false := by
  simp only [unmatchedGlobal, List.mem_filter, Bool.and_eq_true, Bool.not_eq_true', bne_iff_ne, ne_eq, decide_eq_false_iff_not,
    Bool.and_eq_false_imp]
  constructor
  · rintro ⟨h0, ⟨⟨⟨⟨⟨h1, h2⟩, h3⟩, h4⟩, h5⟩, h6⟩⟩
    refine ⟨h0, h1, h2, ?_, by omega, h5, h6⟩
    cases hc : s.checked
    · exact Or.inr (h3 (by simp [hc]))
    · exact Or.inl rfl
  · rintro ⟨h0, h1, h2, h3, h4, h5, h6⟩
    refine ⟨h0, ⟨⟨⟨⟨⟨h1, h2⟩, ?_⟩, by omega⟩, h5⟩, h6⟩⟩
    intro hc
    rcases h3 with h3 | h3
    · simp [h3] at hc
    · exact h3

theorem mem_unmatchedInline (st : State) (s : Suppr) :
    s ∈ unmatchedInline st ↔ s ∈ st ∧ s.isInline = true ∧ s.checked = true ∧ s.matched = false ∧ s.hash = 0 := by
  simp only [unmatchedInline, List.mem_filter, Bool.and_eq_true, Bool.not_eq_true', decide_eq_false_iff_not]
  constructor
  · rintro ⟨h0, ⟨⟨⟨h1, h2⟩, h3⟩, h4⟩⟩
    exact ⟨h0, h1, h2, h3, by omega⟩
  · rintro ⟨h0, h1, h2, h3, h4⟩
    exact ⟨h0, ⟨⟨⟨h1, h2⟩, h3⟩, by omega⟩⟩

/-- **the reported set, declaratively**: an entry of the list is named by an unmatchedSuppression message iff … -/
theorem report_iff {F : Type} (files : List F) (pm : F → Suppr → Bool) (inl : Bool) (filt : Suppr → Bool) (st : State) (s : Suppr) :
    s ∈ report files pm inl filt st ↔
      bail st = false ∧ s ∈ recopy st ∧ s.matched = false ∧ s.hash = 0 ∧ filt s = false ∧
      ((s.isInline = false ∧ s.isLocal = true ∧ s.type ≠ .macro ∧ s.errorId ≠ checkersReportId ∧
          (s.lineNumber = noLine ∨ s.checked = true) ∧
          ∃ f ∈ files, pm f s = true ∧ selfSuppressed (unmatchedLocal (pm f) (recopy st)) s = false) ∨
       (s.isInline = true ∧ inl = true ∧ s.checked = true ∧ selfSuppressed (unmatchedInline (recopy st)) s = false) ∨
       (s.isInline = false ∧ s.isLocal = false ∧ s.errorId ≠ checkersReportId ∧ (s.checked = true ∨ s.isWildcard = false) ∧
          selfSuppressed (unmatchedGlobal (recopy st)) s = false)) := by
  unfold report
  by_cases hb : bail st = true
  · have : (st.any fun s => s.errorId == unmatchedId && (s.fileName.isEmpty || s.fileName == starStr) && s.lineNumber == noLine) = true := hb
    simp [this, hb]
  · have hb' : bail st = false := by simpa using hb
    have : (st.any fun s => s.errorId == unmatchedId && (s.fileName.isEmpty || s.fileName == starStr) && s.lineNumber == noLine) = false := hb'
    simp only [this, Bool.false_eq_true, if_false, List.mem_append, List.mem_flatMap, mem_toReport, mem_unmatchedLocal,
      mem_unmatchedGlobal, hb', true_and]
    constructor
    · rintro ((⟨f, hf, ⟨h0, h1, h2, h3, h4, h5, h6, h7, h8⟩, h9, h10⟩ | h) | ⟨⟨h0, h1, h2, h3, h4, h5, h6⟩, h9, h10⟩)
      · exact ⟨h0, h2, h5, h10, Or.inl ⟨h1, h7, h4, h6, h3, f, hf, h8, h9⟩⟩
      · split at h
        · rename_i hi
          rw [mem_toReport, mem_unmatchedInline] at h
          rcases h with ⟨⟨h0, h1, h2, h3, h4⟩, h9, h10⟩
          exact ⟨h0, h3, h4, h10, Or.inr (Or.inl ⟨h1, hi, h2, h9⟩)⟩
        · simp at h
      · exact ⟨h0, h2, h4, h10, Or.inr (Or.inr ⟨h1, h6, h5, h3, h9⟩)⟩
    · rintro ⟨h0, h2, h5, h10, (⟨h1, h7, h4, h6, h3, f, hf, h8, h9⟩ | ⟨h1, hi, h2', h9⟩ | ⟨h1, h6, h5', h3, h9⟩)⟩
      · exact Or.inl (Or.inl ⟨f, hf, ⟨h0, h1, h2, h3, h4, h5, h6, h7, h8⟩, h9, h10⟩)
      · refine Or.inl (Or.inr ?_)
        simp only [hi, if_true]
        rw [mem_toReport, mem_unmatchedInline]
        exact ⟨⟨h0, h1, h2', h2, h5⟩, h9, h10⟩
      · exact Or.inr ⟨⟨h0, h1, h2, h3, h5, h5', h6⟩, h9, h10⟩

/-- a suppression whose `matched` flag is set is never named, whatever the files, options and filters -/
theorem not_reported_of_matched {F : Type} (files : List F) (pm : F → Suppr → Bool) (inl : Bool) (filt : Suppr → Bool)
    (st : State) (s : Suppr) (h : s.matched = true) : s ∉ report files pm inl filt st := by
  intro hm
  have := (report_iff files pm inl filt st s).mp hm
  rw [h] at this
  exact absurd this.2.2.1 (by simp)



/-- the parameters `isSameParameters` compares -/
structure Key where
  errorId : Str
  fileName : Str
  lineNumber : Int
  symbolName : Str
  hash : Nat
  thisAndNextLine : Bool
  type : SType
  lineBegin : Int
  lineEnd : Int
  macroName : Str
deriving DecidableEq

def key (s : Suppr) : Key :=
  ⟨s.errorId, s.fileName, s.lineNumber, s.symbolName, s.hash, s.thisAndNextLine, s.type, s.lineBegin, s.lineEnd, s.macroName⟩

theorem sameParams_iff (a b : Suppr) : sameParams a b = true ↔ key a = key b := by
  simp [sameParams, key, Key.mk.injEq, and_assoc]

theorem sameParams_false_iff (a b : Suppr) : sameParams a b = false ↔ key a ≠ key b := by
  have := sameParams_iff a b
  cases h : sameParams a b
  · simp only [true_iff]; intro hk; rw [this.mpr hk] at h; cases h
  · simp only [Bool.true_eq_false, false_iff, ne_eq]; exact fun hn => hn (this.mp h)

/-- `addSuppression` accepts the entry (apart from the duplicate test and the glob test) -/
def Acceptable (s : Suppr) : Prop := (s.errorId.isEmpty && s.hash == 0) = false ∧ idCharsOk s.errorId = true

instance (s : Suppr) : Decidable (Acceptable s) := by unfold Acceptable; infer_instance

/-- the flags stored under a key: the first entry with these parameters -/
def flagsAt : State → Key → Option (Bool × Bool)
  | [], _ => none
  | t :: r, k => if key t = k then some (t.checked, t.matched) else flagsAt r k

/-- folding one received message into the flags stored under its key -/
def mergeFlags (o : Option (Bool × Bool)) (m : Suppr) : Option (Bool × Bool) :=
  some (match o with
    | some (c, x) => (c || m.checked, x || m.matched)
    | none => (m.checked, m.matched))

theorem flagsAt_none_iff (st : State) (k) : flagsAt st k = none ↔ ∀ t ∈ st, key t ≠ k := by
  induction st with
  | nil => simp [flagsAt]
  | cons t r ih =>
    simp only [flagsAt, List.mem_cons, forall_eq_or_imp]
    by_cases h : key t = k
    · simp [h]
    · simp [h, ih]

theorem any_same_iff (m : Suppr) (st : State) : st.any (sameParams m) = true ↔ flagsAt st (key m) ≠ none := by
  rw [Ne, flagsAt_none_iff]
  simp only [List.any_eq_true, sameParams_iff]
  constructor
  · rintro ⟨t, h1, h2⟩ h; exact h t h1 h2.symm
  · intro h
    apply Classical.byContradiction
    intro hn
    apply h
    intro t ht hk
    exact hn ⟨t, ht, hk.symm⟩

theorem updateState_flagsAt (m : Suppr) : ∀ (st : State) (k),
    flagsAt (updateState m st).1 k =
      if key m = k then (flagsAt st k).map (fun p => (p.1 || m.checked, p.2 || m.matched)) else flagsAt st k := by
  intro st
  induction st with
  | nil => intro k; simp [updateState, flagsAt]
  | cons t r ih =>
    intro k
    unfold updateState
    by_cases hs : sameParams m t = true
    · have hk : key m = key t := (sameParams_iff m t).mp hs
      simp only [hs, if_true]
      by_cases h : key t = k
      · have h' : key m = k := hk.trans h
        have hkk : key { t with checked := t.checked || m.checked, matched := t.matched || m.matched } = key t := rfl
        simp [flagsAt, hkk, h, h']
      · have h' : key m ≠ k := fun e => h (hk ▸ e)
        have hkk : key { t with checked := t.checked || m.checked, matched := t.matched || m.matched } = key t := rfl
        simp [flagsAt, hkk, h, h']
    · have hs' : sameParams m t = false := by simpa using hs
      have hk : key m ≠ key t := (sameParams_false_iff m t).mp hs'
      simp only [hs', Bool.false_eq_true, if_false]
      by_cases h : key t = k
      · have h' : key m ≠ k := fun e => hk (e.trans h.symm)
        simp [flagsAt, h, h']
      · simp only [flagsAt, h, if_false]
        exact ih k

theorem flagsAt_append_single (st : State) (m : Suppr) (k) :
    flagsAt (st ++ [m]) k = match flagsAt st k with
      | some p => some p
      | none => if key m = k then some (m.checked, m.matched) else none := by
  induction st with
  | nil => simp [flagsAt]
  | cons t r ih =>
    simp only [List.cons_append, flagsAt]
    by_cases h : key t = k
    · simp [h]
    · simp [h, ih]

/-- the parent's handling of one REPORT_SUPPR message, seen through the keys -/
theorem recv_flagsAt (st : State) (m : Suppr) (ha : Acceptable m) (k) :
    flagsAt (recv true st m) k = if key m = k then mergeFlags (flagsAt st k) m else flagsAt st k := by
  unfold recv addSuppression
  by_cases hany : st.any (sameParams m) = true
  · simp only [hany, if_true]
    rw [updateState_flagsAt]
    by_cases hk : key m = k
    · have hne := (any_same_iff m st).mp hany
      rw [hk] at hne
      simp only [hk, if_true, mergeFlags]
      cases hf : flagsAt st k with
      | none => exact absurd hf hne
      | some p => rfl
    · simp [hk]
  · have hany' : st.any (sameParams m) = false := by simpa using hany
    have hnone : flagsAt st (key m) = none := by
      cases hf : flagsAt st (key m) with
      | none => rfl
      | some p =>
        have := (any_same_iff m st).mpr (by simp [hf])
        rw [hany'] at this; cases this
    simp only [hany', Bool.false_eq_true, if_false, ha.1, ha.2, Bool.not_true, Bool.not_false]
    rw [flagsAt_append_single]
    by_cases hk : key m = k
    · rw [hk] at hnone
      simp [hk, hnone, mergeFlags]
    · simp only [hk, if_false]
      cases flagsAt st k <;> rfl

theorem foldl_recv_flagsAt (k) : ∀ (ms : List Suppr) (st : State), (∀ m ∈ ms, Acceptable m) →
    flagsAt (ms.foldl (recv true) st) k = (ms.filter (fun m => decide (key m = k))).foldl mergeFlags (flagsAt st k) := by
  intro ms
  induction ms with
  | nil => intro st _; rfl
  | cons m r ih =>
    intro st ha
    simp only [List.foldl_cons]
    rw [ih _ (fun x hx => ha x (List.mem_cons_of_mem _ hx)), recv_flagsAt st m (ha m List.mem_cons_self)]
    by_cases hk : key m = k
    · simp [hk, List.filter_cons]
    · simp [hk, List.filter_cons]

/-- folding messages into a flag pair only depends on whether there is one, and on the disjunction of their flags -/
theorem foldl_mergeFlags_closed : ∀ (l : List Suppr) (o : Option (Bool × Bool)),
    l.foldl mergeFlags o =
      if l.isEmpty then o
      else some (((o.map (·.1)).getD false || l.any (·.checked)), ((o.map (·.2)).getD false || l.any (·.matched))) := by
  intro l
  induction l with
  | nil => intro o; rfl
  | cons m r ih =>
    intro o
    simp only [List.foldl_cons, List.isEmpty_cons, Bool.false_eq_true, if_false, List.any_cons]
    rw [ih]
    cases r with
    | nil => cases o with
      | none => simp [mergeFlags]
      | some p => simp [mergeFlags]
    | cons b t =>
      cases o with
      | none => simp [mergeFlags, Bool.or_assoc]
      | some p => simp [mergeFlags, Bool.or_assoc]

theorem any_perm {α} (p : α → Bool) {l l' : List α} (h : l.Perm l') : l.any p = l'.any p := by
  induction h with
  | nil => rfl
  | cons x _ ih => simp [ih]
  | swap x y l => simp only [List.any_cons]; rw [← Bool.or_assoc, ← Bool.or_assoc, Bool.or_comm (p y)]
  | trans _ _ ih1 ih2 => exact ih1.trans ih2

theorem foldl_mergeFlags_perm {l l' : List Suppr} (h : l.Perm l') (o) : l.foldl mergeFlags o = l'.foldl mergeFlags o := by
  rw [foldl_mergeFlags_closed, foldl_mergeFlags_closed, any_perm _ h, any_perm _ h]
  have : l.isEmpty = l'.isEmpty := by
    cases l <;> cases l' <;> simp_all
    all_goals (have := h.length_eq; simp at this)
  rw [this]


/- ---- history over several op lists, and the workers' copies of one entry ----------------------------------------- -/

theorem CheckedBy_flatten (v) (opss : List (List Op)) (s : Suppr) :
    CheckedBy v opss.flatten s ↔ ∃ ops ∈ opss, CheckedBy v ops s := by
  unfold CheckedBy
  constructor
  · rintro (⟨g, m, h1, h2, h3⟩ | ⟨locs, l, h1, h2, h3⟩)
    · rcases List.mem_flatten.mp h1 with ⟨ops, h4, h5⟩
      exact ⟨ops, h4, Or.inl ⟨g, m, h5, h2, h3⟩⟩
    · rcases List.mem_flatten.mp h1 with ⟨ops, h4, h5⟩
      exact ⟨ops, h4, Or.inr ⟨locs, l, h5, h2, h3⟩⟩
  · rintro ⟨ops, h4, (⟨g, m, h1, h2, h3⟩ | ⟨locs, l, h1, h2, h3⟩)⟩
    · exact Or.inl ⟨g, m, List.mem_flatten.mpr ⟨ops, h4, h1⟩, h2, h3⟩
    · exact Or.inr ⟨locs, l, List.mem_flatten.mpr ⟨ops, h4, h1⟩, h2, h3⟩

theorem MatchedBy_flatten (v) (opss : List (List Op)) (s : Suppr) :
    MatchedBy v opss.flatten s ↔ ∃ ops ∈ opss, MatchedBy v ops s := by
  unfold MatchedBy
  constructor
  · rintro ⟨g, m, h1, h2, h3⟩
    rcases List.mem_flatten.mp h1 with ⟨ops, h4, h5⟩
    exact ⟨ops, h4, g, m, h5, h2, h3⟩
  · rintro ⟨ops, h4, g, m, h1, h2, h3⟩
    exact ⟨g, m, List.mem_flatten.mpr ⟨ops, h4, h1⟩, h2, h3⟩

theorem MatchedBy_CheckedBy {v} {ops : List Op} {s : Suppr} (h : MatchedBy v ops s) : CheckedBy v ops s := by
  rcases h with ⟨g, m, h1, h2, h3⟩
  exact Or.inl ⟨g, m, h1, h2, by rw [h3]; simp⟩

/- ---- audit follow-up: token stream loop, worker logger, copy list ------------------------------------------------ -/


theorem markOne_cases (f : Str) (l : Int) (s : Suppr) :
    markOne f l s = s ∨ markOne f l s = { s with checked := true } := by
  unfold markOne
  split <;> split <;> simp

theorem markOne_of_checked (f : Str) (l : Int) (s : Suppr) (h : s.checked = true) : markOne f l s = s := by
  unfold markOne
  split <;> simp [h]

theorem markOne_idem (f : Str) (l : Int) (s : Suppr) : markOne f l (markOne f l s) = markOne f l s := by
  rcases markOne_cases f l s with h | h
  · rw [h, h]
  · rw [h]; exact markOne_of_checked f l _ rfl

theorem markStream_inv : ∀ (locs : List (Str × Int)) (cur : Option (Str × Int)) (st : State),
    (∀ l, cur = some l → st.map (markOne l.1 l.2) = st) → markStream cur locs st = mark locs st := by
  intro locs
  induction locs with
  | nil => intro cur st _; rfl
  | cons a r ih =>
    intro cur st h
    unfold markStream
    have hm : mark (a :: r) st = mark r (st.map (markOne a.1 a.2)) := rfl
    by_cases hc : cur = some a
    · have : (cur == some a) = true := by simp [hc]
      simp only [this, if_true]
      rw [hm, h a hc]
      exact ih cur st h
    · have : (cur == some a) = false := by simpa using hc
      simp only [this, Bool.false_eq_true, if_false]
      rw [hm]
      apply ih
      intro l hl
      cases hl
      simp [List.map_map, Function.comp_def, markOne_idem]

/-- the loop with its position variables marks exactly what the plain fold over all token positions marks -/
theorem markStream_eq_mark (locs : List (Str × Int)) (st : State) : markStream none locs st = mark locs st :=
  markStream_inv locs none st (by intro l h; cases h)

/-- on the pure flag level the worker's two calls (local, then all) leave the list as the single call over all suppressions -/
theorem evolve1_sup_eq (v) (s : Suppr) (g : Bool) (m : Msg) :
    evolve1 v s (.sup g m) = if eligible g m.id s then (applyRes s (v s m)).1 else s := rfl

theorem evolve1_local_then_global (v) (hv : FlagFree v) (s : Suppr) (m : Msg) :
    evolve1 v (evolve1 v s (.sup false m)) (.sup true m) = evolve1 v s (.sup true m) := by
  generalize hs' : evolve1 v s (.sup false m) = s'
  have hc : clear s' = clear s := by rw [← hs']; exact clear_evolve1 v s _
  rw [evolve1_sup_eq v s' true m, evolve1_sup_eq v s true m, eligible_congr hc true m.id, v_congr hv hc m]
  rw [evolve1_sup_eq] at hs'
  by_cases h1 : eligible false m.id s = true
  · have h2 : eligible true m.id s = true := by
      simp only [eligible, Bool.and_eq_true, Bool.or_eq_true] at h1 ⊢
      exact ⟨Or.inl trivial, h1.2⟩
    simp only [h1, if_true] at hs'
    simp only [h2, if_true, ← hs']
    cases v s m <;> simp [applyRes]
  · simp only [h1, Bool.false_eq_true, if_false] at hs'
    rw [← hs']

theorem workerReportErr_true_eq (v) (hv : FlagFree v) (st : State) (m : Msg) :
    workerReportErr true v st m = stepOp v st (.sup true m) := by
  have h1 : (isSuppressedWith false m.id st (st.map (v · m))).1 = st.map (fun s => evolve1 v s (.sup false m)) := sup_map v false m st
  have h2 : ∀ st', (isSuppressedWith true m.id st' (st'.map (v · m))).1 = st'.map (fun s => evolve1 v s (.sup true m)) := sup_map v true m
  unfold workerReportErr
  simp only [if_true, stepOp]
  have : (isSuppressedWith true m.id (isSuppressedWith false m.id st (st.map (v · m))).1
      ((isSuppressedWith false m.id st (st.map (v · m))).1.map (v · m))).1 = (isSuppressedWith true m.id st (st.map (v · m))).1 := by
    rw [h2, h1, h2, List.map_map]
    apply List.map_congr_left
    intro s _
    exact evolve1_local_then_global v hv s m
  split <;> exact this

theorem recopy_sub_aux : ∀ (l : State) (acc : State) (s : Suppr),
    s ∈ l.foldl (fun acc s => (addSuppression true s acc).1) acc → s ∈ acc ∨ s ∈ l := by
  intro l
  induction l with
  | nil => intro acc s h; exact Or.inl h
  | cons a r ih =>
    intro acc s h
    simp only [List.foldl_cons] at h
    rcases ih _ s h with h1 | h1
    · unfold addSuppression at h1
      split at h1
      · exact Or.inl h1
      · split at h1
        · exact Or.inl h1
        · split at h1
          · exact Or.inl h1
          · split at h1
            · exact Or.inl h1
            · rcases List.mem_append.mp h1 with h2 | h2
              · exact Or.inl h2
              · simp at h2; subst h2; exact Or.inr List.mem_cons_self
    · exact Or.inr (List.mem_cons_of_mem _ h1)

/-- the copy the report works on holds only entries of the list -/
theorem recopy_sub {st : State} {s : Suppr} (h : s ∈ recopy st) : s ∈ st := by
  rcases recopy_sub_aux st [] s h with h | h
  · simp at h
  · exact h


end Cppcheck.Unmatched

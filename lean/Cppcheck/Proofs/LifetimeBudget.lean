import Cppcheck.Model.LifetimeBudget
/-
C13 — cost of the reference-following recursion under the two ways of charging the budget.
-/
namespace Cppcheck.LifetimeBudget

theorem calls_zero (c : Charge) (r : Nat) : calls c r 0 = 1 := by
  rw [calls]

theorem calls_succ (c : Charge) (r n : Nat) (h : r ≠ 0) :
    calls c r (n + 1) = 1 + r * calls c r (n + 1 - c.cost r) := by
  rw [calls]; simp [h]

theorem calls_r0 (c : Charge) (n : Nat) : calls c 0 n = 1 := by
  cases n with
  | zero => rw [calls]
  | succ n => rw [calls]; simp

theorem lt_two_pow_self' (r : Nat) : r + 1 ≤ 2 ^ r := by
  induction r with
  | zero => simp
  | succ k ih => rw [Nat.pow_succ]; omega

/-- charged by the number of returns, the recursion makes at most `(r + 1) * 2 ^ n` invocations: for the fixed budget of
the code this is *linear* in the number `r` of return statements of the callee -/
theorem calls_perReturns_le (r : Nat) : ∀ n, calls .perReturns r n ≤ (r + 1) * 2 ^ n := by
  intro n
  induction n using Nat.strongRecOn with
  | _ n ih =>
    cases n with
    | zero => rw [calls_zero]; simp
    | succ m =>
      by_cases hr : r = 0
      · subst hr; rw [calls_r0]; simp; exact Nat.one_le_two_pow
      · rw [calls_succ _ _ _ hr]
        simp only [Charge.cost]
        by_cases hle : m + 1 ≤ r
        · -- the budget is used up at once: 1 + r invocations
          have : m + 1 - r = 0 := by omega
          rw [this, calls_zero]
          have h2 : 1 ≤ 2 ^ (m + 1) := Nat.one_le_two_pow
          calc 1 + r * 1 = (r + 1) * 1 := by omega
            _ ≤ (r + 1) * 2 ^ (m + 1) := Nat.mul_le_mul_left _ h2
        · have hlt : m + 1 - r < m + 1 := by omega
          have ihk := ih (m + 1 - r) hlt
          -- 2 ^ (m+1) = 2 ^ (m+1-r) * 2 ^ r
          have hsplit : 2 ^ (m + 1) = 2 ^ (m + 1 - r) * 2 ^ r := by
            rw [← Nat.pow_add]; congr 1; omega
          have hpr : r + 1 ≤ 2 ^ r := lt_two_pow_self' r
          have hpos : 1 ≤ 2 ^ (m + 1 - r) := Nat.one_le_two_pow
          -- 1 + r * ((r+1) * P) ≤ (r+1) * P * (r+1) ≤ (r+1) * P * 2^r
          have hP : 1 ≤ (r + 1) * 2 ^ (m + 1 - r) := by
            calc 1 = 1 * 1 := rfl
              _ ≤ (r + 1) * 2 ^ (m + 1 - r) := Nat.mul_le_mul (by omega) hpos
          calc 1 + r * calls .perReturns r (m + 1 - r)
              ≤ 1 + r * ((r + 1) * 2 ^ (m + 1 - r)) := by
                exact Nat.add_le_add_left (Nat.mul_le_mul_left _ ihk) _
            _ ≤ (r + 1) * 2 ^ (m + 1 - r) + r * ((r + 1) * 2 ^ (m + 1 - r)) := Nat.add_le_add_right hP _
            _ = ((r + 1) * 2 ^ (m + 1 - r)) * (r + 1) := by
                rw [Nat.mul_add, Nat.mul_one, Nat.add_comm, Nat.mul_comm r]
            _ ≤ ((r + 1) * 2 ^ (m + 1 - r)) * 2 ^ r := Nat.mul_le_mul_left _ hpr
            _ = (r + 1) * 2 ^ (m + 1) := by rw [hsplit, Nat.mul_assoc]

/-- charged one unit per level, the recursion makes at least `r ^ n` invocations -/
theorem calls_perCall_ge (r : Nat) : ∀ n, r ^ n ≤ calls .perCall r n := by
  intro n
  induction n with
  | zero => rw [calls_zero]; simp
  | succ m ih =>
    by_cases hr : r = 0
    · subst hr; rw [calls_r0]; simp
    · rw [calls_succ _ _ _ hr]
      simp only [Charge.cost, Nat.add_sub_cancel]
      rw [Nat.pow_succ, Nat.mul_comm]
      exact Nat.le_trans (Nat.mul_le_mul_left _ ih) (Nat.le_add_left _ _)

end Cppcheck.LifetimeBudget

import Cppcheck.Model.AliasScope
import Cppcheck.Proofs.VarMap
/-
helper lemmas for C06: the events of a program contain neither `::x` nor enumerator events
-/
namespace Cppcheck.AliasScope
open Cppcheck.VarMap

/-- only enter / leave / decl / use -/
def Plain (ops : List Op) : Prop := ∀ o ∈ ops, (∃ x g, o = .decl x g) ∨ (∃ x, o = .use x) ∨ o = .enter ∨ o = .leave

theorem plain_append {a b : List Op} (ha : Plain a) (hb : Plain b) : Plain (a ++ b) := by
  intro o ho; simp at ho; rcases ho with h | h; exact ha o h; exact hb o h

theorem plain_tyEvents : ∀ t : Ty, Plain (tyEvents t) := by
  intro t
  induction t with
  | base b => intro o ho; simp [tyEvents] at ho
  | ptr t ih => exact ih
  | name x => intro o ho; simp [tyEvents] at ho; exact Or.inr (Or.inl ⟨x, ho⟩)

theorem plain_exEvents : ∀ e : Ex, Plain (exEvents e) := by
  intro e
  induction e with
  | num n => intro o ho; simp [exEvents] at ho
  | var x => intro o ho; simp [exEvents] at ho; exact Or.inr (Or.inl ⟨x, ho⟩)
  | add a b iha ihb => exact plain_append iha ihb

theorem plain_single_decl (x : VName) (g : Bool) : Plain [.decl x g] := by
  intro o ho; simp at ho; exact Or.inl ⟨x, g, ho⟩

theorem plain_itemEvents (d : Nat) (it : Item) : Plain (itemEvents d it) := by
  cases it with
  | opn => intro o ho; simp [itemEvents] at ho; exact Or.inr (Or.inr (Or.inl ho))
  | cls => intro o ho; simp [itemEvents] at ho; exact Or.inr (Or.inr (Or.inr ho))
  | fopen f p =>
    cases p with
    | none => intro o ho; simp [itemEvents] at ho; exact Or.inr (Or.inr (Or.inl ho))
    | some q =>
      obtain ⟨x, t⟩ := q
      have : Plain ([Op.enter] ++ (tyEvents t ++ [.decl x false])) :=
        plain_append (by intro o ho; simp at ho; exact Or.inr (Or.inr (Or.inl ho))) (plain_append (plain_tyEvents t) (plain_single_decl x false))
      simpa [itemEvents] using this
  | tdef u x t => exact plain_append (plain_tyEvents t) (plain_single_decl x _)
  | vdecl x t init =>
    have h1 := plain_append (plain_tyEvents t) (plain_single_decl x (d == 0))
    cases init with
    | none => simpa [itemEvents] using h1
    | some e => exact plain_append h1 (plain_exEvents e)
  | assign x e =>
    have : Plain ([Op.use x] ++ exEvents e) :=
      plain_append (by intro o ho; simp at ho; exact Or.inr (Or.inl ⟨x, ho⟩)) (plain_exEvents e)
    simpa [itemEvents] using this

theorem plain_events : ∀ (p : List Item) (d : Nat), Plain (events d p) := by
  intro p
  induction p with
  | nil => intro d o ho; simp [events] at ho
  | cons it r ih => intro d; exact plain_append (plain_itemEvents d it) (ih _)

theorem noGuse_of_plain : ∀ {ops : List Op}, Plain ops → noGuse ops = true := by
  intro ops
  induction ops with
  | nil => intro _; rfl
  | cons o r ih =>
    intro h
    have hr := ih (fun x hx => h x (by simp [hx]))
    rcases h o (by simp) with ⟨x, g, rfl⟩ | ⟨x, rfl⟩ | rfl | rfl <;> simpa [noGuse] using hr

theorem noHide_of_plain : ∀ {ops : List Op}, Plain ops → noHide ops = true := by
  intro ops
  induction ops with
  | nil => intro _; rfl
  | cons o r ih =>
    intro h
    have hr := ih (fun x hx => h x (by simp [hx]))
    rcases h o (by simp) with ⟨x, g, rfl⟩ | ⟨x, rfl⟩ | rfl | rfl <;> simpa [noHide] using hr

end Cppcheck.AliasScope

import Cppcheck.Proofs.MatchInterp
/-
C33 (M4) — the pattern language as DOCUMENTED (lib/token.h, doc comment of `Token::Match`), written as
a grammar that does not mention the compiler's classification function `Word.ofStr` / `parse`, and
the lemmas that relate the two.  The property theorems are in Props/C33Spec.lean.

    * - "%any%" any token                         * - "[abc]" Any of the characters 'a' or 'b' or 'c'
    * - "%assign%" a assignment operand           * - "int|void|char" Any of the strings, int, void or char
    * - ... (15 `%cmd%` words)                    * - "int|void|char|" Any of the strings, int, void or char or no token
    * - "%varid%" Match with parameter varid      * - "!!else" No tokens or any token that is not "else".
    *                                             * - "someRandomText" If token contains "someRandomText".
    * multi-compare patterns such as "int|void|char" can contain %%or%, %%oror% and %%op% ...
    * The patterns can be also combined to compare to multiple tokens at once by separating tokens with a space

The comment leaves the overlaps between the forms open; the three disambiguation rules below
(`Bracketed`, `Bang`, and "only the last alternative may be empty") are what both matchers implement
and are stated as side conditions of the grammar, not taken from `Word.ofStr`.
-/
namespace Cppcheck.Match
open Cppcheck.Wire

/-- the fifteen `%cmd%` words of the doc comment -/
inductive DocCmd : Str → Cmd → Prop
  | any : DocCmd "%any%".toList .any
  | assign : DocCmd "%assign%".toList .assign
  | bool : DocCmd "%bool%".toList .bool
  | char : DocCmd "%char%".toList .char
  | comp : DocCmd "%comp%".toList .comp
  | cop : DocCmd "%cop%".toList .cop
  | name : DocCmd "%name%".toList .name
  | num : DocCmd "%num%".toList .num
  | op : DocCmd "%op%".toList .op
  | or : DocCmd "%or%".toList .or
  | oror : DocCmd "%oror%".toList .oror
  | type : DocCmd "%type%".toList .type
  | str : DocCmd "%str%".toList .str
  | var : DocCmd "%var%".toList .var
  | varid : DocCmd "%varid%".toList .varid

/-- "someRandomText": a non-empty text without blank and without `|` that is not a `%…` word
    (the operators `%` and `%=` are ordinary texts) -/
def PlainLit (s : Str) : Prop :=
  s ≠ [] ∧ ' ' ∉ s ∧ '|' ∉ s ∧ (s.head? ≠ some '%' ∨ s = ['%'] ∨ s = ['%', '='])

instance (s : Str) : Decidable (PlainLit s) := by unfold PlainLit; exact inferInstance

/-- what may stand between the `|` of "int|void|char": a `%cmd%` or a text -/
inductive DocAtom : Str → Atom → Prop
  | cmd {s : Str} {c : Cmd} : DocCmd s c → DocAtom s (.cmd c)
  | lit {s : Str} : PlainLit s → DocAtom s (.lit s)

/-- pointwise: the meanings of a list of alternatives -/
inductive DocAtoms : List Str → List Atom → Prop
  | nil : DocAtoms [] []
  | cons {a : Str} {A : Atom} {r : List Str} {R : List Atom} : DocAtom a A → DocAtoms r R → DocAtoms (a :: r) (A :: R)

/-- disambiguation 1: a word that starts with `[` and contains `]` is read as a character class -/
def Bracketed (w : Str) : Prop := w.head? = some '[' ∧ ']' ∈ w
/-- disambiguation 2: a word that starts with `!!` is read as a negation -/
def Bang (w : Str) : Prop := w.take 2 = ['!', '!']

instance (w : Str) : Decidable (Bracketed w) := by unfold Bracketed; exact inferInstance
instance (w : Str) : Decidable (Bang w) := by unfold Bang; exact inferInstance

/-- one word of a pattern and its meaning -/
inductive DocWord : Str → Word → Prop
  /-- "[abc]" -/
  | cls (cs : Str) : cs ≠ [] → ' ' ∉ cs → DocWord ('[' :: (cs ++ [']'])) (.cls cs)
  /-- "!!else" (alternatives are recognised first: no `|` in the text) -/
  | neg (s : Str) : s ≠ [] → ' ' ∉ s → '|' ∉ s → DocWord ('!' :: '!' :: s) (.neg s)
  /-- "%name%", "someRandomText" -/
  | one (a : Str) (A : Atom) : DocAtom a A → ¬ Bracketed a → ¬ Bang a → DocWord a (.one A)
  /-- "int|void|char", "int|void|char|": `ps` = the texts between the `|` (at least two, only the last
      may be empty = "or no token"), `as` = the meaning of the non-empty ones -/
  | alts (ps : List Str) (as : List Atom) : 2 ≤ ps.length → (∀ a ∈ ps.dropLast, a ≠ []) →
      DocAtoms (ps.filter (· ≠ [])) as → ¬ Bracketed (bars ps) → ¬ Bang (bars ps) →
      DocWord (bars ps) (.alts as (ps.any (· = [])))

/-- "combined ... by separating tokens with a space": words separated by one or more blanks,
    blanks in front and behind allowed -/
inductive DocPattern : Str → List Word → Prop
  | nil : DocPattern [] []
  | blank (p : Str) (Ws : List Word) : DocPattern p Ws → DocPattern (' ' :: p) Ws
  | last (w : Str) (W : Word) : DocWord w W → DocPattern w [W]
  | word (w : Str) (W : Word) (p : Str) (Ws : List Word) :
      DocWord w W → DocPattern p Ws → DocPattern (w ++ ' ' :: p) (W :: Ws)

/-! ## atoms -/

theorem docCmd_spell (s : Str) (c : Cmd) : DocCmd s c ↔ s = c.spell := by
  constructor
  · intro h; cases h <;> rfl
  · intro h; subst h; cases c <;> constructor

theorem spell_head_pct (c : Cmd) : c.spell.head? = some '%' ∧ c.spell ≠ ['%'] ∧ c.spell ≠ ['%', '='] := by
  cases c <;> decide

theorem plainLit_not_cmd (s : Str) (h : PlainLit s) : Cmd.ofStr s = none := by
  cases hc : Cmd.ofStr s with
  | none => rfl
  | some c =>
    have := Cmd.ofStr_some s c hc
    subst this
    obtain ⟨h1, h2, h3⟩ := spell_head_pct c
    rcases h.2.2.2 with h' | h' | h'
    · exact absurd h1 h'
    · exact absurd h' h2
    · exact absurd h' h3

theorem docAtom_ofStr (a : Str) (A : Atom) (h : DocAtom a A) : Atom.ofStr a = A := by
  cases h with
  | cmd hc =>
    rw [(docCmd_spell _ _).1 hc]
    simp [Atom.ofStr, Cmd.ofStr_spell]
  | lit hl => simp [Atom.ofStr, plainLit_not_cmd a hl]

theorem docAtom_isCmdOrPlain (a : Str) (A : Atom) (h : DocAtom a A) : isCmdOrPlain a = true := by
  cases h with
  | cmd hc =>
    rw [(docCmd_spell _ _).1 hc]
    simp [isCmdOrPlain, Cmd.ofStr_spell]
  | lit hl =>
    unfold isCmdOrPlain
    rw [plainLit_not_cmd a hl]
    obtain ⟨h1, h2, h3, h4⟩ := hl
    simp only [Bool.and_eq_true, Bool.or_eq_true, Bool.not_eq_true', decide_eq_true_eq, ne_eq,
      List.contains_eq_mem, decide_eq_false_iff_not]
    refine ⟨⟨⟨h1, h3⟩, h2⟩, ?_⟩
    rcases h4 with h | h | h
    · exact Or.inl (Or.inl h)
    · exact Or.inl (Or.inr h)
    · exact Or.inr h

theorem isCmdOrPlain_docAtom (a : Str) (h : isCmdOrPlain a = true) : DocAtom a (Atom.ofStr a) := by
  unfold isCmdOrPlain at h
  cases hc : Cmd.ofStr a with
  | some c =>
    have := Cmd.ofStr_some a c hc
    subst this
    simp only [Atom.ofStr, hc]
    exact .cmd ((docCmd_spell _ _).2 rfl)
  | none =>
    rw [hc] at h
    simp only [Bool.and_eq_true, Bool.or_eq_true, Bool.not_eq_true', decide_eq_true_eq, ne_eq,
      List.contains_eq_mem, decide_eq_false_iff_not] at h
    obtain ⟨⟨⟨h1, h3⟩, h2⟩, h4⟩ := h
    simp only [Atom.ofStr, hc]
    refine .lit ⟨h1, h2, h3, ?_⟩
    rcases h4 with (h | h) | h
    · exact Or.inl h
    · exact Or.inr (Or.inl h)
    · exact Or.inr (Or.inr h)

theorem docAtom_chars (a : Str) (A : Atom) (h : DocAtom a A) : a ≠ [] ∧ ' ' ∉ a ∧ '|' ∉ a := by
  cases h with
  | cmd hc =>
    rw [(docCmd_spell _ _).1 hc]
    rename_i c
    have := spell_chars c
    refine ⟨by cases c <;> decide, fun hm => (this _ hm).2.1 rfl, fun hm => (this _ hm).1 rfl⟩
  | lit hl => exact ⟨hl.1, hl.2.1, hl.2.2.1⟩

/-! ## joining / splitting at `|` -/

theorem splitOn_bars : ∀ (ps : List Str), ps ≠ [] → (∀ a ∈ ps, '|' ∉ a) → splitOn '|' (bars ps) = ps := by
  intro ps
  induction ps with
  | nil => intro h; exact absurd rfl h
  | cons a r ih =>
    intro _ h
    have ha : ∀ x ∈ a, x ≠ '|' := fun x hx e => h a (by simp) (e ▸ hx)
    cases r with
    | nil => simp only [bars]; exact splitOn_nosep '|' a ha
    | cons b r' =>
      simp only [bars]
      rw [splitOn_append_sep '|' a _ ha, ih (by simp) (fun a' ha' => h a' (by simp [ha']))]

theorem mem_bars : ∀ (ps : List Str) (x : Char), x ∈ bars ps → x = '|' ∨ ∃ a ∈ ps, x ∈ a := by
  intro ps
  induction ps with
  | nil => intro x h; simp [bars] at h
  | cons a r ih =>
    intro x h
    cases r with
    | nil => simp only [bars] at h; exact Or.inr ⟨a, by simp, h⟩
    | cons b r' =>
      simp only [bars, List.mem_append, List.mem_cons] at h
      rcases h with h | h | h
      · exact Or.inr ⟨a, by simp, h⟩
      · exact Or.inl h
      · rcases ih x h with h' | ⟨a', ha', hx⟩
        · exact Or.inl h'
        · exact Or.inr ⟨a', by simp [ha'], hx⟩

theorem bars_head (a b : Str) (r : List Str) (ha : a ≠ []) : (bars (a :: b :: r)).head? = a.head? := by
  cases a with
  | nil => exact absurd rfl ha
  | cons x a' => simp [bars]

theorem findIdx_head (c x : Char) (w : Str) (hx : x ≠ c) (hm : c ∈ w) : ∃ n, findIdx c (x :: w) = some (n + 1) := by
  simp only [findIdx, hx, if_false]
  cases hf : findIdx c w with
  | none => exact absurd hm (findIdx_none c w hf)
  | some n => exact ⟨n, rfl⟩

theorem altCond_of (w : Str) (x : Char) (w' : Str) (hw : w = x :: w') (hx : x ≠ '|') (hm : '|' ∈ w') : altCond w = true := by
  subst hw
  obtain ⟨n, hn⟩ := findIdx_head '|' x w' hx hm
  simp [altCond, hn]

theorem altCond_false_of (w : Str) (h : '|' ∉ w) : altCond w = false := by
  cases hf : findIdx '|' w with
  | none => simp [altCond, hf]
  | some n => exact absurd (findIdx_mem '|' w n hf) h

theorem clsCond_bracketed (w : Str) (h : clsCond w) : Bracketed w :=
  ⟨h.2.1, List.mem_of_getLast? h.2.2⟩

theorem forall₂_map_ofStr : ∀ (xs : List Str) (as : List Atom), DocAtoms xs as → xs.map Atom.ofStr = as := by
  intro xs as h
  induction h with
  | nil => rfl
  | cons h1 _ ih => simp [docAtom_ofStr _ _ h1, ih]

theorem forall₂_of_map : ∀ (xs : List Str), (∀ a ∈ xs, isCmdOrPlain a = true) →
    DocAtoms xs (xs.map Atom.ofStr) := by
  intro xs
  induction xs with
  | nil => intro _; exact .nil
  | cons a r ih =>
    intro h
    exact .cons (isCmdOrPlain_docAtom a (h a (by simp))) (ih (fun b hb => h b (by simp [hb])))

theorem forall₂_mem_left {xs : List Str} {as : List Atom} (h : DocAtoms xs as) :
    ∀ a ∈ xs, ∃ A, DocAtom a A := by
  induction h with
  | nil => intro a ha; simp at ha
  | cons h1 _ ih =>
    intro a ha
    simp only [List.mem_cons] at ha
    rcases ha with rfl | ha
    · exact ⟨_, h1⟩
    · exact ih a ha

/-- the parts of a `partsOK` list: every non-empty one is a command or a plain text -/
theorem partsOK_nonempty : ∀ (ps : List Str), partsOK ps → ∀ a ∈ ps, a ≠ [] → isCmdOrPlain a = true := by
  intro ps
  induction ps with
  | nil => intro h; exact absurd h (by simp [partsOK])
  | cons a r ih =>
    intro h x hx hne
    cases r with
    | nil =>
      simp only [partsOK] at h
      simp only [List.mem_singleton] at hx
      subst hx
      rcases h with h | h
      · exact absurd h hne
      · exact h
    | cons b r' =>
      simp only [partsOK] at h
      simp only [List.mem_cons] at hx
      rcases hx with rfl | hx
      · exact h.1
      · exact ih h.2 x (by simpa using hx) hne

theorem partsOK_dropLast : ∀ (ps : List Str), partsOK ps → ∀ a ∈ ps.dropLast, a ≠ [] := by
  intro ps
  induction ps with
  | nil => intro h; exact absurd h (by simp [partsOK])
  | cons a r ih =>
    intro h x hx
    cases r with
    | nil => simp at hx
    | cons b r' =>
      simp only [partsOK] at h
      simp only [List.dropLast_cons_cons, List.mem_cons] at hx
      rcases hx with rfl | hx
      · exact isCmdOrPlain_ne_nil _ h.1
      · exact ih h.2 x hx

/-! ## words -/

theorem docWord_ofStr (w : Str) (W : Word) (h : DocWord w W) : wordWF w = true ∧ Word.ofStr w = W := by
  cases h with
  | cls cs hne hsp =>
    have hc : clsCond ('[' :: (cs ++ [']'])) := by
      refine ⟨?_, rfl, ?_⟩
      · cases cs with
        | nil => exact absurd rfl hne
        | cons c cs' => simp
      · rw [show ('[' :: (cs ++ [']'])) = ('[' :: cs) ++ [']'] from rfl, List.getLast?_concat]
    have hof := ofStr_cls _ hc
    have hcs : (List.drop 1 ('[' :: (cs ++ [']']))).dropLast = cs := by simp
    rw [hcs] at hof
    exact ⟨by simp [wordWF, hof], hof⟩
  | neg s hne hsp hbar =>
    have hnc : ¬ clsCond ('!' :: '!' :: s) := fun hc => by
      have := hc.2.1; simp at this
    have hac : altCond ('!' :: '!' :: s) = false := altCond_false_of _ (by
      simp only [List.mem_cons, not_or]
      exact ⟨by decide, by decide, hbar⟩)
    have hof := ofStr_neg _ hnc hac (by simp)
    simp only [List.drop_succ_cons, List.drop_zero] at hof
    refine ⟨?_, hof⟩
    simp [wordWF, hof, hne, hbar]
  | one _ A hA hnb hng =>
    obtain ⟨hne, hsp, hbar⟩ := docAtom_chars w A hA
    have hnc : ¬ clsCond w := fun hc => hnb (clsCond_bracketed w hc)
    have hac : altCond w = false := altCond_false_of w hbar
    have hof := ofStr_one w hnc hac hng
    rw [docAtom_ofStr w A hA] at hof
    refine ⟨?_, hof⟩
    have hb : (decide (w.head? = some '[') && w.contains ']') = false := by
      cases hh : (decide (w.head? = some '[') && w.contains ']') with
      | false => rfl
      | true =>
        simp only [Bool.and_eq_true, decide_eq_true_eq, List.contains_eq_mem] at hh
        exact absurd ⟨hh.1, hh.2⟩ hnb
    simp only [wordWF, hof, docAtom_isCmdOrPlain w A hA, hb]
    simp [hbar]
  | alts ps as hlen hdl hfa hnb hng =>
    -- every part is free of `|`
    have hparts : ∀ a ∈ ps, '|' ∉ a := by
      intro a ha
      by_cases hae : a = []
      · subst hae; simp
      · obtain ⟨A, hA⟩ := forall₂_mem_left hfa a (by simp [ha, hae])
        exact (docAtom_chars a A hA).2.2
    have hne : ps ≠ [] := by intro e; subst e; simp at hlen
    have hsplit := splitOn_bars ps hne hparts
    obtain ⟨a, b, r, rfl⟩ : ∃ a b r, ps = a :: b :: r := by
      cases ps with
      | nil => simp at hlen
      | cons a r =>
        cases r with
        | nil => simp at hlen
        | cons b r' => exact ⟨a, b, r', rfl⟩
    have hane : a ≠ [] := hdl a (by simp)
    have hnc : ¬ clsCond (bars (a :: b :: r)) := fun hc => hnb (clsCond_bracketed _ hc)
    have hac : altCond (bars (a :: b :: r)) = true := by
      cases a with
      | nil => exact absurd rfl hane
      | cons x a' =>
        have hx : x ≠ '|' := fun e => hparts (x :: a') (by simp) (by simp [e])
        exact altCond_of _ x (a' ++ '|' :: bars (b :: r)) (by simp [bars]) hx (by simp)
    have hof := ofStr_alts _ hnc hac
    rw [hsplit, forall₂_map_ofStr _ _ hfa] at hof
    refine ⟨?_, hof⟩
    have hb : (decide ((bars (a :: b :: r)).head? = some '[') && (bars (a :: b :: r)).contains ']') = false := by
      cases hh : (decide ((bars (a :: b :: r)).head? = some '[') && (bars (a :: b :: r)).contains ']') with
      | false => rfl
      | true =>
        simp only [Bool.and_eq_true, decide_eq_true_eq, List.contains_eq_mem] at hh
        exact absurd ⟨hh.1, hh.2⟩ hnb
    have hd : (a :: b :: r).dropLast.all isCmdOrPlain = true := by
      simp only [List.all_eq_true]
      intro x hx
      have hxne := hdl x hx
      obtain ⟨A, hA⟩ := forall₂_mem_left hfa x (by
        simp only [List.mem_filter, decide_eq_true_eq, ne_eq]
        exact ⟨List.dropLast_subset _ hx, hxne⟩)
      exact docAtom_isCmdOrPlain x A hA
    have hl : (match (a :: b :: r).getLast? with | some l => decide (l = []) || isCmdOrPlain l | none => false) = true := by
      cases hg : (a :: b :: r).getLast? with
      | none => simp at hg
      | some l =>
        simp only [Bool.or_eq_true, decide_eq_true_eq]
        by_cases hle : l = []
        · exact Or.inl hle
        · right
          obtain ⟨A, hA⟩ := forall₂_mem_left hfa l (by
            simp only [List.mem_filter, decide_eq_true_eq, ne_eq]
            exact ⟨List.mem_of_getLast? hg, hle⟩)
          exact docAtom_isCmdOrPlain l A hA
    have hng' : ¬ List.take 2 (bars (a :: b :: r)) = ['!', '!'] := hng
    simp only [wordWF, hof, hsplit, Bool.and_eq_true, Bool.not_eq_true', decide_eq_false_iff_not]
    exact ⟨⟨⟨hng', hb⟩, hd⟩, hl⟩

theorem ofStr_docWord (w : Str) (hsp : ' ' ∉ w) (hwf : wordWF w = true) : DocWord w (Word.ofStr w) := by
  unfold wordWF at hwf
  by_cases hc : clsCond w
  · obtain ⟨cs, hne, hweq, hcs⟩ := cls_shape w hc
    rw [ofStr_cls w hc, hcs]
    have : ' ' ∉ cs := fun hm => hsp (by rw [hweq]; simp [hm])
    rw [hweq]
    exact .cls cs hne this
  · by_cases ha : altCond w = true
    · have hof := ofStr_alts w hc ha
      rw [hof] at hwf ⊢
      simp only [Bool.and_eq_true, Bool.not_eq_true', decide_eq_false_iff_not] at hwf
      obtain ⟨⟨⟨h1, h2⟩, h3⟩, h4⟩ := hwf
      have hok := partsOK_of (splitOn '|' w) h3 h4
      have hmem := altCond_mem w ha
      obtain ⟨a, b, r, hs⟩ := splitOn_two '|' w hmem
      have hb := bars_splitOn w
      have hnb : ¬ Bracketed (bars (splitOn '|' w)) := by
        rw [hb]
        intro hh
        simp only [Bool.and_eq_false_iff, decide_eq_false_iff_not, List.contains_eq_mem] at h2
        rcases h2 with h2 | h2
        · exact h2 hh.1
        · exact h2 (by simpa using hh.2)
      have hng : ¬ Bang (bars (splitOn '|' w)) := by rw [hb]; exact h1
      have := DocWord.alts (splitOn '|' w) (((splitOn '|' w).filter (· ≠ [])).map Atom.ofStr)
        (by rw [hs]; simp) (partsOK_dropLast _ hok)
        (forall₂_of_map _ (fun x hx => by
          simp only [List.mem_filter, decide_eq_true_eq, ne_eq] at hx
          exact partsOK_nonempty _ hok x hx.1 hx.2)) hnb hng
      rw [hb] at this
      exact this
    · have ha' : altCond w = false := by simpa using ha
      by_cases hb : w.take 2 = ['!', '!']
      · have hof := ofStr_neg w hc ha' hb
        rw [hof] at hwf ⊢
        simp only [Bool.and_eq_true, decide_eq_true_eq, Bool.not_eq_true', List.contains_eq_mem,
          decide_eq_false_iff_not, ne_eq] at hwf
        have hweq := take_two_eq w '!' '!' hb
        have := DocWord.neg (w.drop 2) hwf.1 (fun hm => hsp (List.mem_of_mem_drop hm)) hwf.2
        rw [← hweq] at this
        exact this
      · have hof := ofStr_one w hc ha' hb
        rw [hof] at hwf ⊢
        simp only [Bool.and_eq_true, Bool.not_eq_true', List.contains_eq_mem, decide_eq_false_iff_not] at hwf
        obtain ⟨⟨h1, h2⟩, _⟩ := hwf
        refine .one w _ (isCmdOrPlain_docAtom w h1) ?_ hb
        intro hh
        simp only [Bool.and_eq_false_iff, decide_eq_false_iff_not] at h2
        rcases h2 with h2 | h2
        · exact h2 hh.1
        · exact h2 (by simpa using hh.2)

theorem docWord_chars (w : Str) (W : Word) (h : DocWord w W) : w ≠ [] ∧ ∀ x ∈ w, x ≠ ' ' := by
  cases h with
  | cls cs hne hsp =>
    refine ⟨by simp, ?_⟩
    intro x hx e
    subst e
    simp only [List.mem_cons, List.mem_append, List.mem_nil_iff, or_false] at hx
    rcases hx with hx | hx | hx
    · exact absurd hx (by decide)
    · exact hsp hx
    · exact absurd hx (by decide)
  | neg s hne hsp hbar =>
    refine ⟨by simp, ?_⟩
    intro x hx e
    subst e
    simp only [List.mem_cons] at hx
    rcases hx with hx | hx | hx
    · exact absurd hx (by decide)
    · exact absurd hx (by decide)
    · exact hsp hx
  | one _ A hA _ _ =>
    obtain ⟨h1, h2, _⟩ := docAtom_chars w A hA
    exact ⟨h1, fun x hx e => h2 (e ▸ hx)⟩
  | alts ps as hlen hdl hfa _ _ =>
    constructor
    · cases ps with
      | nil => simp at hlen
      | cons a r =>
        cases r with
        | nil => simp at hlen
        | cons b r' =>
          have := hdl a (by simp)
          cases a with
          | nil => exact absurd rfl this
          | cons x a' => simp [bars]
    · intro x hx e
      subst e
      rcases mem_bars ps ' ' hx with h | ⟨a, ha, hxa⟩
      · exact absurd h (by decide)
      · have hae : a ≠ [] := by intro e; subst e; simp at hxa
        obtain ⟨A, hA⟩ := forall₂_mem_left hfa a (by simp [ha, hae])
        exact (docAtom_chars a A hA).2.1 hxa

/-! ## patterns -/

theorem docPattern_parse (p : Str) (Ws : List Word) (h : DocPattern p Ws) : patternWF p = true ∧ parse p = Ws := by
  induction h with
  | nil => simp [patternWF, parse, words_nil]
  | blank p Ws _ ih => simpa [patternWF, parse, words_space] using ih
  | last w W hw =>
    obtain ⟨hne, hsp⟩ := docWord_chars w W hw
    obtain ⟨h1, h2⟩ := docWord_ofStr w W hw
    simp [patternWF, parse, words_word w hne hsp, h1, h2]
  | word w W p Ws hw _ ih =>
    obtain ⟨hne, hsp⟩ := docWord_chars w W hw
    obtain ⟨h1, h2⟩ := docWord_ofStr w W hw
    have ih1 : (words p).all wordWF = true := by simpa [patternWF] using ih.1
    have ih2 : (words p).map Word.ofStr = Ws := by simpa [parse] using ih.2
    simp [patternWF, parse, words_word_rest w p hne hsp, h1, h2, ih1, ih2]

theorem parse_docPattern : ∀ (n : Nat) (p : Str), p.length < n → patternWF p = true → DocPattern p (parse p) := by
  intro n
  induction n with
  | zero => intro p h; omega
  | succ n ih =>
    intro p hlen hwf
    cases p with
    | nil => simpa [parse, words_nil] using DocPattern.nil
    | cons c r =>
      by_cases hc : c = ' '
      · subst hc
        have hwf' : patternWF r = true := by simpa [patternWF, words_space] using hwf
        have := DocPattern.blank r (parse r) (ih r (by simp at hlen; omega) hwf')
        simpa [parse, words_space] using this
      · obtain ⟨hsplit, hrest, hwsp⟩ := first_word (c :: r)
        have hwne := takeWhile_ne_nil (c :: r) (by simp) (by intro r' e; simp at e; exact hc e.1)
        generalize (c :: r).takeWhile (· ≠ ' ') = w at hsplit hwsp hwne
        generalize skipWord (c :: r) = rest at hsplit hrest
        have hsp : ' ' ∉ w := fun hm => hwsp ' ' hm rfl
        cases rest with
        | nil =>
          rw [List.append_nil] at hsplit
          rw [hsplit] at hwf ⊢
          have hw : wordWF w = true := by simpa [patternWF, words_word w hwne hwsp] using hwf
          have := DocPattern.last w _ (ofStr_docWord w hsp hw)
          simpa [parse, words_word w hwne hwsp] using this
        | cons d rest' =>
          simp only [restOK] at hrest
          subst hrest
          rw [hsplit] at hwf hlen ⊢
          have hw : wordWF w = true ∧ patternWF rest' = true := by
            simpa [patternWF, words_word_rest w rest' hwne hwsp] using hwf
          have hl : rest'.length < n := by
            simp only [List.length_append, List.length_cons] at hlen
            omega
          have := DocPattern.word w _ rest' _ (ofStr_docWord w hsp hw.1) (ih rest' hl hw.2)
          simpa [parse, words_word_rest w rest' hwne hwsp] using this

end Cppcheck.Match

import Cppcheck.Proofs.ValueTypeConv
/-
C09 — the finite tables behind the property theorems.

Every statement of `Cppcheck/Props/C09.lean` quantifies over shapes (the answers of a platform to the size questions),
languages, operators and operand types: finitely many.  Each table below is a Boolean function evaluated on ALL
consistent shapes × ALL operand type tuples by the kernel (`decide +kernel`, no extra axioms) and then turned into the
∀-statement by the enumeration lemmas.  Results are compared through an injective Nat code (`ocode`) so that the
kernel's GMP-accelerated `Nat.beq` does the comparing.
-/
namespace Cppcheck.ConvSpec
open Cppcheck.ValueTypeConv

/-! ## codes -/

def signCode : Sign → Nat
  | .unknown => 0 | .signed => 1 | .unsigned => 2

def vcode (v : VT) : Nat := 4 * v.type.rank + signCode v.sign

def ocode : Option VT → Nat
  | none => 0
  | some v => 1 + vcode v

theorem vcode_inj : ∀ a b : VT, vcode a = vcode b → a = b := by
  intro ⟨ta, sa⟩ ⟨tb, sb⟩
  cases ta <;> cases tb <;> cases sa <;> cases sb <;> simp [vcode, VType.rank, signCode]

theorem ocode_inj : ∀ a b : Option VT, ocode a = ocode b → a = b := by
  intro a b h
  cases a with
  | none => cases b with
    | none => rfl
    | some y => simp only [ocode] at h; omega
  | some x => cases b with
    | none => simp only [ocode] at h; omega
    | some y =>
      simp only [ocode] at h
      exact congrArg some (vcode_inj _ _ (by omega))

/-- Boolean equality of two results -/
def same (a b : Option VT) : Bool := Nat.beq (ocode a) (ocode b)

theorem same_iff (a b : Option VT) : same a b = true ↔ a = b := by
  unfold same
  constructor
  · intro h; exact ocode_inj _ _ (Nat.eq_of_beq_eq_true h)
  · intro h; subst h; exact Nat.beq_refl _

theorem same_false_iff (a b : Option VT) : same a b = false ↔ a ≠ b := by
  have := same_iff a b
  cases h : same a b <;> simp_all

/-! ## enumeration of the consistent shapes -/

def Shape.consistentAll : List Shape := Shape.all.filter Shape.consistent

theorem Shape.mem_consistentAll (s : Shape) (h : s.consistent = true) : s ∈ Shape.consistentAll :=
  List.mem_filter.mpr ⟨Shape.mem_all s, h⟩

/-- the shape of a platform with ordered sizes is consistent -/
theorem shape_consistent_of_sane (P : Plat) (h : sane P = true) : (P.shape).consistent = true := by
  simp only [sane, Bool.and_eq_true, decide_eq_true_eq] at h
  obtain ⟨⟨⟨⟨⟨⟨⟨_, h1⟩, h2⟩, h3⟩, h4⟩, _⟩, _⟩, _⟩ := h
  simp only [Shape.consistent, Plat.shape, Bool.and_eq_true, beq_iff_eq, Bool.or_eq_true, Bool.not_eq_true',
    decide_eq_true_eq, decide_eq_false_iff_not]
  constructor
  · by_cases a : P.sizeofInt < P.sizeofLongLong
    · simp only [a, decide_true]
      by_cases b : P.sizeofInt < P.sizeofLong
      · simp [b]
      · have : P.sizeofLong < P.sizeofLongLong := by omega
        simp [this]
    · have b : ¬ P.sizeofInt < P.sizeofLong := by omega
      have c : ¬ P.sizeofLong < P.sizeofLongLong := by omega
      simp [a, b, c]
  · by_cases a : P.sizeofShort < P.sizeofInt
    · right; omega
    · left; exact a

/-- a table over (shape, t1, t2) -/
theorem table3 {p : Shape → CT → CT → Bool}
    (h : (Shape.consistentAll.all fun s => CT.all.all fun a => CT.all.all fun b => p s a b) = true) :
    ∀ s, s.consistent = true → ∀ a b, p s a b = true := by
  intro s hs a b
  have h1 := List.all_eq_true.mp h s (Shape.mem_consistentAll s hs)
  have h2 := List.all_eq_true.mp h1 a (CT.mem_all a)
  exact List.all_eq_true.mp h2 b (CT.mem_all b)

/-- a table over (shape, t) -/
theorem table2 {p : Shape → CT → Bool}
    (h : (Shape.consistentAll.all fun s => CT.all.all fun a => p s a) = true) :
    ∀ s, s.consistent = true → ∀ a, p s a = true := by
  intro s hs a
  have h1 := List.all_eq_true.mp h s (Shape.mem_consistentAll s hs)
  exact List.all_eq_true.mp h1 a (CT.mem_all a)

/-! ## structural lemmas (no table needed) -/

theorem declVT_isIntegral (t : CT) : (declVT t).isIntegral = !t.isFloating := by cases t <;> rfl

theorem floatRanks_none (a b : CT) (ha : a.isFloating = false) (hb : b.isFloating = false) :
    floatRanks (declVT a) (some (declVT b)) = none := by
  cases a <;> cases b <;> first | rfl | (simp [CT.isFloating] at ha hb)

/-- with integer operands the bit operators go through the same block as the arithmetical ones -/
theorem bit_eq_arith (v : Variant) (s : Shape) (cpp : Bool) (a b : CT) (ha : a.isFloating = false) (hb : b.isFloating = false) :
    convCls v s cpp .bit (declVT a) (declVT b) = convCls v s cpp .arith (declVT a) (declVT b) := by
  simp [convCls, floatRanks_none a b ha hb]

/-- the second patch does not touch binary operators -/
theorem fixAB_block_eq_fixA (s : Shape) (t : Bool) (v1 : VT) (v2 : Option VT) :
    integralBlock .fixAB s t false v1 v2 = integralBlock .fixA s t false v1 v2 := by
  simp [integralBlock, integralBlockFix]

theorem fixAB_cls_eq_fixA (s : Shape) (cpp : Bool) (c : OpClass) (v1 v2 : VT) :
    convCls .fixAB s cpp c v1 v2 = convCls .fixA s cpp c v1 v2 := by
  cases c <;> simp [convCls, fixAB_block_eq_fixA, shiftResult]

/-- the language is irrelevant outside shifts -/
theorem cls_cpp_irrelevant (v : Variant) (s : Shape) (cpp : Bool) (c : OpClass) (hc : c ≠ .shift) (v1 v2 : VT) :
    convCls v s cpp c v1 v2 = convCls v s false c v1 v2 := by
  cases c <;> first | rfl | exact absurd rfl hc

theorem rankSelect_type (v1 v2 : VT) :
    (rankSelect v1 (some v2)).type = if v1.type.rank > v2.type.rank then v1.type else v2.type := by
  simp only [rankSelect]
  by_cases h : v1.type.rank > v2.type.rank
  · simp [h]
  · by_cases h2 : v1.type = v2.type
    · simp [h2]
    · simp [h, h2]

/-- if the operand types differ the `ternary` exception for a `BOOL` result cannot fire -/
theorem rankSelect_ne_bool (v1 v2 : VT) (h : v1.type ≠ v2.type) : (rankSelect v1 (some v2)).type ≠ .bool := by
  rw [rankSelect_type]
  rcases v1 with ⟨t1, s1⟩
  rcases v2 with ⟨t2, s2⟩
  cases t1 <;> cases t2 <;> simp [VType.rank] at h ⊢

theorem block_ternary_irrelevant (v : Variant) (s : Shape) (i : Bool) (v1 v2 : VT) (h : v1.type ≠ v2.type) :
    integralBlock v s true i v1 (some v2) = integralBlock v s false i v1 (some v2) := by
  have hb := rankSelect_ne_bool v1 v2 h
  cases v <;> simp [integralBlock, integralBlockBase, integralBlockFix, hb]

/-- `c ? a : b` with operands of different `ValueType::Type` is typed like `a + b` -/
theorem ternary_eq_arith (v : Variant) (s : Shape) (cpp : Bool) (v1 v2 : VT) (h : v1.type ≠ v2.type) :
    convTernary v s cpp v1 v2 = convCls v s cpp .arith v1 v2 := by
  have hne : (v1.type == v2.type) = false := by simpa using h
  cases v <;> simp [convTernary, convCls, hne, block_ternary_irrelevant _ s false v1 v2 h]

/-! ## binary arithmetic operators -/

theorem CT.mem_ints (t : CT) (h : t.isFloating = false) : t ∈ CT.ints := by
  cases t <;> first | decide | (simp [CT.isFloating] at h)

/-- a table over (shape, t1, t2) with integer types -/
theorem table3i {p : Shape → CT → CT → Bool}
    (h : (Shape.consistentAll.all fun s => CT.ints.all fun a => CT.ints.all fun b => p s a b) = true) :
    ∀ s, s.consistent = true → ∀ a b, a.isFloating = false → b.isFloating = false → p s a b = true := by
  intro s hs a b ha hb
  have h1 := List.all_eq_true.mp h s (Shape.mem_consistentAll s hs)
  have h2 := List.all_eq_true.mp h1 a (CT.mem_ints a ha)
  exact List.all_eq_true.mp h2 b (CT.mem_ints b hb)

/-- a floating operand: every state of the code and 6.3.1.8 give the floating type of the highest rank
    (no platform question is asked, so this needs no table over shapes) -/
theorem arith_floating (v : Variant) (s : Shape) (a b : CT) (h : a.isFloating = true ∨ b.isFloating = true) :
    convCls v s false .arith (declVT a) (declVT b) = some (asVT (uac s a b)) := by
  cases a <;> cases b <;> first | rfl | (simp [CT.isFloating] at h)

/-- K1 never holds with a floating operand, K2 never for a floating type -/
theorem k1_floating (s : Shape) (a b : CT) (h : a.isFloating = true ∨ b.isFloating = true) :
    sameSizeDifferentRankMixedSign s a b = false := by
  rcases h with h | h <;> simp [sameSizeDifferentRankMixedSign, h]

/-- the code as pinned, integer operands (all consistent shapes × all pairs): inside K1 the model differs from
    6.3.1.8; outside K1, K2(t1), K2(t2) it agrees -/
theorem arith_base_tab : (Shape.consistentAll.all fun s => CT.ints.all fun a => CT.ints.all fun b =>
    let r := same (convCls .base s false .arith (declVT a) (declVT b)) (some (asVT (uac s a b)))
    if sameSizeDifferentRankMixedSign s a b then !r else (promotesToUnsigned s a || promotesToUnsigned s b || r)) = true := by
  decide +kernel

/-- the patched code agrees with 6.3.1.8 on all integer operands -/
theorem arith_fix_tab : (Shape.consistentAll.all fun s => CT.ints.all fun a => CT.ints.all fun b =>
    same (convCls .fixA s false .arith (declVT a) (declVT b)) (some (asVT (uac s a b)))) = true := by decide +kernel

/-! ## shifts, unary minus, `~` (tables over shapes × one type) -/

/-- the type taken from the left operand: as pinned `signed int` for everything below `int`; equal to the promoted
    type outside K2 / with the patch -/
theorem shift_tab : (Shape.consistentAll.all fun s => CT.all.all fun a =>
    a.isFloating ||
    (Variant.all.all fun v =>
      (v != .base || vcode (shiftResult v s (declVT a)) == vcode (if belowInt a then ⟨.int, .signed⟩ else declVT a)) &&
      ((v == .base && promotesToUnsigned s a) || vcode (shiftResult v s (declVT a)) == vcode (asVT (promote s a))))) = true := by
  decide +kernel

theorem unary_tab : (Shape.consistentAll.all fun s => CT.all.all fun a =>
    Variant.all.all fun v =>
      ((v == .base && promotesToUnsigned s a) || same (convUn v s .neg (declVT a)) (some (asVT (promote s a)))) &&
      (a.isFloating || (v == .base && promotesToUnsigned s a) ||
        same (convUn v s .bnot (declVT a)) (some (asVT (promote s a)))) &&
      (v != .base || !belowInt a ||
        (same (convUn v s .neg (declVT a)) (some ⟨.int, .signed⟩) && same (convUn v s .bnot (declVT a)) (some ⟨.int, .signed⟩)))) = true := by
  decide +kernel

/-! ## `++` / `--` -/

def incdecOps : List UnOp := [.preInc, .preDec, .postInc, .postDec]

/-- as pinned and with the first patch only: the operand type is kept iff it is not below `int`;
    with the second patch: always (operands other than `bool`) -/
theorem incdec_tab : (Shape.consistentAll.all fun s => CT.all.all fun a =>
    a == .bool || (incdecOps.all fun op =>
      same (convUn .fixAB s op (declVT a)) (some (declVT a)) &&
      ([Variant.base, Variant.fixA].all fun v =>
        if belowInt a then !same (convUn v s op (declVT a)) (some (declVT a))
        else same (convUn v s op (declVT a)) (some (declVT a))))) = true := by decide +kernel

/-! ## `?:` with operands of one `ValueType::Type` (the other pairs reduce to the arithmetic table) -/

/-- as pinned and with the first patch: the type of the second operand is kept, which is what the language says
    exactly when the operand types are identical and (C++ or not below `int`);
    with both patches: the language's type except for `_Bool ? _Bool : _Bool` in C (kept `bool`, class K3) -/
theorem ternary_same_tab : (Shape.consistentAll.all fun s => CT.all.all fun a => CT.all.all fun b =>
    !sameVType a b || (bools.all fun cpp =>
      let sp := some (asVT (specTernary s cpp a b))
      ([Variant.base, Variant.fixA].all fun v =>
        same (convTernary v s cpp (declVT a) (declVT b)) (some (declVT a)) &&
        (!(a == b && (cpp || !belowInt a)) || same (convTernary v s cpp (declVT a) (declVT b)) sp)) &&
      ((!cpp && a == .bool && b == .bool) || same (convTernary .fixAB s cpp (declVT a) (declVT b)) sp))) = true := by
  decide +kernel

/-! ## the tables as ∀-statements -/

theorem k2_floating (s : Shape) (a : CT) (h : a.isFloating = true) : promotesToUnsigned s a = false := by
  cases a <;> first | rfl | (simp [CT.isFloating] at h)

theorem isFloating_cases (a b : CT) :
    (a.isFloating = true ∨ b.isFloating = true) ∨ (a.isFloating = false ∧ b.isFloating = false) := by
  cases a.isFloating <;> cases b.isFloating <;> simp

/-- as pinned, `+ - * / %`: outside K1/K2 the model gives the 6.3.1.8 type -/
theorem arith_base_partial (s : Shape) (hs : s.consistent = true) (a b : CT)
    (h1 : sameSizeDifferentRankMixedSign s a b = false) (h2 : promotesToUnsigned s a = false)
    (h3 : promotesToUnsigned s b = false) :
    convCls .base s false .arith (declVT a) (declVT b) = some (asVT (uac s a b)) := by
  rcases isFloating_cases a b with hf | ⟨ha, hb⟩
  · exact arith_floating .base s a b hf
  · have := table3i arith_base_tab s hs a b ha hb
    simp only [h1, h2, h3, Bool.false_or] at this
    exact (same_iff _ _).mp (by simpa using this)

/-- as pinned: inside K1 the model never gives the 6.3.1.8 type -/
theorem arith_base_k1 (s : Shape) (hs : s.consistent = true) (a b : CT)
    (h1 : sameSizeDifferentRankMixedSign s a b = true) :
    convCls .base s false .arith (declVT a) (declVT b) ≠ some (asVT (uac s a b)) := by
  rcases isFloating_cases a b with hf | ⟨ha, hb⟩
  · rw [k1_floating s a b hf] at h1; cases h1
  · have := table3i arith_base_tab s hs a b ha hb
    simp only [h1, if_true] at this
    exact (same_false_iff _ _).mp (by simpa using this)

/-- patched: the model gives the 6.3.1.8 type for all operands -/
theorem arith_fix_all (s : Shape) (hs : s.consistent = true) (a b : CT) :
    convCls .fixA s false .arith (declVT a) (declVT b) = some (asVT (uac s a b)) := by
  rcases isFloating_cases a b with hf | ⟨ha, hb⟩
  · exact arith_floating .fixA s a b hf
  · exact (same_iff _ _).mp (table3i arith_fix_tab s hs a b ha hb)

theorem bit_intOnly (op : BinOp) (h : op.cls = .bit) : op.intOnly = true := by
  cases op <;> first | rfl | (simp [BinOp.cls] at h)

theorem shift_intOnly (op : BinOp) (h : op.cls = .shift) : op.intOnly = true := by
  cases op <;> first | rfl | (simp [BinOp.cls] at h)

theorem wellTyped_ints (op : BinOp) (a b : CT) (hi : op.intOnly = true) (h : wellTypedBin op a b = true) :
    a.isFloating = false ∧ b.isFloating = false := by
  simpa [wellTypedBin, hi] using h

/-! ## maxima of a platform with ordered sizes -/

theorem maxValue_mono {a b : Nat} (h : a ≤ b) : maxValue a ≤ maxValue b := by
  unfold maxValue
  by_cases hb : b ≥ 64
  · by_cases ha : a ≥ 64
    · simp [ha, hb]
    · simp only [ha, hb, if_true, if_false]
      have : 2 ^ (a - 1) ≤ 2 ^ 63 := Nat.pow_le_pow_right (by decide) (by omega)
      omega
  · have ha : ¬ a ≥ 64 := by omega
    simp only [ha, hb, if_false]
    have : 2 ^ (a - 1) ≤ 2 ^ (b - 1) := Nat.pow_le_pow_right (by decide) (by omega)
    omega

theorem lmax_le_llmax_of_sane (P : Plat) (h : sane P = true) : lmaxOf P ≤ llmaxOf P := by
  simp only [sane, Bool.and_eq_true, decide_eq_true_eq] at h
  exact maxValue_mono (Nat.mul_le_mul_left _ h.1.1.1.2)

/-- a literal that has a type fits the widest candidate of its list -/
theorem litSpec_some_fits (imax lmax llmax value longs : Nat) (base : Base) (us : Bool) (t : CT)
    (hm1 : imax ≤ lmax) (hm2 : lmax ≤ llmax) (hl : longs ≤ 2)
    (h : litSpec imax lmax llmax base us longs value = some t) :
    value ≤ 2 * llmax + 1 ∧ (base = .dec → us = false → value ≤ llmax) := by
  have hl' : longs = 0 ∨ longs = 1 ∨ longs = 2 := by omega
  rcases hl' with rfl | rfl | rfl <;> cases base <;> cases us <;>
    simp [litSpec, firstFit] at h ⊢ <;>
    (repeat' (split at h)) <;> first | omega | (simp at h)

theorem imax_le_lmax_of_sane (P : Plat) (h : sane P = true) : imaxOf P ≤ lmaxOf P := by
  simp only [sane, Bool.and_eq_true, decide_eq_true_eq] at h
  exact maxValue_mono (Nat.mul_le_mul_left _ h.1.1.1.1.2)

end Cppcheck.ConvSpec

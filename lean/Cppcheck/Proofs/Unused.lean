import Cppcheck.Proofs.CtuChecks
import Cppcheck.Model.Unused
/-
C22 — unused-function analysis: the two algorithms agree (under explicit hypotheses).
-/
namespace Cppcheck.Unused
open Cppcheck.Wire Cppcheck.Ctu

section AMap
variable {β : Type}

/-- characterisation of `amGet?` by recursion -/
theorem amGet?_cons (a : Str × β) (r : List (Str × β)) (x : Str) : amGet? (a :: r) x = if a.1 = x then some a.2 else amGet? r x := by
  unfold amGet?
  rw [List.find?_cons]
  by_cases h : a.1 = x
  · simp [h]
  · have : (a.1 == x) = false := by simpa using h
    simp [this, h]

theorem amGet?_nil (x : Str) : amGet? ([] : List (Str × β)) x = none := rfl

theorem amGet?_append_single (m : List (Str × β)) (k x : Str) (v : β) (h : k ∉ amKeys m) :
    amGet? (m ++ [(k, v)]) x = if x = k then some v else amGet? m x := by
  induction m with
  | nil =>
    simp only [List.nil_append, amGet?_cons, amGet?_nil]
    by_cases hx : x = k
    · simp [hx]
    · have : ¬ k = x := fun e => hx e.symm
      simp [hx, this]
  | cons a r ih =>
    have hak : a.1 ≠ k := fun e => h (by simp [amKeys, e])
    have hr : k ∉ amKeys r := fun e => h (by simp only [amKeys, List.map_cons, List.mem_cons]; exact Or.inr e)
    rw [List.cons_append, amGet?_cons, amGet?_cons, ih hr]
    by_cases hax : a.1 = x
    · have : x ≠ k := fun e => hak (hax.trans e)
      simp [hax, this]
    · simp [hax]

theorem amGet?_map_set (m : List (Str × β)) (k x : Str) (v : β) :
    amGet? (m.map fun e => if e.1 == k then (k, v) else e) x = if x = k then (if k ∈ amKeys m then some v else none) else amGet? m x := by
  induction m with
  | nil => simp [amGet?_nil, amKeys]
  | cons a r ih =>
    rw [List.map_cons, amGet?_cons, amGet?_cons, ih]
    by_cases hak : a.1 = k
    · have hb : (a.1 == k) = true := by simpa using hak
      simp only [hb, if_true, amKeys, List.map_cons, List.mem_cons, hak, true_or]
      by_cases hx : x = k
      · simp [hx]
      · have : ¬ k = x := fun e => hx e.symm
        simp [hx, this]
    · have hb : (a.1 == k) = false := by simpa using hak
      simp only [hb, Bool.false_eq_true, if_false, amKeys, List.map_cons, List.mem_cons]
      by_cases hax : a.1 = x
      · have : x ≠ k := fun e => hak (hax.trans e)
        simp [hax, this]
      · have hk : ¬ k = a.1 := fun e => hak e.symm
        simp only [hax, if_false, hk, false_or]
        rfl

theorem any_key_iff (m : List (Str × β)) (k : Str) : (m.any fun e => e.1 == k) = true ↔ k ∈ amKeys m := by
  simp only [amKeys, List.any_eq_true, List.mem_map, beq_iff_eq]

theorem amSet_eq (m : List (Str × β)) (k : Str) (v : β) :
    amSet m k v = if k ∈ amKeys m then m.map (fun e => if e.1 == k then (k, v) else e) else m ++ [(k, v)] := by
  unfold amSet
  by_cases h : k ∈ amKeys m
  · simp [h, (any_key_iff m k).mpr h]
  · have : (m.any fun e => e.1 == k) = false := by
      cases hb : (m.any fun e => e.1 == k) with
      | true => exact absurd ((any_key_iff m k).mp hb) h
      | false => rfl
    simp [h, this]

theorem amGet?_set (m : List (Str × β)) (k x : Str) (v : β) : amGet? (amSet m k v) x = if x = k then some v else amGet? m x := by
  rw [amSet_eq]
  by_cases h : k ∈ amKeys m
  · simp only [h, if_true]; rw [amGet?_map_set]; simp [h]
  · simp only [h, if_false]; exact amGet?_append_single m k x v h

theorem amKeys_set (m : List (Str × β)) (k : Str) (v : β) :
    amKeys (amSet m k v) = if k ∈ amKeys m then amKeys m else amKeys m ++ [k] := by
  rw [amSet_eq]
  by_cases h : k ∈ amKeys m
  · simp only [h, if_true]
    unfold amKeys
    rw [List.map_map]
    apply List.map_congr_left
    intro a _
    simp only [Function.comp]
    by_cases hak : a.1 = k
    · simp [hak]
    · have : (a.1 == k) = false := by simpa using hak
      simp [this]
  · simp only [h, if_false]
    simp [amKeys]

theorem amKeys_set_nodup (m : List (Str × β)) (k : Str) (v : β) (h : (amKeys m).Nodup) : (amKeys (amSet m k v)).Nodup := by
  rw [amKeys_set]
  split
  · exact h
  · rename_i hk
    rw [List.nodup_append]
    refine ⟨h, by simp, ?_⟩
    intro a ha b hb
    simp only [List.mem_cons, List.mem_nil_iff, or_false] at hb
    subst hb
    exact fun e => hk (e ▸ ha)

theorem mem_keys_iff_get (m : List (Str × β)) (k : Str) : k ∈ amKeys m ↔ (amGet? m k).isSome = true := by
  induction m with
  | nil => simp [amKeys, amGet?_nil]
  | cons a r ih =>
    rw [amGet?_cons]
    simp only [amKeys, List.map_cons, List.mem_cons] at ih ⊢
    by_cases hak : a.1 = k
    · simp [hak]
    · have : ¬ k = a.1 := fun e => hak e.symm
      simp [hak, this, ih]

theorem mem_of_get (m : List (Str × β)) (k : Str) (v : β) (h : amGet? m k = some v) : (k, v) ∈ m := by
  induction m with
  | nil => simp [amGet?_nil] at h
  | cons a r ih =>
    rw [amGet?_cons] at h
    by_cases hak : a.1 = k
    · simp only [hak, if_true, Option.some.injEq] at h
      exact List.mem_cons.mpr (Or.inl (by rw [← hak, ← h]))
    · simp only [hak, if_false] at h
      exact List.mem_cons_of_mem _ (ih h)

theorem get_of_mem (m : List (Str × β)) (k : Str) (v : β) (hn : (amKeys m).Nodup) (h : (k, v) ∈ m) : amGet? m k = some v := by
  induction m with
  | nil => simp at h
  | cons a r ih =>
    simp only [amKeys, List.map_cons, List.nodup_cons] at hn
    rw [amGet?_cons]
    rcases List.mem_cons.mp h with e | e
    · subst e; simp
    · have : a.1 ≠ k := by
        intro e2
        exact hn.1 (by rw [e2]; exact List.mem_map.mpr ⟨(k, v), e, rfl⟩)
      simp only [this, if_false]
      exact ih hn.2 e

end AMap

theorem mem_setInsert (s : List Str) (x y : Str) : x ∈ setInsert s y ↔ x ∈ s ∨ x = y := by
  induction s with
  | nil => simp [setInsert]
  | cons a r ih =>
    simp only [setInsert]
    by_cases h1 : y = a
    · subst h1
      simp only [if_true, List.mem_cons]
      constructor
      · exact Or.inl
      · rintro (h | h); exact h; exact Or.inl h
    · simp only [h1, if_false]
      cases h2 : strLt y a with
      | true =>
        simp only [if_true, List.mem_cons]
        constructor
        · rintro (h | h | h)
          · exact Or.inr h
          · exact Or.inl (Or.inl h)
          · exact Or.inl (Or.inr h)
        · rintro ((h | h) | h)
          · exact Or.inr (Or.inl h)
          · exact Or.inr (Or.inr h)
          · exact Or.inl h
      | false =>
        simp only [Bool.false_eq_true, if_false, List.mem_cons, ih]
        constructor
        · rintro (h | h | h)
          · exact Or.inl (Or.inl h)
          · exact Or.inl (Or.inr h)
          · exact Or.inr h
        · rintro ((h | h) | h)
          · exact Or.inl h
          · exact Or.inr (Or.inl h)
          · exact Or.inr (Or.inr h)

theorem mem_foldl_setInsert (l s : List Str) (x : Str) : x ∈ l.foldl setInsert s ↔ x ∈ s ∨ x ∈ l := by
  induction l generalizing s with
  | nil => simp
  | cons a r ih =>
    simp only [List.foldl_cons, ih, mem_setInsert, List.mem_cons]
    constructor
    · rintro ((h | h) | h)
      · exact Or.inl h
      · exact Or.inr (Or.inl h)
      · exact Or.inr (Or.inr h)
    · rintro (h | h | h)
      · exact Or.inl (Or.inl h)
      · exact Or.inl (Or.inr h)
      · exact Or.inr h

theorem mem_callSet (t : TU) (x : Str) : x ∈ callSet t ↔ x ∈ t.calls.map (·.name) := by
  unfold callSet
  have key : ∀ (l : List CallEv) (s : List Str), x ∈ l.foldl (fun s c => setInsert s c.name) s ↔ x ∈ s ∨ x ∈ l.map (·.name) := by
    intro l
    induction l with
    | nil => intro s; simp
    | cons a r ih =>
      intro s
      simp only [List.foldl_cons, ih, mem_setInsert, List.map_cons, List.mem_cons]
      constructor
      · rintro ((h | h) | h)
        · exact Or.inl h
        · exact Or.inr (Or.inl h)
        · exact Or.inr (Or.inr h)
      · rintro (h | h | h)
        · exact Or.inl (Or.inl h)
        · exact Or.inl (Or.inr h)
        · exact Or.inr h
  have := key t.calls []
  simpa using this

theorem strip_id (n : Str) (h : n.contains '<' = false) : strip n = n := by
  unfold strip
  have : n.takeWhile (· ≠ '<') = n := by
    apply Cppcheck.Ctu.takeWhile_all
    apply List.all_eq_true.mpr
    intro c hc
    simp only [ne_eq, decide_not, Bool.not_eq_true', decide_eq_false_iff_not]
    intro e
    subst e
    have : n.contains '<' = true := by simpa using hc
    rw [this] at h; exact absurd h (by decide)
  rw [this]
  simp

theorem lookup_update (m : FMap) (k x : Str) (u : Usage) : lookup (update m k u) x = if x = k then u else lookup m x := by
  unfold lookup update
  rw [amGet?_set]
  split <;> rfl

theorem lookup_absent (m : FMap) (k : Str) (h : k ∉ amKeys m) : lookup m k = {} := by
  unfold lookup
  cases hg : amGet? m k with
  | none => rfl
  | some v =>
    exfalso
    apply h
    rw [mem_keys_iff_get, hg]; rfl


/-! ## hypotheses -/

def declLoc (d : Decl) : Str × Int × Int := (d.file, d.line, d.col)

def allDecls (tus : List TU) : List Decl := tus.flatMap (·.decls)

/-- hypotheses of the equivalence theorem, all decidable:
    * declared names contain no '<' (so `stripTemplateParameters` is the identity on them),
    * no definition has the `unused` attribute on its return type token,
    * locations are real (line ≠ 0, file name neither empty nor "+"),
    * all definitions of one name are at one location -/
def UnusedHyp (tus : List TU) : Bool :=
  (allDecls tus).all (fun d => !(d.name.contains '<') && !d.retUnused && decide (d.line ≠ 0) && decide (d.file ≠ []) && decide (d.file ≠ ['+']))
  && (allDecls tus).all (fun d => (allDecls tus).all fun d' => decide (d.name = d'.name → declLoc d = declLoc d'))

/-! ## what one event does to the in-memory record -/

theorem applyDecl_spec (m : FMap) (d : Decl) (hk : strip d.name = d.name) (hret : d.retUnused = false) :
    ∃ u1 : Usage, applyDecl m d = update m d.name u1
      ∧ (u1.usedSameFile || u1.usedOtherFile) = ((lookup m d.name).usedSameFile || (lookup m d.name).usedOtherFile)
      ∧ u1.line = (if (lookup m d.name).line = 0 then d.line else (lookup m d.name).line)
      ∧ u1.col = (if (lookup m d.name).line = 0 then d.col else (lookup m d.name).col)
      ∧ u1.filename = (if (lookup m d.name).filename = [] then d.file else (lookup m d.name).filename) := by
  unfold applyDecl
  simp only [hk, hret, Bool.or_false]
  refine ⟨_, rfl, ?_, rfl, rfl, rfl⟩
  simp only
  split <;> cases (lookup m d.name).usedSameFile <;> cases (lookup m d.name).usedOtherFile <;> rfl

theorem applyCall_spec (m : FMap) (ev : CallEv) :
    ∃ u1 : Usage, applyCall m ev = update m ev.name u1
      ∧ (u1.usedSameFile || u1.usedOtherFile) = true
      ∧ u1.line = (lookup m ev.name).line ∧ u1.col = (lookup m ev.name).col ∧ u1.filename = (lookup m ev.name).filename := by
  unfold applyCall
  generalize lookup m ev.name = u0
  simp only
  by_cases h : u0.filename = [] ∨ u0.filename = ['+'] ∨ u0.filename ≠ ev.fromFile
  · rw [if_pos h]; exact ⟨_, rfl, by simp, rfl, rfl, rfl⟩
  · rw [if_neg h]; exact ⟨_, rfl, by simp, rfl, rfl, rfl⟩

/-! ## the invariant relating the two states -/

structure Inv (ds : List Decl) (m : FMap) (c : Collected) : Prop where
  mkeys : (amKeys m).Nodup
  dkeys : (amKeys c.decls).Nodup
  called : ∀ n, n ∈ c.calls ↔ (n ∈ amKeys m ∧ ((lookup m n).usedSameFile || (lookup m n).usedOtherFile) = true)
  declared : ∀ n, n ∈ amKeys c.decls ↔ (n ∈ amKeys m ∧ (lookup m n).filename ≠ [])
  loc : ∀ n, n ∈ amKeys c.decls → amGet? c.decls n = some ((lookup m n).filename, (lookup m n).line, (lookup m n).col)
  fromDecl : ∀ n, n ∈ amKeys c.decls → ∃ d ∈ ds, d.name = n ∧ amGet? c.decls n = some (declLoc d)
  line0 : ∀ n, (lookup m n).filename = [] → (lookup m n).line = 0
  notPlus : ∀ n, (lookup m n).filename ≠ ['+']

theorem inv_empty (ds : List Decl) : Inv ds [] ⟨[], []⟩ := by
  refine ⟨by simp [amKeys], by simp [amKeys], ?_, ?_, ?_, ?_, ?_, ?_⟩
  · intro n; simp [amKeys]
  · intro n; simp [amKeys]
  · intro n h; simp [amKeys] at h
  · intro n h; simp [amKeys] at h
  · intro n _; rfl
  · intro n; simp [lookup, amGet?]

/-- hypotheses on one definition, relative to the set `ds` of all definitions of the program -/
structure DeclOk (ds : List Decl) (d : Decl) : Prop where
  mem : d ∈ ds
  noLt : d.name.contains '<' = false
  noRet : d.retUnused = false
  line : d.line ≠ 0
  file : d.file ≠ []
  plus : d.file ≠ ['+']
  same : ∀ d' ∈ ds, d'.name = d.name → declLoc d' = declLoc d

theorem mem_keys_update (m : FMap) (k x : Str) (u : Usage) : x ∈ amKeys (update m k u) ↔ (x ∈ amKeys m ∨ x = k) := by
  unfold update; rw [amKeys_set]
  split
  · rename_i h; constructor
    · exact Or.inl
    · rintro (h1 | h1)
      · exact h1
      · subst h1; exact h
  · simp

theorem mem_keys_declInsert (m : List (Str × (Str × Int × Int))) (k x : Str) (v : Str × Int × Int) :
    x ∈ amKeys (declInsert m k v) ↔ (x ∈ amKeys m ∨ x = k) := by
  unfold declInsert; rw [amKeys_set]
  split
  · rename_i h; constructor
    · exact Or.inl
    · rintro (h1 | h1)
      · exact h1
      · subst h1; exact h
  · simp

theorem inv_decl (ds : List Decl) (m : FMap) (c : Collected) (d : Decl) (hd : DeclOk ds d) (inv : Inv ds m c) :
    Inv ds (applyDecl m d) { c with decls := declInsert c.decls d.name (declLoc d) } := by
  obtain ⟨u1, happ, hflag, hline, hcol, hfile⟩ := applyDecl_spec m d (strip_id _ hd.noLt) hd.noRet
  rw [happ]
  have hsetm : ∀ x, lookup (update m d.name u1) x = if x = d.name then u1 else lookup m x := fun x => lookup_update _ _ _ _
  have hgetd : ∀ x, amGet? (declInsert c.decls d.name (declLoc d)) x = if x = d.name then some (declLoc d) else amGet? c.decls x := by
    intro x; unfold declInsert; exact amGet?_set _ _ _ _
  -- the new record carries the location of `d`
  have hnew : u1.filename = d.file ∧ u1.line = d.line ∧ u1.col = d.col := by
    by_cases hdecl : d.name ∈ amKeys c.decls
    · have hm := (inv.declared d.name).mp hdecl
      have hloc := inv.loc d.name hdecl
      obtain ⟨d', hd'mem, hd'name, hd'loc⟩ := inv.fromDecl d.name hdecl
      rw [hd.same d' hd'mem hd'name, hloc] at hd'loc
      have heq := Option.some.inj hd'loc
      simp only [declLoc, Prod.mk.injEq] at heq
      have hl : (lookup m d.name).line ≠ 0 := by rw [heq.2.1]; exact hd.line
      rw [hfile, hline, hcol]
      simp only [hm.2, hl, if_false]
      exact heq
    · have hfn : (lookup m d.name).filename = [] := by
        by_cases hmem : d.name ∈ amKeys m
        · by_cases hf : (lookup m d.name).filename = []
          · exact hf
          · exact absurd ((inv.declared d.name).mpr ⟨hmem, hf⟩) hdecl
        · rw [lookup_absent m _ hmem]
      have hl0 := inv.line0 d.name hfn
      rw [hfile, hline, hcol]
      simp [hfn, hl0]
  refine ⟨amKeys_set_nodup _ _ _ inv.mkeys, amKeys_set_nodup _ _ _ inv.dkeys, ?_, ?_, ?_, ?_, ?_, ?_⟩
  · intro n
    simp only [mem_keys_update, hsetm, inv.called n]
    by_cases hn : n = d.name
    · subst hn
      simp only [if_true, hflag, or_true, true_and]
      constructor
      · exact fun h => h.2
      · intro h
        refine ⟨?_, h⟩
        apply Classical.byContradiction
        intro hmem
        rw [lookup_absent m _ hmem] at h
        simp at h
    · simp [hn]
  · intro n
    simp only [mem_keys_update, mem_keys_declInsert, hsetm, inv.declared n]
    by_cases hn : n = d.name
    · subst hn; simp [hnew.1, hd.file]
    · simp [hn]
  · intro n hn
    rw [hgetd, hsetm]
    by_cases hnn : n = d.name
    · subst hnn; simp [declLoc, hnew.1, hnew.2.1, hnew.2.2]
    · simp only [hnn, if_false]
      exact inv.loc n (by
        rcases (mem_keys_declInsert _ _ _ _).mp hn with h | h
        · exact h
        · exact absurd h hnn)
  · intro n hn
    rw [hgetd]
    by_cases hnn : n = d.name
    · subst hnn; exact ⟨d, hd.mem, rfl, by simp⟩
    · simp only [hnn, if_false]
      exact inv.fromDecl n (by
        rcases (mem_keys_declInsert _ _ _ _).mp hn with h | h
        · exact h
        · exact absurd h hnn)
  · intro n
    rw [hsetm]
    by_cases hnn : n = d.name
    · subst hnn; simp only [if_true, hnew.1]; intro h; exact absurd h hd.file
    · simp only [hnn, if_false]; exact inv.line0 n
  · intro n
    rw [hsetm]
    by_cases hnn : n = d.name
    · subst hnn; simp only [if_true, hnew.1]; exact hd.plus
    · simp only [hnn, if_false]; exact inv.notPlus n

theorem inv_call (ds : List Decl) (m : FMap) (c : Collected) (ev : CallEv) (calls' : List Str)
    (hc : ∀ x, x ∈ calls' ↔ (x ∈ c.calls ∨ x = ev.name)) (inv : Inv ds m c) :
    Inv ds (applyCall m ev) { c with calls := calls' } := by
  obtain ⟨u1, happ, u1flag, u1l, u1c, u1f⟩ := applyCall_spec m ev
  rw [happ]
  have hsetm : ∀ x, lookup (update m ev.name u1) x = if x = ev.name then u1 else lookup m x := fun x => lookup_update _ _ _ _
  refine ⟨amKeys_set_nodup _ _ _ inv.mkeys, inv.dkeys, ?_, ?_, ?_, ?_, ?_, ?_⟩
  · intro n
    simp only [hc, mem_keys_update, hsetm, inv.called n]
    by_cases hn : n = ev.name
    · subst hn; simp [u1flag]
    · simp [hn]
  · intro n
    simp only [mem_keys_update, hsetm, inv.declared n]
    by_cases hn : n = ev.name
    · subst hn
      simp only [if_true, u1f, or_true, true_and]
      constructor
      · exact fun h => h.2
      · intro h
        refine ⟨?_, h⟩
        apply Classical.byContradiction
        intro hmem
        rw [lookup_absent m _ hmem] at h
        exact h rfl
    · simp [hn]
  · intro n hn
    simp only [hsetm]
    rw [inv.loc n hn]
    by_cases hnn : n = ev.name
    · subst hnn; simp [u1f, u1l, u1c]
    · simp [hnn]
  · exact inv.fromDecl
  · intro n
    rw [hsetm]
    by_cases hnn : n = ev.name
    · rw [hnn]; simp only [if_true, u1f, u1l]; exact inv.line0 ev.name
    · simp only [hnn, if_false]; exact inv.line0 n
  · intro n
    rw [hsetm]
    by_cases hnn : n = ev.name
    · rw [hnn]; simp only [if_true, u1f]; exact inv.notPlus ev.name
    · simp only [hnn, if_false]; exact inv.notPlus n

theorem inv_decls (ds : List Decl) : ∀ (l : List Decl) (m : FMap) (c : Collected), (∀ d ∈ l, DeclOk ds d) → Inv ds m c →
    Inv ds (l.foldl applyDecl m) { c with decls := l.foldl (fun mm d => declInsert mm d.name (d.file, d.line, d.col)) c.decls } := by
  intro l
  induction l with
  | nil => intro m c _ inv; exact inv
  | cons d r ih =>
    intro m c h inv
    exact ih (applyDecl m d) { c with decls := declInsert c.decls d.name (declLoc d) } (fun x hx => h x (by simp [hx]))
      (inv_decl ds m c d (h d (by simp)) inv)

theorem inv_calls (ds : List Decl) : ∀ (l : List CallEv) (m : FMap) (c : Collected) (calls' : List Str),
    (∀ x, x ∈ calls' ↔ (x ∈ c.calls ∨ x ∈ l.map (·.name))) → Inv ds m c →
    Inv ds (l.foldl applyCall m) { c with calls := calls' } := by
  intro l
  induction l with
  | nil =>
    intro m c calls' hc inv
    simp only [List.map_nil, List.not_mem_nil, or_false] at hc
    refine ⟨inv.mkeys, inv.dkeys, ?_, inv.declared, inv.loc, inv.fromDecl, inv.line0, inv.notPlus⟩
    intro n; rw [hc]; exact inv.called n
  | cons ev r ih =>
    intro m c calls' hc inv
    have step := inv_call ds m c ev (setInsert c.calls ev.name) (fun x => mem_setInsert _ _ _) inv
    refine ih (applyCall m ev) { c with calls := setInsert c.calls ev.name } calls' ?_ step
    intro x
    rw [hc, mem_setInsert]
    simp only [List.map_cons, List.mem_cons]
    constructor
    · rintro (h | h | h)
      · exact Or.inl (Or.inl h)
      · exact Or.inl (Or.inr h)
      · exact Or.inr h
    · rintro ((h | h) | h)
      · exact Or.inl h
      · exact Or.inr (Or.inl h)
      · exact Or.inr (Or.inr h)

theorem inv_tus (ds : List Decl) : ∀ (tus : List TU) (m : FMap) (c : Collected), (∀ t ∈ tus, ∀ d ∈ t.decls, DeclOk ds d) → Inv ds m c →
    Inv ds (tus.foldl applyTU m) (tus.foldl collectTU c) := by
  intro tus
  induction tus with
  | nil => intro m c _ inv; exact inv
  | cons t r ih =>
    intro m c h inv
    simp only [List.foldl_cons]
    apply ih _ _ (fun x hx => h x (by simp [hx]))
    unfold applyTU collectTU
    have h1 := inv_decls ds t.decls m c (h t (by simp)) inv
    exact inv_calls ds t.calls _ _ ((callSet t).foldl setInsert c.calls)
      (by intro x; rw [mem_foldl_setInsert, mem_callSet]) h1

theorem declOk_of_hyp (tus : List TU) (h : UnusedHyp tus = true) : ∀ t ∈ tus, ∀ d ∈ t.decls, DeclOk (allDecls tus) d := by
  simp only [UnusedHyp, Bool.and_eq_true] at h
  intro t ht d hd
  have hmem : d ∈ allDecls tus := List.mem_flatMap.mpr ⟨t, ht, hd⟩
  have h1 := List.all_eq_true.mp h.1 d hmem
  simp only [Bool.and_eq_true, Bool.not_eq_true', decide_eq_true_eq] at h1
  obtain ⟨⟨⟨⟨a, b⟩, c⟩, e⟩, f⟩ := h1
  refine ⟨hmem, a, b, c, e, f, ?_⟩
  intro d' hd' hname
  have := List.all_eq_true.mp (List.all_eq_true.mp h.2 d' hd') d hmem
  simp only [decide_eq_true_eq] at this
  exact this hname

/-! ## the two result lists -/

theorem mem_unusedInMemory (entry : Str → Bool) (tus : List TU) (x : Finding) :
    x ∈ unusedInMemory entry tus ↔ ∃ e ∈ finalMap tus, (e.2.usedOtherFile = false ∧ e.2.filename ≠ [] ∧ entry e.1 = false ∧ e.2.usedSameFile = false
      ∧ isOperatorFunction e.1 = false) ∧ x = ⟨shownFile e.2.filename, e.2.line, e.2.col, e.1⟩ := by
  unfold unusedInMemory
  rw [List.mem_filterMap]
  constructor
  · rintro ⟨e, he, hx⟩
    refine ⟨e, he, ?_⟩
    by_cases h1 : e.2.usedOtherFile = true
    · simp [h1] at hx
    by_cases h2 : e.2.filename = []
    · simp [h2] at hx
    by_cases h3 : entry e.1 = true
    · simp [h1, h2, h3] at hx
    by_cases h4 : e.2.usedSameFile = true
    · simp [h1, h2, h3, h4] at hx
    by_cases h5 : isOperatorFunction e.1 = true
    · simp [h1, h2, h3, h4, h5] at hx
    simp only [Bool.not_eq_true] at h1 h3 h4 h5
    simp [h1, h2, h3, h4, h5] at hx
    exact ⟨⟨h1, h2, h3, h4, h5⟩, hx.symm⟩
  · rintro ⟨e, he, ⟨h1, h2, h3, h4, h5⟩, rfl⟩
    exact ⟨e, he, by simp [h1, h2, h3, h4, h5]⟩

theorem mem_checkCollected (entry : Str → Bool) (c : Collected) (x : Finding) :
    x ∈ checkCollected entry c ↔ ∃ e ∈ c.decls, (entry (strip e.1) = false ∧ strip e.1 ∉ c.calls ∧ isOperatorFunction (strip e.1) = false)
      ∧ x = ⟨e.2.1, e.2.2.1, e.2.2.2, strip e.1⟩ := by
  unfold checkCollected
  rw [List.mem_filterMap]
  constructor
  · rintro ⟨e, he, hx⟩
    refine ⟨e, he, ?_⟩
    by_cases h1 : entry (strip e.1) = true
    · simp [h1] at hx
    by_cases h2 : strip e.1 ∈ c.calls
    · simp [h1, h2] at hx
    by_cases h3 : isOperatorFunction (strip e.1) = true
    · simp [h1, h2, h3] at hx
    simp only [Bool.not_eq_true] at h1 h3
    simp [h1, h2, h3] at hx
    exact ⟨⟨h1, h2, h3⟩, hx.symm⟩
  · rintro ⟨e, he, ⟨h1, h2, h3⟩, rfl⟩
    exact ⟨e, he, by simp [h1, h2, h3]⟩

theorem nodup_filterMap_keys {β : Type} (m : List (Str × β)) (f : Str × β → Option Finding)
    (hn : (amKeys m).Nodup) (hf : ∀ e ∈ m, ∀ x, f e = some x → x.name = e.1) : (m.filterMap f).Nodup := by
  induction m with
  | nil => simp
  | cons a r ih =>
    simp only [amKeys, List.map_cons, List.nodup_cons] at hn
    have hr := ih hn.2 (fun e he => hf e (List.mem_cons_of_mem _ he))
    rw [List.filterMap_cons]
    cases hfa : f a with
    | none => exact hr
    | some x =>
      simp only
      rw [List.nodup_cons]
      refine ⟨?_, hr⟩
      intro hmem
      obtain ⟨e, he, hx⟩ := List.mem_filterMap.mp hmem
      have h1 := hf a (by simp) x hfa
      have h2 := hf e (List.mem_cons_of_mem _ he) x hx
      apply hn.1
      rw [← h1, h2]
      exact List.mem_map.mpr ⟨e, he, rfl⟩

end Cppcheck.Unused

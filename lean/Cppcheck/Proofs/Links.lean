import Cppcheck.Model.Links
/-
Helper lemmas for C14: loop invariant of the stack linker `Tokenizer::createLinks`.
-/
namespace Cppcheck.Links

def isBr (c : Char) : Prop := ∃ k, c = openOf k ∨ c = closeOf k

theorem openOf_inj {k k' : BK} (h : openOf k = openOf k') : k = k' := by
  cases k <;> cases k' <;> first | rfl | (exact absurd h (by decide))
theorem closeOf_inj {k k' : BK} (h : closeOf k = closeOf k') : k = k' := by
  cases k <;> cases k' <;> first | rfl | (exact absurd h (by decide))
theorem open_ne_close (k k' : BK) : openOf k ≠ closeOf k' := by
  cases k <;> cases k' <;> decide

theorem updStack_apply (f : BK → List Nat) (k : BK) (v : List Nat) (k' : BK) :
    updStack f k v k' = if k' = k then v else f k' := rfl
theorem updLink_apply (f : Nat → Option Nat) (i : Nat) (v : Option Nat) (j : Nat) :
    updLink f i v j = if j = i then v else f j := rfl

/-! ### what one loop iteration does -/

def push (st : LState) (k : BK) (i : Nat) (c : Char) : LState :=
  { st with links := updStack st.links k (i :: st.links k), type := (i, c) :: st.type }

def pop (st : LState) (k : BK) (i : Nat) : Except LErr LState :=
  match st.links k with
  | [] => .error (.unmatched i)
  | o :: lrest =>
    match st.type with
    | [] => .error .ub
    | (ti, tc) :: trest =>
      if tc ≠ openOf k then .error (.unmatched ti)
      else .ok { type := trest, links := updStack st.links k lrest,
                 link := updLink (updLink st.link o (some i)) i (some o) }

theorem linkBrackets_other (st : LState) (i : Nat) (c : Char) (k : BK) (h1 : c ≠ openOf k) (h2 : c ≠ closeOf k) :
    linkBrackets st i c k = .ok st := by
  simp [linkBrackets, h1, h2]

theorem linkBrackets_open (st : LState) (i : Nat) (k : BK) : linkBrackets st i (openOf k) k = .ok (push st k i (openOf k)) := by
  simp [linkBrackets, push]

theorem linkBrackets_close (st : LState) (i : Nat) (k : BK) : linkBrackets st i (closeOf k) k = pop st k i := by
  have := open_ne_close k k
  simp only [linkBrackets, this.symm, if_false, if_true, pop]
  rfl

theorem linkBrackets_of_open (st : LState) (i : Nat) (k k' : BK) :
    linkBrackets st i (openOf k) k' = if k' = k then .ok (push st k i (openOf k)) else .ok st := by
  by_cases h : k' = k
  · subst h; simp [linkBrackets_open]
  · simp only [h, if_false]
    exact linkBrackets_other _ _ _ _ (fun e => h (openOf_inj e).symm) (open_ne_close _ _)

theorem linkBrackets_of_close (st : LState) (i : Nat) (k k' : BK) :
    linkBrackets st i (closeOf k) k' = if k' = k then pop st k i else .ok st := by
  by_cases h : k' = k
  · subst h; simp [linkBrackets_close]
  · simp only [h, if_false]
    exact linkBrackets_other _ _ _ _ (fun e => open_ne_close _ _ e.symm) (fun e => h (closeOf_inj e).symm)

theorem stepTok_open (st : LState) (i : Nat) (t : Tok) (k : BK) (h : firstChar t = openOf k) :
    stepTok st i t = .ok (push (clr st i) k i (openOf k)) := by
  unfold stepTok
  simp only [h, linkBrackets_of_open]
  cases k <;> simp

theorem stepTok_close (st : LState) (i : Nat) (t : Tok) (k : BK) (h : firstChar t = closeOf k) :
    stepTok st i t = pop (clr st i) k i := by
  unfold stepTok
  simp only [h, linkBrackets_of_close]
  cases k <;> simp <;> (split <;> simp_all)

theorem stepTok_plain (st : LState) (i : Nat) (t : Tok) (h : ¬ isBr (firstChar t)) :
    stepTok st i t = .ok (clr st i) := by
  have ho : ∀ k, firstChar t ≠ openOf k := fun k e => h ⟨k, .inl e⟩
  have hc : ∀ k, firstChar t ≠ closeOf k := fun k e => h ⟨k, .inr e⟩
  unfold stepTok
  rw [linkBrackets_other _ _ _ .brace (ho _) (hc _)]
  simp only
  rw [linkBrackets_other _ _ _ .paren (ho _) (hc _)]
  simp only
  rw [linkBrackets_other _ _ _ .square (ho _) (hc _)]

/-! ### the loop invariant -/

/-- state after the tokens with index `< i` have been processed; `fc j` = first character of token `j` -/
structure LInv (fc : Nat → Char) (i : Nat) (st : LState) : Prop where
  sorted : st.type.Pairwise (fun a b => b.1 < a.1)
  tyLt : ∀ e ∈ st.type, e.1 < i
  tyChr : ∀ e ∈ st.type, e.2 = fc e.1
  tyOpen : ∀ e ∈ st.type, ∃ k, e.2 = openOf k
  proj : ∀ k, st.links k = (st.type.filter (fun e => e.2 = openOf k)).map Prod.fst
  sym : ∀ a b, st.link a = some b → st.link b = some a
  lt : ∀ a b, st.link a = some b → a < i
  kinds : ∀ a b, st.link a = some b → a < b → ∃ k, fc a = openOf k ∧ fc b = closeOf k
  irrefl : ∀ a b, st.link a = some b → a ≠ b
  onStack : ∀ e ∈ st.type, st.link e.1 = none
  total : ∀ a, a < i → isBr (fc a) → st.link a = none → ∃ e ∈ st.type, e.1 = a
  onlyBr : ∀ a b, st.link a = some b → isBr (fc a)
  nest : ∀ a b, st.link a = some b → a < b → ∀ m, a < m → m < b →
    (∀ e ∈ st.type, e.1 ≠ m) ∧ (∀ m', st.link m = some m' → a < m' ∧ m' < b)

theorem LInv.init (fc : Nat → Char) : LInv fc 0 LState.init := by
  refine ⟨?_, ?_, ?_, ?_, ?_, ?_, ?_, ?_, ?_, ?_, ?_, ?_, ?_⟩ <;> simp [LState.init]

theorem LInv.link_none {fc : Nat → Char} {i : Nat} {st : LState} (h : LInv fc i st) {a : Nat} (ha : i ≤ a) : st.link a = none := by
  cases hl : st.link a with
  | none => rfl
  | some b => have := h.lt a b hl; omega

theorem clr_eq {fc : Nat → Char} {i : Nat} {st : LState} (h : LInv fc i st) : clr st i = st := by
  have : updLink st.link i none = st.link := by
    funext j
    rw [updLink_apply]
    split
    · rename_i hj; rw [hj, h.link_none (Nat.le_refl i)]
    · rfl
  cases st
  simp only [clr] at this ⊢
  rw [this]

theorem LInv.lt' {fc : Nat → Char} {i : Nat} {st : LState} (h : LInv fc i st) {a b : Nat} (hl : st.link a = some b) : b < i :=
  h.lt b a (h.sym a b hl)

/-- a plain token -/
theorem LInv.plain {fc : Nat → Char} {i : Nat} {st : LState} (h : LInv fc i st) (hc : ¬ isBr (fc i)) : LInv fc (i + 1) st := by
  refine ⟨h.sorted, fun e he => Nat.lt_succ_of_lt (h.tyLt e he), h.tyChr, h.tyOpen, h.proj, h.sym,
    fun a b hl => Nat.lt_succ_of_lt (h.lt a b hl), h.kinds, h.irrefl, h.onStack, ?_, h.onlyBr, h.nest⟩
  intro a ha hb hl
  by_cases hai : a = i
  · subst hai; exact absurd hb hc
  · exact h.total a (by omega) hb hl

/-- an opening bracket is pushed -/
theorem LInv.push {fc : Nat → Char} {i : Nat} {st : LState} (h : LInv fc i st) {k : BK} (hc : fc i = openOf k) :
    LInv fc (i + 1) (push st k i (openOf k)) := by
  refine ⟨?_, ?_, ?_, ?_, ?_, h.sym, fun a b hl => Nat.lt_succ_of_lt (h.lt a b hl), h.kinds, h.irrefl, ?_, ?_, h.onlyBr, ?_⟩
  · simp only [Links.push, List.pairwise_cons]
    exact ⟨fun e he => h.tyLt e he, h.sorted⟩
  · intro e he
    simp only [Links.push, List.mem_cons] at he
    rcases he with he | he
    · subst he; exact Nat.lt_succ_self i
    · exact Nat.lt_succ_of_lt (h.tyLt e he)
  · intro e he
    simp only [Links.push, List.mem_cons] at he
    rcases he with he | he
    · subst he; exact hc.symm
    · exact h.tyChr e he
  · intro e he
    simp only [Links.push, List.mem_cons] at he
    rcases he with he | he
    · subst he; exact ⟨k, rfl⟩
    · exact h.tyOpen e he
  · intro k'
    simp only [Links.push, updStack_apply]
    by_cases hk : k' = k
    · subst hk; simp [h.proj k']
    · have : openOf k ≠ openOf k' := fun e => hk (openOf_inj e).symm
      simp [hk, this, h.proj k']
  · intro e he
    simp only [Links.push, List.mem_cons] at he ⊢
    rcases he with he | he
    · subst he; exact h.link_none (Nat.le_refl i)
    · exact h.onStack e he
  · intro a ha hb hl
    by_cases hai : a = i
    · subst hai; exact ⟨(a, openOf k), by simp [Links.push], rfl⟩
    · obtain ⟨e, he, hea⟩ := h.total a (by omega) hb hl
      exact ⟨e, by simp [Links.push, he], hea⟩
  · intro a b hl hab m ham hmb
    have := h.nest a b hl hab m ham hmb
    refine ⟨?_, this.2⟩
    intro e he
    simp only [Links.push, List.mem_cons] at he
    rcases he with he | he
    · subst he
      have := h.lt' hl
      simp only; omega
    · exact this.1 e he

/-- a closing bracket: never reads an empty `type` stack; on success links the top of the stack with `i` -/
theorem LInv.pop {fc : Nat → Char} {i : Nat} {st : LState} (h : LInv fc i st) {k : BK} (hc : fc i = closeOf k) :
    pop st k i ≠ .error .ub ∧ ∀ st', pop st k i = .ok st' → LInv fc (i + 1) st' := by
  unfold Links.pop
  cases hl : st.links k with
  | nil => simp
  | cons o lrest =>
    cases ht : st.type with
    | nil => have := h.proj k; rw [hl, ht] at this; simp at this
    | cons top trest =>
      obtain ⟨ti, tc⟩ := top
      simp only
      by_cases htc : tc = openOf k
      · simp only [htc, ne_eq, not_true_eq_false, if_false]
        refine ⟨by simp, ?_⟩
        intro st' hst
        cases hst
        -- facts about the top of the stack
        have hmem : (ti, tc) ∈ st.type := by rw [ht]; simp
        have hproj := h.proj k
        rw [hl, ht] at hproj
        simp only [htc, List.filter_cons_of_pos, decide_true, List.map_cons] at hproj
        have hoti : o = ti := (List.cons.inj hproj).1
        have hlrest : lrest = (trest.filter (fun e => e.2 = openOf k)).map Prod.fst := (List.cons.inj hproj).2
        subst hoti
        have hoi : o < i := h.tyLt _ hmem
        have hfo : fc o = openOf k := by rw [← h.tyChr _ hmem]; exact htc
        have hlo : st.link o = none := h.onStack _ hmem
        have hsorted := h.sorted
        rw [ht, List.pairwise_cons] at hsorted
        have hsub : ∀ e ∈ trest, e ∈ st.type := fun e he => by rw [ht]; exact List.mem_cons_of_mem _ he
        have hbelow : ∀ e ∈ trest, e.1 < o := fun e he => hsorted.1 e he
        -- the new link function
        have hlk : ∀ j, updLink (updLink st.link o (some i)) i (some o) j =
            if j = i then some o else if j = o then some i else st.link j := fun j => by
          simp only [updLink_apply]
        have hold : ∀ a b, st.link a = some b → a ≠ i ∧ a ≠ o ∧ b ≠ i ∧ b ≠ o := by
          intro a b hab
          have h1 := h.lt a b hab
          have h2 := h.lt' hab
          refine ⟨by omega, ?_, by omega, ?_⟩
          · intro e; rw [e, hlo] at hab; cases hab
          · intro e; have := h.sym a b hab; rw [e, hlo] at this; cases this
        have hnew : ∀ a b, (if a = i then some o else if a = o then some i else st.link a) = some b →
            (a = i ∧ b = o) ∨ (a = o ∧ b = i) ∨ (a ≠ i ∧ a ≠ o ∧ st.link a = some b) := by
          intro a b hab
          by_cases hai : a = i
          · simp only [hai, if_true] at hab; exact .inl ⟨hai, (Option.some.inj hab).symm⟩
          · by_cases hao : a = o
            · subst hao
              simp only [hai, if_false, if_true] at hab
              exact .inr (.inl ⟨rfl, (Option.some.inj hab).symm⟩)
            · simp only [hai, hao, if_false] at hab; exact .inr (.inr ⟨hai, hao, hab⟩)
        refine ⟨hsorted.2, ?_, ?_, ?_, ?_, ?_, ?_, ?_, ?_, ?_, ?_, ?_, ?_⟩
        · exact fun e he => Nat.lt_succ_of_lt (h.tyLt e (hsub e he))
        · exact fun e he => h.tyChr e (hsub e he)
        · exact fun e he => h.tyOpen e (hsub e he)
        · intro k'
          simp only [updStack_apply]
          by_cases hk : k' = k
          · subst hk; simp [hlrest]
          · have hne : ¬ (tc = openOf k') := fun e => hk (openOf_inj (e.symm.trans htc))
            have := h.proj k'
            rw [ht, List.filter_cons_of_neg (by simpa using hne)] at this
            simp [hk, this]
        · -- symmetry
          intro a b hab
          simp only [hlk] at hab ⊢
          rcases hnew a b hab with ⟨ha, hb⟩ | ⟨ha, hb⟩ | ⟨_, _, hab'⟩
          · subst ha; subst hb
            have : b ≠ a := by omega
            simp [this]
          · subst ha; subst hb; simp
          · have := hold a b hab'
            simp only [this.2.2.1, this.2.2.2, if_false]
            exact h.sym a b hab'
        · intro a b hab
          simp only [hlk] at hab
          rcases hnew a b hab with ⟨ha, _⟩ | ⟨ha, _⟩ | ⟨_, _, hab'⟩
          · omega
          · omega
          · exact Nat.lt_succ_of_lt (h.lt a b hab')
        · intro a b hab hlt
          simp only [hlk] at hab
          rcases hnew a b hab with ⟨ha, hb⟩ | ⟨ha, hb⟩ | ⟨_, _, hab'⟩
          · omega
          · subst ha; subst hb; exact ⟨k, hfo, hc⟩
          · exact h.kinds a b hab' hlt
        · intro a b hab
          simp only [hlk] at hab
          rcases hnew a b hab with ⟨ha, hb⟩ | ⟨ha, hb⟩ | ⟨_, _, hab'⟩
          · omega
          · omega
          · exact h.irrefl a b hab'
        · intro e he
          simp only [hlk]
          have h1 := hbelow e he
          have : e.1 ≠ i := by omega
          have : e.1 ≠ o := by omega
          simp [*]
          exact h.onStack e (hsub e he)
        · intro a ha hb hla
          simp only [hlk] at hla
          by_cases hai : a = i
          · simp [hai] at hla
          · by_cases hao : a = o
            · subst hao; simp [hai] at hla
            · simp only [hai, hao, if_false] at hla
              obtain ⟨e, he, hea⟩ := h.total a (by omega) hb hla
              rw [ht, List.mem_cons] at he
              rcases he with he | he
              · subst he; exact absurd hea.symm hao
              · exact ⟨e, he, hea⟩
        · intro a b hab
          simp only [hlk] at hab
          rcases hnew a b hab with ⟨ha, _⟩ | ⟨ha, _⟩ | ⟨_, _, hab'⟩
          · subst ha; exact ⟨k, .inr hc⟩
          · subst ha; exact ⟨k, .inl hfo⟩
          · exact h.onlyBr a b hab'
        · -- nesting
          intro a b hab hlt m ham hmb
          simp only [hlk] at hab
          rcases hnew a b hab with ⟨ha, hb⟩ | ⟨ha, hb⟩ | ⟨hai, hao, hab'⟩
          · omega
          · -- the new pair (o, i)
            subst ha; subst hb
            refine ⟨fun e he => ?_, ?_⟩
            · have := hbelow e he; omega
            · intro m' hm'
              simp only [hlk] at hm'
              have hmi : m ≠ b := by omega
              have hmo : m ≠ a := by omega
              simp only [hmi, hmo, if_false] at hm'
              have h1 := h.lt' hm'
              have h2 := hold m m' hm'
              refine ⟨?_, h1⟩
              -- m' < a would put the stacked bracket a strictly inside the pair (m', m)
              have hcases : a < m' ∨ m' < a := by omega
              rcases hcases with hgt | hlt'
              · exact hgt
              · exfalso
                have := (h.nest m' m (h.sym m m' hm') (by omega) a hlt' ham).1 (a, tc) hmem
                exact this rfl
          · -- an old pair
            have hb' := h.lt' hab'
            have := h.nest a b hab' hlt m ham hmb
            refine ⟨fun e he => this.1 e (hsub e he), ?_⟩
            intro m' hm'
            simp only [hlk] at hm'
            have hmi : m ≠ i := by omega
            have hmo : m ≠ o := fun e => this.1 (o, tc) hmem e.symm
            simp only [hmi, hmo, if_false] at hm'
            exact this.2 m' hm'
      · simp [htc]

theorem stepTok_inv {fc : Nat → Char} {i : Nat} {st : LState} (h : LInv fc i st) (t : Tok) (hc : fc i = firstChar t) :
    stepTok st i t ≠ .error .ub ∧ ∀ st', stepTok st i t = .ok st' → LInv fc (i + 1) st' := by
  by_cases hb : isBr (firstChar t)
  · obtain ⟨k, hk | hk⟩ := hb
    · rw [stepTok_open st i t k hk, clr_eq h]
      refine ⟨by simp, fun st' hst => ?_⟩
      cases hst
      exact h.push (hc.trans hk)
    · rw [stepTok_close st i t k hk, clr_eq h]
      exact h.pop (hc.trans hk)
  · rw [stepTok_plain st i t hb, clr_eq h]
    refine ⟨by simp, fun st' hst => ?_⟩
    cases hst
    exact h.plain (hc ▸ hb)

theorem loop_inv {fc : Nat → Char} : ∀ (rest : List Tok) (i : Nat) (st : LState), LInv fc i st →
    (∀ j (hj : j < rest.length), fc (i + j) = firstChar rest[j]) →
    loop st i rest ≠ .error .ub ∧ ∀ st', loop st i rest = .ok st' → LInv fc (i + rest.length) st' := by
  intro rest
  induction rest with
  | nil => intro i st h _; exact ⟨by simp [loop], fun st' hst => by simp [loop] at hst; subst hst; simpa using h⟩
  | cons t r ih =>
    intro i st h hfc
    have h0 := hfc 0 (Nat.zero_lt_succ _)
    rw [Nat.add_zero, List.getElem_cons_zero] at h0
    have hs := stepTok_inv h t h0
    simp only [loop]
    cases hst : stepTok st i t with
    | error e =>
      refine ⟨?_, by simp⟩
      intro he; simp at he; rw [hst, he] at hs; exact hs.1 rfl
    | ok st1 =>
      simp only
      have h1 := hs.2 st1 hst
      have := ih (i + 1) st1 h1 (fun j hj => by
        have := hfc (j + 1) (by simp; omega)
        simpa [Nat.add_assoc, Nat.add_comm 1 j] using this)
      simpa [Nat.add_assoc, Nat.add_comm 1 r.length] using this

theorem finish_ok {fc : Nat → Char} {i : Nat} {st st' : LState} (h : LInv fc i st) (hf : finish st = .ok st') :
    st' = st ∧ st.type = [] := by
  unfold finish at hf
  split at hf
  · cases hf
  · split at hf
    · cases hf
    · split at hf
      · cases hf
      · rename_i h1 _ h2 _ h3
        refine ⟨by cases hf; rfl, ?_⟩
        cases hty : st.type with
        | nil => rfl
        | cons e r =>
          exfalso
          have hm : e ∈ st.type := by rw [hty]; simp
          obtain ⟨k, hk⟩ := h.tyOpen e hm
          have := h.proj k
          have hne : (st.type.filter (fun e => e.2 = openOf k)).map Prod.fst ≠ [] := by
            rw [hty, List.filter_cons_of_pos (by simpa using hk)]; simp
          cases k <;> simp_all

theorem finish_ne_ub (st : LState) : finish st ≠ .error .ub := by
  unfold finish
  split
  · simp
  · split
    · simp
    · split <;> simp

/-! ### the statement about the result vector -/

/-- first character of token `j` of the list (`'\0'` past the end, which is no bracket) -/
def chr (ts : List Tok) (j : Nat) : Char := firstChar (ts.getD j [])

/-- `L[i] = j  ⇒  L[j] = i`, and no token is linked to itself -/
def Symmetric (L : List (Option Nat)) : Prop :=
  (∀ i j : Nat, L[i]? = some (some j) → L[j]? = some (some i)) ∧ (∀ i : Nat, L[i]? ≠ some (some i))

/-- links join an opening bracket with a later closing bracket of the same kind, every bracket token is linked and
    nothing else is, and two linked pairs never cross -/
structure ProperlyNested (ts : List Tok) (L : List (Option Nat)) : Prop where
  length : L.length = ts.length
  kinds : ∀ i j : Nat, L[i]? = some (some j) → i < j → ∃ k, chr ts i = openOf k ∧ chr ts j = closeOf k
  total : ∀ i, i < ts.length → (isBr (chr ts i) ↔ ∃ j, L[i]? = some (some j))
  nested : ∀ i j k l : Nat, L[i]? = some (some j) → L[k]? = some (some l) → i < j → i < k → k < j → i < l ∧ l < j

theorem createLinks_spec (ts : List Tok) :
    createLinks ts ≠ .error .ub ∧ ∀ L, createLinks ts = .ok L → Symmetric L ∧ ProperlyNested ts L := by
  have hfc : ∀ j (hj : j < ts.length), chr ts (0 + j) = firstChar ts[j] := by
    intro j hj; simp [chr, List.getD_eq_getElem?_getD, hj]
  have hl := loop_inv (fc := chr ts) ts 0 LState.init (LInv.init _) hfc
  unfold createLinks
  cases hloop : loop LState.init 0 ts with
  | error e =>
    refine ⟨?_, by simp⟩
    intro he; simp at he; rw [hloop, he] at hl; exact hl.1 rfl
  | ok st =>
    simp only
    have hinv : LInv (chr ts) ts.length st := by simpa using hl.2 st hloop
    cases hfin : finish st with
    | error e =>
      refine ⟨?_, by simp⟩
      intro he; simp at he; rw [he] at hfin; exact finish_ne_ub st hfin
    | ok st' =>
      simp only
      refine ⟨by simp, ?_⟩
      intro L hL
      cases hL
      obtain ⟨hst, hty⟩ := finish_ok hinv hfin
      subst hst
      -- reading the vector
      have hget : ∀ i v, ((List.range ts.length).map st'.link)[i]? = some v ↔ (i < ts.length ∧ st'.link i = v) := by
        intro i v
        by_cases hi : i < ts.length
        · simp [hi]
        · simp [hi]
      refine ⟨⟨?_, ?_⟩, ⟨by simp, ?_, ?_, ?_⟩⟩
      · intro i j hij
        obtain ⟨hi, hij⟩ := (hget i _).1 hij
        exact (hget j _).2 ⟨hinv.lt' hij, hinv.sym i j hij⟩
      · intro i hii
        obtain ⟨_, hii⟩ := (hget i _).1 hii
        exact hinv.irrefl i i hii rfl
      · intro i j hij hlt
        exact hinv.kinds i j ((hget i _).1 hij).2 hlt
      · intro i hi
        constructor
        · intro hb
          cases hli : st'.link i with
          | none =>
            obtain ⟨e, he, _⟩ := hinv.total i hi hb hli
            rw [hty] at he; cases he
          | some j => exact ⟨j, (hget i _).2 ⟨hi, hli⟩⟩
        · rintro ⟨j, hij⟩
          exact hinv.onlyBr i j ((hget i _).1 hij).2
      · intro i j k l hij hkl hlt hik hkj
        exact (hinv.nest i j ((hget i _).1 hij).2 hlt k hik hkj).2 l ((hget k _).1 hkl).2

/-! ### completeness: a balanced token list is accepted -/

/-- the bracket tokens of the list form a well-bracketed word (other tokens are ignored) -/
inductive Balanced : List Tok → Prop
  | nil : Balanced []
  | plain (t : Tok) (w : List Tok) : ¬ isBr (firstChar t) → Balanced w → Balanced (t :: w)
  | wrap (o c : Tok) (k : BK) (u w : List Tok) : firstChar o = openOf k → firstChar c = closeOf k →
      Balanced u → Balanced w → Balanced (o :: (u ++ c :: w))

theorem loop_append : ∀ (a b : List Tok) (st : LState) (i : Nat),
    loop st i (a ++ b) = match loop st i a with
                         | .error e => .error e
                         | .ok st' => loop st' (i + a.length) b := by
  intro a
  induction a with
  | nil => intro b st i; simp [loop]
  | cons t r ih =>
    intro b st i
    simp only [List.cons_append, loop]
    cases stepTok st i t with
    | error e => rfl
    | ok st1 =>
      simp only
      rw [ih]
      simp [Nat.add_assoc, Nat.add_comm 1 r.length]

theorem loop_balanced {w : List Tok} (hw : Balanced w) : ∀ (st : LState) (i : Nat),
    ∃ st', loop st i w = .ok st' ∧ st'.type = st.type ∧ st'.links = st.links := by
  induction hw with
  | nil => intro st i; exact ⟨st, rfl, rfl, rfl⟩
  | plain t w ht _ ih =>
    intro st i
    simp only [loop, stepTok_plain st i t ht]
    obtain ⟨st', h1, h2, h3⟩ := ih (clr st i) (i + 1)
    exact ⟨st', h1, h2, h3⟩
  | wrap o c k u w ho hc _ _ ihu ihw =>
    intro st i
    simp only [loop, stepTok_open st i o k ho]
    rw [loop_append]
    obtain ⟨st2, h1, h2, h3⟩ := ihu (push (clr st i) k i (openOf k)) (i + 1)
    rw [h1]
    simp only [loop, stepTok_close st2 _ c k hc]
    have hl : (clr st2 (i + 1 + u.length)).links k = i :: st.links k := by
      simp [clr, h3, push, updStack_apply]
    have ht : (clr st2 (i + 1 + u.length)).type = (i, openOf k) :: st.type := by
      simp [clr, h2, push]
    unfold pop
    rw [hl, ht]
    simp only [ne_eq, not_true_eq_false, if_false]
    obtain ⟨st', g1, g2, g3⟩ := ihw
      { type := st.type, links := updStack (clr st2 (i + 1 + u.length)).links k (st.links k),
        link := updLink (updLink (clr st2 (i + 1 + u.length)).link i (some (i + 1 + u.length))) (i + 1 + u.length) (some i) }
      (i + 1 + u.length + 1)
    refine ⟨st', g1, g2, ?_⟩
    rw [g3]
    funext k'
    simp only [updStack_apply, clr, h3, push]
    split
    · rename_i hk; rw [hk]
    · simp

theorem createLinks_balanced (ts : List Tok) (h : Balanced ts) : ∃ L, createLinks ts = .ok L := by
  obtain ⟨st', h1, h2, h3⟩ := loop_balanced h LState.init 0
  unfold createLinks
  rw [h1]
  simp only
  have : finish st' = .ok st' := by
    unfold finish
    simp [h3, LState.init]
  rw [this]
  exact ⟨_, rfl⟩

/-! ### soundness of acceptance: an accepted token list is balanced -/

theorem Balanced.append {a b : List Tok} (ha : Balanced a) (hb : Balanced b) : Balanced (a ++ b) := by
  induction ha with
  | nil => exact hb
  | plain t w ht _ ih => exact .plain t _ ht ih
  | wrap o c k u w ho hc hu _ _ ihw =>
    have : o :: (u ++ c :: w) ++ b = o :: (u ++ c :: (w ++ b)) := by simp
    rw [this]
    exact .wrap o c k u _ ho hc hu ihw

/-- the processed prefix is `B0 o1 B1 o2 B2 … om Bm` with every `Bi` balanced and `o1 … om` the stacked openers -/
inductive Dec : List Tok → List (Nat × Char) → Prop
  | base {pre : List Tok} : Balanced pre → Dec pre []
  | push {p1 : List Tok} {o : Tok} {B : List Tok} {j : Nat} {c : Char} {rest : List (Nat × Char)} :
      Dec p1 rest → firstChar o = c → Balanced B → Dec (p1 ++ o :: B) ((j, c) :: rest)

theorem Dec.extend {pre : List Tok} {ty : List (Nat × Char)} (h : Dec pre ty) {W : List Tok} (hW : Balanced W) : Dec (pre ++ W) ty := by
  cases h with
  | base hb => exact .base (hb.append hW)
  | push hd hc hB =>
    rename_i p1 o B j c rest
    have : p1 ++ o :: B ++ W = p1 ++ o :: (B ++ W) := by simp
    rw [this]
    exact .push hd hc (hB.append hW)

theorem stepTok_dec {pre : List Tok} {st st' : LState} {i : Nat} {t : Tok} (hd : Dec pre st.type)
    (hs : stepTok st i t = .ok st') : Dec (pre ++ [t]) st'.type := by
  by_cases hb : isBr (firstChar t)
  · obtain ⟨k, hk | hk⟩ := hb
    · rw [stepTok_open st i t k hk] at hs
      cases hs
      simp only [Links.push, clr]
      exact .push hd hk .nil
    · rw [stepTok_close st i t k hk] at hs
      unfold Links.pop at hs
      split at hs
      · cases hs
      · split at hs
        · cases hs
        · rename_i o lrest _ ti tc trest hty
          split at hs
          · cases hs
          · rename_i htc
            have htc : tc = openOf k := by simpa using htc
            cases hs
            simp only
            have hty' : st.type = (ti, tc) :: trest := by simpa [clr] using hty
            rw [hty'] at hd
            cases hd with
            | push hd1 hc1 hB =>
              rename_i p1 o1 B
              have : p1 ++ o1 :: B ++ [t] = p1 ++ (o1 :: (B ++ t :: [])) := by simp
              rw [this]
              exact hd1.extend (.wrap o1 t k B [] (hc1.trans htc) hk hB .nil)
  · rw [stepTok_plain st i t hb] at hs
    cases hs
    simp only [clr]
    exact hd.extend (.plain t [] hb .nil)

theorem loop_dec : ∀ (rest pre : List Tok) (st st' : LState) (i : Nat), Dec pre st.type →
    loop st i rest = .ok st' → Dec (pre ++ rest) st'.type := by
  intro rest
  induction rest with
  | nil => intro pre st st' i hd hl; simp [loop] at hl; subst hl; simpa using hd
  | cons t r ih =>
    intro pre st st' i hd hl
    simp only [loop] at hl
    cases hs : stepTok st i t with
    | error e => rw [hs] at hl; cases hl
    | ok st1 =>
      rw [hs] at hl
      have := ih (pre ++ [t]) st1 st' (i + 1) (stepTok_dec hd hs) hl
      simpa using this

theorem createLinks_ok_balanced (ts : List Tok) (L : List (Option Nat)) (h : createLinks ts = .ok L) : Balanced ts := by
  have hfc : ∀ j (hj : j < ts.length), chr ts (0 + j) = firstChar ts[j] := by
    intro j hj; simp [chr, List.getD_eq_getElem?_getD, hj]
  have hl := loop_inv (fc := chr ts) ts 0 LState.init (LInv.init _) hfc
  unfold createLinks at h
  cases hloop : loop LState.init 0 ts with
  | error e => rw [hloop] at h; cases h
  | ok st =>
    rw [hloop] at h
    simp only at h
    have hinv : LInv (chr ts) ts.length st := by simpa using hl.2 st hloop
    cases hfin : finish st with
    | error e => rw [hfin] at h; cases h
    | ok st' =>
      obtain ⟨_, hty⟩ := finish_ok hinv hfin
      have hd := loop_dec ts [] LState.init st 0 (.base .nil) hloop
      rw [hty] at hd
      cases hd with
      | base hb => simpa using hb

/-! ### link writers after `createLinks` -/

/-- symmetry of a link vector given as a function -/
def SymF (f : Nat → Option Nat) : Prop := (∀ a b, f a = some b → f b = some a) ∧ (∀ a, f a ≠ some a)

theorem symF_empty : SymF (fun _ => none) := by
  constructor
  · intro a b h; cases h
  · intro a h; cases h

theorem mutualLinks_symF (f : Nat → Option Nat) (a b : Nat) (h : SymF f) (hab : a ≠ b) (ha : f a = none) (hb : f b = none) :
    SymF (mutualLinks f a b) := by
  have key : ∀ x y, f x = some y → x ≠ a ∧ x ≠ b ∧ y ≠ a ∧ y ≠ b := by
    intro x y hxy
    have hyx := h.1 x y hxy
    refine ⟨?_, ?_, ?_, ?_⟩
    · intro e; rw [e, ha] at hxy; cases hxy
    · intro e; rw [e, hb] at hxy; cases hxy
    · intro e; rw [e, ha] at hyx; cases hyx
    · intro e; rw [e, hb] at hyx; cases hyx
  constructor
  · intro x y hxy
    simp only [mutualLinks, updLink_apply] at hxy ⊢
    by_cases hxb : x = b
    · simp only [hxb, if_true] at hxy
      have : y = a := (Option.some.inj hxy).symm
      subst this; subst hxb
      simp [hab]
    · by_cases hxa : x = a
      · subst hxa
        simp only [hxb, if_false, if_true] at hxy
        have : y = b := (Option.some.inj hxy).symm
        subst this
        simp
      · simp only [hxb, hxa, if_false] at hxy
        have := key x y hxy
        simp only [this.2.2.1, this.2.2.2, if_false]
        exact h.1 x y hxy
  · intro x hx
    simp only [mutualLinks, updLink_apply] at hx
    by_cases hxb : x = b
    · simp only [hxb, if_true] at hx; exact hab (Option.some.inj hx)
    · by_cases hxa : x = a
      · subst hxa
        simp only [hxb, if_false, if_true] at hx; exact hab (Option.some.inj hx).symm
      · simp only [hxb, hxa, if_false] at hx; exact h.2 x hx

theorem clearPair_symF (f : Nat → Option Nat) (a b : Nat) (h : SymF f) (hl : f a = some b) :
    SymF (clearLink (clearLink f a) b) := by
  have hba := h.1 a b hl
  constructor
  · intro x y hxy
    simp only [clearLink, updLink_apply] at hxy ⊢
    by_cases hxb : x = b
    · simp [hxb] at hxy
    · by_cases hxa : x = a
      · simp [hxa] at hxy
      · simp only [hxb, hxa, if_false] at hxy
        have hyx := h.1 x y hxy
        have hyb : y ≠ b := by intro e; rw [e, hba] at hyx; exact hxa (Option.some.inj hyx).symm
        have hya : y ≠ a := by intro e; rw [e, hl] at hyx; exact hxb (Option.some.inj hyx).symm
        simp only [hyb, hya, if_false]
        exact hyx
  · intro x hx
    simp only [clearLink, updLink_apply] at hx
    by_cases hxb : x = b
    · simp [hxb] at hx
    · by_cases hxa : x = a
      · simp [hxa] at hx
      · simp only [hxb, hxa, if_false] at hx; exact h.2 x hx

end Cppcheck.Links

import Cppcheck.Model.Match
/- helper lemmas for C33 (core Lean only) -/
namespace Cppcheck.Match
open Cppcheck.Wire

def advance : Goto → List Tok → List Tok
  | .none, ts => ts
  | .next, ts => ts.drop 1
  | .nextSafe, ts => ts.drop 1

theorem run_goto (g : Goto) (p : Prog) (ts v) : run (g.steps ++ p) ts v = run p (advance g ts) v := by
  cases g <;> simp [Goto.steps, run, advance]

/-- an atom is acceptable when it is not `%varid%`, or the varid is non-zero -/
def atomOk (v : Nat) (a : Atom) : Prop := a ≠ .cmd .varid ∨ v ≠ 0

theorem cond_eval_eq (a : Atom) (t : Tok) (v : Nat) (ht : TokWF t = true) (h : atomOk v a) :
    (Cond.ofAtom a).eval t v = a.eval t v := by
  simp only [TokWF, Bool.and_eq_true, Bool.or_eq_true, decide_eq_true_eq] at ht
  obtain ⟨hty, hname⟩ := ht
  cases a with
  | cmd c =>
    cases c <;> simp [Cond.ofAtom, Cond.eval, Atom.eval, Cmd.eval]
    -- remaining: varid
    rcases h with h | h
    · exact absurd rfl h
    · intro hv
      rcases hname with h0 | hn
      · omega
      · exact hn
  | lit s =>
    simp only [Cond.ofAtom, Atom.eval]
    cases hl : lookupTypes s tokTypes with
    | nil => simp [Cond.eval]
    | cons ty tys =>
      simp only [Cond.eval]
      by_cases hs : t.str = s
      · subst hs
        rw [hl] at hty
        simp at hty
        simp [hty]
      · simp [hs]

theorem any_cond_eq (as : List Atom) (t : Tok) (v : Nat) (ht : TokWF t = true) (h : ∀ a ∈ as, atomOk v a) :
    (as.map Cond.ofAtom).any (·.eval t v) = as.any (·.eval t v) := by
  induction as with
  | nil => rfl
  | cons a r ih =>
    simp only [List.map_cons, List.any_cons]
    rw [cond_eval_eq a t v ht (h a (by simp)), ih (fun b hb => h b (by simp [hb]))]

def wordOk (v : Nat) : Word → Prop
  | .alts as _ => ∀ a ∈ as, atomOk v a
  | .one a => atomOk v a
  | _ => True

theorem wordOk_of_nonzero (v : Nat) (hv : v ≠ 0) (w : Word) : wordOk v w := by
  cases w <;> simp [wordOk, atomOk, hv]

theorem wordOk_of_not_uses (ws : List Word) (h : usesVarid ws = false) : ∀ w ∈ ws, wordOk 0 w := by
  intro w hw
  simp only [usesVarid, List.any_eq_false] at h
  have := h w hw
  cases w with
  | alts as opt =>
    simp only [wordOk, atomOk]
    intro a ha
    left
    simp only [List.any_eq_true, decide_eq_true_eq, not_exists, not_and] at this
    exact fun e => this a ha e
  | one a =>
    simp only [wordOk, atomOk]
    left
    simpa using this
  | cls _ => trivial
  | neg _ => trivial

/-! ### the error-aware language versus its two-valued core -/

theorem evalR_ok (a : Atom) (t : Tok) (v : Nat) (h : atomOk v a) :
    a.evalR t v = .ofBool (a.eval t v) := by
  unfold Atom.evalR
  rcases h with h | h
  · simp [h]
  · simp [h]

theorem altsR_ok (as : List Atom) (t : Tok) (v : Nat) (h : ∀ a ∈ as, atomOk v a) :
    altsR as t v = .ofBool (as.any (·.eval t v)) := by
  induction as with
  | nil => rfl
  | cons a r ih =>
    simp only [altsR, evalR_ok a t v (h a (by simp)), List.any_cons]
    by_cases he : a.eval t v = true
    · simp [he, Res.ofBool]
    · simp only [he, Res.ofBool, Bool.false_eq_true, if_false, Bool.false_or]
      exact ih (fun b hb => h b (by simp [hb]))

/-- on words that cannot raise the error, `lang` is the two-valued core -/
theorem langWords_eq_semWords (v : Nat) : ∀ (ws : List Word) (ts : List Tok),
    (∀ w ∈ ws, wordOk v w) → langWords ws ts v = .ofBool (semWords ws ts v) := by
  intro ws
  induction ws with
  | nil => intro ts _; simp [langWords, semWords, Res.ofBool]
  | cons w ws ih =>
    intro ts h
    have hw := h w (by simp)
    have ih' := fun ts' => ih ts' (fun w' hw' => h w' (by simp [hw']))
    cases w with
    | cls cs =>
      cases ts with
      | nil => simp [langWords, semWords, Res.ofBool]
      | cons t r =>
        simp only [langWords, semWords, ih']
        split
        · rename_i c _
          by_cases hc : c ∈ cs <;> simp [hc, Res.ofBool]
        · simp [Res.ofBool]
    | alts as opt =>
      simp only [wordOk] at hw
      cases ts with
      | nil => cases opt <;> simp [langWords, semWords, ih', Res.ofBool]
      | cons t r =>
        simp only [langWords, semWords, altsR_ok as t v hw, ih']
        by_cases hc : as.any (·.eval t v) = true
        · simp [hc, Res.ofBool]
        · cases opt <;> simp [hc, Res.ofBool]
    | neg s =>
      cases ts with
      | nil => simp [langWords, semWords, ih']
      | cons t r =>
        simp only [langWords, semWords, ih']
        by_cases hs : t.str = s <;> simp [hs, Res.ofBool]
    | one a =>
      simp only [wordOk] at hw
      cases ts with
      | nil => simp [langWords, semWords, Res.ofBool]
      | cons t r =>
        simp only [langWords, semWords, evalR_ok a t v hw, ih']
        by_cases hc : a.eval t v = true <;> simp [hc, Res.ofBool]

/-- `lang` and the coarse `sem` agree wherever the error cannot occur -/
theorem lang_eq_sem (ws : List Word) (ts : List Tok) (v : Nat) (hv : v ≠ 0 ∨ usesVarid ws = false) :
    lang ws ts v = sem ws ts v := by
  unfold lang sem
  rcases hv with h | h
  · rw [langWords_eq_semWords v ws ts (fun w _ => wordOk_of_nonzero v h w)]
    simp [h]
  · by_cases h0 : v = 0
    · subst h0
      rw [langWords_eq_semWords 0 ws ts (wordOk_of_not_uses ws h)]
      simp [h]
    · rw [langWords_eq_semWords v ws ts (fun w _ => wordOk_of_nonzero v h0 w)]
      simp [h0]

/-! ### the find loop -/

/-- **declarative first match**: what a find over matcher `m` has to return on `ts` when the scan
    covers the first `min ts.length budget` positions -/
def FirstMatch (m : List Tok → Res) (ts : List Tok) (budget : Nat) : Find → Prop
  | .hit i => i < ts.length ∧ i < budget ∧ m (ts.drop i) = .t ∧ ∀ j, j < i → m (ts.drop j) = .f
  | .none => ∀ j, j < ts.length → j < budget → m (ts.drop j) = .f
  | .err => ∃ i, i < ts.length ∧ i < budget ∧ m (ts.drop i) = .err ∧ ∀ j, j < i → m (ts.drop j) = .f

theorem findWith_spec (m : List Tok → Res) : ∀ (ts : List Tok) (b : Nat), FirstMatch m ts b (findWith m ts b) := by
  intro ts
  induction ts with
  | nil => intro b; simp [findWith, FirstMatch]
  | cons t r ih =>
    intro b
    cases b with
    | zero => simp [findWith, FirstMatch]
    | succ b =>
      simp only [findWith]
      cases hm : m (t :: r) with
      | t => simp [FirstMatch, hm]
      | err => exact ⟨0, by simp, by simp, by simpa using hm, by simp⟩
      | f =>
        have := ih b
        cases hf : findWith m r b with
        | hit i =>
          rw [hf] at this
          simp only [FirstMatch] at this
          simp only [Find.succ, FirstMatch, List.length_cons, List.drop_succ_cons]
          refine ⟨by omega, by omega, this.2.2.1, ?_⟩
          intro j hj
          cases j with
          | zero => simpa using hm
          | succ j => simpa using this.2.2.2 j (by omega)
        | none =>
          rw [hf] at this
          simp only [FirstMatch] at this
          simp only [Find.succ, FirstMatch, List.length_cons]
          intro j hj hb
          cases j with
          | zero => simpa using hm
          | succ j => simpa using this j (by omega) (by omega)
        | err =>
          rw [hf] at this
          simp only [FirstMatch] at this
          obtain ⟨i, h1, h2, h3, h4⟩ := this
          refine ⟨i + 1, by simp; omega, by omega, by simpa using h3, ?_⟩
          intro j hj
          cases j with
          | zero => simpa using hm
          | succ j => simpa using h4 j (by omega)

/-- the declarative first match is a function: at most one result satisfies it -/
theorem firstMatch_unique (m : List Tok → Res) (ts : List Tok) (b : Nat) (r r' : Find)
    (h : FirstMatch m ts b r) (h' : FirstMatch m ts b r') : r = r' := by
  cases r with
  | hit i =>
    cases r' with
    | hit i' =>
      simp only [FirstMatch] at h h'
      have : i = i' := by
        rcases Nat.lt_trichotomy i i' with hlt | heq | hgt
        · have := h'.2.2.2 i hlt; rw [h.2.2.1] at this; cases this
        · exact heq
        · have := h.2.2.2 i' hgt; rw [h'.2.2.1] at this; cases this
      rw [this]
    | none =>
      simp only [FirstMatch] at h h'
      have := h' i h.1 h.2.1; rw [h.2.2.1] at this; cases this
    | err =>
      simp only [FirstMatch] at h h'
      obtain ⟨i', h1, h2, h3, h4⟩ := h'
      rcases Nat.lt_trichotomy i i' with hlt | heq | hgt
      · have := h4 i hlt; rw [h.2.2.1] at this; cases this
      · subst heq; rw [h.2.2.1] at h3; cases h3
      · have := h.2.2.2 i' hgt; rw [h3] at this; cases this
  | none =>
    cases r' with
    | hit i' =>
      simp only [FirstMatch] at h h'
      have := h i' h'.1 h'.2.1; rw [h'.2.2.1] at this; cases this
    | none => rfl
    | err =>
      simp only [FirstMatch] at h h'
      obtain ⟨i', h1, h2, h3, h4⟩ := h'
      have := h i' h1 h2; rw [h3] at this; cases this
  | err =>
    simp only [FirstMatch] at h
    obtain ⟨i, h1, h2, h3, h4⟩ := h
    cases r' with
    | hit i' =>
      simp only [FirstMatch] at h'
      rcases Nat.lt_trichotomy i i' with hlt | heq | hgt
      · have := h'.2.2.2 i hlt; rw [h3] at this; cases this
      · subst heq; rw [h'.2.2.1] at h3; cases h3
      · have := h4 i' hgt; rw [h'.2.2.1] at this; cases this
    | none =>
      simp only [FirstMatch] at h'
      have := h' i h1 h2; rw [h3] at this; cases this
    | err => rfl

theorem findWith_iff (m : List Tok → Res) (ts : List Tok) (b : Nat) (r : Find) :
    findWith m ts b = r ↔ FirstMatch m ts b r :=
  ⟨fun h => h ▸ findWith_spec m ts b, fun h => firstMatch_unique m ts b _ _ (findWith_spec m ts b) h⟩

/-- two matchers that agree on every suffix of the list find the same position -/
theorem findWith_congr (m m' : List Tok → Res) : ∀ (ts : List Tok) (b : Nat),
    (∀ j, j < ts.length → m (ts.drop j) = m' (ts.drop j)) → findWith m ts b = findWith m' ts b := by
  intro ts
  induction ts with
  | nil => intro b _; rfl
  | cons t r ih =>
    intro b h
    cases b with
    | zero => rfl
    | succ b =>
      have h0 := h 0 (by simp)
      simp only [List.drop_zero] at h0
      simp only [findWith, h0]
      rw [ih b (fun j hj => by simpa using h (j + 1) (by simp; omega))]

/-- the accumulator form of the compiled find is the find loop over `run p` -/
def Find.legacy (idx : Nat) : Find → Option Nat ⊕ Unit
  | .hit i => .inl (some (idx + i))
  | Find.none => .inl Option.none
  | .err => .inr ()

theorem findFrom_eq_findWith (p : Prog) (v : Nat) : ∀ (ts : List Tok) (idx budget : Nat),
    findFrom p v ts idx budget = (findWith (fun ts => run p ts v) ts budget).legacy idx := by
  intro ts
  induction ts with
  | nil => intro idx budget; simp [findFrom, findWith, Find.legacy]
  | cons t r ih =>
    intro idx budget
    cases budget with
    | zero => simp [findFrom, findWith, Find.legacy]
    | succ b =>
      simp only [findFrom, findWith]
      cases hm : run p (t :: r) v with
      | t => simp [Find.legacy]
      | err => simp [Find.legacy]
      | f =>
        simp only [ih (idx + 1) b]
        cases findWith (fun ts => run p ts v) r b <;> simp [Find.legacy, Find.succ]; omega

/-- spelling of a command -/
def Cmd.spell : Cmd → Str
  | .any => ['%','a','n','y','%'] | .assign => ['%','a','s','s','i','g','n','%'] | .bool => ['%','b','o','o','l','%']
  | .char => ['%','c','h','a','r','%'] | .comp => ['%','c','o','m','p','%'] | .num => ['%','n','u','m','%']
  | .cop => ['%','c','o','p','%'] | .op => ['%','o','p','%'] | .or => ['%','o','r','%'] | .oror => ['%','o','r','o','r','%']
  | .str => ['%','s','t','r','%'] | .type => ['%','t','y','p','e','%'] | .name => ['%','n','a','m','e','%']
  | .var => ['%','v','a','r','%'] | .varid => ['%','v','a','r','i','d','%']

theorem Cmd.ofStr_spell (c : Cmd) : Cmd.ofStr c.spell = some c := by cases c <;> decide

theorem Cmd.ofStr_some (a : Str) (c : Cmd) (h : Cmd.ofStr a = some c) : a = c.spell := by
  unfold Cmd.ofStr at h
  by_cases h1 : a = "%any%".toList
  · rw [if_pos h1] at h; cases h; rw [h1]; rfl
  rw [if_neg h1] at h; clear h1
  by_cases h1 : a = "%assign%".toList
  · rw [if_pos h1] at h; cases h; rw [h1]; rfl
  rw [if_neg h1] at h; clear h1
  by_cases h1 : a = "%bool%".toList
  · rw [if_pos h1] at h; cases h; rw [h1]; rfl
  rw [if_neg h1] at h; clear h1
  by_cases h1 : a = "%char%".toList
  · rw [if_pos h1] at h; cases h; rw [h1]; rfl
  rw [if_neg h1] at h; clear h1
  by_cases h1 : a = "%comp%".toList
  · rw [if_pos h1] at h; cases h; rw [h1]; rfl
  rw [if_neg h1] at h; clear h1
  by_cases h1 : a = "%num%".toList
  · rw [if_pos h1] at h; cases h; rw [h1]; rfl
  rw [if_neg h1] at h; clear h1
  by_cases h1 : a = "%cop%".toList
  · rw [if_pos h1] at h; cases h; rw [h1]; rfl
  rw [if_neg h1] at h; clear h1
  by_cases h1 : a = "%op%".toList
  · rw [if_pos h1] at h; cases h; rw [h1]; rfl
  rw [if_neg h1] at h; clear h1
  by_cases h1 : a = "%or%".toList
  · rw [if_pos h1] at h; cases h; rw [h1]; rfl
  rw [if_neg h1] at h; clear h1
  by_cases h1 : a = "%oror%".toList
  · rw [if_pos h1] at h; cases h; rw [h1]; rfl
  rw [if_neg h1] at h; clear h1
  by_cases h1 : a = "%str%".toList
  · rw [if_pos h1] at h; cases h; rw [h1]; rfl
  rw [if_neg h1] at h; clear h1
  by_cases h1 : a = "%type%".toList
  · rw [if_pos h1] at h; cases h; rw [h1]; rfl
  rw [if_neg h1] at h; clear h1
  by_cases h1 : a = "%name%".toList
  · rw [if_pos h1] at h; cases h; rw [h1]; rfl
  rw [if_neg h1] at h; clear h1
  by_cases h1 : a = "%var%".toList
  · rw [if_pos h1] at h; cases h; rw [h1]; rfl
  rw [if_neg h1] at h; clear h1
  by_cases h1 : a = "%varid%".toList
  · rw [if_pos h1] at h; cases h; rw [h1]; rfl
  rw [if_neg h1] at h; clear h1
  exact absurd h (by simp)


/-! ### a word that uses `%varid%` as a command spells it (so the compiler's textual test sees it) -/

theorem mentions_of_infix (w pre suf : Wire.Str) (h : w = pre ++ "%varid%".toList ++ suf) :
    wordMentionsVarid w = true := by
  subst h
  simp only [wordMentionsVarid, List.any_eq_true, List.mem_range, decide_eq_true_eq]
  refine ⟨pre.length, by simp; omega, ?_⟩
  simp

theorem splitOn_infix (c : Char) : ∀ (w a : Wire.Str), a ∈ splitOn c w → ∃ pre suf, w = pre ++ a ++ suf := by
  intro w
  induction w with
  | nil => intro a h; simp [splitOn] at h; subst h; exact ⟨[], [], rfl⟩
  | cons x r ih =>
    intro a h
    simp only [splitOn] at h
    by_cases hx : x = c
    · simp only [hx, if_true, List.mem_cons] at h
      rcases h with rfl | h
      · exact ⟨[], x :: r, by simp⟩
      · obtain ⟨pre, suf, e⟩ := ih a h
        exact ⟨x :: pre, suf, by simp [e]⟩
    · simp only [hx, if_false] at h
      cases hs : splitOn c r with
      | nil =>
        rw [hs] at h
        simp only [List.mem_singleton] at h
        subst h
        exact ⟨[], r, by simp⟩
      | cons w0 ws0 =>
        rw [hs] at h
        simp only [List.mem_cons] at h
        rcases h with rfl | h
        · obtain ⟨pre, suf, e⟩ := ih w0 (by rw [hs]; simp)
          -- w0 is the first part: it is a prefix of r
          have hpre : ∃ suf', r = w0 ++ suf' := by
            clear e ih
            revert w0 ws0
            induction r with
            | nil => intro w0 ws0 hs; simp [splitOn] at hs; exact ⟨[], by simp [hs.1.symm]⟩
            | cons y r' ihr =>
              intro w0 ws0 hs
              simp only [splitOn] at hs
              by_cases hy : y = c
              · simp only [hy, if_true, List.cons.injEq] at hs
                exact ⟨y :: r', by simp [hs.1.symm]⟩
              · simp only [hy, if_false] at hs
                cases hs' : splitOn c r' with
                | nil => rw [hs'] at hs; simp only [List.cons.injEq] at hs; exact ⟨r', by simp [hs.1.symm]⟩
                | cons w1 ws1 =>
                  rw [hs'] at hs
                  simp only [List.cons.injEq] at hs
                  obtain ⟨suf', e'⟩ := ihr w1 ws1 hs'
                  exact ⟨suf', by rw [← hs.1, e']; simp⟩
          obtain ⟨suf', e'⟩ := hpre
          exact ⟨[], suf', by simp [e']⟩
        · obtain ⟨pre, suf, e⟩ := ih a (by rw [hs]; simp [h])
          exact ⟨x :: pre, suf, by simp [e]⟩

theorem atom_varid_spelling (a : Wire.Str) (h : Atom.ofStr a = .cmd .varid) : a = "%varid%".toList := by
  unfold Atom.ofStr at h
  cases hc : Cmd.ofStr a with
  | none => rw [hc] at h; cases h
  | some c =>
    rw [hc] at h
    simp only [Atom.cmd.injEq] at h
    subst h
    exact Cmd.ofStr_some a .varid hc

def clsCond (w : Str) : Prop := w.length > 2 ∧ w.head? = some '[' ∧ w.getLast? = some ']'
def altCond (w : Str) : Bool := match findIdx '|' w with | some (_ + 1) => true | _ => false

theorem ofStr_cls (w : Str) (h : clsCond w) : Word.ofStr w = .cls ((w.drop 1).dropLast) := by
  unfold clsCond at h
  simp only [Word.ofStr]
  rw [if_pos h]

theorem ofStr_alts (w : Str) (h1 : ¬ clsCond w) (h2 : altCond w = true) :
    Word.ofStr w = .alts (((splitOn '|' w).filter (· ≠ [])).map Atom.ofStr) ((splitOn '|' w).any (· = [])) := by
  unfold clsCond at h1
  unfold altCond at h2
  simp only [Word.ofStr]
  rw [if_neg h1]
  cases hf : findIdx '|' w with
  | none => simp [hf] at h2
  | some n =>
    cases n with
    | zero => simp [hf] at h2
    | succ m => simp

theorem ofStr_neg (w : Str) (h1 : ¬ clsCond w) (h2 : altCond w = false) (h3 : w.take 2 = ['!', '!']) :
    Word.ofStr w = .neg (w.drop 2) := by
  unfold clsCond at h1
  unfold altCond at h2
  simp only [Word.ofStr]
  rw [if_neg h1]
  cases hf : findIdx '|' w with
  | none => simp [h3]
  | some n =>
    cases n with
    | zero => simp [h3]
    | succ m => simp [hf] at h2

theorem ofStr_one (w : Str) (h1 : ¬ clsCond w) (h2 : altCond w = false) (h3 : ¬ w.take 2 = ['!', '!']) :
    Word.ofStr w = .one (Atom.ofStr w) := by
  unfold clsCond at h1
  unfold altCond at h2
  simp only [Word.ofStr]
  rw [if_neg h1]
  cases hf : findIdx '|' w with
  | none => simp [h3]
  | some n =>
    cases n with
    | zero => simp [h3]
    | succ m => simp [hf] at h2

theorem mentions_of_uses (w : Str) (h : wordUsesVarid (Word.ofStr w) = true) : wordMentionsVarid w = true := by
  by_cases hc : clsCond w
  · rw [ofStr_cls w hc] at h; simp [wordUsesVarid] at h
  · by_cases ha : altCond w = true
    · rw [ofStr_alts w hc ha] at h
      simp only [wordUsesVarid, List.any_eq_true, List.mem_map, List.mem_filter, decide_eq_true_eq] at h
      obtain ⟨A, ⟨a, ⟨hmem, _⟩, rfl⟩, hA⟩ := h
      have := atom_varid_spelling a hA
      subst this
      obtain ⟨pre, suf, e⟩ := splitOn_infix '|' w _ hmem
      exact mentions_of_infix w pre suf e
    · have ha' : altCond w = false := by simpa using ha
      by_cases hb : w.take 2 = ['!', '!']
      · rw [ofStr_neg w hc ha' hb] at h; simp [wordUsesVarid] at h
      · rw [ofStr_one w hc ha' hb] at h
        simp only [wordUsesVarid, decide_eq_true_eq] at h
        have := atom_varid_spelling w h
        exact mentions_of_infix w [] [] (by simp [this])

theorem wordOk_of_not_mentions (w : Wire.Str) (h : wordMentionsVarid w = false) : wordOk 0 (Word.ofStr w) := by
  have hu : wordUsesVarid (Word.ofStr w) = false := by
    cases hh : wordUsesVarid (Word.ofStr w) with
    | false => rfl
    | true => rw [mentions_of_uses w hh] at h; cases h
  cases hw : Word.ofStr w with
  | cls _ => trivial
  | neg _ => trivial
  | alts as opt =>
    rw [hw] at hu
    simp only [wordUsesVarid, List.any_eq_false, decide_eq_true_eq] at hu
    exact fun a ha => Or.inl (hu a ha)
  | one a =>
    rw [hw] at hu
    simp only [wordUsesVarid, decide_eq_false_iff_not] at hu
    exact Or.inl hu

/-- the code emitted for a word starts with the pending goto and, if needed, the varid check -/
theorem compileWords_head (hv : Bool) (w : Wire.Str) (ws : List Wire.Str) (g : Goto) (chk : Bool) :
    ∃ tail, compileWords hv (w :: ws) g chk =
      g.steps ++ (if (hv && wordMentionsVarid w && !chk) = true then [Step.checkVarid] else []) ++ tail := by
  simp only [compileWords]
  cases Word.ofStr w with
  | cls cs => simp only [List.append_assoc]; exact ⟨_, rfl⟩
  | alts as opt =>
    cases opt
    · simp only [Bool.false_eq_true, if_false, List.append_assoc]; exact ⟨_, rfl⟩
    · simp only [if_true, List.append_assoc]; exact ⟨_, rfl⟩
  | neg s => simp only [List.append_assoc]; exact ⟨_, rfl⟩
  | one a => simp only [List.append_assoc]; exact ⟨_, rfl⟩

/-! ### the core induction: compiled words from any goto state versus the language

In the *error regime* (`hasVarid`, `v = 0`, check not yet emitted) the compiled code throws at the
first word that spells `%varid%`, whatever the tokens are; the language only throws when a
`%varid%` alternative is evaluated.  So in general the compiled result is the language result or
an InternalError under varid 0. -/

theorem run_compileWords (hv : Bool) (v : Nat) :
    ∀ (ws : List Str) (g : Goto) (chk : Bool) (ts : List Tok),
      (∀ t ∈ ts, TokWF t = true) →
      (((v ≠ 0 ∨ hv = false) ∧ ∀ w ∈ ws, wordOk v (Word.ofStr w)) ∨ (hv = true ∧ v = 0 ∧ chk = false)) →
      run (compileWords hv ws g chk) ts v = langWords (ws.map Word.ofStr) (advance g ts) v ∨
        (hv = true ∧ v = 0 ∧ run (compileWords hv ws g chk) ts v = .err) := by
  intro ws
  induction ws with
  | nil => intro g chk ts _ _; left; simp [compileWords, run, langWords]
  | cons w ws ih =>
    intro g chk ts hts hreg
    by_cases hE : hv = true ∧ v = 0 ∧ chk = false ∧ wordMentionsVarid w = true
    · -- error regime and the word spells %varid%: the emitted check throws
      obtain ⟨h1, h2, h3, h4⟩ := hE
      right
      refine ⟨h1, h2, ?_⟩
      obtain ⟨tail, ht⟩ := compileWords_head hv w ws g chk
      rw [ht, List.append_assoc, run_goto]
      simp [h1, h3, h4, run, h2]
    · have hck' : ∀ (p : Prog) (ts' : List Tok),
          run ((if (hv && wordMentionsVarid w && !chk) = true then [Step.checkVarid] else []) ++ p) ts' v = run p ts' v := by
        intro p ts'
        split
        · rename_i hb
          simp only [Bool.and_eq_true, Bool.not_eq_true'] at hb
          rcases hreg with ⟨h | h, _⟩ | ⟨h1, h2, h3⟩
          · simp [run, h]
          · rw [h] at hb; simp at hb
          · exact absurd ⟨h1, h2, h3, hb.1.2⟩ hE
        · rfl
      have hw : wordOk v (Word.ofStr w) := by
        rcases hreg with ⟨_, h⟩ | ⟨h1, h2, h3⟩
        · exact h w (by simp)
        · subst h2
          apply wordOk_of_not_mentions
          cases hm : wordMentionsVarid w with
          | false => rfl
          | true => exact absurd ⟨h1, rfl, h3, hm⟩ hE
      have hreg' : ((v ≠ 0 ∨ hv = false) ∧ ∀ w' ∈ ws, wordOk v (Word.ofStr w')) ∨
          (hv = true ∧ v = 0 ∧ (chk || (hv && wordMentionsVarid w && !chk)) = false) := by
        rcases hreg with ⟨h, h'⟩ | ⟨h1, h2, h3⟩
        · exact Or.inl ⟨h, fun w' hw' => h' w' (by simp [hw'])⟩
        · right
          refine ⟨h1, h2, ?_⟩
          cases hm : wordMentionsVarid w with
          | false => simp [h3]
          | true => exact absurd ⟨h1, h2, h3, hm⟩ hE
      have hadv : ∀ t ∈ advance g ts, TokWF t = true := by
        intro t ht
        cases g <;> simp only [advance] at ht
        · exact hts t ht
        · exact hts t (List.mem_of_mem_drop ht)
        · exact hts t (List.mem_of_mem_drop ht)
      have ih' := fun g' ts' hts' => ih g' (chk || (hv && wordMentionsVarid w && !chk)) ts' hts' hreg'
      simp only [compileWords, List.map_cons]
      generalize hA : advance g ts = A at hadv
      cases hwd : Word.ofStr w with
      | cls cs =>
        simp only [List.append_assoc, run_goto, hA, hck']
        cases A with
        | nil => left; simp [run, langWords]
        | cons t r =>
          have := ih' .next (t :: r) hadv
          simp only [advance, List.drop_one, List.tail_cons] at this
          simp only [List.singleton_append, run, langWords]
          cases hs : t.str with
          | nil => left; simp
          | cons c cr =>
            cases cr with
            | nil =>
              by_cases hc : c ∈ cs
              · simpa [hc] using this
              · left; simp [hc]
            | cons _ _ => left; simp
      | alts as opt =>
        rw [hwd] at hw
        simp only [wordOk] at hw
        cases opt with
        | true =>
          simp only [if_true, List.append_assoc, run_goto, hA, hck']
          have hrec := ih' .none
          simp only [advance] at hrec
          cases A with
          | nil =>
            simp only [List.singleton_append, run, langWords, if_true]
            exact hrec [] (by simp)
          | cons t r =>
            have ht : TokWF t = true := hadv t (by simp)
            simp only [List.singleton_append, run, langWords, if_true, any_cond_eq as t v ht hw,
              altsR_ok as t v hw]
            by_cases hc : as.any (·.eval t v) = true
            · simp only [hc, if_true, Res.ofBool]
              exact hrec r (fun t' h' => hadv t' (by simp [h']))
            · simp only [hc, Res.ofBool, Bool.false_eq_true, if_false]
              exact hrec (t :: r) hadv
        | false =>
          simp only [Bool.false_eq_true, if_false, List.append_assoc, run_goto, hA, hck']
          cases A with
          | nil => left; simp [run, langWords]
          | cons t r =>
            have ht : TokWF t = true := hadv t (by simp)
            have := ih' .next (t :: r) hadv
            simp only [advance, List.drop_one, List.tail_cons] at this
            simp only [List.singleton_append, run, langWords, any_cond_eq as t v ht hw, altsR_ok as t v hw]
            by_cases hc : as.any (·.eval t v) = true
            · simpa [hc, Res.ofBool] using this
            · left; simp [hc, Res.ofBool]
      | neg s =>
        simp only [List.append_assoc, run_goto, hA, hck']
        have hrec := ih' .nextSafe
        simp only [advance] at hrec
        cases A with
        | nil =>
          simp only [List.singleton_append, run, langWords]
          simpa using hrec [] (by simp)
        | cons t r =>
          simp only [List.singleton_append, run, langWords]
          by_cases hs : t.str = s
          · left; simp [hs]
          · have := hrec (t :: r) hadv
            simp only [List.drop_one, List.tail_cons] at this
            simpa [hs] using this
      | one a =>
        rw [hwd] at hw
        simp only [wordOk] at hw
        simp only [List.append_assoc, run_goto, hA, hck']
        cases A with
        | nil => left; simp [run, langWords]
        | cons t r =>
          have ht : TokWF t = true := hadv t (by simp)
          have := ih' .next (t :: r) hadv
          simp only [advance, List.drop_one, List.tail_cons] at this
          simp only [List.singleton_append, run, langWords, List.any_cons, List.any_nil, Bool.or_false,
            cond_eval_eq a t v ht hw, evalR_ok a t v hw]
          by_cases hc : a.eval t v = true
          · simpa [hc, Res.ofBool] using this
          · left; simp [hc, Res.ofBool]

end Cppcheck.Match

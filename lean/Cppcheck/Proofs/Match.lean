import Cppcheck.Model.Match
/- helper lemmas for C33 (core Lean only) -/
namespace Cppcheck.Match

/-- token-type invariant the compiled literal guards rely on, plus "only names carry a varid" -/
def TokWF (t : Tok) : Bool :=
  (lookupTypes t.str tokTypes = [] || (lookupTypes t.str tokTypes).contains t.ty)
  && (t.varId = 0 || t.isName)

def advance : Goto → List Tok → List Tok
  | .none, ts => ts
  | .next, ts => ts.drop 1
  | .nextSafe, ts => ts.drop 1

theorem run_goto (g : Goto) (p : Prog) (ts v) : run (g.steps ++ p) ts v = run p (advance g ts) v := by
  cases g <;> simp [Goto.steps, run, advance]

/-- an atom is acceptable when it is not `%varid%`, or the varid is non-zero -/
def atomOk (v : Nat) (a : Atom) : Prop := a ≠ .cmd .varid ∨ v ≠ 0

theorem cond_eval_eq (a : Atom) (t : Tok) (v : Nat) (ht : TokWF t = true) (h : atomOk v a) :
    (Cond.ofAtom a).eval t v = a.eval t v := by
  simp only [TokWF, Bool.and_eq_true, Bool.or_eq_true, decide_eq_true_eq] at ht
  obtain ⟨hty, hname⟩ := ht
  cases a with
  | cmd c =>
    cases c <;> simp [Cond.ofAtom, Cond.eval, Atom.eval, Cmd.eval]
    -- remaining: varid
    rcases h with h | h
    · exact absurd rfl h
    · intro hv
      rcases hname with h0 | hn
      · omega
      · exact hn
  | lit s =>
    simp only [Cond.ofAtom, Atom.eval]
    cases hl : lookupTypes s tokTypes with
    | nil => simp [Cond.eval]
    | cons ty tys =>
      simp only [Cond.eval]
      by_cases hs : t.str = s
      · subst hs
        rw [hl] at hty
        simp at hty
        simp [hty]
      · simp [hs]

theorem any_cond_eq (as : List Atom) (t : Tok) (v : Nat) (ht : TokWF t = true) (h : ∀ a ∈ as, atomOk v a) :
    (as.map Cond.ofAtom).any (·.eval t v) = as.any (·.eval t v) := by
  induction as with
  | nil => rfl
  | cons a r ih =>
    simp only [List.map_cons, List.any_cons]
    rw [cond_eval_eq a t v ht (h a (by simp)), ih (fun b hb => h b (by simp [hb]))]

def wordOk (v : Nat) : Word → Prop
  | .alts as _ => ∀ a ∈ as, atomOk v a
  | .one a => atomOk v a
  | _ => True

end Cppcheck.Match

import Cppcheck.Model.CondOpposite
import Cppcheck.Proofs.CondExpr
/-
C03 — soundness of the model of `isSameExpression` / `isOppositeCond` (helper lemmas and the inductions; the property
theorems are restated in Props/C03.lean).

`Sim` is what `isSameExpression` really establishes about two occurrences: equal value and type, or - when both
occurrences are "used as bool" - equal truth value (`!!x` against `x`, `x != 0` against `x`).
-/
namespace Cppcheck.CondExpr

def Sim (S : Sem) (c1 : Ctx) (e1 : Expr) (v1 : Int) (c2 : Ctx) (e2 : Expr) (v2 : Int) : Prop :=
  (v1 = v2 ∧ tyOf S e1 = tyOf S e2) ∨ (boolLike c1 e1 = true ∧ boolLike c2 e2 = true ∧ (v1 ≠ 0 ↔ v2 ≠ 0))

theorem Sim.symm {S c1 e1 v1 c2 e2 v2} (h : Sim S c1 e1 v1 c2 e2 v2) : Sim S c2 e2 v2 c1 e1 v1 := by
  rcases h with ⟨h1, h2⟩ | ⟨h1, h2, h3⟩
  · exact Or.inl ⟨h1.symm, h2.symm⟩
  · exact Or.inr ⟨h2, h1, h3.symm⟩

theorem Sim.truthy {S c1 e1 v1 c2 e2 v2} (h : Sim S c1 e1 v1 c2 e2 v2) : (v1 ≠ 0 ↔ v2 ≠ 0) := by
  rcases h with ⟨h1, _⟩ | ⟨_, _, h3⟩
  · subst h1; exact Iff.rfl
  · exact h3

/-- the side condition under which the soundness of `isSame` is proved -/
structure Good (S : Sem) (e : Expr) : Prop where
  ann : annOK S e = true

theorem Good.un {S a op e} (h : Good S (.un a op e)) : Good S e := by
  have h1 := h.1
  simp only [annOK, Bool.and_eq_true] at h1
  exact ⟨h1.1.1⟩

theorem Good.bin {S a op l r} (h : Good S (.bin a op l r)) : Good S l ∧ Good S r := by
  have h1 := h.1
  simp only [annOK, Bool.and_eq_true] at h1
  exact ⟨⟨h1.1.1.1⟩, ⟨h1.1.1.2⟩⟩

/-! ### evaluation of the node kinds -/

theorem eval_un {S ρ a op e v} (h : eval S ρ (.un a op e) = some v) :
    ∃ w, eval S ρ e = some w ∧ evalUn op (tyOf S e) w = some v := by
  simp only [eval] at h
  split at h
  · exact ⟨_, by assumption, h⟩
  · simp at h

theorem eval_lnot {S ρ a e v} (h : eval S ρ (.un a .lnot e) = some v) :
    ∃ w, eval S ρ e = some w ∧ v = b2i (decide (w = 0)) := by
  obtain ⟨w, h1, h2⟩ := eval_un h
  simp [evalUn] at h2
  exact ⟨w, h1, h2.symm⟩

theorem eval_bin_cop {S ρ a op l r v} (hop : op.isLogic = false) (h : eval S ρ (.bin a op l r) = some v) :
    ∃ x y, eval S ρ l = some x ∧ eval S ρ r = some y ∧ evalBin op (tyOf S l) (tyOf S r) x y = some v := by
  cases op <;> simp [BinOp.isLogic] at hop <;> simp only [eval] at h <;>
    (split at h
     · exact ⟨_, _, by assumption, by assumption, h⟩
     · simp at h)

theorem eval_land {S ρ a l r v} (h : eval S ρ (.bin a .land l r) = some v) :
    ∃ x, eval S ρ l = some x ∧ ((x = 0 ∧ v = 0) ∨ (x ≠ 0 ∧ ∃ y, eval S ρ r = some y ∧ v = b2i (decide (y ≠ 0)))) := by
  simp only [eval] at h
  cases hl : eval S ρ l with
  | none => rw [hl] at h; simp at h
  | some x =>
    rw [hl] at h
    refine ⟨x, rfl, ?_⟩
    by_cases hx : x = 0
    · simp only [hx, if_true, Option.some.injEq] at h
      exact Or.inl ⟨hx, h.symm⟩
    · simp only [hx, if_false] at h
      cases hr : eval S ρ r with
      | none => rw [hr] at h; simp at h
      | some y =>
        rw [hr] at h
        simp only [Option.some.injEq] at h
        exact Or.inr ⟨hx, y, rfl, h.symm⟩

theorem eval_lor {S ρ a l r v} (h : eval S ρ (.bin a .lor l r) = some v) :
    ∃ x, eval S ρ l = some x ∧ ((x ≠ 0 ∧ v = 1) ∨ (x = 0 ∧ ∃ y, eval S ρ r = some y ∧ v = b2i (decide (y ≠ 0)))) := by
  simp only [eval] at h
  cases hl : eval S ρ l with
  | none => rw [hl] at h; simp at h
  | some x =>
    rw [hl] at h
    refine ⟨x, rfl, ?_⟩
    by_cases hx : x = 0
    · simp only [hx, ne_eq, not_true_eq_false, if_false] at h
      cases hr : eval S ρ r with
      | none => rw [hr] at h; simp at h
      | some y =>
        rw [hr] at h
        simp only [Option.some.injEq] at h
        exact Or.inr ⟨hx, y, rfl, h.symm⟩
    · simp only [ne_eq, hx, not_false_eq_true, if_true, Option.some.injEq] at h
      exact Or.inl ⟨hx, h.symm⟩

theorem b2i_ne_zero (b : Bool) : b2i b ≠ 0 ↔ b = true := by
  cases b <;> simp [b2i]

/-! ### "bool like" occurrences -/

theorem isBoolVal_eval {S ρ e v} (hb : e.isBoolVal = true) (h : eval S ρ e = some v) :
    (v = 0 ∨ v = 1) ∧ tyOf S e = tInt := by
  cases e with
  | lit a sp => simp [Expr.isBoolVal] at hb
  | var a x => simp [Expr.isBoolVal] at hb
  | un a op e =>
    cases op <;> simp [Expr.isBoolVal] at hb
    obtain ⟨w, _, h2⟩ := eval_lnot h
    subst h2
    exact ⟨b2i_01 _, by simp [tyOf]⟩
  | bin a op l r =>
    simp only [Expr.isBoolVal, Bool.or_eq_true] at hb
    refine ⟨?_, by simp [tyOf, hb]⟩
    cases op <;> simp [BinOp.isCmp, BinOp.isLogic] at hb
    case land =>
      obtain ⟨x, _, h2⟩ := eval_land h
      rcases h2 with ⟨_, h2⟩ | ⟨_, y, _, h2⟩
      · exact Or.inl h2
      · subst h2; exact b2i_01 _
    case lor =>
      obtain ⟨x, _, h2⟩ := eval_lor h
      rcases h2 with ⟨_, h2⟩ | ⟨_, y, _, h2⟩
      · exact Or.inr h2
      · subst h2; exact b2i_01 _
    all_goals
      obtain ⟨x, y, _, _, h3⟩ := eval_bin_cop (by simp [BinOp.isLogic]) h
      simp [evalBin, BinOp.isShift] at h3
      subst h3
      exact b2i_01 _

theorem annOK_boolLike_cop {S e} (h : annOK S e = true) (hb : boolLike .cop e = true) : e.isBoolVal = true := by
  cases e with
  | lit a sp =>
    simp only [annOK, Bool.and_eq_true, beq_iff_eq] at h
    simp [boolLike, astIsBool, Expr.ann, h.1.1.1.1.2, toVT, Expr.isBoolVal, Ctx.isBool] at hb
  | var a x =>
    simp only [annOK, Bool.and_eq_true, beq_iff_eq] at h
    simp [boolLike, astIsBool, Expr.ann, h.1.1, toVT, Expr.isBoolVal, Ctx.isBool] at hb
  | un a op e =>
    simp only [annOK, Bool.and_eq_true, Bool.or_eq_true, Bool.not_eq_true', beq_iff_eq] at h
    simp only [boolLike, Ctx.isBool, Bool.or_false, Bool.or_eq_true] at hb
    rcases hb with hb | hb
    · rcases h.2 with h2 | h2
      · rw [h2] at hb; simp at hb
      · subst h2; simp [Expr.isBoolVal]
    · exact hb
  | bin a op l r =>
    simp only [annOK, Bool.and_eq_true, Bool.or_eq_true, Bool.not_eq_true'] at h
    simp only [boolLike, Ctx.isBool, Bool.or_false, Bool.or_eq_true] at hb
    rcases hb with hb | hb
    · rcases h.2 with (h2 | h2) | h2
      · rw [h2] at hb; simp at hb
      · simp [Expr.isBoolVal, h2]
      · simp [Expr.isBoolVal, h2]
    · exact hb

/-- in an operand position (`%cop%` parent) `Sim` means: same value, same type -/
theorem Sim.cop {S ρ e1 v1 e2 v2} (g1 : annOK S e1 = true) (g2 : annOK S e2 = true)
    (h1 : eval S ρ e1 = some v1) (h2 : eval S ρ e2 = some v2) (h : Sim S .cop e1 v1 .cop e2 v2) :
    v1 = v2 ∧ tyOf S e1 = tyOf S e2 := by
  rcases h with h | ⟨b1, b2, h3⟩
  · exact h
  · obtain ⟨r1, t1⟩ := isBoolVal_eval (annOK_boolLike_cop g1 b1) h1
    obtain ⟨r2, t2⟩ := isBoolVal_eval (annOK_boolLike_cop g2 b2) h2
    refine ⟨?_, by rw [t1, t2]⟩
    rcases r1 with r1 | r1 <;> rcases r2 with r2 | r2 <;> subst r1 <;> subst r2 <;> simp at h3 ⊢

/-! ### Known values -/

theorem known_val {S ρ e k v} (g : annOK S e = true) (hk : e.ann.known = some k) (h : eval S ρ e = some v) :
    k = toI64 v := by
  cases e with
  | lit a sp =>
    simp only [annOK, Bool.and_eq_true, beq_iff_eq, decide_eq_true_eq] at g
    simp only [Expr.ann] at hk
    simp only [eval] at h
    rw [wrap_of_inRange _ _ g.1.1.1.1.1] at h
    rw [g.1.1.1.2] at hk
    simp at h hk
    rw [← h, hk]
  | var a x =>
    simp only [annOK, Bool.and_eq_true, beq_iff_eq] at g
    simp only [Expr.ann] at hk
    rw [g.1.2] at hk; simp at hk
  | un a op e =>
    simp only [annOK, Bool.and_eq_true] at g
    have g2 := g.1.2
    simp only [knownOK, hk, Bool.and_eq_true] at g2
    obtain ⟨⟨⟨hc, hv⟩, _⟩, _⟩ := g2
    rw [eval_closed S ρ (fun _ => 0) _ hc] at h
    rw [h] at hv
    simpa using hv
  | bin a op l r =>
    simp only [annOK, Bool.and_eq_true] at g
    have g2 := g.1.2
    simp only [knownOK, hk, Bool.and_eq_true] at g2
    obtain ⟨⟨⟨hc, hv⟩, _⟩, _⟩ := g2
    rw [eval_closed S ρ (fun _ => 0) _ hc] at h
    rw [h] at hv
    simpa using hv

theorem first_known {S e k} (g : annOK S e = true) (hk : e.ann.first = some k) : e.ann.known = some k := by
  cases e with
  | lit a sp =>
    simp only [annOK, Bool.and_eq_true, beq_iff_eq] at g
    simp only [Expr.ann] at hk ⊢
    rw [← g.1.1.2, hk]
  | var a x =>
    simp only [annOK, Bool.and_eq_true, beq_iff_eq] at g
    simp only [Expr.ann] at hk
    rw [g.2] at hk; simp at hk
  | un a op e =>
    simp only [annOK, Bool.and_eq_true] at g
    have g2 := g.1.2
    simp only [knownOK] at g2
    split at g2
    · simp only [beq_iff_eq] at g2; rw [g2] at hk; simp at hk
    · rename_i k' hk'
      simp only [Bool.and_eq_true, beq_iff_eq] at g2
      rw [g2.1.2] at hk
      simp at hk; subst hk; exact hk'
  | bin a op l r =>
    simp only [annOK, Bool.and_eq_true] at g
    have g2 := g.1.2
    simp only [knownOK] at g2
    split at g2
    · simp only [beq_iff_eq] at g2; rw [g2] at hk; simp at hk
    · rename_i k' hk'
      simp only [Bool.and_eq_true, beq_iff_eq] at g2
      rw [g2.1.2] at hk
      simp at hk; subst hk; exact hk'

/-! ### `isSameExpression` -/

theorem dblNot_spec {e x : Expr} (h : e.dblNot = some x) : ∃ a a', e = .un a .lnot (.un a' .lnot x) := by
  unfold Expr.dblNot at h
  split at h
  · simp at h; subst h; exact ⟨_, _, rfl⟩
  · simp at h

theorem binTy_comm (op : BinOp) (ta tb : Ty) (h : op.commutative = true) : binTy op ta tb = binTy op tb ta := by
  cases op <;> simp [BinOp.commutative] at h <;> simp [binTy, BinOp.isCmp, BinOp.isLogic, BinOp.isShift, uac_comm ta tb]

theorem strEq_bin {a1 o1 l1 r1 a2 o2 l2 r2} : (Expr.bin a1 o1 l1 r1).strEq (.bin a2 o2 l2 r2) = true ↔ o1 = o2 := by
  simp [Expr.strEq]

theorem notArg_spec {e x : Expr} (h : e.notArg = some x) : ∃ a, e = .un a .lnot x := by
  unfold Expr.notArg at h
  split at h
  · simp at h; subst h; exact ⟨_, rfl⟩
  · simp at h

theorem eqNeKnown_spec {l r vt : Expr} {k : Int} (h : eqNeKnown l r = some (k, vt)) :
    ∃ kt, kt.ann.known = some k ∧ ((kt = l ∧ vt = r) ∨ (kt = r ∧ vt = l)) := by
  unfold eqNeKnown at h
  split at h
  · rename_i k' hk
    simp at h; obtain ⟨rfl, rfl⟩ := h
    exact ⟨l, hk, Or.inl ⟨rfl, rfl⟩⟩
  · split at h
    · rename_i k' hk
      simp at h; obtain ⟨rfl, rfl⟩ := h
      exact ⟨r, hk, Or.inr ⟨rfl, rfl⟩⟩
    · simp at h

theorem eqNeCompare_op {k : Int} {n : Bool} {op : BinOp} (h : eqNeCompare k n op = true) : op = .eq ∨ op = .ne := by
  simp only [eqNeCompare, Bool.or_eq_true, Bool.and_eq_true, beq_iff_eq] at h
  rcases h with ((h | h) | h) | h
  · exact Or.inl h.2
  · exact Or.inr h.2
  · exact Or.inr h.2
  · exact Or.inl h.2

theorem eqNeCompare_k01 {k : Int} {n : Bool} {op : BinOp} (h : eqNeCompare k n op = true) : k = 0 ∨ k = 1 := by
  simp only [eqNeCompare, Bool.or_eq_true, Bool.and_eq_true, beq_iff_eq] at h
  rcases h with ((h | h) | h) | h
  · exact Or.inl h.1.1
  · exact Or.inl h.1.1
  · exact Or.inr h.1.1
  · exact Or.inr h.1.1

/-- value of an `==`/`!=` between two 0/1 values -/
theorem eqne_val {S ρ ac op l r vc x y} (hop : op = .eq ∨ op = .ne) (hc : eval S ρ (.bin ac op l r) = some vc)
    (hx : eval S ρ l = some x) (hy : eval S ρ r = some y) (x01 : x = 0 ∨ x = 1) (y01 : y = 0 ∨ y = 1) :
    vc = b2i (if op = .eq then decide (x = y) else decide (x ≠ y)) := by
  have hlog : op.isLogic = false := by rcases hop with h | h <;> subst h <;> rfl
  obtain ⟨x', y', hx', hy', hv⟩ := eval_bin_cop hlog hc
  rw [hx] at hx'; rw [hy] at hy'
  simp only [Option.some.injEq] at hx' hy'
  subst hx'; subst hy'
  have wx := wrap_uac_01 (tyOf S l) (tyOf S r) x x01
  have wy := wrap_uac_01 (tyOf S l) (tyOf S r) y y01
  rcases hop with h | h <;> subst h <;> simp [evalBin, BinOp.isShift, wx, wy] at hv <;> subst hv <;> simp

theorem tt_not {k u w : Int} {op : BinOp} (hk : k = 0 ∨ k = 1) (hu : u = 0 ∨ u = 1)
    (hc : eqNeCompare k true op = true) (ht : u ≠ 0 ↔ w ≠ 0) :
    b2i (if op = .eq then decide (u = k) else decide (u ≠ k)) = b2i (decide (w = 0)) ∧
    b2i (if op = .eq then decide (k = u) else decide (k ≠ u)) = b2i (decide (w = 0)) := by
  rcases eqNeCompare_op hc with rfl | rfl <;> rcases hk with rfl | rfl <;> rcases hu with rfl | rfl <;>
    simp [eqNeCompare] at hc ⊢ <;> simp_all

theorem tt_pos {k u w : Int} {op : BinOp} (hk : k = 0 ∨ k = 1) (hu : u = 0 ∨ u = 1)
    (hc : eqNeCompare k false op = true) (ht : u ≠ 0 ↔ w ≠ 0) :
    (b2i (if op = .eq then decide (u = k) else decide (u ≠ k)) ≠ 0 ↔ w ≠ 0) ∧
    (b2i (if op = .eq then decide (k = u) else decide (k ≠ u)) ≠ 0 ↔ w ≠ 0) := by
  rcases eqNeCompare_op hc with rfl | rfl <;> rcases hk with rfl | rfl <;> rcases hu with rfl | rfl <;>
    simp [eqNeCompare] at hc ⊢ <;> simp_all [b2i]

/-- the `==|!=` rule (astutils.cpp:1672-1709) on admissible inputs: the pair it recurses on is evaluated and relates back
    to the original pair -/
theorem eqNeCond_sound {S ρ cond ce expr ca a cb b vc ve}
    (hp : eqNeCond cond ce expr = some (ca, a, cb, b))
    (gc : Good S cond) (ge : Good S expr)
    (hc : eval S ρ cond = some vc) (he : eval S ρ expr = some ve) :
    Good S a ∧ Good S b ∧
    ∃ u w, eval S ρ a = some u ∧ eval S ρ b = some w ∧
      (Sim S ca a u cb b w → ∀ cc, Sim S cc cond vc ce expr ve) := by
  cases cond with
  | lit _ _ => simp [eqNeCond] at hp
  | var _ _ => simp [eqNeCond] at hp
  | un _ _ _ => simp [eqNeCond] at hp
  | bin ac op l r =>
    simp only [eqNeCond] at hp
    split at hp
    · simp at hp
    · cases hkn : eqNeKnown l r with
      | none => rw [hkn] at hp; simp at hp
      | some p =>
        obtain ⟨k, vt⟩ := p
        rw [hkn] at hp
        simp only at hp
        obtain ⟨kt, hkt, hside⟩ := eqNeKnown_spec hkn
        obtain ⟨gl, gr⟩ := gc.bin
        have gkt : Good S kt := by rcases hside with ⟨rfl, _⟩ | ⟨rfl, _⟩ <;> assumption
        have gvt : Good S vt := by rcases hside with ⟨_, rfl⟩ | ⟨_, rfl⟩ <;> assumption
        -- common part once `compare` and the two bool-like tests hold
        have core : ∀ (n : Bool), eqNeCompare k n op = true → boolLike .cop vt = true →
            (k = 0 ∨ k = 1) ∧ (op = .eq ∨ op = .ne) ∧
            ∃ u, eval S ρ vt = some u ∧ (u = 0 ∨ u = 1) ∧
              (vc = b2i (if op = .eq then decide (u = k) else decide (u ≠ k)) ∨
               vc = b2i (if op = .eq then decide (k = u) else decide (k ≠ u))) := by
          intro n hcmp hbl
          have hop := eqNeCompare_op hcmp
          have hk01 : k = 0 ∨ k = 1 := eqNeCompare_k01 hcmp
          have hlog : op.isLogic = false := by rcases hop with h | h <;> subst h <;> rfl
          obtain ⟨x, y, hx, hy, _⟩ := eval_bin_cop hlog hc
          have hbv := annOK_boolLike_cop gvt.1 hbl
          refine ⟨hk01, hop, ?_⟩
          rcases hside with ⟨rfl, rfl⟩ | ⟨rfl, rfl⟩
          · have hkv : x = k := toI64_eq_01 _ _ _ (eval_inRange S ρ _ _ hx) hk01 (known_val gkt.1 hkt hx)
            have hu := (isBoolVal_eval hbv hy).1
            refine ⟨y, hy, hu, Or.inr ?_⟩
            have := eqne_val hop hc hx hy (hkv ▸ hk01) hu
            rw [hkv] at this; exact this
          · have hkv : y = k := toI64_eq_01 _ _ _ (eval_inRange S ρ _ _ hy) hk01 (known_val gkt.1 hkt hy)
            have hu := (isBoolVal_eval hbv hx).1
            refine ⟨x, hx, hu, Or.inl ?_⟩
            have := eqne_val hop hc hx hy hu (hkv ▸ hk01)
            rw [hkv] at this; exact this
        cases hn : expr.notArg with
        | some x =>
          rw [hn] at hp
          simp only at hp
          split at hp
          · rename_i hcond
            simp only [Option.some.injEq, Prod.mk.injEq] at hp
            obtain ⟨rfl, rfl, rfl, rfl⟩ := hp
            simp only [Bool.and_eq_true] at hcond
            obtain ⟨⟨hcmp, hbl1⟩, _⟩ := hcond
            obtain ⟨hk01, hop, u, hu, hu01, hvc⟩ := core true hcmp hbl1
            obtain ⟨ae, rfl⟩ := notArg_spec hn
            obtain ⟨w, hw, hve⟩ := eval_lnot he
            refine ⟨gvt, ge.un, u, w, hu, hw, ?_⟩
            intro hs cc
            have tt := tt_not hk01 hu01 hcmp hs.truthy
            left
            refine ⟨?_, by rcases hop with h | h <;> subst h <;> simp [tyOf, BinOp.isCmp, BinOp.isLogic]⟩
            rw [hve]
            rcases hvc with h | h <;> rw [h]
            · exact tt.1
            · exact tt.2
          · simp at hp
        | none =>
          rw [hn] at hp
          simp only at hp
          split at hp
          · rename_i hcond
            simp only [Option.some.injEq, Prod.mk.injEq] at hp
            obtain ⟨rfl, rfl, rfl, rfl⟩ := hp
            simp only [Bool.and_eq_true] at hcond
            obtain ⟨⟨hcmp, hbl1⟩, hbl2⟩ := hcond
            obtain ⟨hk01, hop, u, hu, hu01, hvc⟩ := core false hcmp hbl1
            refine ⟨gvt, ge, u, ve, hu, he, ?_⟩
            intro hs cc
            have tt := tt_pos hk01 hu01 hcmp hs.truthy
            right
            refine ⟨by rcases hop with h | h <;> subst h <;> simp [boolLike, Expr.isBoolVal, BinOp.isCmp], hbl2, ?_⟩
            rcases hvc with h | h <;> rw [h]
            · exact tt.1
            · exact tt.2
          · simp at hp

theorem dblNot_eval {S ρ e x v} (h : e.dblNot = some x) (g : Good S e) (he : eval S ρ e = some v) :
    Good S x ∧ e.isBoolVal = true ∧ ∃ w, eval S ρ x = some w ∧ (v ≠ 0 ↔ w ≠ 0) := by
  obtain ⟨a, a', rfl⟩ := dblNot_spec h
  obtain ⟨w1, hw1, hv⟩ := eval_lnot he
  obtain ⟨w, hw, hv1⟩ := eval_lnot hw1
  refine ⟨g.un.un, by simp [Expr.isBoolVal], w, hw, ?_⟩
  subst hv; subst hv1
  by_cases hw0 : w = 0 <;> simp [b2i, hw0]

theorem sameConst_sound {S ρ e1 e2 v1 v2} (h : sameConst e1 e2 = true) (g1 : annOK S e1 = true) (g2 : annOK S e2 = true)
    (h1 : eval S ρ e1 = some v1) (h2 : eval S ρ e2 = some v2) : v1 = v2 ∧ tyOf S e1 = tyOf S e2 := by
  unfold sameConst at h
  split at h
  · rename_i a1 s1 a2 s2
    simp only [Bool.and_eq_true] at h
    obtain ⟨hvt, hk⟩ := h
    simp only [annOK, Bool.and_eq_true, beq_iff_eq, decide_eq_true_eq] at g1 g2
    obtain ⟨⟨⟨⟨⟨r1, vt1⟩, k1⟩, f1⟩, _⟩, _⟩ := g1
    obtain ⟨⟨⟨⟨⟨r2, vt2⟩, k2⟩, f2⟩, _⟩, _⟩ := g2
    rw [vt1, vt2] at hvt
    simp only [Bool.and_eq_true, beq_iff_eq] at hvt
    have hty : S.lty s1 = S.lty s2 := by
      apply toVT_inj
      cases h1 : toVT (S.lty s1); cases h2 : toVT (S.lty s2)
      rw [h1, h2] at hvt
      simp at hvt ⊢
      exact hvt
    simp only [equalKnown, Expr.ann, f1, f2, k1, k2, beq_iff_eq] at hk
    simp only [eval, Option.some.injEq] at h1 h2
    rw [wrap_of_inRange _ _ r1] at h1
    rw [wrap_of_inRange _ _ r2] at h2
    subst h1; subst h2
    refine ⟨?_, by simp [tyOf, hty]⟩
    exact toI64_inj (S.lty s2) _ _ (hty ▸ r1) r2 hk
  · simp at h

theorem flipPick_spec {e1 e2 a b c d} (h : flipPick e1 e2 = some (a, b, c, d)) :
    ∃ a1 o1 a2 o2, e1 = .bin a1 o1 a c ∧ e2 = .bin a2 o2 d b ∧ flipPair o1 o2 = true := by
  unfold flipPick at h
  split at h
  · split at h
    · simp at h; obtain ⟨rfl, rfl, rfl, rfl⟩ := h; exact ⟨_, _, _, _, rfl, rfl, by assumption⟩
    · simp at h
  · simp at h

theorem flip_val {o1 o2 : BinOp} {ta tb : Ty} {x y : Int} (hne : o1 ≠ o2) (hf : flipPair o1 o2 = true) :
    evalBin o1 ta tb x y = evalBin o2 tb ta y x ∧ binTy o1 ta tb = binTy o2 tb ta := by
  cases o1 <;> cases o2 <;> simp [flipPair] at hf hne <;>
    simp [evalBin, BinOp.isShift, uac_comm tb ta, binTy, BinOp.isCmp, BinOp.isLogic] <;> congr 1 <;> simp <;>
    constructor <;> intro h <;> omega

/-- what the induction hypothesis gives for a pair of operands -/
def Rel (S : Sem) (ρ : Env) (c : Ctx) (a b : Expr) : Prop :=
  ∀ va vb, eval S ρ a = some va → eval S ρ b = some vb → Sim S c a va c b vb

theorem comm_cop_list {o : BinOp} (hc : o.commutative = true) (hl : o.isLogic = false) :
    o = .add ∨ o = .mul ∨ o = .band ∨ o = .bor ∨ o = .bxor ∨ o = .eq ∨ o = .ne := by
  cases o <;> simp [BinOp.commutative, BinOp.isLogic] at hc hl ⊢

theorem binSame_sound {S ρ o a1 l1 r1 a2 l2 r2 v1 v2}
    (gl1 : annOK S l1 = true) (gr1 : annOK S r1 = true) (gl2 : annOK S l2 = true) (gr2 : annOK S r2 = true)
    (h : (Rel S ρ (childCtxB o) l1 l2 ∧ Rel S ρ (childCtxB o) r1 r2) ∨
         (o.commutative = true ∧ Rel S ρ (childCtxB o) r1 l2 ∧ Rel S ρ (childCtxB o) l1 r2))
    (h1 : eval S ρ (.bin a1 o l1 r1) = some v1) (h2 : eval S ρ (.bin a2 o l2 r2) = some v2) :
    v1 = v2 ∧ tyOf S (.bin a1 o l1 r1) = tyOf S (.bin a2 o l2 r2) := by
  by_cases hlog : o.isLogic = true
  · have hty : tyOf S (.bin a1 o l1 r1) = tyOf S (.bin a2 o l2 r2) := by simp [tyOf, hlog]
    refine ⟨?_, hty⟩
    cases o <;> simp [BinOp.isLogic] at hlog
    case land =>
      simp only [childCtxB] at h
      obtain ⟨x1, hx1, c1⟩ := eval_land h1
      obtain ⟨x2, hx2, c2⟩ := eval_land h2
      rcases h with ⟨hl, hr⟩ | ⟨_, hrl, hlr⟩
      · have t := (hl x1 x2 hx1 hx2).truthy
        rcases c1 with ⟨z1, rfl⟩ | ⟨n1, y1, hy1, rfl⟩ <;> rcases c2 with ⟨z2, rfl⟩ | ⟨n2, y2, hy2, rfl⟩
        · rfl
        · exact absurd (t.mpr n2) (by simp [z1])
        · exact absurd (t.mp n1) (by simp [z2])
        · have t2 := (hr y1 y2 hy1 hy2).truthy
          by_cases hy : y1 = 0 <;> simp_all [b2i]
      · rcases c1 with ⟨z1, rfl⟩ | ⟨n1, y1, hy1, rfl⟩ <;> rcases c2 with ⟨z2, rfl⟩ | ⟨n2, y2, hy2, rfl⟩
        · rfl
        · have t := (hlr x1 y2 hx1 hy2).truthy
          simp_all [b2i]
        · have t := (hrl y1 x2 hy1 hx2).truthy
          simp_all [b2i]
        · have t := (hlr x1 y2 hx1 hy2).truthy
          have t2 := (hrl y1 x2 hy1 hx2).truthy
          simp_all [b2i]
    case lor =>
      simp only [childCtxB] at h
      obtain ⟨x1, hx1, c1⟩ := eval_lor h1
      obtain ⟨x2, hx2, c2⟩ := eval_lor h2
      rcases h with ⟨hl, hr⟩ | ⟨_, hrl, hlr⟩
      · have t := (hl x1 x2 hx1 hx2).truthy
        rcases c1 with ⟨n1, rfl⟩ | ⟨z1, y1, hy1, rfl⟩ <;> rcases c2 with ⟨n2, rfl⟩ | ⟨z2, y2, hy2, rfl⟩
        · rfl
        · exact absurd (t.mp n1) (by simp [z2])
        · exact absurd (t.mpr n2) (by simp [z1])
        · have t2 := (hr y1 y2 hy1 hy2).truthy
          by_cases hy : y1 = 0 <;> simp_all [b2i]
      · rcases c1 with ⟨n1, rfl⟩ | ⟨z1, y1, hy1, rfl⟩ <;> rcases c2 with ⟨n2, rfl⟩ | ⟨z2, y2, hy2, rfl⟩
        · rfl
        · have t := (hlr x1 y2 hx1 hy2).truthy
          simp_all [b2i]
        · have t := (hrl y1 x2 hy1 hx2).truthy
          simp_all [b2i]
        · have t := (hlr x1 y2 hx1 hy2).truthy
          have t2 := (hrl y1 x2 hy1 hx2).truthy
          by_cases hy : y1 = 0 <;> simp_all [b2i]
  · have hlog' : o.isLogic = false := by simpa using hlog
    have hcc : childCtxB o = .cop := by cases o <;> simp [BinOp.isLogic] at hlog' <;> rfl
    rw [hcc] at h
    obtain ⟨x1, y1, hx1, hy1, e1⟩ := eval_bin_cop hlog' h1
    obtain ⟨x2, y2, hx2, hy2, e2⟩ := eval_bin_cop hlog' h2
    rw [tyOf_bin, tyOf_bin]
    rcases h with ⟨hl, hr⟩ | ⟨hc, hrl, hlr⟩
    · obtain ⟨rfl, tl⟩ := Sim.cop gl1 gl2 hx1 hx2 (hl x1 x2 hx1 hx2)
      obtain ⟨rfl, tr⟩ := Sim.cop gr1 gr2 hy1 hy2 (hr y1 y2 hy1 hy2)
      rw [tl, tr] at e1
      rw [e1] at e2
      exact ⟨by simpa using e2, by rw [tl, tr]⟩
    · obtain ⟨rfl, t1⟩ := Sim.cop gr1 gl2 hy1 hx2 (hrl y1 x2 hy1 hx2)
      obtain ⟨rfl, t2⟩ := Sim.cop gl1 gr2 hx1 hy2 (hlr x1 y2 hx1 hy2)
      rw [← t1, ← t2, ← evalBin_comm o _ _ _ _ (comm_cop_list hc hlog'), e1] at e2
      exact ⟨by simpa using e2, by rw [← t1, ← t2, binTy_comm o _ _ hc]⟩

theorem isSameF_sound (S : Sem) (cpp : Bool) (ρ : Env) :
    ∀ (n : Nat) (c1 : Ctx) (e1 : Expr) (c2 : Ctx) (e2 : Expr), Good S e1 → Good S e2 →
      isSameF cpp n c1 e1 c2 e2 = true →
      ∀ v1 v2, eval S ρ e1 = some v1 → eval S ρ e2 = some v2 → Sim S c1 e1 v1 c2 e2 v2 := by
  intro n
  induction n with
  | zero => intro _ _ _ _ _ _ h; simp [isSameF] at h
  | succ n ih =>
    intro c1 e1 c2 e2 g1 g2 h v1 v2 h1 h2
    unfold isSameF at h
    split at h
    · -- `!!x` on the left
      rename_i x hx
      split at hx
      · rename_i hb2
        obtain ⟨gx, hbv, w, hw, ht⟩ := dblNot_eval hx g1 h1
        have := (ih _ _ _ _ gx g2 h w v2 hw h2).truthy
        exact Or.inr ⟨by simp [boolLike, hbv], hb2, ht.trans this⟩
      · simp at hx
    · split at h
      · -- `!!y` on the right
        rename_i y hy
        split at hy
        · rename_i hb1
          obtain ⟨gy, hbv, w, hw, ht⟩ := dblNot_eval hy g2 h2
          have := (ih _ _ _ _ g1 gy h v1 w h1 hw).truthy
          exact Or.inr ⟨hb1, by simp [boolLike, hbv], this.trans ht.symm⟩
        · simp at hy
      · split at h
        · simp at h
        · split at h
          · rename_i hsc
            exact Or.inl (sameConst_sound hsc g1.1 g2.1 h1 h2)
          · split at h
            · rename_i hne
              split at h
              · -- `<` against `>`
                rename_i a b c d hfp
                obtain ⟨a1, o1, a2, o2, rfl, rfl, hf⟩ := flipPick_spec hfp
                simp only [Bool.and_eq_true] at h
                have hlog1 : o1.isLogic = false := by cases o1 <;> cases o2 <;> simp [flipPair] at hf <;> rfl
                have hlog2 : o2.isLogic = false := by cases o1 <;> cases o2 <;> simp [flipPair] at hf <;> rfl
                have hoo : o1 ≠ o2 := by
                  intro e; subst e; simp [Expr.strEq] at hne
                obtain ⟨x1, y1, hx1, hy1, e1⟩ := eval_bin_cop hlog1 h1
                obtain ⟨x2, y2, hx2, hy2, e2⟩ := eval_bin_cop hlog2 h2
                obtain ⟨gl1, gr1⟩ := g1.bin
                obtain ⟨gl2, gr2⟩ := g2.bin
                obtain ⟨rfl, t1⟩ := Sim.cop gl1.1 gr2.1 hx1 hy2 (ih _ _ _ _ gl1 gr2 h.1 x1 y2 hx1 hy2)
                obtain ⟨rfl, t2⟩ := Sim.cop gr1.1 gl2.1 hy1 hx2 (ih _ _ _ _ gr1 gl2 h.2 y1 x2 hy1 hx2)
                obtain ⟨fv, ft⟩ := @flip_val o1 o2 (tyOf S a) (tyOf S c) x1 y1 hoo hf
                left
                rw [tyOf_bin, tyOf_bin, ← t1, ← t2]
                rw [fv, t1, t2, e2] at e1
                exact ⟨by simpa using e1.symm, ft⟩
              · split at h
                · -- `==|!=` against a boolean expression
                  rename_i ca a cb b hpick
                  unfold eqNePick at hpick
                  split at hpick
                  · obtain ⟨ga, gb, u, w, hu, hw, hsim⟩ := eqNeCond_sound hpick g1 g2 h1 h2
                    exact hsim (ih _ _ _ _ ga gb h u w hu hw) c1
                  · split at hpick
                    · obtain ⟨ga, gb, u, w, hu, hw, hsim⟩ := eqNeCond_sound hpick g2 g1 h2 h1
                      exact (hsim (ih _ _ _ _ ga gb h u w hu hw) c2).symm
                    · simp at hpick
                · simp at h
            · -- same token string
              rename_i hse
              split at h
              · simp [Expr.strEq] at hse
                subst hse
                simp only [eval, Option.some.injEq] at h1 h2
                exact Or.inl ⟨by rw [← h1, ← h2], by simp [tyOf]⟩
              · simp [Expr.strEq] at hse
                subst hse
                simp only [eval, Option.some.injEq] at h1 h2
                exact Or.inl ⟨by rw [← h1, ← h2], by simp [tyOf]⟩
              · rename_i a1 o1 x1 a2 o2 x2 q1 q2 q3 q4
                simp [Expr.strEq] at hse
                subst hse
                obtain ⟨w1, hw1, r1⟩ := eval_un h1
                obtain ⟨w2, hw2, r2⟩ := eval_un h2
                have hs := ih _ _ _ _ g1.un g2.un h w1 w2 hw1 hw2
                left
                rw [tyOf_un, tyOf_un]
                cases o1
                case lnot =>
                  have t := hs.truthy
                  simp [evalUn] at r1 r2
                  subst r1; subst r2
                  refine ⟨?_, by simp [unTy]⟩
                  by_cases hw : w1 = 0 <;> simp_all [b2i]
                all_goals
                  simp only [childCtxU] at hs
                  obtain ⟨rfl, t⟩ := Sim.cop g1.un.1 g2.un.1 hw1 hw2 hs
                  rw [t, r2] at r1
                  exact ⟨by simpa using r1.symm, by rw [t]⟩
              · simp [Expr.strEq] at hse
                subst hse
                obtain ⟨gl1, gr1⟩ := g1.bin
                obtain ⟨gl2, gr2⟩ := g2.bin
                simp only [Bool.or_eq_true, Bool.and_eq_true] at h
                refine Or.inl (binSame_sound gl1.1 gr1.1 gl2.1 gr2.1 ?_ h1 h2)
                rcases h with ⟨ha, hb⟩ | ⟨⟨⟨_, hc⟩, ha⟩, hb⟩
                · exact Or.inl ⟨fun va vb => ih _ _ _ _ gl1 gl2 ha va vb, fun va vb => ih _ _ _ _ gr1 gr2 hb va vb⟩
                · exact Or.inr ⟨hc, fun va vb => ih _ _ _ _ gr1 gl2 ha va vb, fun va vb => ih _ _ _ _ gl1 gr2 hb va vb⟩
              · simp at h

theorem isSame_sound {S cpp ρ c1 e1 c2 e2 v1 v2} (h : isSame cpp c1 e1 c2 e2 = true) (g1 : Good S e1) (g2 : Good S e2)
    (h1 : eval S ρ e1 = some v1) (h2 : eval S ρ e2 = some v2) : Sim S c1 e1 v1 c2 e2 v2 :=
  isSameF_sound S cpp ρ _ c1 e1 c2 e2 g1 g2 h v1 v2 h1 h2

/-- the relation `isOppositeCond` claims: `isNot = true`: exactly one of the two holds; `false`: not both -/
def Opp (isNot : Bool) (v1 v2 : Int) : Prop :=
  if isNot then (v1 ≠ 0 ↔ ¬ v2 ≠ 0) else ¬(v1 ≠ 0 ∧ v2 ≠ 0)

theorem Opp.of_strict {isNot v1 v2} (h : v1 ≠ 0 ↔ ¬ v2 ≠ 0) : Opp isNot v1 v2 := by
  cases isNot <;> simp only [Opp] <;> simp_all

theorem Opp.symm {isNot v1 v2} (h : Opp isNot v1 v2) : Opp isNot v2 v1 := by
  cases isNot <;> simp only [Opp] at * <;> simp_all <;> omega

/-- mathematical comparison -/
def cmpZ : BinOp → Int → Int → Bool
  | .lt, a, b => decide (a < b)
  | .le, a, b => decide (a ≤ b)
  | .gt, a, b => decide (a > b)
  | .ge, a, b => decide (a ≥ b)
  | .eq, a, b => decide (a = b)
  | .ne, a, b => decide (a ≠ b)
  | _, _, _ => false

theorem evalBin_cmp {op : BinOp} (hc : op.isCmp = true) (ta tb : Ty) (x y : Int) :
    evalBin op ta tb x y = some (b2i (cmpZ op (wrap (uac ta tb) x) (wrap (uac ta tb) y))) := by
  cases op <;> simp [BinOp.isCmp] at hc <;> simp [evalBin, BinOp.isShift, cmpZ]

theorem cmpZ_flip (o : BinOp) (a b : Int) : cmpZ (flipOp o) a b = cmpZ o b a := by
  cases o <;> simp [flipOp, cmpZ, eq_comm]

theorem flipOp_isCmp (o : BinOp) : (flipOp o).isCmp = o.isCmp := by
  cases o <;> rfl

theorem oppTable_sound {isNot : Bool} {c1 c2 : BinOp} (h : oppTable isNot c1 c2 = true) (a b : Int) :
    Opp isNot (b2i (cmpZ c1 a b)) (b2i (cmpZ c2 a b)) := by
  cases isNot <;> cases c1 <;> cases c2 <;> simp [oppTable] at h <;>
    simp [Opp, cmpZ, b2i_ne_zero] <;> omega

theorem isZeroStr_eval {S ρ e v} (hz : S.lval ['0'] = 0) (h : e.isZeroStr = true) (he : eval S ρ e = some v) : v = 0 := by
  cases e <;> simp [Expr.isZeroStr] at h
  subst h
  simp only [eval, hz, Option.some.injEq] at he
  subst he
  generalize S.lty ['0'] = t
  obtain ⟨r, s⟩ := t
  cases r <;> cases s <;> simp [wrap, Ty.bits, Rank.bits]

/-- astutils.cpp:1878-1888 (`cond1` = `!x`): `x` and `cond2` have the same truth value -/
theorem notBranch_sound {S cpp ρ x c2 cond2 w v2} (hz : S.lval ['0'] = 0)
    (h : notBranch cpp x c2 cond2 = true) (gx : Good S x) (g2 : Good S cond2)
    (hx : eval S ρ x = some w) (h2 : eval S ρ cond2 = some v2) : (w ≠ 0 ↔ v2 ≠ 0) := by
  have generic : notGeneric cpp x c2 cond2 = true → (w ≠ 0 ↔ v2 ≠ 0) := by
    intro hg
    unfold notGeneric at hg
    split at hg
    · simp at hg
    · exact (isSame_sound hg gx g2 hx h2).truthy
  unfold notBranch at h
  split at h
  · rename_i a l r
    obtain ⟨gl, gr⟩ := g2.bin
    obtain ⟨xl, yr, hl, hr, hv⟩ := eval_bin_cop (by rfl) h2
    rw [evalBin_cmp (by rfl)] at hv
    simp only [Option.some.injEq] at hv
    split at h
    · rename_i hzl
      have := isZeroStr_eval hz hzl hl
      subst this
      have t := (isSame_sound h gx gr hx hr).truthy
      rw [t, ← hv, b2i_ne_zero]
      simp only [cmpZ, decide_eq_true_eq, wrap_uac_01 _ _ 0 (Or.inl rfl)]
      have := wrap_uac_eq_zero_right (tyOf S l) (tyOf S r) yr (eval_inRange S ρ _ _ hr)
      rw [ne_comm (a := (0:Int)), Ne, Ne, this]
    · split at h
      · rename_i hzr
        have := isZeroStr_eval hz hzr hr
        subst this
        have t := (isSame_sound h gx gl hx hl).truthy
        rw [t, ← hv, b2i_ne_zero]
        simp only [cmpZ, decide_eq_true_eq, wrap_uac_01 _ _ 0 (Or.inl rfl)]
        have := wrap_uac_eq_zero_left (tyOf S l) (tyOf S r) xl (eval_inRange S ρ _ _ hl)
        rw [Ne, Ne, this]
      · exact generic h
  · exact generic h

theorem fits_val {S ρ T e v} (h : fits S T e = true) (he : eval S ρ e = some v) :
    inRange T v ∧ (e.closed = true → toI64 v = v) := by
  unfold fits at h
  split at h
  · rename_i hc
    rw [eval_closed S ρ (fun _ => 0) e hc] at he
    rw [he] at h
    simp only [Bool.and_eq_true, decide_eq_true_eq] at h
    exact ⟨h.1, fun _ => h.2⟩
  · rename_i hc
    have r := eval_inRange S ρ e v he
    simp only [subRange, Bool.and_eq_true, decide_eq_true_eq] at h
    refine ⟨⟨by unfold inRange at r; omega, by unfold inRange at r; omega⟩, fun q => absurd q hc⟩

theorem known_closed {S e k} (g : annOK S e = true) (hk : e.ann.known = some k) :
    e.closed = true ∧ e.ann.front = some k := by
  cases e with
  | lit a sp =>
    simp only [annOK, Bool.and_eq_true, beq_iff_eq] at g
    simp only [Expr.ann] at hk ⊢
    exact ⟨rfl, by rw [g.1.2, hk]⟩
  | var a x =>
    simp only [annOK, Bool.and_eq_true, beq_iff_eq] at g
    simp only [Expr.ann] at hk
    rw [g.1.2] at hk; simp at hk
  | un a op e =>
    simp only [annOK, Bool.and_eq_true] at g
    have g2 := g.1.2
    simp only [knownOK, hk, Bool.and_eq_true, beq_iff_eq] at g2
    exact ⟨g2.1.1.1, g2.2⟩
  | bin a op l r =>
    simp only [annOK, Bool.and_eq_true] at g
    have g2 := g.1.2
    simp only [knownOK, hk, Bool.and_eq_true, beq_iff_eq] at g2
    exact ⟨g2.1.1.1, g2.2⟩

/-- side conditions of the soundness of `isOpp` -/
def OGood (S : Sem) (isNot : Bool) (e : Expr) : Prop := Good S e ∧ (isNot = false → cmpSafe S e = true)

theorem OGood.un {S isNot a op e} (h : OGood S isNot (.un a op e)) : OGood S isNot e :=
  ⟨h.1.un, fun q => by have := h.2 q; simpa [cmpSafe] using this⟩

theorem OGood.bin {S isNot a op l r} (h : OGood S isNot (.bin a op l r)) : OGood S isNot l ∧ OGood S isNot r := by
  refine ⟨⟨h.1.bin.1, fun q => ?_⟩, ⟨h.1.bin.2, fun q => ?_⟩⟩ <;>
    (have := h.2 q; simp only [cmpSafe, Bool.and_eq_true] at this)
  · exact this.1.1
  · exact this.1.2

/-- an exact comparison (every comparison with a Known operand, by `cmpSafe`) is the mathematical comparison -/
theorem cmp_exact {S ρ a o l r v} (hs : cmpSafe S (.bin a o l r) = true) (hc : o.isCmp = true)
    (hk : l.ann.known.isSome = true ∨ r.ann.known.isSome = true) (h : eval S ρ (.bin a o l r) = some v) :
    ∃ X Y, eval S ρ l = some X ∧ eval S ρ r = some Y ∧ v = b2i (cmpZ o X Y) ∧
      (l.closed = true → toI64 X = X) ∧ (r.closed = true → toI64 Y = Y) := by
  simp only [cmpSafe, Bool.and_eq_true, Bool.or_eq_true, Bool.not_eq_true'] at hs
  have hfit : fits S (uac (tyOf S l) (tyOf S r)) l = true ∧ fits S (uac (tyOf S l) (tyOf S r)) r = true := by
    rcases hs.2 with q | q
    · simp only [Bool.and_eq_false_iff, Bool.or_eq_false_iff] at q
      rcases q with q | q
      · rw [hc] at q; simp at q
      · rcases hk with k | k
        · rw [k] at q; simp at q
        · rw [k] at q; simp at q
    · exact q
  have hlog : o.isLogic = false := by cases o <;> simp [BinOp.isCmp] at hc <;> rfl
  obtain ⟨X, Y, hX, hY, hv⟩ := eval_bin_cop hlog h
  obtain ⟨rX, cX⟩ := fits_val hfit.1 hX
  obtain ⟨rY, cY⟩ := fits_val hfit.2 hY
  rw [evalBin_cmp hc, wrap_of_inRange _ _ rX, wrap_of_inRange _ _ rY] at hv
  exact ⟨X, Y, hX, hY, by simpa using hv.symm, cX, cY⟩

/-- value of a Known operand = its annotation -/
theorem known_eq {S ρ e k K} (g : annOK S e = true) (hk : e.ann.known = some k) (h : eval S ρ e = some K)
    (hc : e.closed = true → toI64 K = K) : k = K := by
  rw [known_val g hk h, hc (known_closed g hk).1]

theorem diffKnown_spec {S e1 e2} (g1 : annOK S e1 = true) (g2 : annOK S e2 = true) (h : diffKnown e1 e2 = true) :
    ∃ a b, e1.ann.known = some a ∧ e2.ann.known = some b ∧ a ≠ b := by
  unfold diffKnown at h
  split at h
  · rename_i a b ha hb
    exact ⟨a, b, first_known g1 ha, first_known g2 hb, by simpa using h⟩
  · simp at h

/-- astutils.cpp:1894-1899 -/
theorem eqEqRule_sound {S cpp ρ cond1 cond2 v1 v2 b} (h : eqEqRule cpp cond1 cond2 = some b) (hb : b = true)
    (g1 : OGood S false cond1) (g2 : OGood S false cond2)
    (h1 : eval S ρ cond1 = some v1) (h2 : eval S ρ cond2 = some v2) : ¬(v1 ≠ 0 ∧ v2 ≠ 0) := by
  unfold eqEqRule at h
  split at h
  · rename_i a1 l1 r1 a2 l2 r2
    obtain ⟨gl1, gr1⟩ := g1.bin
    obtain ⟨gl2, gr2⟩ := g2.bin
    split at h
    · rename_i hs
      simp only [Option.some.injEq] at h
      rw [← h] at hb
      obtain ⟨a, b', ka, kb, hab⟩ := diffKnown_spec gr1.1.1 gr2.1.1 hb
      obtain ⟨X1, Y1, hX1, hY1, e1, _, c1⟩ := cmp_exact (g1.2 rfl) (by rfl) (Or.inr (by simp [ka])) h1
      obtain ⟨X2, Y2, hX2, hY2, e2, _, c2⟩ := cmp_exact (g2.2 rfl) (by rfl) (Or.inr (by simp [kb])) h2
      obtain ⟨rfl, _⟩ := Sim.cop gl1.1.1 gl2.1.1 hX1 hX2 (isSame_sound hs gl1.1 gl2.1 hX1 hX2)
      have q1 := known_eq gr1.1.1 ka hY1 c1
      have q2 := known_eq gr2.1.1 kb hY2 c2
      subst e1; subst e2; subst q1; subst q2
      simp only [cmpZ, b2i_ne_zero, decide_eq_true_eq]
      omega
    · split at h
      · rename_i hs
        simp only [Option.some.injEq] at h
        rw [← h] at hb
        obtain ⟨a, b', ka, kb, hab⟩ := diffKnown_spec gl1.1.1 gl2.1.1 hb
        obtain ⟨X1, Y1, hX1, hY1, e1, c1, _⟩ := cmp_exact (g1.2 rfl) (by rfl) (Or.inl (by simp [ka])) h1
        obtain ⟨X2, Y2, hX2, hY2, e2, c2, _⟩ := cmp_exact (g2.2 rfl) (by rfl) (Or.inl (by simp [kb])) h2
        obtain ⟨rfl, _⟩ := Sim.cop gr1.1.1 gr2.1.1 hY1 hY2 (isSame_sound hs gr1.1 gr2.1 hY1 hY2)
        have q1 := known_eq gl1.1.1 ka hX1 c1
        have q2 := known_eq gl2.1.1 kb hX2 c2
        subst e1; subst e2; subst q1; subst q2
        simp only [cmpZ, b2i_ne_zero, decide_eq_true_eq]
        omega
      · simp at h
  · simp at h

/-- astutils.cpp:1956-1968 + 2013-2023: same (or crosswise same) operands, comparator pair in the table -/
theorem comp2_sound {S cpp ρ isNot a1 o1 l1 r1 cond2 c2 v1 v2}
    (h : comp2 cpp (.bin a1 o1 l1 r1) cond2 = some c2) (ht : oppTable isNot o1 c2 = true)
    (g1 : Good S (.bin a1 o1 l1 r1)) (g2 : Good S cond2) (hc1 : o1.isCmp = true) (hc2 : cond2.isCmp = true)
    (h1 : eval S ρ (.bin a1 o1 l1 r1) = some v1) (h2 : eval S ρ cond2 = some v2) : Opp isNot v1 v2 := by
  unfold comp2 at h
  split at h
  · rename_i a1' o1' l1' r1' a2 o2 l2 r2 heq
    cases heq
    simp only [Expr.isCmp] at hc2
    have hlog1 : o1.isLogic = false := by cases o1 <;> simp [BinOp.isCmp] at hc1 <;> rfl
    have hlog2 : o2.isLogic = false := by cases o2 <;> simp [BinOp.isCmp] at hc2 <;> rfl
    obtain ⟨gl1, gr1⟩ := g1.bin
    obtain ⟨gl2, gr2⟩ := g2.bin
    obtain ⟨X1, Y1, hX1, hY1, e1⟩ := eval_bin_cop hlog1 h1
    obtain ⟨X2, Y2, hX2, hY2, e2⟩ := eval_bin_cop hlog2 h2
    rw [evalBin_cmp hc1] at e1
    rw [evalBin_cmp hc2] at e2
    simp only [Option.some.injEq] at e1 e2
    split at h
    · rename_i hs
      simp only [Bool.and_eq_true] at hs
      simp only [Option.some.injEq] at h
      subst h
      obtain ⟨rfl, t1⟩ := Sim.cop gl1.1 gl2.1 hX1 hX2 (isSame_sound hs.1 gl1 gl2 hX1 hX2)
      obtain ⟨rfl, t2⟩ := Sim.cop gr1.1 gr2.1 hY1 hY2 (isSame_sound hs.2 gr1 gr2 hY1 hY2)
      rw [← t1, ← t2] at e2
      rw [← e1, ← e2]
      exact oppTable_sound ht _ _
    · split at h
      · rename_i hs
        simp only [Bool.and_eq_true] at hs
        simp only [Option.some.injEq] at h
        subst h
        obtain ⟨rfl, t1⟩ := Sim.cop gl1.1 gr2.1 hX1 hY2 (isSame_sound hs.1 gl1 gr2 hX1 hY2)
        obtain ⟨rfl, t2⟩ := Sim.cop gr1.1 gl2.1 hY1 hX2 (isSame_sound hs.2 gr1 gl2 hY1 hX2)
        rw [← t1, ← t2, uac_comm, ← cmpZ_flip] at e2
        rw [← e1, ← e2]
        exact oppTable_sound ht _ _
      · simp at h
  · simp at h

theorem valueSide_spec {o l r x kn op} (h : valueSide o l r = some (x, kn, op)) :
    kn.ann.known.isSome = true ∧ ((x = l ∧ kn = r ∧ op = o) ∨ (x = r ∧ kn = l ∧ op = flipOp o)) := by
  unfold valueSide at h
  split at h
  · simp at h; obtain ⟨rfl, rfl, rfl⟩ := h; exact ⟨by assumption, Or.inl ⟨rfl, rfl, rfl⟩⟩
  · split at h
    · simp at h; obtain ⟨rfl, rfl, rfl⟩ := h; exact ⟨by assumption, Or.inr ⟨rfl, rfl, rfl⟩⟩
    · simp at h

/-- a comparison with the Known operand read on the right -/
theorem valueSide_val {S ρ a o l r x kn op v} (h : valueSide o l r = some (x, kn, op)) (g : OGood S false (.bin a o l r))
    (hc : o.isCmp = true) (hv : eval S ρ (.bin a o l r) = some v) :
    ∃ X, eval S ρ x = some X ∧ Good S x ∧ v = b2i (cmpZ op X (kn.ann.front.getD 0)) := by
  obtain ⟨hk, hside⟩ := valueSide_spec h
  obtain ⟨gl, gr⟩ := g.bin
  obtain ⟨k, hk'⟩ := Option.isSome_iff_exists.mp hk
  rcases hside with ⟨rfl, rfl, rfl⟩ | ⟨rfl, rfl, rfl⟩
  · obtain ⟨X, Y, hX, hY, e, _, cY⟩ := cmp_exact (g.2 rfl) hc (Or.inr hk) hv
    have q := known_eq gr.1.1 hk' hY cY
    refine ⟨X, hX, gl.1, ?_⟩
    rw [(known_closed gr.1.1 hk').2, e, q]; rfl
  · obtain ⟨X, Y, hX, hY, e, cX, _⟩ := cmp_exact (g.2 rfl) hc (Or.inl hk) hv
    have q := known_eq gl.1.1 hk' hX cX
    refine ⟨Y, hY, gr.1, ?_⟩
    rw [(known_closed gl.1.1 hk').2, e, q, cmpZ_flip]; rfl

/-- astutils.cpp:1970-2010 -/
theorem knownRule_sound {S cpp ρ cond1 cond2 v1 v2} (h : knownRule cpp cond1 cond2 = true)
    (g1 : OGood S false cond1) (g2 : OGood S false cond2) (hc1 : cond1.isCmp = true) (hc2 : cond2.isCmp = true)
    (h1 : eval S ρ cond1 = some v1) (h2 : eval S ρ cond2 = some v2) : ¬(v1 ≠ 0 ∧ v2 ≠ 0) := by
  unfold knownRule at h
  split at h
  · rename_i a1 o1 l1 r1 a2 o2 l2 r2
    simp only [Expr.isCmp] at hc1 hc2
    split at h
    · rename_i x1 k1 op1 x2 k2 op2 hv1 hv2
      obtain ⟨X1, hX1, gx1, e1⟩ := valueSide_val hv1 g1 hc1 h1
      obtain ⟨X2, hX2, gx2, e2⟩ := valueSide_val hv2 g2 hc2 h2
      split at h
      · simp at h
      · rename_i hs
        simp at hs
        obtain ⟨rfl, _⟩ := Sim.cop gx1.1 gx2.1 hX1 hX2 (isSame_sound hs gx1 gx2 hX1 hX2)
        subst e1; subst e2
        simp only [b2i_ne_zero]
        generalize k1.ann.front.getD 0 = A at h ⊢
        generalize k2.ann.front.getD 0 = B at h ⊢
        cases op1 <;> cases op2 <;> simp at h <;> simp [cmpZ] <;> omega
    · simp at h
  · simp at h

theorem Opp.of_weak {v1 v2} (h : ¬(v1 ≠ 0 ∧ v2 ≠ 0)) : Opp false v1 v2 := by
  simpa [Opp] using h

/-- astutils.cpp:1893-2023 -/
theorem cmpPart_sound {S cpp ρ isNot cond1 cond2 v1 v2} (h : cmpPart cpp isNot cond1 cond2 = true)
    (g1 : OGood S isNot cond1) (g2 : OGood S isNot cond2)
    (h1 : eval S ρ cond1 = some v1) (h2 : eval S ρ cond2 = some v2) : Opp isNot v1 v2 := by
  unfold cmpPart at h
  split at h
  · rename_i b hb
    split at hb
    · simp at hb
    · rename_i hn
      have : isNot = false := by simpa using hn
      subst this
      exact Opp.of_weak (eqEqRule_sound hb h g1 g2 h1 h2)
  · split at h
    · simp at h
    · rename_i hcmp
      simp only [Bool.or_eq_true, Bool.not_eq_true', not_or, Bool.not_eq_false] at hcmp
      split at h
      · split at h
        · simp at h
        · rename_i hn
          have : isNot = false := by simpa using hn
          subst this
          exact Opp.of_weak (knownRule_sound h g1 g2 hcmp.1 hcmp.2 h1 h2)
      · rename_i c2 hc2
        split at h
        · rename_i c1 hc1
          cases cond1 <;> simp [Expr.binOp?] at hc1
          subst hc1
          exact comp2_sound hc2 h g1.1 g2.1 (by simpa [Expr.isCmp] using hcmp.1) hcmp.2 h1 h2
        · simp at h

theorem not_opp {S ρ a x w v1 v2} (h1 : eval S ρ (.un a .lnot x) = some v1) (hx : eval S ρ x = some w)
    (t : w ≠ 0 ↔ v2 ≠ 0) (isNot : Bool) : Opp isNot v1 v2 := by
  obtain ⟨w', hw', hv⟩ := eval_lnot h1
  rw [hx] at hw'; simp only [Option.some.injEq] at hw'; subst hw'
  apply Opp.of_strict
  subst hv
  by_cases hw : w = 0 <;> simp_all [b2i]

/-- `(l || r)` against `c` from the two component results -/
theorem lor_opp {S ρ a l r v v' isNot} (h : eval S ρ (.bin a .lor l r) = some v)
    (hl : ∀ x, eval S ρ l = some x → Opp isNot x v') (hr : ∀ y, eval S ρ r = some y → Opp isNot y v') :
    Opp isNot v v' := by
  obtain ⟨x, hx, c⟩ := eval_lor h
  have ol := hl x hx
  rcases c with ⟨n, rfl⟩ | ⟨z, y, hy, rfl⟩
  · cases isNot <;> simp only [Opp] at * <;> simp_all
  · have or' := hr y hy
    cases isNot <;> simp only [Opp] at * <;> by_cases hy0 : y = 0 <;> simp_all [b2i]

theorem andPair_spec {c1 c2 l1 r1 l2 r2} (h : andPair c1 c2 = some (l1, r1, l2, r2)) :
    ∃ a1 a2, c1 = .bin a1 .land l1 r1 ∧ c2 = .bin a2 .land l2 r2 := by
  unfold andPair at h
  split at h
  · simp at h; obtain ⟨rfl, rfl, rfl, rfl⟩ := h; exact ⟨_, _, rfl, rfl⟩
  · simp at h

theorem lorPick_spec {c1 cond1 c2 cond2 l r co other} (h : lorPick c1 cond1 c2 cond2 = some (l, r, co, other)) :
    (∃ a, cond2 = .bin a .lor l r ∧ co = c1 ∧ other = cond1) ∨ (∃ a, cond1 = .bin a .lor l r ∧ co = c2 ∧ other = cond2) := by
  unfold lorPick at h
  split at h
  · split at h
    · simp at h; obtain ⟨rfl, rfl, rfl, rfl⟩ := h; exact Or.inl ⟨_, rfl, rfl, rfl⟩
    · split at h
      · simp at h; obtain ⟨rfl, rfl, rfl, rfl⟩ := h; exact Or.inr ⟨_, rfl, rfl, rfl⟩
      · simp at h
  · simp at h

theorem isOppF_sound (S : Sem) (cpp : Bool) (ρ : Env) (hz : S.lval ['0'] = 0) (isNot : Bool) :
    ∀ (n : Nat) (c1 : Ctx) (e1 : Expr) (c2 : Ctx) (e2 : Expr), OGood S isNot e1 → OGood S isNot e2 →
      isOppF cpp isNot n c1 e1 c2 e2 = true →
      ∀ v1 v2, eval S ρ e1 = some v1 → eval S ρ e2 = some v2 → Opp isNot v1 v2 := by
  intro n
  induction n with
  | zero => intro _ _ _ _ _ _ h; simp [isOppF] at h
  | succ n ih =>
    intro c1 e1 c2 e2 g1 g2 h v1 v2 h1 h2
    unfold isOppF at h
    split at h
    · simp at h
    · by_cases hand : (!isNot && andHit (isOppF cpp isNot n) cpp e1 e2) = true
      · -- `&&` against `&&` with a common operand
        simp only [Bool.and_eq_true, Bool.not_eq_true'] at hand
        obtain ⟨hn, hand⟩ := hand
        subst hn
        unfold andHit at hand
        split at hand
        · rename_i l1 r1 l2 r2 hp
          obtain ⟨a1, a2, rfl, rfl⟩ := andPair_spec hp
          obtain ⟨gl1, gr1⟩ := g1.bin
          obtain ⟨gl2, gr2⟩ := g2.bin
          obtain ⟨x1, hx1, q1⟩ := eval_land h1
          obtain ⟨x2, hx2, q2⟩ := eval_land h2
          apply Opp.of_weak
          rintro ⟨n1, n2⟩
          rcases q1 with ⟨_, rfl⟩ | ⟨nx1, y1, hy1, rfl⟩
          · exact n1 rfl
          rcases q2 with ⟨_, rfl⟩ | ⟨nx2, y2, hy2, rfl⟩
          · exact n2 rfl
          rw [b2i_ne_zero, decide_eq_true_eq] at n1 n2
          simp only [Bool.or_eq_true, Bool.and_eq_true] at hand
          rcases hand with ((⟨_, o⟩ | ⟨_, o⟩) | ⟨_, o⟩) | ⟨_, o⟩
          · have := ih _ _ _ _ gr1 gr2 o y1 y2 hy1 hy2; simp [Opp] at this; exact n2 (this n1)
          · have := ih _ _ _ _ gr1 gl2 o y1 x2 hy1 hx2; simp [Opp] at this; exact nx2 (this n1)
          · have := ih _ _ _ _ gl1 gr2 o x1 y2 hx1 hy2; simp [Opp] at this; exact n2 (this nx1)
          · have := ih _ _ _ _ gl1 gl2 o x1 x2 hx1 hx2; simp [Opp] at this; exact nx2 (this nx1)
        · simp at hand
      · rw [if_neg hand] at h
        split at h
        · -- `||` on one side
          rename_i l r co other hp
          simp only [Bool.and_eq_true] at h
          rcases lorPick_spec hp with ⟨a, rfl, rfl, rfl⟩ | ⟨a, rfl, rfl, rfl⟩
          · obtain ⟨gl, gr⟩ := g2.bin
            exact (lor_opp h2 (fun x hx => ih _ _ _ _ gl g1 h.1 x v1 hx h1) (fun y hy => ih _ _ _ _ gr g1 h.2 y v1 hy h1)).symm
          · obtain ⟨gl, gr⟩ := g1.bin
            exact lor_opp h1 (fun x hx => ih _ _ _ _ gl g2 h.1 x v2 hx h2) (fun y hy => ih _ _ _ _ gr g2 h.2 y v2 hy h2)
        · split at h
          · -- cond1 = !x
            rename_i x hx
            obtain ⟨a, rfl⟩ := notArg_spec hx
            obtain ⟨w, hw, _⟩ := eval_lnot h1
            exact not_opp h1 hw (notBranch_sound hz h g1.1.un g2.1 hw h2) isNot
          · split at h
            · -- cond2 = !y
              rename_i y hy
              obtain ⟨a, rfl⟩ := notArg_spec hy
              split at h
              · simp at h
              · obtain ⟨w, hw, _⟩ := eval_lnot h2
                exact (not_opp h2 hw (notBranch_sound hz h g2.1.un g1.1 hw h1) isNot).symm
            · exact cmpPart_sound h g1 g2 h1 h2

end Cppcheck.CondExpr

import Cppcheck.Model.CondOpposite
import Cppcheck.Proofs.CondExpr
/-
C03 — soundness of the model of `isSameExpression` / `isOppositeCond` (helper lemmas and the inductions; the property
theorems are restated in Props/C03.lean).

`Sim` is what `isSameExpression` really establishes about two occurrences: equal value and type, or - when both
occurrences are "used as bool" - equal truth value (`!!x` against `x`, `x != 0` against `x`).
-/
namespace Cppcheck.CondExpr

def Sim (S : Sem) (c1 : Ctx) (e1 : Expr) (v1 : Int) (c2 : Ctx) (e2 : Expr) (v2 : Int) : Prop :=
  (v1 = v2 ∧ tyOf S e1 = tyOf S e2) ∨ (boolLike c1 e1 = true ∧ boolLike c2 e2 = true ∧ (v1 ≠ 0 ↔ v2 ≠ 0))

theorem Sim.symm {S c1 e1 v1 c2 e2 v2} (h : Sim S c1 e1 v1 c2 e2 v2) : Sim S c2 e2 v2 c1 e1 v1 := by
  rcases h with ⟨h1, h2⟩ | ⟨h1, h2, h3⟩
  · exact Or.inl ⟨h1.symm, h2.symm⟩
  · exact Or.inr ⟨h2, h1, h3.symm⟩

theorem Sim.truthy {S c1 e1 v1 c2 e2 v2} (h : Sim S c1 e1 v1 c2 e2 v2) : (v1 ≠ 0 ↔ v2 ≠ 0) := by
  rcases h with ⟨h1, _⟩ | ⟨_, _, h3⟩
  · subst h1; exact Iff.rfl
  · exact h3

/-- the side conditions under which the soundness of `isSame` is proved -/
def Good (S : Sem) (e : Expr) : Prop := annOK S e = true ∧ eqNeSafe e = true

theorem Good.un {S a op e} (h : Good S (.un a op e)) : Good S e := by
  obtain ⟨h1, h2⟩ := h
  simp only [annOK, Bool.and_eq_true] at h1
  simp only [eqNeSafe] at h2
  exact ⟨h1.1.1, h2⟩

theorem Good.bin {S a op l r} (h : Good S (.bin a op l r)) : Good S l ∧ Good S r := by
  obtain ⟨h1, h2⟩ := h
  simp only [annOK, Bool.and_eq_true] at h1
  simp only [eqNeSafe, Bool.and_eq_true] at h2
  exact ⟨⟨h1.1.1.1, h2.1.1⟩, ⟨h1.1.1.2, h2.1.2⟩⟩

/-! ### evaluation of the node kinds -/

theorem eval_un {S ρ a op e v} (h : eval S ρ (.un a op e) = some v) :
    ∃ w, eval S ρ e = some w ∧ evalUn op (tyOf S e) w = some v := by
  simp only [eval] at h
  split at h
  · exact ⟨_, by assumption, h⟩
  · simp at h

theorem eval_lnot {S ρ a e v} (h : eval S ρ (.un a .lnot e) = some v) :
    ∃ w, eval S ρ e = some w ∧ v = b2i (decide (w = 0)) := by
  obtain ⟨w, h1, h2⟩ := eval_un h
  simp [evalUn] at h2
  exact ⟨w, h1, h2.symm⟩

theorem eval_bin_cop {S ρ a op l r v} (hop : op.isLogic = false) (h : eval S ρ (.bin a op l r) = some v) :
    ∃ x y, eval S ρ l = some x ∧ eval S ρ r = some y ∧ evalBin op (tyOf S l) (tyOf S r) x y = some v := by
  cases op <;> simp [BinOp.isLogic] at hop <;> simp only [eval] at h <;>
    (split at h
     · exact ⟨_, _, by assumption, by assumption, h⟩
     · simp at h)

theorem eval_land {S ρ a l r v} (h : eval S ρ (.bin a .land l r) = some v) :
    ∃ x, eval S ρ l = some x ∧ ((x = 0 ∧ v = 0) ∨ (x ≠ 0 ∧ ∃ y, eval S ρ r = some y ∧ v = b2i (decide (y ≠ 0)))) := by
  simp only [eval] at h
  cases hl : eval S ρ l with
  | none => rw [hl] at h; simp at h
  | some x =>
    rw [hl] at h
    refine ⟨x, rfl, ?_⟩
    by_cases hx : x = 0
    · simp only [hx, if_true, Option.some.injEq] at h
      exact Or.inl ⟨hx, h.symm⟩
    · simp only [hx, if_false] at h
      cases hr : eval S ρ r with
      | none => rw [hr] at h; simp at h
      | some y =>
        rw [hr] at h
        simp only [Option.some.injEq] at h
        exact Or.inr ⟨hx, y, rfl, h.symm⟩

theorem eval_lor {S ρ a l r v} (h : eval S ρ (.bin a .lor l r) = some v) :
    ∃ x, eval S ρ l = some x ∧ ((x ≠ 0 ∧ v = 1) ∨ (x = 0 ∧ ∃ y, eval S ρ r = some y ∧ v = b2i (decide (y ≠ 0)))) := by
  simp only [eval] at h
  cases hl : eval S ρ l with
  | none => rw [hl] at h; simp at h
  | some x =>
    rw [hl] at h
    refine ⟨x, rfl, ?_⟩
    by_cases hx : x = 0
    · simp only [hx, ne_eq, not_true_eq_false, if_false] at h
      cases hr : eval S ρ r with
      | none => rw [hr] at h; simp at h
      | some y =>
        rw [hr] at h
        simp only [Option.some.injEq] at h
        exact Or.inr ⟨hx, y, rfl, h.symm⟩
    · simp only [ne_eq, hx, not_false_eq_true, if_true, Option.some.injEq] at h
      exact Or.inl ⟨hx, h.symm⟩

theorem b2i_ne_zero (b : Bool) : b2i b ≠ 0 ↔ b = true := by
  cases b <;> simp [b2i]

/-! ### "bool like" occurrences -/

theorem isBoolVal_eval {S ρ e v} (hb : e.isBoolVal = true) (h : eval S ρ e = some v) :
    (v = 0 ∨ v = 1) ∧ tyOf S e = tInt := by
  cases e with
  | lit a sp => simp [Expr.isBoolVal] at hb
  | var a x => simp [Expr.isBoolVal] at hb
  | un a op e =>
    cases op <;> simp [Expr.isBoolVal] at hb
    obtain ⟨w, _, h2⟩ := eval_lnot h
    subst h2
    exact ⟨b2i_01 _, by simp [tyOf]⟩
  | bin a op l r =>
    simp only [Expr.isBoolVal, Bool.or_eq_true] at hb
    refine ⟨?_, by simp [tyOf, hb]⟩
    cases op <;> simp [BinOp.isCmp, BinOp.isLogic] at hb
    case land =>
      obtain ⟨x, _, h2⟩ := eval_land h
      rcases h2 with ⟨_, h2⟩ | ⟨_, y, _, h2⟩
      · exact Or.inl h2
      · subst h2; exact b2i_01 _
    case lor =>
      obtain ⟨x, _, h2⟩ := eval_lor h
      rcases h2 with ⟨_, h2⟩ | ⟨_, y, _, h2⟩
      · exact Or.inr h2
      · subst h2; exact b2i_01 _
    all_goals
      obtain ⟨x, y, _, _, h3⟩ := eval_bin_cop (by simp [BinOp.isLogic]) h
      simp [evalBin, BinOp.isShift] at h3
      subst h3
      exact b2i_01 _

theorem annOK_boolLike_cop {S e} (h : annOK S e = true) (hb : boolLike .cop e = true) : e.isBoolVal = true := by
  cases e with
  | lit a sp =>
    simp only [annOK, Bool.and_eq_true, beq_iff_eq] at h
    simp [boolLike, astIsBool, Expr.ann, h.1.1.1.1.2, toVT, Expr.isBoolVal, Ctx.isBool] at hb
  | var a x =>
    simp only [annOK, Bool.and_eq_true, beq_iff_eq] at h
    simp [boolLike, astIsBool, Expr.ann, h.1.1, toVT, Expr.isBoolVal, Ctx.isBool] at hb
  | un a op e =>
    simp only [annOK, Bool.and_eq_true, Bool.or_eq_true, Bool.not_eq_true', beq_iff_eq] at h
    simp only [boolLike, Ctx.isBool, Bool.or_false, Bool.or_eq_true] at hb
    rcases hb with hb | hb
    · rcases h.2 with h2 | h2
      · rw [h2] at hb; simp at hb
      · subst h2; simp [Expr.isBoolVal]
    · exact hb
  | bin a op l r =>
    simp only [annOK, Bool.and_eq_true, Bool.or_eq_true, Bool.not_eq_true'] at h
    simp only [boolLike, Ctx.isBool, Bool.or_false, Bool.or_eq_true] at hb
    rcases hb with hb | hb
    · rcases h.2 with (h2 | h2) | h2
      · rw [h2] at hb; simp at hb
      · simp [Expr.isBoolVal, h2]
      · simp [Expr.isBoolVal, h2]
    · exact hb

/-- in an operand position (`%cop%` parent) `Sim` means: same value, same type -/
theorem Sim.cop {S ρ e1 v1 e2 v2} (g1 : annOK S e1 = true) (g2 : annOK S e2 = true)
    (h1 : eval S ρ e1 = some v1) (h2 : eval S ρ e2 = some v2) (h : Sim S .cop e1 v1 .cop e2 v2) :
    v1 = v2 ∧ tyOf S e1 = tyOf S e2 := by
  rcases h with h | ⟨b1, b2, h3⟩
  · exact h
  · obtain ⟨r1, t1⟩ := isBoolVal_eval (annOK_boolLike_cop g1 b1) h1
    obtain ⟨r2, t2⟩ := isBoolVal_eval (annOK_boolLike_cop g2 b2) h2
    refine ⟨?_, by rw [t1, t2]⟩
    rcases r1 with r1 | r1 <;> rcases r2 with r2 | r2 <;> subst r1 <;> subst r2 <;> simp at h3 ⊢

/-! ### Known values -/

theorem known_val {S ρ e k v} (g : annOK S e = true) (hk : e.ann.known = some k) (h : eval S ρ e = some v) :
    k = toI64 v := by
  cases e with
  | lit a sp =>
    simp only [annOK, Bool.and_eq_true, beq_iff_eq, decide_eq_true_eq] at g
    simp only [Expr.ann] at hk
    simp only [eval] at h
    rw [wrap_of_inRange _ _ g.1.1.1.1.1] at h
    rw [g.1.1.1.2] at hk
    simp at h hk
    rw [← h, hk]
  | var a x =>
    simp only [annOK, Bool.and_eq_true, beq_iff_eq] at g
    simp only [Expr.ann] at hk
    rw [g.1.2] at hk; simp at hk
  | un a op e =>
    simp only [annOK, Bool.and_eq_true] at g
    have g2 := g.1.2
    simp only [knownOK, hk, Bool.and_eq_true] at g2
    obtain ⟨⟨⟨hc, hv⟩, _⟩, _⟩ := g2
    rw [eval_closed S ρ (fun _ => 0) _ hc] at h
    rw [h] at hv
    simpa using hv
  | bin a op l r =>
    simp only [annOK, Bool.and_eq_true] at g
    have g2 := g.1.2
    simp only [knownOK, hk, Bool.and_eq_true] at g2
    obtain ⟨⟨⟨hc, hv⟩, _⟩, _⟩ := g2
    rw [eval_closed S ρ (fun _ => 0) _ hc] at h
    rw [h] at hv
    simpa using hv

theorem first_known {S e k} (g : annOK S e = true) (hk : e.ann.first = some k) : e.ann.known = some k := by
  cases e with
  | lit a sp =>
    simp only [annOK, Bool.and_eq_true, beq_iff_eq] at g
    simp only [Expr.ann] at hk ⊢
    rw [← g.1.1.2, hk]
  | var a x =>
    simp only [annOK, Bool.and_eq_true, beq_iff_eq] at g
    simp only [Expr.ann] at hk
    rw [g.2] at hk; simp at hk
  | un a op e =>
    simp only [annOK, Bool.and_eq_true] at g
    have g2 := g.1.2
    simp only [knownOK] at g2
    split at g2
    · simp only [beq_iff_eq] at g2; rw [g2] at hk; simp at hk
    · rename_i k' hk'
      simp only [Bool.and_eq_true, beq_iff_eq] at g2
      rw [g2.1.2] at hk
      simp at hk; subst hk; exact hk'
  | bin a op l r =>
    simp only [annOK, Bool.and_eq_true] at g
    have g2 := g.1.2
    simp only [knownOK] at g2
    split at g2
    · simp only [beq_iff_eq] at g2; rw [g2] at hk; simp at hk
    · rename_i k' hk'
      simp only [Bool.and_eq_true, beq_iff_eq] at g2
      rw [g2.1.2] at hk
      simp at hk; subst hk; exact hk'

/-! ### `isSameExpression` -/

theorem dblNot_spec {e x : Expr} (h : e.dblNot = some x) : ∃ a a', e = .un a .lnot (.un a' .lnot x) := by
  unfold Expr.dblNot at h
  split at h
  · simp at h; subst h; exact ⟨_, _, rfl⟩
  · simp at h

theorem binTy_comm (op : BinOp) (ta tb : Ty) (h : op.commutative = true) : binTy op ta tb = binTy op tb ta := by
  cases op <;> simp [BinOp.commutative] at h <;> simp [binTy, BinOp.isCmp, BinOp.isLogic, BinOp.isShift, uac_comm ta tb]

theorem strEq_bin {a1 o1 l1 r1 a2 o2 l2 r2} : (Expr.bin a1 o1 l1 r1).strEq (.bin a2 o2 l2 r2) = true ↔ o1 = o2 := by
  simp [Expr.strEq]

theorem notArg_spec {e x : Expr} (h : e.notArg = some x) : ∃ a, e = .un a .lnot x := by
  unfold Expr.notArg at h
  split at h
  · simp at h; subst h; exact ⟨_, rfl⟩
  · simp at h

theorem eqNeKnown_spec {l r vt : Expr} {k : Int} (h : eqNeKnown l r = some (k, vt)) :
    ∃ kt, kt.ann.known = some k ∧ ((kt = l ∧ vt = r) ∨ (kt = r ∧ vt = l)) := by
  unfold eqNeKnown at h
  split at h
  · rename_i k' hk
    simp at h; obtain ⟨rfl, rfl⟩ := h
    exact ⟨l, hk, Or.inl ⟨rfl, rfl⟩⟩
  · split at h
    · rename_i k' hk
      simp at h; obtain ⟨rfl, rfl⟩ := h
      exact ⟨r, hk, Or.inr ⟨rfl, rfl⟩⟩
    · simp at h

theorem eqNeCompare_op {k : Int} {n : Bool} {op : BinOp} (h : eqNeCompare k n op = true) : op = .eq ∨ op = .ne := by
  simp only [eqNeCompare, Bool.or_eq_true, Bool.and_eq_true, beq_iff_eq] at h
  rcases h with ((h | h) | h) | h
  · exact Or.inl h.2
  · exact Or.inr h.2
  · exact Or.inr h.2
  · exact Or.inl h.2

/-- value of an `==`/`!=` between two 0/1 values -/
theorem eqne_val {S ρ ac op l r vc x y} (hop : op = .eq ∨ op = .ne) (hc : eval S ρ (.bin ac op l r) = some vc)
    (hx : eval S ρ l = some x) (hy : eval S ρ r = some y) (x01 : x = 0 ∨ x = 1) (y01 : y = 0 ∨ y = 1) :
    vc = b2i (if op = .eq then decide (x = y) else decide (x ≠ y)) := by
  have hlog : op.isLogic = false := by rcases hop with h | h <;> subst h <;> rfl
  obtain ⟨x', y', hx', hy', hv⟩ := eval_bin_cop hlog hc
  rw [hx] at hx'; rw [hy] at hy'
  simp only [Option.some.injEq] at hx' hy'
  subst hx'; subst hy'
  have wx := wrap_uac_01 (tyOf S l) (tyOf S r) x x01
  have wy := wrap_uac_01 (tyOf S l) (tyOf S r) y y01
  rcases hop with h | h <;> subst h <;> simp [evalBin, BinOp.isShift, wx, wy] at hv <;> subst hv <;> simp

theorem tt_not {k u w : Int} {op : BinOp} (hk : k = 0 ∨ k = 1) (hu : u = 0 ∨ u = 1)
    (hc : eqNeCompare k true op = true) (ht : u ≠ 0 ↔ w ≠ 0) :
    b2i (if op = .eq then decide (u = k) else decide (u ≠ k)) = b2i (decide (w = 0)) ∧
    b2i (if op = .eq then decide (k = u) else decide (k ≠ u)) = b2i (decide (w = 0)) := by
  rcases eqNeCompare_op hc with rfl | rfl <;> rcases hk with rfl | rfl <;> rcases hu with rfl | rfl <;>
    simp [eqNeCompare] at hc ⊢ <;> simp_all

theorem tt_pos {k u w : Int} {op : BinOp} (hk : k = 0 ∨ k = 1) (hu : u = 0 ∨ u = 1)
    (hc : eqNeCompare k false op = true) (ht : u ≠ 0 ↔ w ≠ 0) :
    (b2i (if op = .eq then decide (u = k) else decide (u ≠ k)) ≠ 0 ↔ w ≠ 0) ∧
    (b2i (if op = .eq then decide (k = u) else decide (k ≠ u)) ≠ 0 ↔ w ≠ 0) := by
  rcases eqNeCompare_op hc with rfl | rfl <;> rcases hk with rfl | rfl <;> rcases hu with rfl | rfl <;>
    simp [eqNeCompare] at hc ⊢ <;> simp_all [b2i]

/-- the `==|!=` rule (astutils.cpp:1672-1709) on admissible inputs: the pair it recurses on is evaluated and relates back
    to the original pair -/
theorem eqNeCond_sound {S ρ cond ce expr ca a cb b vc ve}
    (hp : eqNeCond cond ce expr = some (ca, a, cb, b))
    (gc : Good S cond) (ge : Good S expr)
    (hc : eval S ρ cond = some vc) (he : eval S ρ expr = some ve) :
    Good S a ∧ Good S b ∧
    ∃ u w, eval S ρ a = some u ∧ eval S ρ b = some w ∧
      (Sim S ca a u cb b w → ∀ cc, Sim S cc cond vc ce expr ve) := by
  cases cond with
  | lit _ _ => simp [eqNeCond] at hp
  | var _ _ => simp [eqNeCond] at hp
  | un _ _ _ => simp [eqNeCond] at hp
  | bin ac op l r =>
    simp only [eqNeCond] at hp
    split at hp
    · simp at hp
    · cases hkn : eqNeKnown l r with
      | none => rw [hkn] at hp; simp at hp
      | some p =>
        obtain ⟨k, vt⟩ := p
        rw [hkn] at hp
        simp only at hp
        obtain ⟨kt, hkt, hside⟩ := eqNeKnown_spec hkn
        obtain ⟨gl, gr⟩ := gc.bin
        have gkt : Good S kt := by rcases hside with ⟨rfl, _⟩ | ⟨rfl, _⟩ <;> assumption
        have gvt : Good S vt := by rcases hside with ⟨_, rfl⟩ | ⟨_, rfl⟩ <;> assumption
        -- common part once `compare` and the two bool-like tests hold
        have core : ∀ (n : Bool), eqNeCompare k n op = true → boolLike .cop vt = true →
            (k = 0 ∨ k = 1) ∧ (op = .eq ∨ op = .ne) ∧
            ∃ u, eval S ρ vt = some u ∧ (u = 0 ∨ u = 1) ∧
              (vc = b2i (if op = .eq then decide (u = k) else decide (u ≠ k)) ∨
               vc = b2i (if op = .eq then decide (k = u) else decide (k ≠ u))) := by
          intro n hcmp hbl
          have hop := eqNeCompare_op hcmp
          have hsafe := gc.2
          simp only [eqNeSafe, Bool.and_eq_true, Bool.or_eq_true, Bool.not_eq_true'] at hsafe
          have hk01 : k = 0 ∨ k = 1 := by
            rcases hsafe.2 with h | h
            · rcases hop with rfl | rfl <;> simp at h
            · rw [hkn] at h
              simp only [Bool.or_eq_true, beq_iff_eq, Bool.not_eq_true'] at h
              rcases h with (h | h) | h
              · exact Or.inl h
              · exact Or.inr h
              · rw [h] at hbl; simp at hbl
          have hlog : op.isLogic = false := by rcases hop with h | h <;> subst h <;> rfl
          obtain ⟨x, y, hx, hy, _⟩ := eval_bin_cop hlog hc
          have hbv := annOK_boolLike_cop gvt.1 hbl
          refine ⟨hk01, hop, ?_⟩
          rcases hside with ⟨rfl, rfl⟩ | ⟨rfl, rfl⟩
          · have hkv : x = k := toI64_eq_01 _ _ _ (eval_inRange S ρ _ _ hx) hk01 (known_val gkt.1 hkt hx)
            have hu := (isBoolVal_eval hbv hy).1
            refine ⟨y, hy, hu, Or.inr ?_⟩
            have := eqne_val hop hc hx hy (hkv ▸ hk01) hu
            rw [hkv] at this; exact this
          · have hkv : y = k := toI64_eq_01 _ _ _ (eval_inRange S ρ _ _ hy) hk01 (known_val gkt.1 hkt hy)
            have hu := (isBoolVal_eval hbv hx).1
            refine ⟨x, hx, hu, Or.inl ?_⟩
            have := eqne_val hop hc hx hy hu (hkv ▸ hk01)
            rw [hkv] at this; exact this
        cases hn : expr.notArg with
        | some x =>
          rw [hn] at hp
          simp only at hp
          split at hp
          · rename_i hcond
            simp only [Option.some.injEq, Prod.mk.injEq] at hp
            obtain ⟨rfl, rfl, rfl, rfl⟩ := hp
            simp only [Bool.and_eq_true] at hcond
            obtain ⟨⟨hcmp, hbl1⟩, _⟩ := hcond
            obtain ⟨hk01, hop, u, hu, hu01, hvc⟩ := core true hcmp hbl1
            obtain ⟨ae, rfl⟩ := notArg_spec hn
            obtain ⟨w, hw, hve⟩ := eval_lnot he
            refine ⟨gvt, ge.un, u, w, hu, hw, ?_⟩
            intro hs cc
            have tt := tt_not hk01 hu01 hcmp hs.truthy
            left
            refine ⟨?_, by rcases hop with h | h <;> subst h <;> simp [tyOf, BinOp.isCmp, BinOp.isLogic]⟩
            rw [hve]
            rcases hvc with h | h <;> rw [h]
            · exact tt.1
            · exact tt.2
          · simp at hp
        | none =>
          rw [hn] at hp
          simp only at hp
          split at hp
          · rename_i hcond
            simp only [Option.some.injEq, Prod.mk.injEq] at hp
            obtain ⟨rfl, rfl, rfl, rfl⟩ := hp
            simp only [Bool.and_eq_true] at hcond
            obtain ⟨⟨hcmp, hbl1⟩, hbl2⟩ := hcond
            obtain ⟨hk01, hop, u, hu, hu01, hvc⟩ := core false hcmp hbl1
            refine ⟨gvt, ge, u, ve, hu, he, ?_⟩
            intro hs cc
            have tt := tt_pos hk01 hu01 hcmp hs.truthy
            right
            refine ⟨by rcases hop with h | h <;> subst h <;> simp [boolLike, Expr.isBoolVal, BinOp.isCmp], hbl2, ?_⟩
            rcases hvc with h | h <;> rw [h]
            · exact tt.1
            · exact tt.2
          · simp at hp

theorem dblNot_eval {S ρ e x v} (h : e.dblNot = some x) (g : Good S e) (he : eval S ρ e = some v) :
    Good S x ∧ e.isBoolVal = true ∧ ∃ w, eval S ρ x = some w ∧ (v ≠ 0 ↔ w ≠ 0) := by
  obtain ⟨a, a', rfl⟩ := dblNot_spec h
  obtain ⟨w1, hw1, hv⟩ := eval_lnot he
  obtain ⟨w, hw, hv1⟩ := eval_lnot hw1
  refine ⟨g.un.un, by simp [Expr.isBoolVal], w, hw, ?_⟩
  subst hv; subst hv1
  by_cases hw0 : w = 0 <;> simp [b2i, hw0]

theorem sameConst_sound {S ρ e1 e2 v1 v2} (h : sameConst e1 e2 = true) (g1 : annOK S e1 = true) (g2 : annOK S e2 = true)
    (h1 : eval S ρ e1 = some v1) (h2 : eval S ρ e2 = some v2) : v1 = v2 ∧ tyOf S e1 = tyOf S e2 := by
  unfold sameConst at h
  split at h
  · rename_i a1 s1 a2 s2
    simp only [Bool.and_eq_true] at h
    obtain ⟨hvt, hk⟩ := h
    simp only [annOK, Bool.and_eq_true, beq_iff_eq, decide_eq_true_eq] at g1 g2
    obtain ⟨⟨⟨⟨⟨r1, vt1⟩, k1⟩, f1⟩, _⟩, _⟩ := g1
    obtain ⟨⟨⟨⟨⟨r2, vt2⟩, k2⟩, f2⟩, _⟩, _⟩ := g2
    rw [vt1, vt2] at hvt
    simp only [Bool.and_eq_true, beq_iff_eq] at hvt
    have hty : S.lty s1 = S.lty s2 := by
      apply toVT_inj
      cases h1 : toVT (S.lty s1); cases h2 : toVT (S.lty s2)
      rw [h1, h2] at hvt
      simp at hvt ⊢
      exact hvt
    simp only [equalKnown, Expr.ann, f1, f2, k1, k2, beq_iff_eq] at hk
    simp only [eval, Option.some.injEq] at h1 h2
    rw [wrap_of_inRange _ _ r1] at h1
    rw [wrap_of_inRange _ _ r2] at h2
    subst h1; subst h2
    refine ⟨?_, by simp [tyOf, hty]⟩
    exact toI64_inj (S.lty s2) _ _ (hty ▸ r1) r2 hk
  · simp at h

theorem flipPick_spec {e1 e2 a b c d} (h : flipPick e1 e2 = some (a, b, c, d)) :
    ∃ a1 o1 a2 o2, e1 = .bin a1 o1 a c ∧ e2 = .bin a2 o2 d b ∧ flipPair o1 o2 = true := by
  unfold flipPick at h
  split at h
  · split at h
    · simp at h; obtain ⟨rfl, rfl, rfl, rfl⟩ := h; exact ⟨_, _, _, _, rfl, rfl, by assumption⟩
    · simp at h
  · simp at h

theorem flip_val {o1 o2 : BinOp} {ta tb : Ty} {x y : Int} (hne : o1 ≠ o2) (hf : flipPair o1 o2 = true) :
    evalBin o1 ta tb x y = evalBin o2 tb ta y x ∧ binTy o1 ta tb = binTy o2 tb ta := by
  cases o1 <;> cases o2 <;> simp [flipPair] at hf hne <;>
    simp [evalBin, BinOp.isShift, uac_comm tb ta, binTy, BinOp.isCmp, BinOp.isLogic] <;> congr 1 <;> simp <;>
    constructor <;> intro h <;> omega

/-- what the induction hypothesis gives for a pair of operands -/
def Rel (S : Sem) (ρ : Env) (c : Ctx) (a b : Expr) : Prop :=
  ∀ va vb, eval S ρ a = some va → eval S ρ b = some vb → Sim S c a va c b vb

theorem comm_cop_list {o : BinOp} (hc : o.commutative = true) (hl : o.isLogic = false) :
    o = .add ∨ o = .mul ∨ o = .band ∨ o = .bor ∨ o = .bxor ∨ o = .eq ∨ o = .ne := by
  cases o <;> simp [BinOp.commutative, BinOp.isLogic] at hc hl ⊢

theorem binSame_sound {S ρ o a1 l1 r1 a2 l2 r2 v1 v2}
    (gl1 : annOK S l1 = true) (gr1 : annOK S r1 = true) (gl2 : annOK S l2 = true) (gr2 : annOK S r2 = true)
    (h : (Rel S ρ (childCtxB o) l1 l2 ∧ Rel S ρ (childCtxB o) r1 r2) ∨
         (o.commutative = true ∧ Rel S ρ (childCtxB o) r1 l2 ∧ Rel S ρ (childCtxB o) l1 r2))
    (h1 : eval S ρ (.bin a1 o l1 r1) = some v1) (h2 : eval S ρ (.bin a2 o l2 r2) = some v2) :
    v1 = v2 ∧ tyOf S (.bin a1 o l1 r1) = tyOf S (.bin a2 o l2 r2) := by
  by_cases hlog : o.isLogic = true
  · have hty : tyOf S (.bin a1 o l1 r1) = tyOf S (.bin a2 o l2 r2) := by simp [tyOf, hlog]
    refine ⟨?_, hty⟩
    cases o <;> simp [BinOp.isLogic] at hlog
    case land =>
      simp only [childCtxB] at h
      obtain ⟨x1, hx1, c1⟩ := eval_land h1
      obtain ⟨x2, hx2, c2⟩ := eval_land h2
      rcases h with ⟨hl, hr⟩ | ⟨_, hrl, hlr⟩
      · have t := (hl x1 x2 hx1 hx2).truthy
        rcases c1 with ⟨z1, rfl⟩ | ⟨n1, y1, hy1, rfl⟩ <;> rcases c2 with ⟨z2, rfl⟩ | ⟨n2, y2, hy2, rfl⟩
        · rfl
        · exact absurd (t.mpr n2) (by simp [z1])
        · exact absurd (t.mp n1) (by simp [z2])
        · have t2 := (hr y1 y2 hy1 hy2).truthy
          by_cases hy : y1 = 0 <;> simp_all [b2i]
      · rcases c1 with ⟨z1, rfl⟩ | ⟨n1, y1, hy1, rfl⟩ <;> rcases c2 with ⟨z2, rfl⟩ | ⟨n2, y2, hy2, rfl⟩
        · rfl
        · have t := (hlr x1 y2 hx1 hy2).truthy
          simp_all [b2i]
        · have t := (hrl y1 x2 hy1 hx2).truthy
          simp_all [b2i]
        · have t := (hlr x1 y2 hx1 hy2).truthy
          have t2 := (hrl y1 x2 hy1 hx2).truthy
          simp_all [b2i]
    case lor =>
      simp only [childCtxB] at h
      obtain ⟨x1, hx1, c1⟩ := eval_lor h1
      obtain ⟨x2, hx2, c2⟩ := eval_lor h2
      rcases h with ⟨hl, hr⟩ | ⟨_, hrl, hlr⟩
      · have t := (hl x1 x2 hx1 hx2).truthy
        rcases c1 with ⟨n1, rfl⟩ | ⟨z1, y1, hy1, rfl⟩ <;> rcases c2 with ⟨n2, rfl⟩ | ⟨z2, y2, hy2, rfl⟩
        · rfl
        · exact absurd (t.mp n1) (by simp [z2])
        · exact absurd (t.mpr n2) (by simp [z1])
        · have t2 := (hr y1 y2 hy1 hy2).truthy
          by_cases hy : y1 = 0 <;> simp_all [b2i]
      · rcases c1 with ⟨n1, rfl⟩ | ⟨z1, y1, hy1, rfl⟩ <;> rcases c2 with ⟨n2, rfl⟩ | ⟨z2, y2, hy2, rfl⟩
        · rfl
        · have t := (hlr x1 y2 hx1 hy2).truthy
          simp_all [b2i]
        · have t := (hrl y1 x2 hy1 hx2).truthy
          simp_all [b2i]
        · have t := (hlr x1 y2 hx1 hy2).truthy
          have t2 := (hrl y1 x2 hy1 hx2).truthy
          by_cases hy : y1 = 0 <;> simp_all [b2i]
  · have hlog' : o.isLogic = false := by simpa using hlog
    have hcc : childCtxB o = .cop := by cases o <;> simp [BinOp.isLogic] at hlog' <;> rfl
    rw [hcc] at h
    obtain ⟨x1, y1, hx1, hy1, e1⟩ := eval_bin_cop hlog' h1
    obtain ⟨x2, y2, hx2, hy2, e2⟩ := eval_bin_cop hlog' h2
    rw [tyOf_bin, tyOf_bin]
    rcases h with ⟨hl, hr⟩ | ⟨hc, hrl, hlr⟩
    · obtain ⟨rfl, tl⟩ := Sim.cop gl1 gl2 hx1 hx2 (hl x1 x2 hx1 hx2)
      obtain ⟨rfl, tr⟩ := Sim.cop gr1 gr2 hy1 hy2 (hr y1 y2 hy1 hy2)
      rw [tl, tr] at e1
      rw [e1] at e2
      exact ⟨by simpa using e2, by rw [tl, tr]⟩
    · obtain ⟨rfl, t1⟩ := Sim.cop gr1 gl2 hy1 hx2 (hrl y1 x2 hy1 hx2)
      obtain ⟨rfl, t2⟩ := Sim.cop gl1 gr2 hx1 hy2 (hlr x1 y2 hx1 hy2)
      rw [← t1, ← t2, ← evalBin_comm o _ _ _ _ (comm_cop_list hc hlog'), e1] at e2
      exact ⟨by simpa using e2, by rw [← t1, ← t2, binTy_comm o _ _ hc]⟩

end Cppcheck.CondExpr

import Cppcheck.Model.GccArgs
/-
Helper lemmas for C32: one iteration of `parseArgs`' loop (`runChecks`) on each kind of argument GCC
distinguishes, and the refinement `loop = Spec.gcc` on `clean` vectors.
-/
namespace Cppcheck.GccArgs
open Cppcheck.Wire

/-! ### prefixes -/

theorem length_ne_of_prefix_ne {p a : Str} (hp : p.isPrefixOf a = true) (hne : a ≠ p) : ¬ a.length = p.length := by
  intro hl
  have := List.isPrefixOf_iff_prefix.mp hp
  exact hne (this.eq_of_length hl.symm).symm

theorem eq_append_drop {p a : Str} (hp : p.isPrefixOf a = true) : a = p ++ a.drop p.length := by
  have := List.isPrefixOf_iff_prefix.mp hp
  obtain ⟨t, rfl⟩ := this
  simp

theorem form_sep {n a : Str} (h : Spec.form n a = .sep) : a = n := by
  unfold Spec.form at h
  split at h
  · assumption
  · split at h <;> simp at h

theorem form_joined {n a v : Str} (h : Spec.form n a = .joined v) :
    a ≠ n ∧ n.isPrefixOf a = true ∧ v = a.drop n.length := by
  unfold Spec.form at h
  split at h
  · simp at h
  · split at h
    · simp at h; exact ⟨by assumption, by assumption, h.symm⟩
    · simp at h

theorem form_no {n a : Str} (h : Spec.form n a = .no) : n.isPrefixOf a = false := by
  unfold Spec.form at h
  split at h
  · simp at h
  · split at h
    · simp at h
    · rename_i _ hnp
      cases hb : List.isPrefixOf n a
      · rfl
      · exact absurd hb hnp

theorem dash_not_slash {t u a : Str} (h : ('-' :: t).isPrefixOf a = true) : ('/' :: u).isPrefixOf a = false := by
  cases a with
  | nil => simp at h
  | cons c r =>
    simp only [List.isPrefixOf, Bool.and_eq_true, beq_iff_eq] at h
    simp [List.isPrefixOf, ← h.1]

/-! ### one loop iteration per kind of argument -/

theorem rc_I_sep (b : Str) (rest : List Str) (fs : FS) (hb : b ≠ []) :
    runChecks checks "-I".toList (b :: rest) fs = .next true (apply .inc b fs) := by
  simp [runChecks, checks, findPrefix, hb]

theorem rc_isystem_sep (b : Str) (rest : List Str) (fs : FS) (hb : b ≠ []) :
    runChecks checks "-isystem".toList (b :: rest) fs = .next true (apply .sysinc b fs) := by
  simp [runChecks, checks, findPrefix, hb]

theorem rc_D_sep (b : Str) (rest : List Str) (fs : FS) (hb : b ≠ []) :
    runChecks checks "-D".toList (b :: rest) fs = .next true (apply .define b fs) := by
  simp [runChecks, checks, findPrefix, hb]

theorem rc_U_sep (b : Str) (rest : List Str) (fs : FS) (hb : b ≠ []) :
    runChecks checks "-U".toList (b :: rest) fs = .next true (apply .undef b fs) := by
  simp [runChecks, checks, findPrefix, hb]

/-- a bare option name as the last argument does nothing (commit 0f74657) -/
theorem rc_last_bare (n : Str) (fs : FS)
    (h : n = "-I".toList ∨ n = "-isystem".toList ∨ n = "-D".toList ∨ n = "-U".toList ∨ n = "-std=".toList) :
    runChecks checks n [] fs = .next false fs := by
  rcases h with h | h | h | h | h <;> subst h <;> simp [runChecks, checks, findPrefix]

theorem rc_I_joined {a v : Str} (rest : List Str) (fs : FS) (h : Spec.form "-I".toList a = .joined v) :
    runChecks checks a rest fs = .next false (apply .inc v fs) := by
  obtain ⟨hne, hp, hv⟩ := form_joined h
  have hl := length_ne_of_prefix_ne hp hne
  simp at hp hl
  simp [runChecks, checks, findPrefix, hp, hl, hv]

theorem rc_isystem_joined {a v : Str} (rest : List Str) (fs : FS)
    (h1 : Spec.form "-I".toList a = .no) (h : Spec.form "-isystem".toList a = .joined v) :
    runChecks checks a rest fs = .next false (apply .sysinc v fs) := by
  obtain ⟨hne, hp, hv⟩ := form_joined h
  have hl := length_ne_of_prefix_ne hp hne
  have h1 := form_no h1
  have s1 := dash_not_slash (u := ['I']) hp
  simp at hp hl h1 s1
  simp [runChecks, checks, findPrefix, hp, hl, hv, h1, s1]

theorem rc_D_joined {a v : Str} (rest : List Str) (fs : FS)
    (h1 : Spec.form "-I".toList a = .no) (h2 : Spec.form "-isystem".toList a = .no)
    (h : Spec.form "-D".toList a = .joined v) :
    runChecks checks a rest fs = .next false (apply .define v fs) := by
  obtain ⟨hne, hp, hv⟩ := form_joined h
  have hl := length_ne_of_prefix_ne hp hne
  have h1 := form_no h1
  have h2 := form_no h2
  have s1 := dash_not_slash (u := ['I']) hp
  simp at hp hl h1 h2 s1
  simp [runChecks, checks, findPrefix, hp, hl, hv, h1, h2, s1]

theorem rc_U_joined {a v : Str} (rest : List Str) (fs : FS)
    (h1 : Spec.form "-I".toList a = .no) (h2 : Spec.form "-isystem".toList a = .no)
    (h3 : Spec.form "-D".toList a = .no) (h : Spec.form "-U".toList a = .joined v) :
    runChecks checks a rest fs = .next false (apply .undef v fs) := by
  obtain ⟨hne, hp, hv⟩ := form_joined h
  have hl := length_ne_of_prefix_ne hp hne
  have h1 := form_no h1
  have h2 := form_no h2
  have h3 := form_no h3
  have s1 := dash_not_slash (u := ['I']) hp
  have s2 := dash_not_slash (u := ['D']) hp
  simp at hp hl h1 h2 h3 s1 s2
  simp [runChecks, checks, findPrefix, hp, hl, hv, h1, h2, h3, s1, s2]

theorem rc_std_joined {a v : Str} (rest : List Str) (fs : FS)
    (h1 : Spec.form "-I".toList a = .no) (h2 : Spec.form "-isystem".toList a = .no)
    (h3 : Spec.form "-D".toList a = .no) (h4 : Spec.form "-U".toList a = .no)
    (h : Spec.form "-std=".toList a = .joined v) :
    runChecks checks a rest fs = .next false (apply .std v fs) := by
  obtain ⟨hne, hp, hv⟩ := form_joined h
  have hl := length_ne_of_prefix_ne hp hne
  have h1 := form_no h1
  have h2 := form_no h2
  have h3 := form_no h3
  have h4 := form_no h4
  have s1 := dash_not_slash (u := ['I']) hp
  have s2 := dash_not_slash (u := ['D']) hp
  have s3 := dash_not_slash (u := ['U']) hp
  simp at hp hl h1 h2 h3 h4 s1 s2 s3
  simp [runChecks, checks, findPrefix, hp, hl, hv, h1, h2, h3, h4, s1, s2, s3]

theorem rc_implied {a d : Str} (rest : List Str) (fs : FS) (h : Spec.impliedDefine a = some d) :
    runChecks checks a rest fs = .next false { fs with defs := fs.defs ++ d ++ [';'] } := by
  unfold Spec.impliedDefine at h
  repeat' split at h
  all_goals first
    | (subst_vars; simp at h; subst h; simp [runChecks, checks, findPrefix, apply])
    | simp at h

/-- unpacked `otherOk` -/
theorem otherOk_iff {a : Str} : otherOk a = true ↔
    ("/I".toList.isPrefixOf a = false ∧ "/D".toList.isPrefixOf a = false ∧ "/U".toList.isPrefixOf a = false ∧
     "/std:".toList.isPrefixOf a = false) ∧ a ≠ "-f".toList ∧ a ≠ "-m".toList ∧ a ≠ "-std=".toList := by
  simp [otherOk, slashPrefixes, and_assoc]

theorem rc_other {a : Str} (rest : List Str) (fs : FS)
    (h1 : Spec.form "-I".toList a = .no) (h2 : Spec.form "-isystem".toList a = .no)
    (h3 : Spec.form "-D".toList a = .no) (h4 : Spec.form "-U".toList a = .no)
    (h5 : Spec.form "-std=".toList a = .no) (h6 : Spec.impliedDefine a = none) (h7 : otherOk a = true) :
    runChecks checks a rest fs = .next false fs := by
  have h1 := form_no h1
  have h2 := form_no h2
  have h3 := form_no h3
  have h4 := form_no h4
  have h5 := form_no h5
  obtain ⟨⟨s1, s2, s3, s4⟩, nf, nm, _⟩ := otherOk_iff.mp h7
  have himp : a ≠ "-fpic".toList ∧ a ≠ "-fPIC".toList ∧ a ≠ "-fpie".toList ∧ a ≠ "-fPIE".toList ∧ a ≠ "-municode".toList := by
    unfold Spec.impliedDefine at h6
    repeat' split at h6
    all_goals first
      | (simp at h6; done)
      | (refine ⟨?_, ?_, ?_, ?_, ?_⟩ <;> assumption)
  obtain ⟨i1, i2, i3, i4, i5⟩ := himp
  by_cases hf : "-f".toList.isPrefixOf a = true
  · have hl := length_ne_of_prefix_ne hf nf
    have he := eq_append_drop hf
    have d1 : a.drop 2 ≠ "pic".toList := fun hd => i1 (by rw [he, show "-f".toList.length = 2 from rfl, hd]; rfl)
    have d2 : a.drop 2 ≠ "PIC".toList := fun hd => i2 (by rw [he, show "-f".toList.length = 2 from rfl, hd]; rfl)
    have d3 : a.drop 2 ≠ "pie".toList := fun hd => i3 (by rw [he, show "-f".toList.length = 2 from rfl, hd]; rfl)
    have d4 : a.drop 2 ≠ "PIE".toList := fun hd => i4 (by rw [he, show "-f".toList.length = 2 from rfl, hd]; rfl)
    simp at h1 h2 h3 h4 h5 s1 s2 s3 s4 hf hl d1 d2 d3 d4
    simp [runChecks, checks, findPrefix, h1, h2, h3, h4, h5, s1, s2, s3, s4, hf, hl, apply, d1, d2, d3, d4]
  · by_cases hm : "-m".toList.isPrefixOf a = true
    · have hl := length_ne_of_prefix_ne hm nm
      have he := eq_append_drop hm
      have d1 : a.drop 2 ≠ "unicode".toList := fun hd => i5 (by rw [he, show "-m".toList.length = 2 from rfl, hd]; rfl)
      simp at h1 h2 h3 h4 h5 s1 s2 s3 s4 hf hm hl d1
      simp [runChecks, checks, findPrefix, h1, h2, h3, h4, h5, s1, s2, s3, s4, hf, hm, hl, apply, d1]
    · simp at h1 h2 h3 h4 h5 s1 s2 s3 s4 hf hm
      simp [runChecks, checks, findPrefix, h1, h2, h3, h4, h5, s1, s2, s3, s4, hf, hm]

theorem rc_inert {b : Str} (rest : List Str) (fs : FS) (h : inert b = true) :
    runChecks checks b rest fs = .next false fs := by
  simp [inert, prefixes] at h
  obtain ⟨h1, h2, h3, h4, h5, h6, h7, h8, h9, h10, h11⟩ := h
  simp [runChecks, checks, findPrefix, h1, h2, h3, h4, h5, h6, h7, h8, h9, h10, h11]

/-! ### the loop refines the specification -/
open Spec

theorem joinDefs_append (ds : List Str) (d : Str) : joinDefs (ds ++ [d]) = joinDefs ds ++ d ++ [';'] := by
  induction ds with
  | nil => simp [joinDefs]
  | cons x r ih => simp [joinDefs, ih]

theorem apply_inc (o : Opts) (v : Str) : apply .inc v o.toRaw = (o.addInc v).toRaw := by
  by_cases hc : o.includes.contains v = true
  · simp only [apply, Opts.toRaw, Opts.addInc, hc, if_true]
  · simp only [apply, Opts.toRaw, Opts.addInc, hc]; rfl

theorem apply_sysinc (o : Opts) (v : Str) :
    apply .sysinc v o.toRaw = ({ o with sysIncludes := o.sysIncludes ++ [v] } : Opts).toRaw := rfl

theorem apply_define (o : Opts) (v : Str) :
    apply .define v o.toRaw = ({ o with defines := o.defines ++ [v] } : Opts).toRaw := by
  simp [apply, Opts.toRaw, joinDefs_append]

theorem apply_undef (o : Opts) (v : Str) :
    apply .undef v o.toRaw = ({ o with undefs := setInsert v o.undefs } : Opts).toRaw := rfl

theorem apply_std (o : Opts) (v : Str) : apply .std v o.toRaw = ({ o with std := v } : Opts).toRaw := rfl

theorem implied_toRaw (o : Opts) (d : Str) :
    ({ o.toRaw with defs := o.toRaw.defs ++ d ++ [';'] } : FS) = ({ o with defines := o.defines ++ [d] } : Opts).toRaw := by
  simp [Opts.toRaw, joinDefs_append]

theorem loop_next_false {a : Str} {rest : List Str} {fs fs' : FS} (h : runChecks checks a rest fs = .next false fs') :
    loop (a :: rest) fs = loop rest fs' := by
  simp [loop, h]

theorem loop_next_true {a b : Str} {rest : List Str} {fs fs' : FS} (h : runChecks checks a (b :: rest) fs = .next true fs') :
    loop (a :: b :: rest) fs = loop rest fs' := by
  simp [loop, h]

/-- GCC's reading ignores a bare option name as the last argument (the driver reports an error) -/
theorem gcc_last_bare (n : Str) (o : Opts)
    (h : n = "-I".toList ∨ n = "-isystem".toList ∨ n = "-D".toList ∨ n = "-U".toList ∨ n = "-std=".toList) :
    gcc [n] o = o := by
  rcases h with h | h | h | h | h <;> subst h <;> simp [gcc, form, impliedDefine]

theorem loop_eq_gcc (args : List Str) (h : clean args = true) (o : Opts) :
    loop args o.toRaw = (gcc args o).toRaw := by
  fun_induction clean args generalizing o
  case case1 => simp [loop, gcc]
  case case2 a v hI =>
    rw [loop_next_false (rc_I_joined [] _ hI), apply_inc]; simp only [loop, gcc, hI]
  case case3 a hI =>
    have ha := form_sep hI; subst ha
    rw [loop_next_false (rc_last_bare _ _ (by simp)), gcc_last_bare _ _ (by simp)]; simp only [loop]
  case case4 a h1 v hS =>
    rw [loop_next_false (rc_isystem_joined [] _ h1 hS), apply_sysinc]; simp only [loop, gcc, h1, hS]
  case case5 a h1 hS =>
    have ha := form_sep hS; subst ha
    rw [loop_next_false (rc_last_bare _ _ (by simp)), gcc_last_bare _ _ (by simp)]; simp only [loop]
  case case6 a h1 h2 v hD =>
    rw [loop_next_false (rc_D_joined [] _ h1 h2 hD), apply_define]; simp only [loop, gcc, h1, h2, hD]
  case case7 a h1 h2 hD =>
    have ha := form_sep hD; subst ha
    rw [loop_next_false (rc_last_bare _ _ (by simp)), gcc_last_bare _ _ (by simp)]; simp only [loop]
  case case8 a h1 h2 h3 v hU =>
    rw [loop_next_false (rc_U_joined [] _ h1 h2 h3 hU), apply_undef]; simp only [loop, gcc, h1, h2, h3, hU]
  case case9 a h1 h2 h3 hU =>
    have ha := form_sep hU; subst ha
    rw [loop_next_false (rc_last_bare _ _ (by simp)), gcc_last_bare _ _ (by simp)]; simp only [loop]
  case case10 a h1 h2 h3 h4 v hT =>
    rw [loop_next_false (rc_std_joined [] _ h1 h2 h3 h4 hT), apply_std]; simp only [loop, gcc, h1, h2, h3, h4, hT]
  case case11 a h1 h2 h3 h4 hT =>
    have ha := form_sep hT; subst ha
    rw [loop_next_false (rc_last_bare _ _ (by simp)), gcc_last_bare _ _ (by simp)]; simp only [loop]
  case case12 a h1 h2 h3 h4 h5 d hd =>
    rw [loop_next_false (rc_implied [] _ hd), implied_toRaw]; simp only [loop, gcc, h1, h2, h3, h4, h5, hd]
  case case13 a h1 h2 h3 h4 h5 h6 =>
    rw [loop_next_false (rc_other [] _ h1 h2 h3 h4 h5 h6 h)]; simp only [loop, gcc, h1, h2, h3, h4, h5, h6]
  case case14 a b rest hI ih =>
    simp only [Bool.and_eq_true, Bool.not_eq_true', List.isEmpty_eq_false_iff] at h
    have ha := form_sep hI; subst ha
    rw [loop_next_true (rc_I_sep b rest _ h.1), apply_inc, ih h.2]; simp only [gcc, hI]
  case case15 a b rest v hI ih =>
    rw [loop_next_false (rc_I_joined _ _ hI), apply_inc, ih h]; simp only [gcc, hI]
  case case16 a b rest h1 hS ih =>
    simp only [Bool.and_eq_true, Bool.not_eq_true', List.isEmpty_eq_false_iff] at h
    have ha := form_sep hS; subst ha
    rw [loop_next_true (rc_isystem_sep b rest _ h.1), apply_sysinc, ih h.2]; simp only [gcc, h1, hS]
  case case17 a b rest h1 v hS ih =>
    rw [loop_next_false (rc_isystem_joined _ _ h1 hS), apply_sysinc, ih h]; simp only [gcc, h1, hS]
  case case18 a b rest h1 h2 hD ih =>
    simp only [Bool.and_eq_true, Bool.not_eq_true', List.isEmpty_eq_false_iff] at h
    have ha := form_sep hD; subst ha
    rw [loop_next_true (rc_D_sep b rest _ h.1), apply_define, ih h.2]; simp only [gcc, h1, h2, hD]
  case case19 a b rest h1 h2 v hD ih =>
    rw [loop_next_false (rc_D_joined _ _ h1 h2 hD), apply_define, ih h]; simp only [gcc, h1, h2, hD]
  case case20 a b rest h1 h2 h3 hU ih =>
    simp only [Bool.and_eq_true, Bool.not_eq_true', List.isEmpty_eq_false_iff] at h
    have ha := form_sep hU; subst ha
    rw [loop_next_true (rc_U_sep b rest _ h.1), apply_undef, ih h.2]; simp only [gcc, h1, h2, h3, hU]
  case case21 a b rest h1 h2 h3 v hU ih =>
    rw [loop_next_false (rc_U_joined _ _ h1 h2 h3 hU), apply_undef, ih h]; simp only [gcc, h1, h2, h3, hU]
  case case22 a b rest h1 h2 h3 h4 v hT ih =>
    rw [loop_next_false (rc_std_joined _ _ h1 h2 h3 h4 hT), apply_std, ih h]; simp only [gcc, h1, h2, h3, h4, hT]
  case case23 => simp at h
  case case24 a b rest h1 h2 h3 h4 h5 d hd ih =>
    rw [loop_next_false (rc_implied _ _ hd), implied_toRaw, ih h]; simp only [gcc, h1, h2, h3, h4, h5, hd]
  case case25 a b rest h1 h2 h3 h4 h5 h6 hsep ih =>
    simp only [Bool.and_eq_true] at h
    rw [loop_next_false (rc_other _ _ h1 h2 h3 h4 h5 h6 h.1.1), loop_next_false (rc_inert _ _ h.1.2), ih h.2]
    simp only [gcc, h1, h2, h3, h4, h5, h6, hsep, if_true, Bool.false_eq_true, if_false]
  case case26 a b rest h1 h2 h3 h4 h5 h6 hsep ih =>
    simp only [Bool.and_eq_true] at h
    rw [loop_next_false (rc_other _ _ h1 h2 h3 h4 h5 h6 h.1), ih h.2]
    simp only [gcc, h1, h2, h3, h4, h5, h6, hsep, if_true, Bool.false_eq_true, if_false]

/-! ### `fsSetDefines` on the string `parseArgs` builds -/

/-- `d1;d2;…;dn` (no trailing ';') -/
def inter : List Str → Str
  | [] => []
  | [d] => d
  | d :: d' :: r => d ++ ';' :: inter (d' :: r)

theorem defOk_iff {d : Str} : defOk d = true ↔
    ∃ c t, d = c :: t ∧ ';' ∉ d ∧ c ≠ '=' ∧ c ≠ '(' ∧ "%(".toList.isPrefixOf d = false := by
  cases d with
  | nil => simp [defOk]
  | cons c t => simp [defOk, and_assoc]

theorem findSub_semi_skip (p d rest : Str) (hd : ';' ∉ d) (h : findSub (';' :: p) rest = none) :
    findSub (';' :: p) (d ++ rest) = none := by
  induction d with
  | nil => simpa using h
  | cons c t ih =>
    have hc : c ≠ ';' := fun hc => hd (by simp [hc])
    have ht : ';' ∉ t := fun ht => hd (by simp [ht])
    have hc' : (';' == c) = false := by simp [Ne.symm hc]
    simp [findSub, List.isPrefixOf, hc', ih ht]

theorem findSub_semi_at (p rest : Str) (hp : p.isPrefixOf rest = false) (h : findSub (';' :: p) rest = none) :
    findSub (';' :: p) (';' :: rest) = none := by
  simp [findSub, List.isPrefixOf, hp, h]

theorem joinDefs_cons_ne (d : Str) (r : List Str) : joinDefs (d :: r) = d ++ ';' :: joinDefs r := rfl

theorem no_placeholder (ds : List Str) (h : ∀ d ∈ ds, defOk d = true) :
    findSub ";%(".toList (joinDefs ds) = none ∧ "%(".toList.isPrefixOf (joinDefs ds) = false := by
  induction ds with
  | nil => simp [joinDefs, findSub, List.isPrefixOf]
  | cons d r ih =>
    obtain ⟨c, t, hd, hsemi, _, _, hpre⟩ := defOk_iff.mp (h d (by simp))
    have ihr := ih (fun x hx => h x (by simp [hx]))
    constructor
    · rw [joinDefs_cons_ne]
      exact findSub_semi_skip _ _ _ hsemi (findSub_semi_at _ _ ihr.2 ihr.1)
    · rw [joinDefs_cons_ne]
      subst hd
      cases t with
      | nil => simp [List.isPrefixOf]
      | cons c2 t2 =>
        simp only [show "%(".toList = ['%', '('] from rfl, List.isPrefixOf, List.cons_append] at hpre ⊢
        exact hpre

theorem no_double_semi (ds : List Str) (h : ∀ d ∈ ds, defOk d = true) :
    findSub ";;".toList (joinDefs ds) = none ∧ ";".toList.isPrefixOf (joinDefs ds) = false := by
  induction ds with
  | nil => simp [joinDefs, findSub, List.isPrefixOf]
  | cons d r ih =>
    obtain ⟨c, t, hd, hsemi, _, _, _⟩ := defOk_iff.mp (h d (by simp))
    have ihr := ih (fun x hx => h x (by simp [hx]))
    constructor
    · rw [joinDefs_cons_ne]
      exact findSub_semi_skip _ _ _ hsemi (findSub_semi_at _ _ ihr.2 ihr.1)
    · rw [joinDefs_cons_ne]
      subst hd
      have hc : c ≠ ';' := fun hc => hsemi (by simp [hc])
      simp [List.isPrefixOf, Ne.symm hc]

theorem eraseMsbuild_none (n : Nat) (s : Str) (h : findSub ";%(".toList s = none) : eraseMsbuild n s = s := by
  cases n
  · rfl
  · simp only [eraseMsbuild, h]

theorem eraseDoubleSemi_none (n : Nat) (s : Str) (h : findSub ";;".toList s = none) : eraseDoubleSemi n s = s := by
  cases n
  · rfl
  · simp only [eraseDoubleSemi, h]

theorem strip_append (x y : Str) (hy : stripTrailingSemi y ≠ []) :
    stripTrailingSemi (x ++ y) = x ++ stripTrailingSemi y := by
  induction x with
  | nil => rfl
  | cons c t ih => simp [stripTrailingSemi, ih, hy]

theorem strip_noSemi (d : Str) (hd : ';' ∉ d) : stripTrailingSemi d = d := by
  induction d with
  | nil => rfl
  | cons c t ih =>
    have hc : c ≠ ';' := fun hc => hd (by simp [hc])
    have ht : ';' ∉ t := fun ht => hd (by simp [ht])
    simp [stripTrailingSemi, ih ht, hc]

theorem strip_snoc_semi (d : Str) (hne : d ≠ []) (hsemi : ';' ∉ d) : stripTrailingSemi (d ++ [';']) = d := by
  induction d with
  | nil => exact absurd rfl hne
  | cons c t ih =>
    have hc : c ≠ ';' := fun hc => hsemi (by simp [hc])
    have ht : ';' ∉ t := fun ht => hsemi (by simp [ht])
    cases t with
    | nil => simp [stripTrailingSemi, hc]
    | cons c2 t2 =>
      have := ih (by simp) ht
      show stripTrailingSemi (c :: (c2 :: t2 ++ [';'])) = _
      rw [stripTrailingSemi]
      simp only [this]
      simp [hc]

theorem strip_joinDefs (d : Str) (r : List Str) (h : ∀ x ∈ d :: r, defOk x = true) :
    stripTrailingSemi (joinDefs (d :: r)) = inter (d :: r) ∧ inter (d :: r) ≠ [] := by
  induction r generalizing d with
  | nil =>
    obtain ⟨c, t, hd, hsemi, _⟩ := defOk_iff.mp (h d (by simp))
    have hne : d ≠ [] := by simp [hd]
    constructor
    · simp only [joinDefs, inter]
      exact strip_snoc_semi d hne hsemi
    · simpa [inter] using hne
  | cons d' r' ih =>
    obtain ⟨c, t, hd, hsemi, _⟩ := defOk_iff.mp (h d (by simp))
    have ihr := ih d' (fun x hx => h x (by simp at hx ⊢; right; exact hx))
    constructor
    · have : joinDefs (d :: d' :: r') = (d ++ [';']) ++ joinDefs (d' :: r') := by simp [joinDefs]
      rw [this, strip_append _ _ (by rw [ihr.1]; exact ihr.2), ihr.1]
      simp [inter]
    · simp [inter, hd]

/-- the definition carries its own value / parameter list -/
def hasEq (d : Str) : Bool := d.any fun c => c == '(' || c == '='

theorem addOnes_scan (d rest : Str) (e : Bool) (hd : ';' ∉ d) :
    addOnes (d ++ rest) e false = d ++ addOnes rest (e || hasEq d) false := by
  induction d generalizing e with
  | nil => simp [hasEq]
  | cons c t ih =>
    have hc : c ≠ ';' := fun hc => hd (by simp [hc])
    have ht : ';' ∉ t := fun ht => hd (by simp [ht])
    by_cases h1 : c = '(' ∨ c = '='
    · have : (c == '(' || c == '=') = true := by rcases h1 with h | h <;> simp [h]
      simp [addOnes, h1, ih _ ht, hasEq, this]
    · have : (c == '(' || c == '=') = false := by
        simp only [not_or] at h1; simp [h1.1, h1.2]
      simp [addOnes, h1, hc, ih _ ht, hasEq, this]

theorem normDef_eq (d : Str) : normDef d = d ++ (if hasEq d then [] else ['=', '1']) := by
  have key : (d.contains '=' = true ∨ d.contains '(' = true) ↔ hasEq d = true := by
    simp only [hasEq, List.contains_iff_mem, List.any_eq_true, Bool.or_eq_true, beq_iff_eq]
    constructor
    · rintro (h | h)
      · exact ⟨'=', h, Or.inr rfl⟩
      · exact ⟨'(', h, Or.inl rfl⟩
    · rintro ⟨x, hx, h | h⟩
      · right; exact h ▸ hx
      · left; exact h ▸ hx
  unfold normDef
  by_cases h : hasEq d = true
  · rw [if_pos (key.mpr h)]; simp [h]
  · rw [if_neg (fun hh => h (key.mp hh))]; simp [h]

theorem normal_cons2 (d d' : Str) (r : List Str) : normal (d :: d' :: r) = normDef d ++ ';' :: normal (d' :: r) := by
  simp [normal, List.intercalate]

theorem addOnes_inter (d : Str) (r : List Str) (h : ∀ x ∈ d :: r, defOk x = true) :
    addOnes (inter (d :: r)) false false = normal (d :: r) := by
  induction r generalizing d with
  | nil =>
    obtain ⟨c, t, hd, hsemi, _⟩ := defOk_iff.mp (h d (by simp))
    have := addOnes_scan d [] false hsemi
    simp only [List.append_nil, Bool.false_or] at this
    simp only [inter, this, normal, List.map, normDef_eq, addOnes]
    cases hasEq d <;> simp [List.intercalate]
  | cons d' r' ih =>
    obtain ⟨c, t, hd, hsemi, _⟩ := defOk_iff.mp (h d (by simp))
    obtain ⟨c', t', hd', hsemi', hne1, hne2, _⟩ := defOk_iff.mp (h d' (by simp))
    have ihr := ih d' (fun x hx => h x (by simp at hx ⊢; right; exact hx))
    have hc' : c' ≠ ';' := fun hc => hsemi' (by simp [hd', hc])
    -- the rest starts with an ordinary character, so skipping its examination changes nothing
    have hstart : ∃ tl, inter (d' :: r') = c' :: tl := by
      cases r' with
      | nil => exact ⟨t', by simp [inter, hd']⟩
      | cons d2 r2 => exact ⟨t' ++ ';' :: inter (d2 :: r2), by simp [inter, hd']⟩
    obtain ⟨tl, htl⟩ := hstart
    rw [show inter (d :: d' :: r') = d ++ ';' :: inter (d' :: r') from rfl, addOnes_scan _ _ _ hsemi,
      normal_cons2, normDef_eq, ← ihr, htl]
    cases hasEq d
    · simp [addOnes, hne1, hne2, hc']
    · simp [addOnes]

/-- **`fsSetDefines` normal form**: on the string `parseArgs` builds from representable definitions the
    result is the `;`-separated list in which value-less definitions got `=1` -/
theorem fsSetDefines_joinDefs (ds : List Str) (h : ∀ d ∈ ds, defOk d = true) :
    fsSetDefines (joinDefs ds) = normal ds := by
  cases ds with
  | nil => simp [fsSetDefines, joinDefs, eraseMsbuild, eraseDoubleSemi, stripTrailingSemi, normal, List.intercalate]
  | cons d r =>
    obtain ⟨c, t, hd, hsemi, _⟩ := defOk_iff.mp (h d (by simp))
    have hc : c ≠ ';' := fun hc => hsemi (by simp [hd, hc])
    have h3 : (joinDefs (d :: r)).dropWhile (· == ';') = joinDefs (d :: r) := by
      simp [joinDefs, hd, hc]
    have hs := strip_joinDefs d r h
    simp only [fsSetDefines, eraseMsbuild_none _ _ (no_placeholder _ h).1, eraseDoubleSemi_none _ _ (no_double_semi _ h).1,
      h3, hs.1]
    have : (inter (d :: r)).isEmpty = false := by
      cases hi : inter (d :: r) with
      | nil => exact absurd hi hs.2
      | cons _ _ => rfl
    simp only [this, Bool.false_eq_true, if_false]
    exact addOnes_inter d r h

/-! ### `Spec.gcc` inverts `render` -/

theorem form_of_append (n d : Str) (hd : d ≠ []) : form n (n ++ d) = .joined d := by
  unfold form
  have h1 : n ++ d ≠ n := by
    intro h
    have := congrArg List.length h
    simp at this
    exact hd this
  have h2 : n.isPrefixOf (n ++ d) = true := List.isPrefixOf_iff_prefix.mpr (List.prefix_append n d)
  simp [h1, h2]

theorem form_no_of {n a : Str} (h : n.isPrefixOf a = false) : form n a = .no := by
  unfold form
  have h1 : a ≠ n := by
    intro h'; subst h'
    have : a.isPrefixOf a = true := List.isPrefixOf_iff_prefix.mpr (List.prefix_refl a)
    rw [this] at h; exact Bool.noConfusion h
  simp [h1, h]

theorem form_self (n : Str) : form n n = .sep := by simp [form]

/-- stepping `gcc` over one argument that carries a joined `-I` value -/
theorem gcc_I_joined (a v : Str) (rest : List Str) (o : Opts) (h : form "-I".toList a = .joined v) :
    gcc (a :: rest) o = gcc rest (o.addInc v) := by
  cases rest <;> simp only [gcc, h]

theorem gcc_I_sep (b : Str) (rest : List Str) (o : Opts) :
    gcc ("-I".toList :: b :: rest) o = gcc rest (o.addInc b) := by
  simp only [gcc, form_self]

theorem gcc_isystem_joined (a v : Str) (rest : List Str) (o : Opts)
    (h1 : form "-I".toList a = .no) (h : form "-isystem".toList a = .joined v) :
    gcc (a :: rest) o = gcc rest { o with sysIncludes := o.sysIncludes ++ [v] } := by
  cases rest <;> simp only [gcc, h1, h]

theorem gcc_isystem_sep (b : Str) (rest : List Str) (o : Opts) :
    gcc ("-isystem".toList :: b :: rest) o = gcc rest { o with sysIncludes := o.sysIncludes ++ [b] } := by
  have h1 : form "-I".toList "-isystem".toList = .no := form_no_of (by decide +kernel)
  simp only [gcc, h1, form_self]

theorem gcc_D_joined (a v : Str) (rest : List Str) (o : Opts)
    (h1 : form "-I".toList a = .no) (h2 : form "-isystem".toList a = .no) (h : form "-D".toList a = .joined v) :
    gcc (a :: rest) o = gcc rest { o with defines := o.defines ++ [v] } := by
  cases rest <;> simp only [gcc, h1, h2, h]

theorem gcc_D_sep (b : Str) (rest : List Str) (o : Opts) :
    gcc ("-D".toList :: b :: rest) o = gcc rest { o with defines := o.defines ++ [b] } := by
  have h1 : form "-I".toList "-D".toList = .no := form_no_of (by decide +kernel)
  have h2 : form "-isystem".toList "-D".toList = .no := form_no_of (by decide +kernel)
  simp only [gcc, h1, h2, form_self]

theorem gcc_U_joined (a v : Str) (rest : List Str) (o : Opts)
    (h1 : form "-I".toList a = .no) (h2 : form "-isystem".toList a = .no) (h3 : form "-D".toList a = .no)
    (h : form "-U".toList a = .joined v) :
    gcc (a :: rest) o = gcc rest { o with undefs := setInsert v o.undefs } := by
  cases rest <;> simp only [gcc, h1, h2, h3, h]

theorem gcc_U_sep (b : Str) (rest : List Str) (o : Opts) :
    gcc ("-U".toList :: b :: rest) o = gcc rest { o with undefs := setInsert b o.undefs } := by
  have h1 : form "-I".toList "-U".toList = .no := form_no_of (by decide +kernel)
  have h2 : form "-isystem".toList "-U".toList = .no := form_no_of (by decide +kernel)
  have h3 : form "-D".toList "-U".toList = .no := form_no_of (by decide +kernel)
  simp only [gcc, h1, h2, h3, form_self]

theorem gcc_std (a v : Str) (rest : List Str) (o : Opts)
    (h1 : form "-I".toList a = .no) (h2 : form "-isystem".toList a = .no) (h3 : form "-D".toList a = .no)
    (h4 : form "-U".toList a = .no) (h : form "-std=".toList a = .joined v) :
    gcc (a :: rest) o = gcc rest { o with std := v } := by
  cases rest <;> simp only [gcc, h1, h2, h3, h4, h]

theorem gcc_flag (a d : Str) (rest : List Str) (o : Opts)
    (h1 : form "-I".toList a = .no) (h2 : form "-isystem".toList a = .no) (h3 : form "-D".toList a = .no)
    (h4 : form "-U".toList a = .no) (h5 : form "-std=".toList a = .no) (h : impliedDefine a = some d) :
    gcc (a :: rest) o = gcc rest { o with defines := o.defines ++ [d] } := by
  cases rest <;> simp only [gcc, h1, h2, h3, h4, h5, h]

theorem gcc_other (a : Str) (rest : List Str) (o : Opts)
    (h1 : form "-I".toList a = .no) (h2 : form "-isystem".toList a = .no) (h3 : form "-D".toList a = .no)
    (h4 : form "-U".toList a = .no) (h5 : form "-std=".toList a = .no) (h6 : impliedDefine a = none)
    (h7 : sepOpts.contains a = false) :
    gcc (a :: rest) o = gcc rest o := by
  cases rest <;> simp only [gcc, h1, h2, h3, h4, h5, h6, h7, Bool.false_eq_true, if_false]

theorem gcc_sepOther (a b : Str) (rest : List Str) (o : Opts)
    (h1 : form "-I".toList a = .no) (h2 : form "-isystem".toList a = .no) (h3 : form "-D".toList a = .no)
    (h4 : form "-U".toList a = .no) (h5 : form "-std=".toList a = .no) (h6 : impliedDefine a = none)
    (h7 : sepOpts.contains a = true) :
    gcc (a :: b :: rest) o = gcc rest o := by
  simp only [gcc, h1, h2, h3, h4, h5, h6, h7, if_true]

theorem notOption_forms {a : Str} (h : notOption a = true) :
    form "-I".toList a = .no ∧ form "-isystem".toList a = .no ∧ form "-D".toList a = .no ∧
    form "-U".toList a = .no ∧ form "-std=".toList a = .no := by
  simp only [notOption, Bool.and_eq_true, Bool.not_eq_true'] at h
  obtain ⟨⟨⟨⟨a1, a2⟩, a3⟩, a4⟩, a5⟩ := h
  exact ⟨form_no_of a1, form_no_of a2, form_no_of a3, form_no_of a4, form_no_of a5⟩

theorem implied_notOption {a d : Str} (h : impliedDefine a = some d) : notOption a = true := by
  unfold impliedDefine at h
  repeat' split at h
  all_goals first
    | (subst_vars; decide +kernel)
    | simp at h

theorem gcc_render (l : List Opt) (h : ∀ x ∈ l, x.wf = true) (o : Opts) : gcc (render l) o = meaning l o := by
  induction l generalizing o with
  | nil => simp [render, gcc, meaning]
  | cons x r ih =>
    have hr : ∀ y ∈ r, y.wf = true := fun y hy => h y (by simp [hy])
    have hx := h x (by simp)
    cases x with
    | inc d j =>
      have hd : d ≠ [] := by simpa [Opt.wf] using hx
      cases j
      · simp only [render, Opt.render, Bool.false_eq_true, if_false, List.cons_append, List.nil_append, meaning]
        rw [gcc_I_sep, ih hr]
      · simp only [render, Opt.render, if_true, List.cons_append, List.nil_append, meaning]
        rw [gcc_I_joined _ d _ _ (form_of_append _ _ hd), ih hr]
    | sysinc d j =>
      have hd : d ≠ [] := by simpa [Opt.wf] using hx
      cases j
      · simp only [render, Opt.render, Bool.false_eq_true, if_false, List.cons_append, List.nil_append, meaning]
        rw [gcc_isystem_sep, ih hr]
      · simp only [render, Opt.render, if_true, List.cons_append, List.nil_append, meaning]
        have n1 : form "-I".toList ("-isystem".toList ++ d) = .no := form_no_of (by simp [List.isPrefixOf])
        rw [gcc_isystem_joined _ d _ _ n1 (form_of_append _ _ hd), ih hr]
    | define d j =>
      have hd : d ≠ [] := by simpa [Opt.wf] using hx
      cases j
      · simp only [render, Opt.render, Bool.false_eq_true, if_false, List.cons_append, List.nil_append, meaning]
        rw [gcc_D_sep, ih hr]
      · simp only [render, Opt.render, if_true, List.cons_append, List.nil_append, meaning]
        have n1 : form "-I".toList ("-D".toList ++ d) = .no := form_no_of (by simp [List.isPrefixOf])
        have n2 : form "-isystem".toList ("-D".toList ++ d) = .no := form_no_of (by simp [List.isPrefixOf])
        rw [gcc_D_joined _ d _ _ n1 n2 (form_of_append _ _ hd), ih hr]
    | undef d j =>
      have hd : d ≠ [] := by simpa [Opt.wf] using hx
      cases j
      · simp only [render, Opt.render, Bool.false_eq_true, if_false, List.cons_append, List.nil_append, meaning]
        rw [gcc_U_sep, ih hr]
      · simp only [render, Opt.render, if_true, List.cons_append, List.nil_append, meaning]
        have n1 : form "-I".toList ("-U".toList ++ d) = .no := form_no_of (by simp [List.isPrefixOf])
        have n2 : form "-isystem".toList ("-U".toList ++ d) = .no := form_no_of (by simp [List.isPrefixOf])
        have n3 : form "-D".toList ("-U".toList ++ d) = .no := form_no_of (by simp [List.isPrefixOf])
        rw [gcc_U_joined _ d _ _ n1 n2 n3 (form_of_append _ _ hd), ih hr]
    | std d =>
      have hd : d ≠ [] := by simpa [Opt.wf] using hx
      simp only [render, Opt.render, List.cons_append, List.nil_append, meaning]
      have n1 : form "-I".toList ("-std=".toList ++ d) = .no := form_no_of (by simp [List.isPrefixOf])
      have n2 : form "-isystem".toList ("-std=".toList ++ d) = .no := form_no_of (by simp [List.isPrefixOf])
      have n3 : form "-D".toList ("-std=".toList ++ d) = .no := form_no_of (by simp [List.isPrefixOf])
      have n4 : form "-U".toList ("-std=".toList ++ d) = .no := form_no_of (by simp [List.isPrefixOf])
      rw [gcc_std _ d _ _ n1 n2 n3 n4 (form_of_append _ _ hd), ih hr]
    | flag a =>
      simp only [Opt.wf, Option.isSome_iff_exists] at hx
      obtain ⟨d, hd⟩ := hx
      obtain ⟨f1, f2, f3, f4, f5⟩ := notOption_forms (implied_notOption hd)
      simp only [render, Opt.render, List.cons_append, List.nil_append, meaning, hd]
      rw [gcc_flag _ d _ _ f1 f2 f3 f4 f5 hd, ih hr]
    | sepOther a v =>
      simp only [Opt.wf, Bool.and_eq_true, Option.isNone_iff_eq_none] at hx
      obtain ⟨f1, f2, f3, f4, f5⟩ := notOption_forms hx.1.2
      simp only [render, Opt.render, List.cons_append, List.nil_append, meaning]
      rw [gcc_sepOther _ _ _ _ f1 f2 f3 f4 f5 hx.2 hx.1.1, ih hr]
    | other a =>
      simp only [Opt.wf, Bool.and_eq_true, Option.isNone_iff_eq_none, Bool.not_eq_true'] at hx
      obtain ⟨f1, f2, f3, f4, f5⟩ := notOption_forms hx.1.1
      simp only [render, Opt.render, List.cons_append, List.nil_append, meaning]
      rw [gcc_other _ _ _ f1 f2 f3 f4 f5 hx.1.2 hx.2, ih hr]

/-! ### the loop before commit 0f74657 -/

theorem before_runChecks (cs : List (List Str × Kind)) (a : Str) (rest : List Str) (fs : FS) :
    Before0f74657.runChecks cs a rest fs = .oob ∨
    ∃ c f, Before0f74657.runChecks cs a rest fs = .next c f ∧ runChecks cs a rest fs = .next c f := by
  induction cs with
  | nil => exact Or.inr ⟨false, fs, rfl, rfl⟩
  | cons x cs ih =>
    obtain ⟨names, k⟩ := x
    simp only [Before0f74657.runChecks, runChecks]
    cases findPrefix names a with
    | none => exact ih
    | some n =>
      by_cases hl : a.length = n
      · simp only [hl, if_true]
        cases rest with
        | nil =>
          by_cases hc : cs.isEmpty = true
          · exact Or.inr ⟨false, fs, by simp [hc], rfl⟩
          · exact Or.inl (by simp [hc])
        | cons b r =>
          by_cases hb : b.isEmpty = true
          · exact Or.inr ⟨true, fs, by simp [hb], by simp [hb]⟩
          · exact Or.inr ⟨true, apply k b fs, by simp [hb], by simp [hb]⟩
      · exact Or.inr ⟨false, apply k (a.drop n) fs, by simp [hl], by simp [hl]⟩

/-- the repair 0f74657 changes nothing where the old code had defined behaviour -/
theorem before_loop_defined (args : List Str) (fs r : FS) (h : Before0f74657.loop args fs = some r) :
    loop args fs = r := by
  fun_induction Before0f74657.loop args fs
  case case1 => simpa [loop] using h
  case case2 => simp at h
  case case3 arg rest fs fs' hx ih =>
    rcases before_runChecks checks arg rest fs with ho | ⟨c, f, h1, h2⟩
    · rw [ho] at hx; exact Before0f74657.Out.noConfusion hx
    · rw [h1] at hx; injection hx with hc hf; subst hc; subst hf
      rw [loop_next_false h2]; exact ih h
  case case4 arg fs fs' hx =>
    rcases before_runChecks checks arg [] fs with ho | ⟨c, f, h1, h2⟩
    · rw [ho] at hx; exact Before0f74657.Out.noConfusion hx
    · rw [h1] at hx; injection hx with hc hf; subst hc; subst hf
      simp only [Option.some.injEq] at h
      simp [loop, h2, h]
  case case5 arg fs fs' b r' hx ih =>
    rcases before_runChecks checks arg (b :: r') fs with ho | ⟨c, f, h1, h2⟩
    · rw [ho] at hx; exact Before0f74657.Out.noConfusion hx
    · rw [h1] at hx; injection hx with hc hf; subst hc; subst hf
      rw [loop_next_true h2]; exact ih h

/-- `parseArgs` = specification on `clean` vectors with representable definitions (restated in Props) -/
theorem parseArgs_eq_gcc (args : List Str) (h : clean args = true)
    (hd : ∀ d ∈ (gcc args {}).defines, defOk d = true) :
    parseArgs args = (gcc args {}).toFS := by
  have hl := loop_eq_gcc args h {}
  have h0 : ({} : Opts).toRaw = ({} : FS) := rfl
  rw [h0] at hl
  simp only [parseArgs, hl, Opts.toRaw, Opts.toFS, fsSetDefines_joinDefs _ hd]

open Import

/-! ### import level -/

theorem fromNative_id (d : Str) (h : d.contains '\\' = false) : fromNative d = d := by
  induction d with
  | nil => rfl
  | cons c t ih =>
    simp only [List.contains_cons, Bool.or_eq_false_iff, beq_eq_false_iff_ne, ne_eq] at h
    have hc : c ≠ '\\' := fun hc => h.1 hc.symm
    simp only [fromNative, List.map_cons, hc, if_false] at ih ⊢
    rw [ih h.2]

theorem fsSetIncludePaths_eq_spec (base : Str) (l : List Str) (h : ∀ d ∈ l, plainInc base d = true)
    (found out : List Str) :
    fsSetIncludePaths base l found out = out ++ incSpec base l found := by
  induction l generalizing found out with
  | nil => simp [fsSetIncludePaths, incSpec]
  | cons d r ih =>
    have hr : ∀ x ∈ r, plainInc base x = true := fun x hx => h x (by simp [hx])
    have hd := h d (by simp)
    simp only [plainInc, Bool.and_eq_true, Bool.not_eq_true', Bool.or_eq_true, Option.isNone_iff_eq_none] at hd
    obtain ⟨⟨⟨hne, hpct⟩, hbs⟩, habs⟩ := hd
    have hnat := fromNative_id d hbs
    unfold fsSetIncludePaths
    simp only [hne, Bool.false_eq_true, if_false, hpct, hnat]
    by_cases hf : found.contains d = true
    · simp only [hf, if_true, incSpec]
      exact ih hr found out
    · simp only [hf, Bool.false_eq_true, if_false, incSpec]
      by_cases ha : incIsAbsolute d = true
      · simp only [ha, if_true, resolveInc]
        rw [ih hr]; simp
      · rcases habs with habs | ⟨hvar, hnz⟩
        · exact absurd habs ha
        · simp only [ha, Bool.false_eq_true, if_false, resolveInc, hvar, Option.isSome_none, hnz]
          rw [ih hr]; simp

theorem sysSpec_abs (base : Str) (ds : List Str) (h : ∀ d ∈ ds, incIsAbsolute d = true) : sysSpec base ds = ds := by
  induction ds with
  | nil => rfl
  | cons d r ih =>
    have hd := h d (by simp)
    have hr := ih (fun x hx => h x (by simp [hx]))
    simp only [sysSpec, List.map_cons, hd, if_true] at hr ⊢
    rw [hr]

theorem importEntries_step (e : Entry) (f : Str) (args : List Str) (rest : List Entry) (errs : Nat) (acc : List FileSetting)
    (hf : e.file = some f) (ha : entryArgs e.args = some args) (hacc : acceptFile (fromNative f) = true) :
    importEntries (e :: rest) errs acc =
      importEntries rest errs (acc ++ [⟨entryPath e.dir f, (acc.filter fun x => x.path = entryPath e.dir f).length,
        { parseArgs args with includePaths := fsSetIncludePaths (entryDir e.dir) (parseArgs args).includePaths [] [] }⟩]) := by
  rw [importEntries]
  simp only [ha, hf, hacc, Bool.not_true, Bool.false_eq_true, if_false]

theorem importEntries_eq_spec (es : List Entry) (h : ∀ e ∈ es, goodEntry e = true) (errs : Nat) (acc : List FileSetting) :
    importEntries es errs acc = ⟨true, errs, specImport es acc⟩ := by
  induction es generalizing acc with
  | nil => simp [importEntries, specImport]
  | cons e rest ih =>
    have hr : ∀ x ∈ rest, goodEntry x = true := fun x hx => h x (by simp [hx])
    have he := h e (by simp)
    unfold goodEntry at he
    cases hf : e.file with
    | none => simp [hf] at he
    | some f =>
      cases ha : entryArgs e.args with
      | none => simp [hf, ha] at he
      | some args =>
        simp only [hf, ha, Bool.and_eq_true, List.all_eq_true] at he
        obtain ⟨⟨⟨⟨hacc, hclean⟩, hdef⟩, hinc⟩, hsys⟩ := he
        have hp := parseArgs_eq_gcc args hclean hdef
        rw [importEntries_step e f args rest errs acc hf ha hacc, hp]
        have hi : fsSetIncludePaths (entryDir e.dir) (gcc args {}).toFS.includePaths [] [] =
            incSpec (entryDir e.dir) (gcc args {}).includes [] := by
          have := fsSetIncludePaths_eq_spec (entryDir e.dir) (gcc args {}).includes hinc [] []
          simpa [Opts.toFS] using this
        rw [hi, ih hr]
        simp only [specImport, hf, ha, specSettings, sysSpec_abs _ _ hsys]
        rfl

end Cppcheck.GccArgs

import Cppcheck.Proofs.CtuRender
/-
C22 — per summary kind: (1) the writer's text renders a known element, (2) the reader maps that element back.
-/
namespace Cppcheck.Ctu
open Cppcheck.Wire

/-! ## hypotheses on values (all decidable) -/

/-- a string that is written through `toxml` survives iff it is XML-safe; a raw one iff it is raw-safe -/
def Loc.Ok (l : Loc) : Bool := XmlSafe l.file && inS 32 l.line && inS 32 l.col

def PathLoc.Ok (simp : Str → Str) (p : PathLoc) : Bool :=
  decide (simp p.file = p.file) && XmlSafe p.file && XmlSafe p.info && inS 32 p.line && inU 32 p.col

def FunctionCall.Ok (simp : Str → Str) (c : FunctionCall) : Bool :=
  RawSafe c.callId && XmlSafe c.callFunctionName && inS 32 c.callArgNr && c.loc.Ok && XmlSafe c.argExpr
    && inU 8 c.valueType && inS 64 c.argValue && inU 8 c.ufr && c.path.all (PathLoc.Ok simp)

def NestedCall.Ok (c : NestedCall) : Bool :=
  RawSafe c.callId && XmlSafe c.callFunctionName && inS 32 c.callArgNr && c.loc.Ok && RawSafe c.myId && inS 32 c.myArgNr

def UnsafeUsage.Ok (u : UnsafeUsage) : Bool :=
  RawSafe u.myId && inS 32 u.myArgNr && RawSafe u.myArgName && u.loc.Ok && inS 64 u.value

def FileInfo.Ok (simp : Str → Str) (fi : FileInfo) : Bool :=
  fi.functionCalls.all (FunctionCall.Ok simp) && fi.nestedCalls.all NestedCall.Ok

def ClassDef.Ok (c : ClassDef) : Bool :=
  XmlSafe c.className && XmlSafe c.fileName && XmlSafe c.configuration && inS 32 c.line && inS 32 c.col && inU 64 (c.hash : Int)

/-! ## clean attribute values -/

theorem clean_toxml (s : Str) : Clean (toxml s) := by
  have := toxml_clean s
  simp [Clean, this.1, this.2]

theorem clean_raw (s : Str) (h : RawSafe s = true) : Clean s := by
  have hs : ∀ c ∈ s, rawSafeChar c = true := fun c hc => List.all_eq_true.mp h c hc
  constructor
  · simp only [List.contains_eq_mem, decide_eq_false_iff_not]
    intro hm; have := hs _ hm; simp [rawSafeChar] at this
  · simp only [List.contains_eq_mem, decide_eq_false_iff_not]
    intro hm; have := hs _ hm; simp [rawSafeChar] at this

theorem clean_int (i : Int) : Clean (showInt i) := clean_raw _ (rawSafe_showInt i)
theorem clean_nat (n : Nat) : Clean (showNat n) := clean_raw _ (rawSafe_showNat n)
theorem clean_true : Clean "true".toList := by constructor <;> decide

/-- reading a number that `showInt` wrote -/
theorem rdI_showInt (e : Elem) (n : String) (i : Int) (h : attrStr e n = some (attrDecode (showInt i))) (hr : inS 64 i = true) :
    rdI e n = (i, false) := by
  simp only [rdI, h, attrDecode_showInt, scanInt64_showInt' i hr]

theorem rdS_some (e : Elem) (n : String) (v : Str) (err : Bool) (h : attrStr e n = some v) : rdS e n err = (v, err) := by
  unfold rdS; rw [h]

theorem inS32_64 (i : Int) (h : inS 32 i = true) : inS 64 i = true := by
  simp only [inS, Bool.and_eq_true, decide_eq_true_eq] at h ⊢
  simp only [Int.reducePow, Nat.reduceSub] at h ⊢
  omega

theorem inU8_64 (i : Int) (h : inU 8 i = true) : inS 64 i = true := by
  simp only [inS, inU, Bool.and_eq_true, decide_eq_true_eq] at h ⊢
  simp only [Int.reducePow, Nat.reduceSub] at h ⊢
  omega

theorem inU32_64 (i : Int) (h : inU 32 i = true) : inS 64 i = true := by
  simp only [inS, inU, Bool.and_eq_true, decide_eq_true_eq] at h ⊢
  simp only [Int.reducePow, Nat.reduceSub] at h ⊢
  omega

theorem decode_safe (s : Str) (h : XmlSafe s = true) : attrDecode (toxml s) = s := by
  rw [attrDecode_toxml', lossy_of_safe s h]

/-! ## attribute lookup on literal attribute lists -/

theorem find_hit (k : Str) (v : Str) (r : List (Str × Str)) :
    ((k, v) :: r).find? (fun a => a.1 == k) = some (k, v) := by simp

theorem find_skip (k n : Str) (v : Str) (r : List (Str × Str)) (h : (n == k) = false) :
    ((n, v) :: r).find? (fun a => a.1 == k) = r.find? (fun a => a.1 == k) := by
  simp [List.find?_cons, h]

macro "find_attr" : tactic =>
  `(tactic| (simp only [attrStr, findAttr, Elem.attrs]
             repeat (first | rw [find_hit] | rw [find_skip _ _ _ _ (by decide)])
             try rfl))

/-! ## function calls -/

def pathAttrs (simp : Str → Str) (p : PathLoc) : List (Str × Str) :=
  [("file".toList, toxml (simp p.file)), ("line".toList, showInt p.line), ("col".toList, showInt p.col), ("info".toList, toxml p.info)]

def pathElem (simp : Str → Str) (p : PathLoc) : Elem := .mk "path".toList (pathAttrs simp p) []

def fcAttrs (c : FunctionCall) : List (Str × Str) :=
  [("call-id".toList, c.callId), ("call-funcname".toList, toxml c.callFunctionName), ("call-argnr".toList, showInt c.callArgNr),
   ("file".toList, toxml c.loc.file), ("line".toList, showInt c.loc.line), ("col".toList, showInt c.loc.col),
   ("call-argexpr".toList, toxml c.argExpr), ("call-argvaluetype".toList, showInt c.valueType),
   ("call-argvalue".toList, showInt c.argValue), ("call-argvalue-ufr".toList, showInt c.ufr)]
  ++ (if c.warning then [("warning".toList, "true".toList)] else [])

def fcElem (simp : Str → Str) (c : FunctionCall) : Elem :=
  .mk "function-call".toList (fcAttrs c) (c.path.map (pathElem simp))

theorem path_text (simp : Str → Str) (p : PathLoc) :
    p.toXml simp = ("  ".toList ++ headText "path".toList (pathAttrs simp p) ++ ['/', '>']) ++ "\n".toList := by
  unfold PathLoc.toXml headText pathAttrs
  rw [show "  <path".toList = "  ".toList ++ '<' :: "path".toList from rfl, show "/>\n".toList = ['/', '>'] ++ "\n".toList from rfl]
  simp only [attr_render, ← renderAttrs_append, List.append_assoc, List.cons_append, List.nil_append, List.singleton_append]

theorem pathAttrs_ok (simp : Str → Str) (p : PathLoc) : AttrsOK (pathAttrs simp p) = true := by
  have : pathAttrs simp p = ["file".toList, "line".toList, "col".toList, "info".toList].zip
      [toxml (simp p.file), showInt p.line, showInt p.col, toxml p.info] := rfl
  rw [this]
  apply attrsOK_zip _ _ (by decide)
  simp only [List.mem_cons, List.mem_nil_iff, or_false, forall_eq_or_imp, forall_eq]
  exact ⟨clean_toxml _, clean_int _, clean_int _, clean_toxml _⟩

theorem pathsXml_renders (simp : Str → Str) : ∀ ps : List PathLoc, Renders 0 (pathsXml simp ps) (ps.map (pathElem simp)) := by
  intro ps
  induction ps with
  | nil => exact renders_nil 0
  | cons p r ih =>
    have h1 : Renders 0 (p.toXml simp) ([pathElem simp p] ++ []) := by
      rw [path_text]
      exact renders_append (renders_closed 0 "  ".toList "path".toList _ (by decide) (by decide) (by decide) (pathAttrs_ok simp p))
        (renders_ws 0 "\n".toList (by decide))
    have := renders_append h1 ih
    simpa [pathsXml] using this

theorem fcAttrs_ok (c : FunctionCall) (h : RawSafe c.callId = true) : AttrsOK (fcAttrs c) = true := by
  unfold fcAttrs
  cases c.warning
  · have : ([("call-id".toList, c.callId), ("call-funcname".toList, toxml c.callFunctionName), ("call-argnr".toList, showInt c.callArgNr),
        ("file".toList, toxml c.loc.file), ("line".toList, showInt c.loc.line), ("col".toList, showInt c.loc.col),
        ("call-argexpr".toList, toxml c.argExpr), ("call-argvaluetype".toList, showInt c.valueType),
        ("call-argvalue".toList, showInt c.argValue), ("call-argvalue-ufr".toList, showInt c.ufr)] ++ (if false = true then [("warning".toList, "true".toList)] else []))
        = ["call-id".toList, "call-funcname".toList, "call-argnr".toList, "file".toList, "line".toList, "col".toList,
           "call-argexpr".toList, "call-argvaluetype".toList, "call-argvalue".toList, "call-argvalue-ufr".toList].zip
          [c.callId, toxml c.callFunctionName, showInt c.callArgNr, toxml c.loc.file, showInt c.loc.line, showInt c.loc.col,
           toxml c.argExpr, showInt c.valueType, showInt c.argValue, showInt c.ufr] := rfl
    rw [this]
    apply attrsOK_zip _ _ (by decide)
    simp only [List.mem_cons, List.mem_nil_iff, or_false, forall_eq_or_imp, forall_eq]
    exact ⟨clean_raw _ h, clean_toxml _, clean_int _, clean_toxml _, clean_int _, clean_int _, clean_toxml _, clean_int _, clean_int _, clean_int _⟩
  · have : ([("call-id".toList, c.callId), ("call-funcname".toList, toxml c.callFunctionName), ("call-argnr".toList, showInt c.callArgNr),
        ("file".toList, toxml c.loc.file), ("line".toList, showInt c.loc.line), ("col".toList, showInt c.loc.col),
        ("call-argexpr".toList, toxml c.argExpr), ("call-argvaluetype".toList, showInt c.valueType),
        ("call-argvalue".toList, showInt c.argValue), ("call-argvalue-ufr".toList, showInt c.ufr)] ++ (if true = true then [("warning".toList, "true".toList)] else []))
        = ["call-id".toList, "call-funcname".toList, "call-argnr".toList, "file".toList, "line".toList, "col".toList,
           "call-argexpr".toList, "call-argvaluetype".toList, "call-argvalue".toList, "call-argvalue-ufr".toList, "warning".toList].zip
          [c.callId, toxml c.callFunctionName, showInt c.callArgNr, toxml c.loc.file, showInt c.loc.line, showInt c.loc.col,
           toxml c.argExpr, showInt c.valueType, showInt c.argValue, showInt c.ufr, "true".toList] := rfl
    rw [this]
    apply attrsOK_zip _ _ (by decide)
    simp only [List.mem_cons, List.mem_nil_iff, or_false, forall_eq_or_imp, forall_eq]
    exact ⟨clean_raw _ h, clean_toxml _, clean_int _, clean_toxml _, clean_int _, clean_int _, clean_toxml _, clean_int _, clean_int _, clean_int _, clean_true⟩

theorem fc_head (c : FunctionCall) :
    "<function-call".toList ++ baseXml c.callId c.callFunctionName c.callArgNr c.loc
      ++ attr "call-argexpr" (toxml c.argExpr) ++ attr "call-argvaluetype" (showInt c.valueType)
      ++ attr "call-argvalue" (showInt c.argValue) ++ attr "call-argvalue-ufr" (showInt c.ufr)
      ++ (if c.warning then attr "warning" "true".toList else [])
    = headText "function-call".toList (fcAttrs c) := by
  unfold headText fcAttrs baseXml
  rw [show "<function-call".toList = '<' :: "function-call".toList from rfl]
  cases c.warning <;>
    simp only [attr_render, ← renderAttrs_append, List.append_assoc, List.cons_append, List.nil_append, List.singleton_append,
      if_true, if_false, Bool.false_eq_true, List.append_nil, renderAttrs]

theorem fc_text (simp : Str → Str) (c : FunctionCall) :
    c.toXml simp = if c.path = [] then [] ++ headText "function-call".toList (fcAttrs c) ++ ['/', '>']
      else [] ++ headText "function-call".toList (fcAttrs c) ++ '>' :: (("\n".toList ++ pathsXml simp c.path) ++ [] ++ '<' :: '/' :: ("function-call".toList ++ ['>'])) := by
  unfold FunctionCall.toXml
  rw [fc_head]
  split
  · rfl
  · rw [show ">\n".toList = '>' :: "\n".toList from rfl, show "</function-call>".toList = '<' :: '/' :: ("function-call".toList ++ ['>']) from rfl]
    simp only [List.append_assoc, List.cons_append, List.nil_append, List.append_nil]

theorem fc_renders (simp : Str → Str) (c : FunctionCall) (h : RawSafe c.callId = true) : Renders 1 (c.toXml simp) [fcElem simp c] := by
  rw [fc_text]
  split
  · rename_i hp
    have := renders_closed 1 [] "function-call".toList (fcAttrs c) (by decide) (by decide) (by decide) (fcAttrs_ok c h)
    simpa [fcElem, hp] using this
  · have hin : Renders 0 ("\n".toList ++ pathsXml simp c.path) ([] ++ c.path.map (pathElem simp)) :=
      renders_append (renders_ws 0 "\n".toList (by decide)) (pathsXml_renders simp c.path)
    exact renders_wrap [] "function-call".toList (fcAttrs c) [] (by decide) (by decide) (by decide) (by decide) (fcAttrs_ok c h) hin

theorem functionCalls_renders (simp : Str → Str) : ∀ l : List FunctionCall, (∀ c ∈ l, RawSafe c.callId = true) →
    Renders 1 (functionCallsStr simp l) (l.map (fcElem simp)) := by
  intro l
  induction l with
  | nil => intro _; exact renders_nil 1
  | cons c r ih =>
    intro h
    have := renders_append (fc_renders simp c (h c (by simp))) (ih (fun x hx => h x (by simp [hx])))
    simpa [functionCallsStr] using this

theorem loadPaths_pathElems (simp : Str → Str) : ∀ (ps : List PathLoc) (acc : List PathLoc), ps.all (PathLoc.Ok simp) = true →
    loadPaths (ps.map (pathElem simp)) acc = (acc ++ ps, false) := by
  intro ps
  induction ps with
  | nil => intro acc _; simp [loadPaths]
  | cons p r ih =>
    intro acc h
    simp only [List.all_cons, Bool.and_eq_true] at h
    obtain ⟨hp, hr⟩ := h
    simp only [PathLoc.Ok, Bool.and_eq_true, decide_eq_true_eq] at hp
    obtain ⟨⟨⟨⟨hsimp, hf⟩, hi⟩, hl⟩, hc⟩ := hp
    have a1 : attrStr (pathElem simp p) "file" = some (attrDecode (toxml (simp p.file))) := by
      simp only [pathElem, pathAttrs]; find_attr
    have a2 : attrStr (pathElem simp p) "info" = some (attrDecode (toxml p.info)) := by
      simp only [pathElem, pathAttrs]; find_attr
    have a3 : attrStr (pathElem simp p) "line" = some (attrDecode (showInt p.line)) := by
      simp only [pathElem, pathAttrs]; find_attr
    have a4 : attrStr (pathElem simp p) "col" = some (attrDecode (showInt p.col)) := by
      simp only [pathElem, pathAttrs]; find_attr
    have hn : (pathElem simp p).name = "path".toList := rfl
    simp only [List.map_cons, loadPaths, hn, ne_eq, not_true_eq_false, if_false,
      rdS_some _ _ _ _ a1, rdS_some _ _ _ _ a2, rdI_showInt _ _ _ a3 (inS32_64 _ hl), rdI_showInt _ _ _ a4 (inU32_64 _ hc),
      Bool.false_eq_true, ih _ hr, hsimp, decode_safe _ hf, decode_safe _ hi, wrapS_id 32 (by decide) _ hl, wrapU_wrapS_32 _ hc,
      List.append_assoc, List.singleton_append]

theorem fc_load (simp : Str → Str) (c : FunctionCall) (h : FunctionCall.Ok simp c = true) :
    FunctionCall.load (fcElem simp c) = some c := by
  simp only [FunctionCall.Ok, Loc.Ok, Bool.and_eq_true] at h
  obtain ⟨⟨⟨⟨⟨⟨⟨⟨hid, hfn⟩, han⟩, ⟨⟨hlf, hll⟩, hlc⟩⟩, hae⟩, hvt⟩, hval⟩, hufr⟩, hpath⟩ := h
  -- the attribute list as a literal, for both values of `warning`
  have hattrs : ∃ tl, (tl = [] ∨ tl = [("warning".toList, "true".toList)]) ∧ (c.warning = decide (tl ≠ [])) ∧
      fcElem simp c = .mk "function-call".toList
        (("call-id".toList, c.callId) :: ("call-funcname".toList, toxml c.callFunctionName) :: ("call-argnr".toList, showInt c.callArgNr) ::
         ("file".toList, toxml c.loc.file) :: ("line".toList, showInt c.loc.line) :: ("col".toList, showInt c.loc.col) ::
         ("call-argexpr".toList, toxml c.argExpr) :: ("call-argvaluetype".toList, showInt c.valueType) ::
         ("call-argvalue".toList, showInt c.argValue) :: ("call-argvalue-ufr".toList, showInt c.ufr) :: tl) (c.path.map (pathElem simp)) := by
    cases hw : c.warning
    · exact ⟨[], Or.inl rfl, by simp, by simp [fcElem, fcAttrs, hw]⟩
    · exact ⟨_, Or.inr rfl, by simp, by simp [fcElem, fcAttrs, hw]⟩
  obtain ⟨tl, htl, hwtl, he⟩ := hattrs
  rw [he]
  generalize hE : Elem.mk "function-call".toList
        (("call-id".toList, c.callId) :: ("call-funcname".toList, toxml c.callFunctionName) :: ("call-argnr".toList, showInt c.callArgNr) ::
         ("file".toList, toxml c.loc.file) :: ("line".toList, showInt c.loc.line) :: ("col".toList, showInt c.loc.col) ::
         ("call-argexpr".toList, toxml c.argExpr) :: ("call-argvaluetype".toList, showInt c.valueType) ::
         ("call-argvalue".toList, showInt c.argValue) :: ("call-argvalue-ufr".toList, showInt c.ufr) :: tl) (c.path.map (pathElem simp)) = E
  have b1 : attrStr E "call-id" = some (attrDecode c.callId) := by subst hE; find_attr
  have b2 : attrStr E "call-funcname" = some (attrDecode (toxml c.callFunctionName)) := by subst hE; find_attr
  have b3 : attrStr E "call-argnr" = some (attrDecode (showInt c.callArgNr)) := by subst hE; find_attr
  have b4 : attrStr E "file" = some (attrDecode (toxml c.loc.file)) := by subst hE; find_attr
  have b5 : attrStr E "line" = some (attrDecode (showInt c.loc.line)) := by subst hE; find_attr
  have b6 : attrStr E "col" = some (attrDecode (showInt c.loc.col)) := by subst hE; find_attr
  have b7 : attrStr E "call-argexpr" = some (attrDecode (toxml c.argExpr)) := by subst hE; find_attr
  have b8 : attrStr E "call-argvaluetype" = some (attrDecode (showInt c.valueType)) := by subst hE; find_attr
  have b9 : attrStr E "call-argvalue" = some (attrDecode (showInt c.argValue)) := by subst hE; find_attr
  have b10 : attrStr E "call-argvalue-ufr" = some (attrDecode (showInt c.ufr)) := by subst hE; find_attr
  have b11 : (attrStr E "warning" == some "true".toList) = c.warning := by
    subst hE
    rcases htl with rfl | rfl
    · rw [hwtl]; find_attr
    · rw [hwtl]
      have : attrDecode "true".toList = "true".toList := by decide
      find_attr
  have hk : E.kids = c.path.map (pathElem simp) := by subst hE; rfl
  have hbase : loadBase E = ((c.callId, c.callFunctionName, c.callArgNr, c.loc), true) := by
    simp only [loadBase, rdS_some _ _ _ _ b1, rdS_some _ _ _ _ b2, rdI_showInt _ _ _ b3 (inS32_64 _ han), rdS_some _ _ _ _ b4,
      rdI_showInt _ _ _ b5 (inS32_64 _ hll), rdI_showInt _ _ _ b6 (inS32_64 _ hlc),
      attrDecode_rawSafe _ hid, decode_safe _ hfn, decode_safe _ hlf, wrapS_id 32 (by decide) _ han,
      wrapS_id 32 (by decide) _ hll, wrapS_id 32 (by decide) _ hlc, Bool.not_false]
  have hu : 0 ≤ c.ufr ∧ c.ufr ≤ 255 := by
    simp only [inU, Bool.and_eq_true, decide_eq_true_eq, Int.reducePow] at hufr
    omega
  simp only [FunctionCall.load, hbase, Bool.not_true, Bool.false_eq_true, if_false,
    rdS_some _ _ _ _ b7, rdI_showInt _ _ _ b8 (inU8_64 _ hvt), rdI_showInt _ _ _ b9 hval, rdI_showInt _ _ _ b10 (inU8_64 _ hufr),
    hk, loadPaths_pathElems simp c.path [] hpath, List.nil_append, b11, decode_safe _ hae, wrapU_id 8 _ hvt, hu, and_self, if_true]

/-! ## nested calls -/

def ncAttrs (c : NestedCall) : List (Str × Str) :=
  [("call-id".toList, c.callId), ("call-funcname".toList, toxml c.callFunctionName), ("call-argnr".toList, showInt c.callArgNr),
   ("file".toList, toxml c.loc.file), ("line".toList, showInt c.loc.line), ("col".toList, showInt c.loc.col),
   ("my-id".toList, c.myId), ("my-argnr".toList, showInt c.myArgNr)]

def ncElem (tag : String) (c : NestedCall) : Elem := .mk tag.toList (ncAttrs c) []

theorem nc_text (tag : String) (c : NestedCall) : c.toXmlWith tag = [] ++ headText tag.toList (ncAttrs c) ++ ['/', '>'] := by
  unfold NestedCall.toXmlWith headText ncAttrs baseXml
  rw [show "/>".toList = ['/', '>'] from rfl]
  simp only [attr_render, ← renderAttrs_append, List.append_assoc, List.cons_append, List.nil_append, List.singleton_append]

theorem ncAttrs_ok (c : NestedCall) (h1 : RawSafe c.callId = true) (h2 : RawSafe c.myId = true) : AttrsOK (ncAttrs c) = true := by
  have : ncAttrs c = ["call-id".toList, "call-funcname".toList, "call-argnr".toList, "file".toList, "line".toList, "col".toList,
      "my-id".toList, "my-argnr".toList].zip
      [c.callId, toxml c.callFunctionName, showInt c.callArgNr, toxml c.loc.file, showInt c.loc.line, showInt c.loc.col, c.myId, showInt c.myArgNr] := rfl
  rw [this]
  apply attrsOK_zip _ _ (by decide)
  simp only [List.mem_cons, List.mem_nil_iff, or_false, forall_eq_or_imp, forall_eq]
  exact ⟨clean_raw _ h1, clean_toxml _, clean_int _, clean_toxml _, clean_int _, clean_int _, clean_raw _ h2, clean_int _⟩

theorem nc_renders (tag : String) (htag : IsName tag.toList = true) (hnn : NUL ∉ tag.toList) (c : NestedCall)
    (h1 : RawSafe c.callId = true) (h2 : RawSafe c.myId = true) : Renders 0 (c.toXmlWith tag) [ncElem tag c] := by
  rw [nc_text]
  exact renders_closed 0 [] tag.toList (ncAttrs c) (by decide) htag hnn (ncAttrs_ok c h1 h2)

theorem nestedCalls_renders (tag : String) (htag : IsName tag.toList = true) (hnn : NUL ∉ tag.toList) :
    ∀ l : List NestedCall, (∀ c ∈ l, RawSafe c.callId = true ∧ RawSafe c.myId = true) →
    Renders 0 (nestedCallsStrWith tag l) (l.map (ncElem tag)) := by
  intro l
  induction l with
  | nil => intro _; exact renders_nil 0
  | cons c r ih =>
    intro h
    have hc := h c (by simp)
    have := renders_append (renders_append (nc_renders tag htag hnn c hc.1 hc.2) (renders_ws 0 "\n".toList (by decide)))
      (ih (fun x hx => h x (by simp [hx])))
    simpa [nestedCallsStrWith] using this

theorem nc_load (tag : String) (c : NestedCall) (h : NestedCall.Ok c = true) : NestedCall.load (ncElem tag c) = some c := by
  simp only [NestedCall.Ok, Loc.Ok, Bool.and_eq_true] at h
  obtain ⟨⟨⟨⟨⟨hid, hfn⟩, han⟩, ⟨⟨hlf, hll⟩, hlc⟩⟩, hmy⟩, hma⟩ := h
  have b1 : attrStr (ncElem tag c) "call-id" = some (attrDecode c.callId) := by simp only [ncElem, ncAttrs]; find_attr
  have b2 : attrStr (ncElem tag c) "call-funcname" = some (attrDecode (toxml c.callFunctionName)) := by simp only [ncElem, ncAttrs]; find_attr
  have b3 : attrStr (ncElem tag c) "call-argnr" = some (attrDecode (showInt c.callArgNr)) := by simp only [ncElem, ncAttrs]; find_attr
  have b4 : attrStr (ncElem tag c) "file" = some (attrDecode (toxml c.loc.file)) := by simp only [ncElem, ncAttrs]; find_attr
  have b5 : attrStr (ncElem tag c) "line" = some (attrDecode (showInt c.loc.line)) := by simp only [ncElem, ncAttrs]; find_attr
  have b6 : attrStr (ncElem tag c) "col" = some (attrDecode (showInt c.loc.col)) := by simp only [ncElem, ncAttrs]; find_attr
  have b7 : attrStr (ncElem tag c) "my-id" = some (attrDecode c.myId) := by simp only [ncElem, ncAttrs]; find_attr
  have b8 : attrStr (ncElem tag c) "my-argnr" = some (attrDecode (showInt c.myArgNr)) := by simp only [ncElem, ncAttrs]; find_attr
  have hbase : loadBase (ncElem tag c) = ((c.callId, c.callFunctionName, c.callArgNr, c.loc), true) := by
    simp only [loadBase, rdS_some _ _ _ _ b1, rdS_some _ _ _ _ b2, rdI_showInt _ _ _ b3 (inS32_64 _ han), rdS_some _ _ _ _ b4,
      rdI_showInt _ _ _ b5 (inS32_64 _ hll), rdI_showInt _ _ _ b6 (inS32_64 _ hlc),
      attrDecode_rawSafe _ hid, decode_safe _ hfn, decode_safe _ hlf, wrapS_id 32 (by decide) _ han,
      wrapS_id 32 (by decide) _ hll, wrapS_id 32 (by decide) _ hlc, Bool.not_false]
  simp only [NestedCall.load, hbase, Bool.not_true, Bool.false_eq_true, if_false, rdS_some _ _ _ _ b7,
    rdI_showInt _ _ _ b8 (inS32_64 _ hma), attrDecode_rawSafe _ hmy, wrapS_id 32 (by decide) _ hma]

/-- before the fix: a nested call written as `<function-call …>` is rejected by `FunctionCall::loadFromXml`,
    whatever its content -/
theorem fc_load_of_nested (c : NestedCall) : FunctionCall.load (ncElem "function-call" c) = none := by
  have b : attrStr (ncElem "function-call" c) "call-argvalue-ufr" = none := by
    simp only [ncElem, ncAttrs]; find_attr
  unfold FunctionCall.load
  cases hb : loadBase (ncElem "function-call" c) with
  | mk v ok =>
    cases ok
    · simp
    · simp only [Bool.not_true, Bool.false_eq_true, if_false]
      have : rdI (ncElem "function-call" c) "call-argvalue-ufr" = (0, true) := by unfold rdI; rw [b]
      rw [this]
      simp

/-! ## the CTU file info -/

theorem loadCalls_append (a b : List Elem) (fi : FileInfo) : loadCalls (a ++ b) fi = loadCalls b (loadCalls a fi) := by
  induction a generalizing fi with
  | nil => rfl
  | cons e r ih =>
    simp only [List.cons_append, loadCalls]
    split
    · split <;> exact ih _
    · split
      · split <;> exact ih _
      · exact ih _

theorem loadCalls_fcs (simp : Str → Str) : ∀ (l : List FunctionCall) (fi : FileInfo), l.all (FunctionCall.Ok simp) = true →
    loadCalls (l.map (fcElem simp)) fi = { fi with functionCalls := fi.functionCalls ++ l } := by
  intro l
  induction l with
  | nil => intro fi _; simp [loadCalls]
  | cons c r ih =>
    intro fi h
    simp only [List.all_cons, Bool.and_eq_true] at h
    have hn : (fcElem simp c).name = "function-call".toList := rfl
    simp only [List.map_cons, loadCalls, hn, if_true, fc_load simp c h.1]
    rw [ih _ h.2]
    simp

theorem loadCalls_ncs : ∀ (l : List NestedCall) (fi : FileInfo), l.all NestedCall.Ok = true →
    loadCalls (l.map (ncElem "nested-call")) fi = { fi with nestedCalls := fi.nestedCalls ++ l } := by
  intro l
  induction l with
  | nil => intro fi _; simp [loadCalls]
  | cons c r ih =>
    intro fi h
    simp only [List.all_cons, Bool.and_eq_true] at h
    have hn : (ncElem "nested-call" c).name = "nested-call".toList := rfl
    have hne : ("nested-call".toList = "function-call".toList) = False := by decide
    simp only [List.map_cons, loadCalls, hn, hne, if_false, if_true, nc_load "nested-call" c h.1]
    rw [ih _ h.2]
    simp

/-- before the fix: every nested call is dropped -/
theorem loadCalls_ncs_old : ∀ (l : List NestedCall) (fi : FileInfo),
    loadCalls (l.map (ncElem "function-call")) fi = fi := by
  intro l
  induction l with
  | nil => intro fi; simp [loadCalls]
  | cons c r ih =>
    intro fi
    have hn : (ncElem "function-call" c).name = "function-call".toList := rfl
    simp only [List.map_cons, loadCalls, hn, if_true, fc_load_of_nested c]
    exact ih fi

theorem fileInfo_renders (simp : Str → Str) (tag : String) (htag : IsName tag.toList = true) (hnn : NUL ∉ tag.toList) (fi : FileInfo)
    (h1 : ∀ c ∈ fi.functionCalls, RawSafe c.callId = true) (h2 : ∀ c ∈ fi.nestedCalls, RawSafe c.callId = true ∧ RawSafe c.myId = true) :
    Renders 1 (fi.toStrWith simp tag) (fi.functionCalls.map (fcElem simp) ++ fi.nestedCalls.map (ncElem tag)) :=
  renders_append (functionCalls_renders simp _ h1) (renders_mono (by decide) (nestedCalls_renders tag htag hnn _ h2))

theorem fileInfo_ok_raw (simp : Str → Str) (fi : FileInfo) (h : fi.Ok simp = true) :
    (∀ c ∈ fi.functionCalls, RawSafe c.callId = true) ∧ (∀ c ∈ fi.nestedCalls, RawSafe c.callId = true ∧ RawSafe c.myId = true) := by
  simp only [FileInfo.Ok, Bool.and_eq_true] at h
  constructor
  · intro c hc
    have := List.all_eq_true.mp h.1 c hc
    simp only [FunctionCall.Ok, Bool.and_eq_true] at this
    exact this.1.1.1.1.1.1.1.1
  · intro c hc
    have := List.all_eq_true.mp h.2 c hc
    simp only [NestedCall.Ok, Bool.and_eq_true] at this
    exact ⟨this.1.1.1.1.1, this.1.2⟩

end Cppcheck.Ctu

import Cppcheck.Model.ClassVars
import Cppcheck.Proofs.VarMap
/-
C08 — helper lemmas: the flattened per-class table of setVarIdPass2 ("bases first without overwriting, then own members
overwriting") answers member names as the recursive C++ member lookup does.
-/
namespace Cppcheck.VarMap

/-- what a lookup result says about the table: an ambiguous name (ill-formed use) constrains nothing -/
def Agree (r : MRes) (o : Option VId) : Prop :=
  match r with
  | .found v => o = some v
  | .notFound => o = none
  | .ambiguous => True

theorem foldl_setv (own : List (VName × VId)) : ∀ base : AMap,
    own.foldl (fun t p => setv t p.1 p.2) base = own.reverse ++ base := by
  induction own with
  | nil => intro base; rfl
  | cons p r ih => intro base; simp [List.foldl, ih, setv]

theorem lookup_buildClass (ts : List AMap) (c : ClassDecl) (x : VName) :
    lookup (buildClass ts c) x =
      match lookup c.own.reverse x with
      | some v => some v
      | none => lookup (baseTables ts c.bases) x := by
  simp only [buildClass, foldl_setv, lookup_append]
  cases lookup c.own.reverse x <;> rfl

theorem agree_combine (ts : List AMap) (x : VName) (R : Nat → MRes) :
    ∀ bs : List Nat, (∀ b ∈ bs, Agree (R b) (lookup (ts.getD b []) x)) →
      Agree (combine (bs.map R)) (lookup (baseTables ts bs) x) := by
  intro bs
  induction bs with
  | nil => intro _; simp [combine, baseTables, Agree]
  | cons b r ih =>
    intro h
    have hb := h b (by simp)
    have hr := ih (fun b' hb' => h b' (by simp [hb']))
    have hlk : lookup (baseTables ts (b :: r)) x =
        match lookup (ts.getD b []) x with | some i => some i | none => lookup (baseTables ts r) x := by
      simp only [baseTables, List.map_cons, List.flatten_cons, lookup_append]
      cases lookup (ts.getD b []) x <;> rfl
    simp only [List.map_cons, combine]
    rw [hlk]
    cases hRb : R b with
    | notFound =>
      rw [hRb] at hb
      simp only [Agree] at hb
      rw [hb]
      simpa using hr
    | ambiguous => simp [Agree]
    | found i =>
      rw [hRb] at hb
      simp only [Agree] at hb
      rw [hb]
      cases hc : combine (List.map R r) <;> simp [Agree]

theorem buildFrom_length (bc) (cs : List ClassDecl) : ∀ ts, (buildFrom bc ts cs).length = ts.length + cs.length := by
  induction cs with
  | nil => intro ts; simp [buildFrom]
  | cons c r ih =>
    intro ts
    have := ih (ts ++ [bc ts c])
    simp only [buildFrom, List.foldl_cons] at this ⊢
    simp [this]; omega

/-- the Prop form of `classesWF` -/
def WF (cs : List ClassDecl) : Prop := ∀ (i : Nat) (c : ClassDecl), cs[i]? = some c → ∀ b ∈ c.bases, b < i

theorem WF_of_classesWF (cs : List ClassDecl) (h : classesWF cs = true) : WF cs := by
  intro i c hc b hb
  have hi : i < cs.length := by
    rcases Nat.lt_or_ge i cs.length with h1 | h1
    · exact h1
    · rw [List.getElem?_eq_none h1] at hc; cases hc
  simp only [classesWF, List.all_eq_true, List.mem_range] at h
  have := h i hi
  rw [hc] at this
  simp only [List.all_eq_true, decide_eq_true_eq] at this
  exact this b hb

/-- processing the classes in order keeps the invariant "every finished table agrees with the member lookup" -/
theorem build_agrees (all : List ClassDecl) (hwf : WF all) (x : VName) :
    ∀ (rest done : List ClassDecl) (ts : List AMap), all = done ++ rest → ts.length = done.length →
      (∀ i, i < done.length → ∀ f, i < f → Agree (memberLookup all f i x) (lookup (ts.getD i []) x)) →
      ∀ i, i < all.length → ∀ f, i < f →
        Agree (memberLookup all f i x) (lookup ((buildFrom buildClass ts rest).getD i []) x) := by
  intro rest
  induction rest with
  | nil =>
    intro done ts hall hlen hinv i hi f hf
    simp only [List.append_nil] at hall
    subst hall
    exact hinv i hi f hf
  | cons c r ih =>
    intro done ts hall hlen hinv
    have hall' : all = (done ++ [c]) ++ r := by simp [hall]
    have hstep : buildFrom buildClass ts (c :: r) = buildFrom buildClass (ts ++ [buildClass ts c]) r := rfl
    rw [hstep]
    refine ih (done ++ [c]) (ts ++ [buildClass ts c]) hall' (by simp [hlen]) ?_
    intro i hi f hf
    simp only [List.length_append, List.length_cons, List.length_nil] at hi
    rcases Nat.lt_or_ge i done.length with hlt | hge
    · have : (ts ++ [buildClass ts c]).getD i [] = ts.getD i [] := by
        simp [List.getD_eq_getElem?_getD, List.getElem?_append_left (hlen ▸ hlt)]
      rw [this]
      exact hinv i hlt f hf
    · have hie : i = done.length := by omega
      subst hie
      have hget : (ts ++ [buildClass ts c]).getD done.length [] = buildClass ts c := by
        simp [List.getD_eq_getElem?_getD, ← hlen]
      have hci : all[done.length]? = some c := by simp [hall]
      rw [hget]
      obtain ⟨f', rfl⟩ : ∃ f', f = f' + 1 := ⟨f - 1, by omega⟩
      simp only [memberLookup, hci, lookup_buildClass]
      cases hown : lookup c.own.reverse x with
      | some v => simp [Agree]
      | none =>
        simp only
        apply agree_combine
        intro b hb
        have hbl : b < done.length := hwf _ c hci b hb
        exact hinv b hbl f' (by omega)

theorem table_agrees (cs : List ClassDecl) (hwf : WF cs) (i : Nat) (hi : i < cs.length) (f : Nat) (hf : i < f) (x : VName) :
    Agree (memberLookup cs f i x) (lookup ((buildAll cs).getD i []) x) :=
  build_agrees cs hwf x cs [] [] (by simp) rfl (fun i hi => by simp at hi) i hi f hf

/-- single inheritance: member lookup is never ambiguous -/
theorem single_not_ambiguous (cs : List ClassDecl) (hs : singleInheritance cs = true) (x : VName) :
    ∀ f i, memberLookup cs f i x ≠ .ambiguous := by
  intro f
  induction f with
  | zero => intro i; simp [memberLookup]
  | succ f ih =>
    intro i
    simp only [memberLookup]
    cases hc : cs[i]? with
    | none => simp
    | some c =>
      simp only
      cases lookup c.own.reverse x with
      | some v => simp
      | none =>
        simp only
        have hlen : c.bases.length ≤ 1 := by
          have hm : c ∈ cs := List.mem_of_getElem? hc
          simp only [singleInheritance, List.all_eq_true] at hs
          simpa using hs c hm
        match hb : c.bases, hlen with
        | [], _ => simp [combine]
        | [b], _ =>
          simp only [List.map_cons, List.map_nil, combine]
          have := ih b
          cases hr : memberLookup cs f b x <;> simp_all

end Cppcheck.VarMap

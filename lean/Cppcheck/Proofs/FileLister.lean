import Cppcheck.Model.FileLister
import Cppcheck.Proofs.PathMatch
/-
C31 — helper lemmas for the file lister: the recursion of `addFiles2` with its early cut-offs collects exactly the
accepted files no ignore pattern cuts off; the order of `std::string::operator<`; every file is listed once.
-/
namespace Cppcheck.FileLister
open Cppcheck.Wire Cppcheck.PathCanon Cppcheck.PathMatch

/-- a directory below the start path that is cut off -/
def badDir (ign : Str → Filemode → Bool) (root d : Str) : Bool := d != root && (ign d .directory || ign d .regular)

/-- selection test for a file found strictly below the start path -/
def keep (ign : Str → Filemode → Bool) (acc : Str → Bool × Lang) (root : Str) (f : Str × List Str) : Bool :=
  (acc f.1).1 && !f.2.any (badDir ign root) && !ign f.1 .regular

mutual
theorem allFiles_chain (path : Str) (chain : List Str) : ∀ (t : Tree), ∀ f ∈ allFiles path chain t,
    (∃ ext, f.2 = chain ++ ext) ∧ path.length ≤ f.1.length
  | .file _ => by
    intro f hf
    simp only [allFiles, List.mem_singleton] at hf
    subst hf
    exact ⟨⟨[], by simp⟩, Nat.le_refl _⟩
  | .dir _ ch => by
    intro f hf
    simp only [allFiles] at hf
    obtain ⟨⟨ext, he⟩, hl⟩ := allFilesL_chain path (chain ++ [path]) ch f hf
    exact ⟨⟨path :: ext, by simp [he]⟩, by omega⟩
theorem allFilesL_chain (path : Str) (chain : List Str) : ∀ (ts : List Tree), ∀ f ∈ allFilesL path chain ts,
    (∃ ext, f.2 = chain ++ ext) ∧ path.length < f.1.length
  | [] => by intro f hf; simp [allFilesL] at hf
  | .file name :: rest => by
    intro f hf
    simp only [allFilesL, List.mem_cons] at hf
    rcases hf with hf | hf
    · subst hf; exact ⟨⟨[], by simp⟩, by simp [childPath]⟩
    · exact allFilesL_chain path chain rest f hf
  | .dir name ch :: rest => by
    intro f hf
    simp only [allFilesL, List.mem_append] at hf
    rcases hf with hf | hf
    · obtain ⟨he, hl⟩ := allFiles_chain (childPath path name) chain (.dir name ch) f hf
      refine ⟨he, ?_⟩
      have : path.length < (childPath path name).length := by simp [childPath]
      omega
    · exact allFilesL_chain path chain rest f hf
end


theorem filter_all_false {α : Type} (p : α → Bool) (l : List α) (h : ∀ x ∈ l, p x = false) : l.filter p = [] := by
  induction l with
  | nil => rfl
  | cons a l ih =>
    simp only [List.filter_cons, h a (by simp)]
    exact ih (fun x hx => h x (by simp [hx]))

mutual
/-- a directory below the start path: the two ignore tests on it, then its entries -/
theorem collectDir_eq (ign : Str → Filemode → Bool) (acc : Str → Bool × Lang) (root : Str) :
    ∀ (t : Tree) (np : Str) (chain : List Str), root.length < np.length → chain.any (badDir ign root) = false →
      match t with
      | .file _ => True
      | .dir name ch =>
        (if !ign np .directory then collectPath ign acc np (.dir name ch) else []) =
          ((allFiles np chain (.dir name ch)).filter (keep ign acc root)).map (fun f => (f.1, (acc f.1).2))
  | .file _ => by intro _ _ _ _; trivial
  | .dir name ch => by
    intro np chain hlen hchain
    simp only [collectPath, allFiles]
    have hne : np ≠ root := by intro e; subst e; omega
    have hnb : (np != root) = true := by simp [hne]
    by_cases hbad : badDir ign root np = true
    · -- cut off: every file below has `np` in its chain
      have hfil : ((allFilesL np (chain ++ [np]) ch).filter (keep ign acc root)) = [] := by
        apply filter_all_false
        intro f hf
        obtain ⟨⟨ext, he⟩, _⟩ := allFilesL_chain np (chain ++ [np]) ch f hf
        simp [keep, he, hbad]
      rw [hfil]
      simp only [badDir, hnb, Bool.true_and, Bool.or_eq_true] at hbad
      rcases hbad with h | h
      · simp [h]
      · by_cases h2 : ign np .directory = true
        · simp [h2]
        · simp [h2, h]
    · have hb : badDir ign root np = false := by simpa using hbad
      have hb' := hb
      simp only [badDir, hnb, Bool.true_and, Bool.or_eq_false_iff] at hb'
      simp only [hb'.1, hb'.2, Bool.not_false, if_true, Bool.false_eq_true, if_false]
      exact collectEntries_eq ign acc root ch np (chain ++ [np]) (by omega) (by simp [hchain, hb])
theorem collectEntries_eq (ign : Str → Filemode → Bool) (acc : Str → Bool × Lang) (root : Str) :
    ∀ (ts : List Tree) (path : Str) (chain : List Str), root.length ≤ path.length → chain.any (badDir ign root) = false →
      collectEntries ign acc path ts =
        ((allFilesL path chain ts).filter (keep ign acc root)).map (fun f => (f.1, (acc f.1).2))
  | [] => by intro _ _ _ _; simp [collectEntries, allFilesL]
  | .file name :: rest => by
    intro path chain hlen hchain
    simp only [collectEntries, allFilesL, List.filter_cons]
    rw [collectEntries_eq ign acc root rest path chain hlen hchain]
    have hk : keep ign acc root (childPath path name, chain) = ((acc (childPath path name)).1 && !ign (childPath path name) .regular) := by
      simp [keep, hchain]
    rw [hk]
    split <;> simp
  | .dir name ch :: rest => by
    intro path chain hlen hchain
    simp only [collectEntries, allFilesL, List.filter_append, List.map_append]
    rw [collectEntries_eq ign acc root rest path chain hlen hchain]
    have := collectDir_eq ign acc root (.dir name ch) (childPath path name) chain (by simp [childPath]; omega) hchain
    simp only [] at this
    rw [this]
end


/-- `addFiles2` started on an existing path collects exactly the accepted files that no ignore pattern cuts off -/
theorem collectPath_eq (ign : Str → Filemode → Bool) (acc : Str → Bool × Lang) (root : Str) (node : Tree) :
    collectPath ign acc root node =
      ((allFiles root [] node).filter (fun f => accepted acc root f && !ignoredAlong ign root f)).map
        (fun f => (f.1, langOf acc root f.1)) := by
  cases node with
  | file name =>
    simp only [collectPath, allFiles, List.filter_cons, List.filter_nil]
    by_cases h : ign root .regular = true
    · simp [accepted, ignoredAlong, h]
    · simp [accepted, ignoredAlong, h, langOf]
  | dir name ch =>
    simp only [collectPath, allFiles, List.nil_append]
    by_cases h : ign root .regular = true
    · simp only [h, if_true]
      rw [filter_all_false]
      · rfl
      · intro f _
        simp [ignoredAlong, h]
    · have h' : ign root .regular = false := by simpa using h
      simp only [h', Bool.false_eq_true, if_false]
      rw [collectEntries_eq ign acc root ch root [root] (Nat.le_refl _) (by simp [badDir])]
      have hne : ∀ f ∈ allFilesL root [root] ch, f.1 ≠ root := by
        intro f hf e
        have := (allFilesL_chain root [root] ch f hf).2
        rw [e] at this; omega
      have hfil : (allFilesL root [root] ch).filter (keep ign acc root) =
          (allFilesL root [root] ch).filter (fun f => accepted acc root f && !ignoredAlong ign root f) := by
        apply List.filter_congr
        intro f hf
        have hn := hne f hf
        have hb : (f.1 == root) = false := by simp [hn]
        have hb2 : (f.1 != root) = true := by simp [hn]
        have e : (fun d => d != root && (ign d .directory || ign d .regular)) = badDir ign root := rfl
        simp only [keep, accepted, ignoredAlong, h', hb, hb2, Bool.false_or, Bool.true_and, e]
        generalize (acc f.1).1 = x
        generalize f.2.any (badDir ign root) = y
        generalize ign f.1 .regular = z
        cases x <;> cases y <;> cases z <;> rfl
      rw [hfil]
      apply List.map_congr_left
      intro f hf
      have hf' := (List.mem_filter.1 hf).1
      have hn := hne f hf'
      simp [langOf, hn]


/-! ### the order of `std::string::operator<` -/

theorem strLt_irrefl : ∀ a : Str, strLt a a = false
  | [] => rfl
  | c :: r => by simp [strLt, strLt_irrefl r]

theorem strLt_trichotomy : ∀ a b : Str, strLt a b = true ∨ a = b ∨ strLt b a = true
  | [], [] => Or.inr (Or.inl rfl)
  | [], _ :: _ => Or.inl rfl
  | _ :: _, [] => Or.inr (Or.inr rfl)
  | a :: r, b :: s => by
    simp only [strLt, Bool.or_eq_true, decide_eq_true_eq, Bool.and_eq_true, beq_iff_eq, List.cons.injEq]
    by_cases h1 : a.toNat < b.toNat
    · exact Or.inl (Or.inl h1)
    · by_cases h2 : b.toNat < a.toNat
      · exact Or.inr (Or.inr (Or.inl h2))
      · have : a = b := Char.toNat_inj.1 (by omega)
        subst this
        rcases strLt_trichotomy r s with h | h | h
        · exact Or.inl (Or.inr ⟨rfl, h⟩)
        · exact Or.inr (Or.inl ⟨rfl, h⟩)
        · exact Or.inr (Or.inr (Or.inr ⟨rfl, h⟩))

theorem strLt_trans : ∀ a b c : Str, strLt a b = true → strLt b c = true → strLt a c = true
  | [], [], _, h, _ => by simp [strLt] at h
  | [], _ :: _, [], _, h => by simp [strLt] at h
  | [], _ :: _, _ :: _, _, _ => rfl
  | _ :: _, [], _, h, _ => by simp [strLt] at h
  | _ :: _, _ :: _, [], _, h => by simp [strLt] at h
  | a :: r, b :: s, c :: t, h1, h2 => by
    simp only [strLt, Bool.or_eq_true, decide_eq_true_eq, Bool.and_eq_true, beq_iff_eq] at h1 h2 ⊢
    rcases h1 with h1 | ⟨e1, h1⟩
    · rcases h2 with h2 | ⟨e2, _⟩
      · exact Or.inl (by omega)
      · subst e2; exact Or.inl h1
    · subst e1
      rcases h2 with h2 | ⟨e2, h2⟩
      · exact Or.inl h2
      · subst e2; exact Or.inr ⟨rfl, strLt_trans r s t h1 h2⟩

theorem strLt_asymm (a b : Str) (h : strLt a b = true) : strLt b a = false := by
  cases hb : strLt b a with
  | false => rfl
  | true =>
    have := strLt_trans a b a h hb
    rw [strLt_irrefl] at this
    cases this

theorem pathLe_total (x y : Str × Lang) : (pathLe x y || pathLe y x) = true := by
  simp only [pathLe, Bool.or_eq_true, Bool.not_eq_true']
  cases h : strLt y.1 x.1 with
  | false => exact Or.inl rfl
  | true => exact Or.inr (strLt_asymm _ _ h)

theorem pathLe_trans (x y z : Str × Lang) (h1 : pathLe x y = true) (h2 : pathLe y z = true) : pathLe x z = true := by
  simp only [pathLe, Bool.not_eq_true'] at h1 h2 ⊢
  cases h : strLt z.1 x.1 with
  | false => rfl
  | true =>
    exfalso
    rcases strLt_trichotomy x.1 y.1 with h3 | h3 | h3
    · have := strLt_trans _ _ _ h h3
      rw [h2] at this; cases this
    · rw [h3] at h; rw [h2] at h; cases h
    · rw [h1] at h3; cases h3

theorem sortFiles_perm (l : List (Str × Lang)) : (sortFiles l).Perm l := List.mergeSort_perm l pathLe

theorem sortFiles_sorted (l : List (Str × Lang)) : (sortFiles l).Pairwise (fun a b => pathLe a b = true) :=
  List.pairwise_mergeSort pathLe_trans pathLe_total l


/-! ### every file is listed once -/

theorem first_comp_unique : ∀ (n1 n2 rest1 rest2 : Str), '/' ∉ n1 → '/' ∉ n2 →
    (rest1 = [] ∨ rest1.head? = some '/') → (rest2 = [] ∨ rest2.head? = some '/') →
    n1 ++ rest1 = n2 ++ rest2 → n1 = n2
  | [], [], _, _, _, _, _, _, _ => rfl
  | [], c :: n2, rest1, rest2, _, h2, hr1, _, e => by
    exfalso
    have hc : c ≠ '/' := fun h => h2 (by simp [h])
    simp only [List.nil_append, List.cons_append] at e
    rcases hr1 with h | h
    · rw [h] at e; cases e
    · rw [e] at h; simp at h; exact hc h
  | c :: n1, [], rest1, rest2, h1, _, _, hr2, e => by
    exfalso
    have hc : c ≠ '/' := fun h => h1 (by simp [h])
    simp only [List.nil_append, List.cons_append] at e
    rcases hr2 with h | h
    · rw [h] at e; cases e
    · rw [← e] at h; simp at h; exact hc h
  | c :: n1, d :: n2, rest1, rest2, h1, h2, hr1, hr2, e => by
    simp only [List.cons_append, List.cons.injEq] at e
    rw [e.1, first_comp_unique n1 n2 rest1 rest2 (fun h => h1 (List.mem_cons_of_mem _ h))
      (fun h => h2 (List.mem_cons_of_mem _ h)) hr1 hr2 e.2]

mutual
theorem allFiles_path (path : Str) (chain : List Str) : ∀ (t : Tree), ∀ f ∈ allFiles path chain t,
    ∃ rest, f.1 = path ++ rest ∧ (rest = [] ∨ rest.head? = some '/')
  | .file _ => by
    intro f hf
    simp only [allFiles, List.mem_singleton] at hf
    subst hf
    exact ⟨[], by simp, Or.inl rfl⟩
  | .dir _ ch => by
    intro f hf
    simp only [allFiles] at hf
    obtain ⟨t, _, rest, e, _⟩ := allFilesL_path path (chain ++ [path]) ch f hf
    exact ⟨'/' :: (t.name ++ rest), by simp [e, childPath], Or.inr rfl⟩
theorem allFilesL_path (path : Str) (chain : List Str) : ∀ (ts : List Tree), ∀ f ∈ allFilesL path chain ts,
    ∃ t ∈ ts, ∃ rest, f.1 = childPath path t.name ++ rest ∧ (rest = [] ∨ rest.head? = some '/')
  | [] => by intro f hf; simp [allFilesL] at hf
  | .file name :: rest => by
    intro f hf
    simp only [allFilesL, List.mem_cons] at hf
    rcases hf with hf | hf
    · subst hf; exact ⟨.file name, by simp, [], by simp [Tree.name], Or.inl rfl⟩
    · obtain ⟨t, ht, r, e, hr⟩ := allFilesL_path path chain rest f hf
      exact ⟨t, by simp [ht], r, e, hr⟩
  | .dir name ch :: rest => by
    intro f hf
    simp only [allFilesL, List.mem_append] at hf
    rcases hf with hf | hf
    · obtain ⟨r, e, hr⟩ := allFiles_path (childPath path name) chain (.dir name ch) f hf
      exact ⟨.dir name ch, by simp, r, by simp [Tree.name, e], hr⟩
    · obtain ⟨t, ht, r, e, hr⟩ := allFilesL_path path chain rest f hf
      exact ⟨t, by simp [ht], r, e, hr⟩
end

theorem nameOk_no_slash {n : Str} (h : nameOk n = true) : '/' ∉ n := by
  simp only [nameOk, Bool.and_eq_true, Bool.not_eq_true', bne_iff_ne, ne_eq] at h
  intro hm
  have := h.1.1.2
  simp [List.contains_iff_mem, hm] at this

mutual
theorem nodup_allFiles (path : Str) (chain : List Str) : ∀ (t : Tree), t.wf = true →
    ((allFiles path chain t).map (·.1)).Nodup
  | .file _ => by intro _; simp [allFiles]
  | .dir _ ch => by
    intro h
    simp only [Tree.wf, Bool.and_eq_true, decide_eq_true_eq] at h
    simp only [allFiles]
    exact nodup_allFilesL path (chain ++ [path]) ch h.1 h.2
theorem nodup_allFilesL (path : Str) (chain : List Str) : ∀ (ts : List Tree), wfL ts = true →
    (ts.map Tree.name).Nodup → ((allFilesL path chain ts).map (·.1)).Nodup
  | [] => by intro _ _; simp [allFilesL]
  | t :: rest => by
    intro hw hn
    simp only [wfL, Bool.and_eq_true] at hw
    simp only [List.map_cons, List.nodup_cons] at hn
    have ihr := nodup_allFilesL path chain rest hw.2 hn.2
    have hdisj : ∀ f ∈ allFilesL path chain rest, ∀ r, (r = [] ∨ r.head? = some '/') →
        f.1 ≠ childPath path t.name ++ r := by
      intro f hf r hr e
      obtain ⟨t', ht', r', e', hr'⟩ := allFilesL_path path chain rest f hf
      rw [e'] at e
      simp only [childPath, List.append_assoc, List.cons_append, List.append_cancel_left_eq, List.cons.injEq, true_and] at e
      have hwf' : nameOk t'.name = true := by
        have : ∀ (l : List Tree), wfL l = true → ∀ x ∈ l, nameOk x.name = true := by
          intro l
          induction l with
          | nil => intro _ x hx; simp at hx
          | cons a l ih =>
            intro hl x hx
            simp only [wfL, Bool.and_eq_true] at hl
            simp only [List.mem_cons] at hx
            rcases hx with rfl | hx
            · exact hl.1.1
            · exact ih hl.2 x hx
        exact this rest hw.2 t' ht'
      have := first_comp_unique t'.name t.name r' r (nameOk_no_slash hwf') (nameOk_no_slash hw.1.1) hr' hr e
      exact hn.1 (by rw [← this]; exact List.mem_map_of_mem ht')
    cases t with
    | file name =>
      simp only [allFilesL, List.map_cons, List.nodup_cons]
      refine ⟨?_, ihr⟩
      intro hm
      obtain ⟨f, hf, e⟩ := List.mem_map.1 hm
      exact hdisj f hf [] (Or.inl rfl) (by simpa [Tree.name] using e)
    | dir name ch =>
      simp only [allFilesL, List.map_append]
      rw [List.nodup_append]
      refine ⟨nodup_allFiles (childPath path name) chain (.dir name ch) hw.1.2, ihr, ?_⟩
      intro a ha b hb e
      obtain ⟨f, hf, ef⟩ := List.mem_map.1 ha
      obtain ⟨g, hg, eg⟩ := List.mem_map.1 hb
      obtain ⟨r, er, hr⟩ := allFiles_path (childPath path name) chain (.dir name ch) f hf
      exact hdisj g hg r hr (by rw [eg, ← e, ← ef, er]; rfl)
end

/-! ### the command line: normalised `-i` values and the rule on the text the user wrote -/

def sepMap (c : Char) : Char := if c == '\\' then '/' else c

theorem fromNative_eq (q : Str) : fromNativeSeparators q = q.map sepMap := rfl

theorem sepMap_dot (c : Char) : (sepMap c == '.') = (c == '.') := by
  unfold sepMap
  by_cases h : c = '\\'
  · subst h; decide
  · simp [h]

theorem sepMap_slash (c : Char) : (sepMap c == '/') = isSepU c := by
  unfold sepMap isSepU
  by_cases h : c = '\\'
  · subst h; decide
  · simp [h]

theorem sepMap_bslash (c : Char) : (sepMap c == '\\') = false := by
  unfold sepMap
  by_cases h : c = '\\'
  · subst h; decide
  · simp [h]

theorem isAbsolute_fromNative (q : Str) : isAbsolute (fromNativeSeparators q) = absoluteU q := by
  cases q with
  | nil => rfl
  | cons c r =>
    simp only [fromNative_eq, isAbsolute, absoluteU, List.map_cons, List.head?_cons, cat, List.getD_cons_zero]
    have := sepMap_slash c
    by_cases h : sepMap c = '/'
    · simp [h] at this ⊢; exact this
    · have h' : (sepMap c == '/') = false := by simp [h]
      rw [h'] at this
      simp [h, ← this]


theorem isEmpty_fromNative (q : Str) : (fromNativeSeparators q).isEmpty = q.isEmpty := by
  cases q <;> rfl

theorem dirPattern_fromNative (q : Str) :
    issep .unix ((fromNativeSeparators q).getLastD NUL) = dirPatternU q := by
  have h : ∀ (l : Str), (l.map sepMap).getLastD NUL = sepMap (l.getLastD NUL) := by
    intro l
    induction l with
    | nil => decide
    | cons c r ih =>
      cases r with
      | nil => rfl
      | cons d r' => simpa [List.getLastD] using ih
  simp only [fromNative_eq, h, issep, dirPatternU, sepMap_slash]
  simp

theorem char_cases (c : Char) :
    c = '.' ∨ c = '/' ∨ c = '\\' ∨ (c ≠ '.' ∧ c ≠ '/' ∧ c ≠ '\\' ∧ sepMap c = c) := by
  by_cases h1 : c = '.'
  · exact Or.inl h1
  · by_cases h2 : c = '/'
    · exact Or.inr (Or.inl h2)
    · by_cases h3 : c = '\\'
      · exact Or.inr (Or.inr (Or.inl h3))
      · exact Or.inr (Or.inr (Or.inr ⟨h1, h2, h3, by simp [sepMap, h3]⟩))

theorem sepMap_dot' : sepMap '.' = '.' := by decide
theorem sepMap_slash' : sepMap '/' = '/' := by decide
theorem sepMap_bslash' : sepMap '\\' = '/' := by decide

theorem isRelativePattern_fromNative (q : Str) : isRelativePattern (fromNativeSeparators q) = relativeU q := by
  rw [fromNative_eq]
  rcases q with _ | ⟨a, _ | ⟨b, _ | ⟨c, r⟩⟩⟩
  · rfl
  · rcases char_cases a with rfl | rfl | rfl | ⟨h1, h2, h3, h4⟩
    · decide
    · decide
    · decide
    · simp [isRelativePattern, relativeU, cat, isSepU, NUL, h1, h2, h3, h4]
  · rcases char_cases a with rfl | rfl | rfl | ⟨h1, h2, h3, h4⟩ <;>
      rcases char_cases b with rfl | rfl | rfl | ⟨g1, g2, g3, g4⟩ <;>
      first
        | decide
        | simp [isRelativePattern, relativeU, cat, isSepU, NUL, sepMap_dot', sepMap_slash', sepMap_bslash', *]
  · have hl2 : decide (r.length + 1 + 1 + 1 < 2) = false := by simp
    have hl3 : decide (r.length + 1 + 1 + 1 < 3) = false := by simp
    rcases char_cases a with rfl | rfl | rfl | ⟨h1, h2, h3, h4⟩ <;>
      rcases char_cases b with rfl | rfl | rfl | ⟨g1, g2, g3, g4⟩ <;>
      rcases char_cases c with rfl | rfl | rfl | ⟨k1, k2, k3, k4⟩ <;>
      simp [isRelativePattern, relativeU, cat, isSepU, NUL, sepMap_dot', sepMap_slash', sepMap_bslash', hl2, hl3, *]

theorem pathMatchSpec_normalized (mode : Filemode) (u path cwd : Str) :
    PathMatchSpec .unix mode (normalizeIgnored u) path cwd ↔ UserIgnoreSpec mode u path cwd := by
  unfold PathMatchSpec UserIgnoreSpec normalizeIgnored
  generalize removeQuotationMarks u = q
  have he : (fromNativeSeparators q ≠ []) ↔ q ≠ [] := by
    cases q <;> simp [fromNativeSeparators]
  have hdm : dirMismatch .unix mode (fromNativeSeparators q) = (dirPatternU q && mode != .directory) := by
    simp only [dirMismatch, dirPattern_fromNative]
  have hreal : isReal (fromNativeSeparators q) = (absoluteU q || relativeU q) := by
    simp only [isReal, isAbsolute_fromNative, isRelativePattern_fromNative]
  have hcan : canonPattern .unix (fromNativeSeparators q) cwd = canonPatternU q cwd := by
    simp only [canonPattern, canonPatternU, isRelativePattern_fromNative]
  simp only [he, hdm, hreal, hcan]

theorem userIgnoreSpecB_iff (mode : Filemode) (u path cwd : Str) :
    userIgnoreSpecB mode u path cwd = true ↔ UserIgnoreSpec mode u path cwd := by
  simp only [userIgnoreSpecB, UserIgnoreSpec, Bool.and_eq_true, Bool.not_eq_true', List.isEmpty_eq_false_iff,
    Bool.or_eq_true, beq_iff_eq, specMatchB_iff, ne_eq]

/-- an absolute first string puts the iterator's input inside the documented domain -/
theorem canonDomain_of_absolute (a b : Str) (h : isAbsolute a = true) :
    CanonDomain (rawOf .unix a b).1 (rawOf .unix a b).2 = true := by
  cases a with
  | nil => simp [isAbsolute] at h
  | cons c r =>
    have hc : c = '/' := by simpa [isAbsolute] using h
    subst hc
    have hcs : cstr ('/' :: r) = '/' :: cstr r := by
      simp [cstr, List.takeWhile_cons, NUL]
    simp [CanonDomain, rawOf, hcs, rootLen, issep, cat, closedRoot, joinRaw, mapChar]

/-! ### de-duplication -/

theorem dedupBy_sublist (key : Str → Str) : ∀ l : List (Str × Lang), (dedupBy key l).Sublist l
  | [] => List.Sublist.refl _
  | x :: r => by
    simp only [dedupBy]
    exact List.Sublist.cons₂ x (List.Sublist.trans List.filter_sublist (dedupBy_sublist key r))

theorem dedupBy_nodup (key : Str → Str) : ∀ l : List (Str × Lang), ((dedupBy key l).map (fun f => key f.1)).Nodup
  | [] => by simp [dedupBy]
  | x :: r => by
    simp only [dedupBy, List.map_cons, List.nodup_cons]
    constructor
    · intro hm
      obtain ⟨y, hy, e⟩ := List.mem_map.1 hm
      have := (List.mem_filter.1 hy).2
      simp [e] at this
    · have ih := dedupBy_nodup key r
      exact ih.sublist (List.Sublist.map _ List.filter_sublist)

theorem dedupBy_complete (key : Str → Str) : ∀ (l : List (Str × Lang)) (x : Str × Lang), x ∈ l →
    ∃ y ∈ dedupBy key l, key y.1 = key x.1
  | [], x, h => by simp at h
  | z :: r, x, h => by
    simp only [List.mem_cons] at h
    simp only [dedupBy]
    rcases h with rfl | h
    · exact ⟨x, by simp, rfl⟩
    · obtain ⟨y, hy, e⟩ := dedupBy_complete key r x h
      by_cases hk : key y.1 = key z.1
      · exact ⟨z, by simp, by rw [← hk, e]⟩
      · exact ⟨y, by simp [hy, hk], e⟩

theorem dedupBy_of_nodup (key : Str → Str) : ∀ l : List (Str × Lang), (l.map (fun f => key f.1)).Nodup → dedupBy key l = l
  | [], _ => rfl
  | x :: r, h => by
    simp only [List.map_cons, List.nodup_cons] at h
    simp only [dedupBy, dedupBy_of_nodup key r h.2]
    congr 1
    apply List.filter_eq_self.2
    intro y hy
    have : key y.1 ≠ key x.1 := by
      intro e; exact h.1 (List.mem_map.2 ⟨y, hy, e⟩)
    simpa using this

end Cppcheck.FileLister

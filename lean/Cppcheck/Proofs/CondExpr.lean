import Cppcheck.Model.CondExpr
/-
C03 — helper lemmas about the C semantics of Model/CondExpr.lean: conversions, ranges, usual arithmetic conversions,
commutativity of the operators `isSameExpression` treats as commutative, constant expressions.
-/
namespace Cppcheck.CondExpr

theorem wrap_inRange (t : Ty) (v : Int) : inRange t (wrap t v) := by
  obtain ⟨r, s⟩ := t
  cases r <;> cases s <;> simp [inRange, wrap, tmin, tmax, Ty.bits, Rank.bits] <;> omega

theorem wrap_of_inRange (t : Ty) (v : Int) (h : inRange t v) : wrap t v = v := by
  obtain ⟨r, s⟩ := t
  cases r <;> cases s <;> simp [inRange, wrap, tmin, tmax, Ty.bits, Rank.bits] at * <;> omega

theorem uac_comm (a b : Ty) : uac a b = uac b a := by
  obtain ⟨ra, sa⟩ := a
  obtain ⟨rb, sb⟩ := b
  cases ra <;> cases sa <;> cases rb <;> cases sb <;> rfl

theorem b2i_inRange_int (b : Bool) : inRange tInt (b2i b) := by
  cases b <;> simp [b2i, inRange, tmin, tmax, tInt, Ty.bits, Rank.bits]

theorem b2i_01 (b : Bool) : b2i b = 0 ∨ b2i b = 1 := by
  cases b <;> simp [b2i]

theorem arith_inRange (t : Ty) (r v : Int) (h : arith t r = some v) : inRange t v := by
  unfold arith at h
  split at h
  · split at h
    · simp at h; subst h; unfold inRange; assumption
    · simp at h
  · simp at h; subst h; exact wrap_inRange _ _

/-- type of the result of a binary operator other than `&& ||` -/
def binTy (op : BinOp) (ta tb : Ty) : Ty :=
  if op.isCmp || op.isLogic then tInt else if op.isShift then promote ta else uac ta tb

theorem evalBin_inRange (op : BinOp) (ta tb : Ty) (a b v : Int) (h : evalBin op ta tb a b = some v) :
    inRange (binTy op ta tb) v := by
  unfold evalBin at h
  cases op <;> simp [BinOp.isShift, BinOp.isCmp, BinOp.isLogic, binTy] at h ⊢
  all_goals first
    | exact arith_inRange _ _ _ h
    | (subst h; exact wrap_inRange _ _)
    | (subst h; exact b2i_inRange_int _)
    | skip
  · exact arith_inRange _ _ _ h.2
  · exact arith_inRange _ _ _ h.2.2
  · obtain ⟨_, h⟩ := h
    split at h
    · split at h
      · simp at h
      · exact arith_inRange _ _ _ h
    · simp at h; subst h; exact wrap_inRange _ _
  · obtain ⟨_, h⟩ := h
    subst h; exact wrap_inRange _ _

/-- type of the result of a unary operator -/
def unTy (op : UnOp) (ta : Ty) : Ty :=
  match op with
  | .lnot => tInt
  | _ => promote ta

theorem evalUn_inRange (op : UnOp) (ta : Ty) (a v : Int) (h : evalUn op ta a = some v) :
    inRange (unTy op ta) v := by
  cases op <;> simp [evalUn, unTy] at h ⊢
  · exact arith_inRange _ _ _ h
  · subst h; exact wrap_inRange _ _
  · subst h; exact b2i_inRange_int _

theorem tyOf_un (S : Sem) (a : Ann) (op : UnOp) (e : Expr) :
    tyOf S (.un a op e) = unTy op (tyOf S e) := by
  cases op <;> simp [tyOf, unTy]

theorem tyOf_bin (S : Sem) (a : Ann) (op : BinOp) (l r : Expr) :
    tyOf S (.bin a op l r) = binTy op (tyOf S l) (tyOf S r) := by
  simp [tyOf, binTy]

/-- the value of an expression lies in the range of its static type -/
theorem eval_inRange (S : Sem) (ρ : Env) : ∀ (e : Expr) (v : Int), eval S ρ e = some v → inRange (tyOf S e) v
  | .lit _ sp, v, h => by simp [eval] at h; subst h; exact wrap_inRange _ _
  | .var _ x, v, h => by simp [eval] at h; subst h; exact wrap_inRange _ _
  | .un a op e, v, h => by
    simp only [eval] at h
    split at h
    · rw [tyOf_un]; exact evalUn_inRange _ _ _ _ h
    · simp at h
  | .bin a op l r, v, h => by
    rw [tyOf_bin]
    cases op
    case land =>
      simp only [eval] at h
      simp only [binTy, BinOp.isCmp, BinOp.isLogic, Bool.or_true, if_true]
      split at h
      · split at h
        · simp at h; subst h; exact b2i_inRange_int false
        · split at h
          · simp at h; subst h; exact b2i_inRange_int _
          · simp at h
      · simp at h
    case lor =>
      simp only [eval] at h
      simp only [binTy, BinOp.isCmp, BinOp.isLogic, Bool.or_true, if_true]
      split at h
      · split at h
        · simp at h; subst h; exact b2i_inRange_int true
        · split at h
          · simp at h; subst h; exact b2i_inRange_int _
          · simp at h
      · simp at h
    all_goals
      simp only [eval] at h
      split at h
      · exact evalBin_inRange _ _ _ _ _ _ h
      · simp at h

/-! ### commutative operators -/

theorem evalBin_comm (op : BinOp) (ta tb : Ty) (a b : Int)
    (hop : op = .add ∨ op = .mul ∨ op = .band ∨ op = .bor ∨ op = .bxor ∨ op = .eq ∨ op = .ne) :
    evalBin op ta tb a b = evalBin op tb ta b a := by
  rcases hop with h | h | h | h | h | h | h <;> subst h <;> simp [evalBin, BinOp.isShift, uac_comm tb ta]
  · rw [Int.add_comm]
  · rw [Int.mul_comm]
  · rw [Nat.and_comm]
  · rw [Nat.or_comm]
  · rw [Nat.xor_comm]
  · congr 1; simp [eq_comm]
  · congr 1; simp [eq_comm]

/-! ### widths -/

theorem promote_bits_ge (t : Ty) : t.bits ≤ (promote t).bits ∧ 32 ≤ (promote t).bits := by
  obtain ⟨r, s⟩ := t
  cases r <;> cases s <;> simp [promote, Rank.idx, Ty.bits, Rank.bits, tInt]

/-- converting a value of type `ta` to the common type of a binary operation keeps zero / non-zero -/
theorem wrap_uac_eq_zero_left (ta tb : Ty) (v : Int) (h : inRange ta v) : wrap (uac ta tb) v = 0 ↔ v = 0 := by
  obtain ⟨ra, sa⟩ := ta
  obtain ⟨rb, sb⟩ := tb
  cases ra <;> cases sa <;> cases rb <;> cases sb <;>
    simp [uac, promote, Rank.idx, tInt, inRange, wrap, tmin, tmax, Ty.bits, Rank.bits] at * <;> omega

theorem wrap_uac_eq_zero_right (ta tb : Ty) (v : Int) (h : inRange tb v) : wrap (uac ta tb) v = 0 ↔ v = 0 := by
  rw [uac_comm]; exact wrap_uac_eq_zero_left tb ta v h

/-- 0 and 1 survive every conversion to an operation type -/
theorem wrap_uac_01 (ta tb : Ty) (v : Int) (h : v = 0 ∨ v = 1) : wrap (uac ta tb) v = v := by
  obtain ⟨ra, sa⟩ := ta
  obtain ⟨rb, sb⟩ := tb
  rcases h with h | h <;> subst h <;>
    cases ra <;> cases sa <;> cases rb <;> cases sb <;>
    simp [uac, promote, Rank.idx, tInt, wrap, Ty.bits, Rank.bits]

/-! ### constant expressions -/

theorem eval_closed (S : Sem) (ρ ρ' : Env) : ∀ (e : Expr), e.closed = true → eval S ρ e = eval S ρ' e
  | .lit _ _, _ => by simp [eval]
  | .var _ _, h => by simp [Expr.closed] at h
  | .un _ op e, h => by
    simp only [Expr.closed] at h
    simp only [eval, eval_closed S ρ ρ' e h]
  | .bin _ op l r, h => by
    simp only [Expr.closed, Bool.and_eq_true] at h
    simp only [eval, eval_closed S ρ ρ' l h.1, eval_closed S ρ ρ' r h.2]

/-- an expression reads only its variables -/
theorem eval_agree (S : Sem) (ρ ρ' : Env) : ∀ (e : Expr), (∀ x ∈ e.vars, ρ' x = ρ x) → eval S ρ' e = eval S ρ e
  | .lit _ _, _ => by simp [eval]
  | .var _ x, h => by simp [eval, h x (by simp [Expr.vars])]
  | .un _ op e, h => by
    simp only [eval, eval_agree S ρ ρ' e (fun x hx => h x (by simpa [Expr.vars] using hx))]
  | .bin _ op l r, h => by
    have hl := eval_agree S ρ ρ' l (fun x hx => h x (by simp [Expr.vars, hx]))
    have hr := eval_agree S ρ ρ' r (fun x hx => h x (by simp [Expr.vars, hx]))
    simp only [eval, hl, hr]

theorem toI64_of_small (v : Int) (h1 : -(2 ^ 63) ≤ v) (h2 : v < 2 ^ 63) : toI64 v = v := by
  simp [toI64] at *; omega

/-- `toI64` is injective on the value range of any one type -/
theorem toI64_inj (t : Ty) (a b : Int) (ha : inRange t a) (hb : inRange t b) (h : toI64 a = toI64 b) : a = b := by
  obtain ⟨r, s⟩ := t
  cases r <;> cases s <;> simp [inRange, tmin, tmax, Ty.bits, Rank.bits, toI64] at * <;> omega

theorem toI64_eq_01 (t : Ty) (a k : Int) (ha : inRange t a) (hk : k = 0 ∨ k = 1) (h : k = toI64 a) : a = k := by
  obtain ⟨r, s⟩ := t
  rcases hk with hk | hk <;> subst hk <;>
    cases r <;> cases s <;> simp [inRange, tmin, tmax, Ty.bits, Rank.bits, toI64] at * <;> omega

theorem toVT_inj (a b : Ty) (h : toVT a = toVT b) : a = b := by
  obtain ⟨ra, sa⟩ := a
  obtain ⟨rb, sb⟩ := b
  cases ra <;> cases sa <;> cases rb <;> cases sb <;> simp [toVT, Rank.idx] at h ⊢

end Cppcheck.CondExpr

import Cppcheck.Model.Dedup
/-
Helper lemmas about the duplicate filter (C15).
-/
namespace Cppcheck.Dedup
open Cppcheck.Wire

variable {α β : Type}

theorem mem_dedupGo (key : α → Str) (seen : List Str) (l : List α) (x : α) :
    x ∈ dedupGo key seen l → x ∈ l ∧ key x ∉ seen := by
  induction l generalizing seen with
  | nil => simp [dedupGo]
  | cons y r ih =>
    simp only [dedupGo]
    split
    · intro h
      have := ih seen h
      exact ⟨by simp [this.1], this.2⟩
    · rename_i hy
      intro h
      simp only [List.mem_cons] at h
      rcases h with h | h
      · subst h; exact ⟨by simp, hy⟩
      · have := ih (key y :: seen) h
        exact ⟨by simp [this.1], fun hc => this.2 (by simp [hc])⟩

theorem keys_dedupGo (key : α → Str) (seen : List Str) (l : List α) (k : Str) :
    k ∈ (dedupGo key seen l).map key ↔ k ∉ seen ∧ ∃ x ∈ l, key x = k := by
  induction l generalizing seen with
  | nil => simp [dedupGo]
  | cons y r ih =>
    simp only [dedupGo]
    split
    · rename_i hy
      rw [ih seen]
      constructor
      · rintro ⟨h1, x, hx, hk⟩
        exact ⟨h1, x, by simp [hx], hk⟩
      · rintro ⟨h1, x, hx, hk⟩
        simp only [List.mem_cons] at hx
        rcases hx with hx | hx
        · subst hx; subst hk; exact absurd hy h1
        · exact ⟨h1, x, hx, hk⟩
    · rename_i hy
      simp only [List.map_cons, List.mem_cons]
      rw [ih (key y :: seen)]
      constructor
      · rintro (h | ⟨h1, x, hx, hk⟩)
        · subst h; exact ⟨hy, y, by simp, rfl⟩
        · exact ⟨fun hc => h1 (by simp [hc]), x, by simp [hx], hk⟩
      · rintro ⟨h1, x, hx, hk⟩
        by_cases hky : k = key y
        · exact Or.inl hky
        · right
          rcases hx with hx | hx
          · subst hx; exact absurd hk.symm hky
          · exact ⟨by simp [hky, h1], x, hx, hk⟩

theorem nodup_keys_dedupGo (key : α → Str) (seen : List Str) (l : List α) :
    ((dedupGo key seen l).map key).Nodup := by
  induction l generalizing seen with
  | nil => simp [dedupGo]
  | cons y r ih =>
    simp only [dedupGo]
    split
    · exact ih seen
    · simp only [List.map_cons, List.nodup_cons]
      refine ⟨?_, ih _⟩
      intro hc
      rw [keys_dedupGo] at hc
      exact hc.1 (by simp)

/-- two lists whose key lists are permutations of each other agree, up to permutation, on every observation that
    the key determines -/
theorem perm_map_of_perm_keys [DecidableEq α] (key : α → Str) (obs : α → β) :
    ∀ (A B : List α), (A.map key).Perm (B.map key) →
      (∀ a ∈ A, ∀ b ∈ B, key a = key b → obs a = obs b) → (A.map obs).Perm (B.map obs) := by
  intro A
  induction A with
  | nil =>
    intro B h _
    have : B = [] := by
      have := h.length_eq
      simp at this
      exact List.eq_nil_of_length_eq_zero this.symm
    subst this
    simp
  | cons a A ih =>
    intro B h hk
    have hmem : key a ∈ B.map key := h.subset (by simp)
    obtain ⟨b, hb, hkb⟩ := List.mem_map.1 hmem
    have hB : B.Perm (b :: B.erase b) := List.perm_cons_erase hb
    have h2 : ((a :: A).map key).Perm ((b :: B.erase b).map key) := h.trans (hB.map key)
    simp only [List.map_cons, hkb] at h2
    have h3 : (A.map key).Perm ((B.erase b).map key) := (List.perm_cons _).1 h2
    have ih' := ih (B.erase b) h3 (fun a' ha' b' hb' => hk a' (by simp [ha']) b' (List.mem_of_mem_erase hb'))
    have hab : obs a = obs b := hk a (by simp) b hb hkb.symm
    have : ((a :: A).map obs).Perm ((b :: B.erase b).map obs) := by
      simp only [List.map_cons, hab]
      exact (List.perm_cons _).2 ih'
    exact this.trans (hB.map obs).symm

end Cppcheck.Dedup

import Cppcheck.Proofs.Match
/-
C33 (interpreter side) — helper lemmas: the byte-level interpreter `interpB` computes the documented
word-level language `sem ∘ parse` on well-formed patterns.  Core Lean only.

Layout
  §1  words / splitOn ' '  versus  skipSpaces / skipWord / toSpace / takeWhile
  §2  multiCompareLoop on one alternative (literal, %cmd%), then on a whole `a|b|c[|]` word
  §3  `[..]` class scan, `!!` word
  §4  word classification (`Word.ofStr`, `wordWF`) versus the interpreter's dispatch tests
  §5  one iteration of `interpLoop` per word kind, and the induction
  §6  simpleMatch
-/
namespace Cppcheck.Match
open Cppcheck.Wire

/-! ## hypotheses (decidable): `noNul`, `TokStrOK` live in Model/Match.lean §5 -/

/-- what may follow a word inside a pattern: the end, or a blank -/
def restOK : Str → Prop
  | [] => True
  | c :: _ => c = ' '

/-! ## §1 words -/

theorem splitOn_ne_nil (c : Char) (s : Str) : splitOn c s ≠ [] := by
  induction s with
  | nil => simp [splitOn]
  | cons x r ih =>
    simp only [splitOn]
    split
    · simp
    · split <;> simp

theorem splitOn_nosep (c : Char) (w : Str) (hw : ∀ x ∈ w, x ≠ c) : splitOn c w = [w] := by
  induction w with
  | nil => simp [splitOn]
  | cons x r ih =>
    have hx : x ≠ c := hw x (by simp)
    simp only [splitOn, hx, if_false, ih (fun y hy => hw y (by simp [hy]))]

theorem splitOn_append_sep (c : Char) (w r : Str) (hw : ∀ x ∈ w, x ≠ c) :
    splitOn c (w ++ c :: r) = w :: splitOn c r := by
  induction w with
  | nil => simp [splitOn]
  | cons x w ih =>
    have hx : x ≠ c := hw x (by simp)
    simp only [List.cons_append, splitOn, hx, if_false, ih (fun y hy => hw y (by simp [hy]))]

theorem words_space (r : Str) : words (' ' :: r) = words r := by
  simp [words, splitOn]

theorem words_skipSpaces (p : Str) : words (skipSpaces p) = words p := by
  fun_induction skipSpaces p with
  | case1 r ih => rw [ih, words_space]
  | case2 s h => rfl

theorem skipSpaces_head (p : Str) : ∀ r, skipSpaces p ≠ ' ' :: r := by
  fun_induction skipSpaces p with
  | case1 r ih => exact ih
  | case2 s h => intro r hr; exact h r hr

theorem skipSpaces_length (p : Str) : (skipSpaces p).length ≤ p.length := by
  fun_induction skipSpaces p with
  | case1 r ih => simp; omega
  | case2 s h => simp

theorem skipSpaces_mem (p : Str) : ∀ c ∈ skipSpaces p, c ∈ p := by
  fun_induction skipSpaces p with
  | case1 r ih => intro c hc; simp [ih c hc]
  | case2 s h => intro c hc; exact hc

theorem words_nil : words [] = [] := by simp [words, splitOn]

theorem words_word (w : Str) (hne : w ≠ []) (hw : ∀ x ∈ w, x ≠ ' ') : words w = [w] := by
  simp [words, splitOn_nosep ' ' w hw, hne]

theorem words_word_rest (w r : Str) (hne : w ≠ []) (hw : ∀ x ∈ w, x ≠ ' ') :
    words (w ++ ' ' :: r) = w :: words r := by
  simp [words, splitOn_append_sep ' ' w r hw, hne]

/-- `words (w ++ rest) = w :: words rest` for a word followed by the end or a blank -/
theorem words_first (w rest : Str) (hne : w ≠ []) (hw : ∀ x ∈ w, x ≠ ' ') (hr : restOK rest) :
    words (w ++ rest) = w :: words rest := by
  cases rest with
  | nil => simp [words_word w hne hw, words_nil]
  | cons c r =>
    simp only [restOK] at hr
    subst hr
    rw [words_word_rest w r hne hw, words_space]

theorem skipWord_eq (p : Str) : skipWord p = p.dropWhile (· ≠ ' ') := by
  induction p with
  | nil => simp [skipWord]
  | cons c r ih =>
    simp only [skipWord, List.dropWhile_cons]
    by_cases h : c = ' ' <;> simp [h, ih]

theorem dropWhile_restOK (p : Str) : restOK (p.dropWhile (· ≠ ' ')) := by
  induction p with
  | nil => simp [restOK]
  | cons c r ih =>
    simp only [List.dropWhile_cons]
    by_cases h : c = ' '
    · simp [h, restOK]
    · simpa [h] using ih

theorem takeWhile_nospace (p : Str) : ∀ x ∈ p.takeWhile (· ≠ ' '), x ≠ ' ' := by
  induction p with
  | nil => simp
  | cons c r ih =>
    intro x hx
    by_cases h : c = ' '
    · simp [h] at hx
    · simp only [List.takeWhile_cons, ne_eq, h, not_false_eq_true, decide_true, if_true, List.mem_cons] at hx
      rcases hx with rfl | hx
      · exact h
      · exact ih x hx

/-- decomposition of a pattern that starts with a non-blank: first word ++ rest -/
theorem first_word (p : Str) :
    p = p.takeWhile (· ≠ ' ') ++ skipWord p ∧ restOK (skipWord p) ∧
      (∀ x ∈ p.takeWhile (· ≠ ' '), x ≠ ' ') := by
  refine ⟨?_, ?_, takeWhile_nospace p⟩
  · rw [skipWord_eq]; exact (List.takeWhile_append_dropWhile).symm
  · rw [skipWord_eq]; exact dropWhile_restOK p

theorem takeWhile_ne_nil (p : Str) (hp : p ≠ []) (h : ∀ r, p ≠ ' ' :: r) : p.takeWhile (· ≠ ' ') ≠ [] := by
  cases p with
  | nil => exact absurd rfl hp
  | cons c r =>
    have : c ≠ ' ' := fun e => h r (by rw [e])
    simp [this]

theorem takeWhile_word (w rest : Str) (hw : ∀ x ∈ w, x ≠ ' ') (hr : restOK rest) :
    (w ++ rest).takeWhile (· ≠ ' ') = w := by
  induction w with
  | nil =>
    cases rest with
    | nil => rfl
    | cons c r => simp only [restOK] at hr; subst hr; simp
  | cons x w ih =>
    have hx : x ≠ ' ' := hw x (by simp)
    simpa [hx] using ih (fun y hy => hw y (by simp [hy]))

theorem skipWord_word (w rest : Str) (hw : ∀ x ∈ w, x ≠ ' ') (hr : restOK rest) :
    skipWord (w ++ rest) = rest := by
  induction w with
  | nil =>
    cases rest with
    | nil => rfl
    | cons c r => simp only [restOK] at hr; subst hr; simp [skipWord]
  | cons x w ih =>
    have hx : x ≠ ' ' := hw x (by simp)
    simp only [List.cons_append, skipWord, hx, if_false]
    exact ih (fun y hy => hw y (by simp [hy]))

theorem toSpace_word (x rest : Str) (hx : ∀ c ∈ x, c ≠ ' ') (hr : restOK rest) :
    toSpace (x ++ rest) = if rest = [] then none else some rest := by
  induction x with
  | nil =>
    cases rest with
    | nil => rfl
    | cons c r => simp only [restOK] at hr; subst hr; simp [toSpace]
  | cons y x ih =>
    have hy : y ≠ ' ' := hx y (by simp)
    simp only [List.cons_append, toSpace, hy, if_false]
    exact ih (fun z hz => hx z (by simp [hz]))

theorem chrInFirstWord_word (c : Char) (w rest : Str) (hw : ∀ x ∈ w, x ≠ ' ') (hr : restOK rest) :
    chrInFirstWord c (w ++ rest) = w.contains c := by
  induction w with
  | nil =>
    cases rest with
    | nil => rfl
    | cons d r => simp only [restOK] at hr; subst hr; simp [chrInFirstWord]
  | cons x w ih =>
    have hx : x ≠ ' ' := hw x (by simp)
    simp only [List.cons_append, chrInFirstWord, hx, if_false, List.contains_cons]
    rw [ih (fun y hy => hw y (by simp [hy]))]
    by_cases h : x = c
    · simp [h]
    · have h' : ¬ c = x := fun e => h e.symm
      simp [h, h']

/-! ## §2 multiCompare -/

theorem at0_cons_zero (c : Char) (l : Str) : at0 (c :: l) 0 = c := by simp [at0]
theorem at0_cons_succ (c : Char) (l : Str) (n : Nat) : at0 (c :: l) (n + 1) = at0 l n := by simp [at0]
theorem at0_nil (n : Nat) : at0 [] n = '\x00' := by simp [at0]

/-- what the loop returns after an alternative that did not match, given what follows it:
    end of word ⇒ -1, `|` ⇒ whatever the loop returns on the next alternative -/
def tailRes (t : Tok) (v : Nat) (tail : Str) (R : MC) : Prop :=
  match tail with
  | [] => R = .minus
  | c :: tl =>
    if c = '|' then ∀ f, tl.length < f → multiCompareLoop t v f tl t.str true = R
    else c = ' ' ∧ R = .minus

def skipRes (t : Tok) (v : Nat) (f : Nat) : Option Str → MC
  | none => .minus
  | some rest => multiCompareLoop t v f rest t.str true

theorem skipToBar_lit (x tail : Str) (hx : ∀ c ∈ x, c ≠ '|' ∧ c ≠ ' ') :
    skipToBar (x ++ tail) = skipToBar tail := by
  induction x with
  | nil => rfl
  | cons y x ih =>
    have hy := hx y (by simp)
    simp only [List.cons_append, skipToBar, hy.1, hy.2, if_false]
    exact ih (fun z hz => hx z (by simp [hz]))

/-- the mismatch branch: skip to the next alternative -/
theorem mcl_miss (t : Tok) (v f : Nat) (c : Char) (hay' np : Str) (b : Bool)
    (hc : c ≠ '|' ∧ c ≠ ' ' ∧ c ≠ '\x00') (hnp : at0 np 0 ≠ c)
    (hpc : ¬(b = true ∧ c = '%' ∧ at0 hay' 0 ≠ '|' ∧ at0 hay' 0 ≠ '\x00' ∧ at0 hay' 0 ≠ ' ' ∧ at0 hay' 0 ≠ '=')) :
    multiCompareLoop t v (f + 1) (c :: hay') np b = skipRes t v f (skipToBar hay') := by
  simp only [multiCompareLoop, at0_cons_zero, at0_cons_succ, hpc, if_false, hc.1, hc.2.1, hc.2.2, hnp,
    false_or, List.drop_one, List.tail_cons]
  cases skipToBar hay' <;> rfl

theorem skipRes_tail (t : Tok) (v f : Nat) (x tail : Str) (R : MC) (hx : ∀ c ∈ x, c ≠ '|' ∧ c ≠ ' ')
    (hR : tailRes t v tail R) (hf : (x ++ tail).length ≤ f) :
    skipRes t v f (skipToBar (x ++ tail)) = R := by
  rw [skipToBar_lit x tail hx]
  cases tail with
  | nil => simp only [tailRes] at hR; simp [skipToBar, skipRes, hR]
  | cons c tl =>
    simp only [tailRes] at hR
    by_cases hc : c = '|'
    · subst hc
      simp only [if_true] at hR
      simp only [skipToBar, skipRes]
      simp only [show ('|' : Char) ≠ ' ' by decide, if_false, if_true]
      apply hR
      simp at hf
      omega
    · simp only [hc, if_false] at hR
      simp [skipToBar, skipRes, hR.1, hR.2]

/-- matching phase inside a literal alternative (the needle pointer is past the start) -/
theorem mcl_lit_go (t : Tok) (v : Nat) (tail : Str) (R : MC) (hR : tailRes t v tail R) :
    ∀ (x np : Str) (f : Nat), (∀ c ∈ x, c ≠ '|' ∧ c ≠ ' ' ∧ c ≠ '\x00') →
      (∀ c ∈ np, c ≠ ' ' ∧ c ≠ '\x00') → (x ++ tail).length < f →
      multiCompareLoop t v f (x ++ tail) np false = if np = x then .one else R := by
  intro x
  induction x with
  | nil =>
    intro np f _ hnp hf
    cases f with
    | zero => omega
    | succ f =>
      cases tail with
      | nil =>
        simp only [tailRes] at hR
        cases np with
        | nil => simp [multiCompareLoop, at0_nil]
        | cons d np' =>
          have hd := hnp d (by simp)
          simp [multiCompareLoop, at0_nil, at0_cons_zero, hd.2, hR]
      | cons c tl =>
        simp only [tailRes] at hR
        by_cases hc : c = '|'
        · subst hc
          simp only [if_true] at hR
          cases np with
          | nil => simp [multiCompareLoop, at0_cons_zero]
          | cons d np' =>
            simp only [List.nil_append, multiCompareLoop, at0_cons_zero, Bool.false_eq_true, false_and,
              if_false, if_true, List.drop_one, List.tail_cons, reduceCtorEq]
            simp only [List.nil_append, List.length_cons] at hf
            exact hR f (by omega)
        · simp only [hc, if_false] at hR
          obtain ⟨rfl, rfl⟩ := hR
          cases np with
          | nil => simp [multiCompareLoop, at0_cons_zero, at0_nil]
          | cons d np' =>
            have hd := hnp d (by simp)
            simp [multiCompareLoop, at0_cons_zero, hd.1]
  | cons c x ih =>
    intro np f hx hnp hf
    have hc := hx c (by simp)
    have hx' : ∀ c ∈ x, c ≠ '|' ∧ c ≠ ' ' ∧ c ≠ '\x00' := fun z hz => hx z (by simp [hz])
    cases f with
    | zero => omega
    | succ f =>
      simp only [List.cons_append, List.length_cons] at hf ⊢
      have hmiss : ∀ np', at0 np' 0 ≠ c → multiCompareLoop t v (f + 1) (c :: (x ++ tail)) np' false = R := by
        intro np' h
        rw [mcl_miss t v f c (x ++ tail) np' false hc h (by simp)]
        exact skipRes_tail t v f x tail R (fun z hz => ⟨(hx' z hz).1, (hx' z hz).2.1⟩) hR (by omega)
      cases np with
      | nil =>
        rw [hmiss [] (by rw [at0_nil]; exact fun e => hc.2.2 e.symm)]
        simp
      | cons d np' =>
        by_cases hdc : d = c
        · subst hdc
          have := ih np' f hx' (fun z hz => hnp z (by simp [hz])) (by omega)
          simp only [multiCompareLoop, at0_cons_zero, Bool.false_eq_true, false_and, if_false, hc.1, if_true,
            List.drop_one, List.tail_cons, reduceCtorEq, this, List.cons.injEq, true_and]
        · rw [hmiss (d :: np') (by rw [at0_cons_zero]; exact hdc)]
          simp [hdc]

theorem tailRes_head (t : Tok) (v : Nat) (tail : Str) (R : MC) (hR : tailRes t v tail R) :
    at0 tail 0 = '|' ∨ at0 tail 0 = '\x00' ∨ at0 tail 0 = ' ' := by
  cases tail with
  | nil => simp [at0_nil]
  | cons c tl =>
    simp only [tailRes] at hR
    by_cases hc : c = '|'
    · simp [at0_cons_zero, hc]
    · simp only [hc, if_false] at hR
      simp [at0_cons_zero, hR.1]

/-- a literal alternative, needle pointer at the start of the token text -/
theorem mcl_lit_start (t : Tok) (v : Nat) (tail : Str) (R : MC) (hR : tailRes t v tail R)
    (a np : Str) (f : Nat) (hane : a ≠ []) (ha : ∀ c ∈ a, c ≠ '|' ∧ c ≠ ' ' ∧ c ≠ '\x00')
    (hpct : a.head? ≠ some '%' ∨ a = ['%'] ∨ a = ['%', '='])
    (hnp : ∀ c ∈ np, c ≠ ' ' ∧ c ≠ '\x00') (hf : (a ++ tail).length < f) :
    multiCompareLoop t v f (a ++ tail) np true = if np = a then .one else R := by
  cases a with
  | nil => exact absurd rfl hane
  | cons c x =>
    have hc := ha c (by simp)
    have hx' : ∀ c ∈ x, c ≠ '|' ∧ c ≠ ' ' ∧ c ≠ '\x00' := fun z hz => ha z (by simp [hz])
    have hpc : ¬(c = '%' ∧ at0 (x ++ tail) 0 ≠ '|' ∧ at0 (x ++ tail) 0 ≠ '\x00' ∧
        at0 (x ++ tail) 0 ≠ ' ' ∧ at0 (x ++ tail) 0 ≠ '=') := by
      rcases hpct with h | h | h
      · simp only [List.head?_cons, ne_eq, Option.some.injEq] at h
        simp [h]
      · simp only [List.cons.injEq] at h
        obtain ⟨_, rfl⟩ := h
        have h3 := tailRes_head t v tail R hR
        simp only [List.nil_append]
        rcases h3 with h3 | h3 | h3 <;> simp [h3]
      · simp only [List.cons.injEq] at h
        obtain ⟨_, rfl⟩ := h
        simp [at0_cons_zero]
    cases f with
    | zero => omega
    | succ f =>
      simp only [List.cons_append, List.length_cons] at hf ⊢
      cases np with
      | nil =>
        rw [mcl_miss t v f c (x ++ tail) [] true hc (by rw [at0_nil]; exact fun e => hc.2.2 e.symm)
          (by simpa using hpc)]
        rw [skipRes_tail t v f x tail R (fun z hz => ⟨(hx' z hz).1, (hx' z hz).2.1⟩) hR (by omega)]
        simp
      | cons d np' =>
        by_cases hdc : d = c
        · subst hdc
          have := mcl_lit_go t v tail R hR x np' f hx' (fun z hz => hnp z (by simp [hz])) (by omega)
          simp only [multiCompareLoop, at0_cons_zero, at0_cons_succ, hpc, if_false, hc.1, if_true,
            List.drop_one, List.tail_cons, reduceCtorEq, this, List.cons.injEq, true_and]
        · rw [mcl_miss t v f c (x ++ tail) (d :: np') true hc (by rw [at0_cons_zero]; exact hdc) (by simpa using hpc)]
          rw [skipRes_tail t v f x tail R (fun z hz => ⟨(hx' z hz).1, (hx' z hz).2.1⟩) hR (by omega)]
          simp [hdc]

-- `Cmd.spell`, `Cmd.ofStr_spell`, `Cmd.ofStr_some`: Proofs/Match.lean

/-- `multiComparePercent` decodes each of the 15 commands and leaves the haystack behind it -/
theorem pct_eval (t : Tok) (v : Nat) (c : Cmd) (tail : Str)
    (htl : at0 tail 0 ≠ '%') :
    multiComparePercent t (c.spell ++ tail) v =
      if c = .varid ∧ v = 0 then .thrw
      else if c.eval t v then .one else if at0 tail 0 = '|' then .cont (tail.drop 1) else .minus := by
  cases c <;>
    simp [multiComparePercent, Cmd.spell, Cmd.eval, at0, Tok.isOp, Tok.isConstOp]
  · intro h; exact absurd h (by simpa [at0] using htl)

theorem spell_head (c : Cmd) : ∃ l x, c.spell = '%' :: l :: x ∧ l ≠ '|' ∧ l ≠ '\x00' ∧ l ≠ ' ' ∧ l ≠ '=' := by
  cases c <;> exact ⟨_, _, rfl, by decide, by decide, by decide, by decide⟩

theorem spell_chars (c : Cmd) : ∀ x ∈ c.spell, x ≠ '|' ∧ x ≠ ' ' ∧ x ≠ '\x00' := by
  cases c <;> decide

/-- a `%cmd%` alternative at the start of the token text -/
theorem mcl_cmd (t : Tok) (v : Nat) (tail : Str) (R : MC) (hR : tailRes t v tail R)
    (c : Cmd) (f : Nat) (hf : (c.spell ++ tail).length < f) :
    multiCompareLoop t v f (c.spell ++ tail) t.str true =
      if c = .varid ∧ v = 0 then .thrw else if c.eval t v then .one else R := by
  cases f with
  | zero => omega
  | succ f =>
    have hp := pct_eval t v c tail (by
      rcases tailRes_head t v tail R hR with h | h | h <;> rw [h] <;> decide)
    obtain ⟨l, x, hs, h1, h2, h3, h4⟩ := spell_head c
    have hlen : tail.length + 2 ≤ (c.spell ++ tail).length := by rw [hs]; simp
    rw [hs] at hp ⊢
    simp only [List.cons_append] at hp ⊢
    simp only [multiCompareLoop, at0_cons_zero, at0_cons_succ, h1, h2, h3, h4, ne_eq, not_false_eq_true,
      and_self, if_true, hp]
    by_cases hthr : c = .varid ∧ v = 0
    · simp only [hthr, and_self, if_true]
    simp only [hthr, if_false]
    by_cases he : c.eval t v = true
    · simp only [he, if_true]
    · simp only [he, Bool.false_eq_true, if_false]
      cases tail with
      | nil => simp only [tailRes] at hR; simp [at0_nil, hR]
      | cons d tl =>
        simp only [tailRes] at hR
        by_cases hd : d = '|'
        · subst hd
          simp only [if_true] at hR
          simp only [at0_cons_zero, if_true, List.drop_one, List.tail_cons]
          apply hR
          simp only [List.length_cons] at hlen
          omega
        · simp only [hd, if_false] at hR
          simp [at0_cons_zero, hd, hR.2]

theorem tokStrOK_iff (t : Tok) (h : TokStrOK t = true) :
    ∀ c ∈ t.str, c ≠ ' ' ∧ c ≠ '\x00' := by
  simpa [TokStrOK] using h

theorem isCmdOrPlain_ne_nil (a : Str) (h : isCmdOrPlain a = true) : a ≠ [] := by
  intro e
  subst e
  revert h
  decide

/-- one alternative (command or plain literal) followed by `tail` -/
theorem mcl_alt (t : Tok) (v : Nat) (ht : TokStrOK t = true) (tail : Str) (R : MC)
    (hR : tailRes t v tail R) (a : Str) (f : Nat) (ha : isCmdOrPlain a = true)
    (hnul : ∀ c ∈ a, c ≠ '\x00')
    (hf : (a ++ tail).length < f) :
    multiCompareLoop t v f (a ++ tail) t.str true =
      match (Atom.ofStr a).evalR t v with | .t => .one | .err => .thrw | .f => R := by
  have htc := tokStrOK_iff t ht
  unfold isCmdOrPlain at ha
  cases h : Cmd.ofStr a with
  | some c =>
    have ha' := Cmd.ofStr_some a c h
    subst ha'
    have hat : Atom.ofStr c.spell = .cmd c := by simp [Atom.ofStr, h]
    rw [hat]
    rw [mcl_cmd t v tail R hR c f hf]
    simp only [Atom.evalR, Atom.eval, Atom.cmd.injEq]
    by_cases hthr : c = .varid ∧ v = 0
    · simp [hthr]
    · simp only [hthr, if_false]
      by_cases he : c.eval t v = true <;> simp [he, Res.ofBool]
  | none =>
    rw [h] at ha
    simp only [Bool.and_eq_true, Bool.or_eq_true, Bool.not_eq_true', decide_eq_true_eq, ne_eq,
      List.contains_eq_mem, decide_eq_false_iff_not] at ha
    obtain ⟨⟨⟨hne, hbar⟩, hsp⟩, hpc⟩ := ha
    have hat : Atom.ofStr a = .lit a := by simp [Atom.ofStr, h]
    rw [hat]
    have hlit : (Atom.lit a).evalR t v = .ofBool (decide (t.str = a)) := by
      simp [Atom.evalR, Atom.eval]
    rw [hlit]
    have hgoal : (match Res.ofBool (decide (t.str = a)) with | .t => MC.one | .err => .thrw | .f => R) =
        if t.str = a then .one else R := by
      by_cases he : t.str = a <;> simp [he, Res.ofBool]
    rw [hgoal]
    refine mcl_lit_start t v tail R hR a t.str f hne ?_ ?_ htc hf
    · intro c hc
      exact ⟨fun e => hbar (e ▸ hc), fun e => hsp (e ▸ hc), hnul c hc⟩
    · rcases hpc with (h1 | h1) | h1
      · exact Or.inl h1
      · exact Or.inr (Or.inl h1)
      · exact Or.inr (Or.inr h1)

/-- the trailing empty alternative: 0 — except that an empty token text at the very end of the
    pattern compares equal (NUL = NUL) and gives 1 -/
theorem mcl_empty (t : Tok) (v : Nat) (ht : TokStrOK t = true) (rest : Str) (hr : restOK rest) (f : Nat) :
    multiCompareLoop t v (f + 1) rest t.str true =
      if (t.str = [] ∧ rest = []) then .one else .zero := by
  have htc := tokStrOK_iff t ht
  cases hs : t.str with
  | nil =>
    cases rest with
    | nil => simp [multiCompareLoop, at0_nil]
    | cons c r =>
      simp only [restOK] at hr
      subst hr
      simp [multiCompareLoop, at0_cons_zero, at0_nil]
  | cons d np =>
    have hd := htc d (by rw [hs]; simp)
    cases rest with
    | nil => simp [multiCompareLoop, at0_nil, at0_cons_zero, hd.2]
    | cons c r =>
      simp only [restOK] at hr
      subst hr
      simp [multiCompareLoop, at0_cons_zero, hd.1]

/-- `a|b|c` -/
def bars : List Str → Str
  | [] => []
  | [a] => a
  | a :: b :: r => a ++ '|' :: bars (b :: r)

theorem bars_cons_cons (x : Char) (w : Str) (ws : List Str) : bars ((x :: w) :: ws) = x :: bars (w :: ws) := by
  cases ws <;> simp [bars]

theorem bars_splitOn (w : Str) : bars (splitOn '|' w) = w := by
  induction w with
  | nil => simp [splitOn, bars]
  | cons x r ih =>
    simp only [splitOn]
    by_cases hx : x = '|'
    · simp only [hx, if_true]
      cases hs : splitOn '|' r with
      | nil => exact absurd hs (splitOn_ne_nil _ _)
      | cons a as => rw [hs] at ih; simp [bars, ih]
    · simp only [hx, if_false]
      cases hs : splitOn '|' r with
      | nil => exact absurd hs (splitOn_ne_nil _ _)
      | cons a as => rw [hs] at ih; simp [bars_cons_cons, ih]

/-- shape of the alternatives of a well-formed word: commands / plain literals, the last may be empty -/
def partsOK : List Str → Prop
  | [] => False
  | [a] => a = [] ∨ isCmdOrPlain a = true
  | a :: b :: r => isCmdOrPlain a = true ∧ partsOK (b :: r)

def mcSpec (t : Tok) (v : Nat) (e : Bool) : List Str → MC
  | [] => .minus
  | [a] =>
    if a = [] then (if e then .one else .zero)
    else match (Atom.ofStr a).evalR t v with | .t => .one | .err => .thrw | .f => .minus
  | a :: b :: r =>
    match (Atom.ofStr a).evalR t v with | .t => .one | .err => .thrw | .f => mcSpec t v e (b :: r)

theorem tailRes_rest (t : Tok) (v : Nat) (rest : Str) (hr : restOK rest) : tailRes t v rest .minus := by
  cases rest with
  | nil => simp [tailRes]
  | cons c r => simp only [restOK] at hr; subst hr; simp [tailRes]

/-- the whole alternatives word -/
theorem mcl_parts (t : Tok) (v : Nat) (ht : TokStrOK t = true) (rest : Str) (hr : restOK rest) :
    ∀ parts : List Str, partsOK parts → (∀ a ∈ parts, ∀ c ∈ a, c ≠ '\x00') →
      ∀ f, (bars parts ++ rest).length < f →
        multiCompareLoop t v f (bars parts ++ rest) t.str true =
          mcSpec t v (decide (t.str = [] ∧ rest = [])) parts := by
  intro parts
  induction parts with
  | nil => intro h; exact absurd h (by simp [partsOK])
  | cons a ps ih =>
    intro hok hnul f hf
    cases ps with
    | nil =>
      simp only [partsOK] at hok
      simp only [bars, mcSpec] at hf ⊢
      by_cases hae : a = []
      · subst hae
        cases f with
        | zero => omega
        | succ f => simpa using mcl_empty t v ht rest hr f
      · rcases hok with hok | hok
        · exact absurd hok hae
        · rw [mcl_alt t v ht rest .minus (tailRes_rest t v rest hr) a f hok (hnul a (by simp)) hf]
          simp [hae]
    | cons b r =>
      simp only [partsOK] at hok
      simp only [bars, mcSpec, List.append_assoc, List.cons_append] at hf ⊢
      have hR : tailRes t v ('|' :: (bars (b :: r) ++ rest)) (mcSpec t v (decide (t.str = [] ∧ rest = [])) (b :: r)) := by
        simp only [tailRes, if_true]
        intro f' hf'
        exact ih hok.2 (fun a' ha' => hnul a' (by simp [ha'])) f' hf'
      exact mcl_alt t v ht _ _ hR a f hok.1 (hnul a (by simp)) hf

theorem mcSpec_eq (t : Tok) (v : Nat) (e : Bool) : ∀ parts : List Str, partsOK parts →
    mcSpec t v e parts =
      match altsR ((parts.filter (· ≠ [])).map Atom.ofStr) t v with
      | .t => .one
      | .err => .thrw
      | .f => if parts.any (· = []) then (if e then .one else .zero) else .minus := by
  intro parts
  induction parts with
  | nil => intro h; exact absurd h (by simp [partsOK])
  | cons a ps ih =>
    intro hok
    cases ps with
    | nil =>
      simp only [partsOK] at hok
      simp only [mcSpec]
      by_cases hae : a = []
      · simp [hae, altsR]
      · cases he : (Atom.ofStr a).evalR t v <;> simp [hae, he, altsR]
    | cons b r =>
      simp only [partsOK] at hok
      have hae := isCmdOrPlain_ne_nil a hok.1
      simp only [mcSpec, ih hok.2]
      cases he : (Atom.ofStr a).evalR t v <;> simp [hae, he, altsR]

/-- `multiCompare` on an alternatives word followed by the end or a blank -/
theorem multiCompare_parts (t : Tok) (v : Nat) (ht : TokStrOK t = true) (rest : Str) (hr : restOK rest)
    (parts : List Str) (hok : partsOK parts) (hnul : ∀ a ∈ parts, ∀ c ∈ a, c ≠ '\x00') :
    multiCompare t (bars parts ++ rest) v =
      match altsR ((parts.filter (· ≠ [])).map Atom.ofStr) t v with
      | .t => .one
      | .err => .thrw
      | .f => if parts.any (· = []) then (if decide (t.str = [] ∧ rest = []) then .one else .zero)
              else .minus := by
  unfold multiCompare
  simp only [decide_true]
  rw [mcl_parts t v ht rest hr parts hok hnul _ (by omega), mcSpec_eq t v _ parts hok]

/-! ## §3 `[..]` and `!!` -/

theorem toSpace_append (x rest : Str) (hx : ∀ c ∈ x, c ≠ ' ') (hr : restOK rest) :
    toSpace (x ++ rest) = toSpace rest := by
  rw [toSpace_word x rest hx hr]
  have := toSpace_word [] rest (by simp) hr
  simpa using this.symm

theorem classScan_other (c : Char) (hc : c ≠ ']') (rest : Str) (hr : restOK rest) :
    ∀ (cs : Str) (n : Nat), (∀ x ∈ cs, x ≠ ' ') →
      (classScan c (cs ++ rest) n).1 = decide (c ∈ cs) ∧
      toSpace (classScan c (cs ++ rest) n).2.2 = toSpace rest := by
  intro cs
  induction cs with
  | nil =>
    intro n _
    cases rest with
    | nil => simp [classScan]
    | cons d r => simp only [restOK] at hr; subst hr; simp [classScan]
  | cons x cs ih =>
    intro n hcs
    have hx : x ≠ ' ' := hcs x (by simp)
    have hcs' : ∀ y ∈ cs, y ≠ ' ' := fun y hy => hcs y (by simp [hy])
    simp only [List.cons_append, classScan, hx, if_false]
    by_cases h1 : x = ']'
    · subst h1
      simp only [if_true]
      have := ih (n + 1) hcs'
      simp [this.1, this.2, hc]
    · simp only [h1, if_false]
      by_cases h2 : x = c
      · subst h2
        simp only [if_true, List.mem_cons, true_or, decide_true, true_and]
        have := toSpace_append (x :: cs) rest hcs hr
        simpa using this
      · have h2' : ¬ c = x := fun e => h2 e.symm
        simp only [h2, if_false]
        have := ih n hcs'
        simp [this.1, this.2, h2']

theorem classScan_bracket (rest : Str) (hr : restOK rest) :
    ∀ (cs : Str) (n : Nat), (∀ x ∈ cs, x ≠ ' ') →
      classScan ']' (cs ++ rest) n = (false, n + cs.count ']', rest) := by
  intro cs
  induction cs with
  | nil =>
    intro n _
    cases rest with
    | nil => simp [classScan]
    | cons d r => simp only [restOK] at hr; subst hr; simp [classScan]
  | cons x cs ih =>
    intro n hcs
    have hx : x ≠ ' ' := hcs x (by simp)
    have hcs' : ∀ y ∈ cs, y ≠ ' ' := fun y hy => hcs y (by simp [hy])
    simp only [List.cons_append, classScan, hx, if_false]
    by_cases h1 : x = ']'
    · subst h1
      simp only [if_true]
      rw [ih (n + 1) hcs']
      simp only [List.count_cons_self, Prod.mk.injEq, true_and, and_true]
      omega
    · have h1' : ¬ ']' = x := fun e => h1 e.symm
      simp only [h1, if_false]
      rw [ih n hcs']
      simp [h1]

theorem firstWordEquals_word (rest : Str) (hr : restOK rest) :
    ∀ (tstr s : Str), (∀ c ∈ s, c ≠ ' ') → (∀ c ∈ tstr, c ≠ ' ') →
      firstWordEquals (s ++ rest) tstr = decide (tstr = s) := by
  intro tstr
  induction tstr with
  | nil =>
    intro s hs _
    cases s with
    | nil =>
      cases rest with
      | nil => simp [firstWordEquals]
      | cons d r => simp only [restOK] at hr; subst hr; simp [firstWordEquals, at0_cons_zero]
    | cons c s =>
      have hc : c ≠ ' ' := hs c (by simp)
      simp [firstWordEquals, at0_cons_zero, hc]
  | cons b w ih =>
    intro s hs ht
    have hb : b ≠ ' ' := ht b (by simp)
    cases s with
    | nil =>
      cases rest with
      | nil => simp [firstWordEquals]
      | cons d r =>
        simp only [restOK] at hr
        subst hr
        have hb' : ¬ ' ' = b := fun e => hb e.symm
        simp [firstWordEquals, hb']
    | cons a s =>
      simp only [List.cons_append, firstWordEquals]
      by_cases hab : a = b
      · subst hab
        simp only [if_true]
        rw [ih s (fun c hc => hs c (by simp [hc])) (fun c hc => ht c (by simp [hc]))]
        simp
      · have hab' : ¬ b = a := fun e => hab e.symm
        simp [hab, hab']

/-! ## §4 word classification -/

-- `clsCond`, `altCond`, `ofStr_cls/alts/neg/one`: Proofs/Match.lean

theorem cls_shape (w : Str) (h : clsCond w) :
    ∃ cs, cs ≠ [] ∧ w = '[' :: (cs ++ [']']) ∧ (w.drop 1).dropLast = cs := by
  obtain ⟨hl, hh, hlast⟩ := h
  obtain ⟨ys, rfl⟩ := List.getLast?_eq_some_iff.mp hlast
  cases ys with
  | nil => simp at hl
  | cons c cs =>
    simp only [List.cons_append, List.head?_cons, Option.some.injEq] at hh
    subst hh
    refine ⟨cs, ?_, rfl, by simp⟩
    intro e
    subst e
    simp at hl

theorem findIdx_mem (c : Char) (w : Str) (n : Nat) (h : findIdx c w = some n) : c ∈ w := by
  induction w generalizing n with
  | nil => simp [findIdx] at h
  | cons x r ih =>
    simp only [findIdx] at h
    by_cases hx : x = c
    · simp [hx]
    · simp only [hx, if_false, Option.map_eq_some_iff] at h
      obtain ⟨m, hm, _⟩ := h
      simp [ih m hm]

theorem findIdx_none (c : Char) (w : Str) (h : findIdx c w = none) : c ∉ w := by
  induction w with
  | nil => simp
  | cons x r ih =>
    simp only [findIdx] at h
    by_cases hx : x = c
    · simp [hx] at h
    · simp only [hx, if_false, Option.map_eq_none_iff] at h
      have hx' : ¬ c = x := fun e => hx e.symm
      simp [hx', ih h]

theorem altCond_mem (w : Str) (h : altCond w = true) : '|' ∈ w := by
  unfold altCond at h
  cases hf : findIdx '|' w with
  | none => simp [hf] at h
  | some n => exact findIdx_mem _ _ _ hf

theorem splitOn_two (c : Char) (w : Str) (h : c ∈ w) : ∃ a b r, splitOn c w = a :: b :: r := by
  induction w with
  | nil => simp at h
  | cons x r ih =>
    simp only [splitOn]
    by_cases hx : x = c
    · simp only [hx, if_true]
      cases hs : splitOn c r with
      | nil => exact absurd hs (splitOn_ne_nil _ _)
      | cons a as => exact ⟨_, _, _, rfl⟩
    · simp only [hx, if_false]
      have hx' : ¬ c = x := fun e => hx e.symm
      simp only [List.mem_cons, hx', false_or] at h
      obtain ⟨a, b, r', hs⟩ := ih h
      rw [hs]
      exact ⟨_, _, _, rfl⟩

theorem mem_splitOn (c : Char) (w : Str) : ∀ a ∈ splitOn c w, ∀ x ∈ a, x ∈ w := by
  induction w with
  | nil => simp [splitOn]
  | cons y r ih =>
    intro a ha x hx
    simp only [splitOn] at ha
    by_cases hy : y = c
    · simp only [hy, if_true, List.mem_cons] at ha
      rcases ha with rfl | ha
      · simp at hx
      · simp [ih a ha x hx]
    · simp only [hy, if_false] at ha
      cases hs : splitOn c r with
      | nil => exact absurd hs (splitOn_ne_nil _ _)
      | cons b bs =>
        rw [hs] at ha ih
        simp only [List.mem_cons] at ha
        rcases ha with rfl | ha
        · simp only [List.mem_cons] at hx
          rcases hx with rfl | hx
          · simp
          · simp [ih b (by simp) x hx]
        · simp [ih a (by simp [ha]) x hx]

theorem isCmdOrPlain_nobar (a : Str) (h : isCmdOrPlain a = true) : '|' ∉ a := by
  unfold isCmdOrPlain at h
  cases hc : Cmd.ofStr a with
  | some c =>
    have := Cmd.ofStr_some a c hc
    subst this
    intro hm
    exact (spell_chars c _ hm).1 rfl
  | none =>
    rw [hc] at h
    simp only [Bool.and_eq_true, Bool.not_eq_true', List.contains_eq_mem, decide_eq_false_iff_not] at h
    exact h.1.1.2

/-- the WF conditions of an alternatives word, as the recursive `partsOK` -/
theorem partsOK_of (ps : List Str) (h1 : ps.dropLast.all isCmdOrPlain = true)
    (h2 : (match ps.getLast? with | some l => l = [] || isCmdOrPlain l | none => false) = true) :
    partsOK ps := by
  induction ps with
  | nil => simp at h2
  | cons a ps ih =>
    cases ps with
    | nil => simpa [partsOK] using h2
    | cons b r =>
      simp only [List.dropLast_cons_cons, List.all_cons, Bool.and_eq_true] at h1
      simp only [List.getLast?_cons_cons] at h2
      exact ⟨h1.1, ih h1.2 h2⟩

/-- "has an empty alternative" = "ends with `|`" -/
theorem parts_opt (ps : List Str) (h : partsOK ps) :
    (ps.any (· = []) = true ↔ ('|' :: bars ps).getLast? = some '|') := by
  induction ps with
  | nil => exact absurd h (by simp [partsOK])
  | cons a ps ih =>
    cases ps with
    | nil =>
      simp only [partsOK] at h
      by_cases hae : a = []
      · simp [hae, bars]
      · rcases h with h | h
        · exact absurd h hae
        · have hb := isCmdOrPlain_nobar a h
          obtain ⟨ys, y, rfl⟩ : ∃ ys y, a = ys ++ [y] := by
            rcases List.eq_nil_or_concat a with e | ⟨l, b, e⟩
            · exact absurd e hae
            · exact ⟨l, b, by simpa using e⟩
          have hy : y ≠ '|' := fun e => hb (by simp [e])
          have hl : ('|' :: (ys ++ [y])).getLast? = some y := by
            rw [← List.cons_append, List.getLast?_concat]
          simp [bars, hae, hl, hy]
    | cons b r =>
      simp only [partsOK] at h
      have hae := isCmdOrPlain_ne_nil a h.1
      have := ih h.2
      simp only [bars, List.any_cons, hae, decide_false, Bool.false_or]
      rw [show ('|' :: (a ++ '|' :: bars (b :: r))) = ('|' :: a) ++ ('|' :: bars (b :: r)) by simp]
      rw [List.getLast?_append]
      simp only [List.any_cons] at this
      rw [this]
      cases hg : ('|' :: bars (b :: r)).getLast? with
      | none => simp at hg
      | some z => simp

/-! ## §5 one iteration of the main loop -/

/-- body of `interpLoop (fuel+1)` after the blanks were skipped (`p = skipSpaces p0`) -/
def interpBody (fuel : Nat) (p : Str) (ts : List Tok) (v : Nat) : Res :=
  if p = [] then .t
  else
    match ts with
    | [] =>
      if at0 p 0 = '!' ∧ at0 p 1 = '!' ∧ at0 p 2 ≠ '\x00' then interpLoop fuel (skipWord p) [] v
      else
        let w := p.takeWhile (· ≠ ' ')
        if ¬(at0 p 0 = '[' ∧ chrInFirstWord ']' p) ∧ w.length > 1 ∧ w.getLast? = some '|' then
          interpLoop fuel (skipWord p) [] v
        else .f
    | t :: r =>
      if at0 p 0 = '[' ∧ chrInFirstWord ']' p then
        match t.str with
        | [c] =>
          let (found, cnt, temp) := classScan c (p.drop 1) 0
          let found := found || (cnt > 1 && c = ']')
          if !found then .f
          else match toSpace temp with
            | none => .t
            | some p' => interpLoop fuel p' r v
        | _ => .f
      else if at0 p 0 = '!' ∧ at0 p 1 = '!' ∧ at0 p 2 ≠ '\x00' then
        let p2 := p.drop 2
        if firstWordEquals p2 t.str then .f
        else match toSpace p2 with
          | none => .t
          | some p' => interpLoop fuel p' r v
      else
        match multiCompare t p v with
        | .thrw => .err
        | .zero => interpLoop fuel (skipWord p) (t :: r) v
        | .minus => .f
        | .one =>
          match toSpace p with
          | none => .t
          | some p' => interpLoop fuel p' r v

theorem interpLoop_succ (fuel : Nat) (p0 : Str) (ts : List Tok) (v : Nat) :
    interpLoop (fuel + 1) p0 ts v = interpBody fuel (skipSpaces p0) ts v := by
  cases ts <;> rfl

theorem at0_append_head (c : Char) (x rest : Str) : at0 ((c :: x) ++ rest) 0 = c := by simp [at0]

theorem restOK_head (rest : Str) (hr : restOK rest) : at0 rest 0 = ' ' ∨ at0 rest 0 = '\x00' := by
  cases rest with
  | nil => simp [at0_nil]
  | cons c r => simp only [restOK] at hr; subst hr; simp [at0_cons_zero]

/-- a word that does not start with `!!` fails the interpreter's `!!` test -/
theorem notBang (w rest : Str) (hr : restOK rest) (h : ¬ w.take 2 = ['!', '!']) :
    ¬(at0 (w ++ rest) 0 = '!' ∧ at0 (w ++ rest) 1 = '!' ∧ at0 (w ++ rest) 2 ≠ '\x00') := by
  have h0 := restOK_head rest hr
  cases w with
  | nil =>
    simp only [List.nil_append]
    rcases h0 with h0 | h0 <;> simp [h0]
  | cons c w =>
    cases w with
    | nil =>
      simp only [List.cons_append, List.nil_append, at0_cons_zero, at0_cons_succ]
      rcases h0 with h0 | h0 <;> simp [h0]
    | cons d x =>
      simp only [List.take_succ_cons, List.take_zero, List.cons.injEq, and_true] at h
      simp only [List.cons_append, at0_cons_zero, at0_cons_succ]
      intro hh
      exact h ⟨hh.1, hh.2.1⟩

/-- a word that is not `[..]`-like fails the interpreter's class test -/
theorem notCls (w rest : Str) (hw : ∀ x ∈ w, x ≠ ' ') (hr : restOK rest) (hne : w ≠ [])
    (h : (w.head? = some '[' && w.contains ']') = false) :
    ¬(at0 (w ++ rest) 0 = '[' ∧ chrInFirstWord ']' (w ++ rest) = true) := by
  rw [chrInFirstWord_word ']' w rest hw hr]
  cases w with
  | nil => exact absurd rfl hne
  | cons c x =>
    simp only [List.cons_append, at0_cons_zero]
    simp only [List.head?_cons, Option.some.injEq, Bool.and_eq_false_iff, decide_eq_false_iff_not] at h
    intro hh
    rcases h with h | h
    · exact h hh.1
    · rw [hh.2] at h; exact absurd h (by simp)

/-- the induction hypothesis, packaged: the loop on the rest of the pattern computes `semWords ws` -/
def ContOK (f : Nat) (rest : Str) (ws : List Word) (v : Nat) : Prop :=
  (rest = [] → ws = []) ∧
  ∀ ts', (∀ t ∈ ts', TokStrOK t = true) → interpLoop f rest ts' v = langWords ws ts' v

theorem cont_eq (f : Nat) (rest : Str) (ws : List Word) (v : Nat) (hK : ContOK f rest ws v)
    (hr : restOK rest) (r : List Tok) (hts : ∀ t ∈ r, TokStrOK t = true) (q : Str)
    (hq : toSpace q = toSpace rest) :
    (match toSpace q with | none => Res.t | some p' => interpLoop f p' r v) =
      langWords ws r v := by
  rw [hq]
  have := toSpace_word [] rest (by simp) hr
  simp only [List.nil_append] at this
  rw [this]
  by_cases he : rest = []
  · simp [he, hK.1 he, langWords]
  · simp only [he, if_false]
    exact hK.2 r hts

theorem step_cls (f v : Nat) (cs rest : Str) (ws : List Word) (hK : ContOK f rest ws v)
    (hcs : ∀ x ∈ cs, x ≠ ' ') (hr : restOK rest) (ts : List Tok) (hts : ∀ t ∈ ts, TokStrOK t = true) :
    interpBody f ('[' :: (cs ++ [']']) ++ rest) ts v = langWords (.cls cs :: ws) ts v := by
  have hw : ∀ x ∈ '[' :: (cs ++ [']']), x ≠ ' ' := by
    intro x hx
    simp only [List.mem_cons, List.mem_append, List.mem_nil_iff, or_false] at hx
    rcases hx with rfl | hx | rfl
    · decide
    · exact hcs x hx
    · decide
  have hchr : chrInFirstWord ']' ('[' :: (cs ++ [']']) ++ rest) = true := by
    rw [chrInFirstWord_word ']' _ rest hw hr]; simp
  have hne : ('[' :: (cs ++ [']']) ++ rest) ≠ [] := by simp
  have h0 : at0 ('[' :: (cs ++ [']']) ++ rest) 0 = '[' := at0_append_head _ _ _
  cases ts with
  | nil =>
    simp only [interpBody, hne, if_false, h0, hchr, show ('[' : Char) ≠ '!' by decide, false_and, and_self,
      not_true_eq_false, langWords]
  | cons t r =>
    have hr' : ∀ t' ∈ r, TokStrOK t' = true := fun t' h' => hts t' (by simp [h'])
    simp only [interpBody, hne, if_false, h0, hchr, and_self, if_true, langWords]
    have hdrop : List.drop 1 ('[' :: (cs ++ [']']) ++ rest) = (cs ++ [']']) ++ rest := by simp
    rw [hdrop]
    have hcs' : ∀ x ∈ cs ++ [']'], x ≠ ' ' := fun x hx => hw x (by simp only [List.mem_cons]; exact Or.inr hx)
    cases hs : t.str with
    | nil => simp
    | cons c cr =>
      cases cr with
      | cons _ _ => simp
      | nil =>
        simp only
        by_cases hc : c = ']'
        · subst hc
          rw [classScan_bracket rest hr (cs ++ [']']) 0 hcs']
          simp only [Nat.zero_add, List.count_append, List.count_cons_self, List.count_nil]
          have hq := cont_eq f rest ws v hK hr r hr' rest rfl
          by_cases hm : ']' ∈ cs
          · have : 0 < List.count ']' cs := List.count_pos_iff.mpr hm
            simp [hm, this, hq]
          · have : List.count ']' cs = 0 := List.count_eq_zero.mpr hm
            simp [hm, this]
        · obtain ⟨h1, h2⟩ := classScan_other c hc rest hr (cs ++ [']']) 0 hcs'
          rcases hsc : classScan c (cs ++ [']'] ++ rest) 0 with ⟨found, cnt, temp⟩
          rw [hsc] at h1 h2
          simp only at h1 h2
          have hq := cont_eq f rest ws v hK hr r hr' temp h2
          have hc' : ¬ c = ']' := hc
          by_cases hm : c ∈ cs
          · simp [h1, hm, hq]
          · simp [h1, hm, hc']

theorem step_neg (f v : Nat) (s rest : Str) (ws : List Word) (hK : ContOK f rest ws v)
    (hs : ∀ x ∈ s, x ≠ ' ') (hs0 : at0 s 0 ≠ '\x00') (hsne : s ≠ []) (hr : restOK rest)
    (ts : List Tok) (hts : ∀ t ∈ ts, TokStrOK t = true) (p : Str) (hp : p = '!' :: '!' :: s ++ rest) :
    interpBody f p ts v = langWords (.neg s :: ws) ts v := by
  have hw : ∀ x ∈ '!' :: '!' :: s, x ≠ ' ' := by
    intro x hx
    simp only [List.mem_cons] at hx
    rcases hx with rfl | rfl | hx
    · decide
    · decide
    · exact hs x hx
  have hne : p ≠ [] := by rw [hp]; simp
  have hb0 : at0 p 0 = '!' := by rw [hp]; simp [at0]
  have hb1 : at0 p 1 = '!' := by rw [hp]; simp [at0]
  have hb2 : at0 p 2 ≠ '\x00' := by
    rw [hp]
    cases s with
    | nil => exact absurd rfl hsne
    | cons c s' => simpa [at0] using hs0
  have hskip : skipWord p = rest := by rw [hp]; exact skipWord_word _ rest hw hr
  have hdrop : List.drop 2 p = s ++ rest := by rw [hp]; simp
  cases ts with
  | nil =>
    simp only [interpBody, hne, if_false, hb0, hb1, hb2, ne_eq, not_false_eq_true, and_self, if_true, langWords,
      hskip]
    exact hK.2 [] (by simp)
  | cons t r =>
    have hr' : ∀ t' ∈ r, TokStrOK t' = true := fun t' h' => hts t' (by simp [h'])
    have htc := tokStrOK_iff t (hts t (by simp))
    simp only [interpBody, hne, if_false, hb0, hb1, hb2, show ('!' : Char) ≠ '[' by decide, false_and, ne_eq,
      not_false_eq_true, and_self, if_true, langWords, hdrop]
    rw [firstWordEquals_word rest hr t.str s hs (fun c hc => (htc c hc).1)]
    by_cases he : t.str = s
    · simp [he]
    · have hq := cont_eq f rest ws v hK hr r hr' (s ++ rest) (toSpace_append s rest hs hr)
      simp [he, hq]

/-- a command/literal alternatives word (or a single command/literal) against a token -/
theorem step_multi_cons (f v : Nat) (w rest : Str) (ws : List Word) (hK : ContOK f rest ws v)
    (hw : ∀ x ∈ w, x ≠ ' ') (hr : restOK rest) (hne : w ≠ [])
    (parts : List Str) (hb : bars parts = w) (hok : partsOK parts)
    (hnul : ∀ a ∈ parts, ∀ c ∈ a, c ≠ '\x00')
    (hncls : ¬(at0 (w ++ rest) 0 = '[' ∧ chrInFirstWord ']' (w ++ rest) = true))
    (hnbang : ¬(at0 (w ++ rest) 0 = '!' ∧ at0 (w ++ rest) 1 = '!' ∧ at0 (w ++ rest) 2 ≠ '\x00'))
    (t : Tok) (r : List Tok) (hts : ∀ t' ∈ t :: r, TokStrOK t' = true) :
    interpBody f (w ++ rest) (t :: r) v =
      match altsR ((parts.filter (· ≠ [])).map Atom.ofStr) t v with
      | .t => langWords ws r v
      | .err => .err
      | .f => if parts.any (· = []) then langWords ws (t :: r) v else .f := by
  have hne' : w ++ rest ≠ [] := by simp [hne]
  have hr' : ∀ t' ∈ r, TokStrOK t' = true := fun t' h' => hts t' (by simp [h'])
  have hmc := multiCompare_parts t v (hts t (by simp)) rest hr parts hok hnul
  rw [hb] at hmc
  simp only [interpBody, hne', if_false, hncls, hnbang, hmc]
  cases h1 : altsR ((parts.filter (· ≠ [])).map Atom.ofStr) t v with
  | t =>
    simp only
    exact cont_eq f rest ws v hK hr r hr' (w ++ rest) (toSpace_append w rest hw hr)
  | err => simp only
  | f =>
    simp only
    by_cases h2 : parts.any (· = []) = true
    · simp only [h2, if_true]
      by_cases h3 : t.str = [] ∧ rest = []
      · -- empty token text at the very end of the pattern: 1 instead of 0, same verdict
        simp only [h3, and_self, decide_true, if_true]
        rw [toSpace_word w [] hw (by simp [restOK])]
        simp [hK.1 h3.2, langWords]
      · simp only [h3, decide_false, Bool.false_eq_true, if_false]
        rw [skipWord_word w rest hw hr]
        exact hK.2 (t :: r) hts
    · simp only [h2, Bool.false_eq_true, if_false]

theorem step_multi_nil (f v : Nat) (w rest : Str) (ws : List Word) (hK : ContOK f rest ws v)
    (hw : ∀ x ∈ w, x ≠ ' ') (hr : restOK rest) (hne : w ≠ [])
    (hncls : ¬(at0 (w ++ rest) 0 = '[' ∧ chrInFirstWord ']' (w ++ rest) = true))
    (hnbang : ¬(at0 (w ++ rest) 0 = '!' ∧ at0 (w ++ rest) 1 = '!' ∧ at0 (w ++ rest) 2 ≠ '\x00')) :
    interpBody f (w ++ rest) [] v =
      if w.length > 1 ∧ w.getLast? = some '|' then langWords ws [] v else .f := by
  have hne' : w ++ rest ≠ [] := by simp [hne]
  simp only [interpBody, hne', if_false, hnbang, hncls, not_false_eq_true, true_and,
    takeWhile_word w rest hw hr, skipWord_word w rest hw hr]
  by_cases h : w.length > 1 ∧ w.getLast? = some '|'
  · simp only [h, and_self, if_true]
    exact hK.2 [] (by simp)
  · simp only [h, if_false]

theorem alts_opt (w : Str) (hok : partsOK (splitOn '|' w)) (hmem : '|' ∈ w) :
    ((splitOn '|' w).any (· = []) = true ↔ (w.length > 1 ∧ w.getLast? = some '|')) := by
  obtain ⟨a, b, r, hs⟩ := splitOn_two '|' w hmem
  have hb := bars_splitOn w
  rw [hs] at hok hb ⊢
  simp only [partsOK] at hok
  have hae := isCmdOrPlain_ne_nil a hok.1
  have hopt := parts_opt (b :: r) hok.2
  rw [← hb]
  simp only [bars, List.any_cons, hae, decide_false, Bool.false_or]
  simp only [List.any_cons] at hopt
  rw [hopt, List.getLast?_append]
  have hlen : (a ++ '|' :: bars (b :: r)).length > 1 := by
    cases a with
    | nil => exact absurd rfl hae
    | cons x a' => simp; omega
  cases hg : ('|' :: bars (b :: r)).getLast? with
  | none => simp at hg
  | some z =>
    simp
    intro _
    have := hlen
    simp at this
    omega

theorem take_two_eq (w : Str) (a b : Char) (h : w.take 2 = [a, b]) : w = a :: b :: w.drop 2 := by
  cases w with
  | nil => simp at h
  | cons x w =>
    cases w with
    | nil => simp at h
    | cons y w => simp at h; simp [h.1, h.2]

/-- **main induction**: the interpreter loop on `p0` computes the language on `parse p0`, the
    InternalError under varid 0 included -/
theorem interpLoop_eq (v : Nat) : ∀ (f : Nat) (p0 : Str) (ts : List Tok), p0.length < f →
    patternWF p0 = true → noNul p0 = true → (∀ t ∈ ts, TokStrOK t = true) →
    interpLoop f p0 ts v = langWords (parse p0) ts v := by
  intro f
  induction f with
  | zero => intro p0 ts h; omega
  | succ f ih =>
    intro p0 ts hlen hwf hnul hts
    rw [interpLoop_succ]
    have hwp := words_skipSpaces p0
    have hhead := skipSpaces_head p0
    have hplen := skipSpaces_length p0
    have hpmem := skipSpaces_mem p0
    generalize skipSpaces p0 = p at hwp hhead hplen hpmem
    by_cases hpe : p = []
    · subst hpe
      have : parse p0 = [] := by simp [parse, ← hwp, words_nil]
      simp [interpBody, this, langWords]
    · obtain ⟨hsplit, hrest, hwsp⟩ := first_word p
      have hwne := takeWhile_ne_nil p hpe hhead
      generalize p.takeWhile (· ≠ ' ') = w at hsplit hwsp hwne
      generalize skipWord p = rest at hsplit hrest
      subst hsplit
      have hwords : words p0 = w :: words rest := by rw [← hwp]; exact words_first w rest hwne hwsp hrest
      have hparse : parse p0 = Word.ofStr w :: parse rest := by simp [parse, hwords]
      have hwf' : wordWF w = true ∧ patternWF rest = true := by
        simpa [patternWF, hwords] using hwf
      have hnul0 : ∀ c ∈ p0, c ≠ '\x00' := by simpa [noNul] using hnul
      have hnulw : ∀ c ∈ w, c ≠ '\x00' := fun c hc => hnul0 c (hpmem c (by simp [hc]))
      have hnulr : noNul rest = true := by
        simp only [noNul, List.all_eq_true, decide_eq_true_eq]
        exact fun c hc => hnul0 c (hpmem c (by simp [hc]))
      have hlenr : rest.length < f := by
        have : 0 < w.length := List.length_pos_iff.mpr hwne
        simp only [List.length_append] at hplen
        omega
      have hK : ContOK f rest (parse rest) v :=
        ⟨fun e => by rw [e]; simp [parse, words_nil],
         fun ts' hts' => ih rest ts' hlenr hwf'.2 hnulr hts'⟩
      rw [hparse]
      have hwfw := hwf'.1
      unfold wordWF at hwfw
      by_cases hc : clsCond w
      · -- `[..]`
        obtain ⟨cs, _, hweq, hcs⟩ := cls_shape w hc
        rw [ofStr_cls w hc, hcs]
        have hcsp : ∀ x ∈ cs, x ≠ ' ' := fun x hx => hwsp x (by rw [hweq]; simp [hx])
        rw [hweq]
        exact step_cls f v cs rest (parse rest) hK hcsp hrest ts hts
      · by_cases ha : altCond w = true
        · -- alternatives
          have hof := ofStr_alts w hc ha
          rw [hof] at hwfw ⊢
          simp only [Bool.and_eq_true, Bool.not_eq_true', decide_eq_false_iff_not] at hwfw
          obtain ⟨⟨⟨h1, h2⟩, h3⟩, h4⟩ := hwfw
          have hok := partsOK_of (splitOn '|' w) h3 h4
          have hmem := altCond_mem w ha
          have hnulp : ∀ a ∈ splitOn '|' w, ∀ c ∈ a, c ≠ '\x00' :=
            fun a ha' c hc' => hnulw c (mem_splitOn '|' w a ha' c hc')
          have hncls := notCls w rest hwsp hrest hwne h2
          have hnbang := notBang w rest hrest h1
          cases ts with
          | nil =>
            rw [step_multi_nil f v w rest (parse rest) hK hwsp hrest hwne hncls hnbang]
            simp only [langWords]
            have := alts_opt w hok hmem
            by_cases ho : (splitOn '|' w).any (· = []) = true
            · rw [if_pos (this.mp ho)]; simp [ho]
            · rw [if_neg (fun h => ho (this.mpr h))]; simp [ho]
          | cons t r =>
            rw [step_multi_cons f v w rest (parse rest) hK hwsp hrest hwne (splitOn '|' w) (bars_splitOn w) hok
              hnulp hncls hnbang t r hts]
            simp only [langWords]
            cases altsR (List.map Atom.ofStr (List.filter (fun x => decide (x ≠ [])) (splitOn '|' w))) t v <;> simp
        · have ha' : altCond w = false := by simpa using ha
          by_cases hb : w.take 2 = ['!', '!']
          · -- `!!s`
            have hof := ofStr_neg w hc ha' hb
            rw [hof] at hwfw ⊢
            simp only [Bool.and_eq_true, decide_eq_true_eq] at hwfw
            have hweq := take_two_eq w '!' '!' hb
            have hsp : ∀ x ∈ w.drop 2, x ≠ ' ' := fun x hx => hwsp x (List.mem_of_mem_drop hx)
            have hs0 : at0 (w.drop 2) 0 ≠ '\x00' := by
              cases hd : w.drop 2 with
              | nil => exact absurd hd hwfw.1
              | cons c s' =>
                rw [at0_cons_zero]
                exact hnulw c (List.mem_of_mem_drop (by rw [hd]; simp))
            exact step_neg f v (w.drop 2) rest (parse rest) hK hsp hs0 hwfw.1 hrest ts hts (w ++ rest)
              (by rw [List.cons_append, List.cons_append, ← List.cons_append, ← List.cons_append, ← hweq])
          · -- a single command / literal
            have hof := ofStr_one w hc ha' hb
            rw [hof] at hwfw ⊢
            simp only [Bool.and_eq_true, Bool.not_eq_true', List.contains_eq_mem, decide_eq_false_iff_not] at hwfw
            obtain ⟨⟨h1, h2⟩, h3⟩ := hwfw
            have hok : partsOK [w] := Or.inr h1
            have hnulp : ∀ a ∈ [w], ∀ c ∈ a, c ≠ '\x00' := by
              intro a ha'' c hc'; simp only [List.mem_singleton] at ha''; subst ha''; exact hnulw c hc'
            have hncls := notCls w rest hwsp hrest hwne (by simpa using h2)
            have hnbang := notBang w rest hrest hb
            cases ts with
            | nil =>
              rw [step_multi_nil f v w rest (parse rest) hK hwsp hrest hwne hncls hnbang]
              have : ¬(w.length > 1 ∧ w.getLast? = some '|') := by
                intro hh
                exact h3 (List.mem_of_getLast? hh.2)
              simp [this, langWords]
            | cons t r =>
              rw [step_multi_cons f v w rest (parse rest) hK hwsp hrest hwne [w] rfl hok
                hnulp hncls hnbang t r hts]
              simp only [langWords, List.filter_cons, hwne, ne_eq, not_false_eq_true, decide_true, if_true,
                List.filter_nil, List.map_cons, List.map_nil, altsR, List.any_cons, List.any_nil,
                decide_false, Bool.or_false, Bool.false_eq_true, if_false]
              cases (Atom.ofStr w).evalR t v <;> rfl

/-- the interpreter on a whole pattern -/
theorem interpB_eq_langWords (p : Str) (ts : List Tok) (v : Nat) (hp : patternWF p = true)
    (hn : noNul p = true) (hts : ∀ t ∈ ts, TokStrOK t = true) :
    interpB p ts v = langWords (parse p) ts v := by
  unfold interpB
  by_cases he : p = []
  · subst he; simp [parse, words_nil, langWords]
  · rw [if_neg he]
    exact interpLoop_eq v (p.length + 1) p ts (by omega) hp hn hts

/-! ## §6 simpleMatch -/

/-- exact word-by-word equality of the token texts with the pattern words -/
def exactWords : List Str → List Tok → Bool
  | [], _ => true
  | _ :: _, [] => false
  | w :: ws, t :: r => t.str = w && exactWords ws r

theorem dropWhile_eq_skipWord (p : Str) : p.dropWhile (· ≠ ' ') = skipWord p := (skipWord_eq p).symm

theorem simpleLoop_eq : ∀ (f : Nat) (cur : Str) (ts : List Tok), cur.length < f →
    (∀ w ∈ splitOn ' ' cur, w ≠ []) →
    simpleLoop f cur ts = exactWords (splitOn ' ' cur) ts := by
  intro f
  induction f with
  | zero => intro cur ts h; omega
  | succ f ih =>
    intro cur ts hlen hall
    have hne : cur ≠ [] := by
      intro e; subst e; exact hall [] (by simp [splitOn]) rfl
    obtain ⟨hsplit, hrest, hwsp⟩ := first_word cur
    simp only [simpleLoop, hne, if_false, dropWhile_eq_skipWord]
    generalize cur.takeWhile (· ≠ ' ') = w at hsplit hwsp
    generalize skipWord cur = rest at hsplit hrest
    subst hsplit
    cases rest with
    | nil =>
      rw [List.append_nil, splitOn_nosep ' ' w hwsp]
      cases ts with
      | nil => simp [exactWords]
      | cons t r =>
        by_cases he : t.str = w <;> simp [exactWords, he]
    | cons c rest' =>
      simp only [restOK] at hrest
      subst hrest
      rw [splitOn_append_sep ' ' w rest' hwsp] at hall ⊢
      cases ts with
      | nil => simp [exactWords]
      | cons t r =>
        by_cases he : t.str = w
        · simp only [exactWords, he, ne_eq, not_true_eq_false, if_false, decide_true, Bool.true_and]
          exact ih rest' r (by simp at hlen; omega) (fun w' hw' => hall w' (by simp [hw']))
        · simp [exactWords, he]

theorem simplePatternWF_iff (p : Str) (h : simplePatternWF p = true) :
    p ≠ [] ∧ ∀ w ∈ splitOn ' ' p, w ≠ [] ∧ ∃ s, Word.ofStr w = .one (.lit s) := by
  simp only [simplePatternWF, Bool.and_eq_true, decide_eq_true_eq, List.all_eq_true] at h
  refine ⟨h.1, fun w hw => ?_⟩
  have := h.2 w hw
  refine ⟨this.1, ?_⟩
  have h2 := this.2
  split at h2
  · exact ⟨_, by assumption⟩
  · exact absurd h2 (by simp)

theorem words_of_simple (p : Str) (h : simplePatternWF p = true) : words p = splitOn ' ' p := by
  obtain ⟨_, hw⟩ := simplePatternWF_iff p h
  simp only [words, List.filter_eq_self, decide_eq_true_eq]
  exact fun w hw' => (hw w hw').1

/-- `simpleMatch` = exact word equality -/
theorem simpleMatchB_eq_words (p : Str) (ts : List Tok) (h : simplePatternWF p = true) :
    simpleMatchB p ts = exactWords (words p) ts := by
  obtain ⟨hne, _⟩ := simplePatternWF_iff p h
  rw [words_of_simple p h]
  unfold simpleMatchB
  cases ts with
  | nil =>
    cases hs : splitOn ' ' p with
    | nil => exact absurd hs (splitOn_ne_nil _ _)
    | cons a as => simp [exactWords]
  | cons t r =>
    exact simpleLoop_eq (p.length + 1) p (t :: r) (by omega)
      (fun w hw => ((simplePatternWF_iff p h).2 w hw).1)

theorem ofStr_one_lit (w s : Str) (h : Word.ofStr w = .one (.lit s)) : s = w := by
  by_cases hc : clsCond w
  · rw [ofStr_cls w hc] at h; exact absurd h (by simp)
  · by_cases ha : altCond w = true
    · rw [ofStr_alts w hc ha] at h; exact absurd h (by simp)
    · have ha' : altCond w = false := by simpa using ha
      by_cases hb : w.take 2 = ['!', '!']
      · rw [ofStr_neg w hc ha' hb] at h; exact absurd h (by simp)
      · rw [ofStr_one w hc ha' hb] at h
        simp only [Word.one.injEq] at h
        unfold Atom.ofStr at h
        cases hcmd : Cmd.ofStr w with
        | some c => rw [hcmd] at h; exact absurd h (by simp)
        | none => rw [hcmd] at h; simp only [Atom.lit.injEq] at h; exact h.symm

/-- the documented language on literal-only words = exact word equality -/
theorem semWords_lits (v : Nat) : ∀ (ws : List Str) (ts : List Tok),
    (∀ w ∈ ws, ∃ s, Word.ofStr w = .one (.lit s)) →
    semWords (ws.map Word.ofStr) ts v = exactWords ws ts := by
  intro ws
  induction ws with
  | nil => intro ts _; simp [semWords, exactWords]
  | cons w ws ih =>
    intro ts h
    obtain ⟨s, hs⟩ := h w (by simp)
    have hsw := ofStr_one_lit w s hs
    subst hsw
    simp only [List.map_cons, hs]
    cases ts with
    | nil => simp [semWords, exactWords]
    | cons t r =>
      simp only [semWords, exactWords, Atom.eval]
      rw [ih r (fun w' hw' => h w' (by simp [hw']))]

theorem usesVarid_lits : ∀ (ws : List Str), (∀ w ∈ ws, ∃ s, Word.ofStr w = .one (.lit s)) →
    usesVarid (ws.map Word.ofStr) = false := by
  intro ws h
  simp only [usesVarid, List.any_eq_false, List.mem_map]
  rintro _ ⟨w, hw, rfl⟩
  obtain ⟨s, hs⟩ := h w hw
  rw [hs]
  simp

theorem langWords_lits (v : Nat) (ws : List Str) (ts : List Tok)
    (h : ∀ w ∈ ws, ∃ s, Word.ofStr w = .one (.lit s)) :
    langWords (ws.map Word.ofStr) ts v = Res.ofBool (exactWords ws ts) := by
  rw [langWords_eq_semWords v _ ts (by
    intro W hW
    obtain ⟨w, hw, rfl⟩ := List.mem_map.1 hW
    obtain ⟨s, hs⟩ := h w hw
    rw [hs]
    simp [wordOk, atomOk]), semWords_lits v ws ts h]

end Cppcheck.Match

import Cppcheck.Model.ScopeProg
/-
C08 — helper lemmas.

Part A  the undo-log table (`VarMap`, repaired replay order) refines the stack of scopes (`Spec`) event by event
        (adapted from DESIGN.md Appendix A; extended by the `::x` map, uses and emitted ids).
Part B  the stack-of-scopes machine run on the events `implProg p` of a scope program equals lexical scoping
        written on the syntax tree (`specProg p`).
-/
namespace Cppcheck.VarMap

/-! ## Part A -/

@[simp] theorem lookup_nil (x : VName) : lookup [] x = none := rfl

@[simp] theorem lookup_cons (y i r x) : lookup ((y, i) :: r) x = if y = x then some i else lookup r x := rfl

@[simp] theorem lookup_setv (m x i y) : lookup (setv m x i) y = if x = y then some i else lookup m y := by
  simp [setv]

theorem lookup_erasev (m : AMap) (x y) : lookup (erasev m x) y = if x = y then none else lookup m y := by
  induction m with
  | nil => simp [erasev]
  | cons p r ih =>
    obtain ⟨a, b⟩ := p
    simp only [erasev, List.filter] at *
    by_cases hax : a = x
    · subst hax
      simp only [ne_eq, not_true_eq_false, decide_false]
      rw [ih]; simp only [lookup_cons]
      by_cases h : a = y <;> simp [h]
    · simp only [ne_eq, hax, not_false_eq_true, decide_true, lookup_cons]
      by_cases hay : a = y
      · subst hay; simp; intro h; exact absurd h.symm hax
      · simp only [hay, if_false]; rw [ih]

theorem lookup_append (a b : AMap) (x) :
    lookup (a ++ b) x = match lookup a x with | some i => some i | none => lookup b x := by
  induction a with
  | nil => simp
  | cons p r ih =>
    obtain ⟨y, i⟩ := p
    simp only [List.cons_append, lookup_cons]
    by_cases h : y = x <;> simp [h, ih]

theorem lookup_undo1 (c p y) : lookup (undo1 c p) y = if p.1 = y then p.2 else lookup c y := by
  obtain ⟨x, o⟩ := p
  cases o with
  | none => simp [undo1, lookup_erasev]
  | some i => simp [undo1]

def Ext (a b : AMap) : Prop := ∀ x, lookup a x = lookup b x

theorem undo1_ext {a b} (h : Ext a b) (p) : Ext (undo1 a p) (undo1 b p) := by
  intro y; simp [lookup_undo1, h y]

theorem foldl_undo1_ext (l : Undo) : ∀ {a b}, Ext a b → Ext (l.foldl undo1 a) (l.foldl undo1 b) := by
  induction l with
  | nil => intro a b h; simpa using h
  | cons p r ih => intro a b h; simp only [List.foldl]; exact ih (undo1_ext h p)

theorem restore_ext {a b} (h : Ext a b) (u) : Ext (restore a u) (restore b u) := foldl_undo1_ext _ h

@[simp] theorem restore_nil (c : AMap) : restore c [] = c := rfl

/-- the key fact about the repaired order: declaring `x` and logging its previous binding LAST, then
replaying newest-first, first undoes exactly that declaration -/
theorem restore_snoc_decl (cur : AMap) (u : Undo) (x i) :
    Ext (restore (setv cur x i) (u ++ [(x, lookup cur x)])) (restore cur u) := by
  unfold restore
  simp only [List.reverse_append, List.reverse_cons, List.reverse_nil, List.nil_append, List.singleton_append,
    List.foldl_cons]
  apply foldl_undo1_ext
  intro y
  simp only [lookup_undo1, lookup_setv]
  by_cases h : x = y <;> simp [h]

/-- the observable value of a lookup: the id written to a token (0 = none / not a variable) -/
def vl (o : Option VId) : VId := o.getD 0

@[simp] theorem vl_none : vl none = 0 := rfl
@[simp] theorem vl_some (i : VId) : vl (some i) = i := rfl

/-- the refinement relation between the table with its undo logs and the stack of scopes -/
def R : AMap → List Undo → List AMap → AMap → Prop
  | cur, [], [], g => ∀ x, vl (lookup cur x) = vl (lookup g x)
  | cur, u :: us, sc :: r, g => (∀ x, vl (lookup cur x) = vl (slookup (sc :: r) g x)) ∧ R (restore cur u) us r g
  | _, _, _, _ => False

theorem R_lookup : ∀ {cur us inner g}, R cur us inner g → ∀ x, vl (lookup cur x) = vl (slookup inner g x)
  | _, [], [], _, h => fun x => by simpa [slookup] using h x
  | _, _ :: _, _ :: _, _, h => h.1
  | _, [], _ :: _, _, h => by simp [R] at h
  | _, _ :: _, [], _, h => by simp [R] at h

theorem R_length : ∀ {cur us inner g}, R cur us inner g → us.length = inner.length
  | _, [], [], _, _ => rfl
  | _, _ :: _, _ :: _, _, h => by simp [R_length h.2]
  | _, [], _ :: _, _, h => by simp [R] at h
  | _, _ :: _, [], _, h => by simp [R] at h

theorem R_ext : ∀ {us inner g a b}, Ext a b → R a us inner g → R b us inner g
  | [], [], _, _, _, e, h => fun x => by rw [← e x]; exact h x
  | u :: us, sc :: r, g, a, b, e, h => ⟨fun x => by rw [← e x]; exact h.1 x, R_ext (restore_ext e u) h.2⟩
  | [], _ :: _, _, _, _, _, h => by simp [R] at h
  | _ :: _, [], _, _, _, _, h => by simp [R] at h

/-- state relation (without the `::x` map) -/
def Rel (m : VarMap) (s : Spec) : Prop := R m.cur m.undo s.inner s.glob ∧ m.next = s.next

theorem Rel_init : Rel VarMap.init Spec.init := ⟨by simp [R, VarMap.init, Spec.init], rfl⟩

/-- `addVariable` logs the previous binding of `x` (none = `VarInfo{}`), whichever branch is taken -/
theorem addVariable_cur (m : VarMap) (x g) : (m.addVariable x g).cur = setv m.cur x (m.next + 1) := by
  unfold VarMap.addVariable
  cases m.undo with
  | nil => rfl
  | cons u us => cases lookup m.cur x <;> rfl

theorem addVariable_next (m : VarMap) (x g) : (m.addVariable x g).next = m.next + 1 := by
  unfold VarMap.addVariable
  cases m.undo with
  | nil => rfl
  | cons u us => cases lookup m.cur x <;> rfl

theorem addVariable_undo (m : VarMap) (x g) :
    (m.addVariable x g).undo = match m.undo with | [] => [] | u :: us => (u ++ [(x, lookup m.cur x)]) :: us := by
  unfold VarMap.addVariable
  cases m.undo with
  | nil => rfl
  | cons u us =>
    cases h : lookup m.cur x <;> simp

theorem addVariable_glob (m : VarMap) (x g) :
    (m.addVariable x g).glob =
      if g = true ∧ (m.undo = [] ∨ lookup m.cur x = none) then setv m.glob x (m.next + 1) else m.glob := by
  unfold VarMap.addVariable
  cases m.undo with
  | nil => cases g <;> simp
  | cons u us =>
    cases h : lookup m.cur x <;> cases g <;> simp

/-- the side condition of the event `hide x`: no variable named `x` is visible (what `noVarHidden` checks) -/
def hideOK (s : Spec) : Op → Prop
  | .hide x => vl (slookup s.inner s.glob x) = 0
  | _ => True

theorem slookup_setv_top (sc : AMap) (r : List AMap) (g : AMap) (x i y) :
    slookup (setv sc x i :: r) g y = if x = y then some i else slookup (sc :: r) g y := by
  simp only [slookup, lookup_setv]
  by_cases h : x = y <;> simp [h]

theorem step_refines (m s) (h : Rel m s) (o : Op) (ho : hideOK s o) : Rel (step m o) (sstep s o) := by
  obtain ⟨hR, hn⟩ := h
  cases o with
  | enter =>
    refine ⟨?_, hn⟩
    simp only [step, stepWith, sstep, R]
    refine ⟨fun x => ?_, ?_⟩
    · simp [slookup, R_lookup hR x]
    · simpa using hR
  | leave =>
    cases hu : m.undo with
    | nil =>
      cases hi : s.inner with
      | nil => simpa [step, stepWith, sstep, hu, hi, Rel] using ⟨by simpa [hu, hi] using hR, hn⟩
      | cons sc r => rw [hu, hi] at hR; simp [R] at hR
    | cons u us =>
      cases hi : s.inner with
      | nil => rw [hu, hi] at hR; simp [R] at hR
      | cons sc r =>
        rw [hu, hi] at hR
        simpa [step, stepWith, sstep, hu, hi, Rel] using ⟨hR.2, hn⟩
  | use x => simpa [step, stepWith, sstep, Rel] using ⟨hR, hn⟩
  | guse x => simpa [step, stepWith, sstep, Rel] using ⟨hR, hn⟩
  | skip => simpa [step, stepWith, sstep, Rel] using ⟨hR, hn⟩
  | hide x =>
    simp only [hideOK] at ho
    refine ⟨?_, by simp only [step, stepWith, sstep]; cases s.inner <;> exact hn⟩
    simp only [step, stepWith]
    cases hu : m.undo with
    | nil =>
      cases hi : s.inner with
      | nil =>
        rw [hu, hi] at hR
        rw [hi] at ho
        simp only [sstep, hi, R]
        intro y
        by_cases hxy : x = y
        · subst hxy; simpa [slookup] using (hR x).trans ho
        · simpa [hxy] using hR y
      | cons sc r => rw [hu, hi] at hR; simp [R] at hR
    | cons u us =>
      cases hi : s.inner with
      | nil => rw [hu, hi] at hR; simp [R] at hR
      | cons sc r =>
        rw [hu, hi] at hR
        rw [hi] at ho
        simp only [sstep, hi, R]
        refine ⟨fun y => ?_, hR.2⟩
        rw [slookup_setv_top]
        by_cases hxy : x = y
        · subst hxy; simpa using (hR.1 x).trans ho
        · simpa [hxy] using hR.1 y
  | decl x g =>
    refine ⟨?_, by simp [step, stepWith, sstep, addVariable_next, hn]; cases s.inner <;> simp⟩
    simp only [step, stepWith, addVariable_cur, addVariable_undo]
    cases hu : m.undo with
    | nil =>
      cases hi : s.inner with
      | nil =>
        rw [hu, hi] at hR
        simp only [sstep, hi, R]
        intro y
        by_cases hxy : x = y
        · simp [hxy, hn]
        · simpa [hxy] using hR y
      | cons sc r => rw [hu, hi] at hR; simp [R] at hR
    | cons u us =>
      cases hi : s.inner with
      | nil => rw [hu, hi] at hR; simp [R] at hR
      | cons sc r =>
        rw [hu, hi] at hR
        simp only [sstep, hi, R]
        refine ⟨fun y => ?_, ?_⟩
        · rw [slookup_setv_top]
          by_cases hxy : x = y
          · simp [hxy, hn]
          · simpa [hxy] using hR.1 y
        · exact R_ext (fun y => (restore_snoc_decl m.cur u x (m.next + 1) y).symm) hR.2

theorem noVarHidden_cons (s : Spec) (o : Op) (r : List Op) (h : noVarHidden s (o :: r) = true) :
    hideOK s o ∧ noVarHidden (sstep s o) r = true := by
  simp only [noVarHidden, Bool.and_eq_true] at h
  refine ⟨?_, h.2⟩
  cases o with
  | hide x => simpa [hideOK, vl] using h.1
  | _ => trivial

theorem noVarHidden_of_noHide (ops : List Op) : ∀ s, noHide ops = true → noVarHidden s ops = true := by
  induction ops with
  | nil => intro s _; rfl
  | cons o r ih =>
    intro s h
    cases o <;> simp_all [noHide, noVarHidden]

theorem exec_refines (ops : List Op) : ∀ m s, Rel m s → noVarHidden s ops = true → Rel (exec m ops) (sexec s ops) := by
  induction ops with
  | nil => intro m s h _; simpa [exec, execWith, sexec] using h
  | cons o r ih =>
    intro m s h hv
    obtain ⟨h1, h2⟩ := noVarHidden_cons s o r hv
    have := ih _ _ (step_refines m s h o h1) h2
    simpa [exec, execWith, sexec, step] using this

/-- the `::x` map agrees with file scope wherever file scope binds a VARIABLE -/
def GRel (mg sg : AMap) : Prop := ∀ x, vl (lookup sg x) ≠ 0 → lookup mg x = lookup sg x

/-- a name hidden by an enumerator in some scope has no variable beneath it (consequence of `noVarHidden`) -/
def Inv : List AMap → AMap → Prop
  | [], _ => True
  | sc :: r, g => (∀ x, lookup sc x = some 0 → vl (slookup r g x) = 0) ∧ Inv r g

theorem Inv_glob : ∀ {inner g x}, Inv inner g → vl (slookup inner g x) = 0 → vl (lookup g x) = 0
  | [], _, _, _, h => by simpa [slookup] using h
  | sc :: r, g, x, hi, h => by
    simp only [slookup] at h
    cases hs : lookup sc x with
    | none => rw [hs] at h; exact Inv_glob hi.2 h
    | some i =>
      rw [hs] at h
      simp only [vl_some] at h
      subst h
      exact Inv_glob hi.2 (hi.1 x hs)

theorem Inv_step (s : Spec) (o : Op) (hi : Inv s.inner s.glob) (ho : hideOK s o) :
    Inv (sstep s o).inner (sstep s o).glob := by
  cases o with
  | enter => exact ⟨fun x hx => by simp at hx, hi⟩
  | leave =>
    cases h : s.inner with
    | nil => simpa [sstep, h] using (h ▸ hi : Inv [] s.glob)
    | cons sc r => rw [h] at hi; simpa [sstep, h] using hi.2
  | use x => exact hi
  | guse x => exact hi
  | skip => exact hi
  | decl x g =>
    cases h : s.inner with
    | nil => simp [sstep, h, Inv]
    | cons sc r =>
      rw [h] at hi
      simp only [sstep, h, Inv]
      refine ⟨fun y hy => ?_, hi.2⟩
      simp only [lookup_setv] at hy
      by_cases hxy : x = y
      · simp [hxy] at hy
      · simp only [hxy, if_false] at hy; exact hi.1 y hy
  | hide x =>
    simp only [hideOK] at ho
    cases h : s.inner with
    | nil => simp [sstep, h, Inv]
    | cons sc r =>
      rw [h] at hi ho
      simp only [sstep, h, Inv]
      refine ⟨fun y hy => ?_, hi.2⟩
      simp only [lookup_setv] at hy
      by_cases hxy : x = y
      · subst hxy
        simp only [slookup] at ho
        cases hs : lookup sc x with
        | none => rw [hs] at ho; exact ho
        | some i =>
          rw [hs] at ho
          simp only [vl_some] at ho
          subst ho
          exact hi.1 x hs
      · simp only [hxy, if_false] at hy; exact hi.1 y hy

theorem run_refines_aux (ops : List Op) :
    ∀ (m : VarMap) (s : Spec) (fs : List VName), Rel m s → GRel m.glob s.glob → Inv s.inner s.glob →
      (∀ x ∈ fs, vl (lookup s.glob x) ≠ 0) → globalOK s.inner.length fs ops = true → noVarHidden s ops = true →
      run m ops = srun s ops := by
  induction ops with
  | nil => intro m s fs _ _ _ _ _ _; simp [run, runWith, srun]
  | cons o r ih =>
    intro m s fs hrel hg hinv hfs hok hnv
    obtain ⟨hho, hnv'⟩ := noVarHidden_cons s o r hnv
    have hstep := step_refines m s hrel o hho
    have hinv' := Inv_step s o hinv hho
    obtain ⟨hR, hn⟩ := hrel
    have hlen := R_length hR
    simp only [run, runWith, srun]
    have key : ∀ fs', (∀ x ∈ fs', vl (lookup (sstep s o).glob x) ≠ 0) → GRel (step m o).glob (sstep s o).glob →
        globalOK (sstep s o).inner.length fs' r = true → emit m o = semit s o →
        emit m o ++ runWith restore (stepWith restore m o) r = semit s o ++ srun (sstep s o) r := by
      intro fs' h1 h2 h3 h4
      rw [h4]
      congr 1
      exact ih _ _ fs' hstep h2 hinv' h1 h3 hnv'
    cases o with
    | enter =>
      exact key fs (by simpa [sstep] using hfs) (by simpa [step, stepWith, sstep] using hg)
        (by simpa [sstep, globalOK] using hok) rfl
    | leave =>
      refine key fs ?_ ?_ ?_ rfl
      · cases hi : s.inner <;> simpa [sstep, hi] using hfs
      · cases hu : m.undo <;> cases hi : s.inner <;> simpa [step, stepWith, sstep, hu, hi] using hg
      · cases hi : s.inner <;> simpa [sstep, hi, globalOK] using hok
    | use x =>
      refine key fs (by simpa [sstep] using hfs) (by simpa [step, stepWith, sstep] using hg)
        (by simpa [sstep, globalOK] using hok) ?_
      simpa [emit, semit, vl] using R_lookup hR x
    | guse x =>
      simp only [globalOK, Bool.and_eq_true] at hok
      refine key fs (by simpa [sstep] using hfs) (by simpa [step, stepWith, sstep] using hg)
        (by simpa [sstep] using hok.2) ?_
      have hx : vl (lookup s.glob x) ≠ 0 := hfs x (by simpa using hok.1)
      simp [emit, semit, hg x hx]
    | skip =>
      exact key fs (by simpa [sstep] using hfs) (by simpa [step, stepWith, sstep] using hg)
        (by simpa [sstep, globalOK] using hok) rfl
    | hide x =>
      simp only [hideOK] at hho
      cases hi : s.inner with
      | nil =>
        rw [hi] at hho
        simp only [slookup] at hho
        refine key fs ?_ ?_ (by simpa [sstep, hi, globalOK] using hok) rfl
        · intro y hy
          simp only [sstep, hi, lookup_setv]
          by_cases hxy : x = y
          · subst hxy; exact absurd hho (hfs x hy)
          · simpa [hxy] using hfs y hy
        · intro y hy
          simp only [sstep, hi, lookup_setv] at hy ⊢
          by_cases hxy : x = y
          · simp [hxy] at hy
          · simp only [hxy, if_false] at hy ⊢
            simpa [step, stepWith] using hg y hy
      | cons sc rr =>
        refine key fs (by simpa [sstep, hi] using hfs) ?_ (by simpa [sstep, hi, globalOK] using hok) rfl
        simpa [step, stepWith, sstep, hi] using hg
    | decl x g =>
      cases hi : s.inner with
      | nil =>
        have hu : m.undo = [] := by
          cases hu' : m.undo with
          | nil => rfl
          | cons a b => rw [hu', hi] at hlen; simp at hlen
        simp only [hi, List.length_nil, globalOK, if_true, Bool.and_eq_true] at hok
        refine key (x :: fs) ?_ ?_ ?_ (by simp [emit, semit, hn])
        · intro y hy
          simp only [sstep, hi, lookup_setv]
          by_cases hxy : x = y
          · simp [hxy]
          · simp only [hxy, if_false]
            rcases List.mem_cons.mp hy with h | h
            · exact absurd h.symm hxy
            · exact hfs y h
        · intro y hy
          have hgl : (m.addVariable x g).glob = setv m.glob x (m.next + 1) := by
            rw [addVariable_glob]; simp [hu, hok.1]
          simp only [step, stepWith, hgl, sstep, hi, lookup_setv] at hy ⊢
          by_cases hxy : x = y
          · simp [hxy, hn]
          · simp only [hxy, if_false] at hy ⊢
            exact hg y hy
        · simpa [sstep, hi] using hok.2
      | cons sc rr =>
        simp only [hi, List.length_cons, globalOK, Nat.add_eq_zero_iff, Nat.succ_ne_self, and_false, if_false] at hok
        refine key fs ?_ ?_ ?_ (by simp [emit, semit, hn])
        · simpa [sstep, hi] using hfs
        · intro y hy
          simp only [sstep, hi] at hy
          simp only [step, stepWith, addVariable_glob, sstep, hi]
          split
          · rename_i hc
            have hnone : lookup m.cur x = none := by
              rcases hc.2 with h | h
              · rw [h, hi] at hlen; simp at hlen
              · exact h
            have : vl (lookup s.glob x) = 0 := by
              have h1 := R_lookup hR x
              rw [hnone] at h1
              exact Inv_glob hinv h1.symm
            by_cases hxy : x = y
            · subst hxy; exact absurd this hy
            · simp only [lookup_setv, hxy, if_false]; exact hg y hy
          · exact hg y hy
        · simpa [sstep, hi, globalOK] using hok

theorem noGuse_run (ops : List Op) :
    ∀ (m : VarMap) (s : Spec), Rel m s → noGuse ops = true → noVarHidden s ops = true → run m ops = srun s ops := by
  induction ops with
  | nil => intro m s _ _ _; simp [run, runWith, srun]
  | cons o r ih =>
    intro m s hrel hok hnv
    obtain ⟨hho, hnv'⟩ := noVarHidden_cons s o r hnv
    have hstep := step_refines m s hrel o hho
    simp only [run, runWith, srun]
    have key : noGuse r = true → emit m o = semit s o →
        emit m o ++ runWith restore (stepWith restore m o) r = semit s o ++ srun (sstep s o) r := by
      intro h3 h4
      rw [h4]
      congr 1
      exact ih _ _ hstep h3 hnv'
    cases o with
    | enter => exact key (by simpa [noGuse] using hok) rfl
    | leave => exact key (by simpa [noGuse] using hok) rfl
    | use x => exact key (by simpa [noGuse] using hok) (by simpa [emit, semit, vl] using R_lookup hrel.1 x)
    | guse x => simp [noGuse] at hok
    | skip => exact key (by simpa [noGuse] using hok) rfl
    | hide x => exact key (by simpa [noGuse] using hok) rfl
    | decl x g => exact key (by simpa [noGuse] using hok) (by simp [emit, semit, hrel.2])

/-! ### distinct ids -/

theorem step_next (m : VarMap) (o : Op) :
    (step m o).next = m.next + (match o with | .decl _ _ => 1 | _ => 0) := by
  cases o with
  | enter => rfl
  | leave => simp only [step, stepWith]; cases m.undo <;> rfl
  | decl x g => simp [step, stepWith, addVariable_next]
  | use x => rfl
  | guse x => rfl
  | skip => rfl
  | hide x => rfl

theorem declIds_eq (ops : List Op) : ∀ m : VarMap, declIds m ops = List.range' (m.next + 1) (countDecls ops) := by
  induction ops with
  | nil => intro m; simp [declIds, countDecls]
  | cons o r ih =>
    intro m
    simp only [declIds, ih, step_next]
    cases o with
    | decl x g => simp [countDecls, List.range'_succ]
    | enter => simp [countDecls]
    | leave => simp [countDecls]
    | use x => simp [countDecls]
    | guse x => simp [countDecls]
    | skip => simp [countDecls]
    | hide x => simp [countDecls]

/-! ## Part B: events of a scope program vs lexical scoping on the syntax tree -/

theorem srun_append (a b : List Op) : ∀ s, srun s (a ++ b) = srun s a ++ srun (sexec s a) b := by
  induction a with
  | nil => intro s; simp [srun, sexec]
  | cons o r ih => intro s; simp [srun, sexec, ih, List.append_assoc]

theorem sexec_append (a b : List Op) (s) : sexec s (a ++ b) = sexec (sexec s a) b := by
  simp [sexec, List.foldl_append]

theorem sexec_cons (o : Op) (r : List Op) (s) : sexec s (o :: r) = sexec (sstep s o) r := rfl
theorem srun_cons (o : Op) (r : List Op) (s) : srun s (o :: r) = semit s o ++ srun (sstep s o) r := rfl
@[simp] theorem sexec_nil (s) : sexec s [] = s := rfl
@[simp] theorem srun_nil (s) : srun s [] = [] := rfl

/-- the visible block-scope declarations of a stack of scopes, innermost first -/
def flat (inner : List AMap) : AMap := inner.flatten

theorem slookup_flat : ∀ (inner : List AMap) (g : AMap) (x), slookup inner g x = lookup (flat inner ++ g) x
  | [], g, x => by simp [slookup, flat]
  | sc :: r, g, x => by
    simp only [slookup, flat, List.flatten_cons, List.append_assoc]
    rw [lookup_append]
    cases lookup sc x with
    | some i => rfl
    | none => simpa [flat] using slookup_flat r g x

/-- uses do not change the state; their ids are those of the flat environment -/
theorem sexec_useOps (us : List U) (s : Spec) : sexec s (useOps us) = s := by
  induction us with
  | nil => rfl
  | cons u r ih => cases u <;> simpa [useOps, useOp, sexec_cons, sstep] using ih

theorem srun_useOps (us : List U) (s : Spec) : srun s (useOps us) = useIds (flat s.inner) s.glob us := by
  induction us with
  | nil => rfl
  | cons u r ih =>
    cases u with
    | loc x =>
      simp only [useOps, List.map_cons, useOp, srun_cons, semit, sstep, useIds, useId, slookup_flat]
      simpa [useOps, useIds] using ih
    | glob x =>
      simp only [useOps, List.map_cons, useOp, srun_cons, semit, sstep, useIds, useId]
      simpa [useOps, useIds] using ih

/-- a declaration inside an open scope -/
theorem sexec_declOps (x g init) (sc : AMap) (r : List AMap) (gl : AMap) (n : VId) :
    sexec ⟨sc :: r, gl, n⟩ (declOps x g init) = ⟨((x, n + 1) :: sc) :: r, gl, n + 1⟩ := by
  simp [declOps, sexec_cons, sstep, sexec_useOps, setv]

theorem srun_declOps (x g init) (sc : AMap) (r : List AMap) (gl : AMap) (n : VId) :
    srun ⟨sc :: r, gl, n⟩ (declOps x g init) = (specDecl (flat (sc :: r)) gl n x init).out := by
  simp [declOps, srun_cons, semit, sstep, srun_useOps, specDecl, setv, flat]

/-- `enum { x = e };` : for the stack of scopes only the final `hide x` has an effect -/
theorem sexec_enumOps (x : VName) (init : List U) (st : List AMap) (gl : AMap) (n : VId) :
    sexec ⟨st, gl, n⟩ (enumOps x init) = sstep ⟨st, gl, n⟩ (.hide x) := by
  simp [enumOps, sexec_cons, sexec_append, sexec_useOps, sstep]

theorem srun_enumOps (x : VName) (init : List U) (st : List AMap) (gl : AMap) (n : VId) :
    srun ⟨st, gl, n⟩ (enumOps x init) = 0 :: useIds (flat st) gl init := by
  simp [enumOps, srun_cons, srun_append, sexec_useOps, srun_useOps, sstep, semit, flat]

/-- what a statement list does to the machine: it adds `decls` on top of the current scope -/
def Sim (ops : List Op) (res : SRes) (sc : AMap) (r : List AMap) (gl : AMap) (n : VId) : Prop :=
  sexec ⟨sc :: r, gl, n⟩ ops = ⟨(res.decls ++ sc) :: r, gl, res.next⟩ ∧ srun ⟨sc :: r, gl, n⟩ ops = res.out

theorem sim_cond (c : Cond) (sc r gl n) : Sim (condOps c) (specCond (flat (sc :: r)) gl n c) sc r gl n := by
  cases c with
  | expr us => exact ⟨by simp [condOps, specCond, sexec_useOps], by simp [condOps, specCond, srun_useOps]⟩
  | decl x init =>
    exact ⟨by simp [condOps, specCond, sexec_declOps, specDecl], by simp [condOps, specCond, srun_declOps]⟩

theorem sim_forInit (i : ForInit) (sc r gl n) :
    Sim (forInitOps i) (specForInit (flat (sc :: r)) gl n i) sc r gl n := by
  cases i with
  | none => exact ⟨by simp [forInitOps, specForInit], by simp [forInitOps, specForInit]⟩
  | expr us => exact ⟨by simp [forInitOps, specForInit, sexec_useOps], by simp [forInitOps, specForInit, srun_useOps]⟩
  | decl x init =>
    exact ⟨by simp [forInitOps, specForInit, sexec_declOps, specDecl], by simp [forInitOps, specForInit, srun_declOps]⟩

theorem flat_cons_nil (l : List AMap) : flat ([] :: l) = flat l := by simp [flat]
theorem flat_cons_append (d sc : AMap) (r : List AMap) : flat ((d ++ sc) :: r) = d ++ flat (sc :: r) := by
  simp [flat]

theorem Sim.nil (sc r gl n) : Sim [] ⟨[], [], n⟩ sc r gl n := ⟨by simp, by simp⟩

theorem Sim.seq {a b : List Op} {ra rb : SRes} {sc r gl n}
    (h1 : Sim a ra sc r gl n) (h2 : Sim b rb (ra.decls ++ sc) r gl ra.next) :
    Sim (a ++ b) ⟨ra.out ++ rb.out, rb.decls ++ ra.decls, rb.next⟩ sc r gl n := by
  constructor
  · rw [sexec_append, h1.1, h2.1]; simp [List.append_assoc]
  · rw [srun_append, h1.2, h1.1, h2.2]

theorem Sim.uses (us : List U) (sc r gl n) : Sim (useOps us) ⟨useIds (flat (sc :: r)) gl us, [], n⟩ sc r gl n :=
  ⟨by simp [sexec_useOps], by simp [srun_useOps]⟩

/-- entering a scope, running events that only add to the new scope, leaving it -/
theorem Sim.scope {a : List Op} {ra : SRes} {sc r gl n}
    (h : Sim a ra [] (sc :: r) gl n) : Sim (.enter :: a ++ [.leave]) ⟨ra.out, [], ra.next⟩ sc r gl n := by
  constructor
  · have : sexec ⟨sc :: r, gl, n⟩ (.enter :: a ++ [.leave]) = sexec (sexec ⟨[] :: sc :: r, gl, n⟩ a) [.leave] := by
      rw [List.cons_append, sexec_cons, sexec_append]; rfl
    rw [this, h.1]; simp [sexec_cons, sstep]
  · have : srun ⟨sc :: r, gl, n⟩ (.enter :: a ++ [.leave]) =
        srun ⟨[] :: sc :: r, gl, n⟩ a ++ srun (sexec ⟨[] :: sc :: r, gl, n⟩ a) [.leave] := by
      rw [List.cons_append, srun_cons, srun_append]; rfl
    rw [this, h.2]; simp [srun_cons, semit]

theorem Sim.congr {a a' : List Op} {ra ra' : SRes} {sc r gl n} (h : Sim a ra sc r gl n) (ha : a = a') (hr : ra = ra') :
    Sim a' ra' sc r gl n := by subst ha; subst hr; exact h

mutual
theorem sim_stmt : ∀ (s : Stmt) (sc : AMap) (r : List AMap) (gl : AMap) (n : VId) (env : AMap), env = flat (sc :: r) →
    Sim (implStmt s) (specStmt env gl n s) sc r gl n
  | .decl x init, sc, r, gl, n, env, he => by
    subst he
    exact ⟨by simp [implStmt, specStmt, sexec_declOps, specDecl], by simp [implStmt, specStmt, srun_declOps]⟩
  | .expr us, sc, r, gl, n, env, he => by
    subst he
    simpa [implStmt, specStmt] using Sim.uses us sc r gl n
  | .block b, sc, r, gl, n, env, he => by
    have hb := sim_stmts b [] (sc :: r) gl n env (by simp [he, flat])
    exact (Sim.scope hb).congr (by simp [implStmt]) (by simp [specStmt])
  | .ifs c t, sc, r, gl, n, env, he => by
    have hc : Sim (condOps c) (specCond env gl n c) [] (sc :: r) gl n := by
      have := sim_cond c [] (sc :: r) gl n
      rwa [flat_cons_nil, ← he] at this
    have ht := sim_stmts t [] (((specCond env gl n c).decls ++ []) :: sc :: r) gl (specCond env gl n c).next
      ((specCond env gl n c).decls ++ env) (by simp [he, flat])
    exact (Sim.scope (Sim.seq hc (Sim.scope ht))).congr (by simp [implStmt]) (by simp [specStmt])
  | .ifelse c t e, sc, r, gl, n, env, he => by
    have hc : Sim (condOps c) (specCond env gl n c) [] (sc :: r) gl n := by
      have := sim_cond c [] (sc :: r) gl n
      rwa [flat_cons_nil, ← he] at this
    have ht := sim_stmts t [] (((specCond env gl n c).decls ++ []) :: sc :: r) gl (specCond env gl n c).next
      ((specCond env gl n c).decls ++ env) (by simp [he, flat])
    have hs1 := Sim.seq hc (Sim.scope ht)
    have hel := sim_stmts e [] (((specCond env gl n c).decls ++ []) :: sc :: r) gl
      (specStmts ((specCond env gl n c).decls ++ env) gl (specCond env gl n c).next t).next
      ((specCond env gl n c).decls ++ env) (by simp [he, flat])
    have hs2 := Sim.seq hs1 (by simpa using Sim.scope hel)
    exact (Sim.scope hs2).congr (by simp [implStmt]) (by simp [specStmt])
  | .whiles c b, sc, r, gl, n, env, he => by
    have hc : Sim (condOps c) (specCond env gl n c) [] (sc :: r) gl n := by
      have := sim_cond c [] (sc :: r) gl n
      rwa [flat_cons_nil, ← he] at this
    have hb := sim_stmts b ((specCond env gl n c).decls ++ []) (sc :: r) gl (specCond env gl n c).next
      ((specCond env gl n c).decls ++ env) (by simp [he, flat])
    exact (Sim.scope (Sim.seq hc hb)).congr (by simp [implStmt]) (by simp [specStmt])
  | .dowhile b c, sc, r, gl, n, env, he => by
    have hb := sim_stmts b [] (sc :: r) gl n env (by simp [he, flat])
    have hu := Sim.uses c ([] ++ sc) r gl (specStmts env gl n b).next
    have := Sim.seq (Sim.scope hb) hu
    exact this.congr (by simp [implStmt]) (by simp [specStmt, he])
  | .fors i c s b, sc, r, gl, n, env, he => by
    have hi : Sim (forInitOps i) (specForInit env gl n i) [] (sc :: r) gl n := by
      have := sim_forInit i [] (sc :: r) gl n
      rwa [flat_cons_nil, ← he] at this
    have henv : flat (((specForInit env gl n i).decls ++ []) :: sc :: r) = (specForInit env gl n i).decls ++ env := by
      simp [he, flat]
    have hcu := Sim.uses c ((specForInit env gl n i).decls ++ []) (sc :: r) gl (specForInit env gl n i).next
    have hsu := Sim.uses s ((specForInit env gl n i).decls ++ []) (sc :: r) gl (specForInit env gl n i).next
    rw [henv] at hcu hsu
    have hb := sim_stmts b ((specForInit env gl n i).decls ++ []) (sc :: r) gl (specForInit env gl n i).next
      ((specForInit env gl n i).decls ++ env) henv.symm
    have h1 := Sim.seq hi (by simpa using hcu)
    have h2 := Sim.seq h1 (by simpa using hsu)
    have h3 := Sim.seq h2 (by simpa using hb)
    exact (Sim.scope h3).congr (by simp [implStmt, List.append_assoc]) (by simp [specStmt, List.append_assoc])
  | .enumd x init, sc, r, gl, n, env, he => by
    subst he
    exact ⟨by simp [implStmt, specStmt, sexec_enumOps, sstep, setv], by simp [implStmt, specStmt, srun_enumOps]⟩
theorem sim_stmts : ∀ (b : Stmts) (sc : AMap) (r : List AMap) (gl : AMap) (n : VId) (env : AMap), env = flat (sc :: r) →
    Sim (implStmts b) (specStmts env gl n b) sc r gl n
  | .nil, sc, r, gl, n, env, _ => by simpa [implStmts, specStmts] using Sim.nil sc r gl n
  | .cons s rest, sc, r, gl, n, env, he => by
    have h1 := sim_stmt s sc r gl n env he
    have h2 := sim_stmts rest ((specStmt env gl n s).decls ++ sc) r gl (specStmt env gl n s).next
      ((specStmt env gl n s).decls ++ env) (by simp [he, flat])
    exact (Sim.seq h1 h2).congr (by simp [implStmts]) (by simp [specStmts])
end

theorem sim_params (ps : List VName) : ∀ (sc : AMap) (r : List AMap) (gl : AMap) (n : VId),
    Sim (paramOps ps) (specParams n ps) sc r gl n := by
  induction ps with
  | nil => intro sc r gl n; simpa [paramOps, specParams] using Sim.nil sc r gl n
  | cons p rest ih =>
    intro sc r gl n
    have h := ih ((p, n + 1) :: sc) r gl (n + 1)
    constructor
    · have : sexec ⟨sc :: r, gl, n⟩ (paramOps (p :: rest)) = sexec ⟨((p, n + 1) :: sc) :: r, gl, n + 1⟩ (paramOps rest) := by
        simp [paramOps, sexec_cons, sstep, setv]
      rw [this, h.1]; simp [specParams]
    · have : srun ⟨sc :: r, gl, n⟩ (paramOps (p :: rest)) =
          (n + 1) :: srun ⟨((p, n + 1) :: sc) :: r, gl, n + 1⟩ (paramOps rest) := by
        simp [paramOps, srun_cons, sstep, semit, setv]
      rw [this, h.2]; simp [specParams]

/-- a function-level scope opened at file scope (no enclosing block) -/
theorem scope0 {a : List Op} {ra : SRes} {gl n} (h : Sim a ra [] [] gl n) :
    sexec ⟨[], gl, n⟩ (.enter :: a ++ [.leave]) = ⟨[], gl, ra.next⟩ ∧
    srun ⟨[], gl, n⟩ (.enter :: a ++ [.leave]) = ra.out := by
  constructor
  · have : sexec ⟨[], gl, n⟩ (.enter :: a ++ [.leave]) = sexec (sexec ⟨[[]], gl, n⟩ a) [.leave] := by
      rw [List.cons_append, sexec_cons, sexec_append]; rfl
    rw [this, h.1]; simp [sexec_cons, sstep]
  · have : srun ⟨[], gl, n⟩ (.enter :: a ++ [.leave]) = srun ⟨[[]], gl, n⟩ a ++ srun (sexec ⟨[[]], gl, n⟩ a) [.leave] := by
      rw [List.cons_append, srun_cons, srun_append]; rfl
    rw [this, h.2]; simp [srun_cons, semit]

theorem sim_top (t : Top) (gl : AMap) (n : VId) :
    sexec ⟨[], gl, n⟩ (implTop t) = ⟨[], (specTop gl n t).decls ++ gl, (specTop gl n t).next⟩ ∧
    srun ⟨[], gl, n⟩ (implTop t) = (specTop gl n t).out := by
  cases t with
  | gdecl x init =>
    constructor
    · simp [implTop, declOps, sexec_cons, sstep, sexec_useOps, specTop, setv]
    · simp [implTop, declOps, srun_cons, sstep, semit, srun_useOps, specTop, setv, flat]
  | func ps body =>
    have hp := sim_params ps [] [] gl n
    have hb := sim_stmts body ((specParams n ps).decls ++ []) [] gl (specParams n ps).next (specParams n ps).decls
      (by simp [flat])
    have h := scope0 (Sim.seq hp hb)
    constructor
    · simpa [implTop, specTop, List.append_assoc] using h.1
    · simpa [implTop, specTop, List.append_assoc] using h.2
  | proto ps =>
    have hp := sim_params ps [] [] gl n
    have h := scope0 hp
    constructor
    · simpa [implTop, specTop] using h.1
    · simpa [implTop, specTop] using h.2
  | genum x init =>
    exact ⟨by simp [implTop, specTop, sexec_enumOps, sstep, setv], by simp [implTop, specTop, srun_enumOps, flat]⟩

theorem srun_implProg (p : Prog) : ∀ (gl : AMap) (n : VId), srun ⟨[], gl, n⟩ (implProg p) = specTops gl n p := by
  induction p with
  | nil => intro gl n; rfl
  | cons t r ih =>
    intro gl n
    have h := sim_top t gl n
    simp only [implProg, srun_append, h.1, h.2, specTops, ih]

/-! ### `progOK p` implies `globalOK` of its events -/

theorem globalOK_useOps (us : List U) (d fs rest) :
    globalOK d fs (useOps us ++ rest) = (usOK fs us && globalOK d fs rest) := by
  induction us with
  | nil => simp [useOps, usOK]
  | cons u r ih =>
    cases u with
    | loc x => simpa [useOps, useOp, globalOK, usOK, uOK] using ih
    | glob x =>
      simp only [useOps, List.map_cons, useOp, List.cons_append, globalOK, usOK, List.all_cons, uOK]
      have : globalOK d fs (List.map useOp r ++ rest) = (r.all (uOK fs) && globalOK d fs rest) := by
        simpa [useOps, usOK] using ih
      rw [this, Bool.and_assoc]

theorem globalOK_declOps (x g init) (d fs rest) (hd : d ≠ 0) :
    globalOK d fs (declOps x g init ++ rest) = (usOK fs init && globalOK d fs rest) := by
  simp [declOps, globalOK, hd, globalOK_useOps]

theorem globalOK_condOps (c : Cond) (d fs rest) (hd : d ≠ 0) :
    globalOK d fs (condOps c ++ rest) = (condOK fs c && globalOK d fs rest) := by
  cases c with
  | expr us => simp [condOps, condOK, globalOK_useOps]
  | decl x init => simp [condOps, condOK, globalOK_declOps, hd]

theorem globalOK_forInitOps (i : ForInit) (d fs rest) (hd : d ≠ 0) :
    globalOK d fs (forInitOps i ++ rest) = (forInitOK fs i && globalOK d fs rest) := by
  cases i with
  | none => simp [forInitOps, forInitOK]
  | expr us => simp [forInitOps, forInitOK, globalOK_useOps]
  | decl x init => simp [forInitOps, forInitOK, globalOK_declOps, hd]

theorem globalOK_leave (d fs rest) : globalOK (d + 1) fs (.leave :: rest) = globalOK d fs rest := by
  simp [globalOK]

theorem globalOK_enter (d fs rest) : globalOK d fs (.enter :: rest) = globalOK (d + 1) fs rest := rfl

theorem globalOK_enumOps (x : VName) (init : List U) (d fs rest) :
    globalOK d fs (enumOps x init ++ rest) = (usOK fs init && globalOK d fs rest) := by
  simp only [enumOps, List.cons_append, List.append_assoc, List.nil_append]
  rw [globalOK_enter]
  simp only [globalOK]
  rw [globalOK_useOps, globalOK_leave]
  simp [globalOK]

mutual
theorem globalOK_stmt : ∀ (s : Stmt) (d : Nat) (fs : List VName) (rest : List Op), d ≠ 0 →
    globalOK d fs (implStmt s ++ rest) = (stmtOK fs s && globalOK d fs rest)
  | .decl x init, d, fs, rest, hd => by simp [implStmt, stmtOK, globalOK_declOps, hd]
  | .expr us, d, fs, rest, hd => by simp [implStmt, stmtOK, globalOK_useOps]
  | .block b, d, fs, rest, hd => by
    simp only [implStmt, stmtOK, List.cons_append, List.append_assoc, List.nil_append]
    rw [globalOK_enter, globalOK_stmts b (d + 1) fs _ (by omega), globalOK_leave]
  | .ifs c t, d, fs, rest, hd => by
    simp only [implStmt, stmtOK, List.cons_append, List.append_assoc, List.nil_append]
    rw [globalOK_enter, globalOK_condOps c (d + 1) fs _ (by omega), globalOK_enter,
      globalOK_stmts t (d + 1 + 1) fs _ (by omega), globalOK_leave, globalOK_leave, Bool.and_assoc]
  | .ifelse c t e, d, fs, rest, hd => by
    simp only [implStmt, stmtOK, List.cons_append, List.append_assoc, List.nil_append]
    rw [globalOK_enter, globalOK_condOps c (d + 1) fs _ (by omega), globalOK_enter,
      globalOK_stmts t (d + 1 + 1) fs _ (by omega), globalOK_leave, globalOK_enter,
      globalOK_stmts e (d + 1 + 1) fs _ (by omega), globalOK_leave, globalOK_leave]
    simp only [Bool.and_assoc]
  | .whiles c b, d, fs, rest, hd => by
    simp only [implStmt, stmtOK, List.cons_append, List.append_assoc, List.nil_append]
    rw [globalOK_enter, globalOK_condOps c (d + 1) fs _ (by omega),
      globalOK_stmts b (d + 1) fs _ (by omega), globalOK_leave, Bool.and_assoc]
  | .dowhile b c, d, fs, rest, hd => by
    simp only [implStmt, stmtOK, List.cons_append, List.append_assoc, List.nil_append]
    rw [globalOK_enter, globalOK_stmts b (d + 1) fs _ (by omega), globalOK_leave, globalOK_useOps, Bool.and_assoc]
  | .fors i c s b, d, fs, rest, hd => by
    simp only [implStmt, stmtOK, List.cons_append, List.append_assoc, List.nil_append]
    rw [globalOK_enter, globalOK_forInitOps i (d + 1) fs _ (by omega), globalOK_useOps, globalOK_useOps,
      globalOK_stmts b (d + 1) fs _ (by omega), globalOK_leave]
    simp only [Bool.and_assoc]
  | .enumd x init, d, fs, rest, hd => by simp [implStmt, stmtOK, globalOK_enumOps]
theorem globalOK_stmts : ∀ (b : Stmts) (d : Nat) (fs : List VName) (rest : List Op), d ≠ 0 →
    globalOK d fs (implStmts b ++ rest) = (stmtsOK fs b && globalOK d fs rest)
  | .nil, d, fs, rest, _ => by simp [implStmts, stmtsOK]
  | .cons s r, d, fs, rest, hd => by
    simp only [implStmts, stmtsOK, List.append_assoc]
    rw [globalOK_stmt s d fs _ hd, globalOK_stmts r d fs rest hd, Bool.and_assoc]
end

theorem globalOK_paramOps (ps : List VName) (d fs rest) (hd : d ≠ 0) :
    globalOK d fs (paramOps ps ++ rest) = globalOK d fs rest := by
  induction ps with
  | nil => rfl
  | cons p r ih => simpa [paramOps, globalOK, hd] using ih

theorem globalOK_implProg (p : Prog) : ∀ fs, progOK fs p = true → globalOK 0 fs (implProg p) = true := by
  induction p with
  | nil => intro fs _; rfl
  | cons t r ih =>
    intro fs h
    cases t with
    | gdecl x init =>
      simp only [progOK, Bool.and_eq_true] at h
      simp [implProg, implTop, declOps, globalOK, globalOK_useOps, h.1, ih _ h.2]
    | func ps body =>
      simp only [progOK, Bool.and_eq_true] at h
      simp only [implProg, implTop, List.cons_append, List.append_assoc, globalOK]
      rw [globalOK_paramOps ps 1 fs _ (by omega), globalOK_stmts body 1 fs _ (by omega)]
      simp [globalOK, h.1, ih _ h.2]
    | proto ps =>
      simp only [progOK] at h
      simp only [implProg, implTop, List.cons_append, List.append_assoc, globalOK]
      rw [globalOK_paramOps ps 1 fs _ (by omega)]
      simp [globalOK, ih _ h]
    | genum x init =>
      simp only [progOK, Bool.and_eq_true] at h
      simp only [implProg, implTop]
      rw [globalOK_enumOps]
      simp [h.1, ih _ h.2]

end Cppcheck.VarMap

import Cppcheck.Model.Sarif
/-
Helper lemmas for C26 (SARIF): picojson's string escaping read back by a strict JSON string reader.
-/
namespace Cppcheck.Sarif
open Cppcheck.XmlEsc

theorem hexVal_hexLow : ∀ k, k < 16 → hexVal (hexLow k) = some k := by decide

theorem hexLow_mod (n : Nat) : hexLow n = hexLow (n % 16) := by simp [hexLow]

/-- one escaped byte in front of a readable tail is read back as that byte -/
theorem jsonChar_decode (c : Char) (r ds rest : Str) (h : jsonStrDecode r = some (ds, rest)) :
    jsonStrDecode (jsonChar c ++ r) = some (c :: ds, rest) := by
  unfold jsonChar
  by_cases h1 : c = '"'
  · subst h1; simp [jsonStrDecode, h, unescape1]
  by_cases h2 : c = '\\'
  · subst h2; simp [jsonStrDecode, h, unescape1]
  by_cases h3 : c = '/'
  · subst h3; simp [jsonStrDecode, h, unescape1]
  by_cases h4 : c.toNat = 8
  · have : c = Char.ofNat 8 := by rw [← h4, Char.ofNat_toNat]
    subst this; simp [jsonStrDecode, h, unescape1]
  by_cases h5 : c.toNat = 12
  · have : c = Char.ofNat 12 := by rw [← h5, Char.ofNat_toNat]
    subst this; simp [jsonStrDecode, h, unescape1]
  by_cases h6 : c = '\n'
  · subst h6; simp [jsonStrDecode, h, unescape1]
  by_cases h7 : c = '\r'
  · subst h7; simp [jsonStrDecode, h, unescape1]
  by_cases h8 : c = '\t'
  · subst h8; simp [jsonStrDecode, h, unescape1]
  simp only [h1, h2, h3, h4, h5, h6, h7, h8, if_false]
  by_cases h9 : c.toNat < 0x20 ∨ c.toNat = 0x7f
  · rw [if_pos h9]
    have hn : c.toNat < 256 := by omega
    have e0 : hexVal '0' = some 0 := by decide
    have e1 : hexVal (hexLow (c.toNat / 16)) = some (c.toNat / 16 % 16) := by
      rw [hexLow_mod]; exact hexVal_hexLow _ (Nat.mod_lt _ (by decide))
    have e2 : hexVal (hexLow c.toNat) = some (c.toNat % 16) := by
      rw [hexLow_mod]; exact hexVal_hexLow _ (Nat.mod_lt _ (by decide))
    have hcode : ((0 * 16 + 0) * 16 + c.toNat / 16 % 16) * 16 + c.toNat % 16 = c.toNat := by omega
    simp only [List.cons_append, List.nil_append, jsonStrDecode, e0, e1, e2, h, hcode, hn, if_true, Char.ofNat_toNat]
  · rw [if_neg h9]
    have hge : ¬ c.toNat < 0x20 := fun hh => h9 (Or.inl hh)
    simp only [List.cons_append, List.nil_append]
    rw [jsonStrDecode]
    · simp [hge, h]
    · intro he; exact h1 he
    · intro a b c' d r' he; exact absurd he h2
    · intro e r' he; exact absurd he h2

theorem jsonChars_decode (rest : Str) : ∀ s : Str, jsonStrDecode (s.flatMap jsonChar ++ ('"' :: rest)) = some (s, rest) := by
  intro s
  induction s with
  | nil => simp [jsonStrDecode]
  | cons c r ih =>
    rw [List.flatMap_cons, List.append_assoc]
    exact jsonChar_decode c _ r rest ih

/-- **picojson string escaping is faithful**: whatever bytes `s` holds, a strict JSON string reader decodes
    `serialize_str(s)` back to `s` and stops behind the closing quote -/
theorem jsonStr_decode (s rest : Str) : jsonStrDecode ((jsonStr s).drop 1 ++ rest) = some (s, rest) := by
  have : (jsonStr s).drop 1 ++ rest = s.flatMap jsonChar ++ ('"' :: rest) := by simp [jsonStr]
  rw [this]
  exact jsonChars_decode rest s

/-! ### reading a result back from the tree -/

theorem readLoc_locJson (l : Loc) : readLoc (locJson l) =
    some (l.file, (if l.line < 1 then 1 else l.line), (if l.column < 1 then (1 : Int) else (l.column : Int))) := by
  simp [readLoc, locJson, Json.get, List.lookup, Json.strVal]

theorem readLocs (st : List Loc) : ((st.map locJson).map readLoc).all Option.isSome = true ∧
    (st.map locJson).filterMap readLoc =
      st.map (fun l => (l.file, (if l.line < 1 then 1 else l.line), (if l.column < 1 then (1 : Int) else (l.column : Int)))) := by
  induction st with
  | nil => simp
  | cons l r ih =>
    simp only [List.map_cons, List.all_cons, List.filterMap_cons, readLoc_locJson, Option.isSome_some, Bool.true_and]
    exact ⟨ih.1, by rw [ih.2]⟩

theorem readResult_resultJson (f : Finding) : readResult (resultJson f) = some (expectedResult f) := by
  have hl := readLocs f.stack
  by_cases hh : f.hash ≠ 0
  · simp [readResult, resultJson, Json.get, List.lookup, Json.strVal, hh, S, hl.2, expectedResult, readLoc_locJson]
  · simp [readResult, resultJson, Json.get, List.lookup, Json.strVal, hh, S, hl.2, expectedResult, readLoc_locJson]

theorem ruleJson_id (f : Finding) : ((ruleJson f).get "id").bind Json.strVal = some f.id := by
  simp [ruleJson, Json.get, List.lookup, Json.strVal]

/-- `firstOfId`: ids pairwise distinct, none already seen, and every id of the list is seen or kept -/
theorem firstOfId_spec : ∀ (l : List Finding) (seen : List Str),
    ((firstOfId l seen).map (fun f => f.id)).Nodup ∧
    (∀ i ∈ (firstOfId l seen).map (fun f => f.id), i ∉ seen) ∧
    (∀ f ∈ l, f.id ∈ seen ∨ f.id ∈ (firstOfId l seen).map (fun f => f.id)) := by
  intro l
  induction l with
  | nil => intro seen; simp [firstOfId]
  | cons g r ih =>
    intro seen
    simp only [firstOfId]
    split
    · rename_i hs
      obtain ⟨h1, h2, h3⟩ := ih seen
      refine ⟨h1, h2, ?_⟩
      intro f hf
      simp only [List.mem_cons] at hf
      rcases hf with rfl | hf
      · left; simpa using hs
      · exact h3 f hf
    · rename_i hs
      obtain ⟨h1, h2, h3⟩ := ih (g.id :: seen)
      have hs' : g.id ∉ seen := by simpa using hs
      refine ⟨?_, ?_, ?_⟩
      · rw [List.map_cons, List.nodup_cons]
        exact ⟨fun hm => (h2 _ hm) (by simp), h1⟩
      · intro i hi
        simp only [List.map_cons, List.mem_cons] at hi
        rcases hi with rfl | hi
        · exact hs'
        · exact fun hm => h2 i hi (by simp [hm])
      · intro f hf
        simp only [List.mem_cons] at hf
        rcases hf with rfl | hf
        · right; simp
        · rcases h3 f hf with h | h
          · simp only [List.mem_cons] at h
            rcases h with h | h
            · right; simp [h]
            · left; exact h
          · right; simp only [List.map_cons, List.mem_cons]; right; exact h

end Cppcheck.Sarif

import Cppcheck.Model.Sarif
/-
Helper lemmas for C26 (SARIF): picojson's string escaping read back by a strict JSON string reader.
-/
namespace Cppcheck.Sarif
open Cppcheck.XmlEsc

theorem hexVal_hexLow : ∀ k, k < 16 → hexVal (hexLow k) = some k := by decide

theorem hexLow_mod (n : Nat) : hexLow n = hexLow (n % 16) := by simp [hexLow]

/-- one escaped byte in front of a readable tail is read back as that byte -/
theorem jsonChar_decode (c : Char) (r ds rest : Str) (h : jsonStrDecode r = some (ds, rest)) :
    jsonStrDecode (jsonChar c ++ r) = some (c :: ds, rest) := by
  unfold jsonChar
  by_cases h1 : c = '"'
  · subst h1; simp [jsonStrDecode, h, unescape1]
  by_cases h2 : c = '\\'
  · subst h2; simp [jsonStrDecode, h, unescape1]
  by_cases h3 : c = '/'
  · subst h3; simp [jsonStrDecode, h, unescape1]
  by_cases h4 : c.toNat = 8
  · have : c = Char.ofNat 8 := by rw [← h4, Char.ofNat_toNat]
    subst this; simp [jsonStrDecode, h, unescape1]
  by_cases h5 : c.toNat = 12
  · have : c = Char.ofNat 12 := by rw [← h5, Char.ofNat_toNat]
    subst this; simp [jsonStrDecode, h, unescape1]
  by_cases h6 : c = '\n'
  · subst h6; simp [jsonStrDecode, h, unescape1]
  by_cases h7 : c = '\r'
  · subst h7; simp [jsonStrDecode, h, unescape1]
  by_cases h8 : c = '\t'
  · subst h8; simp [jsonStrDecode, h, unescape1]
  simp only [h1, h2, h3, h4, h5, h6, h7, h8, if_false]
  by_cases h9 : c.toNat < 0x20 ∨ c.toNat = 0x7f
  · rw [if_pos h9]
    have hn : c.toNat < 256 := by omega
    have e0 : hexVal '0' = some 0 := by decide
    have e1 : hexVal (hexLow (c.toNat / 16)) = some (c.toNat / 16 % 16) := by
      rw [hexLow_mod]; exact hexVal_hexLow _ (Nat.mod_lt _ (by decide))
    have e2 : hexVal (hexLow c.toNat) = some (c.toNat % 16) := by
      rw [hexLow_mod]; exact hexVal_hexLow _ (Nat.mod_lt _ (by decide))
    have hcode : ((0 * 16 + 0) * 16 + c.toNat / 16 % 16) * 16 + c.toNat % 16 = c.toNat := by omega
    simp only [List.cons_append, List.nil_append, jsonStrDecode, e0, e1, e2, h, hcode, hn, if_true, Char.ofNat_toNat]
  · rw [if_neg h9]
    have hge : ¬ c.toNat < 0x20 := fun hh => h9 (Or.inl hh)
    simp only [List.cons_append, List.nil_append]
    rw [jsonStrDecode]
    · simp [hge, h]
    · intro he; exact h1 he
    · intro a b c' d r' he; exact absurd he h2
    · intro e r' he; exact absurd he h2

theorem jsonChars_decode (rest : Str) : ∀ s : Str, jsonStrDecode (s.flatMap jsonChar ++ ('"' :: rest)) = some (s, rest) := by
  intro s
  induction s with
  | nil => simp [jsonStrDecode]
  | cons c r ih =>
    rw [List.flatMap_cons, List.append_assoc]
    exact jsonChar_decode c _ r rest ih

/-- **picojson string escaping is faithful**: whatever bytes `s` holds, a strict JSON string reader decodes
    `serialize_str(s)` back to `s` and stops behind the closing quote -/
theorem jsonStr_decode (s rest : Str) : jsonStrDecode ((jsonStr s).drop 1 ++ rest) = some (s, rest) := by
  have : (jsonStr s).drop 1 ++ rest = s.flatMap jsonChar ++ ('"' :: rest) := by simp [jsonStr]
  rw [this]
  exact jsonChars_decode rest s

/-! ### reading a result back from the tree -/

theorem readLoc_locJson (l : Loc) : readLoc (locJson l) =
    some (l.file, (if l.line < 1 then 1 else l.line), (if l.column < 1 then (1 : Int) else (l.column : Int))) := by
  simp [readLoc, locJson, Json.get, List.lookup, Json.strVal]

theorem readLocs (st : List Loc) : ((st.map locJson).map readLoc).all Option.isSome = true ∧
    (st.map locJson).filterMap readLoc =
      st.map (fun l => (l.file, (if l.line < 1 then 1 else l.line), (if l.column < 1 then (1 : Int) else (l.column : Int)))) := by
  induction st with
  | nil => simp
  | cons l r ih =>
    simp only [List.map_cons, List.all_cons, List.filterMap_cons, readLoc_locJson, Option.isSome_some, Bool.true_and]
    exact ⟨ih.1, by rw [ih.2]⟩

/-- the implementation's level mapping is the documented table -/
theorem sarifSeverity_eq_spec (f : Finding) : sarifSeverity f = Spec.level f := by
  unfold sarifSeverity Spec.level
  split
  · rfl
  · rcases f.severity with _ | _ | _ | _ | _ | _ | _ | _ | _ | n <;> simp [levelTable, List.lookup]

theorem readResult_resultJson (f : Finding) : readResult (resultJson f) = some (expectedResult f) := by
  have hl := readLocs f.stack
  have hsev := sarifSeverity_eq_spec f
  by_cases hh : f.hash ≠ 0
  · simp [readResult, resultJson, Json.get, List.lookup, Json.strVal, hh, S, hl.2, expectedResult, readLoc_locJson, hsev]
  · simp [readResult, resultJson, Json.get, List.lookup, Json.strVal, hh, S, hl.2, expectedResult, readLoc_locJson, hsev]

theorem ruleJson_id (f : Finding) : ((ruleJson f).get "id").bind Json.strVal = some f.id := by
  simp [ruleJson, Json.get, List.lookup, Json.strVal]

/-- `firstOfId`: ids pairwise distinct, none already seen, and every id of the list is seen or kept -/
theorem firstOfId_spec : ∀ (l : List Finding) (seen : List Str),
    ((firstOfId l seen).map (fun f => f.id)).Nodup ∧
    (∀ i ∈ (firstOfId l seen).map (fun f => f.id), i ∉ seen) ∧
    (∀ f ∈ l, f.id ∈ seen ∨ f.id ∈ (firstOfId l seen).map (fun f => f.id)) := by
  intro l
  induction l with
  | nil => intro seen; simp [firstOfId]
  | cons g r ih =>
    intro seen
    simp only [firstOfId]
    split
    · rename_i hs
      obtain ⟨h1, h2, h3⟩ := ih seen
      refine ⟨h1, h2, ?_⟩
      intro f hf
      simp only [List.mem_cons] at hf
      rcases hf with rfl | hf
      · left; simpa using hs
      · exact h3 f hf
    · rename_i hs
      obtain ⟨h1, h2, h3⟩ := ih (g.id :: seen)
      have hs' : g.id ∉ seen := by simpa using hs
      refine ⟨?_, ?_, ?_⟩
      · rw [List.map_cons, List.nodup_cons]
        exact ⟨fun hm => (h2 _ hm) (by simp), h1⟩
      · intro i hi
        simp only [List.map_cons, List.mem_cons] at hi
        rcases hi with rfl | hi
        · exact hs'
        · exact fun hm => h2 i hi (by simp [hm])
      · intro f hf
        simp only [List.mem_cons] at hf
        rcases hf with rfl | hf
        · right; simp
        · rcases h3 f hf with h | h
          · simp only [List.mem_cons] at h
            rcases h with h | h
            · right; simp [h]
            · left; exact h
          · right; simp only [List.map_cons, List.mem_cons]; right; exact h

/-! ## whole documents: `jsonParse (serialize j) = some j` -/

/-! ### numbers -/

theorem digitChar_facts : ∀ m, m < 10 → isDigit (Char.ofNat (48 + m)) = true ∧ (Char.ofNat (48 + m)).toNat - 48 = m ∧
    Char.ofNat (48 + m) ≠ '-' := by decide

theorem natDecAux_acc : ∀ (f n : Nat) (acc : Str), natDecAux f n acc = natDecAux f n [] ++ acc := by
  intro f
  induction f with
  | zero => intro n acc; simp [natDecAux]
  | succ f ih =>
    intro n acc
    simp only [natDecAux]
    split
    · simp
    · rw [ih (n / 10) (digitChar n :: acc), ih (n / 10) [digitChar n]]; simp

theorem natOfDigits_snoc (ds : Str) (d : Char) : natOfDigits (ds ++ [d]) = natOfDigits ds * 10 + (d.toNat - 48) := by
  simp [natOfDigits, List.foldl_append]

/-- the digits `natDec` writes: non-empty, all digits, and they spell the number -/
theorem natDecAux_spec : ∀ (f n : Nat), n < f →
    natDecAux f n [] ≠ [] ∧ (∀ c ∈ natDecAux f n [], isDigit c = true) ∧ natOfDigits (natDecAux f n []) = n := by
  intro f
  induction f with
  | zero => intro n h; omega
  | succ f ih =>
    intro n h
    have hd := digitChar_facts (n % 10) (Nat.mod_lt _ (by decide))
    simp only [natDecAux]
    split
    · rename_i h0
      refine ⟨by simp, ?_, ?_⟩
      · intro c hc; simp only [List.mem_singleton] at hc; subst hc; exact hd.1
      · simp only [natOfDigits, List.foldl, digitChar]; rw [hd.2.1]; omega
    · rename_i h0
      have hlt : n / 10 < f := by omega
      obtain ⟨h1, h2, h3⟩ := ih (n / 10) hlt
      rw [natDecAux_acc]
      refine ⟨by simp, ?_, ?_⟩
      · intro c hc
        simp only [List.mem_append, List.mem_singleton] at hc
        rcases hc with hc | hc
        · exact h2 c hc
        · subst hc; exact hd.1
      · rw [natOfDigits_snoc, h3]; simp only [digitChar]; rw [hd.2.1]; omega

theorem natDec_spec (n : Nat) : natDec n ≠ [] ∧ (∀ c ∈ natDec n, isDigit c = true) ∧ natOfDigits (natDec n) = n :=
  natDecAux_spec (n + 1) n (by omega)

def noDigitHead (s : Str) : Prop := ∀ c r, s = c :: r → isDigit c = false

theorem takeWhile_digits (ds rest : Str) (hd : ∀ c ∈ ds, isDigit c = true) (hr : noDigitHead rest) :
    (ds ++ rest).takeWhile isDigit = ds ∧ (ds ++ rest).dropWhile isDigit = rest := by
  induction ds with
  | nil =>
    cases rest with
    | nil => simp
    | cons c r => have := hr c r rfl; simp [List.takeWhile, this]
  | cons d ds ih =>
    have h1 := hd d (by simp)
    have := ih (fun c hc => hd c (by simp [hc]))
    simp [List.takeWhile, h1, this.1, this.2]

theorem parseNum_intDec (n : Int) (rest : Str) (hr : noDigitHead rest) : parseNum (intDec n ++ rest) = some (n, rest) := by
  cases n with
  | ofNat m =>
    obtain ⟨hne, hdig, hval⟩ := natDec_spec m
    obtain ⟨ht, hdr⟩ := takeWhile_digits (natDec m) rest hdig hr
    simp only [intDec]
    cases hnd : natDec m with
    | nil => exact absurd hnd hne
    | cons d ds =>
      have hd1 : isDigit d = true := hdig d (by rw [hnd]; simp)
      have hdm : d ≠ '-' := by intro h; subst h; revert hd1; decide
      rw [hnd] at ht hdr hval
      unfold parseNum
      split
      · rename_i r heq; simp at heq; exact absurd heq.1 hdm
      · rw [ht, hdr, hval]; simp
  | negSucc m =>
    obtain ⟨hne, hdig, hval⟩ := natDec_spec (m + 1)
    obtain ⟨ht, hdr⟩ := takeWhile_digits (natDec (m + 1)) rest hdig hr
    simp only [intDec, List.cons_append]
    unfold parseNum
    simp only [ht, hdr, hval, hne, if_false]
    rfl

def allWs (w : Str) : Prop := ∀ c ∈ w, isJWs c = true

theorem skipWs_append (w : Str) (c : Char) (t : Str) (hw : allWs w) (hc : isJWs c = false) :
    skipWs (w ++ c :: t) = c :: t := by
  induction w with
  | nil => simp [skipWs, hc]
  | cons a w ih =>
    have ha := hw a (by simp)
    simp only [List.cons_append, skipWs, ha, if_true]
    exact ih (fun x hx => hw x (by simp [hx]))

theorem skipWs_cons (c : Char) (t : Str) (hc : isJWs c = false) : skipWs (c :: t) = c :: t := by
  simp [skipWs, hc]

theorem allWs_indentNl (n : Nat) : allWs (indentNl n) := by
  intro c hc
  simp only [indentNl, spaces, List.mem_cons, List.mem_replicate] at hc
  rcases hc with rfl | ⟨_, rfl⟩ <;> decide

/-- a value starts with a byte that is neither white space nor a closing bracket nor a separator -/
def startOK (c : Char) : Prop :=
  isJWs c = false ∧ c ≠ ']' ∧ c ≠ '}' ∧ c ≠ ',' ∧ (c = '"' ∨ c = '[' ∨ c = '{' ∨ ((c = '-' ∨ isDigit c = true) ∧ c ≠ '"' ∧ c ≠ '[' ∧ c ≠ '{'))

theorem digit_facts (c : Char) (hc : c = '-' ∨ isDigit c = true) :
    isJWs c = false ∧ c ≠ ']' ∧ c ≠ '}' ∧ c ≠ ',' ∧ c ≠ '"' ∧ c ≠ '[' ∧ c ≠ '{' := by
  rcases hc with rfl | hd
  · decide
  · simp only [isDigit, Bool.and_eq_true, decide_eq_true_eq] at hd
    have h1 : 48 ≤ c.toNat := hd.1
    have h2 : c.toNat ≤ 57 := hd.2
    refine ⟨?_, ?_, ?_, ?_, ?_, ?_, ?_⟩
    · cases hw : isJWs c with
      | false => rfl
      | true =>
        simp only [isJWs, Bool.or_eq_true, decide_eq_true_eq] at hw
        rcases hw with ((h | h) | h) | h <;> (subst h; revert h1; decide)
    all_goals (intro h; subst h; revert h1 h2; decide)

theorem digit_startOK (c : Char) (h : c = '-' ∨ isDigit c = true) : startOK c := by
  obtain ⟨a, b, c', d, e, f, g⟩ := digit_facts c h
  exact ⟨a, b, c', d, Or.inr (Or.inr (Or.inr ⟨h, e, f, g⟩))⟩

theorem intDec_head (n : Int) : ∃ c t, intDec n = c :: t ∧ (c = '-' ∨ isDigit c = true) := by
  cases n with
  | ofNat m =>
    obtain ⟨hne, hdig, _⟩ := natDec_spec m
    cases hnd : natDec m with
    | nil => exact absurd hnd hne
    | cons d ds => exact ⟨d, ds, by simp [intDec, hnd], Or.inr (hdig d (by rw [hnd]; simp))⟩
  | negSucc m => exact ⟨'-', natDec (m + 1), by simp [intDec], Or.inl rfl⟩

theorem ser_head (v : Json) (ind : Nat) : ∃ c t, ser v ind = c :: t ∧ startOK c := by
  cases v with
  | str s => exact ⟨'"', s.flatMap jsonChar ++ ['"'], by simp [ser, jsonStr], by unfold startOK; decide⟩
  | int n =>
    cases n with
    | ofNat m =>
      obtain ⟨hne, hdig, _⟩ := natDec_spec m
      cases hnd : natDec m with
      | nil => exact absurd hnd hne
      | cons d ds =>
        refine ⟨d, ds, by simp [ser, intDec, hnd], digit_startOK d (Or.inr (hdig d (by rw [hnd]; simp)))⟩
    | negSucc m => exact ⟨'-', natDec (m + 1), by simp [ser, intDec], digit_startOK '-' (Or.inl rfl)⟩
  | arr xs => exact ⟨'[', serArr xs (ind + 1) true ++ (if xs.isEmpty then [] else indentNl ind) ++ [']'], by simp [ser], by unfold startOK; decide⟩
  | obj kvs => exact ⟨'{', serObj kvs (ind + 1) true ++ (if kvs.isEmpty then [] else indentNl ind) ++ ['}'], by simp [ser], by unfold startOK; decide⟩

theorem indentNl_ne (n : Nat) : indentNl n = '\n' :: spaces (2 * n) := rfl

theorem noDigitHead_of_start (c : Char) (t : Str) (h : isDigit c = false) : noDigitHead (c :: t) := by
  intro c' r he; simp at he; rw [← he.1]; exact h

theorem noDigitHead_ws_append (w : Str) (c : Char) (t : Str) (hw : allWs w) (hc : isDigit c = false) : noDigitHead (w ++ c :: t) := by
  cases w with
  | nil => exact noDigitHead_of_start c t hc
  | cons a w' =>
    have ha := hw a (by simp)
    apply noDigitHead_of_start
    cases hd : isDigit a with
    | false => rfl
    | true =>
      simp only [isJWs, Bool.or_eq_true, decide_eq_true_eq] at ha
      rcases ha with ((h | h) | h) | h <;> (subst h; revert hd; decide)

theorem startOK_noDigit_sep : isDigit ',' = false ∧ isDigit ']' = false ∧ isDigit '}' = false := by decide

mutual
theorem parse_ser : (v : Json) → ∀ (ind fuel : Nat) (w rest : Str), (ser v ind).length ≤ fuel → allWs w → noDigitHead rest →
    parseVal fuel (w ++ (ser v ind ++ rest)) = some (v, rest)
  | .str s, ind, fuel, w, rest, hf, hw, hr => by
    cases fuel with
    | zero => simp [ser, jsonStr] at hf
    | succ f =>
      have e : ser (.str s) ind ++ rest = '"' :: (s.flatMap jsonChar ++ '"' :: rest) := by simp [ser, jsonStr]
      rw [e, parseVal, skipWs_append w '"' _ hw (by decide)]
      simp only [if_true]
      rw [jsonChars_decode]
  | .int n, ind, fuel, w, rest, hf, hw, hr => by
    have hi : ser (.int n) ind = intDec n := by simp [ser]
    obtain ⟨c, t, hct, hd⟩ := intDec_head n
    obtain ⟨hws, _, _, _, h1, h2, h3⟩ := digit_facts c hd
    cases fuel with
    | zero => rw [hi, hct] at hf; simp at hf
    | succ f =>
      rw [hi, hct, List.cons_append, parseVal, skipWs_append w c _ hw hws]
      simp only [h1, h2, h3, if_false]
      have hcd : (c = '-' || isDigit c) = true := by
        rcases hd with h | h
        · simp [h]
        · simp [h]
      rw [if_pos hcd, ← List.cons_append, ← hct, parseNum_intDec n rest hr]
  | .arr [], ind, fuel, w, rest, hf, hw, hr => by
    cases fuel with
    | zero => simp [ser] at hf
    | succ f =>
      have e : ser (.arr []) ind ++ rest = '[' :: ']' :: rest := by simp [ser, serArr]
      rw [e, parseVal, skipWs_append w '[' _ hw (by decide)]
      have h1 : ('[' = '"') = False := by decide
      simp only [h1, if_false, if_true]
      rw [skipWs_cons ']' rest (by decide)]
      rfl
  | .arr (x :: xr), ind, fuel, w, rest, hf, hw, hr => by
    cases fuel with
    | zero => simp [ser] at hf
    | succ f =>
      have e : ser (.arr (x :: xr)) ind ++ rest =
          '[' :: (indentNl (ind + 1) ++ (ser x (ind + 1) ++ (serArr xr (ind + 1) false ++ (indentNl ind ++ ']' :: rest)))) := by
        simp [ser, serArr]
      have hlen : (ser x (ind + 1)).length + (serArr xr (ind + 1) false).length + 1 ≤ f := by
        have : (ser (.arr (x :: xr)) ind).length =
            1 + ((indentNl (ind + 1)).length + (ser x (ind + 1)).length + (serArr xr (ind + 1) false).length) + (indentNl ind).length + 1 := by
          simp [ser, serArr]; omega
        have h2 : 1 ≤ (indentNl (ind + 1)).length := by simp [indentNl]
        omega
      obtain ⟨c, t, hct, hs⟩ := ser_head x (ind + 1)
      rw [e, parseVal, skipWs_append w '[' _ hw (by decide)]
      have h1 : ('[' = '"') = False := by decide
      simp only [h1, if_false, if_true]
      have hsk : skipWs (indentNl (ind + 1) ++ (ser x (ind + 1) ++ (serArr xr (ind + 1) false ++ (indentNl ind ++ ']' :: rest)))) =
          c :: (t ++ (serArr xr (ind + 1) false ++ (indentNl ind ++ ']' :: rest))) := by
        rw [hct, List.cons_append]; exact skipWs_append _ c _ (allWs_indentNl _) hs.1
      rw [hsk]
      have hel := parse_elems xr x (ind + 1) f [] (indentNl ind) rest
        (fun fuel w rest a b c => parse_ser x (ind + 1) fuel w rest a b c) hlen (fun _ h => by simp at h) (allWs_indentNl ind)
      rw [hct] at hel
      simp only [List.nil_append, List.cons_append] at hel
      split
      · rename_i rest' heq; simp at heq; exact absurd heq.1 hs.2.1
      · rw [hel]
  | .obj [], ind, fuel, w, rest, hf, hw, hr => by
    cases fuel with
    | zero => simp [ser] at hf
    | succ f =>
      have e : ser (.obj []) ind ++ rest = '{' :: '}' :: rest := by simp [ser, serObj]
      rw [e, parseVal, skipWs_append w '{' _ hw (by decide)]
      have h1 : ('{' = '"') = False := by decide
      have h2 : ('{' = '[') = False := by decide
      simp only [h1, h2, if_false, if_true]
      rw [skipWs_cons '}' rest (by decide)]
      rfl
  | .obj ((k, v) :: r), ind, fuel, w, rest, hf, hw, hr => by
    cases fuel with
    | zero => simp [ser] at hf
    | succ f =>
      have e : ser (.obj ((k, v) :: r)) ind ++ rest =
          '{' :: (indentNl (ind + 1) ++ ('"' :: (k.flatMap jsonChar ++ '"' :: (':' :: ' ' :: (ser v (ind + 1) ++
            (serObj r (ind + 1) false ++ (indentNl ind ++ '}' :: rest))))))) := by
        simp [ser, serObj, jsonStr]
      have hlen : (jsonStr k).length + (ser v (ind + 1)).length + (serObj r (ind + 1) false).length + 1 ≤ f := by
        have : (ser (.obj ((k, v) :: r)) ind).length =
            1 + ((indentNl (ind + 1)).length + (jsonStr k).length + 2 + (ser v (ind + 1)).length + (serObj r (ind + 1) false).length) +
              (indentNl ind).length + 1 := by
          simp [ser, serObj]; omega
        omega
      rw [e, parseVal, skipWs_append w '{' _ hw (by decide)]
      have h1 : ('{' = '"') = False := by decide
      have h2 : ('{' = '[') = False := by decide
      simp only [h1, h2, if_false, if_true]
      rw [skipWs_append _ '"' _ (allWs_indentNl _) (by decide)]
      have hm := parse_members r k v (ind + 1) f [] (indentNl ind) rest
        (fun fuel w rest a b c => parse_ser v (ind + 1) fuel w rest a b c) hlen (fun _ h => by simp at h) (allWs_indentNl ind)
      simp only [List.nil_append, jsonStr, List.cons_append, List.append_assoc] at hm
      split
      · rename_i rest' heq; simp at heq
      · rw [hm]theorem parse_elems : (xr : List Json) → ∀ (x : Json) (ind fuel : Nat) (w w2 rest : Str),
    (∀ (fuel : Nat) (w rest : Str), (ser x ind).length ≤ fuel → allWs w → noDigitHead rest →
        parseVal fuel (w ++ (ser x ind ++ rest)) = some (x, rest)) →
    (ser x ind).length + (serArr xr ind false).length + 1 ≤ fuel → allWs w → allWs w2 →
    parseElems fuel (w ++ (ser x ind ++ (serArr xr ind false ++ (w2 ++ ']' :: rest)))) = some (x :: xr, rest)
  | [], x, ind, fuel, w, w2, rest, hx, hf, hw, hw2 => by
    cases fuel with
    | zero => omega
    | succ f =>
      have hrest : noDigitHead (serArr [] ind false ++ (w2 ++ ']' :: rest)) := by
        simp only [serArr, List.nil_append]; exact noDigitHead_ws_append w2 ']' rest hw2 (by decide)
      rw [parseElems, hx f w _ (by omega) hw hrest]
      simp only [serArr, List.nil_append]
      rw [skipWs_append w2 ']' rest hw2 (by decide)]
      rfl
  | y :: yr, x, ind, fuel, w, w2, rest, hx, hf, hw, hw2 => by
    cases fuel with
    | zero => omega
    | succ f =>
      have e : serArr (y :: yr) ind false ++ (w2 ++ ']' :: rest) =
          ',' :: (indentNl ind ++ (ser y ind ++ (serArr yr ind false ++ (w2 ++ ']' :: rest)))) := by simp [serArr]
      have hlen : (serArr (y :: yr) ind false).length = 1 + (indentNl ind).length + (ser y ind).length + (serArr yr ind false).length := by
        simp [serArr]; omega
      have h2 : 1 ≤ (indentNl ind).length := by simp [indentNl]
      have hrest : noDigitHead (serArr (y :: yr) ind false ++ (w2 ++ ']' :: rest)) := by
        rw [e]; exact noDigitHead_of_start ',' _ (by decide)
      rw [parseElems, hx f w _ (by omega) hw hrest, e]
      simp only []
      rw [skipWs_cons ',' _ (by decide)]
      simp only []
      rw [parse_elems yr y ind f (indentNl ind) w2 rest (fun fuel w rest a b c => parse_ser y ind fuel w rest a b c)
        (by omega) (allWs_indentNl ind) hw2]
theorem parse_members : (r : List (Str × Json)) → ∀ (k : Str) (v : Json) (ind fuel : Nat) (w w2 rest : Str),
    (∀ (fuel : Nat) (w rest : Str), (ser v ind).length ≤ fuel → allWs w → noDigitHead rest →
        parseVal fuel (w ++ (ser v ind ++ rest)) = some (v, rest)) →
    (jsonStr k).length + (ser v ind).length + (serObj r ind false).length + 1 ≤ fuel → allWs w → allWs w2 →
    parseMembers fuel (w ++ (jsonStr k ++ (':' :: ' ' :: (ser v ind ++ (serObj r ind false ++ (w2 ++ '}' :: rest)))))) =
      some ((k, v) :: r, rest)
  | [], k, v, ind, fuel, w, w2, rest, hv, hf, hw, hw2 => by
    cases fuel with
    | zero => omega
    | succ f =>
      have hrest : noDigitHead (serObj [] ind false ++ (w2 ++ '}' :: rest)) := by
        simp only [serObj, List.nil_append]; exact noDigitHead_ws_append w2 '}' rest hw2 (by decide)
      have e : jsonStr k ++ (':' :: ' ' :: (ser v ind ++ (serObj [] ind false ++ (w2 ++ '}' :: rest)))) =
          '"' :: (k.flatMap jsonChar ++ '"' :: (':' :: ([' '] ++ (ser v ind ++ (serObj [] ind false ++ (w2 ++ '}' :: rest)))))) := by
        simp [jsonStr]
      rw [e, parseMembers, skipWs_append w '"' _ hw (by decide)]
      simp only []
      rw [jsonChars_decode]
      simp only []
      rw [skipWs_cons ':' _ (by decide)]
      simp only []
      rw [hv f [' '] _ (by omega) (fun c hc => by simp at hc; subst hc; decide) hrest]
      simp only [serObj, List.nil_append]
      rw [skipWs_append w2 '}' rest hw2 (by decide)]
      rfl
  | (k2, v2) :: r2, k, v, ind, fuel, w, w2, rest, hv, hf, hw, hw2 => by
    cases fuel with
    | zero => omega
    | succ f =>
      have e2 : serObj ((k2, v2) :: r2) ind false ++ (w2 ++ '}' :: rest) =
          ',' :: (indentNl ind ++ (jsonStr k2 ++ (':' :: ' ' :: (ser v2 ind ++ (serObj r2 ind false ++ (w2 ++ '}' :: rest)))))) := by
        simp [serObj]
      have hlen : (serObj ((k2, v2) :: r2) ind false).length =
          1 + (indentNl ind).length + (jsonStr k2).length + 2 + (ser v2 ind).length + (serObj r2 ind false).length := by
        simp [serObj]; omega
      have hrest : noDigitHead (serObj ((k2, v2) :: r2) ind false ++ (w2 ++ '}' :: rest)) := by
        rw [e2]; exact noDigitHead_of_start ',' _ (by decide)
      have e : jsonStr k ++ (':' :: ' ' :: (ser v ind ++ (serObj ((k2, v2) :: r2) ind false ++ (w2 ++ '}' :: rest)))) =
          '"' :: (k.flatMap jsonChar ++ '"' :: (':' :: ([' '] ++ (ser v ind ++ (serObj ((k2, v2) :: r2) ind false ++ (w2 ++ '}' :: rest)))))) := by
        simp [jsonStr]
      rw [e, parseMembers, skipWs_append w '"' _ hw (by decide)]
      simp only []
      rw [jsonChars_decode]
      simp only []
      rw [skipWs_cons ':' _ (by decide)]
      simp only []
      rw [hv f [' '] _ (by omega) (fun c hc => by simp at hc; subst hc; decide) hrest, e2]
      simp only []
      rw [skipWs_cons ',' _ (by decide)]
      simp only []
      rw [parse_members r2 k2 v2 ind f (indentNl ind) w2 rest (fun fuel w rest a b c => parse_ser v2 ind fuel w rest a b c)
        (by omega) (allWs_indentNl ind) hw2]
end

/-- **the strict reader reads back every tree picojson serialises** (prettified form) -/
theorem jsonParse_serialize (v : Json) : jsonParse (serialize v) = some v := by
  unfold jsonParse serialize
  have h := parse_ser v 0 ((ser v 0 ++ ['\n']).length + 1) [] ['\n'] (by simp; omega) (fun _ h => by simp at h)
    (noDigitHead_of_start '\n' [] (by decide))
  simp only [List.nil_append] at h
  rw [h]
  rfl

theorem serObj_false (kvs : List (Str × Json)) (ind : Nat) (h : kvs ≠ []) :
    serObj kvs ind false = ',' :: serObj kvs ind true := by
  cases kvs with
  | nil => exact absurd rfl h
  | cons kv r => obtain ⟨k, v⟩ := kv; simp [serObj]

/-- the hand-spliced `"version"` member: the text `SarifReport::serialize` returns is the serialisation of the
    document object with `"version": "2.1.0"` as its first member -/
theorem serializeSarif_eq (name version : Str) (fs : List Finding) :
    serializeSarif name version fs = serialize (withVersion (doc name version fs)) := by
  unfold serializeSarif doc withVersion serialize
  simp only [ser, serObj, List.isEmpty_cons, Bool.false_eq_true, if_false, if_true, S]
  have hv : "{\n  \"version\": \"2.1.0\",".toList =
      '{' :: (indentNl 1 ++ (jsonStr "version".toList ++ ([':', ' '] ++ (jsonStr "2.1.0".toList ++ [','])))) := by decide
  rw [hv]
  simp [List.append_assoc]

end Cppcheck.Sarif

import Cppcheck.Model.Trunc
/-
Helper lemmas for the 64-bit representation maps and `truncateIntValue`.
-/
namespace Cppcheck.Trunc

theorem toU64_lt (v : Int) : toU64 v < 2 ^ 64 := by
  unfold toU64
  have h1 : 0 ≤ v % 2 ^ 64 := Int.emod_nonneg _ (by decide)
  have h2 : v % 2 ^ 64 < 2 ^ 64 := Int.emod_lt_of_pos _ (by decide)
  omega

theorem toU64_cast (v : Int) : ((toU64 v : Nat) : Int) = v % 2 ^ 64 := by
  unfold toU64
  have h1 : 0 ≤ v % 2 ^ 64 := Int.emod_nonneg _ (by decide)
  omega

/-- reading a bit pattern back as bigint is the balanced residue -/
theorem toI64_toU64 (v : Int) : toI64 (toU64 v) = Int.bmod v (2 ^ 64) := by
  have hlt := toU64_lt v
  have hc := toU64_cast v
  unfold toI64
  rw [Nat.mod_eq_of_lt hlt, Int.bmod_def]
  have e : ((2 ^ 64 : Nat) : Int) = 2 ^ 64 := by norm_cast
  rw [e]
  split <;> split <;> omega

theorem toI64_of_lt {n : Nat} (h : n < 2 ^ 63) : toI64 n = n := by
  unfold toI64
  have : n % 2 ^ 64 = n := Nat.mod_eq_of_lt (by omega)
  rw [this]; simp [h]

theorem toI64_nat (n : Nat) : toI64 n = Int.bmod (n : Int) (2 ^ 64) := by
  unfold toI64
  rw [Int.bmod_def]
  have e : ((2 ^ 64 : Nat) : Int) = 2 ^ 64 := by norm_cast
  rw [e]
  have h : ((n % 2 ^ 64 : Nat) : Int) = (n : Int) % 2 ^ 64 := by omega
  rw [h]
  split <;> split <;> omega

/-- in-range values survive the round trip -/
theorem toI64_toU64_of_range {v : Int} (h1 : -(2 ^ 63) ≤ v) (h2 : v < 2 ^ 63) : toI64 (toU64 v) = v := by
  rw [toI64_toU64, Int.bmod_def]
  have e : ((2 ^ 64 : Nat) : Int) = 2 ^ 64 := by norm_cast
  rw [e]
  split <;> omega

theorem bmod_of_range {a : Int} (h1 : -(2 ^ 63) ≤ a) (h2 : a < 2 ^ 63) : Int.bmod a (2 ^ 64) = a := by
  rw [Int.bmod_def]
  have e : ((2 ^ 64 : Nat) : Int) = 2 ^ 64 := by norm_cast
  rw [e]
  split <;> omega

theorem and_two_pow_ne_zero_iff {x j : Nat} (hx : x < 2 ^ (j + 1)) : (x &&& 2 ^ j) ≠ 0 ↔ 2 ^ j ≤ x := by
  constructor
  · intro h
    obtain ⟨i, hi⟩ := Nat.exists_testBit_of_ne_zero h
    rw [Nat.testBit_and, Nat.testBit_two_pow] at hi
    simp only [Bool.and_eq_true, decide_eq_true_eq] at hi
    obtain ⟨h1, h2⟩ := hi
    subst h2
    exact Nat.ge_two_pow_of_testBit h1
  · intro h hz
    have hb : x.testBit j = true := Nat.testBit_of_two_pow_le_and_two_pow_add_one_gt h hx
    have : (x &&& 2 ^ j).testBit j = true := by
      rw [Nat.testBit_and, hb, Nat.testBit_two_pow_self]; rfl
    rw [hz] at this
    simp at this

theorem or_high_mask {x k : Nat} (hk : k ≤ 64) (hx : x < 2 ^ k) :
    x ||| (2 ^ 64 - 1 - (2 ^ k - 1)) = x + (2 ^ 64 - 2 ^ k) := by
  have hp : 2 ^ k ≤ 2 ^ 64 := Nat.pow_le_pow_right (by decide) hk
  have hpos : 0 < 2 ^ k := Nat.two_pow_pos k
  have e1 : 2 ^ 64 - 1 - (2 ^ k - 1) = 2 ^ k * (2 ^ (64 - k) - 1) := by
    have : 2 ^ 64 = 2 ^ k * 2 ^ (64 - k) := by rw [← Nat.pow_add]; congr 1; omega
    rw [Nat.mul_sub, Nat.mul_one, ← this]; omega
  rw [e1, Nat.or_comm, ← Nat.two_pow_add_eq_or_of_lt hx]
  have : 2 ^ k * (2 ^ (64 - k) - 1) = 2 ^ 64 - 2 ^ k := by
    have : 2 ^ 64 = 2 ^ k * 2 ^ (64 - k) := by rw [← Nat.pow_add]; congr 1; omega
    rw [Nat.mul_sub, Nat.mul_one, ← this]
  omega

theorem shift_mask (n : Nat) (h0 : 0 < n) (h8 : n ≤ 8) : (2 ^ 64 - 1) >>> ((8 - n) * 8) = 2 ^ (8 * n) - 1 := by
  have : n = 1 ∨ n = 2 ∨ n = 3 ∨ n = 4 ∨ n = 5 ∨ n = 6 ∨ n = 7 ∨ n = 8 := by omega
  rcases this with h | h | h | h | h | h | h | h <;> subst h <;> decide

end Cppcheck.Trunc

namespace Cppcheck.Trunc

/-- the central fact: the bit-mask code computes the two's-complement wrap, re-read as bigint -/
theorem truncate_eq (v : Int) (n : Nat) (h0 : 0 < n) (h8 : n ≤ 8) (s : Bool) :
    truncateIntValue v n s = some (Int.bmod (wrapC (8 * n) s v) (2 ^ 64)) := by
  have hk : 8 * n ≤ 64 := by omega
  have hk1 : 8 * n - 1 + 1 = 8 * n := by omega
  unfold truncateIntValue wrapC
  rw [if_neg (by omega), if_neg (by omega)]
  simp only [shift_mask n h0 h8, Nat.one_shiftLeft, Nat.and_two_pow_sub_one_eq_mod]
  have e8 : n * 8 - 1 = 8 * n - 1 := by omega
  rw [e8]
  -- abbreviations: P = 2^k, H = 2^(k-1)
  have hP : 2 ^ (8 * n) = 2 * 2 ^ (8 * n - 1) := by
    conv => lhs; rw [← hk1, Nat.pow_succ]
    omega
  have hPle : 2 ^ (8 * n) ≤ 2 ^ 64 := Nat.pow_le_pow_right (by decide) hk
  have hHpos : 0 < 2 ^ (8 * n - 1) := Nat.two_pow_pos _
  have hx : toU64 v % 2 ^ (8 * n) < 2 ^ (8 * n) := Nat.mod_lt _ (Nat.two_pow_pos _)
  have hdvd : ((2 ^ (8 * n) : Nat) : Int) ∣ (2 ^ 64 : Int) := by
    have : (2 ^ 64 : Int) = ((2 ^ (8 * n) : Nat) : Int) * ((2 ^ (64 - 8 * n) : Nat) : Int) := by
      have : (2 ^ 64 : Nat) = 2 ^ (8 * n) * 2 ^ (64 - 8 * n) := by rw [← Nat.pow_add]; congr 1; omega
      exact_mod_cast this
    exact ⟨_, this⟩
  have hxv : ((toU64 v % 2 ^ (8 * n) : Nat) : Int) = v % ((2 ^ (8 * n) : Nat) : Int) := by
    rw [Int.natCast_emod, toU64_cast, Int.emod_emod_of_dvd _ hdvd]
  have hr0 : 0 ≤ v % ((2 ^ (8 * n) : Nat) : Int) := Int.emod_nonneg _ (by
    have := Nat.two_pow_pos (8 * n); omega)
  generalize hxdef : toU64 v % 2 ^ (8 * n) = x at hx hxv
  generalize hPdef : 2 ^ (8 * n) = P at *
  generalize hHdef : 2 ^ (8 * n - 1) = H at *
  cases s with
  | false =>
    simp only [Bool.false_and, Bool.false_eq_true, if_false]
    rw [toI64_nat, hxv]
  | true =>
    simp only [Bool.true_and, if_true]
    by_cases hb : H ≤ x
    · have hne : (x &&& H) ≠ 0 := by
        rw [← hHdef]
        refine (and_two_pow_ne_zero_iff ?_).2 (by omega)
        rw [hk1, hPdef]; exact hx
      have : ((x &&& H) != 0) = true := by simp [hne]
      rw [this, if_pos rfl]
      have hor : x ||| (2 ^ 64 - 1 - (P - 1)) = x + (2 ^ 64 - P) := by
        rw [← hPdef]; exact or_high_mask hk (by rw [hPdef]; exact hx)
      rw [hor]
      have hb1 : Int.bmod v P = (x : Int) - P := by
        rw [Int.bmod_def, ← hxv]; split <;> omega
      rw [hb1]
      have hm : (x + (2 ^ 64 - P)) % 2 ^ 64 = x + (2 ^ 64 - P) := Nat.mod_eq_of_lt (by omega)
      have hI : toI64 (x + (2 ^ 64 - P)) = (x : Int) - P := by
        unfold toI64
        rw [hm]
        split <;> omega
      rw [hI, bmod_of_range (by omega) (by omega)]
    · have hz : (x &&& H) = 0 := by
        apply Classical.byContradiction
        intro hne
        have : H ≤ x := by
          rw [← hHdef]
          have := (and_two_pow_ne_zero_iff (x := x) (j := 8 * n - 1) (by rw [hk1, hPdef]; exact hx)).1 (by rw [hHdef]; exact hne)
          exact this
        exact hb this
      have : ((x &&& H) != 0) = false := by simp [hz]
      rw [this]
      simp only [Bool.false_eq_true, if_false]
      have hb1 : Int.bmod v P = (x : Int) := by
        rw [Int.bmod_def, ← hxv]; split <;> omega
      rw [hb1, toI64_nat]

end Cppcheck.Trunc

import Cppcheck.Model.Trunc
/-
Helper lemmas for the 64-bit representation maps and `truncateIntValue`.
-/
namespace Cppcheck.Trunc

theorem toU64_lt (v : Int) : toU64 v < 2 ^ 64 := by
  unfold toU64
  have h1 : 0 ≤ v % 2 ^ 64 := Int.emod_nonneg _ (by decide)
  have h2 : v % 2 ^ 64 < 2 ^ 64 := Int.emod_lt_of_pos _ (by decide)
  omega

theorem toU64_cast (v : Int) : ((toU64 v : Nat) : Int) = v % 2 ^ 64 := by
  unfold toU64
  have h1 : 0 ≤ v % 2 ^ 64 := Int.emod_nonneg _ (by decide)
  omega

/-- reading a bit pattern back as bigint is the balanced residue -/
theorem toI64_toU64 (v : Int) : toI64 (toU64 v) = Int.bmod v (2 ^ 64) := by
  have hlt := toU64_lt v
  have hc := toU64_cast v
  unfold toI64
  rw [Nat.mod_eq_of_lt hlt, Int.bmod_def]
  have e : ((2 ^ 64 : Nat) : Int) = 2 ^ 64 := by norm_cast
  rw [e]
  split <;> split <;> omega

theorem toI64_of_lt {n : Nat} (h : n < 2 ^ 63) : toI64 n = n := by
  unfold toI64
  have : n % 2 ^ 64 = n := Nat.mod_eq_of_lt (by omega)
  rw [this]; simp [h]

theorem toI64_nat (n : Nat) : toI64 n = Int.bmod (n : Int) (2 ^ 64) := by
  unfold toI64
  rw [Int.bmod_def]
  have e : ((2 ^ 64 : Nat) : Int) = 2 ^ 64 := by norm_cast
  rw [e]
  have h : ((n % 2 ^ 64 : Nat) : Int) = (n : Int) % 2 ^ 64 := by omega
  rw [h]
  split <;> split <;> omega

/-- in-range values survive the round trip -/
theorem toI64_toU64_of_range {v : Int} (h1 : -(2 ^ 63) ≤ v) (h2 : v < 2 ^ 63) : toI64 (toU64 v) = v := by
  rw [toI64_toU64, Int.bmod_def]
  have e : ((2 ^ 64 : Nat) : Int) = 2 ^ 64 := by norm_cast
  rw [e]
  split <;> omega

theorem bmod_of_range {a : Int} (h1 : -(2 ^ 63) ≤ a) (h2 : a < 2 ^ 63) : Int.bmod a (2 ^ 64) = a := by
  rw [Int.bmod_def]
  have e : ((2 ^ 64 : Nat) : Int) = 2 ^ 64 := by norm_cast
  rw [e]
  split <;> omega

theorem and_two_pow_ne_zero_iff {x j : Nat} (hx : x < 2 ^ (j + 1)) : (x &&& 2 ^ j) ≠ 0 ↔ 2 ^ j ≤ x := by
  constructor
  · intro h
    obtain ⟨i, hi⟩ := Nat.exists_testBit_of_ne_zero h
    rw [Nat.testBit_and, Nat.testBit_two_pow] at hi
    simp only [Bool.and_eq_true, decide_eq_true_eq] at hi
    obtain ⟨h1, h2⟩ := hi
    subst h2
    exact Nat.ge_two_pow_of_testBit h1
  · intro h hz
    have hb : x.testBit j = true := Nat.testBit_of_two_pow_le_and_two_pow_add_one_gt h hx
    have : (x &&& 2 ^ j).testBit j = true := by
      rw [Nat.testBit_and, hb, Nat.testBit_two_pow_self]; rfl
    rw [hz] at this
    simp at this

theorem or_high_mask {x k : Nat} (hk : k ≤ 64) (hx : x < 2 ^ k) :
    x ||| (2 ^ 64 - 1 - (2 ^ k - 1)) = x + (2 ^ 64 - 2 ^ k) := by
  have hp : 2 ^ k ≤ 2 ^ 64 := Nat.pow_le_pow_right (by decide) hk
  have hpos : 0 < 2 ^ k := Nat.two_pow_pos k
  have e1 : 2 ^ 64 - 1 - (2 ^ k - 1) = 2 ^ k * (2 ^ (64 - k) - 1) := by
    have : 2 ^ 64 = 2 ^ k * 2 ^ (64 - k) := by rw [← Nat.pow_add]; congr 1; omega
    rw [Nat.mul_sub, Nat.mul_one, ← this]; omega
  rw [e1, Nat.or_comm, ← Nat.two_pow_add_eq_or_of_lt hx]
  have : 2 ^ k * (2 ^ (64 - k) - 1) = 2 ^ 64 - 2 ^ k := by
    have : 2 ^ 64 = 2 ^ k * 2 ^ (64 - k) := by rw [← Nat.pow_add]; congr 1; omega
    rw [Nat.mul_sub, Nat.mul_one, ← this]
  omega

theorem shift_mask (n : Nat) (h0 : 0 < n) (h8 : n ≤ 8) : (2 ^ 64 - 1) >>> ((8 - n) * 8) = 2 ^ (8 * n) - 1 := by
  have : n = 1 ∨ n = 2 ∨ n = 3 ∨ n = 4 ∨ n = 5 ∨ n = 6 ∨ n = 7 ∨ n = 8 := by omega
  rcases this with h | h | h | h | h | h | h | h <;> subst h <;> decide

end Cppcheck.Trunc

namespace Cppcheck.Trunc

/-- the central fact: the bit-mask code computes the two's-complement wrap, re-read as bigint -/
theorem truncate_eq (v : Int) (n : Nat) (h0 : 0 < n) (h8 : n ≤ 8) (s : Bool) :
    truncateIntValue v n s = some (Int.bmod (wrapC (8 * n) s v) (2 ^ 64)) := by
  have hk : 8 * n ≤ 64 := by omega
  have hk1 : 8 * n - 1 + 1 = 8 * n := by omega
  unfold truncateIntValue wrapC
  rw [if_neg (by omega), if_neg (by omega)]
  simp only [shift_mask n h0 h8, Nat.one_shiftLeft, Nat.and_two_pow_sub_one_eq_mod]
  have e8 : n * 8 - 1 = 8 * n - 1 := by omega
  rw [e8]
  -- abbreviations: P = 2^k, H = 2^(k-1)
  have hP : 2 ^ (8 * n) = 2 * 2 ^ (8 * n - 1) := by
    conv => lhs; rw [← hk1, Nat.pow_succ]
    omega
  have hPle : 2 ^ (8 * n) ≤ 2 ^ 64 := Nat.pow_le_pow_right (by decide) hk
  have hHpos : 0 < 2 ^ (8 * n - 1) := Nat.two_pow_pos _
  have hx : toU64 v % 2 ^ (8 * n) < 2 ^ (8 * n) := Nat.mod_lt _ (Nat.two_pow_pos _)
  have hdvd : ((2 ^ (8 * n) : Nat) : Int) ∣ (2 ^ 64 : Int) := by
    have : (2 ^ 64 : Int) = ((2 ^ (8 * n) : Nat) : Int) * ((2 ^ (64 - 8 * n) : Nat) : Int) := by
      have : (2 ^ 64 : Nat) = 2 ^ (8 * n) * 2 ^ (64 - 8 * n) := by rw [← Nat.pow_add]; congr 1; omega
      exact_mod_cast this
    exact ⟨_, this⟩
  have hxv : ((toU64 v % 2 ^ (8 * n) : Nat) : Int) = v % ((2 ^ (8 * n) : Nat) : Int) := by
    rw [Int.natCast_emod, toU64_cast, Int.emod_emod_of_dvd _ hdvd]
  have hr0 : 0 ≤ v % ((2 ^ (8 * n) : Nat) : Int) := Int.emod_nonneg _ (by
    have := Nat.two_pow_pos (8 * n); omega)
  generalize hxdef : toU64 v % 2 ^ (8 * n) = x at hx hxv
  generalize hPdef : 2 ^ (8 * n) = P at *
  generalize hHdef : 2 ^ (8 * n - 1) = H at *
  cases s with
  | false =>
    simp only [Bool.false_and, Bool.false_eq_true, if_false]
    rw [toI64_nat, hxv]
  | true =>
    simp only [Bool.true_and, if_true]
    by_cases hb : H ≤ x
    · have hne : (x &&& H) ≠ 0 := by
        rw [← hHdef]
        refine (and_two_pow_ne_zero_iff ?_).2 (by omega)
        rw [hk1, hPdef]; exact hx
      have : ((x &&& H) != 0) = true := by simp [hne]
      rw [this, if_pos rfl]
      have hor : x ||| (2 ^ 64 - 1 - (P - 1)) = x + (2 ^ 64 - P) := by
        rw [← hPdef]; exact or_high_mask hk (by rw [hPdef]; exact hx)
      rw [hor]
      have hb1 : Int.bmod v P = (x : Int) - P := by
        rw [Int.bmod_def, ← hxv]; split <;> omega
      rw [hb1]
      have hm : (x + (2 ^ 64 - P)) % 2 ^ 64 = x + (2 ^ 64 - P) := Nat.mod_eq_of_lt (by omega)
      have hI : toI64 (x + (2 ^ 64 - P)) = (x : Int) - P := by
        unfold toI64
        rw [hm]
        split <;> omega
      rw [hI, bmod_of_range (by omega) (by omega)]
    · have hz : (x &&& H) = 0 := by
        apply Classical.byContradiction
        intro hne
        have : H ≤ x := by
          rw [← hHdef]
          have := (and_two_pow_ne_zero_iff (x := x) (j := 8 * n - 1) (by rw [hk1, hPdef]; exact hx)).1 (by rw [hHdef]; exact hne)
          exact this
        exact hb this
      have : ((x &&& H) != 0) = false := by simp [hz]
      rw [this]
      simp only [Bool.false_eq_true, if_false]
      have hb1 : Int.bmod v P = (x : Int) := by
        rw [Int.bmod_def, ← hxv]; split <;> omega
      rw [hb1, toI64_nat]

end Cppcheck.Trunc

namespace Cppcheck.Trunc

/-- masking a bigint with `(1ULL<<b)-1` is the non-negative residue modulo 2^b -/
theorem mask_low (r : Int) (b : Nat) (hb : b < 64) : toI64 (toU64 r &&& (2 ^ b - 1)) = r % ((2 ^ b : Nat) : Int) := by
  rw [Nat.and_two_pow_sub_one_eq_mod]
  have hle : 2 ^ b ≤ 2 ^ 63 := Nat.pow_le_pow_right (by decide) (by omega)
  have hpos : 0 < 2 ^ b := Nat.two_pow_pos b
  have hx : toU64 r % 2 ^ b < 2 ^ b := Nat.mod_lt _ hpos
  rw [toI64_of_lt (by omega)]
  have hdvd : ((2 ^ b : Nat) : Int) ∣ (2 ^ 64 : Int) := by
    have : (2 ^ 64 : Nat) = 2 ^ b * 2 ^ (64 - b) := by rw [← Nat.pow_add]; congr 1; omega
    exact ⟨((2 ^ (64 - b) : Nat) : Int), by exact_mod_cast this⟩
  rw [Int.natCast_emod, toU64_cast, Int.emod_emod_of_dvd _ hdvd]

end Cppcheck.Trunc


namespace Cppcheck.Trunc

theorem sane_unpack {s : IntShape} (h : s.sane = true) :
    8 ≤ s.charBit ∧ s.charBit < s.intBit ∧ s.charBit ≤ s.shortBit ∧ s.shortBit ≤ s.intBit ∧ s.intBit ≤ s.longBit ∧
    s.longBit ≤ s.llongBit ∧ s.llongBit ≤ 64 := by
  simp only [IntShape.sane, Bool.and_eq_true, decide_eq_true_eq] at h
  omega

theorem bmod64_of_unsigned64 (v : Int) (h0 : 0 ≤ v) (h1 : v < 2 ^ 63) : Int.bmod (2 ^ 64 - 1 - v) (2 ^ 64) = -v - 1 := by
  rw [Int.bmod_def]
  have e : ((2 ^ 64 : Nat) : Int) = 2 ^ 64 := by norm_cast
  rw [e]
  split <;> omega

/-- `~` on an unsigned operand of exactly `b` bits, as the masked 64-bit complement -/
theorem bnot_masked (v : Int) (b : Nat) (hb : b < 64) (h0 : 0 ≤ v) (h1 : v < 2 ^ b) :
    toI64 (toU64 (-v - 1) &&& (2 ^ b - 1)) = 2 ^ b - 1 - v := by
  rw [mask_low _ b hb]
  have hc : ((2 ^ b : Nat) : Int) = (2 : Int) ^ b := by norm_cast
  rw [hc]
  have hpos : (0 : Int) < 2 ^ b := Int.pow_pos (by decide)
  rw [← Int.add_emod_right (-v - 1) (2 ^ b), Int.emod_eq_of_lt (by omega) (by omega)]
  omega

/-- unsigned operand whose type is not `unsigned int` / `unsigned long`: no mask -/
theorem foldUnary_bnot_nomask (v : Int) (u : Bool) (ty : ITy) (ib lb : Nat) (h : u = false ∨ (ty ≠ .int ∧ ty ≠ .long)) :
    foldUnary .bnot v u ty ib lb = some (-v - 1) := by
  rcases h with h | ⟨h1, h2⟩
  · subst h; simp [foldUnary]
  · cases u <;> simp [foldUnary, h1, h2]

theorem foldUnary_bnot_eq (s : IntShape) (hs : s.sane = true) (ty : ITy) (u : Bool) (v : Int)
    (hv : inOperand v s ty u = true) (hbig : -(2 ^ 63) ≤ v ∧ v < 2 ^ 63)
    (h1 : ¬ (u = true ∧ ty = .short ∧ s.shortBit = s.intBit)) (h2 : ¬ (u = true ∧ ty = .longlong ∧ s.llongBit < 64)) :
    foldUnary .bnot v u ty s.intBit s.longBit = some (Int.bmod (cUnary .bnot v (s.bits ty) u s.intBit) (2 ^ 64)) := by
  obtain ⟨c8, cci, ccs, csi, cil, cll, c64⟩ := sane_unpack hs
  cases u with
  | false =>
    rw [foldUnary_bnot_nomask v false ty _ _ (Or.inl rfl)]
    have : cUnary .bnot v (s.bits ty) false s.intBit = -v - 1 := by
      simp only [cUnary, promote]; split <;> simp
    rw [this, bmod_of_range (by omega) (by omega)]
  | true =>
    -- range of an unsigned operand
    have hrange : ty ≠ .bool ∧ 0 ≤ v ∧ v < 2 ^ (s.bits ty) := by
      by_cases hb : ty = .bool
      · simp [inOperand, hb] at hv
      · simp only [inOperand, hb, if_false, inType, if_true, Bool.and_eq_true, decide_eq_true_eq] at hv
        exact ⟨hb, hv.1, hv.2⟩
    obtain ⟨hnb, h0, hlt⟩ := hrange
    -- narrow operands are promoted to int
    have narrow : ∀ b, b < s.intBit → cUnary .bnot v b true s.intBit = -v - 1 := by
      intro b hb; simp [cUnary, promote, hb]
    have wide : ∀ b, ¬ b < s.intBit → cUnary .bnot v b true s.intBit = 2 ^ b - 1 - v := by
      intro b hb; simp [cUnary, promote, hb]
    cases ty with
    | bool => exact absurd rfl hnb
    | char =>
      rw [foldUnary_bnot_nomask v true .char _ _ (Or.inr ⟨by decide, by decide⟩), narrow (s.bits .char) cci, bmod_of_range (by omega) (by omega)]
    | short =>
      have : s.shortBit < s.intBit := by
        have : s.shortBit ≠ s.intBit := fun e => h1 ⟨rfl, rfl, e⟩
        omega
      rw [foldUnary_bnot_nomask v true .short _ _ (Or.inr ⟨by decide, by decide⟩), narrow (s.bits .short) this, bmod_of_range (by omega) (by omega)]
    | longlong =>
      have h64 : s.llongBit = 64 := by
        have : ¬ s.llongBit < 64 := fun e => h2 ⟨rfl, rfl, e⟩
        omega
      rw [foldUnary_bnot_nomask v true .longlong _ _ (Or.inr ⟨by decide, by decide⟩), wide (s.bits .longlong) (by simp only [IntShape.bits]; omega)]
      simp only [IntShape.bits, h64]
      rw [bmod64_of_unsigned64 v h0 hbig.2]
    | int =>
      simp only [IntShape.bits] at hlt
      rw [wide (s.bits .int) (by simp only [IntShape.bits]; omega)]
      simp only [IntShape.bits]
      by_cases h64 : s.intBit < 64
      · have hpos : 0 < s.intBit := by omega
        have hle : (2 : Int) ^ s.intBit ≤ 2 ^ 63 := by
          have : 2 ^ s.intBit ≤ 2 ^ 63 := Nat.pow_le_pow_right (by decide) (by omega)
          exact_mod_cast this
        simp only [foldUnary, if_true, hpos, h64, and_self]
        rw [bnot_masked v _ h64 h0 hlt, bmod_of_range (by omega) (by omega)]
      · have e : s.intBit = 64 := by omega
        simp only [foldUnary, if_true, e, show ¬ ((0 : Nat) < 64 ∧ (64 : Nat) < 64) from by decide, if_false]
        rw [bmod64_of_unsigned64 v h0 hbig.2]
    | long =>
      simp only [IntShape.bits] at hlt
      rw [wide (s.bits .long) (by simp only [IntShape.bits]; omega)]
      simp only [IntShape.bits]
      by_cases h64 : s.longBit < 64
      · have hpos : 0 < s.longBit := by omega
        have hle : (2 : Int) ^ s.longBit ≤ 2 ^ 63 := by
          have : 2 ^ s.longBit ≤ 2 ^ 63 := Nat.pow_le_pow_right (by decide) (by omega)
          exact_mod_cast this
        simp only [foldUnary, if_true, show (ITy.long = ITy.int) = False from by simp, if_false, hpos, h64, and_self]
        rw [bnot_masked v _ h64 h0 hlt, bmod_of_range (by omega) (by omega)]
      · have e : s.longBit = 64 := by omega
        simp only [foldUnary, if_true, show (ITy.long = ITy.int) = False from by simp, if_false, e,
          show ¬ ((0 : Nat) < 64 ∧ (64 : Nat) < 64) from by decide]
        rw [bmod64_of_unsigned64 v h0 hbig.2]

end Cppcheck.Trunc

namespace Cppcheck.Trunc

/-- for the widths the platforms have (whole bytes) `castValue` is `truncateIntValue` -/
theorem castValue_eq_truncate (v : Int) (hv : -(2 ^ 63) ≤ v ∧ v < 2 ^ 63) (n : Nat) (h0 : 0 < n) (h8 : n ≤ 8) (s : Bool) :
    some (castValue v s (8 * n)) = truncateIntValue v n s := by
  by_cases h : n = 8
  · subst h
    rw [truncate_eq v 8 (by decide) (by decide)]
    simp only [castValue, show ¬ (8 * 8 < 64) from by decide, if_false]
    have e64 : (8 * 8 : Nat) = 64 := by decide
    rw [e64]
    cases s
    · simp only [wrapC, Bool.false_eq_true, if_false]
      have : Int.bmod (v % ((2 ^ 64 : Nat) : Int)) (2 ^ 64) = v := by
        rw [Int.bmod_def]
        have e : ((2 ^ 64 : Nat) : Int) = 2 ^ 64 := by norm_cast
        rw [e]
        split <;> omega
      rw [this]
    · simp only [wrapC, if_true]
      rw [bmod_of_range hv.1 hv.2, bmod_of_range hv.1 hv.2]
  · have hlt : 8 * n < 64 := by omega
    unfold castValue
    rw [if_pos hlt]
    unfold truncateIntValue
    rw [if_neg (by omega), if_neg (by omega)]
    simp only [shift_mask n h0 h8, Nat.one_shiftLeft]
    have e8 : n * 8 - 1 = 8 * n - 1 := by omega
    rw [e8]

/-- a cast to an integer type of `8n` bits is the C conversion (modulo 2^(8n), two's complement for signed targets) -/
theorem castValue_eq_wrap (v : Int) (hv : -(2 ^ 63) ≤ v ∧ v < 2 ^ 63) (n : Nat) (h0 : 0 < n) (h8 : n ≤ 8) (s : Bool) :
    castValue v s (8 * n) = Int.bmod (wrapC (8 * n) s v) (2 ^ 64) := by
  have h := castValue_eq_truncate v hv n h0 h8 s
  rw [truncate_eq v n h0 h8 s] at h
  exact Option.some.inj h

end Cppcheck.Trunc


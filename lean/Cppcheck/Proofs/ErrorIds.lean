import Cppcheck.Model.ErrorIds
/-
C28 — generic lemmas that lift the Boolean table walks to statements about all elements of the tables.
-/
namespace Cppcheck.ErrorIds

theorem nat_beq_iff (x y : Nat) : Nat.beq x y = true ↔ x = y :=
  ⟨Nat.eq_of_beq_eq_true, fun h => h ▸ Nat.beq_refl x⟩

theorem memb_iff (x : Nat) (l : List Nat) : memb x l = true ↔ x ∈ l := by
  induction l with
  | nil => simp [memb]
  | cons y ys ih =>
    simp only [memb, Bool.or_eq_true, nat_beq_iff, List.mem_cons, ih]

theorem mem_of_mem_dropLt (k : Nat) (l : List Nat) {x : Nat} (h : x ∈ dropLt k l) : x ∈ l := by
  induction l with
  | nil => simp [dropLt] at h
  | cons y ys ih =>
    simp only [dropLt] at h
    split at h
    · exact List.mem_cons_of_mem _ (ih h)
    · exact h

/-- soundness of the linear walk (no ordering hypothesis needed) -/
theorem coveredBy_sound {α : Type} (key : α → Nat) (skip : α → Bool) :
    ∀ (xs : List α) (ys : List Nat), coveredBy key skip xs ys = true →
      ∀ x ∈ xs, skip x = true ∨ key x ∈ ys := by
  intro xs
  induction xs with
  | nil => intro ys _ x hx; cases hx
  | cons a as ih =>
    intro ys h x hx
    simp only [coveredBy] at h
    by_cases hs : skip a = true
    · simp only [hs, if_true] at h
      rcases List.mem_cons.mp hx with rfl | hx'
      · exact Or.inl hs
      · exact ih ys h x hx'
    · have hs' : skip a = false := by simpa using hs
      simp only [hs', Bool.false_eq_true, if_false] at h
      cases hd : dropLt (key a) ys with
      | nil => simp [hd] at h
      | cons y ys' =>
        simp only [hd, Bool.and_eq_true, nat_beq_iff] at h
        have hy : y ∈ ys := mem_of_mem_dropLt (key a) ys (by rw [hd]; exact List.mem_cons_self)
        rcases List.mem_cons.mp hx with rfl | hx'
        · right; rw [← h.1]; exact hy
        · rcases ih (y :: ys') h.2 x hx' with hsk | hm
          · exact Or.inl hsk
          · right
            exact mem_of_mem_dropLt (key a) ys (by rw [hd]; exact hm)

/-! ### bit-set reachability is sound -/

theorem testBit_or_bit (acc k f : Nat) :
    (acc ||| (1 <<< k)).testBit f = (acc.testBit f || decide (k = f)) := by
  rw [Nat.testBit_or, Nat.one_shiftLeft, Nat.testBit_two_pow]

theorem rootBits_sound (edges : List (Nat × Nat)) (roots : List Nat) :
    ∀ f, (rootBits roots).testBit f = true → Reach edges roots f := by
  suffices h : ∀ (rs : List Nat), (∀ r ∈ rs, r ∈ roots) →
      ∀ f, (rootBits rs).testBit f = true → Reach edges roots f from h roots (fun _ hr => hr)
  intro rs
  induction rs with
  | nil => intro _ f hf; simp [rootBits, Nat.zero_testBit] at hf
  | cons r rs ih =>
    intro hsub f hf
    simp only [rootBits] at hf
    rw [testBit_or_bit] at hf
    simp only [Bool.or_eq_true, decide_eq_true_eq] at hf
    rcases hf with hf | hf
    · exact ih (fun x hx => hsub x (List.mem_cons_of_mem _ hx)) f hf
    · subst hf; exact Reach.root (hsub r List.mem_cons_self)

theorem stepBits_sound_aux (edges : List (Nat × Nat)) (roots : List Nat) :
    ∀ (es : List (Nat × Nat)) (s : Nat), (∀ e ∈ es, e ∈ edges) →
      (∀ f, s.testBit f = true → Reach edges roots f) →
      ∀ f, (stepBits es s).testBit f = true → Reach edges roots f := by
  intro es
  induction es with
  | nil => intro s _ hs f hf; exact hs f hf
  | cons e es ih =>
    intro s hsub hs f hf
    have hsub' : ∀ x ∈ es, x ∈ edges := fun x hx => hsub x (List.mem_cons_of_mem _ hx)
    simp only [stepBits] at hf
    cases hc : s.testBit e.1 with
    | false =>
      simp only [hc] at hf
      exact ih s hsub' hs f hf
    | true =>
      simp only [hc] at hf
      have key : ∀ g, (s ||| (1 <<< e.2)).testBit g = true → Reach edges roots g := by
        intro g hg
        rw [testBit_or_bit] at hg
        simp only [Bool.or_eq_true, decide_eq_true_eq] at hg
        rcases hg with hg | hg
        · exact hs g hg
        · subst hg
          exact Reach.step (hs e.1 hc) (by
            have := hsub e List.mem_cons_self
            cases e; exact this)
      split at hf
      · rename_i h0
        exact ih 0 hsub' (fun g hg => by simp [Nat.zero_testBit] at hg) f hf
      · rename_i n hn
        exact ih (n + 1) hsub' (fun g hg => key g (hn ▸ hg)) f hf
      done

theorem stepBits_sound (edges : List (Nat × Nat)) (roots : List Nat) (s : Nat)
    (hs : ∀ f, s.testBit f = true → Reach edges roots f) :
    ∀ f, (stepBits edges s).testBit f = true → Reach edges roots f :=
  stepBits_sound_aux edges roots edges s (fun _ he => he) hs

/-- every function in the computed bit set has a call path from a root in the extracted graph -/
theorem reachBits_sound (edges : List (Nat × Nat)) (roots : List Nat) :
    ∀ (n f : Nat), (reachBits edges roots n).testBit f = true → Reach edges roots f := by
  intro n
  induction n with
  | zero => exact rootBits_sound edges roots
  | succ n ih => exact stepBits_sound edges roots _ ih

theorem mem_idsOfReached (reach : Nat) (es : List Emitter) (i : Nat) :
    i ∈ idsOfReached reach es ↔ ∃ e ∈ es, reach.testBit e.fn = true ∧ e.id = i := by
  simp [idsOfReached, List.mem_map, List.mem_filter, and_assoc]

end Cppcheck.ErrorIds

import Cppcheck.Model.RunState
/-
C17 — helper lemmas: the simulation between a file analysed on the state earlier files left behind (`c`)
and the same file analysed on the start state (`a`).
-/
namespace Cppcheck.RunState
open Cppcheck.Wire

variable {S : Type}

theorem mem_addSuppr (same : S → S → Bool) (l : List S) (s t : S) :
    t ∈ addSuppr same l s ↔ t ∈ l ∨ (t = s ∧ l.any (fun u => same s u) = false) := by
  unfold addSuppr
  by_cases h : l.any (fun u => same s u) = true
  · simp [h]
  · have h' : l.any (fun u => same s u) = false := by simpa using h
    rw [if_neg h]
    simp only [List.mem_append, List.mem_singleton, h', and_true]

theorem subset_addSuppr (same : S → S → Bool) (l : List S) (s : S) : ∀ t, t ∈ l → t ∈ addSuppr same l s :=
  fun t h => (mem_addSuppr same l s t).2 (Or.inl h)

/-! ### fields a step does not touch -/

@[simp] theorem updState_supprs (cfg : Cfg S) (x m b d) (st : State S) : (updState cfg x m b d st).supprs = st.supprs := by
  unfold updState; dsimp only; repeat' split
  all_goals rfl
@[simp] theorem updState_locMacros (cfg : Cfg S) (x m b d) (st : State S) : (updState cfg x m b d st).locMacros = st.locMacros := by
  unfold updState; dsimp only; repeat' split
  all_goals rfl
@[simp] theorem updState_remarks (cfg : Cfg S) (x m b d) (st : State S) : (updState cfg x m b d st).remarks = st.remarks := by
  unfold updState; dsimp only; repeat' split
  all_goals rfl

theorem reportErr_supprs (cfg : Cfg S) (st : State S) (o x) : (reportErr cfg st o x).1.supprs = st.supprs := by
  unfold reportErr; split <;> simp
theorem reportErr_locMacros (cfg : Cfg S) (st : State S) (o x) : (reportErr cfg st o x).1.locMacros = st.locMacros := by
  unfold reportErr; split <;> simp
theorem reportErr_remarks (cfg : Cfg S) (st : State S) (o x) : (reportErr cfg st o x).1.remarks = st.remarks := by
  unfold reportErr; split <;> simp

@[simp] theorem flag_supprs (cfg : Cfg S) (st : State S) (x) (st' : State S) : (flag cfg st x st').supprs = st'.supprs := by
  unfold flag; split <;> rfl
@[simp] theorem flag_errorList (cfg : Cfg S) (st : State S) (x) (st' : State S) : (flag cfg st x st').errorList = st'.errorList := by
  unfold flag; split <;> rfl
@[simp] theorem flag_suppressedList (cfg : Cfg S) (st : State S) (x) (st' : State S) :
    (flag cfg st x st').suppressedList = st'.suppressedList := by
  unfold flag; split <;> rfl
@[simp] theorem flag_locMacros (cfg : Cfg S) (st : State S) (x) (st' : State S) : (flag cfg st x st').locMacros = st'.locMacros := by
  unfold flag; split <;> rfl
@[simp] theorem flag_remarks (cfg : Cfg S) (st : State S) (x) (st' : State S) : (flag cfg st x st').remarks = st'.remarks := by
  unfold flag; split <;> rfl
@[simp] theorem flag_exitCode (cfg : Cfg S) (st : State S) (x) (st' : State S) : (flag cfg st x st').exitCode = st'.exitCode := by
  unfold flag; split <;> rfl
theorem flag_internal (cfg : Cfg S) (st : State S) (x : Finding) (st' : State S) (h : x.internal = true) :
    flag cfg st x st' = st' := by
  unfold flag; rw [if_pos h]
@[simp] theorem markStep_supprs (cfg : Cfg S) (toks) (st : State S) : (markStep cfg toks st).supprs = st.supprs := rfl
@[simp] theorem markStep_errorList (cfg : Cfg S) (toks) (st : State S) : (markStep cfg toks st).errorList = st.errorList := rfl
@[simp] theorem markStep_suppressedList (cfg : Cfg S) (toks) (st : State S) :
    (markStep cfg toks st).suppressedList = st.suppressedList := rfl
@[simp] theorem markStep_locMacros (cfg : Cfg S) (toks) (st : State S) : (markStep cfg toks st).locMacros = st.locMacros := rfl
@[simp] theorem markStep_remarks (cfg : Cfg S) (toks) (st : State S) : (markStep cfg toks st).remarks = st.remarks := rfl
@[simp] theorem markStep_exitCode (cfg : Cfg S) (toks) (st : State S) : (markStep cfg toks st).exitCode = st.exitCode := rfl

/-- suppressions are never removed -/
theorem stepEv_supprs_mono (cfg : Cfg S) (st : State S) (o : Out) (e : Ev S) :
    ∀ s, s ∈ st.supprs → s ∈ (stepEv cfg st o e).1.supprs := by
  intro s hs
  cases e with
  | suppr t => exact subset_addSuppr _ _ _ _ hs
  | remarks r => exact hs
  | macros m => exact hs
  | report x => simpa [stepEv, reportErr_supprs] using hs
  | probe x => simpa [stepEv] using hs
  | mark toks => simpa [stepEv] using hs

theorem runEvs_supprs_mono (cfg : Cfg S) (evs : List (Ev S)) : ∀ (st : State S) (o : Out),
    ∀ s, s ∈ st.supprs → s ∈ (runEvs cfg st o evs).1.supprs := by
  induction evs with
  | nil => intro st o s hs; exact hs
  | cons e t ih => intro st o s hs; exact ih _ _ s (stepEv_supprs_mono cfg st o e s hs)

/-- a suppression in the list after the events was there before or is one of the events -/
theorem runEvs_supprs_origin (cfg : Cfg S) (evs : List (Ev S)) : ∀ (st : State S) (o : Out),
    ∀ s, s ∈ (runEvs cfg st o evs).1.supprs → s ∈ st.supprs ∨ s ∈ supprsOf evs := by
  induction evs with
  | nil => intro st o s hs; exact Or.inl hs
  | cons e t ih =>
    intro st o s hs
    rcases ih _ _ s hs with h | h
    · cases e with
      | suppr u =>
        rcases (mem_addSuppr _ _ _ _).1 h with h1 | ⟨h1, _⟩
        · exact Or.inl h1
        · exact Or.inr (by simp [supprsOf, h1])
      | remarks r => exact Or.inl h
      | macros m => exact Or.inl h
      | report x => exact Or.inl (by simpa [stepEv, reportErr_supprs] using h)
      | probe x => exact Or.inl (by simpa [stepEv] using h)
      | mark toks => exact Or.inl (by simpa [stepEv] using h)
    · cases e <;> first | exact Or.inr (by simp [supprsOf, h]) | exact Or.inr (by simpa [supprsOf] using h)

@[simp] theorem clearLists_supprs (st : State S) : (clearLists st).supprs = st.supprs := rfl
@[simp] theorem clearLists_locMacros (st : State S) : (clearLists st).locMacros = st.locMacros := rfl
@[simp] theorem clearLists_remarks (st : State S) : (clearLists st).remarks = st.remarks := rfl
@[simp] theorem clearLists_exitCode (st : State S) : (clearLists st).exitCode = st.exitCode := rfl
@[simp] theorem clearLists_errorList (st : State S) : (clearLists st).errorList = [] := rfl
@[simp] theorem clearLists_suppressedList (st : State S) : (clearLists st).suppressedList = [] := rfl

@[simp] theorem enter_supprs (cfg : Cfg S) (st : State S) : (enter cfg st).supprs = st.supprs := by
  unfold enter; split <;> rfl
@[simp] theorem enter_locMacros (cfg : Cfg S) (st : State S) : (enter cfg st).locMacros = st.locMacros := by
  unfold enter; split <;> rfl
@[simp] theorem enter_remarks (cfg : Cfg S) (st : State S) : (enter cfg st).remarks = st.remarks := by
  unfold enter; split <;> rfl
@[simp] theorem enter_exitCode (cfg : Cfg S) (st : State S) : (enter cfg st).exitCode = 0 := by
  unfold enter; split <;> rfl

theorem checkFile_supprs_mono (cfg : Cfg S) (st : State S) (tr : Trace S) :
    ∀ s, s ∈ st.supprs → s ∈ (checkFile cfg st tr).1.supprs := by
  intro s hs
  have h := runEvs_supprs_mono cfg tr.evs (enter cfg st) ⟨[], []⟩ s (by simpa using hs)
  unfold checkFile
  dsimp only
  split <;> simpa using h

theorem checkFile_supprs_origin (cfg : Cfg S) (st : State S) (tr : Trace S) :
    ∀ s, s ∈ (checkFile cfg st tr).1.supprs → s ∈ st.supprs ∨ s ∈ supprsOf tr.evs := by
  intro s hs
  have : s ∈ (runEvs cfg (enter cfg st) ⟨[], []⟩ tr.evs).1.supprs := by
    unfold checkFile at hs
    dsimp only at hs
    split at hs <;> simpa using hs
  simpa using runEvs_supprs_origin cfg tr.evs _ _ s this

theorem stateAfter_supprs_mono {α : Type} (cfg : Cfg S) (analyze : α → Trace S) (pre : List α) :
    ∀ (init : State S), ∀ s, s ∈ init.supprs → s ∈ (stateAfter cfg analyze init pre).supprs := by
  induction pre with
  | nil => intro init s hs; exact hs
  | cons f rest ih =>
    intro init s hs
    exact ih _ s (checkFile_supprs_mono cfg init (analyze f) s hs)

/-- where the suppressions left behind come from: the start list or the inline suppressions of an earlier file -/
theorem stateAfter_supprs_origin {α : Type} (cfg : Cfg S) (analyze : α → Trace S) (pre : List α) :
    ∀ (init : State S), ∀ s, s ∈ (stateAfter cfg analyze init pre).supprs →
      s ∈ init.supprs ∨ ∃ g ∈ pre, s ∈ supprsOf (analyze g).evs := by
  induction pre with
  | nil => intro init s hs; exact Or.inl hs
  | cons f rest ih =>
    intro init s hs
    rcases ih _ s hs with h | ⟨g, hg, h⟩
    · rcases checkFile_supprs_origin cfg init (analyze f) s h with h1 | h1
      · exact Or.inl h1
      · exact Or.inr ⟨f, by simp, h1⟩
    · exact Or.inr ⟨g, by simp [hg], h⟩

/-! ### the simulation -/

/-- `c`: the state the file is analysed on in company, `a`: alone; `F`: what earlier files left in `c.supprs` -/
structure Inv (cfg : Cfg S) (F : List S) (evs : List (Ev S)) (c a : State S) : Prop where
  supA : ∀ s, s ∈ a.supprs → s ∈ c.supprs
  supB : ∀ s, s ∈ c.supprs → s ∈ a.supprs ∨ s ∈ F
  fOK : foreignOK cfg F a.supprs a.locMacros evs = true
  sOK : ∀ s, s ∈ supprsOf evs → ∀ s', s' ∈ F → cfg.same s s' = true → s' = s
  mac : ∀ x, x ∈ preMacroReports evs → x.internal = false → lookupMacros c.locMacros x = lookupMacros a.locMacros x
  rem : ∀ x, x ∈ preRemarkReports evs → x.internal = false → remarkFor c.remarks x = remarkFor a.remarks x
  dup : cfg.emitDuplicates = false → ∀ x, x ∈ reportsOf evs → x.internal = false →
    c.errorList.contains x.text = a.errorList.contains x.text ∧
    c.suppressedList.contains x.text = a.suppressedList.contains x.text
  ex : c.exitCode = a.exitCode

theorem updState_exit_congr (cfg : Cfg S) (x m b d) (c a : State S) (h : c.exitCode = a.exitCode) :
    (updState cfg x m b d c).exitCode = (updState cfg x m b d a).exitCode := by
  unfold updState
  repeat' split
  all_goals simp_all

theorem updState_lists_congr (cfg : Cfg S) (x m b d) (c a : State S) (y : Str)
    (h : c.errorList.contains y = a.errorList.contains y ∧ c.suppressedList.contains y = a.suppressedList.contains y) :
    (updState cfg x m b d c).errorList.contains y = (updState cfg x m b d a).errorList.contains y ∧
    (updState cfg x m b d c).suppressedList.contains y = (updState cfg x m b d a).suppressedList.contains y := by
  obtain ⟨h1, h2⟩ := h
  unfold updState
  repeat' split
  all_goals simp_all

/-- one step keeps the outputs equal and the invariant for the rest of the events -/
theorem step_sim (cfg : Cfg S) (F : List S) (e : Ev S) (t : List (Ev S)) (c a : State S) (o : Out)
    (h : Inv cfg F (e :: t) c a) :
    (stepEv cfg c o e).2 = (stepEv cfg a o e).2 ∧ Inv cfg F t (stepEv cfg c o e).1 (stepEv cfg a o e).1 := by
  cases e with
  | suppr s =>
    refine ⟨rfl, ?_⟩
    have hs : ∀ s', s' ∈ F → cfg.same s s' = true → s' = s := h.sOK s (by simp [supprsOf])
    refine ⟨?_, ?_, ?_, ?_, ?_, ?_, ?_, h.ex⟩
    · -- supA
      intro u hu
      rcases (mem_addSuppr _ _ _ _).1 hu with hu | ⟨rfl, hnew⟩
      · exact subset_addSuppr _ _ _ _ (h.supA u hu)
      · by_cases hc : c.supprs.any (fun v => cfg.same u v) = true
        · obtain ⟨v, hv, hsame⟩ := List.any_eq_true.1 hc
          rcases h.supB v hv with hva | hvF
          · have : a.supprs.any (fun v => cfg.same u v) = true := List.any_eq_true.2 ⟨v, hva, hsame⟩
            rw [hnew] at this; cases this
          · have := hs v hvF hsame
            subst this
            exact subset_addSuppr _ _ _ _ hv
        · exact (mem_addSuppr _ _ _ _).2 (Or.inr ⟨rfl, by simpa using hc⟩)
    · -- supB
      intro u hu
      rcases (mem_addSuppr _ _ _ _).1 hu with hu | ⟨rfl, hnew⟩
      · rcases h.supB u hu with h1 | h1
        · exact Or.inl (subset_addSuppr _ _ _ _ h1)
        · exact Or.inr h1
      · by_cases ha : a.supprs.any (fun v => cfg.same u v) = true
        · obtain ⟨v, hv, hsame⟩ := List.any_eq_true.1 ha
          have : c.supprs.any (fun v => cfg.same u v) = true := List.any_eq_true.2 ⟨v, h.supA v hv, hsame⟩
          rw [hnew] at this; cases this
        · exact Or.inl ((mem_addSuppr _ _ _ _).2 (Or.inr ⟨rfl, by simpa using ha⟩))
    · simpa [foreignOK, stepEv] using h.fOK
    · intro u hu; exact h.sOK u (by simp [supprsOf, hu])
    · intro x hx; exact h.mac x (by simpa [preMacroReports] using hx)
    · intro x hx; exact h.rem x (by simpa [preRemarkReports] using hx)
    · intro he x hx; exact h.dup he x (by simpa [reportsOf] using hx)
  | remarks r =>
    refine ⟨rfl, ⟨h.supA, h.supB, ?_, ?_, ?_, ?_, ?_, h.ex⟩⟩
    · simpa [foreignOK, stepEv] using h.fOK
    · intro u hu; exact h.sOK u (by simpa [supprsOf] using hu)
    · intro x hx; exact h.mac x (by simpa [preMacroReports] using hx)
    · intro x _ _; rfl
    · intro he x hx; exact h.dup he x (by simpa [reportsOf] using hx)
  | macros m =>
    refine ⟨rfl, ⟨h.supA, h.supB, ?_, ?_, ?_, ?_, ?_, h.ex⟩⟩
    · simpa [foreignOK, stepEv] using h.fOK
    · intro u hu; exact h.sOK u (by simpa [supprsOf] using hu)
    · intro x _ _; rfl
    · intro x hx; exact h.rem x (by simpa [preRemarkReports] using hx)
    · intro he x hx; exact h.dup he x (by simpa [reportsOf] using hx)
  | probe x =>
    refine ⟨rfl, ⟨?_, ?_, ?_, ?_, ?_, ?_, ?_, ?_⟩⟩
    · simpa [stepEv] using h.supA
    · simpa [stepEv] using h.supB
    · simpa [foreignOK, stepEv] using h.fOK
    · intro u hu; exact h.sOK u (by simpa [supprsOf] using hu)
    · intro y hy; simpa [stepEv] using h.mac y (by simpa [preMacroReports] using hy)
    · intro y hy; simpa [stepEv] using h.rem y (by simpa [preRemarkReports] using hy)
    · intro he y hy; simpa [stepEv] using h.dup he y (by simpa [reportsOf] using hy)
    · simpa [stepEv] using h.ex
  | mark toks =>
    refine ⟨rfl, ⟨?_, ?_, ?_, ?_, ?_, ?_, ?_, ?_⟩⟩
    · simpa [stepEv] using h.supA
    · simpa [stepEv] using h.supB
    · simpa [foreignOK, stepEv] using h.fOK
    · intro u hu; exact h.sOK u (by simpa [supprsOf] using hu)
    · intro y hy; simpa [stepEv] using h.mac y (by simpa [preMacroReports] using hy)
    · intro y hy; simpa [stepEv] using h.rem y (by simpa [preRemarkReports] using hy)
    · intro he y hy; simpa [stepEv] using h.dup he y (by simpa [reportsOf] using hy)
    · simpa [stepEv] using h.ex
  | report x =>
    have hf := h.fOK
    simp only [foreignOK, Bool.and_eq_true, Bool.or_eq_true] at hf
    obtain ⟨hfx, hft⟩ := hf
    have tailInv : ∀ c' a' : State S,
        c'.supprs = c.supprs → a'.supprs = a.supprs → c'.locMacros = c.locMacros → a'.locMacros = a.locMacros →
        c'.remarks = c.remarks → a'.remarks = a.remarks →
        (cfg.emitDuplicates = false → ∀ y, y ∈ reportsOf t → y.internal = false →
          c'.errorList.contains y.text = a'.errorList.contains y.text ∧
          c'.suppressedList.contains y.text = a'.suppressedList.contains y.text) →
        c'.exitCode = a'.exitCode → Inv cfg F t c' a' := by
      intro c' a' e1 e2 e3 e4 e5 e6 hd hx
      refine ⟨?_, ?_, ?_, ?_, ?_, ?_, hd, hx⟩
      · rw [e1, e2]; exact h.supA
      · rw [e1, e2]; exact h.supB
      · rw [e2, e4]; exact hft
      · intro u hu; exact h.sOK u (by simpa [supprsOf] using hu)
      · intro y hy; rw [e3, e4]; exact h.mac y (by simp [preMacroReports, hy])
      · intro y hy; rw [e5, e6]; exact h.rem y (by simp [preRemarkReports, hy])
    by_cases hi : x.internal = true
    · have e1 : stepEv cfg c o (.report x) = (c, { o with forwarded := o.forwarded ++ [x] }) := by
        have r : reportErr cfg c o x = (c, { o with forwarded := o.forwarded ++ [x] }) := by simp [reportErr, hi]
        simp only [stepEv, r]
        rw [flag_internal cfg c x c hi]
      have e2 : stepEv cfg a o (.report x) = (a, { o with forwarded := o.forwarded ++ [x] }) := by
        have r : reportErr cfg a o x = (a, { o with forwarded := o.forwarded ++ [x] }) := by simp [reportErr, hi]
        simp only [stepEv, r]
        rw [flag_internal cfg a x a hi]
      rw [e1, e2]
      exact ⟨rfl, tailInv c a rfl rfl rfl rfl rfl rfl
        (fun he y hy => h.dup he y (by simp [reportsOf, hy])) h.ex⟩
    · have hi' : x.internal = false := by simpa using hi
      have hm : lookupMacros c.locMacros x = lookupMacros a.locMacros x :=
        h.mac x (by simp [preMacroReports]) hi'
      have hr : remarkFor c.remarks x = remarkFor a.remarks x :=
        h.rem x (by simp [preRemarkReports]) hi'
      have hsup : c.supprs.any (fun s => cfg.hits s x (lookupMacros c.locMacros x)) =
          a.supprs.any (fun s => cfg.hits s x (lookupMacros a.locMacros x)) := by
        rw [hm]
        apply Bool.eq_iff_iff.2
        constructor
        · intro hc
          obtain ⟨s, hs, hhit⟩ := List.any_eq_true.1 hc
          rcases h.supB s hs with h1 | h1
          · exact List.any_eq_true.2 ⟨s, h1, hhit⟩
          · rcases hfx with hfx | hfx
            · rw [hi'] at hfx; cases hfx
            · have := List.all_eq_true.1 hfx s h1
              simp only [Bool.or_eq_true, Bool.not_eq_true'] at this
              rcases this with h2 | h2
              · rw [hhit] at h2; cases h2
              · exact h2
        · intro ha
          obtain ⟨s, hs, hhit⟩ := List.any_eq_true.1 ha
          exact List.any_eq_true.2 ⟨s, h.supA s hs, hhit⟩
      have hdupx : cfg.emitDuplicates = false →
          (c.errorList.contains x.text = a.errorList.contains x.text ∧
           c.suppressedList.contains x.text = a.suppressedList.contains x.text) :=
        fun he => h.dup he x (by simp [reportsOf]) hi'
      have hdh : (!cfg.emitDuplicates &&
            (if c.supprs.any (fun s => cfg.hits s x (lookupMacros c.locMacros x)) then c.suppressedList else c.errorList).contains x.text) =
          (!cfg.emitDuplicates &&
            (if a.supprs.any (fun s => cfg.hits s x (lookupMacros a.locMacros x)) then a.suppressedList else a.errorList).contains x.text) := by
        rw [hsup]
        cases he : cfg.emitDuplicates
        · obtain ⟨d1, d2⟩ := hdupx he
          cases hA : a.supprs.any (fun s => cfg.hits s x (lookupMacros a.locMacros x))
          · simpa using d1
          · simpa using d2
        · simp
      simp only [stepEv, reportErr, hi', Bool.false_eq_true, if_false]
      rw [hdh, hsup, hm, hr]
      refine ⟨rfl, tailInv _ _ (by simp) (by simp) (by simp) (by simp) (by simp) (by simp) ?_ ?_⟩
      · intro he y hy hyi
        simpa using updState_lists_congr cfg x _ _ _ c a y.text (h.dup he y (by simp [reportsOf, hy]) hyi)
      · simpa using updState_exit_congr cfg x _ _ _ c a h.ex

theorem run_sim (cfg : Cfg S) (F : List S) (evs : List (Ev S)) : ∀ (c a : State S) (o : Out),
    Inv cfg F evs c a →
    (runEvs cfg c o evs).2 = (runEvs cfg a o evs).2 ∧ (runEvs cfg c o evs).1.exitCode = (runEvs cfg a o evs).1.exitCode := by
  induction evs with
  | nil => intro c a o h; exact ⟨rfl, h.ex⟩
  | cons e t ih =>
    intro c a o h
    obtain ⟨ho, hi⟩ := step_sim cfg F e t c a o h
    simp only [runEvs]
    rw [ho]
    exact ih _ _ _ hi

/-! ### the duplicate filters are empty after a file that took the normal exit -/

theorem checkFile_lists_normal (cfg : Cfg S) (st : State S) (tr : Trace S) (h : tr.early = false) :
    (checkFile cfg st tr).1.errorList = [] ∧ (checkFile cfg st tr).1.suppressedList = [] := by
  unfold checkFile
  simp [h]

/-! ### the outer duplicate filter -/

theorem dedupBy_append (key : Finding → Str) (l1 : List Finding) : ∀ (seen : List Str) (l2 : List Finding),
    dedupBy key seen (l1 ++ l2) = dedupBy key seen l1 ++ dedupBy key ((dedupBy key seen l1).reverse.map key ++ seen) l2 := by
  induction l1 with
  | nil => intro seen l2; simp [dedupBy]
  | cons x t ih =>
    intro seen l2
    by_cases hx : seen.contains (key x) = true
    · simp only [List.cons_append, dedupBy, hx, if_true]
      exact ih seen l2
    · simp only [List.cons_append, dedupBy, hx, if_false, Bool.false_eq_true]
      rw [ih]
      simp [List.append_assoc]

/-- membership in the `seen` list is all that matters -/
theorem dedupBy_seen_congr (key : Finding → Str) (l : List Finding) : ∀ (s1 s2 : List Str),
    (∀ k, s1.contains k = s2.contains k) → dedupBy key s1 l = dedupBy key s2 l := by
  induction l with
  | nil => intro _ _ _; rfl
  | cons x t ih =>
    intro s1 s2 h
    simp only [dedupBy, h (key x)]
    split
    · exact ih _ _ h
    · congr 1
      apply ih
      intro k
      rw [List.contains_cons, List.contains_cons, h k]

/-- every key of the output is new and the output has no repeated key -/
theorem dedupBy_keys (key : Finding → Str) (l : List Finding) : ∀ (seen : List Str),
    (∀ x, x ∈ dedupBy key seen l → seen.contains (key x) = false) ∧
    ((dedupBy key seen l).map key).Nodup := by
  induction l with
  | nil => intro seen; simp [dedupBy]
  | cons x t ih =>
    intro seen
    by_cases hx : seen.contains (key x) = true
    · simp only [dedupBy, hx, if_true]; exact ih seen
    · have hx' : seen.contains (key x) = false := by simpa using hx
      simp only [dedupBy, hx, if_false, Bool.false_eq_true]
      obtain ⟨h1, h2⟩ := ih (key x :: seen)
      constructor
      · intro y hy
        rcases List.mem_cons.1 hy with rfl | hy
        · exact hx'
        · have := h1 y hy
          simp only [List.contains_cons, Bool.or_eq_false_iff] at this
          exact this.2
      · simp only [List.map_cons, List.nodup_cons]
        refine ⟨?_, h2⟩
        intro hm
        obtain ⟨y, hy, hk⟩ := List.mem_map.1 hm
        have := h1 y hy
        simp [hk] at this

/-- a list without repeated keys, none of them seen, passes unchanged -/
theorem dedupBy_id (key : Finding → Str) (l : List Finding) : ∀ (seen : List Str),
    (∀ x, x ∈ l → seen.contains (key x) = false) → (l.map key).Nodup → dedupBy key seen l = l := by
  induction l with
  | nil => intro _ _ _; rfl
  | cons x t ih =>
    intro seen h1 h2
    have hx : seen.contains (key x) = false := h1 x (by simp)
    simp only [dedupBy, hx, Bool.false_eq_true, if_false]
    congr 1
    simp only [List.map_cons, List.nodup_cons] at h2
    apply ih _ _ h2.2
    intro y hy
    simp only [List.contains_cons, Bool.or_eq_false_iff]
    refine ⟨?_, h1 y (by simp [hy])⟩
    apply beq_false_of_ne
    intro hk
    exact h2.1 (List.mem_map.2 ⟨y, hy, hk⟩)

/-- filtering a stream that was already filtered (from nothing) changes nothing: the keys it lets through are
    remembered either way -/
theorem dedupBy_dedupBy_prefix (key : Finding → Str) (l1 l2 : List Finding) (seen : List Str) :
    dedupBy key seen (dedupBy key seen l1 ++ l2) = dedupBy key seen (l1 ++ l2) := by
  rw [dedupBy_append, dedupBy_append]
  obtain ⟨h1, h2⟩ := dedupBy_keys key l1 seen
  rw [dedupBy_id key _ seen h1 h2]

theorem dedupBy_subset (key : Finding → Str) (l : List Finding) : ∀ (seen : List Str) x, x ∈ dedupBy key seen l → x ∈ l := by
  induction l with
  | nil => intro _ _ h; simp [dedupBy] at h
  | cons y t ih =>
    intro seen x h
    simp only [dedupBy] at h
    split at h
    · exact List.mem_cons_of_mem _ (ih _ _ h)
    · rcases List.mem_cons.1 h with rfl | h
      · simp
      · exact List.mem_cons_of_mem _ (ih _ _ h)

/-- a stream filtered with fewer remembered keys, filtered again: the first filter is invisible -/
theorem dedupBy_dedupBy (key : Finding → Str) (l : List Finding) : ∀ (s0 seen : List Str),
    (∀ k, s0.contains k = true → seen.contains k = true) → dedupBy key seen (dedupBy key s0 l) = dedupBy key seen l := by
  induction l with
  | nil => intro _ _ _; rfl
  | cons x t ih =>
    intro s0 seen hsub
    by_cases h0 : s0.contains (key x) = true
    · have h1 := hsub _ h0
      simp only [dedupBy, h0, h1, if_true]
      exact ih s0 seen hsub
    · simp only [dedupBy, h0, if_false, Bool.false_eq_true]
      have hsub' : ∀ s : List Str, (∀ k, s0.contains k = true → s.contains k = true) → s.contains (key x) = true →
          ∀ k, (key x :: s0).contains k = true → s.contains k = true := by
        intro s hs hx k hk
        rw [List.contains_cons] at hk
        rcases Bool.or_eq_true _ _ ▸ hk with hk | hk
        · have : k = key x := by simpa using hk
          rw [this]; exact hx
        · exact hs k hk
      by_cases h1 : seen.contains (key x) = true
      · simp only [h1, if_true]
        exact ih _ _ (hsub' seen hsub h1)
      · simp only [h1, if_false, Bool.false_eq_true]
        congr 1
        apply ih
        apply hsub' (key x :: seen)
        · intro k hk; rw [List.contains_cons, hsub k hk, Bool.or_true]
        · simp

/-- filtering the concatenation of separately filtered streams = filtering the concatenation -/
theorem dedupBy_flatten (key : Finding → Str) (ls : List (List Finding)) : ∀ (seen : List Str),
    dedupBy key seen (ls.map (dedupBy key [])).flatten = dedupBy key seen ls.flatten := by
  induction ls with
  | nil => intro _; rfl
  | cons l rest ih =>
    intro seen
    simp only [List.map_cons, List.flatten_cons]
    rw [dedupBy_append, dedupBy_append, dedupBy_dedupBy key l [] seen (by intro k hk; simp at hk), ih]

theorem runFrom_append {α : Type} (cfg : Cfg S) (analyze : α → Trace S) (l1 : List α) : ∀ (st : State S) (l2 : List α),
    runFrom cfg analyze st (l1 ++ l2) =
      ((runFrom cfg analyze (runFrom cfg analyze st l1).1 l2).1,
       (runFrom cfg analyze st l1).2 ++ (runFrom cfg analyze (runFrom cfg analyze st l1).1 l2).2) := by
  induction l1 with
  | nil => intro st l2; simp [runFrom]
  | cons f rest ih => intro st l2; simp [runFrom, ih]

theorem runFrom_length {α : Type} (cfg : Cfg S) (analyze : α → Trace S) (l : List α) : ∀ (st : State S),
    (runFrom cfg analyze st l).2.length = l.length := by
  induction l with
  | nil => intro _; rfl
  | cons f rest ih => intro st; simp [runFrom, ih]

/-! ### the `checked` flags: who can set the flag of an entry -/

@[simp] theorem updState_checked (cfg : Cfg S) (x m b d) (st : State S) : (updState cfg x m b d st).checked = st.checked := by
  unfold updState; dsimp only; repeat' split
  all_goals rfl

theorem reportErr_checked (cfg : Cfg S) (st : State S) (o x) : (reportErr cfg st o x).1.checked = st.checked := by
  unfold reportErr; split <;> simp

@[simp] theorem clearLists_checked (st : State S) : (clearLists st).checked = st.checked := rfl
@[simp] theorem enter_checked (cfg : Cfg S) (st : State S) : (enter cfg st).checked = st.checked := by
  unfold enter; split <;> rfl

/-- an event of a file can set the `checked` flag of the entry `s`: a marked token list names the file of `s` on a line
    that passes the line test, or a tested message touches `s` (for some macro names) -/
def couldCheck (cfg : Cfg S) (s : S) (evs : List (Ev S)) : Prop :=
  (∃ toks, toks ∈ marksOf evs ∧ ∃ t, t ∈ toks ∧ cfg.fileOf s = t.1 ∧ cfg.markLine s t.2 = true) ∨
  (∃ x, x ∈ testedOf evs ∧ ∃ m, cfg.touches s x m = true)

theorem markStep_checked_mem (cfg : Cfg S) (toks : List (Str × Int)) (st : State S) (s : S) :
    s ∈ (markStep cfg toks st).checked ↔
      s ∈ st.checked ∨ (s ∈ st.supprs ∧ ∃ t, t ∈ toks ∧ cfg.fileOf s = t.1 ∧ cfg.markLine s t.2 = true) := by
  simp only [markStep, List.mem_append, List.mem_filter, List.any_eq_true, Bool.and_eq_true, beq_iff_eq]

theorem flag_checked_mem (cfg : Cfg S) (st : State S) (x : Finding) (st' : State S) (s : S)
    (h : s ∈ (flag cfg st x st').checked) :
    s ∈ st'.checked ∨ (x.internal = false ∧ s ∈ st.supprs ∧ cfg.touches s x (lookupMacros st.locMacros x) = true) := by
  unfold flag at h
  by_cases hi : x.internal = true
  · rw [if_pos hi] at h; exact Or.inl h
  · rw [if_neg hi] at h
    simp only [List.mem_append, List.mem_filter] at h
    rcases h with h | h
    · exact Or.inl h
    · exact Or.inr ⟨by simpa using hi, h.1, h.2⟩

theorem stepEv_checked_origin (cfg : Cfg S) (st : State S) (o : Out) (e : Ev S) (s : S)
    (h : s ∈ (stepEv cfg st o e).1.checked) : s ∈ st.checked ∨ couldCheck cfg s [e] := by
  cases e with
  | suppr u => exact Or.inl h
  | remarks r => exact Or.inl h
  | macros m => exact Or.inl h
  | report x =>
    rcases flag_checked_mem cfg st x _ s h with h1 | ⟨_, _, h3⟩
    · exact Or.inl (by simpa [reportErr_checked] using h1)
    · exact Or.inr (Or.inr ⟨x, by simp [testedOf], _, h3⟩)
  | probe x =>
    rcases flag_checked_mem cfg st x _ s h with h1 | ⟨_, _, h3⟩
    · exact Or.inl h1
    · exact Or.inr (Or.inr ⟨x, by simp [testedOf], _, h3⟩)
  | mark toks =>
    rcases (markStep_checked_mem cfg toks st s).1 h with h1 | ⟨_, t, ht, hf, hl⟩
    · exact Or.inl h1
    · exact Or.inr (Or.inl ⟨toks, by simp [marksOf], t, ht, hf, hl⟩)

theorem couldCheck_cons (cfg : Cfg S) (s : S) (e : Ev S) (t : List (Ev S)) :
    couldCheck cfg s (e :: t) ↔ couldCheck cfg s [e] ∨ couldCheck cfg s t := by
  unfold couldCheck
  cases e <;> simp [marksOf, testedOf] <;> grind

theorem runEvs_checked_origin (cfg : Cfg S) (evs : List (Ev S)) : ∀ (st : State S) (o : Out) (s : S),
    s ∈ (runEvs cfg st o evs).1.checked → s ∈ st.checked ∨ couldCheck cfg s evs := by
  induction evs with
  | nil => intro st o s h; exact Or.inl h
  | cons e t ih =>
    intro st o s h
    rcases ih _ _ s h with h1 | h1
    · rcases stepEv_checked_origin cfg st o e s h1 with h2 | h2
      · exact Or.inl h2
      · exact Or.inr ((couldCheck_cons cfg s e t).2 (Or.inl h2))
    · exact Or.inr ((couldCheck_cons cfg s e t).2 (Or.inr h1))

theorem checkFile_checked_origin (cfg : Cfg S) (st : State S) (tr : Trace S) (s : S)
    (h : s ∈ (checkFile cfg st tr).1.checked) : s ∈ st.checked ∨ couldCheck cfg s tr.evs := by
  have : s ∈ (runEvs cfg (enter cfg st) ⟨[], []⟩ tr.evs).1.checked := by
    unfold checkFile at h
    dsimp only at h
    split at h <;> simpa using h
  simpa using runEvs_checked_origin cfg tr.evs _ _ s this

/-- the flag of an entry is set at the start, or some file of the run could set it -/
theorem stateAfter_checked_origin {α : Type} (cfg : Cfg S) (analyze : α → Trace S) (pre : List α) :
    ∀ (init : State S) (s : S), s ∈ (stateAfter cfg analyze init pre).checked →
      s ∈ init.checked ∨ ∃ g, g ∈ pre ∧ couldCheck cfg s (analyze g).evs := by
  induction pre with
  | nil => intro init s h; exact Or.inl h
  | cons f rest ih =>
    intro init s h
    rcases ih _ s h with h1 | ⟨g, hg, h1⟩
    · rcases checkFile_checked_origin cfg init (analyze f) s h1 with h2 | h2
      · exact Or.inl h2
      · exact Or.inr ⟨f, by simp, h2⟩
    · exact Or.inr ⟨g, by simp [hg], h1⟩

end Cppcheck.RunState

import Cppcheck.Model.HtmlReport
namespace Cppcheck.Html
open List

theorem insertFront_perm {α} (lt : α → α → Bool) (x : α) (l : List α) : insertFront lt x l ~ x :: l := by
  induction l with
  | nil => simp [insertFront]
  | cons y r ih =>
    simp only [insertFront]
    split
    · exact ((Perm.cons y ih).trans (Perm.swap x y r))
    · exact Perm.refl _

theorem stableSort_perm {α} (lt : α → α → Bool) (l : List α) : stableSort lt l ~ l := by
  induction l with
  | nil => simp [stableSort]
  | cons x r ih => exact (insertFront_perm lt x _).trans (Perm.cons x ih)

theorem addErr_perm (gs : List Group) (n : Nat) (e : Err) :
    (addErr gs n e).flatMap (·.errs) ~ gs.flatMap (·.errs) ++ [e] := by
  induction gs with
  | nil => simp [addErr]
  | cons g r ih =>
    simp only [addErr]
    split
    · show (g.errs ++ [e]) ++ r.flatMap (·.errs) ~ (g.errs ++ r.flatMap (·.errs)) ++ [e]
      rw [List.append_assoc, List.append_assoc]
      exact Perm.append_left _ perm_append_comm
    · show g.errs ++ (addErr r n e).flatMap (·.errs) ~ (g.errs ++ r.flatMap (·.errs)) ++ [e]
      rw [List.append_assoc]
      exact Perm.append_left _ ih

theorem groupsAux_perm (es : List Err) : ∀ gs : List Group,
    (groupsAux es gs).flatMap (·.errs) ~ gs.flatMap (·.errs) ++ es := by
  induction es with
  | nil => intro gs; simp [groupsAux]
  | cons e r ih =>
    intro gs
    simp only [groupsAux]
    refine (ih _).trans ?_
    refine (Perm.append_right r (addErr_perm gs gs.length e)).trans ?_
    simp [List.append_assoc]

theorem groups_perm (es : List Err) : (groups es).flatMap (·.errs) ~ es := by
  simpa [groups] using groupsAux_perm es []

theorem flatMap_perm_congr {α β} (l : List α) (f h : α → List β) (hh : ∀ a ∈ l, f a ~ h a) :
    l.flatMap f ~ l.flatMap h := by
  induction l with
  | nil => simp
  | cons a r ih =>
    simp only [List.flatMap_cons]
    exact Perm.append (hh a (by simp)) (ih (fun b hb => hh b (by simp [hb])))

/-- every group created by `addErr` holds only findings of its own file -/
theorem addErr_file (gs : List Group) (n : Nat) (e : Err)
    (h : ∀ g ∈ gs, ∀ x ∈ g.errs, x.file = g.file) :
    ∀ g ∈ addErr gs n e, ∀ x ∈ g.errs, x.file = g.file := by
  induction gs with
  | nil =>
    intro g hg x hx
    simp only [addErr, List.mem_singleton] at hg
    subst hg
    simp only [List.mem_singleton] at hx
    subst hx; rfl
  | cons g0 r ih =>
    intro g hg x hx
    simp only [addErr] at hg
    split at hg
    · rename_i hf
      simp only [List.mem_cons] at hg
      rcases hg with hg | hg
      · subst hg
        simp only [List.mem_append, List.mem_singleton] at hx
        rcases hx with hx | hx
        · exact h g0 (by simp) x hx
        · subst hx; exact hf.symm
      · exact h g (by simp [hg]) x hx
    · simp only [List.mem_cons] at hg
      rcases hg with hg | hg
      · subst hg; exact h g (by simp) x hx
      · exact ih (fun g' hg' => h g' (by simp [hg'])) g hg x hx

theorem groupsAux_file (es : List Err) : ∀ gs : List Group,
    (∀ g ∈ gs, ∀ x ∈ g.errs, x.file = g.file) →
    ∀ g ∈ groupsAux es gs, ∀ x ∈ g.errs, x.file = g.file := by
  induction es with
  | nil => intro gs h; simpa [groupsAux] using h
  | cons e r ih => intro gs h; exact ih _ (addErr_file gs gs.length e h)

end Cppcheck.Html

import Cppcheck.Model.HtmlReport
namespace Cppcheck.Html
open List

theorem insertFront_perm {α} (lt : α → α → Bool) (x : α) (l : List α) : insertFront lt x l ~ x :: l := by
  induction l with
  | nil => simp [insertFront]
  | cons y r ih =>
    simp only [insertFront]
    split
    · exact ((Perm.cons y ih).trans (Perm.swap x y r))
    · exact Perm.refl _

theorem stableSort_perm {α} (lt : α → α → Bool) (l : List α) : stableSort lt l ~ l := by
  induction l with
  | nil => simp [stableSort]
  | cons x r ih => exact (insertFront_perm lt x _).trans (Perm.cons x ih)

theorem addErr_perm (gs : List Group) (n : Nat) (e : Err) :
    (addErr gs n e).flatMap (·.errs) ~ gs.flatMap (·.errs) ++ [e] := by
  induction gs with
  | nil => simp [addErr]
  | cons g r ih =>
    simp only [addErr]
    split
    · show (g.errs ++ [e]) ++ r.flatMap (·.errs) ~ (g.errs ++ r.flatMap (·.errs)) ++ [e]
      rw [List.append_assoc, List.append_assoc]
      exact Perm.append_left _ perm_append_comm
    · show g.errs ++ (addErr r n e).flatMap (·.errs) ~ (g.errs ++ r.flatMap (·.errs)) ++ [e]
      rw [List.append_assoc]
      exact Perm.append_left _ ih

theorem groupsAux_perm (es : List Err) : ∀ gs : List Group,
    (groupsAux es gs).flatMap (·.errs) ~ gs.flatMap (·.errs) ++ es := by
  induction es with
  | nil => intro gs; simp [groupsAux]
  | cons e r ih =>
    intro gs
    simp only [groupsAux]
    refine (ih _).trans ?_
    refine (Perm.append_right r (addErr_perm gs gs.length e)).trans ?_
    simp [List.append_assoc]

theorem groups_perm (es : List Err) : (groups es).flatMap (·.errs) ~ es := by
  simpa [groups] using groupsAux_perm es []

theorem flatMap_perm_congr {α β} (l : List α) (f h : α → List β) (hh : ∀ a ∈ l, f a ~ h a) :
    l.flatMap f ~ l.flatMap h := by
  induction l with
  | nil => simp
  | cons a r ih =>
    simp only [List.flatMap_cons]
    exact Perm.append (hh a (by simp)) (ih (fun b hb => hh b (by simp [hb])))

/-- every group created by `addErr` holds only findings of its own file -/
theorem addErr_file (gs : List Group) (n : Nat) (e : Err)
    (h : ∀ g ∈ gs, ∀ x ∈ g.errs, x.file = g.file) :
    ∀ g ∈ addErr gs n e, ∀ x ∈ g.errs, x.file = g.file := by
  induction gs with
  | nil =>
    intro g hg x hx
    simp only [addErr, List.mem_singleton] at hg
    subst hg
    simp only [List.mem_singleton] at hx
    subst hx; rfl
  | cons g0 r ih =>
    intro g hg x hx
    simp only [addErr] at hg
    split at hg
    · rename_i hf
      simp only [List.mem_cons] at hg
      rcases hg with hg | hg
      · subst hg
        simp only [List.mem_append, List.mem_singleton] at hx
        rcases hx with hx | hx
        · exact h g0 (by simp) x hx
        · subst hx; exact hf.symm
      · exact h g (by simp [hg]) x hx
    · simp only [List.mem_cons] at hg
      rcases hg with hg | hg
      · subst hg; exact h g (by simp) x hx
      · exact ih (fun g' hg' => h g' (by simp [hg'])) g hg x hx

theorem groupsAux_file (es : List Err) : ∀ gs : List Group,
    (∀ g ∈ gs, ∀ x ∈ g.errs, x.file = g.file) →
    ∀ g ∈ groupsAux es gs, ∀ x ∈ g.errs, x.file = g.file := by
  induction es with
  | nil => intro gs h; simpa [groupsAux] using h
  | cons e r ih => intro gs h; exact ih _ (addErr_file gs gs.length e h)

end Cppcheck.Html

namespace Cppcheck.Html
open List

/-! ### encoders produce no markup -/

def special (c : Char) : Bool := c = '<' || c = '>' || c = '"' || c = '\''

/-- neither a markup character nor an ampersand -/
def plain (c : Char) : Bool := !special c && c != '&'

/-- text in which `<`, `>`, `"`, `'` do not occur and every `&` starts one of the five entities `html_escape` emits -/
def wellEscaped : Str → Bool
  | '&' :: 'a' :: 'm' :: 'p' :: ';' :: r => wellEscaped r
  | '&' :: 'l' :: 't' :: ';' :: r => wellEscaped r
  | '&' :: 'g' :: 't' :: ';' :: r => wellEscaped r
  | '&' :: 'q' :: 'u' :: 'o' :: 't' :: ';' :: r => wellEscaped r
  | '&' :: 'a' :: 'p' :: 'o' :: 's' :: ';' :: r => wellEscaped r
  | c :: r => plain c && wellEscaped r
  | [] => true

theorem escape_wellEscaped (s : Str) : wellEscaped (htmlEscape s) = true := by
  induction s with
  | nil => rfl
  | cons c r ih =>
    have hstep : htmlEscape (c :: r) = escChar c ++ htmlEscape r := by simp [htmlEscape]
    rw [hstep]
    unfold escChar
    split
    · simpa [wellEscaped] using ih
    · simpa [wellEscaped] using ih
    · simpa [wellEscaped] using ih
    · simpa [wellEscaped] using ih
    · simpa [wellEscaped] using ih
    · rename_i h1 h2 h3 h4 h5
      simp only [List.singleton_append]
      rw [wellEscaped.eq_def]
      split <;> simp_all [plain, special]

theorem plain_wellEscaped : ∀ s : Str, (∀ c ∈ s, plain c = true) → wellEscaped s = true := by
  intro s
  induction s with
  | nil => intro _; rfl
  | cons c r ih =>
    intro h
    have hc := h c (by simp)
    have hr := ih (fun x hx => h x (by simp [hx]))
    have hne : c ≠ '&' := by
      intro he; subst he; simp [plain] at hc
    rw [wellEscaped.eq_def]
    split <;> simp_all

theorem isDigit_plain (c : Char) (h : c.isDigit = true) : plain c = true := by
  simp only [Char.isDigit, Bool.and_eq_true, decide_eq_true_eq] at h
  simp only [plain, special, Bool.and_eq_true, Bool.not_eq_true', Bool.or_eq_false_iff, decide_eq_false_iff_not, bne_iff_ne, ne_eq]
  refine ⟨⟨⟨⟨?_, ?_⟩, ?_⟩, ?_⟩, ?_⟩ <;> intro he <;> subst he <;> revert h <;> decide

theorem natStr_plain (n : Nat) : ∀ c ∈ natStr n, plain c = true := by
  intro c hc
  apply isDigit_plain
  have : natStr n = Nat.toDigits 10 n := by
    simp [natStr]
  rw [this] at hc
  exact Nat.isDigit_of_mem_toDigits (by decide) (by decide) hc

theorem mem_ite_append {c : Char} {b : Bool} {a v : Str} (h : c ∈ (if b = true then a ++ v else v)) :
    c ∈ a ∨ c ∈ v := by
  cases b <;> simp_all

theorem css_plain (s : Str) : ∀ c ∈ toCssSelector s, plain c = true := by
  intro c hc
  have hv : ∀ c ∈ s.map (fun c => if cssOk c then c else '-'), plain c = true := by
    intro c hc
    simp only [List.mem_map] at hc
    obtain ⟨a, _, rfl⟩ := hc
    split
    · rename_i h
      simp only [cssOk, Bool.or_eq_true, decide_eq_true_eq, Bool.and_eq_true] at h
      simp only [plain, special, Bool.and_eq_true, Bool.not_eq_true', Bool.or_eq_false_iff, decide_eq_false_iff_not, bne_iff_ne, ne_eq]
      refine ⟨⟨⟨⟨?_, ?_⟩, ?_⟩, ?_⟩, ?_⟩ <;> intro hh <;> subst hh <;> revert h <;> decide
    · decide
  dsimp only [toCssSelector] at hc
  rcases mem_ite_append hc with hc | hc
  · have h3 : "cpp".toList = ['c', 'p', 'p'] := by decide
    rw [h3] at hc
    simp only [List.mem_cons, List.not_mem_nil, or_false] at hc
    rcases hc with h | h | h <;> subst h <;> decide
  · exact hv c hc

end Cppcheck.Html

namespace Cppcheck.Html
open List

/-! ### annotations behind a source line -/

theorem replaceNl_append_nl (a x : Str) (ha : '\n' ∉ a) : replaceNl (a ++ ['\n']) x = a ++ x := by
  have h1 : ∀ a : Str, '\n' ∉ a → a.flatMap (fun c => if c = '\n' then x else [c]) = a := by
    intro a
    induction a with
    | nil => intro _; rfl
    | cons c r ih =>
      intro h
      simp only [List.mem_cons, not_or] at h
      have hc : c ≠ '\n' := fun hh => h.1 hh.symm
      simp [List.flatMap_cons, hc, ih h.2]
  simp [replaceNl, List.flatMap_append, h1 a ha]

theorem replaceLastNl_append_nl (a x : Str) : replaceLastNl (a ++ ['\n']) x = a ++ x := by
  simp [replaceLastNl, List.idxOf?, List.findIdx?_cons]

/-- the annotation of an entry without its final newline -/
def annotBody (p : PageErr) : Option Str := (annotPieces p).map fun bx => (render bx.2).dropLast

theorem annot_render_ends_nl (p : PageErr) (b : Bool) (x : List Piece) (h : annotPieces p = some (b, x)) :
    render x = (render x).dropLast ++ ['\n'] := by
  have key : ∀ (pre : List Piece) (s : Str), render (pre ++ [Piece.lit (s ++ ['\n'])]) =
      (render (pre ++ [Piece.lit (s ++ ['\n'])])).dropLast ++ ['\n'] := by
    intro pre s
    have : render (pre ++ [Piece.lit (s ++ ['\n'])]) = (render pre ++ s) ++ ['\n'] := by
      simp [render, List.flatMap_append, Piece.render]
    rw [this, List.dropLast_concat]
  unfold annotPieces at h
  simp only at h
  split at h
  · simp at h
  · rename_i c hc
    split at h <;> simp only [Option.some.injEq, Prod.mk.injEq] at h <;> obtain ⟨_, rfl⟩ := h
    · exact key [L "<div class=\"verbose expandable\"><span class=\"", L c, L "\">&lt;--- ", .esc p.msg,
        L " <span class=\"marker\">[+]</span></span><div class=\"content\">", .esc (replace012 _)] "</div></div>".toList
    · exact key [L "<span class=\"", L c, L "\">&lt;--- ", .esc p.msg] "</span>".toList

/-- when no annotation text contains a newline of its own, the loop over the entries of a line simply appends
    their annotations, in page order, each once -/
theorem annotateLine_concat : ∀ (ps : List PageErr) (acc : Str), '\n' ∉ acc →
    (∀ p ∈ ps, ∀ y, annotBody p = some y → '\n' ∉ y) →
    annotateLine (acc ++ ['\n']) ps = acc ++ (ps.filterMap annotBody).flatten ++ ['\n'] := by
  intro ps
  induction ps with
  | nil => intro acc _ _; simp [annotateLine]
  | cons p r ih =>
    intro acc hacc h
    have hr := fun a ha => ih a ha (fun q hq => h q (by simp [hq]))
    cases hp : annotPieces p with
    | none =>
      have hb : annotBody p = none := by simp [annotBody, hp]
      have : annotateLine (acc ++ ['\n']) (p :: r) = annotateLine (acc ++ ['\n']) r := by
        simp [annotateLine, hp]
      rw [this, hr acc hacc]
      simp [hb]
    | some bx =>
      obtain ⟨b, x⟩ := bx
      have hb : annotBody p = some (render x).dropLast := by simp [annotBody, hp]
      have hnl := h p (by simp) _ hb
      have hx := annot_render_ends_nl p b x hp
      have hstep : annotateLine (acc ++ ['\n']) (p :: r) = annotateLine ((acc ++ (render x).dropLast) ++ ['\n']) r := by
        have h1 : replaceNl (acc ++ ['\n']) (render x) = (acc ++ (render x).dropLast) ++ ['\n'] := by
          rw [replaceNl_append_nl _ _ hacc]; conv => lhs; rw [hx]
          simp
        have h2 : replaceLastNl (acc ++ ['\n']) (render x) = (acc ++ (render x).dropLast) ++ ['\n'] := by
          rw [replaceLastNl_append_nl]; conv => lhs; rw [hx]
          simp
        cases b <;> simp only [annotateLine, List.foldl_cons, hp, h1, h2]
      rw [hstep, hr _ (by simp [hacc, hnl])]
      simp [hb]

end Cppcheck.Html

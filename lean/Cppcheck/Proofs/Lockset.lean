import Cppcheck.Model.Lockset

/-! C16 — helper lemmas: paths of a disciplined statement are disciplined flat events; the lockset invariant of the
interleaving semantics; executable runs are reachable states. -/
namespace Cppcheck.Lockset

/-! ### list helpers -/

theorem getElem?_set_of {α} {l : List α} {i : Nat} {old a : α} (h : l[i]? = some old) (j : Nat) :
    (l.set i a)[j]? = if j = i then some a else l[j]? := by
  have hi : i < l.length := by
    rcases Nat.lt_or_ge i l.length with h' | h'
    · exact h'
    · rw [List.getElem?_eq_none h'] at h; cases h
  rw [List.getElem?_set]
  by_cases hji : j = i
  · subst hji; simp [hi]
  · have : ¬ i = j := fun e => hji e.symm
    simp [hji, this]

theorem contains_iff {H : List Mtx} {m : Mtx} : H.contains m = true ↔ m ∈ H := by
  simp

/-! ### flat scans -/

theorem balancedFrom_nil {H : List Mtx} : balancedFrom H [] = true ↔ H = [] := by
  simp [balancedFrom, List.isEmpty_iff]

theorem balancedFrom_cons {H : List Mtx} {op : Op} {ops : List Op} :
    balancedFrom H (op :: ops) = true ↔ lockOK H op = true ∧ balancedFrom (heldAfter H op) ops = true := by
  simp [balancedFrom]

theorem disciplinedFrom_cons {g : GuardMap} {H : List Mtx} {op : Op} {ops : List Op} :
    disciplinedFrom g H (op :: ops) = true ↔ accOK g H op = true ∧ disciplinedFrom g (heldAfter H op) ops = true := by
  simp [disciplinedFrom]

theorem lockOK_toOp (H : List Mtx) (a : Acc) : lockOK H a.toOp = true := by
  cases a <;> rfl

theorem heldAfter_toOp (H : List Mtx) (a : Acc) : heldAfter H a.toOp = H := by
  cases a <;> rfl

/-! ### every path of a balanced / disciplined statement, followed by a good continuation, is good -/

theorem path_balanced {s : Stmt} {p : List Op} {d : Bool} (hp : Path s p d) :
    ∀ (H : List Mtx) (k : List Op), s.balanced H = true → balancedFrom H k = true → balancedFrom H (p ++ k) = true := by
  induction hp with
  | abort s => intro H k _ hk; simpa using hk
  | skip => intro H k _ hk; simpa using hk
  | acc a =>
    intro H k _ hk
    simp only [List.cons_append, List.nil_append]
    rw [balancedFrom_cons]
    exact ⟨lockOK_toOp H a, by rw [heldAfter_toOp]; exact hk⟩
  | seqAbort _ ih =>
    intro H k hs hk
    simp only [Stmt.balanced, Bool.and_eq_true] at hs
    exact ih H k hs.1 hk
  | seq _ _ ih1 ih2 =>
    intro H k hs hk
    simp only [Stmt.balanced, Bool.and_eq_true] at hs
    rw [List.append_assoc]
    exact ih1 H _ hs.1 (ih2 H k hs.2 hk)
  | @locked m b p d _ ih =>
    intro H k hs hk
    simp only [Stmt.balanced, Bool.and_eq_true] at hs
    have hk' : balancedFrom (m :: H) (Op.rel m :: k) = true := by
      rw [balancedFrom_cons]
      refine ⟨by simp [lockOK], ?_⟩
      simpa [heldAfter] using hk
    have := ih (m :: H) (Op.rel m :: k) hs.2 hk'
    simp only [List.cons_append, List.append_assoc]
    rw [balancedFrom_cons]
    exact ⟨by simpa [lockOK] using hs.1, by simpa [heldAfter] using this⟩
  | altL _ ih =>
    intro H k hs hk
    simp only [Stmt.balanced, Bool.and_eq_true] at hs
    exact ih H k hs.1 hk
  | altR _ ih =>
    intro H k hs hk
    simp only [Stmt.balanced, Bool.and_eq_true] at hs
    exact ih H k hs.2 hk
  | loopDone => intro H k _ hk; simpa using hk
  | loopIter _ _ ih1 ih2 =>
    intro H k hs hk
    rw [List.append_assoc]
    have hb : _ := hs
    simp only [Stmt.balanced] at hb
    exact ih1 H _ hb (ih2 H k hs hk)
  | loopAbort _ ih =>
    intro H k hs hk
    simp only [Stmt.balanced] at hs
    exact ih H k hs hk
  | scopePass _ ih =>
    intro H k hs hk
    simp only [Stmt.balanced] at hs
    exact ih H k hs hk
  | scopeCatch _ ih =>
    intro H k hs hk
    simp only [Stmt.balanced] at hs
    exact ih H k hs hk

theorem path_disciplined {g : GuardMap} {s : Stmt} {p : List Op} {d : Bool} (hp : Path s p d) :
    ∀ (H : List Mtx) (k : List Op), s.disciplined g H = true → disciplinedFrom g H k = true →
      disciplinedFrom g H (p ++ k) = true := by
  induction hp with
  | abort s => intro H k _ hk; simpa using hk
  | skip => intro H k _ hk; simpa using hk
  | acc a =>
    intro H k hs hk
    simp only [List.cons_append, List.nil_append]
    rw [disciplinedFrom_cons]
    exact ⟨by simpa [Stmt.disciplined] using hs, by rw [heldAfter_toOp]; exact hk⟩
  | seqAbort _ ih =>
    intro H k hs hk
    simp only [Stmt.disciplined, Bool.and_eq_true] at hs
    exact ih H k hs.1 hk
  | seq _ _ ih1 ih2 =>
    intro H k hs hk
    simp only [Stmt.disciplined, Bool.and_eq_true] at hs
    rw [List.append_assoc]
    exact ih1 H _ hs.1 (ih2 H k hs.2 hk)
  | @locked m b p d _ ih =>
    intro H k hs hk
    simp only [Stmt.disciplined] at hs
    have hk' : disciplinedFrom g (m :: H) (Op.rel m :: k) = true := by
      rw [disciplinedFrom_cons]
      refine ⟨by simp [accOK], ?_⟩
      simpa [heldAfter] using hk
    have := ih (m :: H) (Op.rel m :: k) hs hk'
    simp only [List.cons_append, List.append_assoc]
    rw [disciplinedFrom_cons]
    exact ⟨by simp [accOK], by simpa [heldAfter] using this⟩
  | altL _ ih =>
    intro H k hs hk
    simp only [Stmt.disciplined, Bool.and_eq_true] at hs
    exact ih H k hs.1 hk
  | altR _ ih =>
    intro H k hs hk
    simp only [Stmt.disciplined, Bool.and_eq_true] at hs
    exact ih H k hs.2 hk
  | loopDone => intro H k _ hk; simpa using hk
  | loopIter _ _ ih1 ih2 =>
    intro H k hs hk
    rw [List.append_assoc]
    have hb : _ := hs
    simp only [Stmt.disciplined] at hb
    exact ih1 H _ hb (ih2 H k hs hk)
  | loopAbort _ ih =>
    intro H k hs hk
    simp only [Stmt.disciplined] at hs
    exact ih H k hs hk
  | scopePass _ ih =>
    intro H k hs hk
    simp only [Stmt.disciplined] at hs
    exact ih H k hs hk
  | scopeCatch _ ih =>
    intro H k hs hk
    simp only [Stmt.disciplined] at hs
    exact ih H k hs hk

/-- all flat events of a balanced, disciplined structured table are balanced and disciplined -/
theorem paths_ok {P : StmtTable} {g : GuardMap} (hb : P.balanced = true) (hd : P.disciplined g = true)
    {p : List Op} (hp : P.paths p) : balancedFrom [] p = true ∧ disciplinedFrom g [] p = true := by
  obtain ⟨s, hs, d, hpath⟩ := hp
  have hbs : s.balanced [] = true := by
    have := List.all_eq_true.mp hb s hs; simpa using this
  have hds : s.disciplined g [] = true := by
    have := List.all_eq_true.mp hd s hs; simpa using this
  have h1 := path_balanced hpath [] [] hbs (by simp [balancedFrom])
  have h2 := path_disciplined hpath [] [] hds (by simp [disciplinedFrom])
  simp only [List.append_nil] at h1 h2
  exact ⟨h1, h2⟩

theorem somePath_path (s : Stmt) : Path s s.somePath true := by
  induction s with
  | skip => exact .skip
  | acc a => exact .acc a
  | seq s t ihs iht => exact .seq ihs iht
  | locked m b ih => exact .locked ih
  | alt s t ihs _ => exact .altL ihs
  | loop b ih =>
    have := Path.loopIter ih (Path.loopDone (b := b))
    simpa [Stmt.somePath] using this
  | scope b ih => exact .scopePass ih

/-! ### the invariant -/

structure Inv (g : GuardMap) (s : State) : Prop where
  seqIdle : s.phase = .seq → ∀ (i : Nat) (t : Thread), i ≠ 0 → s.threads[i]? = some t → t.rest = []
  parIdle : s.phase = .par → ∀ (t : Thread), s.threads[0]? = some t → t.rest = []
  wok : ∀ (i : Nat) (t : Thread), i ≠ 0 → s.threads[i]? = some t →
    balancedFrom t.held t.rest = true ∧ disciplinedFrom g t.held t.rest = true
  excl : ∀ (i j : Nat) (ti tj : Thread) (m : Mtx), i ≠ j → s.threads[i]? = some ti → s.threads[j]? = some tj → m ∈ ti.held → m ∉ tj.held

theorem mayRun_seq {i : Nat} (h : mayRun .seq i = true) : i = 0 := by
  unfold mayRun at h
  by_cases hi : i = 0
  · exact hi
  · simp [hi] at h

theorem mayRun_par {i : Nat} (h : mayRun .par i = true) : i ≠ 0 := by
  unfold mayRun at h
  intro hi
  simp [hi] at h

theorem inv_init (g : GuardMap) (n : Nat) : Inv g (init n) := by
  have hidle : ∀ (i : Nat) (t : Thread), (init n).threads[i]? = some t → t = idle := by
    intro i t h
    simp only [init, List.getElem?_replicate] at h
    split at h
    · cases h; rfl
    · cases h
  refine ⟨?_, ?_, ?_, ?_⟩
  · intro _ i t _ h; rw [hidle i t h]; rfl
  · intro h; cases h
  · intro i t _ h; rw [hidle i t h]; exact ⟨rfl, rfl⟩
  · intro i j ti tj m _ hi _ hm; rw [hidle i ti hi] at hm; cases hm

theorem lockFree_get {s : State} {m : Mtx} (h : lockFreeB s m = true) {j : Nat} {t : Thread}
    (ht : s.threads[j]? = some t) : m ∉ t.held := by
  have hmem : t ∈ s.threads := List.mem_of_getElem? ht
  have := List.all_eq_true.mp h t hmem
  simpa using this

theorem allIdle_get {s : State} (h : allIdle s = true) {j : Nat} {t : Thread}
    (ht : s.threads[j]? = some t) : t.rest = [] := by
  have hmem : t ∈ s.threads := List.mem_of_getElem? ht
  have := List.all_eq_true.mp h t hmem
  simpa [List.isEmpty_iff] using this

theorem mem_heldAfter {H : List Mtx} {op : Op} {m : Mtx} (h : m ∈ heldAfter H op) :
    m ∈ H ∨ op = .acq m := by
  cases op with
  | acq m' =>
    simp only [heldAfter, List.mem_cons] at h
    rcases h with h | h
    · right; rw [h]
    · left; exact h
  | rel m' => left; exact List.mem_of_mem_erase h
  | read x => left; exact h
  | write x => left; exact h
  | atomic x => left; exact h

theorem inv_step {W M : List Op → Prop} {g : GuardMap}
    (hW : ∀ b, W b → balancedFrom [] b = true ∧ disciplinedFrom g [] b = true)
    {s s' : State} {a : Act} (hinv : Inv g s) (hstep : Step W M s a s') : Inv g s' := by
  cases hstep with
  | @start i H body hrun hget hbody =>
    have hset := fun j => getElem?_set_of (a := (⟨H, body⟩ : Thread)) hget j
    refine ⟨?_, ?_, ?_, ?_⟩
    · intro hph j t hj ht
      have hph' : s.phase = .seq := hph
      have hi0 : i = 0 := by rw [hph'] at hrun; exact mayRun_seq hrun
      have hne : j ≠ i := by rw [hi0]; exact hj
      have ht' : (s.threads.set i ⟨H, body⟩)[j]? = some t := ht
      rw [hset j, if_neg hne] at ht'
      exact hinv.seqIdle hph' j t hj ht'
    · intro hph t ht
      have hph' : s.phase = .par := hph
      have hi0 : i ≠ 0 := by rw [hph'] at hrun; exact mayRun_par hrun
      have ht' : (s.threads.set i ⟨H, body⟩)[0]? = some t := ht
      rw [hset 0, if_neg (Ne.symm hi0)] at ht'
      exact hinv.parIdle hph' t ht'
    · intro j t hj ht
      have ht' : (s.threads.set i ⟨H, body⟩)[j]? = some t := ht
      rw [hset j] at ht'
      by_cases hji : j = i
      · rw [if_pos hji] at ht'
        cases ht'
        have hi0 : i ≠ 0 := hji ▸ hj
        have hold := (hinv.wok i ⟨H, []⟩ hi0 hget).1
        have hH : H = [] := balancedFrom_nil.mp hold
        have hb : W body := by simpa [hi0] using hbody
        subst hH
        exact hW body hb
      · rw [if_neg hji] at ht'
        exact hinv.wok j t hj ht'
    · intro j k tj tk m hjk hj hk hm
      have hj' : (s.threads.set i ⟨H, body⟩)[j]? = some tj := hj
      have hk' : (s.threads.set i ⟨H, body⟩)[k]? = some tk := hk
      rw [hset j] at hj'
      rw [hset k] at hk'
      have hoj : ∃ tj0, s.threads[j]? = some tj0 ∧ tj0.held = tj.held := by
        by_cases hji : j = i
        · rw [if_pos hji] at hj'; cases hj'
          exact ⟨⟨H, []⟩, by rw [hji]; exact hget, rfl⟩
        · rw [if_neg hji] at hj'; exact ⟨tj, hj', rfl⟩
      have hok : ∃ tk0, s.threads[k]? = some tk0 ∧ tk0.held = tk.held := by
        by_cases hki : k = i
        · rw [if_pos hki] at hk'; cases hk'
          exact ⟨⟨H, []⟩, by rw [hki]; exact hget, rfl⟩
        · rw [if_neg hki] at hk'; exact ⟨tk, hk', rfl⟩
      obtain ⟨tj0, hj0, ej⟩ := hoj
      obtain ⟨tk0, hk0, ek⟩ := hok
      rw [← ek]
      exact hinv.excl j k tj0 tk0 m hjk hj0 hk0 (by rw [ej]; exact hm)
  | @exec i H op rest hrun hget hen =>
    have hset := fun j => getElem?_set_of (a := (⟨heldAfter H op, rest⟩ : Thread)) hget j
    refine ⟨?_, ?_, ?_, ?_⟩
    · intro hph j t hj ht
      have hph' : s.phase = .seq := hph
      have hi0 : i = 0 := by rw [hph'] at hrun; exact mayRun_seq hrun
      have hne : j ≠ i := by rw [hi0]; exact hj
      have ht' : (s.threads.set i ⟨heldAfter H op, rest⟩)[j]? = some t := ht
      rw [hset j, if_neg hne] at ht'
      exact hinv.seqIdle hph' j t hj ht'
    · intro hph t ht
      have hph' : s.phase = .par := hph
      have hi0 : i ≠ 0 := by rw [hph'] at hrun; exact mayRun_par hrun
      have ht' : (s.threads.set i ⟨heldAfter H op, rest⟩)[0]? = some t := ht
      rw [hset 0, if_neg (Ne.symm hi0)] at ht'
      exact hinv.parIdle hph' t ht'
    · intro j t hj ht
      have ht' : (s.threads.set i ⟨heldAfter H op, rest⟩)[j]? = some t := ht
      rw [hset j] at ht'
      by_cases hji : j = i
      · rw [if_pos hji] at ht'
        cases ht'
        have hi0 : i ≠ 0 := hji ▸ hj
        have hold := hinv.wok i ⟨H, op :: rest⟩ hi0 hget
        exact ⟨(balancedFrom_cons.mp hold.1).2, (disciplinedFrom_cons.mp hold.2).2⟩
      · rw [if_neg hji] at ht'
        exact hinv.wok j t hj ht'
    · intro j k tj tk m hjk hj hk hm hmk
      have hj' : (s.threads.set i ⟨heldAfter H op, rest⟩)[j]? = some tj := hj
      have hk' : (s.threads.set i ⟨heldAfter H op, rest⟩)[k]? = some tk := hk
      rw [hset j] at hj'
      rw [hset k] at hk'
      by_cases hji : j = i
      · rw [if_pos hji] at hj'; cases hj'
        have hki : k ≠ i := fun e => hjk (hji.trans e.symm)
        rw [if_neg hki] at hk'
        rcases mem_heldAfter hm with h | h
        · exact hinv.excl i k ⟨H, op :: rest⟩ tk m (fun e => hki e.symm) hget hk' h hmk
        · subst h
          exact lockFree_get (by simpa [enabledOp] using hen) hk' hmk
      · rw [if_neg hji] at hj'
        by_cases hki : k = i
        · rw [if_pos hki] at hk'; cases hk'
          rcases mem_heldAfter hmk with h | h
          · exact hinv.excl j i tj ⟨H, op :: rest⟩ m hji hj' hget hm h
          · subst h
            exact lockFree_get (by simpa [enabledOp] using hen) hj' hm
        · rw [if_neg hki] at hk'
          exact hinv.excl j k tj tk m hjk hj' hk' hm hmk
  | spawn hph hidle =>
    refine ⟨?_, ?_, hinv.wok, hinv.excl⟩
    · intro h; cases h
    · intro _ t ht; exact allIdle_get hidle ht
  | join hph hidle =>
    refine ⟨?_, ?_, hinv.wok, hinv.excl⟩
    · intro _ j t _ ht; exact allIdle_get hidle ht
    · intro h; cases h

theorem inv_reach {W M : List Op → Prop} {g : GuardMap}
    (hW : ∀ b, W b → balancedFrom [] b = true ∧ disciplinedFrom g [] b = true)
    {n : Nat} {s : State} (h : Reach W M n s) : Inv g s := by
  induction h with
  | init => exact inv_init g n
  | step _ hs ih => exact inv_step hW ih hs

/-! ### the invariant excludes races -/

theorem head_cons {l : List Op} {a : Op} (h : l.head? = some a) : ∃ r, l = a :: r := by
  cases l with
  | nil => cases h
  | cons b r => simp only [List.head?_cons, Option.some.injEq] at h; exact ⟨r, by rw [h]⟩

theorem write_guard {g : GuardMap} {H : List Mtx} {x : Loc} (h : accOK g H (.write x) = true) :
    ∃ m, g x = .mutex m ∧ m ∈ H := by
  cases hg : g x with
  | mutex m =>
    simp only [accOK, hg] at h
    exact ⟨m, rfl, by simpa using h⟩
  | readOnly => simp [accOK, hg] at h

theorem read_guard {g : GuardMap} {H : List Mtx} {x : Loc} {m : Mtx} (hg : g x = .mutex m)
    (h : accOK g H (.read x) = true) : m ∈ H := by
  simp only [accOK, hg] at h
  simpa using h

theorem inv_no_race {g : GuardMap} {s : State} (hinv : Inv g s) : ¬ Race s := by
  rintro ⟨i, j, ti, tj, a, b, hij, hi, hj, ha, hb, hc⟩
  obtain ⟨ra, hra⟩ := head_cons ha
  obtain ⟨rb, hrb⟩ := head_cons hb
  cases hph : s.phase with
  | seq =>
    by_cases hi0 : i = 0
    · have hj0 : j ≠ 0 := fun e => hij (hi0.trans e.symm)
      have := hinv.seqIdle hph j tj hj0 hj
      rw [this] at hrb; cases hrb
    · have := hinv.seqIdle hph i ti hi0 hi
      rw [this] at hra; cases hra
  | par =>
    have hi0 : i ≠ 0 := by
      intro e; subst e
      have := hinv.parIdle hph ti hi
      rw [this] at hra; cases hra
    have hj0 : j ≠ 0 := by
      intro e; subst e
      have := hinv.parIdle hph tj hj
      rw [this] at hrb; cases hrb
    have wi := (hinv.wok i ti hi0 hi).2
    have wj := (hinv.wok j tj hj0 hj).2
    rw [hra] at wi
    rw [hrb] at wj
    have ai := (disciplinedFrom_cons.mp wi).1
    have aj := (disciplinedFrom_cons.mp wj).1
    cases a with
    | write x =>
      cases b with
      | write y =>
        have hxy : x = y := by simpa [conflict] using hc
        subst hxy
        obtain ⟨m, hg, hm⟩ := write_guard ai
        obtain ⟨m', hg', hm'⟩ := write_guard aj
        rw [hg] at hg'; cases hg'
        exact hinv.excl i j ti tj m hij hi hj hm hm'
      | read y =>
        have hxy : x = y := by simpa [conflict] using hc
        subst hxy
        obtain ⟨m, hg, hm⟩ := write_guard ai
        exact hinv.excl i j ti tj m hij hi hj hm (read_guard hg aj)
      | acq _ => simp [conflict] at hc
      | rel _ => simp [conflict] at hc
      | atomic _ => simp [conflict] at hc
    | read x =>
      cases b with
      | write y =>
        have hxy : x = y := by simpa [conflict] using hc
        subst hxy
        obtain ⟨m, hg, hm⟩ := write_guard aj
        exact hinv.excl i j ti tj m hij hi hj (read_guard hg ai) hm
      | read _ => simp [conflict] at hc
      | acq _ => simp [conflict] at hc
      | rel _ => simp [conflict] at hc
      | atomic _ => simp [conflict] at hc
    | acq _ => simp [conflict] at hc
    | rel _ => simp [conflict] at hc
    | atomic _ => simp [conflict] at hc

/-! ### executable runs are reachable -/

theorem stepFn_reach (T : Tables) {n : Nat} {s : State} (a : Sched)
    (h : Reach (· ∈ T.worker) (· ∈ T.main) n s) : Reach (· ∈ T.worker) (· ∈ T.main) n (stepFn T s a) := by
  cases a with
  | start i k =>
    simp only [stepFn]
    split
    · rename_i H body hget hk
      split
      · rename_i hrun
        refine .step h (Step.start (i := i) (H := H) (body := body) hrun hget ?_)
        have hmem := List.mem_of_getElem? hk
        by_cases hi : i = 0
        · simpa [hi] using hmem
        · simpa [hi] using hmem
      · exact h
    · exact h
  | exec i =>
    simp only [stepFn]
    split
    · rename_i H op rest hget
      split
      · rename_i hc
        simp only [Bool.and_eq_true] at hc
        exact .step h (Step.exec (i := i) (H := H) (op := op) (rest := rest) hc.1 hget hc.2)
      · exact h
    · exact h
  | spawn =>
    simp only [stepFn]
    split
    · rename_i hc
      simp only [Bool.and_eq_true, beq_iff_eq] at hc
      exact .step h (Step.spawn hc.1 hc.2)
    · exact h
  | join =>
    simp only [stepFn]
    split
    · rename_i hc
      simp only [Bool.and_eq_true, beq_iff_eq] at hc
      exact .step h (Step.join hc.1 hc.2)
    · exact h

theorem run_reach (T : Tables) (n : Nat) (σ : List Sched) :
    Reach (· ∈ T.worker) (· ∈ T.main) n (run T n σ) := by
  unfold run
  suffices ∀ s, Reach (· ∈ T.worker) (· ∈ T.main) n s →
      Reach (· ∈ T.worker) (· ∈ T.main) n (σ.foldl (stepFn T) s) from this _ .init
  induction σ with
  | nil => intro s h; exact h
  | cons a σ ih => intro s h; exact ih _ (stepFn_reach T a h)

theorem raceB_of_race {s : State} (h : Race s) : raceB s = true := by
  obtain ⟨i, j, ti, tj, a, b, hij, hi, hj, ha, hb, hc⟩ := h
  have hil : i < s.threads.length := by
    rcases Nat.lt_or_ge i s.threads.length with h' | h'
    · exact h'
    · rw [List.getElem?_eq_none h'] at hi; cases hi
  have hjl : j < s.threads.length := by
    rcases Nat.lt_or_ge j s.threads.length with h' | h'
    · exact h'
    · rw [List.getElem?_eq_none h'] at hj; cases hj
  unfold raceB
  rw [List.any_eq_true]
  refine ⟨i, List.mem_range.mpr hil, ?_⟩
  rw [List.any_eq_true]
  refine ⟨j, List.mem_range.mpr hjl, ?_⟩
  simp [hij, hi, hj, ha, hb, hc]

theorem race_of_raceB {s : State} (h : raceB s = true) : Race s := by
  unfold raceB at h
  rw [List.any_eq_true] at h
  obtain ⟨i, _, h⟩ := h
  rw [List.any_eq_true] at h
  obtain ⟨j, _, h⟩ := h
  simp only [Bool.and_eq_true, bne_iff_ne, ne_eq] at h
  obtain ⟨hij, h⟩ := h
  split at h
  · rename_i ti tj hi hj
    split at h
    · rename_i a b ha hb
      exact ⟨i, j, ti, tj, a, b, hij, hi, hj, ha, hb, h⟩
    · cases h
  · cases h

end Cppcheck.Lockset

import Cppcheck.Proofs.CtuXml
/-
C22 — "this text renders that forest": the combinators used for every writer, and the cache-file wrapper.
-/
namespace Cppcheck.Ctu
open Cppcheck.Wire

/-- attribute list that can be written as is: well-formed and NUL-free -/
def AttrsOK (as : List (Str × Str)) : Bool :=
  AttrsWF as && as.all fun a => !(a.1.contains NUL) && !(a.2.contains NUL)

/-- `text` is NUL-free and, in front of any continuation, lexes to tokens that form the complete forest `es` -/
structure Renders (h : Nat) (text : Str) (es : List Elem) : Prop where
  nonul : NUL ∉ text
  toks : ∃ ts, (∀ rest, lexAll' (text ++ rest) = ts ++ lexAll' rest) ∧ Balanced h ts es

theorem renders_nil (h : Nat) : Renders h [] [] :=
  ⟨by simp, [], by simp, balanced_nil h⟩

theorem renders_mono {h k : Nat} {t : Str} {es : List Elem} (hk : h ≤ k) (r : Renders h t es) : Renders k t es := by
  obtain ⟨nn, ts, h1, h2⟩ := r
  exact ⟨nn, ts, h1, balanced_mono hk h2⟩

theorem renders_append {h : Nat} {t1 t2 : Str} {e1 e2 : List Elem} (r1 : Renders h t1 e1) (r2 : Renders h t2 e2) :
    Renders h (t1 ++ t2) (e1 ++ e2) := by
  obtain ⟨n1, ts1, l1, b1⟩ := r1
  obtain ⟨n2, ts2, l2, b2⟩ := r2
  refine ⟨by simp [n1, n2], ts1 ++ ts2, ?_, balanced_append b1 b2⟩
  intro rest
  rw [List.append_assoc, l1, l2, List.append_assoc]

theorem nul_not_space : isSpace NUL = false := by decide

theorem nul_not_mem_ws (ws : Str) (h : ws.all isSpace = true) : NUL ∉ ws := by
  intro hm
  have := List.all_eq_true.mp h NUL hm
  rw [nul_not_space] at this
  exact absurd this (by decide)

theorem renders_ws (h : Nat) (ws : Str) (hws : ws.all isSpace = true) : Renders h ws [] :=
  ⟨nul_not_mem_ws ws hws, [], by intro rest; simp [lexAll'_ws ws rest hws], balanced_nil h⟩

theorem nul_not_mem_renderAttrs : ∀ as : List (Str × Str), (as.all fun a => !(a.1.contains NUL) && !(a.2.contains NUL)) = true →
    NUL ∉ renderAttrs as := by
  intro as
  induction as with
  | nil => intro _; simp [renderAttrs]
  | cons a r ih =>
    intro h
    simp only [List.all_cons, Bool.and_eq_true, Bool.not_eq_true', List.contains_eq_mem, decide_eq_false_iff_not] at h
    have := ih (by simpa using h.2)
    simp only [renderAttrs, List.mem_cons, List.mem_append, not_or]
    refine ⟨by decide, h.1.1, by decide, by decide, h.1.2, by decide, this⟩

theorem renders_closed (h : Nat) (ws name : Str) (as : List (Str × Str)) (hws : ws.all isSpace = true)
    (hname : IsName name = true) (hnn : NUL ∉ name) (hok : AttrsOK as = true) :
    Renders h (ws ++ headText name as ++ ['/', '>']) [.mk name as []] := by
  simp only [AttrsOK, Bool.and_eq_true] at hok
  refine ⟨?_, [.tag .closed name as], ?_, balanced_closed h name as⟩
  · have := nul_not_mem_renderAttrs as hok.2
    have := nul_not_mem_ws ws hws
    simp only [headText, List.mem_append, List.mem_cons, not_or]
    simp_all [NUL]
  · intro rest
    have e : (ws ++ headText name as ++ ['/', '>']) ++ rest = ws ++ '<' :: (name ++ (renderAttrs as ++ '/' :: '>' :: rest)) := by
      simp [headText]
    rw [e, lexAll'_cons _ _ _ (lexOne_head ws name as _ .closed rest hws hname hok.1 (Or.inl ⟨rfl, rfl⟩)) (by simp) (by simp)]
    rfl

theorem renders_wrap {h : Nat} {inner : Str} {es : List Elem} (ws name : Str) (as : List (Str × Str)) (ws2 : Str)
    (hws : ws.all isSpace = true) (hws2 : ws2.all isSpace = true)
    (hname : IsName name = true) (hnn : NUL ∉ name) (hok : AttrsOK as = true) (r : Renders h inner es) :
    Renders (h + 1) (ws ++ headText name as ++ '>' :: (inner ++ ws2 ++ '<' :: '/' :: (name ++ ['>']))) [.mk name as es] := by
  simp only [AttrsOK, Bool.and_eq_true] at hok
  obtain ⟨ni, ts, li, bi⟩ := r
  refine ⟨?_, .tag .opn name as :: (ts ++ [.tag .closing name []]), ?_, balanced_wrap name as [] bi⟩
  · have := nul_not_mem_renderAttrs as hok.2
    have := nul_not_mem_ws ws hws
    have := nul_not_mem_ws ws2 hws2
    simp only [headText, List.mem_append, List.mem_cons, not_or]
    simp_all [NUL]
  · intro rest
    have e : (ws ++ headText name as ++ '>' :: (inner ++ ws2 ++ '<' :: '/' :: (name ++ ['>']))) ++ rest
        = ws ++ '<' :: (name ++ (renderAttrs as ++ '>' :: (inner ++ (ws2 ++ '<' :: '/' :: (name ++ '>' :: rest))))) := by
      simp [headText]
    rw [e, lexAll'_cons _ _ _ (lexOne_head ws name as _ .opn _ hws hname hok.1 (Or.inr ⟨rfl, rfl⟩)) (by simp) (by simp)]
    rw [li, lexAll'_cons _ _ _ (lexOne_closingTag ws2 name rest hws2 hname) (by simp) (by simp)]
    simp


/-! ## attribute lists given as names × values -/

theorem attr_render (n : String) (v : Str) : attr n v = renderAttrs [(n.toList, v)] := by
  simp [attr, renderAttrs]

def distinctNames : List Str → Bool
  | [] => true
  | n :: r => !(r.contains n) && distinctNames r

/-- attribute names: tinyxml2 names, NUL-free, pairwise different (decided on the literal lists) -/
def NamesOK (names : List Str) : Bool := names.all (fun n => IsName n && !(n.contains NUL)) && distinctNames names

/-- an attribute value that can be written between double quotes -/
def Clean (v : Str) : Prop := v.contains '"' = false ∧ v.contains NUL = false

theorem zip_any_fst (names : List Str) (vals : List Str) (n : Str) (h : names.contains n = false) :
    ((names.zip vals).any fun b => b.1 == n) = false := by
  induction names generalizing vals with
  | nil => simp
  | cons a r ih =>
    cases vals with
    | nil => simp
    | cons v vs =>
      simp only [List.contains_cons, Bool.or_eq_false_iff] at h
      simp only [List.zip_cons_cons, List.any_cons, Bool.or_eq_false_iff]
      refine ⟨?_, ih vs h.2⟩
      cases hb : (a == n) with
      | false => rfl
      | true => rw [eq_of_beq hb] at h; simp at h

theorem attrsOK_zip : ∀ (names vals : List Str), NamesOK names = true → (∀ v ∈ vals, Clean v) → AttrsOK (names.zip vals) = true := by
  intro names
  induction names with
  | nil => intro vals _ _; rfl
  | cons n r ih =>
    intro vals hn hv
    cases vals with
    | nil => rfl
    | cons v vs =>
      simp only [NamesOK, List.all_cons, distinctNames, Bool.and_eq_true, Bool.not_eq_true'] at hn
      obtain ⟨⟨⟨hname, hnul⟩, hall⟩, hnotin, hdist⟩ := hn
      have hr := ih vs (by simp only [NamesOK, Bool.and_eq_true]; exact ⟨hall, hdist⟩) (fun x hx => hv x (by simp [hx]))
      have hvv := hv v (by simp)
      simp only [AttrsOK, Bool.and_eq_true] at hr
      simp only [AttrsOK, List.zip_cons_cons, AttrsWF, List.all_cons, Bool.and_eq_true, Bool.not_eq_true']
      exact ⟨⟨⟨⟨hname, zip_any_fst r vs n hnotin⟩, hvv.1⟩, hr.1⟩, ⟨hnul, hvv.2⟩, hr.2⟩

/-! ## the document around it -/

theorem hasBOM_lt (r : Str) : hasBOM ('<' :: r) = false := by
  unfold hasBOM
  split
  · rename_i heq
    simp only [List.cons.injEq] at heq
    rw [← heq.1]
    simp
  · rfl

/-- a document `<?…?>` + one root element + white space parses to that root -/
theorem parseDoc_root {h : Nat} (declBody : Str) (afterDecl : Str) (root : Str) (e : Elem) (ws : Str)
    (hdecl : splitDeclEnd declBody = some afterDecl) (hnd : NUL ∉ declBody)
    (hsplit : ∃ ws0, ws0.all isSpace = true ∧ afterDecl = ws0 ++ root ++ ws)
    (hws : ws.all isSpace = true) (r : Renders h root [e]) (hh : h + 2 < 500) :
    parseDoc ('<' :: '?' :: declBody) = .ok [e] := by
  obtain ⟨ws0, hws0, rfl⟩ := hsplit
  obtain ⟨nr, ts, lr, br⟩ := r
  have hn : NUL ∉ ('<' :: '?' :: declBody) := by
    simp only [List.mem_cons, not_or]
    exact ⟨by decide, by decide, hnd⟩
  unfold parseDoc
  rw [cstr_of_no_nul _ hn]
  have h1 : skipWs ('<' :: '?' :: declBody) = '<' :: '?' :: declBody := skipWs_cons_of_not_space _ _ (by decide)
  simp only [reduceCtorEq, or_self, if_false, h1, hasBOM_lt, Bool.false_eq_true]
  have htoks : lexAll (('<' :: '?' :: declBody).length + 1) ('<' :: '?' :: declBody) = Tok.decl :: (ts ++ []) := by
    have := lexAll'_cons ('<' :: '?' :: declBody) .decl _ (by simpa using lexOne_decl [] declBody _ (by simp) hdecl) (by simp) (by simp)
    have e2 : lexAll' (ws0 ++ (root ++ ws)) = ts ++ [] := by
      rw [lexAll'_ws ws0 _ hws0, lr, lexAll'_none ws (lexOne_allspace ws hws)]
    rw [e2] at this
    exact this
  rw [htoks]
  simp only [build, if_true]
  rw [br [] [] [] true (by simp; omega)]
  simp [pushAll, build]

end Cppcheck.Ctu

import Cppcheck.Model.Serialize
/-
Helper lemmas for the transport round trips (C15): decimal rendering/parsing, length-prefixed fields,
tab-separated frames, pipe framing, ';'-separated suppression lines.
-/
namespace Cppcheck.Serialize
open Cppcheck.Wire

/-! ### digits -/

theorem digitOf_digitChar : ∀ d, d < 10 → digitOf (digitChar d) = d := by decide

theorem digitChar_isDigit : ∀ d, d < 10 → isDigit (digitChar d) = true := by decide

theorem digitChar_ne_zero : ∀ d, d < 10 → d ≠ 0 → digitChar d ≠ '0' := by decide

theorem isDigit_facts (c : Char) (h : isDigit c = true) :
    c ≠ '-' ∧ c ≠ '+' ∧ c ≠ ' ' ∧ c ≠ '\t' ∧ isSpace c = false := by
  refine ⟨?_, ?_, ?_, ?_, ?_⟩
  · intro e; subst e; revert h; decide
  · intro e; subst e; revert h; decide
  · intro e; subst e; revert h; decide
  · intro e; subst e; revert h; decide
  · simp only [isDigit, Bool.and_eq_true, decide_eq_true_eq] at h
    simp only [isSpace, Bool.or_eq_false_iff, decide_eq_false_iff_not, Bool.and_eq_false_iff]
    exact ⟨by omega, by omega⟩

theorem digitsVal_append (acc : Nat) (l : Str) (c : Char) :
    digitsVal acc (l ++ [c]) = 10 * digitsVal acc l + digitOf c := by
  simp [digitsVal, List.foldl_append]

/-- everything the proofs need about the decimal rendering, by induction on the fuel -/
theorem renderFuel_spec (f n : Nat) (h : n ≤ f) :
    (∀ c ∈ renderFuel f n, isDigit c = true) ∧ digitsVal 0 (renderFuel f n) = n ∧
    (∃ c r, renderFuel f n = c :: r ∧ (n ≠ 0 → c ≠ '0') ∧ (n = 0 → r = [])) := by
  induction f generalizing n with
  | zero =>
    have : n = 0 := by omega
    subst this
    refine ⟨?_, ?_, ?_⟩
    · intro c hc; simp [renderFuel] at hc; subst hc; exact digitChar_isDigit 0 (by omega)
    · simp [renderFuel, digitsVal, digitOf_digitChar 0 (by omega)]
    · exact ⟨digitChar 0, [], by simp [renderFuel], by simp, by simp⟩
  | succ f ih =>
    simp only [renderFuel]
    split
    · rename_i hlt
      refine ⟨?_, ?_, ?_⟩
      · intro c hc; simp at hc; subst hc; exact digitChar_isDigit n hlt
      · simp [digitsVal, digitOf_digitChar n hlt]
      · exact ⟨digitChar n, [], rfl, fun hn => digitChar_ne_zero n hlt hn, fun _ => rfl⟩
    · rename_i hge
      have hle : n / 10 ≤ f := by omega
      obtain ⟨h1, h2, c, r, h3, h4, _⟩ := ih (n / 10) hle
      have hm : n % 10 < 10 := Nat.mod_lt _ (by omega)
      refine ⟨?_, ?_, ?_⟩
      · intro c hc
        simp only [List.mem_append, List.mem_singleton] at hc
        rcases hc with hc | hc
        · exact h1 c hc
        · subst hc; exact digitChar_isDigit _ hm
      · rw [digitsVal_append, h2, digitOf_digitChar _ hm]; omega
      · refine ⟨c, r ++ [digitChar (n % 10)], by simp [h3], fun _ => h4 (by omega), fun h0 => by omega⟩

theorem render_digits (n : Nat) : ∀ c ∈ render n, isDigit c = true := (renderFuel_spec n n (Nat.le_refl _)).1
theorem digitsVal_render (n : Nat) : digitsVal 0 (render n) = n := (renderFuel_spec n n (Nat.le_refl _)).2.1
theorem render_cons (n : Nat) : ∃ c r, render n = c :: r ∧ isDigit c = true ∧ (n ≠ 0 → c ≠ '0') ∧ (n = 0 → r = []) := by
  obtain ⟨c, r, h, h1, h2⟩ := (renderFuel_spec n n (Nat.le_refl _)).2.2
  exact ⟨c, r, h, render_digits n c (by rw [show render n = c :: r from h]; simp), h1, h2⟩

theorem render_ne_nil (n : Nat) : render n ≠ [] := by
  obtain ⟨c, r, h, _⟩ := render_cons n
  simp [h]

theorem takeDigits_append (ds rest : Str) (hd : ∀ c ∈ ds, isDigit c = true)
    (hr : ∀ c r, rest = c :: r → isDigit c = false) : takeDigits (ds ++ rest) = (ds, rest) := by
  induction ds with
  | nil =>
    cases rest with
    | nil => rfl
    | cons c r => simp [takeDigits, hr c r rfl]
  | cons d ds ih =>
    have hd' : ∀ c ∈ ds, isDigit c = true := fun c hc => hd c (by simp [hc])
    simp [takeDigits, hd d (by simp), ih hd']

theorem dropSpaces_cons_digit (c : Char) (r : Str) (h : isDigit c = true) : dropSpaces (c :: r) = c :: r := by
  simp [dropSpaces, (isDigit_facts c h).2.2.2.2]

/-- `iss >> len` on what `serializeString` wrote -/
theorem readUInt_render (n : Nat) (rest : Str) (hn : n < two32) (hr : ∀ c r, rest = c :: r → isDigit c = false) :
    readUInt (render n ++ rest) = some (n, rest) := by
  obtain ⟨c, r, h, hc, _, _⟩ := render_cons n
  have hdig := render_digits n
  have hval := digitsVal_render n
  have htd := takeDigits_append (render n) rest hdig hr
  rw [h] at hdig hval htd
  obtain ⟨f1, f2, _, _, _⟩ := isDigit_facts c hc
  have hs : splitSign (c :: (r ++ rest)) = (false, c :: (r ++ rest)) := by
    unfold splitSign
    split
    · rename_i heq; simp at heq; exact absurd heq.1 f1
    · rename_i heq; simp at heq; exact absurd heq.1 f2
    · rfl
  unfold readUInt
  rw [h]
  simp only [List.cons_append, dropSpaces_cons_digit c _ hc, hs]
  rw [← List.cons_append, htd]
  simp only [List.isEmpty_cons, Bool.false_eq_true, ↓reduceIte, hval]
  have : ¬ n ≥ two32 := by omega
  simp [this]

theorem space_not_digit : ∀ c r, (' ' :: (r : Str)) = c :: r → isDigit c = false := by
  intro c r h
  simp at h
  rw [← h]
  decide

/-! ### length-prefixed fields -/

theorem readField_serStr (e1 e2 e3 : DErr) (s rest : Str) (h : s.length < two32) :
    readField e1 e2 e3 (serStr s ++ rest) = .ok (s, rest) := by
  unfold readField serStr
  have hr : ∀ c r, (' ' :: (s ++ rest)) = c :: r → isDigit c = false := by
    intro c r hc
    simp at hc
    rw [← hc.1]
    decide
  rw [List.append_assoc, List.cons_append, readUInt_render _ _ h hr]
  simp only
  by_cases h0 : s.length = 0
  · have : s = [] := List.eq_nil_of_length_eq_zero h0
    subst this
    simp
  · simp only [h0, ↓reduceIte, List.length_append]
    have : ¬ (s.length + rest.length < s.length) := by omega
    simp [this]

theorem readFields_serFields (fs : List Str) (rest : Str) (h : ∀ f ∈ fs, f.length < two32) :
    readFields fs.length (serFields fs ++ rest) = .ok (fs, rest) := by
  induction fs with
  | nil => simp [readFields, serFields]
  | cons f fs ih =>
    have hf := h f (by simp)
    have hfs : ∀ g ∈ fs, g.length < two32 := fun g hg => h g (by simp [hg])
    simp only [List.length_cons, readFields, serFields, List.append_assoc]
    rw [readField_serStr _ _ _ f _ hf]
    simp only
    rw [ih hfs]

/-! ### frames -/

theorem noTab_iff (s : Str) : noTab s = true ↔ ∀ c ∈ s, c ≠ '\t' := by
  simp [noTab, List.contains_iff_mem]
  constructor
  · intro h c hc e; subst e; exact h hc
  · intro h hc; exact h _ hc rfl

theorem spanTab_append (a r : Str) (h : noTab a = true) : spanTab (a ++ '\t' :: r) = (a, '\t' :: r) := by
  rw [noTab_iff] at h
  induction a with
  | nil => simp [spanTab]
  | cons c a ih =>
    have hc : c ≠ '\t' := h c (by simp)
    have ha : ∀ d ∈ a, d ≠ '\t' := fun d hd => h d (by simp [hd])
    simp [spanTab, hc, ih ha]

theorem splitFrame_step (k : Nat) (a r : Str) (h : noTab a = true) :
    splitFrame (k + 1) (a ++ '\t' :: r) = a :: splitFrame k r := by
  have hs := spanTab_append a r h
  cases a with
  | nil => simp only [List.nil_append] at hs ⊢; simp [splitFrame, hs]
  | cons c a => simp only [List.cons_append] at hs ⊢; simp [splitFrame, hs]

theorem noTab_of_digits (s : Str) (h : ∀ c ∈ s, isDigit c = true) : noTab s = true := by
  rw [noTab_iff]
  intro c hc
  exact (isDigit_facts c (h c hc)).2.2.2.1

theorem noTab_render (n : Nat) : noTab (render n) = true := noTab_of_digits _ (render_digits n)

theorem noTab_renderInt (i : Int) : noTab (renderInt i) = true := by
  unfold renderInt
  split
  · rw [noTab_iff]
    intro c hc
    simp only [List.mem_cons] at hc
    rcases hc with hc | hc
    · subst hc; decide
    · exact (isDigit_facts c (render_digits _ c hc)).2.2.2.1
  · exact noTab_render _

theorem splitFrame_frameStr (l : Loc) (h1 : noTab l.file = true) (h2 : noTab l.origFile = true) :
    splitFrame 4 (frameStr l) =
      [renderInt l.line, render l.col, l.file, l.origFile] ++ (if l.info = [] then [] else [l.info]) := by
  unfold frameStr
  simp only [List.append_assoc, List.cons_append]
  rw [show (4 : Nat) = 3 + 1 from rfl, splitFrame_step 3 _ _ (noTab_renderInt _)]
  rw [show (3 : Nat) = 2 + 1 from rfl, splitFrame_step 2 _ _ (noTab_render _)]
  rw [show (2 : Nat) = 1 + 1 from rfl, splitFrame_step 1 _ _ h1]
  rw [show (1 : Nat) = 0 + 1 from rfl, splitFrame_step 0 _ _ h2]
  cases l.info <;> simp [splitFrame]

theorem parseUnsigned_render (max n : Nat) (h : n ≤ max) : parseUnsigned max (render n) = some n := by
  obtain ⟨c, r, hcr, hc, hnz, hz⟩ := render_cons n
  have hdig := render_digits n
  have hval := digitsVal_render n
  rw [hcr] at hdig hval
  unfold parseUnsigned
  rw [hcr]
  have hplus : c ≠ '+' := (isDigit_facts c hc).2.1
  simp only [hplus, ↓reduceIte, List.isEmpty_cons, Bool.false_or]
  have hall : (c :: r).all isDigit = true := by
    rw [List.all_eq_true]; exact hdig
  simp only [hall, Bool.not_true, Bool.false_eq_true, ↓reduceIte]
  have hlead : (decide (c = '0') && !r.isEmpty) = false := by
    by_cases h0 : n = 0
    · simp [hz h0]
    · simp [hnz h0]
  simp only [hlead, Bool.false_eq_true, ↓reduceIte, hval]
  have : ¬ n > max := by omega
  simp [this]

theorem parseInt32_renderInt (i : Int) (h1 : -(2147483648 : Int) ≤ i) (h2 : i ≤ 2147483647) :
    parseInt32 (renderInt i) = some i := by
  unfold parseInt32 renderInt
  obtain ⟨c, r, hcr, hc, hnz, hz⟩ := render_cons i.natAbs
  have hdig := render_digits i.natAbs
  have hval := digitsVal_render i.natAbs
  have hall : (render i.natAbs).all isDigit = true := by
    rw [List.all_eq_true]; exact hdig
  split
  · rename_i hneg
    unfold parseSigned
    simp only [decide_true, Bool.or_true, ↓reduceIte]
    have hne : (render i.natAbs).isEmpty = false := by simp [hcr]
    simp only [hne, hall, Bool.not_true, Bool.or_self, Bool.false_eq_true, ↓reduceIte]
    have : (decide ('-' = '0') && !(render i.natAbs).isEmpty) = false := by simp
    simp only [this, Bool.false_eq_true, ↓reduceIte, hval, intMax]
    have h3 : ¬ (i.natAbs > 2147483647 + 1) := by omega
    have h4 : -(i.natAbs : Int) = i := by omega
    simp [h3, h4]
  · rename_i hpos
    unfold parseSigned
    rw [hcr]
    rw [hcr] at hall hval
    obtain ⟨f1, f2, _⟩ := isDigit_facts c hc
    simp only [f1, f2, decide_false, Bool.or_self, Bool.false_eq_true, ↓reduceIte, List.isEmpty_cons, hall, Bool.not_true]
    have hlead : (decide (c = '0') && !r.isEmpty) = false := by
      by_cases h0 : i.natAbs = 0
      · simp [hz h0]
      · simp [hnz h0]
    simp only [hlead, Bool.false_eq_true, ↓reduceIte, hval, intMax]
    have h3 : ¬ (i.natAbs > 2147483647) := by omega
    have h4 : (i.natAbs : Int) = i := by omega
    simp [h3, h4]

theorem parseFrame_frameStr (simp : Str → Str) (l : Loc) (h : l.transportable = true) :
    parseFrame simp (frameStr l) = .ok (l.sanitize simp) := by
  simp only [Loc.transportable, Bool.and_eq_true, decide_eq_true_eq] at h
  obtain ⟨⟨⟨⟨⟨h1, h2⟩, h3⟩, h4⟩, h5⟩, _⟩ := h
  unfold parseFrame
  rw [splitFrame_frameStr l h1 h2]
  have hl := parseInt32_renderInt l.line h3 h4
  have hc : parseUInt32 (render l.col) = some l.col := parseUnsigned_render _ _ (by unfold two32 at *; omega)
  by_cases hi : l.info = []
  · simp only [hi, ↓reduceIte, List.append_nil, hl, hc, Loc.sanitize]
  · simp only [hi, ↓reduceIte, List.cons_append, List.nil_append, hl, hc, Loc.sanitize]

theorem readFrames_serFrames (simp : Str → Str) (st : List Loc) (rest : Str)
    (h : ∀ l ∈ st, l.transportable = true) :
    readFrames simp st.length (serFrames st ++ rest) = .ok (st.map (Loc.sanitize simp)) := by
  induction st with
  | nil => simp [readFrames]
  | cons l st ih =>
    have hl := h l (by simp)
    have hst : ∀ l' ∈ st, l'.transportable = true := fun l' hl' => h l' (by simp [hl'])
    have hlen : (frameStr l).length < two32 := by
      simp only [Loc.transportable, Bool.and_eq_true, decide_eq_true_eq] at hl
      exact hl.2
    simp only [List.length_cons, readFrames, serFrames, List.append_assoc, List.map_cons]
    rw [readField_serStr _ _ _ _ _ hlen]
    simp only
    rw [parseFrame_frameStr simp l hl]
    simp only
    rw [ih hst]

theorem Severity.ofStr_toStr (s : Severity) : Severity.ofStr s.toStr = s := by
  cases s <;> decide

/-- the transport round trip (restated as `deserialize_serialize` in Props/C15.lean) -/
theorem deserialize_serialize_aux (simp : Str → Str) (m : Msg) (h : m.transportable = true) :
    deserialize simp (serialize m) = .ok (m.sanitize simp) := by
  simp only [Msg.transportable, Bool.and_eq_true, decide_eq_true_eq, List.all_eq_true] at h
  obtain ⟨⟨⟨⟨hf, hcwe⟩, hhash⟩, hlen⟩, hst⟩ := h
  have hfields : readFields 10 (serFields m.fields ++ (render m.stack.length ++ ' ' :: serFrames m.stack)) =
      .ok (m.fields, render m.stack.length ++ ' ' :: serFrames m.stack) := by
    have := readFields_serFields m.fields (render m.stack.length ++ ' ' :: serFrames m.stack) hf
    simpa [Msg.fields] using this
  unfold deserialize serialize
  rw [List.append_assoc, hfields]
  simp only [Msg.fields]
  have hc : (render m.cwe).isEmpty = false := by
    cases hh : render m.cwe with
    | nil => exact absurd hh (render_ne_nil _)
    | cons _ _ => rfl
  have hh : (render m.hash).isEmpty = false := by
    cases hh : render m.hash with
    | nil => exact absurd hh (render_ne_nil _)
    | cons _ _ => rfl
  simp only [hc, hh, Bool.false_eq_true, ↓reduceIte, parseUnsigned_render 65535 m.cwe (by omega),
    parseUnsigned_render (two64 - 1) m.hash (by omega)]
  have hr : ∀ c r, (' ' :: serFrames m.stack) = c :: r → isDigit c = false := by
    intro c r hc
    simp at hc
    rw [← hc.1]
    decide
  rw [readUInt_render _ _ hlen hr]
  simp only
  have := readFrames_serFrames simp m.stack [] hst
  rw [List.append_nil] at this
  rw [this]
  simp only [Severity.ofStr_toStr, Msg.sanitize]
  cases m
  simp


/-! ### pipe framing -/

theorem le32Val_le32 (n : Nat) (h : n < two32) :
    (match le32 n with
     | [a, b, c, d] => le32Val a b c d
     | _ => 0) = n := by
  unfold le32 le32Val
  simp only
  have e : ∀ k, k < 256 → (Char.ofNat k).toNat = k := by
    intro k hk
    have : k.isValidChar := by left; omega
    simp [Char.ofNat, this, Char.ofNatAux, Char.toNat]
  rw [e _ (Nat.mod_lt _ (by decide)), e _ (Nat.mod_lt _ (by decide)), e _ (Nat.mod_lt _ (by decide)), e _ (Nat.mod_lt _ (by decide))]
  unfold two32 at h
  omega

theorem readFrame_frame (t : Char) (data rest : Str) (ht : validType t = true) (h : data.length < two32) :
    readFrame (frame t data ++ rest) = .msg t data rest := by
  have hv := le32Val_le32 data.length h
  unfold frame readFrame
  have hm : data.length % two32 = data.length := Nat.mod_eq_of_lt h
  rw [hm]
  unfold le32 at hv ⊢
  simp only [List.cons_append, List.nil_append, ht, Bool.not_true, Bool.false_eq_true, ↓reduceIte] at hv ⊢
  rw [hv]
  have : ¬ ((data ++ rest).length < data.length) := by simp
  simp [this]

/-! ### suppression transport -/

theorem splitOnChar_ne_nil (c : Char) (s : Str) : splitOnChar c s ≠ [] := by
  induction s with
  | nil => simp [splitOnChar]
  | cons x r ih =>
    simp only [splitOnChar]
    split
    · simp
    · split <;> simp

theorem splitOnChar_cons_ne (c x : Char) (r : Str) (h : x ≠ c) :
    ∃ hd tl, splitOnChar c r = hd :: tl ∧ splitOnChar c (x :: r) = (x :: hd) :: tl := by
  cases hs : splitOnChar c r with
  | nil => exact absurd hs (splitOnChar_ne_nil c r)
  | cons hd tl => exact ⟨hd, tl, rfl, by simp [splitOnChar, h, hs]⟩

/-- splitting a string that contains the separator at a known place -/
theorem splitOnChar_append (c : Char) (a b : Str) (h : c ∉ a) :
    splitOnChar c (a ++ c :: b) = a :: splitOnChar c b := by
  induction a with
  | nil => simp [splitOnChar]
  | cons x a ih =>
    have hx : x ≠ c := fun e => h (by simp [e])
    have ha : c ∉ a := fun e => h (by simp [e])
    obtain ⟨hd, tl, h1, h2⟩ := splitOnChar_cons_ne c x (a ++ c :: b) hx
    rw [List.cons_append, h2]
    rw [ih ha] at h1
    simp only [List.cons.injEq] at h1
    rw [← h1.1, ← h1.2]

theorem splitOnChar_none (c : Char) (a : Str) (h : c ∉ a) : splitOnChar c a = [a] := by
  induction a with
  | nil => rfl
  | cons x a ih =>
    have hx : x ≠ c := fun e => h (by simp [e])
    have ha : c ∉ a := fun e => h (by simp [e])
    simp [splitOnChar, hx, ih ha]

theorem splitOnChar_append' (c : Char) (a b : Str) :
    splitOnChar c (a ++ c :: b) = (splitOnChar c a).dropLast ++ [] ++
      ((splitOnChar c a).getLast (splitOnChar_ne_nil c a) :: splitOnChar c b) := by
  induction a with
  | nil => simp [splitOnChar]
  | cons x a ih =>
    by_cases hx : x = c
    · subst hx
      simp only [List.cons_append, splitOnChar, ↓reduceIte, List.append_nil]
      rw [ih]
      have hne := splitOnChar_ne_nil x a
      simp [List.dropLast_cons_of_ne_nil hne, List.getLast_cons hne]
    · obtain ⟨hd, tl, h1, h2⟩ := splitOnChar_cons_ne c x (a ++ c :: b) hx
      obtain ⟨hd', tl', h1', h2'⟩ := splitOnChar_cons_ne c x a hx
      rw [List.cons_append, h2]
      rw [ih] at h1
      simp only [h2']
      simp only [h1'] at h1
      cases tl' with
      | nil =>
        simp at h1
        simp [h1.1, h1.2]
      | cons y ys =>
        simp only [List.dropLast_cons_cons, List.append_nil, List.cons_append, List.cons.injEq] at h1
        simp [List.getLast_cons, ← h1.1, ← h1.2]

theorem intercalate_splitOnChar (c : Char) (s : Str) : List.intercalate [c] (splitOnChar c s) = s := by
  induction s with
  | nil => simp [splitOnChar, List.intercalate]
  | cons x r ih =>
    by_cases hx : x = c
    · subst hx
      simp only [splitOnChar, ↓reduceIte]
      cases hs : splitOnChar x r with
      | nil => exact absurd hs (splitOnChar_ne_nil x r)
      | cons hd tl =>
        rw [hs] at ih
        simp only [List.intercalate, List.intersperse, List.flatten] at ih ⊢
        simp [List.intersperse, ih]
    · obtain ⟨hd, tl, h1, h2⟩ := splitOnChar_cons_ne c x r hx
      rw [h2]
      rw [h1] at ih
      cases tl with
      | nil => simp [List.intercalate] at ih ⊢; exact ih
      | cons y ys => simp [List.intercalate, List.intersperse] at ih ⊢; exact ih

/-! comment stripping -/

theorem beforeComment_cons (c : Char) (r : Str) (h1 : c ≠ '#') (h2 : c ≠ '/') :
    beforeComment (c :: r) = (beforeComment r).map (c :: ·) := by
  generalize hR : (beforeComment r).map (c :: ·) = R
  unfold beforeComment
  split
  · rename_i heq; simp at heq
  · rename_i heq; simp at heq; exact absurd heq.1 h1
  · rename_i heq; simp at heq; exact absurd heq.1 h2
  · rename_i heq; simp at heq; obtain ⟨e, e'⟩ := heq; subst e; subst e'; exact hR

theorem beforeComment_append (a b : Str) (ha : beforeComment a = none) (hb : beforeComment b = none)
    (hs : ∀ r, b ≠ '/' :: r) : beforeComment (a ++ b) = none := by
  induction a with
  | nil => simpa using hb
  | cons c a ih =>
    -- the three patterns of beforeComment on c :: a
    by_cases h1 : c = '#'
    · subst h1; simp [beforeComment] at ha
    by_cases h2 : c = '/'
    · subst h2
      cases a with
      | nil =>
        cases b with
        | nil => simpa using ha
        | cons d b' =>
          have hd : d ≠ '/' := fun e => hs b' (by rw [e])
          have : beforeComment ('/' :: d :: b') = (beforeComment (d :: b')).map ('/' :: ·) := by
            simp [beforeComment, hd]
          simp only [List.cons_append, List.nil_append, this, hb, Option.map_none]
      | cons d a' =>
        by_cases h3 : d = '/'
        · subst h3; simp [beforeComment] at ha
        · have e1 : beforeComment ('/' :: d :: a') = (beforeComment (d :: a')).map ('/' :: ·) := by
            simp [beforeComment, h3]
          have e2 : beforeComment ('/' :: d :: (a' ++ b)) = (beforeComment (d :: (a' ++ b))).map ('/' :: ·) := by
            simp [beforeComment, h3]
          rw [e1] at ha
          have ha' : beforeComment (d :: a') = none := by
            cases hh : beforeComment (d :: a') with
            | none => rfl
            | some x => rw [hh] at ha; simp at ha
          have := ih ha'
          simp only [List.cons_append] at this ⊢
          rw [e2, this]; rfl
    · have e1 := beforeComment_cons c a h1 h2
      have e2 := beforeComment_cons c (a ++ b) h1 h2
      rw [e1] at ha
      have ha' : beforeComment a = none := by
        cases hh : beforeComment a with
        | none => rfl
        | some x => rw [hh] at ha; simp at ha
      rw [List.cons_append, e2, ih ha']; rfl

theorem beforeComment_digits (s : Str) (h : ∀ c ∈ s, isDigit c = true ∨ c = '-') : beforeComment s = none := by
  induction s with
  | nil => rfl
  | cons c r ih =>
    have hc := h c (by simp)
    have h1 : c ≠ '#' := by
      rcases hc with hc | hc
      · intro e; subst e; revert hc; decide
      · subst hc; decide
    have h2 : c ≠ '/' := by
      rcases hc with hc | hc
      · intro e; subst e; revert hc; decide
      · subst hc; decide
    have e1 := beforeComment_cons c r h1 h2
    rw [e1, ih (fun d hd => h d (by simp [hd]))]; rfl

theorem renderInt_chars (i : Int) : ∀ c ∈ renderInt i, isDigit c = true ∨ c = '-' := by
  intro c hc
  unfold renderInt at hc
  split at hc
  · simp only [List.mem_cons] at hc
    rcases hc with hc | hc
    · exact Or.inr hc
    · exact Or.inl (render_digits _ c hc)
  · exact Or.inl (render_digits _ c hc)

theorem renderInt_notin (i : Int) (c : Char) (hc : isDigit c = false) (hm : c ≠ '-') : c ∉ renderInt i := by
  intro h
  rcases renderInt_chars i c h with h1 | h1
  · rw [h1] at hc; cases hc
  · exact hm h1

/-! the suppression line -/

def Suppr.line0 (s : Suppr) : Str :=
  s.errorId ++ (if s.fileName.isEmpty then [] else ':' :: s.fileName ++ (if s.lineNumber = -1 then [] else ':' :: renderInt s.lineNumber))

def Suppr.extras (s : Suppr) : List Str :=
  (if s.symbolName.isEmpty then [] else ["symbol=".toList ++ s.symbolName]) ++ (if s.isPolyspace then ["polyspace=1".toList] else [])

theorem toStr_eq (s : Suppr) : s.toStr = s.line0 ++ s.extras.flatMap ('\n' :: ·) := by
  unfold Suppr.toStr Suppr.line0 Suppr.extras
  cases s.symbolName.isEmpty <;> cases s.isPolyspace <;> simp

theorem split_lines (a : Str) (es : List Str) (ha : '\n' ∉ a) (hes : ∀ e ∈ es, '\n' ∉ e) :
    splitOnChar '\n' (a ++ es.flatMap ('\n' :: ·)) = a :: es := by
  induction es generalizing a with
  | nil => simpa using splitOnChar_none '\n' a ha
  | cons e es ih =>
    simp only [List.flatMap_cons, List.cons_append]
    rw [splitOnChar_append '\n' a _ ha, ih e (hes e (by simp)) (fun x hx => hes x (by simp [hx]))]

structure Plain (x : Str) : Prop where
  semi : ';' ∉ x
  nl : '\n' ∉ x
  bc : beforeComment x = none

theorem plain_of (x : Str) (h : (!x.contains ';' && !x.contains '\n' && (beforeComment x).isNone) = true) : Plain x := by
  simp only [Bool.and_eq_true, Bool.not_eq_true', List.contains_eq_mem, decide_eq_false_iff_not, Option.isNone_iff_eq_none] at h
  exact ⟨h.1.1, h.1.2, h.2⟩

theorem parseExtras_extras (base s : Suppr) :
    parseExtras base s.extras = .ok { base with
      symbolName := if s.symbolName.isEmpty then base.symbolName else s.symbolName,
      isPolyspace := if s.isPolyspace then true else base.isPolyspace } := by
  unfold Suppr.extras
  have hp : ("symbol=".toList).isPrefixOf ("symbol=".toList ++ s.symbolName) = true := by
    simp [List.isPrefixOf_iff_prefix]
  have hd : ("symbol=".toList ++ s.symbolName).drop 7 = s.symbolName := List.drop_left' rfl
  have hq : ("symbol=".toList).isPrefixOf ("polyspace=1".toList) = false := by decide
  cases h1 : s.symbolName.isEmpty <;> cases h2 : s.isPolyspace <;>
    simp [parseExtras, hp, hd, hq]

theorem findLastColon_line (fn d : Str) (hd : ':' ∉ d) : findLastColon (fn ++ ':' :: d) = some (fn, d) := by
  unfold findLastColon
  rw [splitOnChar_append', splitOnChar_none ':' d hd]
  have hne := splitOnChar_ne_nil ':' fn
  simp only [List.append_nil, List.reverse_append, List.reverse_cons, List.reverse_nil, List.nil_append, List.cons_append]
  simp only [List.reverse_reverse, List.dropLast_concat_getLast, intercalate_splitOnChar]

theorem notin_line0 (s : Suppr) (c : Char) (h1 : c ∉ s.errorId) (h2 : c ≠ ':') (h3 : c ∉ s.fileName)
    (h4 : c ∉ renderInt s.lineNumber) : c ∉ s.line0 := by
  unfold Suppr.line0
  by_cases e1 : s.fileName.isEmpty = true <;> by_cases e2 : s.lineNumber = -1 <;> simp [e1, e2, h1, h2, h3, h4]

theorem bc_line0 (s : Suppr) (hE : beforeComment s.errorId = none) (hF : beforeComment s.fileName = none) :
    beforeComment s.line0 = none := by
  unfold Suppr.line0
  apply beforeComment_append _ _ hE
  · split
    · rfl
    · rw [List.cons_append, beforeComment_cons ':' _ (by decide) (by decide)]
      have : beforeComment (s.fileName ++ if s.lineNumber = -1 then [] else ':' :: renderInt s.lineNumber) = none := by
        apply beforeComment_append _ _ hF
        · split
          · rfl
          · rw [beforeComment_cons ':' _ (by decide) (by decide), beforeComment_digits _ (renderInt_chars _)]; rfl
        · intro r; split <;> simp
      rw [this]; rfl
  · intro r; split <;> simp

theorem bc_flat (es : List Str) (h : ∀ e ∈ es, beforeComment e = none) : beforeComment (es.flatMap ('\n' :: ·)) = none := by
  induction es with
  | nil => rfl
  | cons e es ih =>
    simp only [List.flatMap_cons, List.cons_append]
    rw [beforeComment_cons '\n' _ (by decide) (by decide)]
    have : beforeComment (e ++ es.flatMap ('\n' :: ·)) = none := by
      apply beforeComment_append _ _ (h e (by simp)) (ih (fun x hx => h x (by simp [hx])))
      intro r
      cases es <;> simp
    rw [this]; rfl

theorem notin_renderInt_semicolon (i : Int) : ';' ∉ renderInt i := renderInt_notin i ';' (by decide) (by decide)
theorem notin_renderInt_nl (i : Int) : '\n' ∉ renderInt i := renderInt_notin i '\n' (by decide) (by decide)
theorem notin_renderInt_colon (i : Int) : ':' ∉ renderInt i := renderInt_notin i ':' (by decide) (by decide)
theorem notin_renderInt_dot (i : Int) : '.' ∉ renderInt i := renderInt_notin i '.' (by decide) (by decide)

/-- the pieces of `Suppr.transportable` as propositions -/
structure SupprOK (s : Suppr) : Prop where
  eid : Plain s.errorId
  eidColon : ':' ∉ s.errorId
  fn : Plain s.fileName
  sym : Plain s.symbolName
  heur : s.lineNumber = -1 → match findLastColon s.fileName with
    | some (_, post) => post.contains '.' = true
    | none => True
  lineFile : s.lineNumber ≠ -1 → s.fileName ≠ []
  l1 : -(2147483648 : Int) ≤ s.lineNumber
  l2 : s.lineNumber ≤ 2147483647
  c1 : -(2147483648 : Int) ≤ s.column
  c2 : s.column ≤ 2147483647

theorem supprOK_of (s : Suppr) (h : s.transportable = true) : SupprOK s := by
  simp only [Suppr.transportable, Bool.and_eq_true, decide_eq_true_eq, Bool.or_eq_true, bne_iff_ne, ne_eq,
    beq_iff_eq, Bool.not_eq_true'] at h
  obtain ⟨⟨⟨⟨⟨⟨⟨⟨⟨h1, h2⟩, h3⟩, h4⟩, h5⟩, h6⟩, h7⟩, h8⟩, h9⟩, h10⟩ := h
  refine ⟨plain_of _ (by simpa using h1), by simpa using h2, plain_of _ (by simpa using h3), plain_of _ (by simpa using h4),
    ?_, ?_, h7, h8, h9, h10⟩
  · intro hl
    rcases h5 with h5 | h5
    · exact absurd hl h5
    · revert h5
      cases findLastColon s.fileName with
      | none => intro _; trivial
      | some p => intro h5; exact h5
  · intro hl hf
    rcases h6 with h6 | h6
    · exact hl h6
    · rw [hf] at h6; simp at h6

theorem ite_isEmpty (x : Str) : (if x.isEmpty = true then [] else x) = x := by
  cases x <;> rfl

theorem parseLine_toStr (simp : Str → Str) (s : Suppr) (h : SupprOK s) :
    parseLine simp s.toStr = .ok { errorId := s.errorId, fileName := if s.fileName.isEmpty then [] else simp s.fileName,
                                   lineNumber := s.lineNumber, symbolName := s.symbolName, isPolyspace := s.isPolyspace } := by
  have hnl0 : '\n' ∉ s.line0 := notin_line0 s _ h.eid.nl (by decide) h.fn.nl (notin_renderInt_nl _)
  have hex : ∀ e ∈ s.extras, '\n' ∉ e ∧ beforeComment e = none := by
    intro e he
    unfold Suppr.extras at he
    simp only [List.mem_append] at he
    rcases he with he | he
    · split at he
      · cases he
      · simp only [List.mem_singleton] at he
        subst he
        refine ⟨by simp [h.sym.nl], ?_⟩
        show beforeComment ('s' :: 'y' :: 'm' :: 'b' :: 'o' :: 'l' :: '=' :: s.symbolName) = none
        rw [beforeComment_cons _ _ (by decide) (by decide), beforeComment_cons _ _ (by decide) (by decide),
          beforeComment_cons _ _ (by decide) (by decide), beforeComment_cons _ _ (by decide) (by decide),
          beforeComment_cons _ _ (by decide) (by decide), beforeComment_cons _ _ (by decide) (by decide),
          beforeComment_cons _ _ (by decide) (by decide), h.sym.bc]
        rfl
    · split at he
      · simp only [List.mem_singleton] at he
        subst he
        exact ⟨by decide, by decide⟩
      · cases he
  have hbc : beforeComment s.toStr = none := by
    rw [toStr_eq]
    apply beforeComment_append _ _ (bc_line0 s h.eid.bc h.fn.bc) (bc_flat _ (fun e he => (hex e he).2))
    intro r
    cases s.extras <;> simp
  unfold parseLine
  simp only [hbc]
  rw [toStr_eq, split_lines _ _ hnl0 (fun e he => (hex e he).1)]
  simp only
  by_cases hfn : s.fileName = []
  · -- no file name: the line is the id
    have hl : s.lineNumber = -1 := by
      by_cases hl : s.lineNumber = -1
      · exact hl
      · exact absurd hfn (h.lineFile hl)
    have hline : s.line0 = s.errorId := by simp [Suppr.line0, hfn]
    rw [hline, splitOnChar_none ':' _ h.eidColon]
    simp only [parseExtras_extras, hfn, List.isEmpty_nil, ↓reduceIte, hl]
    simp [ite_isEmpty]
  · have hfe : s.fileName.isEmpty = false := by
      cases hh : s.fileName with
      | nil => exact absurd hh hfn
      | cons _ _ => rfl
    by_cases hl : s.lineNumber = -1
    · have hline : s.line0 = s.errorId ++ ':' :: s.fileName := by simp [Suppr.line0, hfe, hl]
      rw [hline, splitOnChar_append ':' _ _ h.eidColon]
      cases hsp : splitOnChar ':' s.fileName with
      | nil => exact absurd hsp (splitOnChar_ne_nil _ _)
      | cons hd tl =>
        have hint : List.intercalate [':'] (hd :: tl) = s.fileName := by rw [← hsp, intercalate_splitOnChar]
        simp only [hint, hfe, Bool.false_eq_true, ↓reduceIte]
        have hheur := h.heur hl
        cases hfl : findLastColon s.fileName with
        | none =>
          simp only [parseExtras_extras, hl]
          simp [ite_isEmpty]
        | some p =>
          obtain ⟨pre, post⟩ := p
          rw [hfl] at hheur
          simp only at hheur
          simp only [hheur, ↓reduceIte, parseExtras_extras, hl]
          simp [ite_isEmpty]
    · have hline : s.line0 = s.errorId ++ ':' :: (s.fileName ++ ':' :: renderInt s.lineNumber) := by
        simp [Suppr.line0, hfe, hl]
      rw [hline, splitOnChar_append ':' _ _ h.eidColon]
      cases hsp : splitOnChar ':' (s.fileName ++ ':' :: renderInt s.lineNumber) with
      | nil => exact absurd hsp (splitOnChar_ne_nil _ _)
      | cons hd tl =>
        have hint : List.intercalate [':'] (hd :: tl) = s.fileName ++ ':' :: renderInt s.lineNumber := by
          rw [← hsp, intercalate_splitOnChar]
        have hne : (s.fileName ++ ':' :: renderInt s.lineNumber).isEmpty = false := by
          cases s.fileName <;> rfl
        have hdot : (renderInt s.lineNumber).contains '.' = false := by
          simpa using notin_renderInt_dot s.lineNumber
        simp only [hint, hne, Bool.false_eq_true, ↓reduceIte, findLastColon_line _ _ (notin_renderInt_colon _), hdot, hfe,
          parseInt32_renderInt _ h.l1 h.l2, parseExtras_extras]
        simp [ite_isEmpty]

theorem notin_toStr_semicolon (s : Suppr) (h : SupprOK s) : ';' ∉ s.toStr := by
  rw [toStr_eq]
  simp only [List.mem_append, not_or]
  refine ⟨notin_line0 s _ h.eid.semi (by decide) h.fn.semi (notin_renderInt_semicolon _), ?_⟩
  unfold Suppr.extras
  cases s.symbolName.isEmpty <;> cases s.isPolyspace <;> simp [h.sym.semi]

/-- SUPPRESSION TRANSPORT ROUND TRIP (restated in Props/C15.lean) -/
theorem suppr_transport_aux (simp : Str → Str) (s : Suppr) (inl : Bool) (h : s.transportable = true) :
    supprDecode simp inl (supprEncode s) = .ok { s.transportView simp with isInline := inl } := by
  have ok := supprOK_of s h
  have h1 := notin_toStr_semicolon s ok
  have h2 := notin_renderInt_semicolon s.column
  have e : supprEncode s = s.toStr ++ ';' :: (renderInt s.column ++ ';' ::
      ([if s.checked then '1' else '0'] ++ ';' :: ([if s.matched then '1' else '0'] ++ ';' :: s.extraComment))) := by
    simp [supprEncode]
  unfold supprDecode
  rw [e, splitOnChar_append ';' _ _ h1, splitOnChar_append ';' _ _ h2,
    splitOnChar_append ';' [if s.checked then '1' else '0'] _ (by cases s.checked <;> simp),
    splitOnChar_append ';' [if s.matched then '1' else '0'] _ (by cases s.matched <;> simp)]
  cases hsp : splitOnChar ';' s.extraComment with
  | nil => exact absurd hsp (splitOnChar_ne_nil _ _)
  | cons p4 more =>
    have hint : List.intercalate [';'] (p4 :: more) = s.extraComment := by rw [← hsp, intercalate_splitOnChar]
    simp only [parseLine_toStr simp s ok, parseInt32_renderInt _ ok.c1 ok.c2, hint, Suppr.transportView]
    cases s.checked <;> cases s.matched <;> simp


end Cppcheck.Serialize

import Cppcheck.Model.Serialize
/-
Helper lemmas for the transport round trips (C15): decimal rendering/parsing, length-prefixed fields,
tab-separated frames, pipe framing, ';'-separated suppression lines.
-/
namespace Cppcheck.Serialize
open Cppcheck.Wire

/-! ### digits -/

theorem digitOf_digitChar : ∀ d, d < 10 → digitOf (digitChar d) = d := by decide

theorem digitChar_isDigit : ∀ d, d < 10 → isDigit (digitChar d) = true := by decide

theorem digitChar_ne_zero : ∀ d, d < 10 → d ≠ 0 → digitChar d ≠ '0' := by decide

theorem isDigit_facts (c : Char) (h : isDigit c = true) :
    c ≠ '-' ∧ c ≠ '+' ∧ c ≠ ' ' ∧ c ≠ '\t' ∧ isSpace c = false := by
  refine ⟨?_, ?_, ?_, ?_, ?_⟩
  · intro e; subst e; revert h; decide
  · intro e; subst e; revert h; decide
  · intro e; subst e; revert h; decide
  · intro e; subst e; revert h; decide
  · simp only [isDigit, Bool.and_eq_true, decide_eq_true_eq] at h
    simp only [isSpace, Bool.or_eq_false_iff, decide_eq_false_iff_not, Bool.and_eq_false_iff]
    exact ⟨by omega, by omega⟩

theorem digitsVal_append (acc : Nat) (l : Str) (c : Char) :
    digitsVal acc (l ++ [c]) = 10 * digitsVal acc l + digitOf c := by
  simp [digitsVal, List.foldl_append]

/-- everything the proofs need about the decimal rendering, by induction on the fuel -/
theorem renderFuel_spec (f n : Nat) (h : n ≤ f) :
    (∀ c ∈ renderFuel f n, isDigit c = true) ∧ digitsVal 0 (renderFuel f n) = n ∧
    (∃ c r, renderFuel f n = c :: r ∧ (n ≠ 0 → c ≠ '0') ∧ (n = 0 → r = [])) := by
  induction f generalizing n with
  | zero =>
    have : n = 0 := by omega
    subst this
    refine ⟨?_, ?_, ?_⟩
    · intro c hc; simp [renderFuel] at hc; subst hc; exact digitChar_isDigit 0 (by omega)
    · simp [renderFuel, digitsVal, digitOf_digitChar 0 (by omega)]
    · exact ⟨digitChar 0, [], by simp [renderFuel], by simp, by simp⟩
  | succ f ih =>
    simp only [renderFuel]
    split
    · rename_i hlt
      refine ⟨?_, ?_, ?_⟩
      · intro c hc; simp at hc; subst hc; exact digitChar_isDigit n hlt
      · simp [digitsVal, digitOf_digitChar n hlt]
      · exact ⟨digitChar n, [], rfl, fun hn => digitChar_ne_zero n hlt hn, fun _ => rfl⟩
    · rename_i hge
      have hle : n / 10 ≤ f := by omega
      obtain ⟨h1, h2, c, r, h3, h4, _⟩ := ih (n / 10) hle
      have hm : n % 10 < 10 := Nat.mod_lt _ (by omega)
      refine ⟨?_, ?_, ?_⟩
      · intro c hc
        simp only [List.mem_append, List.mem_singleton] at hc
        rcases hc with hc | hc
        · exact h1 c hc
        · subst hc; exact digitChar_isDigit _ hm
      · rw [digitsVal_append, h2, digitOf_digitChar _ hm]; omega
      · refine ⟨c, r ++ [digitChar (n % 10)], by simp [h3], fun _ => h4 (by omega), fun h0 => by omega⟩

theorem render_digits (n : Nat) : ∀ c ∈ render n, isDigit c = true := (renderFuel_spec n n (Nat.le_refl _)).1
theorem digitsVal_render (n : Nat) : digitsVal 0 (render n) = n := (renderFuel_spec n n (Nat.le_refl _)).2.1
theorem render_cons (n : Nat) : ∃ c r, render n = c :: r ∧ isDigit c = true ∧ (n ≠ 0 → c ≠ '0') ∧ (n = 0 → r = []) := by
  obtain ⟨c, r, h, h1, h2⟩ := (renderFuel_spec n n (Nat.le_refl _)).2.2
  exact ⟨c, r, h, render_digits n c (by rw [show render n = c :: r from h]; simp), h1, h2⟩

theorem render_ne_nil (n : Nat) : render n ≠ [] := by
  obtain ⟨c, r, h, _⟩ := render_cons n
  simp [h]

theorem takeDigits_append (ds rest : Str) (hd : ∀ c ∈ ds, isDigit c = true)
    (hr : ∀ c r, rest = c :: r → isDigit c = false) : takeDigits (ds ++ rest) = (ds, rest) := by
  induction ds with
  | nil =>
    cases rest with
    | nil => rfl
    | cons c r => simp [takeDigits, hr c r rfl]
  | cons d ds ih =>
    have hd' : ∀ c ∈ ds, isDigit c = true := fun c hc => hd c (by simp [hc])
    simp [takeDigits, hd d (by simp), ih hd']

theorem dropSpaces_cons_digit (c : Char) (r : Str) (h : isDigit c = true) : dropSpaces (c :: r) = c :: r := by
  simp [dropSpaces, (isDigit_facts c h).2.2.2.2]

/-- `iss >> len` on what `serializeString` wrote -/
theorem readUInt_render (n : Nat) (rest : Str) (hn : n < two32) (hr : ∀ c r, rest = c :: r → isDigit c = false) :
    readUInt (render n ++ rest) = some (n, rest) := by
  obtain ⟨c, r, h, hc, _, _⟩ := render_cons n
  have hdig := render_digits n
  have hval := digitsVal_render n
  have htd := takeDigits_append (render n) rest hdig hr
  rw [h] at hdig hval htd
  obtain ⟨f1, f2, _, _, _⟩ := isDigit_facts c hc
  have hs : splitSign (c :: (r ++ rest)) = (false, c :: (r ++ rest)) := by
    unfold splitSign
    split
    · rename_i heq; simp at heq; exact absurd heq.1 f1
    · rename_i heq; simp at heq; exact absurd heq.1 f2
    · rfl
  unfold readUInt
  rw [h]
  simp only [List.cons_append, dropSpaces_cons_digit c _ hc, hs]
  rw [← List.cons_append, htd]
  simp only [List.isEmpty_cons, Bool.false_eq_true, ↓reduceIte, hval]
  have : ¬ n ≥ two32 := by omega
  simp [this]

theorem space_not_digit : ∀ c r, (' ' :: (r : Str)) = c :: r → isDigit c = false := by
  intro c r h
  simp at h
  rw [← h]
  decide

/-! ### length-prefixed fields -/

theorem readField_serStr (e1 e2 e3 : DErr) (s rest : Str) (h : s.length < two32) :
    readField e1 e2 e3 (serStr s ++ rest) = .ok (s, rest) := by
  unfold readField serStr
  have hr : ∀ c r, (' ' :: (s ++ rest)) = c :: r → isDigit c = false := by
    intro c r hc
    simp at hc
    rw [← hc.1]
    decide
  rw [List.append_assoc, List.cons_append, readUInt_render _ _ h hr]
  simp only
  by_cases h0 : s.length = 0
  · have : s = [] := List.eq_nil_of_length_eq_zero h0
    subst this
    simp
  · simp only [h0, ↓reduceIte, List.length_append]
    have : ¬ (s.length + rest.length < s.length) := by omega
    simp [this]

theorem readFields_serFields (fs : List Str) (rest : Str) (h : ∀ f ∈ fs, f.length < two32) :
    readFields fs.length (serFields fs ++ rest) = .ok (fs, rest) := by
  induction fs with
  | nil => simp [readFields, serFields]
  | cons f fs ih =>
    have hf := h f (by simp)
    have hfs : ∀ g ∈ fs, g.length < two32 := fun g hg => h g (by simp [hg])
    simp only [List.length_cons, readFields, serFields, List.append_assoc]
    rw [readField_serStr _ _ _ f _ hf]
    simp only
    rw [ih hfs]

/-! ### frames -/

theorem noTab_iff (s : Str) : noTab s = true ↔ ∀ c ∈ s, c ≠ '\t' := by
  simp [noTab, List.contains_iff_mem]
  constructor
  · intro h c hc e; subst e; exact h hc
  · intro h hc; exact h _ hc rfl

theorem spanTab_append (a r : Str) (h : noTab a = true) : spanTab (a ++ '\t' :: r) = (a, '\t' :: r) := by
  rw [noTab_iff] at h
  induction a with
  | nil => simp [spanTab]
  | cons c a ih =>
    have hc : c ≠ '\t' := h c (by simp)
    have ha : ∀ d ∈ a, d ≠ '\t' := fun d hd => h d (by simp [hd])
    simp [spanTab, hc, ih ha]

theorem splitFrame_step (k : Nat) (a r : Str) (h : noTab a = true) :
    splitFrame (k + 1) (a ++ '\t' :: r) = a :: splitFrame k r := by
  have hs := spanTab_append a r h
  cases a with
  | nil => simp only [List.nil_append] at hs ⊢; simp [splitFrame, hs]
  | cons c a => simp only [List.cons_append] at hs ⊢; simp [splitFrame, hs]

theorem noTab_of_digits (s : Str) (h : ∀ c ∈ s, isDigit c = true) : noTab s = true := by
  rw [noTab_iff]
  intro c hc
  exact (isDigit_facts c (h c hc)).2.2.2.1

theorem noTab_render (n : Nat) : noTab (render n) = true := noTab_of_digits _ (render_digits n)

theorem noTab_renderInt (i : Int) : noTab (renderInt i) = true := by
  unfold renderInt
  split
  · rw [noTab_iff]
    intro c hc
    simp only [List.mem_cons] at hc
    rcases hc with hc | hc
    · subst hc; decide
    · exact (isDigit_facts c (render_digits _ c hc)).2.2.2.1
  · exact noTab_render _

theorem splitFrame_frameStr (l : Loc) (h1 : noTab l.file = true) (h2 : noTab l.origFile = true) :
    splitFrame 4 (frameStr l) =
      [renderInt l.line, render l.col, l.file, l.origFile] ++ (if l.info = [] then [] else [l.info]) := by
  unfold frameStr
  simp only [List.append_assoc, List.cons_append]
  rw [show (4 : Nat) = 3 + 1 from rfl, splitFrame_step 3 _ _ (noTab_renderInt _)]
  rw [show (3 : Nat) = 2 + 1 from rfl, splitFrame_step 2 _ _ (noTab_render _)]
  rw [show (2 : Nat) = 1 + 1 from rfl, splitFrame_step 1 _ _ h1]
  rw [show (1 : Nat) = 0 + 1 from rfl, splitFrame_step 0 _ _ h2]
  cases l.info <;> simp [splitFrame]

theorem parseUnsigned_render (max n : Nat) (h : n ≤ max) : parseUnsigned max (render n) = some n := by
  obtain ⟨c, r, hcr, hc, hnz, hz⟩ := render_cons n
  have hdig := render_digits n
  have hval := digitsVal_render n
  rw [hcr] at hdig hval
  unfold parseUnsigned
  rw [hcr]
  have hplus : c ≠ '+' := (isDigit_facts c hc).2.1
  simp only [hplus, ↓reduceIte, List.isEmpty_cons, Bool.false_or]
  have hall : (c :: r).all isDigit = true := by
    rw [List.all_eq_true]; exact hdig
  simp only [hall, Bool.not_true, Bool.false_eq_true, ↓reduceIte]
  have hlead : (decide (c = '0') && !r.isEmpty) = false := by
    by_cases h0 : n = 0
    · simp [hz h0]
    · simp [hnz h0]
  simp only [hlead, Bool.false_eq_true, ↓reduceIte, hval]
  have : ¬ n > max := by omega
  simp [this]

theorem parseInt32_renderInt (i : Int) (h1 : -(2147483648 : Int) ≤ i) (h2 : i ≤ 2147483647) :
    parseInt32 (renderInt i) = some i := by
  unfold parseInt32 renderInt
  obtain ⟨c, r, hcr, hc, hnz, hz⟩ := render_cons i.natAbs
  have hdig := render_digits i.natAbs
  have hval := digitsVal_render i.natAbs
  have hall : (render i.natAbs).all isDigit = true := by
    rw [List.all_eq_true]; exact hdig
  split
  · rename_i hneg
    unfold parseSigned
    simp only [decide_true, Bool.or_true, ↓reduceIte]
    have hne : (render i.natAbs).isEmpty = false := by simp [hcr]
    simp only [hne, hall, Bool.not_true, Bool.or_self, Bool.false_eq_true, ↓reduceIte]
    have : (decide ('-' = '0') && !(render i.natAbs).isEmpty) = false := by simp
    simp only [this, Bool.false_eq_true, ↓reduceIte, hval, intMax]
    have h3 : ¬ (i.natAbs > 2147483647 + 1) := by omega
    have h4 : -(i.natAbs : Int) = i := by omega
    simp [h3, h4]
  · rename_i hpos
    unfold parseSigned
    rw [hcr]
    rw [hcr] at hall hval
    obtain ⟨f1, f2, _⟩ := isDigit_facts c hc
    simp only [f1, f2, decide_false, Bool.or_self, Bool.false_eq_true, ↓reduceIte, List.isEmpty_cons, hall, Bool.not_true]
    have hlead : (decide (c = '0') && !r.isEmpty) = false := by
      by_cases h0 : i.natAbs = 0
      · simp [hz h0]
      · simp [hnz h0]
    simp only [hlead, Bool.false_eq_true, ↓reduceIte, hval, intMax]
    have h3 : ¬ (i.natAbs > 2147483647) := by omega
    have h4 : (i.natAbs : Int) = i := by omega
    simp [h3, h4]

theorem parseFrame_frameStr (simp : Str → Str) (l : Loc) (h : l.transportable = true) :
    parseFrame simp (frameStr l) = .ok (l.sanitize simp) := by
  simp only [Loc.transportable, Bool.and_eq_true, decide_eq_true_eq] at h
  obtain ⟨⟨⟨⟨⟨h1, h2⟩, h3⟩, h4⟩, h5⟩, _⟩ := h
  unfold parseFrame
  rw [splitFrame_frameStr l h1 h2]
  have hl := parseInt32_renderInt l.line h3 h4
  have hc : parseUInt32 (render l.col) = some l.col := parseUnsigned_render _ _ (by unfold two32 at *; omega)
  by_cases hi : l.info = []
  · simp only [hi, ↓reduceIte, List.append_nil, hl, hc, Loc.sanitize]
  · simp only [hi, ↓reduceIte, List.cons_append, List.nil_append, hl, hc, Loc.sanitize]

theorem readFrames_serFrames (simp : Str → Str) (st : List Loc) (rest : Str)
    (h : ∀ l ∈ st, l.transportable = true) :
    readFrames simp st.length (serFrames st ++ rest) = .ok (st.map (Loc.sanitize simp)) := by
  induction st with
  | nil => simp [readFrames]
  | cons l st ih =>
    have hl := h l (by simp)
    have hst : ∀ l' ∈ st, l'.transportable = true := fun l' hl' => h l' (by simp [hl'])
    have hlen : (frameStr l).length < two32 := by
      simp only [Loc.transportable, Bool.and_eq_true, decide_eq_true_eq] at hl
      exact hl.2
    simp only [List.length_cons, readFrames, serFrames, List.append_assoc, List.map_cons]
    rw [readField_serStr _ _ _ _ _ hlen]
    simp only
    rw [parseFrame_frameStr simp l hl]
    simp only
    rw [ih hst]

theorem Severity.ofStr_toStr (s : Severity) : Severity.ofStr s.toStr = s := by
  cases s <;> decide

/-- the transport round trip (restated as `deserialize_serialize` in Props/C15.lean) -/
theorem deserialize_serialize_aux (simp : Str → Str) (m : Msg) (h : m.transportable = true) :
    deserialize simp (serialize m) = .ok (m.sanitize simp) := by
  simp only [Msg.transportable, Bool.and_eq_true, decide_eq_true_eq, List.all_eq_true] at h
  obtain ⟨⟨⟨⟨hf, hcwe⟩, hhash⟩, hlen⟩, hst⟩ := h
  have hfields : readFields 10 (serFields m.fields ++ (render m.stack.length ++ ' ' :: serFrames m.stack)) =
      .ok (m.fields, render m.stack.length ++ ' ' :: serFrames m.stack) := by
    have := readFields_serFields m.fields (render m.stack.length ++ ' ' :: serFrames m.stack) hf
    simpa [Msg.fields] using this
  unfold deserialize serialize
  rw [List.append_assoc, hfields]
  simp only [Msg.fields]
  have hc : (render m.cwe).isEmpty = false := by
    cases hh : render m.cwe with
    | nil => exact absurd hh (render_ne_nil _)
    | cons _ _ => rfl
  have hh : (render m.hash).isEmpty = false := by
    cases hh : render m.hash with
    | nil => exact absurd hh (render_ne_nil _)
    | cons _ _ => rfl
  simp only [hc, hh, Bool.false_eq_true, ↓reduceIte, parseUnsigned_render 65535 m.cwe (by omega),
    parseUnsigned_render (two64 - 1) m.hash (by omega)]
  have hr : ∀ c r, (' ' :: serFrames m.stack) = c :: r → isDigit c = false := by
    intro c r hc
    simp at hc
    rw [← hc.1]
    decide
  rw [readUInt_render _ _ hlen hr]
  simp only
  have := readFrames_serFrames simp m.stack [] hst
  rw [List.append_nil] at this
  rw [this]
  simp only [Severity.ofStr_toStr, Msg.sanitize]
  cases m
  simp


/-! ### pipe framing -/

theorem le32Val_le32 (n : Nat) (h : n < two32) :
    (match le32 n with
     | [a, b, c, d] => le32Val a b c d
     | _ => 0) = n := by
  unfold le32 le32Val
  simp only
  have e : ∀ k, k < 256 → (Char.ofNat k).toNat = k := by
    intro k hk
    have : k.isValidChar := by left; omega
    simp [Char.ofNat, this, Char.ofNatAux, Char.toNat]
  rw [e _ (Nat.mod_lt _ (by decide)), e _ (Nat.mod_lt _ (by decide)), e _ (Nat.mod_lt _ (by decide)), e _ (Nat.mod_lt _ (by decide))]
  unfold two32 at h
  omega

theorem readFrame_frame (t : Char) (data rest : Str) (ht : validType t = true) (h : data.length < two32) :
    readFrame (frame t data ++ rest) = .msg t data rest := by
  have hv := le32Val_le32 data.length h
  unfold frame readFrame
  have hm : data.length % two32 = data.length := Nat.mod_eq_of_lt h
  rw [hm]
  unfold le32 at hv ⊢
  simp only [List.cons_append, List.nil_append, ht, Bool.not_true, Bool.false_eq_true, ↓reduceIte] at hv ⊢
  rw [hv]
  have : ¬ ((data ++ rest).length < data.length) := by simp
  simp [this]

end Cppcheck.Serialize

import Cppcheck.Proofs.MathLit
/-
Helper lemmas for `characterLiteralToLL` on rendered character literals.
-/
deriving instance DecidableEq for Except

namespace Cppcheck.CharLit
open Cppcheck.Wire Cppcheck.Trunc Cppcheck.MathLit

/-! ## strtoull on a digit run -/

/-- the string starts like a `0x` prefix that strtoull (base 16) would skip -/
def pfxQuirk (s : Str) : Bool :=
  match s with
  | '0' :: x :: h :: _ => (x == 'x' || x == 'X') && (digitOf 16 h).isSome
  | _ => false

theorem skipPfx_16 {s : Str} (h : pfxQuirk s = false) : skipPfx 16 s = (s, 0) := by
  unfold skipPfx
  unfold pfxQuirk at h
  simp only [if_true]
  split
  · rename_i x hh r
    simp only at h
    simp [h]
  · rfl

theorem skipPfx_8 (s : Str) : skipPfx 8 s = (s, 0) := by
  simp [skipPfx]

theorem strtoull_digits (b : Base) (ds : Str) (hne : ds ≠ []) (hall : ds.all b.isDigit = true) (rest : Str)
    (hrest : rest = [] ∨ ∃ c r, rest = c :: r ∧ digitOf b.radix c = none)
    (hp : skipPfx b.radix (ds ++ rest) = (ds ++ rest, 0)) (hlt : positional b.radix ds < 2 ^ 64) :
    strtoull b.radix (ds ++ rest) = ⟨positional b.radix ds, ds.length, false⟩ := by
  cases hd : ds with
  | nil => exact absurd hd hne
  | cons d ds' =>
    rw [hd] at hall
    have hall' := hall
    simp only [List.all_cons, Bool.and_eq_true] at hall
    obtain ⟨hsp, hm, hpl⟩ := digit_not_space_sign (isXDigit_of_base hall.1)
    have hrun := digitsGo_run b (d :: ds') hall' rest hrest 0 0
    rw [hd] at hp hlt
    simp only [List.cons_append] at hp hrun
    simp only [strtoull, List.cons_append, skipSpaces, hsp, Bool.false_eq_true, if_false, splitSign, hm, hpl, hp, hrun]
    simp only [Nat.zero_mul, Nat.zero_add, List.length_cons]
    have h1 : ¬ (ds'.length + 1 = 0) := by omega
    have h2 : ¬ (positional b.radix (d :: ds') ≥ 2 ^ 64) := by omega
    simp [h1, h2]

/-! ## elements -/

theorem lookup_simpleEscape (e : Char) (v : Nat) (h : escTable.lookup e = some v) : simpleEscape e = some v := by
  simp only [escTable, List.lookup] at h
  repeat (split at h; (· rename_i heq; simp only [beq_iff_eq] at heq; subst heq; simp only [Option.some.injEq] at h; subst h; decide))
  simp at h

/-- the head of what follows an element inside a rendered literal -/
def headOf (rest : Str) : Char := rest.headD '\''

/-- string-level side conditions of `element` for the element in front of `rest` -/
def restOk (e : CElem) (rest : Str) : Prop :=
  rest ≠ [] ∧
  match e with
  | .oct ds => ds.length < 3 → isOctDigit (headOf rest) = false
  | .hex ds => isXDigit (headOf rest) = false ∧ pfxQuirk (ds ++ rest) = false
  | _ => True

theorem digitOf_none_of_range {b : Nat} {c : Char}
    (h1 : ¬ (48 ≤ c.toNat ∧ c.toNat ≤ 57 ∧ c.toNat - 48 < b))
    (h2 : ¬ (97 ≤ c.toNat ∧ c.toNat ≤ 122 ∧ c.toNat - 87 < b))
    (h3 : ¬ (65 ≤ c.toNat ∧ c.toNat ≤ 90 ∧ c.toNat - 55 < b)) : digitOf b c = none := by
  unfold digitOf CharLit.isDigit
  by_cases a1 : 48 ≤ c.toNat ∧ c.toNat ≤ 57
  · have : ¬ (c.toNat - 48 < b) := by omega
    simp [a1, this]
  · by_cases a2 : 97 ≤ c.toNat ∧ c.toNat ≤ 122
    · have : ¬ (c.toNat - 87 < b) := by omega
      have a1' : ¬ (48 ≤ c.toNat ∧ c.toNat ≤ 57) := a1
      simp [a1', a2, this]
    · by_cases a3 : 65 ≤ c.toNat ∧ c.toNat ≤ 90
      · have : ¬ (c.toNat - 55 < b) := by omega
        simp [a1, a2, a3, this]
      · simp [a1, a2, a3]

theorem not_xdigit_none {c : Char} (h : isXDigit c = false) : digitOf 16 c = none := by
  simp only [isXDigit, CharLit.isDigit, Bool.or_eq_false_iff, Bool.and_eq_false_iff, decide_eq_false_iff_not] at h
  apply digitOf_none_of_range <;> omega

theorem not_octdigit_none {c : Char} (h : isOctDigit c = false) : digitOf 8 c = none := by
  simp only [isOctDigit, Bool.and_eq_false_iff, decide_eq_false_iff_not] at h
  apply digitOf_none_of_range <;> omega

theorem simpleEscape_none_of_alnum {e : Char}
    (h : (48 ≤ e.toNat ∧ e.toNat ≤ 57) ∨ e = 'x' ∨ e = 'u' ∨ e = 'U') : simpleEscape e = none := by
  rcases h with h | h | h | h
  · have hne : ∀ c : Char, (c.toNat < 48 ∨ 57 < c.toNat) → (e == c) = false := by
      intro c hc; apply Bool.eq_false_iff.2; intro heq; simp only [beq_iff_eq] at heq; subst heq; omega
    simp [simpleEscape, hne '%' (by decide), hne '(' (by decide), hne '[' (by decide), hne '{' (by decide), hne '\'' (by decide),
      hne '"' (by decide), hne '?' (by decide), hne '\\' (by decide), hne 'a' (by decide), hne 'b' (by decide), hne 'f' (by decide),
      hne 'n' (by decide), hne 'r' (by decide), hne 't' (by decide), hne 'v' (by decide), hne 'e' (by decide), hne 'E' (by decide)]
  · subst h; decide
  · subst h; decide
  · subst h; decide

theorem pfxQuirk_two {d1 d2 : Char} {r : Str} (h : isXDigit d2 = true) : pfxQuirk (d1 :: d2 :: r) = false := by
  have : (d2 == 'x' || d2 == 'X') = false := by
    apply Bool.eq_false_iff.2; intro hx
    simp only [Bool.or_eq_true, beq_iff_eq] at hx
    rcases hx with hx | hx <;> subst hx <;> revert h <;> decide
  unfold pfxQuirk
  split
  · rename_i heq
    simp only [List.cons.injEq] at heq
    obtain ⟨_, hx, _⟩ := heq
    subst hx
    simp [this]
  · rfl

theorem value_le_maxNumeric {k : Kind} {e : CElem} (h : e.WF k = true) : e.value ≤ k.maxNumeric := by
  cases e with
  | plain c =>
    simp only [CElem.WF, Bool.and_eq_true, decide_eq_true_eq] at h
    simp only [CElem.value]
    cases k <;> simp only [Kind.maxNumeric] <;> omega
  | simple e =>
    simp only [CElem.WF, Option.isSome_iff_exists] at h
    obtain ⟨v, hv⟩ := h
    have hle : v ≤ 123 := by
      simp only [escTable, List.lookup] at hv
      repeat (split at hv; (· simp only [Option.some.injEq] at hv; omega))
      simp at hv
    simp only [CElem.value, hv, Option.getD_some]
    cases k <;> simp only [Kind.maxNumeric] <;> omega
  | oct ds => simp only [CElem.WF, Bool.and_eq_true, decide_eq_true_eq] at h; exact h.2
  | hex ds => simp only [CElem.WF, Bool.and_eq_true, decide_eq_true_eq] at h; exact h.2
  | ucn4 ds =>
    simp only [CElem.WF, Bool.and_eq_true, decide_eq_true_eq] at h
    have := h.1.2
    simp only [CElem.value]
    cases k <;> simp only [Kind.maxNumeric, Kind.maxUcn] at * <;> omega
  | ucn8 ds =>
    simp only [CElem.WF, Bool.and_eq_true, decide_eq_true_eq] at h
    have := h.1.2
    simp only [CElem.value]
    cases k <;> simp only [Kind.maxNumeric, Kind.maxUcn] at * <;> omega

theorem ucn_element (k : Kind) (u : Char) (nd : Nat) (hu : (u = 'u' ∧ nd = 4) ∨ (u = 'U' ∧ nd = 8)) (ds rest : Str)
    (hlen : ds.length = nd) (hall : ds.all isXDigit = true) (hmax : positional 16 ds ≤ k.maxUcn)
    (hsur : ¬ (0xd800 ≤ positional 16 ds ∧ positional 16 ds ≤ 0xdfff)) (hrest : rest ≠ []) :
    element k ('\\' :: u :: ds ++ rest) = .ok (positional 16 ds, rest) := by
  have hse : simpleEscape u = none := simpleEscape_none_of_alnum (by rcases hu with h | h <;> simp [h.1])
  have hoct : isOctDigit u = false := by rcases hu with h | h <;> (rw [h.1]; decide)
  have hx : (u == 'x') = false := by rcases hu with h | h <;> (rw [h.1]; decide)
  have huu : (u == 'u' || u == 'U') = true := by rcases hu with h | h <;> (rw [h.1]; decide)
  have hnd : (if (u == 'u') = true then 4 else 8) = nd := by rcases hu with h | h <;> (rw [h.1, h.2]; decide)
  have hne : ds ≠ [] := by intro h; rw [h] at hlen; simp at hlen; omega
  have hq : pfxQuirk ds = false := by
    match ds, hlen, hall with
    | [], hl, _ => simp at hl; omega
    | [_], hl, _ => simp at hl; omega
    | d1 :: d2 :: r, _, ha =>
      simp only [List.all_cons, Bool.and_eq_true] at ha
      exact pfxQuirk_two ha.2.1
  have hmx : positional 16 ds < 2 ^ 64 := by
    have : k.maxUcn ≤ 0x10ffff := by cases k <;> decide
    omega
  have hst := strtoull_digits .hex ds hne hall [] (Or.inl rfl) (by simp only [Base.radix, List.append_nil]; exact skipPfx_16 hq) hmx
  simp only [Base.radix, List.append_nil] at hst
  have htake : (ds ++ rest).take nd = ds := by rw [← hlen]; simp
  have hdrop : (ds ++ rest).drop ds.length = rest := by simp
  have hre : (ds ++ rest).isEmpty = false := by cases ds with | nil => exact absurd rfl hne | cons _ _ => rfl
  simp only [element, List.cons_append, beq_self_eq_true, if_true, hre, Bool.false_eq_true, if_false, hse, hoct, hx, huu, hnd,
    stringToULLbounded, htake, hst, hlen, Nat.lt_irrefl]
  have c1 : (((k == .narrow || k == .utf8) && decide (positional 16 ds > 0x7f)) || (k == .utf16 && decide (positional 16 ds > 0xffff)) ||
      decide (positional 16 ds > 0x10ffff)) = false := by
    cases k <;> simp [Kind.maxUcn] at hmax ⊢ <;> omega
  have c2 : (decide (positional 16 ds ≥ 0xd800) && decide (positional 16 ds ≤ 0xdfff)) = false := by
    simp only [Bool.and_eq_false_iff, decide_eq_false_iff_not]; omega
  rw [← hlen] at *
  simp only [c1, c2, Bool.false_eq_true, if_false, hdrop]

theorem element_eq (k : Kind) (e : CElem) (hwf : e.WF k = true) (rest : Str) (hr : restOk e rest) :
    element k (e.render ++ rest) = .ok (e.value, rest) := by
  obtain ⟨hrne, hside⟩ := hr
  have hre : rest.isEmpty = false := by cases rest with | nil => exact absurd rfl hrne | cons _ _ => rfl
  cases e with
  | plain c =>
    simp only [CElem.WF, Bool.and_eq_true, decide_eq_true_eq, bne_iff_ne, ne_eq] at hwf
    have hb : (c == '\\') = false := by simp [hwf.2]
    have hm : c.toNat % 256 = c.toNat := Nat.mod_eq_of_lt (by omega)
    have hlt : ¬ (c.toNat ≥ 0x80) := by omega
    simp [CElem.render, element, hb, hm, hlt, CElem.value]
  | simple e =>
    simp only [CElem.WF, Option.isSome_iff_exists] at hwf
    obtain ⟨v, hv⟩ := hwf
    simp [CElem.render, element, hre, lookup_simpleEscape e v hv, CElem.value, hv]
  | oct ds =>
    simp only [CElem.WF, Bool.and_eq_true, decide_eq_true_eq] at hwf
    obtain ⟨⟨⟨hl1, hl3⟩, hall⟩, hmax⟩ := hwf
    cases hd : ds with
    | nil => rw [hd] at hl1; simp at hl1
    | cons d ds' =>
      have hall' := hall
      rw [hd] at hall'
      simp only [List.all_cons, Bool.and_eq_true] at hall'
      have hdo := hall'.1
      have hse : simpleEscape d = none := simpleEscape_none_of_alnum (Or.inl (by
        simp only [isOctDigit, Bool.and_eq_true, decide_eq_true_eq] at hdo; omega))
      have hne : ds ≠ [] := by rw [hd]; simp
      -- what strtoull sees: the digits and at most 3 − n further characters
      have htake : (ds ++ rest).take 3 = ds ++ rest.take (3 - ds.length) := by
        rw [List.take_append]
        have : ds.take 3 = ds := List.take_of_length_le hl3
        rw [this]
      have hstop : rest.take (3 - ds.length) = [] ∨ ∃ c r, rest.take (3 - ds.length) = c :: r ∧ digitOf Base.oct.radix c = none := by
        by_cases h3 : ds.length = 3
        · left; simp [h3]
        · right
          cases rest with
          | nil => exact absurd rfl hrne
          | cons c r =>
            have hlt : ds.length < 3 := by omega
            have := hside hlt
            simp only [headOf, List.headD_cons] at this
            obtain ⟨m, hm⟩ : ∃ m, 3 - ds.length = m + 1 := ⟨3 - ds.length - 1, by omega⟩
            exact ⟨c, r.take m, by rw [hm]; rfl, not_octdigit_none this⟩
      have hmx : positional 8 ds < 2 ^ 64 := by
        have : k.maxNumeric ≤ 0xffffffff := by cases k <;> decide
        omega
      have hst := strtoull_digits .oct ds hne hall _ hstop (skipPfx_8 _) hmx
      simp only [Base.radix] at hst
      have hre2 : (ds' ++ rest).isEmpty = false := by
        cases ds' with
        | nil => simpa using hre
        | cons _ _ => rfl
      have hdrop : (ds ++ rest).drop ds.length = rest := by simp
      rw [hd] at htake hst hdrop hl1
      simp only [List.cons_append] at htake hdrop hst
      simp only [CElem.render, element, List.cons_append, beq_self_eq_true, if_true, hre2, Bool.false_eq_true, if_false, hse, hdo,
        stringToULLbounded, htake, hst, CElem.value]
      have : ¬ ((d :: ds').length < 1) := by simp
      simp only [this, if_false, hdrop]
  | hex ds =>
    simp only [CElem.WF, Bool.and_eq_true, decide_eq_true_eq] at hwf
    obtain ⟨⟨hl1, hall⟩, hmax⟩ := hwf
    have hne : ds ≠ [] := by intro h; rw [h] at hl1; simp at hl1
    obtain ⟨hhead, hq⟩ := hside
    have hstop : rest = [] ∨ ∃ c r, rest = c :: r ∧ digitOf Base.hex.radix c = none := by
      cases rest with
      | nil => exact Or.inl rfl
      | cons c r =>
        simp only [headOf, List.headD_cons] at hhead
        exact Or.inr ⟨c, r, rfl, not_xdigit_none hhead⟩
    have hmx : positional 16 ds < 2 ^ 64 := by
      have : k.maxNumeric ≤ 0xffffffff := by cases k <;> decide
      omega
    have hst := strtoull_digits .hex ds hne hall rest hstop (skipPfx_16 hq) hmx
    simp only [Base.radix] at hst
    have hre2 : (ds ++ rest).isEmpty = false := by
      cases ds with
      | nil => exact absurd rfl hne
      | cons _ _ => rfl
    have hdrop : (ds ++ rest).drop ds.length = rest := by simp
    have hse : simpleEscape 'x' = none := by decide
    have hoct : isOctDigit 'x' = false := by decide
    simp only [CElem.render, element, List.cons_append, beq_self_eq_true, if_true, hre2, Bool.false_eq_true, if_false, hse, hoct,
      stringToULLbounded, hst, CElem.value]
    have : ¬ (ds.length < 1) := by omega
    simp only [this, if_false, hdrop]
  | ucn4 ds =>
    simp only [CElem.WF, Bool.and_eq_true, decide_eq_true_eq, beq_iff_eq, Bool.not_eq_true', Bool.and_eq_false_iff,
      decide_eq_false_iff_not] at hwf
    obtain ⟨⟨⟨hl, hall⟩, hmax⟩, hsur⟩ := hwf
    exact ucn_element k 'u' 4 (Or.inl ⟨rfl, rfl⟩) ds rest hl hall hmax (by omega) hrne
  | ucn8 ds =>
    simp only [CElem.WF, Bool.and_eq_true, decide_eq_true_eq, beq_iff_eq, Bool.not_eq_true', Bool.and_eq_false_iff,
      decide_eq_false_iff_not] at hwf
    obtain ⟨⟨⟨hl, hall⟩, hmax⟩, hsur⟩ := hwf
    exact ucn_element k 'U' 8 (Or.inr ⟨rfl, rfl⟩) ds rest hl hall hmax (by omega) hrne

/-! ## the loop -/

/-- what follows the elements `es` inside the literal: their spelling and the closing quote -/
def tailStr (es : List CElem) : Str := renderElems es ++ ['\'']

theorem tailStr_cons (e : CElem) (es : List CElem) : tailStr (e :: es) = e.render ++ tailStr es := by
  simp [tailStr, renderElems, List.append_assoc]

theorem tailStr_ne (es : List CElem) : tailStr es ≠ [] := by simp [tailStr]

theorem render_ne (e : CElem) : e.render ≠ [] := by cases e <;> simp [CElem.render]

/-- first character of an element's spelling: the plain character itself or a backslash -/
theorem render_head (e : CElem) : ∃ c r, e.render = c :: r ∧ ((∃ p, e = .plain p ∧ c = p ∧ r = []) ∨ ((∀ p, e ≠ .plain p) ∧ c = '\\')) := by
  cases e with
  | plain p => exact ⟨p, [], rfl, Or.inl ⟨p, rfl, rfl, rfl⟩⟩
  | simple e => exact ⟨'\\', [e], rfl, Or.inr ⟨(by intro p h; cases h), rfl⟩⟩
  | oct ds => exact ⟨'\\', ds, rfl, Or.inr ⟨(by intro p h; cases h), rfl⟩⟩
  | hex ds => exact ⟨'\\', 'x' :: ds, rfl, Or.inr ⟨(by intro p h; cases h), rfl⟩⟩
  | ucn4 ds => exact ⟨'\\', 'u' :: ds, rfl, Or.inr ⟨(by intro p h; cases h), rfl⟩⟩
  | ucn8 ds => exact ⟨'\\', 'U' :: ds, rfl, Or.inr ⟨(by intro p h; cases h), rfl⟩⟩

theorem headOf_tail_nil : headOf (tailStr []) = '\'' := rfl

theorem headOf_tail_plain (p : Char) (es : List CElem) : headOf (tailStr (.plain p :: es)) = p := by
  simp [tailStr_cons, CElem.render, headOf]

theorem headOf_tail_esc (e : CElem) (es : List CElem) (h : ∀ p, e ≠ .plain p) : headOf (tailStr (e :: es)) = '\\' := by
  obtain ⟨c, r, hr, hc⟩ := render_head e
  rcases hc with ⟨p, hp, _, _⟩ | ⟨_, hc⟩
  · exact absurd hp (h p)
  · simp [tailStr_cons, hr, headOf, hc]

theorem pfxQuirk_ne0 {d : Char} {r : Str} (h : d ≠ '0') : pfxQuirk (d :: r) = false := by
  unfold pfxQuirk
  split
  · rename_i heq; simp only [List.cons.injEq] at heq; exact absurd heq.1 h
  · rfl

theorem pfxQuirk_0 (x hh : Char) (r : Str) :
    pfxQuirk ('0' :: x :: hh :: r) = ((x == 'x' || x == 'X') && (digitOf 16 hh).isSome) := rfl

theorem restOk_of_adj (k : Kind) (e : CElem) (es : List CElem) (hwf : e.WF k = true)
    (hadj : adjOk (e :: es) = true) (hq : hex0x (e :: es) = false) : restOk e (tailStr es) := by
  refine ⟨tailStr_ne es, ?_⟩
  cases e with
  | plain _ => trivial
  | simple _ => trivial
  | ucn4 _ => trivial
  | ucn8 _ => trivial
  | oct ds =>
    intro hlt
    cases es with
    | nil => rw [headOf_tail_nil]; decide
    | cons e' es' =>
      cases e' with
      | plain p =>
        rw [headOf_tail_plain]
        simp only [adjOk, Bool.and_eq_true, Bool.not_eq_true', Bool.and_eq_false_iff, decide_eq_false_iff_not] at hadj
        rcases hadj.1 with h | h
        · exact absurd hlt h
        · exact h
      | simple _ => rw [headOf_tail_esc _ _ (by intro p h; cases h)]; decide
      | oct _ => rw [headOf_tail_esc _ _ (by intro p h; cases h)]; decide
      | hex _ => rw [headOf_tail_esc _ _ (by intro p h; cases h)]; decide
      | ucn4 _ => rw [headOf_tail_esc _ _ (by intro p h; cases h)]; decide
      | ucn8 _ => rw [headOf_tail_esc _ _ (by intro p h; cases h)]; decide
  | hex ds =>
    simp only [CElem.WF, Bool.and_eq_true, decide_eq_true_eq] at hwf
    obtain ⟨⟨hl1, hall⟩, _⟩ := hwf
    have hhead : isXDigit (headOf (tailStr es)) = false := by
      cases es with
      | nil => rw [headOf_tail_nil]; decide
      | cons e' es' =>
        cases e' with
        | plain p =>
          rw [headOf_tail_plain]
          simp only [adjOk, Bool.and_eq_true, Bool.not_eq_true'] at hadj
          exact hadj.1
        | simple _ => rw [headOf_tail_esc _ _ (by intro p h; cases h)]; decide
        | oct _ => rw [headOf_tail_esc _ _ (by intro p h; cases h)]; decide
        | hex _ => rw [headOf_tail_esc _ _ (by intro p h; cases h)]; decide
        | ucn4 _ => rw [headOf_tail_esc _ _ (by intro p h; cases h)]; decide
        | ucn8 _ => rw [headOf_tail_esc _ _ (by intro p h; cases h)]; decide
    refine ⟨hhead, ?_⟩
    match ds, hl1, hall with
    | [], hl, _ => simp at hl
    | d1 :: d2 :: r, _, ha =>
      simp only [List.all_cons, Bool.and_eq_true] at ha
      exact pfxQuirk_two ha.2.1
    | [d], _, _ =>
      by_cases hd : d = '0'
      · subst hd
        -- the next two characters of the spelling
        cases es with
        | nil => rfl
        | cons e1 es1 =>
          obtain ⟨c1, r1, hr1, hc1⟩ := render_head e1
          rcases hc1 with ⟨p1, hp1, hcp, hrp⟩ | ⟨_, hc1⟩
          · subst hp1 hcp hrp
            cases es1 with
            | nil =>
              show pfxQuirk ('0' :: c1 :: '\'' :: []) = false
              rw [pfxQuirk_0]
              have : digitOf 16 '\'' = none := by decide
              simp [this]
            | cons e2 es2 =>
              obtain ⟨c2, r2, hr2, hc2⟩ := render_head e2
              have h1 : tailStr (.plain c1 :: e2 :: es2) = c1 :: c2 :: (r2 ++ tailStr es2) := by
                rw [tailStr_cons, tailStr_cons, hr2]; rfl
              rw [h1]
              show pfxQuirk ('0' :: c1 :: c2 :: (r2 ++ tailStr es2)) = false
              rw [pfxQuirk_0]
              rcases hc2 with ⟨p2, hp2, hcp2, _⟩ | ⟨_, hc2⟩
              · subst hp2 hcp2
                simp only [hex0x, beq_self_eq_true, Bool.true_and, Bool.or_eq_false_iff, Bool.and_eq_false_iff] at hq
                rcases hq.1 with hx | hx
                · first | (simp only [Bool.or_eq_false_iff] at hx; simp [hx.1, hx.2]) | simp [hx.1, hx.2] | simp [hx]
                · simp [not_xdigit_none hx]
              · subst hc2
                have : digitOf 16 '\\' = none := by decide
                simp [this]
          · subst hc1
            have h1 : tailStr (e1 :: es1) = '\\' :: (r1 ++ tailStr es1) := by rw [tailStr_cons, hr1]; rfl
            rw [h1]
            cases hrr : r1 ++ tailStr es1 with
            | nil => rfl
            | cons hh rr =>
              show pfxQuirk ('0' :: '\\' :: hh :: rr) = false
              rw [pfxQuirk_0]; simp
      · exact pfxQuirk_ne0 hd

theorem or_low_byte (x v : Nat) (hv : v < 256) : (x * 256 % 2 ^ 64) ||| v = (x * 256 + v) % 2 ^ 64 := by
  have e1 : x * 256 % 2 ^ 64 = 2 ^ 8 * (x % 2 ^ 56) := by omega
  have hv' : v < 2 ^ 8 := by omega
  rw [e1, ← Nat.two_pow_add_eq_or_of_lt hv']
  omega

def mcFold (es : List CElem) (acc : Nat) : Nat := es.foldl (fun acc e => acc * 256 + e.value) acc

theorem mcFold_mod (es : List CElem) : ∀ acc, mcFold es (acc % 2 ^ 64) % 2 ^ 64 = mcFold es acc % 2 ^ 64 := by
  induction es with
  | nil => intro acc; simp only [mcFold, List.foldl_nil, Nat.mod_mod]
  | cons e es ih =>
    intro acc
    simp only [mcFold, List.foldl_cons] at ih ⊢
    rw [← ih (acc % 2 ^ 64 * 256 + e.value), ← ih (acc * 256 + e.value)]
    have : (acc % 2 ^ 64 * 256 + e.value) % 2 ^ 64 = (acc * 256 + e.value) % 2 ^ 64 := by omega
    rw [this]

theorem adjOk_tail {e : CElem} {es : List CElem} (h : adjOk (e :: es) = true) : adjOk es = true := by
  cases e <;> cases es <;> try (first | rfl | simpa [adjOk] using h)
  all_goals (rename_i e' es'; cases e' <;> simp_all [adjOk])

theorem hex0x_tail {e : CElem} {es : List CElem} (h : hex0x (e :: es) = false) : hex0x es = false := by
  cases e <;> cases es <;> try (first | rfl | simpa [hex0x] using h)
  all_goals (rename_i e' es'; cases e' <;> cases es' <;> try (first | simpa [hex0x] using h))
  all_goals (rename_i e'' es''; cases e'' <;> simp_all [hex0x])

theorem loop_narrow (es : List CElem) (hwf : es.all (CElem.WF .narrow) = true) (hadj : adjOk es = true) (hq : hex0x es = false) :
    ∀ fuel mv nb, (tailStr es).length ≤ fuel → mv < 2 ^ 64 →
      loop .narrow fuel (tailStr es) mv nb = .ok (mcFold es mv % 2 ^ 64, nb + es.length, ['\'']) := by
  induction es with
  | nil =>
    intro fuel mv nb hf hmv
    cases fuel with
    | zero => simp [tailStr, renderElems] at hf
    | succ f => simp [loop, tailStr, renderElems, mcFold, Nat.mod_eq_of_lt hmv]
  | cons e es ih =>
    intro fuel mv nb hf hmv
    simp only [List.all_cons, Bool.and_eq_true] at hwf
    cases fuel with
    | zero => have := tailStr_ne (e :: es); cases hh : tailStr (e :: es) <;> simp_all
    | succ f =>
      obtain ⟨c, r, hr, hc⟩ := render_head e
      have hlen2 : ¬ ((tailStr (e :: es)).length < 2) := by
        have := tailStr_ne es
        rw [tailStr_cons, hr]
        cases htl : tailStr es with
        | nil => exact absurd htl this
        | cons _ _ => simp; omega
      have hcq : (c == '\'' || c == '\n') = false := by
        rcases hc with ⟨p, hp, hcp, _⟩ | ⟨_, hc⟩
        · subst hp hcp
          have := hwf.1
          simp only [CElem.WF, Bool.and_eq_true, decide_eq_true_eq, bne_iff_ne, ne_eq] at this
          have h1 : (c == '\'') = false := by simp [this.1.2]
          have h2 : (c == '\n') = false := by
            apply Bool.eq_false_iff.2; intro h; simp only [beq_iff_eq] at h; subst h; revert this; decide
          simp [h1, h2]
        · subst hc; decide
      have hel := element_eq .narrow e hwf.1 (tailStr es) (restOk_of_adj .narrow e es hwf.1 hadj hq)
      have hv := value_le_maxNumeric hwf.1
      simp only [Kind.maxNumeric] at hv
      have hchk : (((Kind.narrow == Kind.narrow || Kind.narrow == Kind.utf8) && decide (e.value > 255)) ||
          (Kind.narrow == Kind.utf16 && decide (e.value / 2 ^ 16 ≠ 0)) || decide (e.value / 2 ^ 32 ≠ 0)) = false := by
        have h1 : ¬ (e.value > 255) := by omega
        have h2 : e.value / 2 ^ 32 = 0 := by omega
        simp [h1, h2]
      have hstep : loop .narrow (f + 1) (tailStr (e :: es)) mv nb =
          loop .narrow f (tailStr es) ((mv * 256 % 2 ^ 64) ||| e.value) (nb + 1) := by
        simp only [loop]
        rw [if_neg hlen2]
        rw [tailStr_cons, hr] at *
        simp only [List.cons_append, hcq, Bool.false_eq_true, if_false]
        have hnn : (decide (nb ≥ 1) && Kind.narrow != Kind.narrow) = false := by simp
        simp only [hnn, Bool.false_eq_true, if_false]
        simp only [List.cons_append] at hel
        rw [hel]
        simp only [hchk, Bool.false_eq_true, if_false]
      rw [hstep, or_low_byte _ _ (by omega)]
      have hf' : (tailStr es).length ≤ f := by
        rw [tailStr_cons] at hf
        have := render_ne e
        cases hrr : e.render with
        | nil => exact absurd hrr this
        | cons _ _ => rw [hrr] at hf; simp at hf; omega
      rw [ih hwf.2 (adjOk_tail hadj) (hex0x_tail hq) f _ (nb + 1) hf' (Nat.mod_lt _ (by decide))]
      have e1 : mcFold (e :: es) mv = mcFold es (mv * 256 + e.value) := rfl
      rw [e1, mcFold_mod]
      have e2 : nb + 1 + es.length = nb + (e :: es).length := by simp only [List.length_cons]; omega
      rw [e2]

theorem loop_single (k : Kind) (hk : k ≠ .narrow) (e : CElem) (hwf : e.WF k = true) (hr : restOk e (tailStr [])) :
    ∀ fuel, (tailStr [e]).length ≤ fuel → loop k fuel (tailStr [e]) 0 0 = .ok (e.value, 1, ['\'']) := by
  intro fuel hf
  obtain ⟨c, r, hrr, hc⟩ := render_head e
  have htl : tailStr [e] = c :: (r ++ ['\'']) := by rw [tailStr_cons, hrr]; rfl
  cases fuel with
  | zero => rw [htl] at hf; simp at hf
  | succ f =>
    have hlen2 : ¬ ((tailStr [e]).length < 2) := by rw [htl]; simp
    have hcq : (c == '\'' || c == '\n') = false := by
      rcases hc with ⟨p, hp, hcp, _⟩ | ⟨_, hc⟩
      · subst hp hcp
        simp only [CElem.WF, Bool.and_eq_true, decide_eq_true_eq, bne_iff_ne, ne_eq] at hwf
        have h1 : (c == '\'') = false := by simp [hwf.1.2]
        have h2 : (c == '\n') = false := by
          apply Bool.eq_false_iff.2; intro h; simp only [beq_iff_eq] at h; subst h; revert hwf; decide
        simp [h1, h2]
      · subst hc; decide
    have hel := element_eq k e hwf (tailStr []) hr
    have hv := value_le_maxNumeric hwf
    have hchk : (((k == Kind.narrow || k == Kind.utf8) && decide (e.value > 255)) ||
        (k == Kind.utf16 && decide (e.value / 2 ^ 16 ≠ 0)) || decide (e.value / 2 ^ 32 ≠ 0)) = false := by
      cases k with
      | narrow => exact absurd rfl hk
      | utf8 =>
        simp only [Kind.maxNumeric] at hv
        have h1 : ¬ (e.value > 255) := by omega
        have h2 : e.value / 2 ^ 32 = 0 := by omega
        simp [h1, h2]
      | utf16 =>
        simp only [Kind.maxNumeric] at hv
        have h1 : e.value / 2 ^ 16 = 0 := by omega
        have h2 : e.value / 2 ^ 32 = 0 := by omega
        simp [h1, h2]
      | wide =>
        simp only [Kind.maxNumeric] at hv
        have h2 : e.value / 2 ^ 32 = 0 := by omega
        simp [h2]
    have hstep : loop k (f + 1) (tailStr [e]) 0 0 = loop k f (tailStr []) ((0 * 256 % 2 ^ 64) ||| e.value) (0 + 1) := by
      simp only [loop]
      rw [if_neg hlen2]
      have e0 : tailStr [e] = e.render ++ tailStr [] := tailStr_cons e []
      rw [e0, hrr] at *
      simp only [List.cons_append, hcq, Bool.false_eq_true, if_false]
      have hnn : (decide (0 ≥ 1) && k != Kind.narrow) = false := by simp
      simp only [hnn, Bool.false_eq_true, if_false]
      simp only [List.cons_append] at hel
      rw [hel]
      simp only [hchk, Bool.false_eq_true, if_false]
    rw [hstep]
    cases f with
    | zero => rw [htl] at hf; simp at hf
    | succ f' =>
      have : tailStr [] = ['\''] := rfl
      simp [loop, this]

theorem bmod_natmod (v m : Nat) (hm : m ∣ 2 ^ 64) (hpos : 0 < m) : Int.bmod ((v % 2 ^ 64 : Nat) : Int) m = Int.bmod (v : Int) m := by
  obtain ⟨q, hq⟩ := hm
  have h1 : ((v % 2 ^ 64 : Nat) : Int) % (m : Int) = (v : Int) % (m : Int) := by
    have : v % 2 ^ 64 % m = v % m := by rw [hq]; exact Nat.mod_mul_right_mod v m q
    exact_mod_cast this
  rw [Int.bmod_def, Int.bmod_def, h1]

/-- `characterLiteralToLL` on every well-formed rendered literal without the `\x0x…` spelling -/
theorem charlit_value_of (c : CharLit) (hwf : c.WF = true) (hq : hex0x c.elems = false) :
    characterLiteralToLL c.render = .ok c.value := by
  simp only [CharLit.WF, Bool.and_eq_true, Bool.or_eq_true, beq_iff_eq, Bool.not_eq_true', List.isEmpty_iff] at hwf
  obtain ⟨⟨⟨hne, hk1⟩, hall⟩, hadj⟩ := hwf
  have hne' : c.elems ≠ [] := by intro h; simp [h] at hne
  have hrender : c.render = c.kind.pfx ++ '\'' :: tailStr c.elems := by
    simp [CharLit.render, tailStr, List.append_assoc]
  rw [hrender]
  cases hk : c.kind with
  | narrow =>
    rw [hk] at hall
    have hl := loop_narrow c.elems hall hadj hq ((tailStr c.elems).length + 1) 0 0 (by omega) (by decide)
    simp only [Kind.pfx, List.nil_append, characterLiteralToLL, hl, Nat.zero_add]
    have hlen : c.elems.length ≠ 0 := by
      cases he : c.elems with
      | nil => exact absurd he hne'
      | cons _ _ => simp
    simp only [bne_self_eq_false, Bool.false_eq_true, if_false, hlen, beq_self_eq_true, Bool.true_and]
    simp only [CharLit.value, hk, if_true]
    by_cases h1 : c.elems.length = 1
    · simp only [h1, decide_true, if_true]
      exact congrArg _ (bmod_natmod _ 256 ⟨2 ^ 56, by decide⟩ (by decide))
    · have : decide (c.elems.length = 1) = false := by simp [h1]
      simp only [Bool.false_eq_true, if_false, h1, decide_false]
      exact congrArg Except.ok (bmod_natmod (mcFold c.elems 0) (2 ^ 32) ⟨2 ^ 32, by decide⟩ (by decide))
  | utf8 | utf16 | wide =>
    all_goals
      have hlen1 : c.elems.length = 1 := by rcases hk1 with h | h; (rw [hk] at h; cases h); exact h
      match he : c.elems, hlen1 with
      | [e], _ =>
        rw [hk, he] at hall
        simp only [List.all_cons, List.all_nil, Bool.and_true] at hall
        rw [he] at hadj hq
        have hr := restOk_of_adj c.kind e [] (by rw [hk]; exact hall) hadj hq
        have hl := loop_single _ (by simp) e hall hr ((tailStr [e]).length + 1) (by omega)
        simp only [Kind.pfx, List.cons_append, List.nil_append, characterLiteralToLL, hl]
        simp [CharLit.value, hk, he]

end Cppcheck.CharLit

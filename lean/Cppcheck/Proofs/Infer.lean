import Cppcheck.Model.Infer
import Cppcheck.Proofs.Calc
/-
C01 — soundness of `infer()` (lib/infer.cpp): interval invariant and the three branches.
-/
namespace Cppcheck.Infer
open Cppcheck.Calc

/-- a value that is a claim about every execution: Known or Impossible -/
def Value.hard (v : Value) : Bool := v.kind == .known || v.kind == .impossible

/-- what a claiming value says about the concrete integer `a` (Possible / Inconclusive values claim nothing) -/
def Value.holds (v : Value) (a : Int) : Prop :=
  match v.kind, v.bound with
  | .known, _ => a = v.intvalue
  | .impossible, .point => a ≠ v.intvalue
  | .impossible, .upper => v.intvalue < a
  | .impossible, .lower => a < v.intvalue
  | _, _ => True

instance (v : Value) (a : Int) : Decidable (v.holds a) := by
  unfold Value.holds; split <;> exact inferInstance

/-- magnitude bound under which no bound computation of `infer` leaves `long long` -/
def Bnd : Int := 2 ^ 62 - 1
def Value.small (v : Value) : Prop := -Bnd < v.intvalue ∧ v.intvalue < Bnd
instance (v : Value) : Decidable v.small := by unfold Value.small; exact inferInstance
theorem Bnd_eq : Bnd = 4611686018427387903 := by decide

/-- the mathematical meaning of the operators `infer` is called with -/
def opSem (op : Op) (a b : Int) : Int :=
  match op with
  | .sub => a - b
  | .lt => b2i (decide (a < b))
  | .le => b2i (decide (a ≤ b))
  | .gt => b2i (decide (a > b))
  | .ge => b2i (decide (a ≥ b))
  | .eq => b2i (decide (a = b))
  | .ne => b2i (decide (a ≠ b))
  | _ => 0

theorem getCompareValue_mem (cmp : Int → Int → Bool) (vs : List Value) (r : Option Value) (v : Value)
    (h : getCompareValue cmp vs r = some v) : v ∈ vs ∨ r = some v := by
  induction vs generalizing r with
  | nil => simp [getCompareValue] at h; exact Or.inr h
  | cons x xs ih =>
    cases r with
    | none =>
      simp only [getCompareValue] at h
      rcases ih _ h with h1 | h1
      · exact Or.inl (List.mem_cons_of_mem _ h1)
      · simp at h1; subst h1; exact Or.inl List.mem_cons_self
    | some r0 =>
      simp only [getCompareValue] at h
      rcases ih _ h with h1 | h1
      · exact Or.inl (List.mem_cons_of_mem _ h1)
      · simp at h1
        split at h1
        · exact Or.inr (by rw [h1])
        · subst h1; exact Or.inl List.mem_cons_self

theorem getCompareValue_mem' (cmp : Int → Int → Bool) (vs : List Value) (v : Value)
    (h : getCompareValue cmp vs none = some v) : v ∈ vs := by
  rcases getCompareValue_mem cmp vs none v h with h1 | h1
  · exact h1
  · simp at h1

theorem hard_of_kind (v : Value) (h : valueKindOf [v] = .known) : v.hard = true := by
  unfold valueKindOf at h
  simp [Value.isInconclusive, Value.isPossible] at h
  unfold Value.hard
  cases hk : v.kind <;> simp_all

theorem all_hard_of_known (refs : List Value) (h : valueKindOf refs = .known) : ∀ r ∈ refs, r.hard = true := by
  intro r hr
  unfold valueKindOf at h
  split at h
  · simp at h
  · split at h
    · simp at h
    · rename_i h1 h2
      simp [Value.isInconclusive, Value.isPossible] at h1 h2
      have a := h1 r hr
      have b := h2 r hr
      unfold Value.hard
      cases hk : r.kind <;> simp_all

/-- invariant of an interval built from the values `vs` that describe the integer `a` -/
structure Interval.Ok (i : Interval) (vs : List Value) (a : Int) : Prop where
  minS : ∀ m, i.minvalue = some m → -Bnd ≤ m ∧ m ≤ Bnd
  maxS : ∀ m, i.maxvalue = some m → -Bnd ≤ m ∧ m ≤ Bnd
  minH : ∀ m, i.minvalue = some m → (∀ r ∈ i.minRef, r.hard = true) → m ≤ a
  maxH : ∀ m, i.maxvalue = some m → (∀ r ∈ i.maxRef, r.hard = true) → a ≤ m
  minR : ∀ r ∈ i.minRef, r ∈ vs
  maxR : ∀ r ∈ i.maxRef, r ∈ vs

theorem ok_empty (vs : List Value) (a : Int) : Interval.Ok {} vs a :=
  ⟨by simp, by simp, by simp, by simp, by simp, by simp⟩

theorem ok_setMin {i : Interval} {vs : List Value} {a : Int} (h : i.Ok vs a) (x : Int) (ref : Value) (hm : ref ∈ vs)
    (hs : -Bnd ≤ x ∧ x ≤ Bnd) (hh : ref.hard = true → x ≤ a) : (i.setMinValue x ref).Ok vs a := by
  refine ⟨?_, h.maxS, ?_, h.maxH, ?_, h.maxR⟩
  · intro m hm'; simp [Interval.setMinValue] at hm'; subst hm'; exact hs
  · intro m hm' hr; simp [Interval.setMinValue] at hm' hr; subst hm'; exact hh hr
  · intro r hr; simp [Interval.setMinValue] at hr; subst hr; exact hm

theorem ok_setMax {i : Interval} {vs : List Value} {a : Int} (h : i.Ok vs a) (x : Int) (ref : Value) (hm : ref ∈ vs)
    (hs : -Bnd ≤ x ∧ x ≤ Bnd) (hh : ref.hard = true → a ≤ x) : (i.setMaxValue x ref).Ok vs a := by
  refine ⟨h.minS, ?_, h.minH, ?_, h.minR, ?_⟩
  · intro m hm'; simp [Interval.setMaxValue] at hm'; subst hm'; exact hs
  · intro m hm' hr; simp [Interval.setMaxValue] at hm' hr; subst hm'; exact hh hr
  · intro r hr; simp [Interval.setMaxValue] at hr; subst hr; exact hm

theorem wrap_small (x : Int) (h : -(2 ^ 63) ≤ x ∧ x ≤ 2 ^ 63 - 1) : wrap64 x = x :=
  wrap64_of_in x (by unfold inI64 minI64 maxI64; omega)

section
variable {vs : List Value} {a : Int}
  (hs : ∀ v ∈ vs, v.small) (ha : ∀ v ∈ vs, v.hard = true → v.holds a)
include hs ha

theorem minStep_ok {i : Interval} (h : i.Ok vs a) (mn : Value) (hm : mn ∈ vs) : (minStep i mn).Ok vs a := by
  have hsm := hs mn hm
  have hB := Bnd_eq
  unfold Value.small at hsm
  have h1 : (mn.isImpossible && mn.bound == .upper) = true → (i.setMinValue (wrap64 (mn.intvalue + 1)) mn).Ok vs a := by
    intro hc
    simp [Value.isImpossible] at hc
    rw [wrap_small _ (by omega)]
    refine ok_setMin h _ _ hm (by omega) ?_
    intro hh
    have := ha mn hm hh
    unfold Value.holds at this
    rw [hc.1, hc.2] at this
    simp at this; omega
  have h2 : ∀ j : Interval, j.Ok vs a → (mn.isPossible && mn.bound == .lower) = true → (j.setMinValue mn.intvalue mn).Ok vs a := by
    intro j hj hc
    simp [Value.isPossible] at hc
    refine ok_setMin hj _ _ hm (by omega) ?_
    intro hh
    unfold Value.hard at hh
    rw [hc.1] at hh
    simp at hh
  unfold minStep
  by_cases c1 : (mn.isImpossible && mn.bound == .upper) = true <;>
    by_cases c2 : (mn.isPossible && mn.bound == .lower) = true <;> simp only [c1, c2, ↓reduceIte]
  · exact h2 _ (h1 c1) c2
  · exact h1 c1
  · exact h2 _ h c2
  · exact h

theorem maxStep_ok {i : Interval} (h : i.Ok vs a) (mx : Value) (hm : mx ∈ vs) : (maxStep i mx).Ok vs a := by
  have hsm := hs mx hm
  have hB := Bnd_eq
  unfold Value.small at hsm
  have h1 : (mx.isImpossible && mx.bound == .lower) = true → (i.setMaxValue (wrap64 (mx.intvalue - 1)) mx).Ok vs a := by
    intro hc
    simp [Value.isImpossible] at hc
    rw [wrap_small _ (by omega)]
    refine ok_setMax h _ _ hm (by omega) ?_
    intro hh
    have := ha mx hm hh
    unfold Value.holds at this
    rw [hc.1, hc.2] at this
    simp at this; omega
  have h2 : ∀ j : Interval, j.Ok vs a → (mx.isPossible && mx.bound == .upper) = true → (j.setMaxValue mx.intvalue mx).Ok vs a := by
    intro j hj hc
    simp [Value.isPossible] at hc
    refine ok_setMax hj _ _ hm (by omega) ?_
    intro hh
    unfold Value.hard at hh
    rw [hc.1] at hh
    simp at hh
  unfold maxStep
  by_cases c1 : (mx.isImpossible && mx.bound == .lower) = true <;>
    by_cases c2 : (mx.isPossible && mx.bound == .upper) = true <;> simp only [c1, c2, ↓reduceIte]
  · exact h2 _ (h1 c1) c2
  · exact h1 c1
  · exact h2 _ h c2
  · exact h

theorem fromInt_ok (mn : Value) (hm : mn ∈ vs) (hp : isPointLike mn vs.length = true) :
    (Interval.fromInt mn.intvalue mn).Ok vs a := by
  have hsm := hs mn hm
  have hB := Bnd_eq
  unfold Value.small at hsm
  have key : mn.hard = true → mn.intvalue = a := by
    intro hh
    have := ha mn hm hh
    unfold isPointLike at hp
    simp [Value.isImpossible, Value.isKnown] at hp
    unfold Value.hard at hh
    unfold Value.holds at this
    cases hk : mn.kind <;> simp_all
  unfold Interval.fromInt
  refine ok_setMax (ok_setMin (ok_empty vs a) _ _ hm (by omega) ?_) _ _ hm (by omega) ?_
  · intro hh; rw [key hh]; exact Int.le_refl _
  · intro hh; rw [key hh]; exact Int.le_refl _

theorem fromValues_ok : (fromValues vs).Ok vs a := by
  unfold fromValues
  split
  · rename_i mn hmn
    have hm := getCompareValue_mem' _ _ _ hmn
    split
    · rename_i hp; exact fromInt_ok hs ha mn hm hp
    · split
      · rename_i mx hmx
        exact maxStep_ok hs ha (minStep_ok hs ha (ok_empty _ _) mn hm) mx (getCompareValue_mem' _ _ _ hmx)
      · exact minStep_ok hs ha (ok_empty _ _) mn hm
  · split
    · rename_i mx hmx
      exact maxStep_ok hs ha (ok_empty _ _) mx (getCompareValue_mem' _ _ _ hmx)
    · exact ok_empty _ _

end

/-- what `lhs - rhs` knows about `a - b` -/
structure DiffOk (d : Interval) (L R : List Value) (a b : Int) : Prop where
  minS : ∀ m, d.minvalue = some m → -(2 * Bnd) ≤ m ∧ m ≤ 2 * Bnd
  maxS : ∀ m, d.maxvalue = some m → -(2 * Bnd) ≤ m ∧ m ≤ 2 * Bnd
  minH : ∀ m, d.minvalue = some m → (∀ r ∈ d.minRef, r.hard = true) → m ≤ a - b
  maxH : ∀ m, d.maxvalue = some m → (∀ r ∈ d.maxRef, r.hard = true) → a - b ≤ m
  minR : ∀ r ∈ d.minRef, r ∈ L ∨ r ∈ R
  maxR : ∀ r ∈ d.maxRef, r ∈ L ∨ r ∈ R

theorem applyMinus_some (x y : Option Int) (m : Int) (h : applyMinus x y = some m) :
    ∃ p q, x = some p ∧ y = some q ∧ m = wrap64 (p - q) := by
  unfold applyMinus at h
  split at h
  · rename_i p q; simp at h; exact ⟨p, q, rfl, rfl, h.symm⟩
  · simp at h

theorem minus_ok {lhs rhs : Interval} {L R : List Value} {a b : Int} (hl : lhs.Ok L a) (hr : rhs.Ok R b) :
    DiffOk (lhs.minus rhs) L R a b := by
  have hB := Bnd_eq
  refine ⟨?_, ?_, ?_, ?_, ?_, ?_⟩
  · intro m hm
    simp only [Interval.minus] at hm
    obtain ⟨p, q, hp, hq, e⟩ := applyMinus_some _ _ _ hm
    have := hl.minS p hp; have := hr.maxS q hq
    rw [wrap_small _ (by omega)] at e; omega
  · intro m hm
    simp only [Interval.minus] at hm
    obtain ⟨p, q, hp, hq, e⟩ := applyMinus_some _ _ _ hm
    have := hl.maxS p hp; have := hr.minS q hq
    rw [wrap_small _ (by omega)] at e; omega
  · intro m hm hh
    simp only [Interval.minus] at hm hh
    obtain ⟨p, q, hp, hq, e⟩ := applyMinus_some _ _ _ hm
    rw [hm] at hh; simp at hh
    have s1 := hl.minS p hp; have s2 := hr.maxS q hq
    rw [wrap_small _ (by omega)] at e
    have h1 := hl.minH p hp (fun r hr' => hh r (Or.inl hr'))
    have h2 := hr.maxH q hq (fun r hr' => hh r (Or.inr hr'))
    omega
  · intro m hm hh
    simp only [Interval.minus] at hm hh
    obtain ⟨p, q, hp, hq, e⟩ := applyMinus_some _ _ _ hm
    rw [hm] at hh; simp at hh
    have s1 := hl.maxS p hp; have s2 := hr.minS q hq
    rw [wrap_small _ (by omega)] at e
    have h1 := hl.maxH p hp (fun r hr' => hh r (Or.inl hr'))
    have h2 := hr.minH q hq (fun r hr' => hh r (Or.inr hr'))
    omega
  · intro r hr'
    simp only [Interval.minus] at hr'
    split at hr'
    · simp at hr'
      rcases hr' with h | h
      · exact Or.inl (hl.minR r h)
      · exact Or.inr (hr.maxR r h)
    · simp at hr'
  · intro r hr'
    simp only [Interval.minus] at hr'
    split at hr'
    · simp at hr'
      rcases hr' with h | h
      · exact Or.inl (hl.maxR r h)
      · exact Or.inr (hr.minR r h)
    · simp at hr'

/-- a scalar interval whose references are all hard pins the value -/
theorem scalar_eq {i : Interval} {vs : List Value} {a : Int} (h : i.Ok vs a) (hsc : i.isScalar = true)
    (hh : ∀ r ∈ i.getScalarRef, r.hard = true) : a = i.getScalar := by
  unfold Interval.isScalar at hsc
  split at hsc
  · rename_i p q hp hq
    simp at hsc; subst hsc
    have hmin : ∀ r ∈ i.minRef, r.hard = true := by
      intro r hr; apply hh; unfold Interval.getScalarRef; split
      · exact List.mem_append_left _ hr
      · exact hr
    have hmax : ∀ r ∈ i.maxRef, r.hard = true := by
      intro r hr; apply hh; unfold Interval.getScalarRef; split
      · exact List.mem_append_right _ hr
      · rename_i he; simp at he; rw [he]; exact hr
    have h1 := h.minH p hp hmin
    have h2 := h.maxH p hq hmax
    unfold Interval.getScalar; rw [hp]; simp; omega
  · simp at hsc

theorem scalarRef_sub {i : Interval} {vs : List Value} {a : Int} (h : i.Ok vs a) : ∀ r ∈ i.getScalarRef, r ∈ vs := by
  intro r hr
  unfold Interval.getScalarRef at hr
  split at hr
  · rcases List.mem_append.1 hr with h1 | h1
    · exact h.minR r h1
    · exact h.maxR r h1
  · exact h.minR r hr

theorem scalar_small {i : Interval} {vs : List Value} {a : Int} (h : i.Ok vs a) (hsc : i.isScalar = true) :
    -Bnd ≤ i.getScalar ∧ i.getScalar ≤ Bnd := by
  unfold Interval.isScalar at hsc
  split at hsc
  · rename_i p q hp hq
    unfold Interval.getScalar; rw [hp]; simp; exact h.minS p hp
  · simp at hsc

/-! ### comparison branch -/

def signOk (s d : Int) : Prop := (s = 1 ∧ d > 0) ∨ (s = 0 ∧ d = 0) ∨ (s = -1 ∧ d < 0)

/-- `s op 0` for the comparison operators -/
def cmpSign (op : Op) (s : Int) : Bool :=
  match op with
  | .lt => decide (s < 0) | .le => decide (s ≤ 0) | .gt => decide (s > 0) | .ge => decide (s ≥ 0)
  | .eq => decide (s = 0) | .ne => decide (s ≠ 0) | _ => false

theorem calc_cmpSign (op : Op) (hop : op.isComparison = true) (s : Int) : calculateNoErr op s 0 = b2i (cmpSign op s) := by
  cases op <;> simp [Op.isComparison] at hop <;> simp [calculateNoErr, calculate, cmpSign] <;> by_cases h0 : s = 0 <;> simp [h0, b2i]

theorem cmpSign_sem (op : Op) (hop : op.isComparison = true) (s a b : Int) (h : signOk s (a - b)) :
    b2i (cmpSign op s) = opSem op a b := by
  unfold signOk at h
  cases op <;> simp [Op.isComparison] at hop <;> simp only [cmpSign, opSem] <;> congr 1 <;> simp <;> omega

theorem compare3_sound {lhs rhs : Interval} {L R : List Value} {a b : Int} (hl : lhs.Ok L a) (hr : rhs.Ok R b)
    (hh : ∀ r ∈ (Interval.compare3 lhs rhs).2, r.hard = true) (hne : (Interval.compare3 lhs rhs).1 ≠ []) :
    ∃ s ∈ (Interval.compare3 lhs rhs).1, signOk s (a - b) := by
  have hd := minus_ok hl hr
  unfold Interval.compare3 at hh hne ⊢
  simp only [] at hh hne ⊢
  split at hh
  · rename_i hg
    rw [if_pos hg]
    unfold Interval.isGreaterThan at hg
    split at hg
    · rename_i m hm
      simp at hg
      have := hd.minH m hm hh
      exact ⟨1, by simp, Or.inl ⟨rfl, by omega⟩⟩
    · simp at hg
  · rename_i hg
    rw [if_neg hg] at hne ⊢
    split at hh
    · rename_i hlt
      rw [if_pos hlt]
      unfold Interval.isLessThan at hlt
      split at hlt
      · rename_i m hm
        simp at hlt
        have := hd.maxH m hm hh
        exact ⟨-1, by simp, Or.inr (Or.inr ⟨rfl, by omega⟩)⟩
      · simp at hlt
    · rename_i hlt
      rw [if_neg hlt] at hne ⊢
      split at hh
      · rename_i eq refs heq
        try simp only [] at hh hne ⊢
        unfold Interval.equal at heq
        split at heq
        · simp at heq
        · split at heq
          · simp at heq
          · rename_i h1 h2
            simp at h1 h2 heq
            obtain ⟨he, hrf⟩ := heq
            have hhall : ∀ r ∈ lhs.getScalarRef ++ rhs.getScalarRef, r.hard = true := by
              intro r hr'; rw [hrf] at hr'
              split at hh <;> exact hh r hr'
            have ea := scalar_eq hl h1 (fun r hr' => hhall r (List.mem_append_left _ hr'))
            have eb := scalar_eq hr h2 (fun r hr' => hhall r (List.mem_append_right _ hr'))
            have hsa : lhs.minvalue = some lhs.getScalar := by
              unfold Interval.isScalar at h1; unfold Interval.getScalar
              split at h1 <;> simp_all
            have hsb : rhs.minvalue = some rhs.getScalar := by
              unfold Interval.isScalar at h2; unfold Interval.getScalar
              split at h2 <;> simp_all
            rw [hsa, hsb] at he
            cases eq with
            | true =>
              simp at he ⊢
              exact Or.inr (Or.inl ⟨rfl, by omega⟩)
            | false =>
              simp at he ⊢
              by_cases hlt' : a < b
              · exact Or.inr (Or.inr (Or.inr ⟨rfl, by omega⟩))
              · exact Or.inl (Or.inl ⟨rfl, by omega⟩)
      · rename_i heq
        try simp only [] at hh hne ⊢
        split at hh
        · rename_i hg1
          rw [if_pos hg1]
          unfold Interval.isGreaterThan at hg1
          split at hg1
          · rename_i m hm
            simp at hg1
            have := hd.minH m hm hh
            by_cases h0 : a - b = 0
            · exact ⟨0, by simp, Or.inr (Or.inl ⟨rfl, h0⟩)⟩
            · exact ⟨1, by simp, Or.inl ⟨rfl, by omega⟩⟩
          · simp at hg1
        · rename_i hg1
          rw [if_neg hg1] at hne ⊢
          split at hh
          · rename_i hl1
            rw [if_pos hl1]
            unfold Interval.isLessThan at hl1
            split at hl1
            · rename_i m hm
              simp at hl1
              have := hd.maxH m hm hh
              by_cases h0 : a - b = 0
              · exact ⟨0, by simp, Or.inr (Or.inl ⟨rfl, h0⟩)⟩
              · exact ⟨-1, by simp, Or.inr (Or.inr ⟨rfl, by omega⟩)⟩
            · simp at hl1
          · rename_i hl1
            simp [heq, hl1] at hne

/-! ### the three branches of `infer` -/

theorem diff_scalar_eq {d : Interval} {L R : List Value} {a b : Int} (h : DiffOk d L R a b) (hsc : d.isScalar = true)
    (hh : ∀ r ∈ d.getScalarRef, r.hard = true) : a - b = d.getScalar := by
  unfold Interval.isScalar at hsc
  split at hsc
  · rename_i p q hp hq
    simp at hsc; subst hsc
    have hmin : ∀ r ∈ d.minRef, r.hard = true := by
      intro r hr; apply hh; unfold Interval.getScalarRef; split
      · exact List.mem_append_left _ hr
      · exact hr
    have hmax : ∀ r ∈ d.maxRef, r.hard = true := by
      intro r hr; apply hh; unfold Interval.getScalarRef; split
      · exact List.mem_append_right _ hr
      · rename_i he; simp at he; rw [he]; exact hr
    have h1 := h.minH p hp hmin
    have h2 := h.maxH p hq hmax
    unfold Interval.getScalar; rw [hp]; simp; omega
  · simp at hsc

def allHard (vs : List Value) : Prop := ∀ v ∈ vs, v.isInt = true → v.hard = true
instance (vs : List Value) : Decidable (allHard vs) := by unfold allHard; exact inferInstance

theorem holds_known (v : Value) (x : Int) (hk : v.kind = .known) : v.holds x ↔ x = v.intvalue := by
  unfold Value.holds; rw [hk]

theorem impossible_ne (v : Value) (x : Int) (hi : v.isImpossible = true) (hh : v.holds x) : x ≠ v.intvalue := by
  unfold Value.isImpossible at hi
  simp at hi
  unfold Value.holds at hh
  rw [hi] at hh
  cases hb : v.bound <;> simp [hb] at hh <;> omega

theorem valueKindOf_ne_impossible (refs : List Value) : valueKindOf refs ≠ .impossible := by
  unfold valueKindOf; split <;> (try split) <;> simp

theorem infer_core (op : Op) (hop : op.isComparison = true ∨ op = .sub) (L R : List Value) (a b : Int)
    (hLs : ∀ v ∈ L, v.isInt = true → v.small) (hRs : ∀ v ∈ R, v.isInt = true → v.small)
    (ha : ∀ v ∈ L, v.isInt = true → v.hard = true → v.holds a)
    (hb : ∀ v ∈ R, v.isInt = true → v.hard = true → v.holds b)
    (guard : Bool) (r : Value) (hr : r ∈ inferG guard op L R) :
    (r.kind = .known → r.holds (opSem op a b)) ∧
    (r.kind = .impossible → (guard = true ∨ (allHard L ∧ allHard R)) → r.holds (opSem op a b)) := by
  have hB := Bnd_eq
  unfold inferG at hr
  simp only [] at hr
  have hLs' : ∀ v ∈ L.filter (·.isInt), v.small := fun v hv => hLs v (List.mem_filter.1 hv).1 (List.mem_filter.1 hv).2
  have hRs' : ∀ v ∈ R.filter (·.isInt), v.small := fun v hv => hRs v (List.mem_filter.1 hv).1 (List.mem_filter.1 hv).2
  have ha' : ∀ v ∈ L.filter (·.isInt), v.hard = true → v.holds a := fun v hv => ha v (List.mem_filter.1 hv).1 (List.mem_filter.1 hv).2
  have hb' : ∀ v ∈ R.filter (·.isInt), v.hard = true → v.holds b := fun v hv => hb v (List.mem_filter.1 hv).1 (List.mem_filter.1 hv).2
  have hsL : allHard L → ∀ v ∈ L.filter (·.isInt), v.hard = true := fun h v hv => h v (List.mem_filter.1 hv).1 (List.mem_filter.1 hv).2
  have hsR : allHard R → ∀ v ∈ R.filter (·.isInt), v.hard = true := fun h v hv => h v (List.mem_filter.1 hv).1 (List.mem_filter.1 hv).2
  have hl := fromValues_ok hLs' ha'
  have hrr := fromValues_ok hRs' hb'
  have hd := minus_ok hl hrr
  generalize L.filter (·.isInt) = L' at *
  generalize R.filter (·.isInt) = R' at *
  generalize fromValues L' = lhs at *
  generalize fromValues R' = rhs at *
  split at hr
  · simp at hr
  split at hr
  · simp at hr
  split at hr
  · -- op = sub
    rename_i hsub
    subst hsub
    split at hr
    · rename_i hsc
      simp at hr
      subst hr
      refine ⟨?_, fun h => absurd h (valueKindOf_ne_impossible _)⟩
      intro hk
      have hh := all_hard_of_known _ hk
      exact (holds_known _ _ hk).2 (diff_scalar_eq hd hsc hh)
    · simp only [List.mem_append] at hr
      refine ⟨?_, ?_⟩
      · intro hk
        rcases hr with h | h
        · split at h
          · split at h
            · simp at h; subst h; simp at hk
            · simp at h
          · simp at h
        · split at h
          · split at h
            · simp at h; subst h; simp at hk
            · simp at h
          · simp at h
      · intro _ hg
        have claimHard : ∀ refs : List Value, isClaim refs = true → ∀ r ∈ refs, r.hard = true := by
          intro refs hc r hr'
          unfold isClaim at hc
          simp at hc
          have := hc r hr'
          unfold Value.hard
          unfold Value.isPossible Value.isInconclusive at this
          cases hk : r.kind <;> simp_all
        have hLR : (∀ v, v ∈ L' ∨ v ∈ R' → v.hard = true) ∨ guard = true := by
          rcases hg with hg | ⟨hL, hR⟩
          · exact Or.inr hg
          · refine Or.inl ?_
            intro v hv
            rcases hv with hv | hv
            · exact hsL hL v hv
            · exact hsR hR v hv
        rcases hr with h | h
        · split at h
          · rename_i m hm
            split at h
            · rename_i hc
              simp at h; subst h
              have s1 := hd.minS m hm
              have hrefs : ∀ r ∈ (lhs.minus rhs).minRef, r.hard = true := by
                rcases hLR with hall | hgt
                · exact fun r hr' => hall r (hd.minR r hr')
                · subst hgt; simp at hc; exact claimHard _ hc
              have h1 := hd.minH m hm hrefs
              rw [wrap_small _ (by omega)]
              simp [Value.holds, opSem]; omega
            · simp at h
          · simp at h
        · split at h
          · rename_i m hm
            split at h
            · rename_i hc
              simp at h; subst h
              have s1 := hd.maxS m hm
              have hrefs : ∀ r ∈ (lhs.minus rhs).maxRef, r.hard = true := by
                rcases hLR with hall | hgt
                · exact fun r hr' => hall r (hd.maxR r hr')
                · subst hgt; simp at hc; exact claimHard _ hc
              have h1 := hd.maxH m hm hrefs
              rw [wrap_small _ (by omega)]
              simp [Value.holds, opSem]; omega
            · simp at h
          · simp at h
  · rename_i hnsub
    have hcmp : op.isComparison = true := by
      rcases hop with h | h
      · exact h
      · exact absurd h hnsub
    split at hr
    · -- == / != on scalar-or-empty intervals
      rename_i heqne
      obtain ⟨hopeq, _, _⟩ := heqne
      split at hr
      · rename_i hboth
        simp at hboth
        simp at hr; subst hr
        refine ⟨?_, fun h => absurd h (valueKindOf_ne_impossible _)⟩
        intro hk
        have hh := all_hard_of_known _ hk
        have ea := scalar_eq hl hboth.1 (fun r hr' => hh r (List.mem_append_left _ hr'))
        have eb := scalar_eq hrr hboth.2 (fun r hr' => hh r (List.mem_append_right _ hr'))
        refine (holds_known _ _ hk).2 ?_
        rw [← ea, ← eb]
        rcases hopeq with h | h <;> subst h <;> simp [opSem, calculateNoErr, calculate, b2i]
      · have impHard : ∀ v : Value, v.isImpossible = true → v.hard = true := by
          intro v hv; unfold Value.hard; unfold Value.isImpossible at hv; simp at hv; simp [hv]
        split at hr
        · rename_i hc
          simp at hc
          simp at hr
          obtain ⟨_, hr⟩ := hr
          subst hr
          refine ⟨?_, fun h => absurd h (valueKindOf_ne_impossible _)⟩
          intro hk
          refine (holds_known _ _ hk).2 ?_
          have hh := all_hard_of_known _ hk
          have ea := scalar_eq hl hc.1 hh
          have hc2 := hc.2
          unfold inferNotEqual at hc2
          obtain ⟨v, hv, hvi⟩ := List.any_eq_true.1 hc2
          simp at hvi
          have := impossible_ne v b hvi.1 (hb' v hv (impHard v hvi.1))
          have hne : a ≠ b := by omega
          rcases hopeq with h | h <;> subst h <;> simp [opSem, b2i, hne]
        · split at hr
          · rename_i hc
            simp at hc
            simp at hr
            obtain ⟨_, hr⟩ := hr
            subst hr
            refine ⟨?_, fun h => absurd h (valueKindOf_ne_impossible _)⟩
            intro hk
            refine (holds_known _ _ hk).2 ?_
            have hh := all_hard_of_known _ hk
            have eb := scalar_eq hrr hc.1 hh
            have hc2 := hc.2
            unfold inferNotEqual at hc2
            obtain ⟨v, hv, hvi⟩ := List.any_eq_true.1 hc2
            simp at hvi
            have := impossible_ne v a hvi.1 (ha' v hv (impHard v hvi.1))
            have hne : a ≠ b := by omega
            rcases hopeq with h | h <;> subst h <;> simp [opSem, b2i, hne]
          · simp at hr
    · -- comparison through Interval::compare
      split at hr
      · rename_i bv refs hcmpop
        simp at hr; subst hr
        refine ⟨?_, fun h => absurd h (valueKindOf_ne_impossible _)⟩
        intro hk
        have hh := all_hard_of_known _ hk
        refine (holds_known _ _ hk).2 ?_
        unfold Interval.compareOp at hcmpop
        generalize hc3 : Interval.compare3 lhs rhs = c3 at hcmpop
        obtain ⟨S, refs'⟩ := c3
        simp only [] at hcmpop
        split at hcmpop
        · simp at hcmpop
        · rename_i r0 rest
          split at hcmpop
          · rename_i hall
            simp at hcmpop
            obtain ⟨hbv, hrefs⟩ := hcmpop
            subst hrefs
            have h3 := compare3_sound hl hrr (by rw [hc3]; exact hh) (by rw [hc3]; simp)
            rw [hc3] at h3
            obtain ⟨s, hsS, hsok⟩ := h3
            simp only [] at hsS
            have hs_eq : calculateNoErr op s 0 = b2i bv := by
              rcases List.mem_cons.1 hsS with h | h
              · subst h; rw [← hbv, calc_cmpSign op hcmp]
                cases cmpSign op s <;> simp [b2i]
              · have := List.all_eq_true.1 hall s h
                simp at this
                rw [← this, hbv]
            rw [← hs_eq, calc_cmpSign op hcmp, cmpSign_sem op hcmp s a b hsok]
          · simp at hcmpop
      · simp at hr

end Cppcheck.Infer

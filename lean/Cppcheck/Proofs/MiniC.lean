import Cppcheck.Model.MiniC
/-
C01 — big-step semantics of MiniC statements as an inductive relation, and its agreement with the fuel-indexed
interpreter `execS` (Model/MiniC.lean): `BigStep σ st o evs ↔ ∃ fuel, execS fuel σ st = (o, evs) ∧ o ≠ timeout`.
Expression evaluation `evalE` is a total structural function and is shared by both.
-/
namespace Cppcheck.MiniC
open Cppcheck.Platforms

/-- outcomes that end the enclosing statement list: everything but `normal` -/
def Out.isNormal : Out → Bool
  | .normal _ => true
  | _ => false

/-- outcomes of a loop body after which the loop goes on with environment `σ'` -/
def Out.continues : Out → Option Env
  | .normal e => some e
  | .cont e => some e
  | _ => none

inductive BigStep (P : Platform) (vars : List Ty) : Env → Stmt → Out → List Event → Prop
  | skip (σ) : BigStep P vars σ .skip (.normal σ) []
  | assign (σ id x e v ev) : evalE P vars σ e = (some v, ev) →
      BigStep P vars σ (.assign id x e) (.normal (setVar σ x (conv P (varTy vars x) v))) (ev ++ [(id, conv P (varTy vars x) v)])
  | assignUb (σ id x e ev) : evalE P vars σ e = (none, ev) → BigStep P vars σ (.assign id x e) .ub ev
  | compound (σ id op x e v r ev) : evalE P vars σ e = (some v, ev) →
      evalBin P op (varTy vars x) (tyOf P vars e) (σ.getD x 0) v = some r →
      BigStep P vars σ (.compound id op x e) (.normal (setVar σ x (conv P (varTy vars x) r))) (ev ++ [(id, conv P (varTy vars x) r)])
  | compoundUb1 (σ id op x e ev) : evalE P vars σ e = (none, ev) → BigStep P vars σ (.compound id op x e) .ub ev
  | compoundUb2 (σ id op x e v ev) : evalE P vars σ e = (some v, ev) →
      evalBin P op (varTy vars x) (tyOf P vars e) (σ.getD x 0) v = none → BigStep P vars σ (.compound id op x e) .ub ev
  | incdec (σ id inc pre x r) : evalBin P (if inc then .add else .sub) (varTy vars x) tInt (σ.getD x 0) 1 = some r →
      BigStep P vars σ (.incdec id inc pre x) (.normal (setVar σ x (conv P (varTy vars x) r)))
        [(id, if pre then conv P (varTy vars x) r else σ.getD x 0)]
  | incdecUb (σ id inc pre x) : evalBin P (if inc then .add else .sub) (varTy vars x) tInt (σ.getD x 0) 1 = none →
      BigStep P vars σ (.incdec id inc pre x) .ub []
  | seqNormal (σ σ' a b o ev1 ev2) : BigStep P vars σ a (.normal σ') ev1 → BigStep P vars σ' b o ev2 →
      BigStep P vars σ (.seq a b) o (ev1 ++ ev2)
  | seqAbort (σ a b o ev1) : BigStep P vars σ a o ev1 → o.isNormal = false → BigStep P vars σ (.seq a b) o ev1
  | iteTrue (σ c a b vc ev1 o ev2) : evalE P vars σ c = (some vc, ev1) → vc ≠ 0 → BigStep P vars σ a o ev2 →
      BigStep P vars σ (.ite c a b) o (ev1 ++ ev2)
  | iteFalse (σ c a b ev1 o ev2) : evalE P vars σ c = (some 0, ev1) → BigStep P vars σ b o ev2 →
      BigStep P vars σ (.ite c a b) o (ev1 ++ ev2)
  | iteUb (σ c a b ev1) : evalE P vars σ c = (none, ev1) → BigStep P vars σ (.ite c a b) .ub ev1
  | whileFalse (σ c body ev1) : evalE P vars σ c = (some 0, ev1) → BigStep P vars σ (.while c body) (.normal σ) ev1
  | whileUb (σ c body ev1) : evalE P vars σ c = (none, ev1) → BigStep P vars σ (.while c body) .ub ev1
  | whileIter (σ σ' c body vc ev1 o1 ev2 o ev3) : evalE P vars σ c = (some vc, ev1) → vc ≠ 0 →
      BigStep P vars σ body o1 ev2 → o1.continues = some σ' → BigStep P vars σ' (.while c body) o ev3 →
      BigStep P vars σ (.while c body) o (ev1 ++ ev2 ++ ev3)
  | whileBrk (σ σ' c body vc ev1 ev2) : evalE P vars σ c = (some vc, ev1) → vc ≠ 0 →
      BigStep P vars σ body (.brk σ') ev2 → BigStep P vars σ (.while c body) (.normal σ') (ev1 ++ ev2)
  | whileRet (σ c body vc ev1 ev2) : evalE P vars σ c = (some vc, ev1) → vc ≠ 0 →
      BigStep P vars σ body .ret ev2 → BigStep P vars σ (.while c body) .ret (ev1 ++ ev2)
  | whileBodyUb (σ c body vc ev1 ev2) : evalE P vars σ c = (some vc, ev1) → vc ≠ 0 →
      BigStep P vars σ body .ub ev2 → BigStep P vars σ (.while c body) .ub (ev1 ++ ev2)
  | brk (σ) : BigStep P vars σ .brk (.brk σ) []
  | cont (σ) : BigStep P vars σ .cont (.cont σ) []
  | ret (σ e v ev) : evalE P vars σ e = (some v, ev) → BigStep P vars σ (.ret e) .ret ev
  | retUb (σ e ev) : evalE P vars σ e = (none, ev) → BigStep P vars σ (.ret e) .ub ev

def Out.isTimeout : Out → Bool
  | .timeout => true
  | _ => false

section
variable {P : Platform} {vars : List Ty}

theorem exec_mono_succ : ∀ (n : Nat) (σ : Env) (st : Stmt) (o : Out) (evs : List Event),
    execS P vars n σ st = (o, evs) → o.isTimeout = false → execS P vars (n + 1) σ st = (o, evs) := by
  intro n
  induction n with
  | zero => intro σ st o evs h ht; simp [execS] at h; rw [← h.1] at ht; simp [Out.isTimeout] at ht
  | succ n ih =>
    intro σ st o evs h ht
    cases st with
    | skip => simpa [execS] using h
    | assign id x e => simpa [execS] using h
    | compound id op x e => simpa [execS] using h
    | incdec id inc pre x => simpa [execS] using h
    | brk => simpa [execS] using h
    | cont => simpa [execS] using h
    | ret e => simpa [execS] using h
    | seq a b =>
      simp only [execS] at h ⊢
      generalize hea : execS P vars n σ a = qa at h
      obtain ⟨oa, ev1⟩ := qa
      cases oa with
      | normal σ' =>
        simp only [] at h
        generalize heb : execS P vars n σ' b = qb at h
        obtain ⟨ob, ev2⟩ := qb
        simp at h; obtain ⟨rfl, rfl⟩ := h
        rw [ih σ a _ _ hea rfl]
        simp only []
        rw [ih σ' b _ _ heb ht]
      | brk e' => simp at h; obtain ⟨rfl, rfl⟩ := h; rw [ih σ a _ _ hea rfl]
      | cont e' => simp at h; obtain ⟨rfl, rfl⟩ := h; rw [ih σ a _ _ hea rfl]
      | ret => simp at h; obtain ⟨rfl, rfl⟩ := h; rw [ih σ a _ _ hea rfl]
      | ub => simp at h; obtain ⟨rfl, rfl⟩ := h; rw [ih σ a _ _ hea rfl]
      | timeout => simp at h; obtain ⟨rfl, rfl⟩ := h; simp [Out.isTimeout] at ht
    | ite c a b =>
      simp only [execS] at h ⊢
      generalize hec : evalE P vars σ c = qc at h ⊢
      obtain ⟨rc, ev1⟩ := qc
      cases rc with
      | none => simpa using h
      | some vc =>
        simp only [] at h ⊢
        by_cases hv : vc ≠ 0
        · rw [if_pos hv] at h ⊢
          generalize hea : execS P vars n σ a = qa at h
          obtain ⟨oa, ev2⟩ := qa
          simp at h; obtain ⟨rfl, rfl⟩ := h
          rw [ih σ a _ _ hea ht]
        · rw [if_neg hv] at h ⊢
          generalize heb : execS P vars n σ b = qb at h
          obtain ⟨ob, ev2⟩ := qb
          simp at h; obtain ⟨rfl, rfl⟩ := h
          rw [ih σ b _ _ heb ht]
    | «while» c body =>
      simp only [execS] at h
      rw [execS]
      generalize hec : evalE P vars σ c = qc at h ⊢
      obtain ⟨rc, ev1⟩ := qc
      cases rc with
      | none => simpa using h
      | some vc =>
        simp only [] at h ⊢
        by_cases hv : vc = 0
        · rw [if_pos hv] at h ⊢; exact h
        · rw [if_neg hv] at h ⊢
          generalize heb : execS P vars n σ body = qb at h
          obtain ⟨ob, ev2⟩ := qb
          cases ob with
          | normal σ' =>
            simp only [] at h
            generalize hew : execS P vars n σ' (.while c body) = qw at h
            obtain ⟨ow, ev3⟩ := qw
            simp at h; obtain ⟨rfl, rfl⟩ := h
            rw [ih σ body _ _ heb rfl]
            simp only []
            rw [ih σ' (.while c body) _ _ hew ht]
            simp
          | cont σ' =>
            simp only [] at h
            generalize hew : execS P vars n σ' (.while c body) = qw at h
            obtain ⟨ow, ev3⟩ := qw
            simp at h; obtain ⟨rfl, rfl⟩ := h
            rw [ih σ body _ _ heb rfl]
            simp only []
            rw [ih σ' (.while c body) _ _ hew ht]
            simp
          | brk σ' => simp at h; obtain ⟨rfl, rfl⟩ := h; rw [ih σ body _ _ heb rfl]
          | ret => simp at h; obtain ⟨rfl, rfl⟩ := h; rw [ih σ body _ _ heb rfl]
          | ub => simp at h; obtain ⟨rfl, rfl⟩ := h; rw [ih σ body _ _ heb rfl]
          | timeout => simp at h; obtain ⟨rfl, rfl⟩ := h; simp [Out.isTimeout] at ht

theorem exec_mono {n m : Nat} {σ : Env} {st : Stmt} {o : Out} {evs : List Event}
    (h : execS P vars n σ st = (o, evs)) (ht : o.isTimeout = false) (hm : n ≤ m) : execS P vars m σ st = (o, evs) := by
  induction hm with
  | refl => exact h
  | step _ ih => exact exec_mono_succ _ _ _ _ _ ih ht

theorem bigstep_not_timeout {σ : Env} {st : Stmt} {o : Out} {evs : List Event} (h : BigStep P vars σ st o evs) : o.isTimeout = false := by
  induction h <;> simp_all [Out.isTimeout]

/-- every big-step derivation is reproduced by the interpreter with enough fuel -/
theorem bigstep_exec {σ : Env} {st : Stmt} {o : Out} {evs : List Event} (h : BigStep P vars σ st o evs) :
    ∃ n, execS P vars n σ st = (o, evs) := by
  induction h with
  | skip σ => exact ⟨1, by simp [execS]⟩
  | assign σ id x e v ev he => exact ⟨1, by simp [execS, he]⟩
  | assignUb σ id x e ev he => exact ⟨1, by simp [execS, he]⟩
  | compound σ id op x e v r ev he hb => exact ⟨1, by simp only [execS, he, hb]⟩
  | compoundUb1 σ id op x e ev he => exact ⟨1, by simp [execS, he]⟩
  | compoundUb2 σ id op x e v ev he hb => exact ⟨1, by simp only [execS, he, hb]⟩
  | incdec σ id inc pre x r hb => exact ⟨1, by simp only [execS, hb]⟩
  | incdecUb σ id inc pre x hb => exact ⟨1, by simp only [execS, hb]⟩
  | brk σ => exact ⟨1, by simp [execS]⟩
  | cont σ => exact ⟨1, by simp [execS]⟩
  | ret σ e v ev he => exact ⟨1, by simp [execS, he]⟩
  | retUb σ e ev he => exact ⟨1, by simp [execS, he]⟩
  | seqNormal σ σ' a b o ev1 ev2 ha hb iha ihb =>
    obtain ⟨n1, h1⟩ := iha
    obtain ⟨n2, h2⟩ := ihb
    refine ⟨max n1 n2 + 1, ?_⟩
    simp only [execS]
    rw [exec_mono h1 rfl (Nat.le_max_left _ _)]
    simp only []
    rw [exec_mono h2 (bigstep_not_timeout hb) (Nat.le_max_right _ _)]
  | seqAbort σ a b o ev1 ha hn iha =>
    obtain ⟨n1, h1⟩ := iha
    refine ⟨n1 + 1, ?_⟩
    simp only [execS]
    rw [h1]
    cases o <;> simp_all [Out.isNormal]
  | iteTrue σ c a b vc ev1 o ev2 hc hv ha iha =>
    obtain ⟨n1, h1⟩ := iha
    exact ⟨n1 + 1, by simp [execS, hc, hv, h1]⟩
  | iteFalse σ c a b ev1 o ev2 hc hb ihb =>
    obtain ⟨n1, h1⟩ := ihb
    exact ⟨n1 + 1, by simp [execS, hc, h1]⟩
  | iteUb σ c a b ev1 hc => exact ⟨1, by simp [execS, hc]⟩
  | whileFalse σ c body ev1 hc => exact ⟨1, by simp [execS, hc]⟩
  | whileUb σ c body ev1 hc => exact ⟨1, by simp [execS, hc]⟩
  | whileIter σ σ' c body vc ev1 o1 ev2 o ev3 hc hv hb hcont hw ihb ihw =>
    obtain ⟨n1, h1⟩ := ihb
    obtain ⟨n2, h2⟩ := ihw
    refine ⟨max n1 n2 + 1, ?_⟩
    rw [execS]
    rw [hc]
    simp only [hv, if_false]
    rw [exec_mono h1 (bigstep_not_timeout hb) (Nat.le_max_left _ _)]
    have h2' := exec_mono h2 (bigstep_not_timeout hw) (Nat.le_max_right n1 n2)
    cases o1 <;> simp [Out.continues] at hcont <;> subst hcont <;> simp only [] <;> rw [h2']
  | whileBrk σ σ' c body vc ev1 ev2 hc hv hb ihb =>
    obtain ⟨n1, h1⟩ := ihb
    exact ⟨n1 + 1, by rw [execS, hc]; simp only [hv, if_false]; rw [h1]⟩
  | whileRet σ c body vc ev1 ev2 hc hv hb ihb =>
    obtain ⟨n1, h1⟩ := ihb
    exact ⟨n1 + 1, by rw [execS, hc]; simp only [hv, if_false]; rw [h1]⟩
  | whileBodyUb σ c body vc ev1 ev2 hc hv hb ihb =>
    obtain ⟨n1, h1⟩ := ihb
    exact ⟨n1 + 1, by rw [execS, hc]; simp only [hv, if_false]; rw [h1]⟩

/-- every interpreter run that does not run out of fuel is a big-step derivation -/
theorem exec_bigstep : ∀ (n : Nat) (σ : Env) (st : Stmt) (o : Out) (evs : List Event),
    execS P vars n σ st = (o, evs) → o.isTimeout = false → BigStep P vars σ st o evs := by
  intro n
  induction n with
  | zero => intro σ st o evs h ht; simp [execS] at h; rw [← h.1] at ht; simp [Out.isTimeout] at ht
  | succ n ih =>
    intro σ st o evs h ht
    cases st with
    | skip => simp [execS] at h; obtain ⟨rfl, rfl⟩ := h; exact .skip σ
    | brk => simp [execS] at h; obtain ⟨rfl, rfl⟩ := h; exact .brk σ
    | cont => simp [execS] at h; obtain ⟨rfl, rfl⟩ := h; exact .cont σ
    | assign id x e =>
      simp only [execS] at h
      generalize he : evalE P vars σ e = q at h
      obtain ⟨r, ev⟩ := q
      cases r with
      | none => simp at h; obtain ⟨rfl, rfl⟩ := h; exact .assignUb σ id x e ev he
      | some v => simp at h; obtain ⟨rfl, rfl⟩ := h; exact .assign σ id x e v ev he
    | ret e =>
      simp only [execS] at h
      generalize he : evalE P vars σ e = q at h
      obtain ⟨r, ev⟩ := q
      cases r with
      | none => simp at h; obtain ⟨rfl, rfl⟩ := h; exact .retUb σ e ev he
      | some v => simp at h; obtain ⟨rfl, rfl⟩ := h; exact .ret σ e v ev he
    | compound id op x e =>
      simp only [execS] at h
      generalize he : evalE P vars σ e = q at h
      obtain ⟨r, ev⟩ := q
      cases r with
      | none => simp at h; obtain ⟨rfl, rfl⟩ := h; exact .compoundUb1 σ id op x e ev he
      | some v =>
        simp only [] at h
        generalize hb : evalBin P op (varTy vars x) (tyOf P vars e) (σ.getD x 0) v = rb at h
        cases rb with
        | none => simp at h; obtain ⟨rfl, rfl⟩ := h; exact .compoundUb2 σ id op x e v ev he hb
        | some r => simp at h; obtain ⟨rfl, rfl⟩ := h; exact .compound σ id op x e v r ev he hb
    | incdec id inc pre x =>
      simp only [execS] at h
      generalize hb : evalBin P (if inc = true then BinOp.add else BinOp.sub) (varTy vars x) tInt (σ.getD x 0) 1 = rb at h
      cases rb with
      | none => simp at h; obtain ⟨rfl, rfl⟩ := h; exact .incdecUb σ id inc pre x hb
      | some r => simp at h; obtain ⟨rfl, rfl⟩ := h; exact .incdec σ id inc pre x r hb
    | seq a b =>
      simp only [execS] at h
      generalize hea : execS P vars n σ a = qa at h
      obtain ⟨oa, ev1⟩ := qa
      cases oa with
      | normal σ' =>
        simp only [] at h
        generalize heb : execS P vars n σ' b = qb at h
        obtain ⟨ob, ev2⟩ := qb
        simp at h; obtain ⟨rfl, rfl⟩ := h
        exact .seqNormal σ σ' a b _ ev1 ev2 (ih σ a _ _ hea rfl) (ih σ' b _ _ heb ht)
      | brk e' => simp at h; obtain ⟨rfl, rfl⟩ := h; exact .seqAbort σ a b _ _ (ih σ a _ _ hea rfl) rfl
      | cont e' => simp at h; obtain ⟨rfl, rfl⟩ := h; exact .seqAbort σ a b _ _ (ih σ a _ _ hea rfl) rfl
      | ret => simp at h; obtain ⟨rfl, rfl⟩ := h; exact .seqAbort σ a b _ _ (ih σ a _ _ hea rfl) rfl
      | ub => simp at h; obtain ⟨rfl, rfl⟩ := h; exact .seqAbort σ a b _ _ (ih σ a _ _ hea rfl) rfl
      | timeout => simp at h; obtain ⟨rfl, rfl⟩ := h; simp [Out.isTimeout] at ht
    | ite c a b =>
      simp only [execS] at h
      generalize hec : evalE P vars σ c = qc at h
      obtain ⟨rc, ev1⟩ := qc
      cases rc with
      | none => simp at h; obtain ⟨rfl, rfl⟩ := h; exact .iteUb σ c a b ev1 hec
      | some vc =>
        simp only [] at h
        by_cases hv : vc ≠ 0
        · rw [if_pos hv] at h
          generalize hea : execS P vars n σ a = qa at h
          obtain ⟨oa, ev2⟩ := qa
          simp at h; obtain ⟨rfl, rfl⟩ := h
          exact .iteTrue σ c a b vc ev1 _ ev2 hec hv (ih σ a _ _ hea ht)
        · rw [if_neg hv] at h
          have : vc = 0 := by omega
          subst this
          generalize heb : execS P vars n σ b = qb at h
          obtain ⟨ob, ev2⟩ := qb
          simp at h; obtain ⟨rfl, rfl⟩ := h
          exact .iteFalse σ c a b ev1 _ ev2 hec (ih σ b _ _ heb ht)
    | «while» c body =>
      rw [execS] at h
      generalize hec : evalE P vars σ c = qc at h
      obtain ⟨rc, ev1⟩ := qc
      cases rc with
      | none => simp at h; obtain ⟨rfl, rfl⟩ := h; exact .whileUb σ c body ev1 hec
      | some vc =>
        simp only [] at h
        by_cases hv : vc = 0
        · rw [if_pos hv] at h; subst hv
          simp at h; obtain ⟨rfl, rfl⟩ := h
          exact .whileFalse σ c body ev1 hec
        · rw [if_neg hv] at h
          generalize heb : execS P vars n σ body = qb at h
          obtain ⟨ob, ev2⟩ := qb
          cases ob with
          | normal σ' =>
            simp only [] at h
            generalize hew : execS P vars n σ' (.while c body) = qw at h
            obtain ⟨ow, ev3⟩ := qw
            simp at h; obtain ⟨rfl, rfl⟩ := h
            have := BigStep.whileIter σ σ' c body vc ev1 _ ev2 _ ev3 hec hv (ih σ body _ _ heb rfl) rfl (ih σ' _ _ _ hew ht)
            simpa using this
          | cont σ' =>
            simp only [] at h
            generalize hew : execS P vars n σ' (.while c body) = qw at h
            obtain ⟨ow, ev3⟩ := qw
            simp at h; obtain ⟨rfl, rfl⟩ := h
            have := BigStep.whileIter σ σ' c body vc ev1 _ ev2 _ ev3 hec hv (ih σ body _ _ heb rfl) rfl (ih σ' _ _ _ hew ht)
            simpa using this
          | brk σ' => simp at h; obtain ⟨rfl, rfl⟩ := h; exact .whileBrk σ σ' c body vc ev1 ev2 hec hv (ih σ body _ _ heb rfl)
          | ret => simp at h; obtain ⟨rfl, rfl⟩ := h; exact .whileRet σ c body vc ev1 ev2 hec hv (ih σ body _ _ heb rfl)
          | ub => simp at h; obtain ⟨rfl, rfl⟩ := h; exact .whileBodyUb σ c body vc ev1 ev2 hec hv (ih σ body _ _ heb rfl)
          | timeout => simp at h; obtain ⟨rfl, rfl⟩ := h; simp [Out.isTimeout] at ht

/-- the interpreter agrees with the big-step semantics -/
theorem bigstep_iff_exec (σ : Env) (st : Stmt) (o : Out) (evs : List Event) :
    BigStep P vars σ st o evs ↔ ∃ n, execS P vars n σ st = (o, evs) ∧ o.isTimeout = false := by
  constructor
  · intro h
    obtain ⟨n, hn⟩ := bigstep_exec h
    exact ⟨n, hn, bigstep_not_timeout h⟩
  · rintro ⟨n, hn, ht⟩
    exact exec_bigstep n σ st o evs hn ht

end

end Cppcheck.MiniC

import Cppcheck.Model.ValueTypeConv
import Cppcheck.Model.ConvSpec
/-
C09 — enumeration lemmas: every finite type the theorems quantify over is listed, so that a statement
`∀ s t1 t2, …` follows from a `decide` over the whole (finite) table.
-/
namespace Cppcheck.ValueTypeConv

theorem CT.mem_all (t : CT) : t ∈ CT.all := by cases t <;> decide
theorem BinOp.mem_all (op : BinOp) : op ∈ BinOp.all := by cases op <;> decide
theorem UnOp.mem_all (op : UnOp) : op ∈ UnOp.all := by cases op <;> decide
theorem Variant.mem_all (v : Variant) : v ∈ Variant.all := by cases v <;> decide

def bools : List Bool := [false, true]
theorem mem_bools (b : Bool) : b ∈ bools := by cases b <;> decide

/-- all 64 shapes -/
def Shape.all : List Shape :=
  bools.flatMap fun a => bools.flatMap fun b => bools.flatMap fun c => bools.flatMap fun d =>
  bools.flatMap fun e => bools.map fun f => ⟨a, b, c, d, e, f⟩

theorem Shape.mem_all (s : Shape) : s ∈ Shape.all := by
  rcases s with ⟨a, b, c, d, e, f⟩
  cases a <;> cases b <;> cases c <;> cases d <;> cases e <;> cases f <;> decide

/-- the operator classes -/
def OpClass.all : List OpClass := [.arith, .bit, .shift, .cmp, .logical, .assign]
theorem OpClass.mem_all (c : OpClass) : c ∈ OpClass.all := by cases c <;> decide

end Cppcheck.ValueTypeConv

import Cppcheck.Model.PathCanon
/-
C31 — helper lemmas for the path iterator: `skips` is independent of its fuel, the iterator of the repaired code
reads the documented canonical form.
-/
namespace Cppcheck.PathCanon
open Cppcheck.Wire

theorem dropComp_length_le (root : Nat) (r : Str) : (dropComp root r).length ≤ r.length := by
  induction r with
  | nil => simp [dropComp]
  | cons c r ih =>
    unfold dropComp
    split
    · simp; omega
    · simp

theorem tail_length_le (r : Str) : r.tail.length ≤ r.length := by cases r <;> simp

theorem tail_length_lt (r : Str) (h : r ≠ []) : r.tail.length < r.length := by
  cases r with
  | nil => exact absurd rfl h
  | cons c r => simp

/-- one iteration of the loop of `skips`, the continuation (`continue` / the recursive call) as a parameter -/
def skipsBody (v : Variant) (root : Nat) (leadsep : Bool) (rem : Str) (rec : Bool → Str → Str) : Str :=
  if rem.length ≤ root then rem
  else if leadsep && hd rem != '/' then rem
  else
    let r1 := if leadsep then rem.tail else rem
    if hd r1 == '.' then
      let r2 := r1.tail
      if hd r2 == '.' then
        let r3 := r2.tail
        if hd r3 == '/' then
          let r4 := if v.rootdd && r3.length ≤ root then r3 else r3.tail
          rec leadsep (dropComp root (rec false r4))
        else rem
      else if hd r2 == '/' then rec leadsep r2
      else if hd r2 == NUL then r2
      else rem
    else if hd r1 == '/' then
      if v.dsep && leadsep then rec leadsep r1 else rec false r1.tail
    else rem

theorem skipsF_succ (v : Variant) (fuel root : Nat) (ls : Bool) (rem : Str) :
    skipsF v (fuel + 1) root ls rem = skipsBody v root ls rem (skipsF v fuel root) := by
  rw [skipsF]; rfl

theorem skipsBody_length_le (v : Variant) (root : Nat) (ls : Bool) (rem : Str) (rec : Bool → Str → Str)
    (hrec : ∀ l r, (rec l r).length ≤ r.length) : (skipsBody v root ls rem rec).length ≤ rem.length := by
  unfold skipsBody
  by_cases h0 : rem.length ≤ root
  · simp [h0]
  · by_cases h1 : (ls && hd rem != '/') = true
    · simp [h0, h1]
    · simp only [h0, h1, if_false, Bool.false_eq_true]
      generalize hr1 : (if ls = true then rem.tail else rem) = r1
      have l1 : r1.length ≤ rem.length := by
        rw [← hr1]; split
        · exact tail_length_le rem
        · exact Nat.le_refl _
      have l2 := tail_length_le r1
      have l3 := tail_length_le r1.tail
      have l4 := tail_length_le r1.tail.tail
      by_cases c1 : (hd r1 == '.') = true
      · simp only [c1, if_true]
        by_cases c2 : (hd r1.tail == '.') = true
        · simp only [c2, if_true]
          by_cases c3 : (hd r1.tail.tail == '/') = true
          · simp only [c3, if_true]
            refine Nat.le_trans (hrec _ _) (Nat.le_trans (dropComp_length_le _ _) (Nat.le_trans (hrec _ _) ?_))
            split <;> omega
          · simp only [c3, Bool.false_eq_true, if_false]; omega
        · simp only [c2, Bool.false_eq_true, if_false]
          by_cases c3 : (hd r1.tail == '/') = true
          · simp only [c3, if_true]; exact Nat.le_trans (hrec _ _) (by omega)
          · simp only [c3, Bool.false_eq_true, if_false]
            split <;> omega
      · simp only [c1, Bool.false_eq_true, if_false]
        by_cases c2 : (hd r1 == '/') = true
        · simp only [c2, if_true]
          split
          · exact Nat.le_trans (hrec _ _) (by omega)
          · exact Nat.le_trans (hrec _ _) (by omega)
        · simp only [c2, Bool.false_eq_true, if_false]; omega

/-- `skips` never moves backwards -/
theorem skipsF_length_le (v : Variant) : ∀ (fuel root : Nat) (ls : Bool) (rem : Str),
    (skipsF v fuel root ls rem).length ≤ rem.length := by
  intro fuel
  induction fuel with
  | zero => intro root ls rem; simp [skipsF]
  | succ fuel ih =>
    intro root ls rem
    rw [skipsF_succ]
    exact skipsBody_length_le v root ls rem _ (fun l r => ih root l r)


theorem hd_ne_nul_ne_nil {r : Str} {c : Char} (h : (hd r == c) = true) (hc : c ≠ NUL) : r ≠ [] := by
  intro e; subst e
  simp only [hd, List.headD_nil, beq_iff_eq] at h
  exact hc h.symm

theorem skipsBody_congr (v : Variant) (root : Nat) (ls : Bool) (rem : Str) (rec1 rec2 : Bool → Str → Str)
    (h1 : ∀ l r, (rec1 l r).length ≤ r.length)
    (heq : ∀ l r, r.length < rem.length → rec1 l r = rec2 l r) :
    skipsBody v root ls rem rec1 = skipsBody v root ls rem rec2 := by
  unfold skipsBody
  by_cases h0 : rem.length ≤ root
  · simp [h0]
  · by_cases hg : (ls && hd rem != '/') = true
    · simp [h0, hg]
    · simp only [h0, hg, if_false, Bool.false_eq_true]
      have hne : rem ≠ [] := by intro e; subst e; simp at h0
      generalize hr1 : (if ls = true then rem.tail else rem) = r1
      have l1 : r1.length ≤ rem.length := by
        rw [← hr1]; split
        · exact tail_length_le rem
        · exact Nat.le_refl _
      have l1' : ls = true → r1.length < rem.length := by
        intro hl; rw [← hr1]; simp only [hl, if_true]; exact tail_length_lt rem hne
      have l3 := tail_length_le r1.tail
      have l4 := tail_length_le r1.tail.tail
      by_cases c1 : (hd r1 == '.') = true
      · have l2 := tail_length_lt r1 (hd_ne_nul_ne_nil c1 (by decide))
        simp only [c1, if_true]
        by_cases c2 : (hd r1.tail == '.') = true
        · simp only [c2, if_true]
          by_cases c3 : (hd r1.tail.tail == '/') = true
          · simp only [c3, if_true]
            generalize hr4 : (if (v.rootdd && decide (r1.tail.tail.length ≤ root)) = true then r1.tail.tail else r1.tail.tail.tail) = r4
            have l5 : r4.length < rem.length := by rw [← hr4]; split <;> omega
            rw [heq false r4 l5]
            have := h1 false r4
            rw [heq false r4 l5] at this
            have l6 := dropComp_length_le root (rec2 false r4)
            exact heq ls _ (by omega)
          · simp only [c3, Bool.false_eq_true, if_false]
        · simp only [c2, Bool.false_eq_true, if_false]
          by_cases c3 : (hd r1.tail == '/') = true
          · simp only [c3, if_true]; exact heq ls _ (by omega)
          · simp only [c3, Bool.false_eq_true, if_false]
      · simp only [c1, Bool.false_eq_true, if_false]
        by_cases c2 : (hd r1 == '/') = true
        · have l2 := tail_length_lt r1 (hd_ne_nul_ne_nil c2 (by decide))
          simp only [c2, if_true]
          by_cases c3 : (v.dsep && ls) = true
          · simp only [c3, if_true]
            have : ls = true := by simp only [Bool.and_eq_true] at c3; exact c3.2
            exact heq ls r1 (l1' this)
          · simp only [c3, Bool.false_eq_true, if_false]
            exact heq false _ (by omega)
        · simp only [c2, Bool.false_eq_true, if_false]

/-- the result of `skips` does not depend on the fuel once it exceeds the number of characters left -/
theorem skipsF_fuel (v : Variant) (root : Nat) : ∀ (f1 f2 : Nat) (ls : Bool) (rem : Str),
    rem.length < f1 → rem.length < f2 → skipsF v f1 root ls rem = skipsF v f2 root ls rem := by
  intro f1
  induction f1 with
  | zero => intro f2 ls rem h; omega
  | succ f1 ih =>
    intro f2 ls rem h1 h2
    cases f2 with
    | zero => omega
    | succ f2 =>
      rw [skipsF_succ, skipsF_succ]
      exact skipsBody_congr v root ls rem _ _ (fun l r => skipsF_length_le v f1 root l r)
        (fun l r hr => ih f2 l r (by omega) (by omega))

/-- `skips` unfolds to one loop iteration followed by `skips` -/
theorem skips_eq (v : Variant) (root : Nat) (ls : Bool) (rem : Str) :
    skips v root ls rem = skipsBody v root ls rem (skips v root) := by
  unfold skips
  rw [skipsF_succ]
  exact skipsBody_congr v root ls rem _ _ (fun l r => skipsF_length_le v _ root l r)
    (fun l r hr => skipsF_fuel v root _ _ l r hr (by omega))

theorem skips_length_le (v : Variant) (root : Nat) (ls : Bool) (rem : Str) :
    (skips v root ls rem).length ≤ rem.length := skipsF_length_le v _ root ls rem


/-! ### reading -/

def readFrom (v : Variant) (root : Nat) (rem : Str) : Str := streamF v (rem.length + 1) root rem

theorem advance_length_lt (v : Variant) (root : Nat) (rem : Str) (h : rem ≠ []) :
    (advance v root rem).length < rem.length := by
  unfold advance
  have := tail_length_lt rem h
  simp only []
  split
  · exact Nat.lt_of_le_of_lt (skips_length_le v root true _) this
  · exact this

theorem ne_nil_of_hd_ne_nul {r : Str} (h : (hd r == NUL) = false) : r ≠ [] := by
  intro e; subst e; simp [hd] at h

theorem streamF_fuel (v : Variant) (root : Nat) : ∀ (f1 f2 : Nat) (rem : Str),
    rem.length < f1 → rem.length < f2 → streamF v f1 root rem = streamF v f2 root rem := by
  intro f1
  induction f1 with
  | zero => intro f2 rem h; omega
  | succ f1 ih =>
    intro f2 rem h1 h2
    cases f2 with
    | zero => omega
    | succ f2 =>
      simp only [streamF]
      by_cases hc : (hd rem == NUL) = true
      · simp [hc]
      · simp only [hc, Bool.false_eq_true, if_false]
        have := advance_length_lt v root rem (ne_nil_of_hd_ne_nul (by simpa using hc))
        rw [ih f2 _ (by omega) (by omega)]

theorem readFrom_eq (v : Variant) (root : Nat) (rem : Str) :
    readFrom v root rem = if hd rem == NUL then [] else hd rem :: readFrom v root (advance v root rem) := by
  unfold readFrom
  rw [streamF]
  by_cases hc : (hd rem == NUL) = true
  · simp [hc]
  · simp only [hc, Bool.false_eq_true, if_false]
    have := advance_length_lt v root rem (ne_nil_of_hd_ne_nul (by simpa using hc))
    rw [streamF_fuel v root _ _ _ (by omega) (Nat.lt_succ_self _)]

theorem Iter.stream_def (v : Variant) (it : Iter) : it.stream v = readFrom v it.root it.rem := rfl

/-! ### components in reading order -/

/-- components in reading order (last component first): drop the ignorable ones and, for every `..`, one real
    component; `n` = number of real components still to drop.  Result: the list from the first surviving one on. -/
def skn : Nat → List Str → List Str
  | _, [] => []
  | n, c :: cs =>
    if ignorable c then skn n cs
    else if c == dotdot then skn (n + 1) cs
    else if n > 0 then skn (n - 1) cs
    else c :: cs

/-- all surviving components, reading order -/
def rnorm : Nat → List Str → List Str
  | _, [] => []
  | n, c :: cs =>
    if ignorable c then rnorm n cs
    else if c == dotdot then rnorm (n + 1) cs
    else if n > 0 then rnorm (n - 1) cs
    else c :: rnorm 0 cs

theorem skn_suffix : ∀ (cs : List Str) (m : Nat), ∃ pre, cs = pre ++ skn m cs := by
  intro cs
  induction cs with
  | nil => intro m; exact ⟨[], rfl⟩
  | cons c cs ih =>
    intro m
    simp only [skn]
    split
    · obtain ⟨pre, h⟩ := ih m; exact ⟨c :: pre, by simp [← h]⟩
    · split
      · obtain ⟨pre, h⟩ := ih (m + 1); exact ⟨c :: pre, by simp [← h]⟩
      · split
        · obtain ⟨pre, h⟩ := ih (m - 1); exact ⟨c :: pre, by simp [← h]⟩
        · exact ⟨[], rfl⟩

theorem skn_succ_of_cons : ∀ (cs : List Str) (m : Nat) (c : Str) (r : List Str),
    skn m cs = c :: r → skn (m + 1) cs = skn 0 r := by
  intro cs
  induction cs with
  | nil => intro m c r h; simp [skn] at h
  | cons x xs ih =>
    intro m c r h
    simp only [skn] at h ⊢
    by_cases h1 : ignorable x = true
    · simp only [h1, if_true] at h ⊢; exact ih m c r h
    · simp only [h1, Bool.false_eq_true, if_false] at h ⊢
      by_cases h2 : (x == dotdot) = true
      · simp only [h2, if_true] at h ⊢; exact ih (m + 1) c r h
      · simp only [h2, Bool.false_eq_true, if_false] at h ⊢
        by_cases h3 : m > 0
        · simp only [h3, if_true] at h
          have : m + 1 > 0 := by omega
          simp only [this, if_true, Nat.add_sub_cancel]
          have := ih (m - 1) c r h
          have e : m - 1 + 1 = m := by omega
          rw [e] at this; exact this
        · simp only [h3, if_false] at h
          have hm : m = 0 := by omega
          subst hm
          simp only [Nat.zero_add, Nat.lt_irrefl, if_false, gt_iff_lt, Nat.lt_add_one, if_true, Nat.sub_self]
          have := List.cons.inj h
          rw [this.2]

theorem skn_succ_of_nil : ∀ (cs : List Str) (m : Nat), skn m cs = [] → skn (m + 1) cs = [] := by
  intro cs
  induction cs with
  | nil => intro m _; simp [skn]
  | cons x xs ih =>
    intro m h
    simp only [skn] at h ⊢
    by_cases h1 : ignorable x = true
    · simp only [h1, if_true] at h ⊢; exact ih m h
    · simp only [h1, Bool.false_eq_true, if_false] at h ⊢
      by_cases h2 : (x == dotdot) = true
      · simp only [h2, if_true] at h ⊢; exact ih (m + 1) h
      · simp only [h2, Bool.false_eq_true, if_false] at h ⊢
        by_cases h3 : m > 0
        · simp only [h3, if_true] at h
          have : m + 1 > 0 := by omega
          simp only [this, if_true, Nat.add_sub_cancel]
          have := ih (m - 1) h
          have e : m - 1 + 1 = m := by omega
          rw [e] at this; exact this
        · simp only [h3, if_false] at h
          cases h

/-- `..` counted by `esc` beyond those that `skn` resolves -/
theorem esc_of_skn_cons : ∀ (cs : List Str) (m j : Nat) (c : Str) (r : List Str),
    skn m cs = c :: r → esc (m + j + 1) cs = esc j r := by
  intro cs
  induction cs with
  | nil => intro m j c r h; simp [skn] at h
  | cons x xs ih =>
    intro m j c r h
    simp only [skn] at h
    simp only [esc]
    by_cases h1 : ignorable x = true
    · simp only [h1, if_true] at h ⊢; exact ih m j c r h
    · simp only [h1, Bool.false_eq_true, if_false] at h ⊢
      by_cases h2 : (x == dotdot) = true
      · simp only [h2, if_true] at h ⊢
        have := ih (m + 1) j c r h
        have e : m + 1 + j + 1 = m + j + 1 + 1 := by omega
        rw [e] at this; exact this
      · simp only [h2, Bool.false_eq_true, if_false] at h ⊢
        by_cases h3 : m > 0
        · simp only [h3, if_true] at h
          have := ih (m - 1) j c r h
          have e : m - 1 + j + 1 = m + j + 1 - 1 := by omega
          rw [e] at this; exact this
        · simp only [h3, if_false] at h
          have hm : m = 0 := by omega
          subst hm
          have := List.cons.inj h
          rw [this.2]
          simp

theorem esc_of_skn_nil : ∀ (cs : List Str) (m j : Nat), skn m cs = [] → j ≤ esc (m + j) cs := by
  intro cs
  induction cs with
  | nil => intro m j _; simp [esc]
  | cons x xs ih =>
    intro m j h
    simp only [skn] at h
    simp only [esc]
    by_cases h1 : ignorable x = true
    · simp only [h1, if_true] at h ⊢; exact ih m j h
    · simp only [h1, Bool.false_eq_true, if_false] at h ⊢
      by_cases h2 : (x == dotdot) = true
      · simp only [h2, if_true] at h ⊢
        have := ih (m + 1) j h
        have e : m + 1 + j = m + j + 1 := by omega
        rw [e] at this; exact this
      · simp only [h2, Bool.false_eq_true, if_false] at h ⊢
        by_cases h3 : m > 0
        · simp only [h3, if_true] at h
          have := ih (m - 1) j h
          have e : m - 1 + j = m + j - 1 := by omega
          rw [e] at this; exact this
        · simp only [h3, if_false] at h
          cases h

theorem esc_mono : ∀ (cs : List Str) (a b : Nat), a ≤ b → esc a cs ≤ esc b cs := by
  intro cs
  induction cs with
  | nil => intro a b h; simpa [esc] using h
  | cons x xs ih =>
    intro a b h
    simp only [esc]
    split
    · exact ih a b h
    · split
      · exact ih _ _ (by omega)
      · exact ih _ _ (by omega)

theorem rnorm_eq_skn : ∀ (cs : List Str) (n : Nat),
    rnorm n cs = match skn n cs with | [] => [] | c :: r => c :: rnorm 0 r := by
  intro cs
  induction cs with
  | nil => intro n; simp [rnorm, skn]
  | cons x xs ih =>
    intro n
    simp only [rnorm, skn]
    split
    · exact ih n
    · split
      · exact ih (n + 1)
      · split
        · exact ih (n - 1)
        · rfl


/-! ### one loop iteration on the shapes a component boundary can have (repaired code) -/

theorem body_short (v : Variant) (root : Nat) (ls : Bool) (rem : Str) (rec : Bool → Str → Str)
    (h : rem.length ≤ root) : skipsBody v root ls rem rec = rem := by
  simp [skipsBody, h]

theorem bodyF_slash (root : Nat) (z : Str) (rec : Bool → Str → Str) (h : root < ('/' :: z).length) :
    skipsBody .fixed root false ('/' :: z) rec = rec false z := by
  simp only [List.length_cons] at h
  simp [skipsBody, hd, Variant.fixed]
  intro hh; omega

theorem bodyF_dot_slash (root : Nat) (z : Str) (rec : Bool → Str → Str) (h : root < ('.' :: '/' :: z).length) :
    skipsBody .fixed root false ('.' :: '/' :: z) rec = rec false ('/' :: z) := by
  simp only [List.length_cons] at h
  simp [skipsBody, hd]
  intro hh; omega

theorem bodyF_dot_end (rec : Bool → Str → Str) : skipsBody .fixed 0 false ['.'] rec = [] := by
  simp [skipsBody, hd, NUL]

theorem bodyF_dd_slash (root : Nat) (z : Str) (rec : Bool → Str → Str) (h : root < ('/' :: z).length) :
    skipsBody .fixed root false ('.' :: '.' :: '/' :: z) rec = rec false (dropComp root (rec false z)) := by
  simp only [List.length_cons] at h
  have h2 : ¬ (z.length + 1 ≤ root) := by omega
  simp [skipsBody, hd, Variant.fixed, h2]
  intro hh; omega

theorem bodyF_dd_root (root : Nat) (z : Str) (rec : Bool → Str → Str) (h : ('/' :: z).length = root) :
    skipsBody .fixed root false ('.' :: '.' :: '/' :: z) rec = rec false (dropComp root (rec false ('/' :: z))) := by
  simp only [List.length_cons] at h
  have h2 : z.length + 1 ≤ root := by omega
  simp [skipsBody, hd, Variant.fixed, h2]
  intro hh; omega

theorem bodyF_dot_root (root : Nat) (z : Str) (rec : Bool → Str → Str) (h : ('/' :: z).length = root) :
    skipsBody .fixed root false ('.' :: '/' :: z) rec = rec false ('/' :: z) := by
  simp only [List.length_cons] at h
  simp [skipsBody, hd]
  intro hh; omega


/-- a real component: non-empty, without separator or NUL, not `.` and not `..` -/
def normalC (c : Str) : Prop := c ≠ [] ∧ '/' ∉ c ∧ NUL ∉ c ∧ c ≠ dot ∧ c ≠ dotdot

theorem bodyF_normal (root : Nat) (c rest : Str) (rec : Bool → Str → Str) (hn : normalC c)
    (hlen : root < (c ++ rest).length) : skipsBody .fixed root false (c ++ rest) rec = c ++ rest := by
  obtain ⟨h0, hs, hz, hd1, hd2⟩ := hn
  have hl : ¬ ((c ++ rest).length ≤ root) := by omega
  cases c with
  | nil => exact absurd rfl h0
  | cons d c' =>
    have d1 : d ≠ '/' := fun e => hs (by simp [e])
    have d2 : d ≠ NUL := fun e => hz (by simp [e])
    by_cases hdot : d = '.'
    · subst hdot
      cases c' with
      | nil => exact absurd rfl hd1
      | cons e c'' =>
        have e1 : e ≠ '/' := fun h => hs (by simp [h])
        have e2 : e ≠ NUL := fun h => hz (by simp [h])
        by_cases hdot2 : e = '.'
        · subst hdot2
          cases c'' with
          | nil => exact absurd rfl hd2
          | cons g c3 =>
            have g1 : g ≠ '/' := fun h => hs (by simp [h])
            simp only [skipsBody, hl, if_false]
            simp [hd, g1]
        · simp only [skipsBody, hl, if_false]
          simp [hd, hdot2, e1, e2]
    · simp only [skipsBody, hl, if_false]
      simp [hd, hdot, d1]

theorem dropComp_short (root : Nat) (r : Str) (h : r.length ≤ root) : dropComp root r = r := by
  cases r with
  | nil => rfl
  | cons c r =>
    simp only [List.length_cons] at h
    simp [dropComp]
    intro hh; omega

theorem dropComp_slash (root : Nat) (r : Str) : dropComp root ('/' :: r) = '/' :: r := by
  simp [dropComp]

/-- dropping one component: the characters of `c`, up to the separator / the root that follows -/
theorem dropComp_comp (root : Nat) (c rest : Str) (hs : '/' ∉ c) (hroot : root ≤ rest.length)
    (hrest : rest.length ≤ root ∨ hd rest = '/') : dropComp root (c ++ rest) = rest := by
  induction c with
  | nil =>
    simp only [List.nil_append]
    rcases hrest with h | h
    · exact dropComp_short root rest h
    · cases rest with
      | nil => rfl
      | cons d r =>
        have : d = '/' := by simpa [hd] using h
        subst this; exact dropComp_slash root r
  | cons d c ih =>
    have d1 : d ≠ '/' := fun e => hs (by simp [e])
    have : (d :: (c ++ rest)).length > root := by simp; omega
    simp only [List.cons_append, dropComp, this, decide_true, Bool.true_and, bne_iff_ne, ne_eq, d1, not_false_eq_true, if_true]
    exact ih (fun h => hs (by simp [h]))


/-! ### components -/

theorem joinSlash_cons_cons (a b : Str) (r : List Str) : joinSlash (a :: b :: r) = a ++ '/' :: joinSlash (b :: r) := rfl

theorem joinSlash_single (a : Str) : joinSlash [a] = a := rfl

theorem joinSlash_suffix_length (l : List Str) : ∀ pre : List Str, (joinSlash l).length ≤ (joinSlash (pre ++ l)).length := by
  intro pre
  induction pre with
  | nil => simp
  | cons a pre ih =>
    cases hp : pre ++ l with
    | nil =>
      have : l = [] := by
        cases pre <;> simp_all
      subst this; simp [joinSlash]
    | cons b r =>
      rw [hp] at ih
      simp only [List.cons_append, hp, joinSlash_cons_cons, List.length_append, List.length_cons]
      omega

theorem skn_head : ∀ (cs : List Str) (m : Nat) (c : Str) (r : List Str),
    skn m cs = c :: r → ignorable c = false ∧ (c == dotdot) = false := by
  intro cs
  induction cs with
  | nil => intro m c r h; simp [skn] at h
  | cons x xs ih =>
    intro m c r h
    simp only [skn] at h
    by_cases h1 : ignorable x = true
    · simp only [h1, if_true] at h; exact ih m c r h
    · simp only [h1, Bool.false_eq_true, if_false] at h
      by_cases h2 : (x == dotdot) = true
      · simp only [h2, if_true] at h; exact ih _ c r h
      · simp only [h2, Bool.false_eq_true, if_false] at h
        by_cases h3 : m > 0
        · simp only [h3, if_true] at h; exact ih _ c r h
        · simp only [h3, if_false] at h
          have := (List.cons.inj h).1
          subst this
          exact ⟨by simpa using h1, by simpa using h2⟩

def compsOk (cs : List Str) : Prop := ∀ c ∈ cs, '/' ∉ c ∧ NUL ∉ c

theorem normalC_of (c : Str) (h1 : ignorable c = false) (h2 : (c == dotdot) = false) (h3 : '/' ∉ c ∧ NUL ∉ c) :
    normalC c := by
  simp only [ignorable, Bool.or_eq_false_iff, beq_eq_false_iff_ne, ne_eq] at h1
  refine ⟨h1.1, h3.1, h3.2, h1.2, ?_⟩
  simpa using h2

/-- where the iterator stands: at the start of the first surviving component, or on the root -/
def pos (R : Str) (l : List Str) : Str :=
  match l with
  | [] => R
  | _ => joinSlash l ++ R

theorem skips_short (v : Variant) (root : Nat) (ls : Bool) (rem : Str) (h : rem.length ≤ root) :
    skips v root ls rem = rem := by
  rw [skips_eq, body_short v root ls rem _ h]


theorem skn_nil_cons (n : Nat) (cs : List Str) : skn n ([] :: cs) = skn n cs := by simp [skn, ignorable]
theorem skn_dot_cons (n : Nat) (cs : List Str) : skn n (dot :: cs) = skn n cs := by simp [skn, ignorable]
theorem skn_dd_cons (n : Nat) (cs : List Str) : skn n (dotdot :: cs) = skn (n + 1) cs := by
  simp [skn, ignorable, dotdot, dot]
theorem esc_nil_cons (n : Nat) (cs : List Str) : esc n ([] :: cs) = esc n cs := by simp [esc, ignorable]
theorem esc_dot_cons (n : Nat) (cs : List Str) : esc n (dot :: cs) = esc n cs := by simp [esc, ignorable]
theorem esc_dd_cons (n : Nat) (cs : List Str) : esc n (dotdot :: cs) = esc (n + 1) cs := by
  simp [esc, ignorable, dotdot, dot]

theorem compsOk_tail {c : Str} {cs : List Str} (h : compsOk (c :: cs)) : compsOk cs :=
  fun x hx => h x (by simp [hx])

theorem compsOk_suffix {pre l : List Str} (h : compsOk (pre ++ l)) : compsOk l :=
  fun x hx => h x (by simp [hx])

theorem joinSlash_eq_nil {cs : List Str} (hne : cs ≠ []) (h : joinSlash cs = []) : cs = [[]] := by
  cases cs with
  | nil => exact absurd rfl hne
  | cons a r =>
    cases r with
    | nil => simp [joinSlash] at h; simp [h]
    | cons b r => simp [joinSlash_cons_cons] at h

/-- **the repaired `skips(false)` at a component boundary** leaves the iterator on the first surviving component -/
theorem skips_false_comps (R : Str) (hR : R = [] ∨ ∃ R', R = '/' :: R') :
    ∀ (N : Nat) (cs : List Str), cs ≠ [] → compsOk cs → (joinSlash cs).length ≤ N →
      (R ≠ [] ∨ esc 0 cs = 0) →
      skips .fixed R.length false (joinSlash cs ++ R) = pos R (skn 0 cs) := by
  intro N
  induction N with
  | zero =>
    intro cs hne _ hl _
    have : joinSlash cs = [] := List.eq_nil_of_length_eq_zero (by omega)
    have := joinSlash_eq_nil hne this
    subst this
    simp [joinSlash, skn, ignorable, pos, skips_short]
  | succ N ih =>
    intro cs hne hok hl hH
    have hRs : skips .fixed R.length false R = R := skips_short _ _ _ _ (Nat.le_refl _)
    cases cs with
    | nil => exact absurd rfl hne
    | cons c cs1 =>
      have hok1 := compsOk_tail hok
      by_cases hc0 : c = []
      · subst hc0
        cases cs1 with
        | nil => simp [joinSlash, skn, ignorable, pos, hRs]
        | cons b r1 =>
          have e : joinSlash ([] :: b :: r1) ++ R = '/' :: (joinSlash (b :: r1) ++ R) := by simp [joinSlash_cons_cons]
          rw [e, skips_eq, bodyF_slash _ _ _ (by simp; omega)]
          have hl' : (joinSlash (b :: r1)).length ≤ N := by
            simp only [joinSlash_cons_cons, List.nil_append, List.length_cons] at hl; omega
          rw [ih (b :: r1) (by simp) hok1 hl' (by rw [esc_nil_cons] at hH; exact hH), skn_nil_cons]
      · by_cases hcd : c = dot
        · subst hcd
          cases cs1 with
          | nil =>
            rcases hR with hR | ⟨R', hR⟩
            · subst hR
              simp only [joinSlash_single, List.append_nil, List.length_nil]
              rw [skips_eq]
              simp [dot, bodyF_dot_end, skn, ignorable, pos]
            · subst hR
              simp only [joinSlash_single]
              rw [skips_eq]
              simp only [dot, List.singleton_append]
              rw [bodyF_dot_root _ _ _ rfl, hRs]
              simp [skn, ignorable, pos, dot]
          | cons b r1 =>
            have e : joinSlash (dot :: b :: r1) ++ R = '.' :: '/' :: (joinSlash (b :: r1) ++ R) := by
              simp [joinSlash_cons_cons, dot]
            rw [e, skips_eq, bodyF_dot_slash _ _ _ (by simp; omega)]
            have e2 : '/' :: (joinSlash (b :: r1) ++ R) = joinSlash ([] :: b :: r1) ++ R := by simp [joinSlash_cons_cons]
            have hl' : (joinSlash ([] :: b :: r1)).length ≤ N := by
              simp only [joinSlash_cons_cons, dot, List.nil_append, List.length_cons, List.length_append, List.length_nil] at hl ⊢
              omega
            have hok' : compsOk ([] :: b :: r1) := by
              intro x hx
              simp only [List.mem_cons] at hx
              rcases hx with rfl | hx
              · simp
              · exact hok1 x (by simpa using hx)
            rw [e2, ih ([] :: b :: r1) (by simp) hok' hl' (by rw [esc_dot_cons] at hH; rw [esc_nil_cons]; exact hH),
              skn_nil_cons, skn_dot_cons]
        · by_cases hcdd : c = dotdot
          · subst hcdd
            cases cs1 with
            | nil =>
              rcases hR with hR | ⟨R', hR⟩
              · subst hR
                simp [esc, ignorable, dotdot, dot] at hH
              · subst hR
                simp only [joinSlash_single, dotdot, List.cons_append, List.nil_append]
                rw [skips_eq, bodyF_dd_root _ _ _ rfl, hRs, dropComp_short _ _ (Nat.le_refl _), hRs]
                simp [skn, ignorable, pos, dotdot, dot]
            | cons b r1 =>
              have e : joinSlash (dotdot :: b :: r1) ++ R = '.' :: '.' :: '/' :: (joinSlash (b :: r1) ++ R) := by
                simp [joinSlash_cons_cons, dotdot]
              rw [e, skips_eq, bodyF_dd_slash _ _ _ (by simp; omega)]
              have hl1 : (joinSlash (b :: r1)).length + 3 ≤ N + 1 := by
                simp only [joinSlash_cons_cons, dotdot, List.cons_append, List.nil_append, List.length_cons] at hl ⊢
                omega
              have hH1 : R ≠ [] ∨ esc 0 (b :: r1) = 0 := by
                rcases hH with h | h
                · exact Or.inl h
                · right
                  have h' : esc 1 (b :: r1) = 0 := by rw [esc_dd_cons] at h; exact h
                  have := esc_mono (b :: r1) 0 1 (by omega)
                  omega
              rw [ih (b :: r1) (by simp) hok1 (by omega) hH1]
              have hsk : skn 0 (dotdot :: b :: r1) = skn 1 (b :: r1) := skn_dd_cons 0 _
              rw [hsk]
              cases hs : skn 0 (b :: r1) with
              | nil =>
                rw [skn_succ_of_nil _ _ hs]
                simp [pos, dropComp_short _ _ (Nat.le_refl _), hRs]
              | cons c2 r =>
                rw [skn_succ_of_cons _ _ _ _ hs]
                obtain ⟨pre, hpre⟩ := skn_suffix (b :: r1) 0
                rw [hs] at hpre
                have hokS : compsOk (c2 :: r) := by
                  have := hok1; rw [hpre] at this; exact compsOk_suffix this
                have hn2 := skn_head _ _ _ _ hs
                have hnorm := normalC_of c2 hn2.1 hn2.2 (hokS c2 (by simp))
                cases r with
                | nil =>
                  simp only [pos, joinSlash_single]
                  rw [dropComp_comp _ c2 R hnorm.2.1 (Nat.le_refl _) (Or.inl (Nat.le_refl _)), hRs]
                  simp [skn]
                | cons b2 r2 =>
                  simp only [pos, joinSlash_cons_cons, List.append_assoc, List.cons_append]
                  rw [dropComp_comp _ c2 _ hnorm.2.1 (by simp; omega) (Or.inr rfl)]
                  have e2 : '/' :: (joinSlash (b2 :: r2) ++ R) = joinSlash ([] :: b2 :: r2) ++ R := by simp [joinSlash_cons_cons]
                  have hlen2 : (joinSlash (b2 :: r2)).length ≤ (joinSlash (b :: r1)).length := by
                    have h1 := joinSlash_suffix_length (b2 :: r2) (pre ++ [c2])
                    have : pre ++ [c2] ++ b2 :: r2 = b :: r1 := by rw [hpre]; simp
                    rw [this] at h1; exact h1
                  have hok' : compsOk ([] :: b2 :: r2) := by
                    intro x hx
                    simp only [List.mem_cons] at hx
                    rcases hx with rfl | hx
                    · simp
                    · exact hokS x (by simp only [List.mem_cons]; right; exact hx)
                  have hH2 : R ≠ [] ∨ esc 0 ([] :: b2 :: r2) = 0 := by
                    rcases hH with h | h
                    · exact Or.inl h
                    · right
                      have h' : esc 1 (b :: r1) = 0 := by rw [esc_dd_cons] at h; exact h
                      have := esc_of_skn_cons (b :: r1) 0 0 c2 (b2 :: r2) hs
                      simp only [Nat.zero_add] at this
                      rw [esc_nil_cons]
                      omega
                  have hl2 : (joinSlash ([] :: b2 :: r2)).length ≤ N := by
                    rw [joinSlash_cons_cons]; simp only [List.nil_append, List.length_cons]; omega
                  rw [e2, ih ([] :: b2 :: r2) (by simp) hok' hl2 hH2, skn_nil_cons]
                  rfl
          · -- a real component: the position is restored
            have hnorm : normalC c := by
              refine ⟨hc0, (hok c (by simp)).1, (hok c (by simp)).2, hcd, hcdd⟩
            have hsk : skn 0 (c :: cs1) = c :: cs1 := by
              have h1 : ignorable c = false := by simp [ignorable, hc0, hcd]
              have h2 : (c == dotdot) = false := by simp [hcdd]
              simp [skn, h1, h2]
            rw [hsk]
            simp only [pos]
            cases cs1 with
            | nil =>
              simp only [joinSlash_single]
              rw [skips_eq, bodyF_normal _ c R _ hnorm (by
                have : c.length > 0 := List.length_pos_iff.mpr hc0
                simp; omega)]
            | cons b r1 =>
              simp only [joinSlash_cons_cons, List.append_assoc, List.cons_append]
              rw [skips_eq, bodyF_normal _ c _ _ hnorm (by
                have : c.length > 0 := List.length_pos_iff.mpr hc0
                simp; omega)]

/-! ### `skips(true)`: the iterator stands on a separator -/

theorem bodyT_slash (root : Nat) (z : Str) (rec : Bool → Str → Str) (h : root < ('/' :: '/' :: z).length) :
    skipsBody .fixed root true ('/' :: '/' :: z) rec = rec true ('/' :: z) := by
  simp only [List.length_cons] at h
  simp [skipsBody, hd, Variant.fixed]
  intro hh; omega

theorem bodyT_dot_slash (root : Nat) (z : Str) (rec : Bool → Str → Str) (h : root < ('/' :: '.' :: '/' :: z).length) :
    skipsBody .fixed root true ('/' :: '.' :: '/' :: z) rec = rec true ('/' :: z) := by
  simp only [List.length_cons] at h
  simp [skipsBody, hd]
  intro hh; omega

theorem bodyT_dot_end (rec : Bool → Str → Str) : skipsBody .fixed 0 true ['/', '.'] rec = [] := by
  simp [skipsBody, hd, NUL]

theorem bodyT_dd_slash (root : Nat) (z : Str) (rec : Bool → Str → Str) (h : root < ('/' :: z).length) :
    skipsBody .fixed root true ('/' :: '.' :: '.' :: '/' :: z) rec = rec true (dropComp root (rec false z)) := by
  simp only [List.length_cons] at h
  have h2 : ¬ (z.length + 1 ≤ root) := by omega
  simp [skipsBody, hd, Variant.fixed, h2]
  intro hh; omega

theorem bodyT_dd_root (root : Nat) (z : Str) (rec : Bool → Str → Str) (h : ('/' :: z).length = root) :
    skipsBody .fixed root true ('/' :: '.' :: '.' :: '/' :: z) rec = rec true (dropComp root (rec false ('/' :: z))) := by
  simp only [List.length_cons] at h
  have h2 : z.length + 1 ≤ root := by omega
  simp [skipsBody, hd, Variant.fixed, h2]
  intro hh; omega

theorem bodyT_normal (root : Nat) (c rest : Str) (rec : Bool → Str → Str) (hn : normalC c)
    (hlen : root < (c ++ rest).length) : skipsBody .fixed root true ('/' :: (c ++ rest)) rec = '/' :: (c ++ rest) := by
  obtain ⟨h0, hs, hz, hd1, hd2⟩ := hn
  have hl : ¬ (('/' :: (c ++ rest)).length ≤ root) := by simp only [List.length_cons]; omega
  cases c with
  | nil => exact absurd rfl h0
  | cons d c' =>
    have d1 : d ≠ '/' := fun e => hs (by simp [e])
    have d2 : d ≠ NUL := fun e => hz (by simp [e])
    by_cases hdot : d = '.'
    · subst hdot
      cases c' with
      | nil => exact absurd rfl hd1
      | cons e c'' =>
        have e1 : e ≠ '/' := fun h => hs (by simp [h])
        have e2 : e ≠ NUL := fun h => hz (by simp [h])
        by_cases hdot2 : e = '.'
        · subst hdot2
          cases c'' with
          | nil => exact absurd rfl hd2
          | cons g c3 =>
            have g1 : g ≠ '/' := fun h => hs (by simp [h])
            simp only [skipsBody, hl, if_false]
            simp [hd, g1]
        · simp only [skipsBody, hl, if_false]
          simp [hd, hdot2, e1, e2]
    · simp only [skipsBody, hl, if_false]
      simp [hd, hdot, d1]

/-- where the iterator stands after `skips(true)`: on the separator in front of the first surviving component, or
    on the root -/
def posS (R : Str) (l : List Str) : Str :=
  match l with
  | [] => R
  | _ => '/' :: (joinSlash l ++ R)


theorem getLast?_suffix_ne {pre l : List Str} (hl : l ≠ []) : (pre ++ l).getLast? = l.getLast? := by
  simp [List.getLast?_append, hl]
  cases h : l.getLast? with
  | none => simp [List.getLast?_eq_none_iff] at h; exact absurd h hl
  | some x => simp

/-- **the repaired `skips(true)` on a separator** leaves the iterator on the separator in front of the first
    surviving component (or on the root) -/
theorem skips_true_comps (R : Str) (hR : R = [] ∨ ∃ R', R = '/' :: R') :
    ∀ (N : Nat) (cs : List Str), cs ≠ [] → compsOk cs → (joinSlash cs).length ≤ N →
      (R ≠ [] ∨ (esc 0 cs = 0 ∧ cs.getLast? ≠ some [])) →
      skips .fixed R.length true ('/' :: (joinSlash cs ++ R)) = posS R (skn 0 cs) := by
  intro N
  induction N with
  | zero =>
    intro cs hne _ hl hH
    have : joinSlash cs = [] := List.eq_nil_of_length_eq_zero (by omega)
    have := joinSlash_eq_nil hne this
    subst this
    rcases hR with hR | ⟨R', hR⟩
    · subst hR
      rcases hH with h | h
      · exact absurd rfl h
      · simp at h
    · subst hR
      simp only [joinSlash_single, List.nil_append]
      rw [skips_eq, bodyT_slash _ _ _ (by simp), skips_short _ _ _ _ (Nat.le_refl _), skn_nil_cons]
      rfl
  | succ N ih =>
    intro cs hne hok hl hH
    have hRs : ∀ ls, skips .fixed R.length ls R = R := fun ls => skips_short _ _ _ _ (Nat.le_refl _)
    cases cs with
    | nil => exact absurd rfl hne
    | cons c cs1 =>
      have hok1 := compsOk_tail hok
      have hH1 : ∀ (b : Str) (r1 : List Str), cs1 = b :: r1 → (esc 0 (c :: cs1) = esc 0 cs1) →
          (R ≠ [] ∨ (esc 0 cs1 = 0 ∧ cs1.getLast? ≠ some [])) := by
        intro b r1 e he
        rcases hH with h | h
        · exact Or.inl h
        · right
          refine ⟨by rw [← he]; exact h.1, ?_⟩
          have := h.2
          rw [e] at this ⊢
          simpa using this
      by_cases hc0 : c = []
      · subst hc0
        cases cs1 with
        | nil =>
          rcases hR with hR | ⟨R', hR⟩
          · subst hR
            rcases hH with h | h
            · exact absurd rfl h
            · simp at h
          · subst hR
            simp only [joinSlash_single, List.nil_append]
            rw [skips_eq, bodyT_slash _ _ _ (by simp), hRs, skn_nil_cons]
            rfl
        | cons b r1 =>
          have e : '/' :: (joinSlash ([] :: b :: r1) ++ R) = '/' :: '/' :: (joinSlash (b :: r1) ++ R) := by
            simp [joinSlash_cons_cons]
          rw [e, skips_eq, bodyT_slash _ _ _ (by simp; omega)]
          have hl' : (joinSlash (b :: r1)).length ≤ N := by
            simp only [joinSlash_cons_cons, List.nil_append, List.length_cons] at hl; omega
          rw [ih (b :: r1) (by simp) hok1 hl' (hH1 b r1 rfl (esc_nil_cons 0 _)), skn_nil_cons]
      · by_cases hcd : c = dot
        · subst hcd
          cases cs1 with
          | nil =>
            have hsk : skn 0 [dot] = [] := by rw [skn_dot_cons]; rfl
            rw [hsk]
            rcases hR with hR | ⟨R', hR⟩
            · subst hR
              simp only [joinSlash_single, List.append_nil, List.length_nil, dot]
              rw [skips_eq, bodyT_dot_end]
              rfl
            · subst hR
              simp only [joinSlash_single, dot, List.singleton_append]
              rw [skips_eq, bodyT_dot_slash _ _ _ (by simp), hRs]
              rfl
          | cons b r1 =>
            have e : '/' :: (joinSlash (dot :: b :: r1) ++ R) = '/' :: '.' :: '/' :: (joinSlash (b :: r1) ++ R) := by
              simp [joinSlash_cons_cons, dot]
            rw [e, skips_eq, bodyT_dot_slash _ _ _ (by simp; omega)]
            have hl' : (joinSlash (b :: r1)).length ≤ N := by
              simp only [joinSlash_cons_cons, dot, List.cons_append, List.nil_append, List.length_cons] at hl; omega
            rw [ih (b :: r1) (by simp) hok1 hl' (hH1 b r1 rfl (esc_dot_cons 0 _)), skn_dot_cons]
        · by_cases hcdd : c = dotdot
          · subst hcdd
            cases cs1 with
            | nil =>
              rcases hR with hR | ⟨R', hR⟩
              · subst hR
                rcases hH with h | h
                · exact absurd rfl h
                · simp [esc, ignorable, dotdot, dot] at h
              · subst hR
                have hsk : skn 0 [dotdot] = [] := by rw [skn_dd_cons]; rfl
                rw [hsk]
                simp only [joinSlash_single, dotdot, List.cons_append, List.nil_append]
                rw [skips_eq, bodyT_dd_root _ _ _ rfl, hRs, dropComp_short _ _ (Nat.le_refl _), hRs]
                rfl
            | cons b r1 =>
              have e : '/' :: (joinSlash (dotdot :: b :: r1) ++ R) = '/' :: '.' :: '.' :: '/' :: (joinSlash (b :: r1) ++ R) := by
                simp [joinSlash_cons_cons, dotdot]
              rw [e, skips_eq, bodyT_dd_slash _ _ _ (by simp; omega)]
              have hl1 : (joinSlash (b :: r1)).length + 3 ≤ N + 1 := by
                simp only [joinSlash_cons_cons, dotdot, List.cons_append, List.nil_append, List.length_cons] at hl ⊢
                omega
              have hF1 : R ≠ [] ∨ esc 0 (b :: r1) = 0 := by
                rcases hH with h | h
                · exact Or.inl h
                · right
                  have h' : esc 1 (b :: r1) = 0 := by have := h.1; rw [esc_dd_cons] at this; exact this
                  have := esc_mono (b :: r1) 0 1 (by omega)
                  omega
              rw [skips_false_comps R hR _ (b :: r1) (by simp) hok1 (Nat.le_refl _) hF1]
              rw [skn_dd_cons]
              cases hs : skn 0 (b :: r1) with
              | nil =>
                rw [skn_succ_of_nil _ _ hs]
                simp [pos, posS, dropComp_short _ _ (Nat.le_refl _), hRs]
              | cons c2 r =>
                rw [skn_succ_of_cons _ _ _ _ hs]
                obtain ⟨pre, hpre⟩ := skn_suffix (b :: r1) 0
                rw [hs] at hpre
                have hokS : compsOk (c2 :: r) := by
                  have := hok1; rw [hpre] at this; exact compsOk_suffix this
                have hn2 := skn_head _ _ _ _ hs
                have hnorm := normalC_of c2 hn2.1 hn2.2 (hokS c2 (by simp))
                cases r with
                | nil =>
                  simp only [pos, joinSlash_single]
                  rw [dropComp_comp _ c2 R hnorm.2.1 (Nat.le_refl _) (Or.inl (Nat.le_refl _)), hRs]
                  simp [skn, posS]
                | cons b2 r2 =>
                  simp only [pos, joinSlash_cons_cons, List.append_assoc, List.cons_append]
                  rw [dropComp_comp _ c2 _ hnorm.2.1 (by simp; omega) (Or.inr rfl)]
                  have hlen2 : (joinSlash (b2 :: r2)).length ≤ (joinSlash (b :: r1)).length := by
                    have h1 := joinSlash_suffix_length (b2 :: r2) (pre ++ [c2])
                    have : pre ++ [c2] ++ b2 :: r2 = b :: r1 := by rw [hpre]; simp
                    rw [this] at h1; exact h1
                  have hH2 : R ≠ [] ∨ (esc 0 (b2 :: r2) = 0 ∧ (b2 :: r2).getLast? ≠ some []) := by
                    rcases hH with h | h
                    · exact Or.inl h
                    · right
                      have h' : esc 1 (b :: r1) = 0 := by have := h.1; rw [esc_dd_cons] at this; exact this
                      have := esc_of_skn_cons (b :: r1) 0 0 c2 (b2 :: r2) hs
                      simp only [Nat.zero_add] at this
                      refine ⟨by omega, ?_⟩
                      have hl := h.2
                      have e3 : dotdot :: b :: r1 = (dotdot :: pre ++ [c2]) ++ (b2 :: r2) := by rw [hpre]; simp
                      rw [e3, getLast?_suffix_ne (by simp)] at hl
                      exact hl
                  rw [ih (b2 :: r2) (by simp) (compsOk_tail hokS) (by omega) hH2]
          · -- a real component: the position is restored
            have hnorm : normalC c := by
              refine ⟨hc0, (hok c (by simp)).1, (hok c (by simp)).2, hcd, hcdd⟩
            have hsk : skn 0 (c :: cs1) = c :: cs1 := by
              have h1 : ignorable c = false := by simp [ignorable, hc0, hcd]
              have h2 : (c == dotdot) = false := by simp [hcdd]
              simp [skn, h1, h2]
            rw [hsk]
            simp only [posS]
            cases cs1 with
            | nil =>
              simp only [joinSlash_single]
              rw [skips_eq, bodyT_normal _ c R _ hnorm (by
                have : c.length > 0 := List.length_pos_iff.mpr hc0
                simp; omega)]
            | cons b r1 =>
              simp only [joinSlash_cons_cons, List.append_assoc, List.cons_append]
              rw [skips_eq, bodyT_normal _ c _ _ hnorm (by
                have : c.length > 0 := List.length_pos_iff.mpr hc0
                simp; omega)]

/-! ### reading from a component boundary -/

theorem hd_append_of_ne_nil {w rest : Str} (h : w ≠ []) : hd (w ++ rest) = hd w := by
  cases w with
  | nil => exact absurd rfl h
  | cons c w => rfl

/-- reading the root part: no canonicalisation happens any more -/
theorem readFrom_short (root : Nat) : ∀ (r : Str), r.length ≤ root → NUL ∉ r → readFrom .fixed root r = r := by
  intro r
  induction r with
  | nil => intro _ _; rw [readFrom_eq]; simp [hd]
  | cons c r ih =>
    intro hl hn
    have hc : c ≠ NUL := fun e => hn (by simp [e])
    have hl' : r.length ≤ root := by simp at hl; omega
    rw [readFrom_eq]
    have hcb : (c == NUL) = false := by simp [hc]
    simp only [hd, List.headD_cons, hcb, Bool.false_eq_true, if_false]
    congr 1
    unfold advance
    simp only [List.tail_cons]
    have hr := ih hl' (fun h => hn (by simp [h]))
    by_cases hsl : (hd r == '/') = true
    · simp only [hsl, if_true]; rw [skips_short _ _ _ _ hl']; exact hr
    · simp only [hsl, Bool.false_eq_true, if_false]; exact hr

/-- reading the characters of one component -/
theorem readFrom_comp (root : Nat) : ∀ (w rest : Str), w ≠ [] → '/' ∉ w → NUL ∉ w →
    readFrom .fixed root (w ++ rest) =
      w ++ readFrom .fixed root (if hd rest == '/' then skips .fixed root true rest else rest) := by
  intro w
  induction w with
  | nil => intro rest h; exact absurd rfl h
  | cons c w ih =>
    intro rest _ hs hn
    have hc : c ≠ NUL := fun e => hn (by simp [e])
    rw [readFrom_eq]
    have hcb : (c == NUL) = false := by simp [hc]
    simp only [List.cons_append, hd, List.headD_cons, hcb, Bool.false_eq_true, if_false]
    congr 1
    unfold advance
    simp only [List.tail_cons]
    cases w with
    | nil => simp only [List.nil_append]; rfl
    | cons d w' =>
      have hd1 : d ≠ '/' := fun e => hs (by simp [e])
      have : (hd (d :: w' ++ rest) == '/') = false := by simp [hd, hd1]
      simp only [this, Bool.false_eq_true, if_false]
      exact ih rest (by simp) (fun h => hs (List.mem_cons_of_mem _ h)) (fun h => hn (List.mem_cons_of_mem _ h))


theorem esc_eq_of_skn_cons : ∀ (cs : List Str) (m : Nat) (c : Str) (r : List Str),
    skn m cs = c :: r → esc m cs = esc 0 (c :: r) := by
  intro cs
  induction cs with
  | nil => intro m c r h; simp [skn] at h
  | cons x xs ih =>
    intro m c r h
    simp only [skn] at h
    by_cases h1 : ignorable x = true
    · simp only [h1, if_true] at h
      have : esc m (x :: xs) = esc m xs := by simp [esc, h1]
      rw [this]; exact ih m c r h
    · simp only [h1, Bool.false_eq_true, if_false] at h
      by_cases h2 : (x == dotdot) = true
      · simp only [h2, if_true] at h
        have : esc m (x :: xs) = esc (m + 1) xs := by simp [esc, h1, h2]
        rw [this]; exact ih _ c r h
      · simp only [h2, Bool.false_eq_true, if_false] at h
        have e0 : esc m (x :: xs) = esc (m - 1) xs := by simp [esc, h1, h2]
        by_cases h3 : m > 0
        · simp only [h3, if_true] at h
          rw [e0]; exact ih _ c r h
        · simp only [h3, if_false] at h
          have hm : m = 0 := by omega
          subst hm
          rw [← h]

theorem esc_normal_cons (c : Str) (r : List Str) (h1 : ignorable c = false) (h2 : (c == dotdot) = false) (n : Nat) :
    esc n (c :: r) = esc (n - 1) r := by simp [esc, h1, h2]

theorem rnorm_normal_cons (c : Str) (r : List Str) (h1 : ignorable c = false) (h2 : (c == dotdot) = false) :
    rnorm 0 (c :: r) = c :: rnorm 0 r := by simp [rnorm, h1, h2]

theorem skn_normal_cons (c : Str) (r : List Str) (h1 : ignorable c = false) (h2 : (c == dotdot) = false) :
    skn 0 (c :: r) = c :: r := by simp [skn, h1, h2]

/-- the head of the list (if any) is a real component -/
def headNormal (l : List Str) : Prop := ∀ c r, l = c :: r → ignorable c = false ∧ (c == dotdot) = false

theorem headNormal_skn (m : Nat) (cs : List Str) : headNormal (skn m cs) :=
  fun c r h => skn_head cs m c r h

/-- **reading from the first surviving component**: the surviving components, separated by one separator, then the root -/
theorem readFrom_pos (R : Str) (hR : R = [] ∨ ∃ R', R = '/' :: R') (hRn : NUL ∉ R) :
    ∀ (N : Nat) (l : List Str), (joinSlash l).length ≤ N → headNormal l → compsOk l →
      (R ≠ [] ∨ (esc 0 l = 0 ∧ l.getLast? ≠ some [])) →
      readFrom .fixed R.length (pos R l) = joinSlash (rnorm 0 l) ++ R := by
  intro N
  induction N with
  | zero =>
    intro l hl hh hok _
    cases l with
    | nil => simp [pos, rnorm, joinSlash, readFrom_short _ R (Nat.le_refl _) hRn]
    | cons c r =>
      have hn := hh c r rfl
      have hnorm := normalC_of c hn.1 hn.2 (hok c (by simp))
      have : c.length > 0 := List.length_pos_iff.mpr hnorm.1
      cases r with
      | nil => simp only [joinSlash] at hl; omega
      | cons b r' => simp [joinSlash_cons_cons] at hl
  | succ N ih =>
    intro l hl hh hok hH
    cases l with
    | nil => simp [pos, rnorm, joinSlash, readFrom_short _ R (Nat.le_refl _) hRn]
    | cons c r =>
      have hn := hh c r rfl
      have hnorm := normalC_of c hn.1 hn.2 (hok c (by simp))
      have hclen : c.length > 0 := List.length_pos_iff.mpr hnorm.1
      rw [rnorm_normal_cons c r hn.1 hn.2]
      cases r with
      | nil =>
        simp only [pos, joinSlash_single, rnorm]
        rw [readFrom_comp _ c R hnorm.1 hnorm.2.1 hnorm.2.2.1]
        rcases hR with hR | ⟨R', hR⟩
        · subst hR
          have : (hd ([] : Str) == '/') = false := by decide
          simp only [this, Bool.false_eq_true, if_false]
          rw [readFrom_short _ [] (by simp) (by simp)]
        · subst hR
          have : (hd ('/' :: R') == '/') = true := by simp [hd]
          simp only [this, if_true]
          rw [skips_short _ _ _ _ (Nat.le_refl _), readFrom_short _ _ (Nat.le_refl _) hRn]
      | cons b r' =>
        have hok1 := compsOk_tail hok
        simp only [pos, joinSlash_cons_cons, List.append_assoc, List.cons_append]
        rw [readFrom_comp _ c _ hnorm.1 hnorm.2.1 hnorm.2.2.1]
        have : (hd ('/' :: (joinSlash (b :: r') ++ R)) == '/') = true := by simp [hd]
        simp only [this, if_true]
        have hH1 : R ≠ [] ∨ (esc 0 (b :: r') = 0 ∧ (b :: r').getLast? ≠ some []) := by
          rcases hH with h | h
          · exact Or.inl h
          · right
            rw [esc_normal_cons c _ hn.1 hn.2] at h
            refine ⟨h.1, ?_⟩
            have := h.2
            simpa using this
        rw [skips_true_comps R hR _ (b :: r') (by simp) hok1 (Nat.le_refl _) hH1]
        rw [rnorm_eq_skn (b :: r') 0]
        cases hs : skn 0 (b :: r') with
        | nil =>
          simp only [posS, joinSlash_single]
          rw [readFrom_short _ R (Nat.le_refl _) hRn]
        | cons c2 r2 =>
          obtain ⟨pre, hpre⟩ := skn_suffix (b :: r') 0
          rw [hs] at hpre
          have hokS : compsOk (c2 :: r2) := by
            have := hok1; rw [hpre] at this; exact compsOk_suffix this
          have hn2 := skn_head _ _ _ _ hs
          have hnorm2 := normalC_of c2 hn2.1 hn2.2 (hokS c2 (by simp))
          have hlen2 : (joinSlash (c2 :: r2)).length ≤ (joinSlash (b :: r')).length := by
            have h1 := joinSlash_suffix_length (c2 :: r2) pre
            rw [← hpre] at h1; exact h1
          have hH2 : R ≠ [] ∨ (esc 0 (c2 :: r2) = 0 ∧ (c2 :: r2).getLast? ≠ some []) := by
            rcases hH1 with h | h
            · exact Or.inl h
            · right
              refine ⟨by rw [← esc_eq_of_skn_cons _ _ _ _ hs]; exact h.1, ?_⟩
              have := h.2
              rw [hpre, getLast?_suffix_ne (by simp)] at this
              exact this
          have hl2 : (joinSlash (c2 :: r2)).length ≤ N := by
            simp only [joinSlash_cons_cons, List.length_append, List.length_cons] at hl
            omega
          have ihc := ih (c2 :: r2) hl2 (fun c' r'' e => by
            have := List.cons.inj e; rw [← this.1]; exact hn2) hokS hH2
          -- one step of reading: the separator
          simp only [posS]
          rw [readFrom_eq]
          have hsl : (hd ('/' :: (joinSlash (c2 :: r2) ++ R)) == NUL) = false := by simp [hd, NUL]
          simp only [hsl, Bool.false_eq_true, if_false, hd, List.headD_cons]
          have hadv : advance .fixed R.length ('/' :: (joinSlash (c2 :: r2) ++ R)) = pos R (c2 :: r2) := by
            unfold advance
            simp only [List.tail_cons]
            have hne : joinSlash (c2 :: r2) ≠ [] := by
              cases r2 with
              | nil => simpa [joinSlash] using hnorm2.1
              | cons b2 r3 => simp [joinSlash_cons_cons]
            have hh2 : hd (joinSlash (c2 :: r2) ++ R) ≠ '/' := by
              rw [hd_append_of_ne_nil hne]
              cases hc2 : c2 with
              | nil => exact absurd hc2 hnorm2.1
              | cons d c2' =>
                have hd1 : d ≠ '/' := fun e => hnorm2.2.1 (by rw [hc2]; simp [e])
                cases r2 with
                | nil => simpa [joinSlash, hd] using hd1
                | cons b2 r3 => simpa [joinSlash_cons_cons, hd] using hd1
            have : (hd (joinSlash (c2 :: r2) ++ R) == '/') = false := by simpa using hh2
            simp only [this, Bool.false_eq_true, if_false]
            rfl
          rw [hadv, ihc, rnorm_normal_cons c2 r2 hn2.1 hn2.2]
          have hne : ('/' == NUL) = false := by decide
          simp [joinSlash_cons_cons, hne]

/-! ### splitting and joining -/

theorem splitSlash_ne_nil (s : Str) : splitSlash s ≠ [] := by
  cases s with
  | nil => simp [splitSlash]
  | cons c r =>
    simp only [splitSlash]
    split
    · simp
    · split <;> simp

theorem joinSlash_splitSlash (s : Str) : joinSlash (splitSlash s) = s := by
  induction s with
  | nil => rfl
  | cons c r ih =>
    simp only [splitSlash]
    by_cases hc : c = '/'
    · subst hc
      simp only [beq_self_eq_true, if_true]
      cases hs : splitSlash r with
      | nil => exact absurd hs (splitSlash_ne_nil r)
      | cons h t => rw [joinSlash_cons_cons, ← hs, ih]; rfl
    · have hb : (c == '/') = false := by simp [hc]
      simp only [hb, Bool.false_eq_true, if_false]
      cases hs : splitSlash r with
      | nil => exact absurd hs (splitSlash_ne_nil r)
      | cons h t =>
        rw [hs] at ih
        simp only []
        cases t with
        | nil => simp only [joinSlash_single] at ih ⊢; rw [ih]
        | cons b t' => rw [joinSlash_cons_cons] at ih ⊢; simp [ih]

theorem splitSlash_no_slash (s : Str) : ∀ c ∈ splitSlash s, '/' ∉ c := by
  induction s with
  | nil => simp [splitSlash]
  | cons d r ih =>
    simp only [splitSlash]
    by_cases hd' : d = '/'
    · subst hd'
      simp only [beq_self_eq_true, if_true, List.mem_cons]
      rintro c (rfl | hc)
      · simp
      · exact ih c hc
    · have hb : (d == '/') = false := by simp [hd']
      simp only [hb, Bool.false_eq_true, if_false]
      cases hs : splitSlash r with
      | nil => exact absurd hs (splitSlash_ne_nil r)
      | cons h t =>
        rw [hs] at ih
        simp only [List.mem_cons]
        rintro c (rfl | hc)
        · intro hm
          simp only [List.mem_cons] at hm
          rcases hm with hm | hm
          · exact hd' hm.symm
          · exact ih h (by simp) hm
        · exact ih c (by simp [hc])

theorem splitSlash_mem (s : Str) : ∀ c ∈ splitSlash s, ∀ x ∈ c, x ∈ s := by
  induction s with
  | nil => simp [splitSlash]
  | cons d r ih =>
    simp only [splitSlash]
    by_cases hd' : d = '/'
    · subst hd'
      simp only [beq_self_eq_true, if_true, List.mem_cons]
      rintro c (rfl | hc) x hx
      · simp at hx
      · exact Or.inr (ih c hc x hx)
    · have hb : (d == '/') = false := by simp [hd']
      simp only [hb, Bool.false_eq_true, if_false]
      cases hs : splitSlash r with
      | nil => exact absurd hs (splitSlash_ne_nil r)
      | cons h t =>
        rw [hs] at ih
        simp only [List.mem_cons]
        rintro c (rfl | hc) x hx
        · simp only [List.mem_cons] at hx
          rcases hx with hx | hx
          · exact Or.inl hx
          · exact Or.inr (ih h (by simp) x hx)
        · exact Or.inr (ih c (by simp [hc]) x hx)

theorem splitSlash_snoc_sep (s : Str) : splitSlash (s ++ ['/']) = splitSlash s ++ [[]] := by
  induction s with
  | nil => rfl
  | cons d r ih =>
    simp only [List.cons_append, splitSlash]
    by_cases hd' : d = '/'
    · subst hd'; simp [ih]
    · have hb : (d == '/') = false := by simp [hd']
      simp only [hb, Bool.false_eq_true, if_false, ih]
      cases hs : splitSlash r with
      | nil => exact absurd hs (splitSlash_ne_nil r)
      | cons h t => simp

theorem splitSlash_snoc_char (c : Char) (hc : c ≠ '/') : ∀ (s : Str) (A : List Str) (l : Str),
    splitSlash s = A ++ [l] → splitSlash (s ++ [c]) = A ++ [l ++ [c]] := by
  have hb : (c == '/') = false := by simp [hc]
  intro s
  induction s with
  | nil =>
    intro A l h
    have : A = [] ∧ l = [] := by
      cases A with
      | nil => simpa [splitSlash] using h.symm
      | cons a A' =>
        simp [splitSlash] at h
    obtain ⟨rfl, rfl⟩ := this
    simp [splitSlash, hb]
  | cons d r ih =>
    intro A l h
    simp only [List.cons_append, splitSlash] at h ⊢
    by_cases hd' : d = '/'
    · subst hd'
      simp only [beq_self_eq_true, if_true] at h ⊢
      cases A with
      | nil =>
        have := congrArg List.length h
        have hn := splitSlash_ne_nil r
        cases hr : splitSlash r with
        | nil => exact absurd hr hn
        | cons x y => rw [hr] at this; simp at this
      | cons a A' =>
        have h' := List.cons.inj h
        rw [ih A' l h'.2, ← h'.1]; rfl
    · have hb2 : (d == '/') = false := by simp [hd']
      simp only [hb2, Bool.false_eq_true, if_false] at h ⊢
      cases hs : splitSlash r with
      | nil => exact absurd hs (splitSlash_ne_nil r)
      | cons hh t =>
        rw [hs] at h
        simp only [] at h
        cases A with
        | nil =>
          have h' := List.cons.inj h
          have ht : t = [] := h'.2
          subst ht
          rw [ih [] hh (by simp [hs])]
          simp [← h'.1]
        | cons a A' =>
          have h' := List.cons.inj h
          rw [ih (hh :: A') l (by rw [hs, h'.2]; rfl)]
          simp [← h'.1]

theorem splitSlash_reverse (s : Str) : splitSlash s.reverse = ((splitSlash s).map List.reverse).reverse := by
  induction s with
  | nil => rfl
  | cons d r ih =>
    simp only [List.reverse_cons, splitSlash]
    by_cases hd' : d = '/'
    · subst hd'
      simp only [beq_self_eq_true, if_true, List.map_cons, List.reverse_cons, List.reverse_nil]
      rw [splitSlash_snoc_sep, ih]
    · have hb : (d == '/') = false := by simp [hd']
      simp only [hb, Bool.false_eq_true, if_false]
      cases hs : splitSlash r with
      | nil => exact absurd hs (splitSlash_ne_nil r)
      | cons h t =>
        rw [hs] at ih
        simp only [List.map_cons, List.reverse_cons] at ih ⊢
        rw [splitSlash_snoc_char d hd' r.reverse _ _ ih]


theorem joinSlash_snoc (X : List Str) (y : Str) (h : X ≠ []) : joinSlash (X ++ [y]) = joinSlash X ++ '/' :: y := by
  induction X with
  | nil => exact absurd rfl h
  | cons a X ih =>
    cases X with
    | nil => rfl
    | cons b X' =>
      simp only [List.cons_append, joinSlash_cons_cons] at ih ⊢
      rw [ih (by simp)]
      simp

theorem joinSlash_reverse (M : List Str) : (joinSlash M).reverse = joinSlash ((M.map List.reverse).reverse) := by
  induction M with
  | nil => rfl
  | cons a M ih =>
    cases M with
    | nil => simp [joinSlash]
    | cons b M' =>
      have e1 : ((a :: b :: M').map List.reverse).reverse = ((b :: M').map List.reverse).reverse ++ [a.reverse] := by simp
      rw [joinSlash_cons_cons, e1, joinSlash_snoc _ _ (by simp), ← ih]
      simp

theorem reverse_eq_dot (c : Str) : (c.reverse == dot) = (c == dot) := by
  by_cases h : c = dot
  · subst h; rfl
  · have : c.reverse ≠ dot := by
      intro e; apply h
      have := congrArg List.reverse e
      simpa [dot] using this
    rw [beq_eq_false_iff_ne.mpr this, beq_eq_false_iff_ne.mpr h]

theorem ignorable_reverse (c : Str) : ignorable c.reverse = ignorable c := by
  simp only [ignorable, reverse_eq_dot]
  congr 1
  cases c <;> simp

theorem dotdot_reverse (c : Str) : (c.reverse == dotdot) = (c == dotdot) := by
  by_cases h : c = dotdot
  · subst h; rfl
  · have : c.reverse ≠ dotdot := by
      intro e; apply h
      have := congrArg List.reverse e
      simpa [dotdot] using this
    rw [beq_eq_false_iff_ne.mpr this, beq_eq_false_iff_ne.mpr h]

theorem rnorm_map_reverse : ∀ (cs : List Str) (n : Nat),
    rnorm n (cs.map List.reverse) = (rnorm n cs).map List.reverse := by
  intro cs
  induction cs with
  | nil => intro n; rfl
  | cons c cs ih =>
    intro n
    simp only [List.map_cons, rnorm, ignorable_reverse, dotdot_reverse]
    split
    · exact ih n
    · split
      · exact ih _
      · split
        · exact ih _
        · simp [ih]

theorem esc_map_reverse : ∀ (cs : List Str) (n : Nat), esc n (cs.map List.reverse) = esc n cs := by
  intro cs
  induction cs with
  | nil => intro n; rfl
  | cons c cs ih =>
    intro n
    simp only [List.map_cons, esc, ignorable_reverse, dotdot_reverse]
    split
    · exact ih n
    · split
      · exact ih _
      · exact ih _

/-! ### the stack of the documented canonical form, top first, is the list of surviving components in reading order -/

theorem esc_ge_of_rnorm_nil : ∀ (cs : List Str) (j : Nat), rnorm 0 cs = [] → j ≤ esc j cs := by
  intro cs j h
  rw [rnorm_eq_skn] at h
  cases hs : skn 0 cs with
  | nil => have := esc_of_skn_nil cs 0 j hs; simpa using this
  | cons c r => rw [hs] at h; simp at h

theorem fold_eq_rnorm (rooted : Bool) : ∀ (M : List Str) (n : Nat), (rooted = true ∨ esc n M = 0) →
    rnorm n M = (M.foldr (fun c st => canonStep rooted st c) []).drop n ∧
    (∀ x ∈ M.foldr (fun c st => canonStep rooted st c) [], x ≠ dotdot) := by
  intro M
  induction M with
  | nil => intro n _; simp [rnorm]
  | cons c M ih =>
    intro n hH
    simp only [List.foldr_cons]
    generalize hst : M.foldr (fun c st => canonStep rooted st c) [] = st at ih ⊢
    by_cases h1 : ignorable c = true
    · have hH' : rooted = true ∨ esc n M = 0 := by
        rcases hH with h | h
        · exact Or.inl h
        · right; simpa [esc, h1] using h
      have hs : canonStep rooted st c = st := by
        simp only [ignorable, Bool.or_eq_true, beq_iff_eq] at h1
        rcases h1 with h | h
        · subst h; simp [canonStep]
        · subst h; simp [canonStep]
      rw [hs]
      simp only [rnorm, h1, if_true]
      exact ih n hH'
    · have h1' : ignorable c = false := by simpa using h1
      by_cases h2 : (c == dotdot) = true
      · have hH' : rooted = true ∨ esc (n + 1) M = 0 := by
          rcases hH with h | h
          · exact Or.inl h
          · right; simpa [esc, h1', h2] using h
        have hH0 : rooted = true ∨ esc 0 M = 0 := by
          rcases hH' with h | h
          · exact Or.inl h
          · right; have := esc_mono M 0 (n + 1) (by omega); omega
        obtain ⟨ih1, ih2⟩ := ih (n + 1) hH'
        have hc : c = dotdot := by simpa using h2
        simp only [rnorm, h1', Bool.false_eq_true, if_false, h2, if_true]
        cases st with
        | nil =>
          cases rooted with
          | true =>
            have hs : canonStep true [] c = [] := by
              simp only [ignorable, Bool.or_eq_false_iff] at h1'
              simp [canonStep, h1'.1, h1'.2, h2]
            rw [hs]
            simpa using ih1
          | false =>
            -- excluded: a `..` with nothing in front of it
            exfalso
            rcases hH' with h | h
            · cases h
            · have h0 := (ih 0 (by right; have := esc_mono M 0 (n + 1) (by omega); omega)).1
              simp only [List.drop_zero] at h0
              have := esc_ge_of_rnorm_nil M (n + 1) h0
              omega
        | cons top rest =>
          have htop : top ≠ dotdot := ih2 top (by simp)
          have hs : canonStep rooted (top :: rest) c = rest := by
            simp only [ignorable, Bool.or_eq_false_iff] at h1'
            simp [canonStep, h1'.1, h1'.2, h2, htop]
          rw [hs]
          refine ⟨by simpa using ih1, fun x hx => ih2 x (by simp [hx])⟩
      · have h2' : (c == dotdot) = false := by simpa using h2
        have hs : canonStep rooted st c = c :: st := by
          simp only [ignorable, Bool.or_eq_false_iff] at h1'
          simp [canonStep, h1'.1, h1'.2, h2']
        rw [hs]
        have hcne : c ≠ dotdot := by simpa using h2'
        simp only [rnorm, h1', Bool.false_eq_true, if_false, h2']
        by_cases h3 : n > 0
        · have hH' : rooted = true ∨ esc (n - 1) M = 0 := by
            rcases hH with h | h
            · exact Or.inl h
            · right; simpa [esc, h1', h2'] using h
          obtain ⟨ih1, ih2⟩ := ih (n - 1) hH'
          simp only [h3, if_true]
          refine ⟨?_, ?_⟩
          · rw [ih1]
            cases n with
            | zero => omega
            | succ m => simp
          · intro x hx
            simp only [List.mem_cons] at hx
            rcases hx with rfl | hx
            · exact hcne
            · exact ih2 x hx
        · have hn : n = 0 := by omega
          subst hn
          have hH' : rooted = true ∨ esc 0 M = 0 := by
            rcases hH with h | h
            · exact Or.inl h
            · right; simpa [esc, h1', h2'] using h
          obtain ⟨ih1, ih2⟩ := ih 0 hH'
          simp only [Nat.lt_irrefl, if_false, List.drop_zero, gt_iff_lt] at ih1 ⊢
          refine ⟨by rw [ih1], ?_⟩
          intro x hx
          simp only [List.mem_cons] at hx
          rcases hx with rfl | hx
          · exact hcne
          · exact ih2 x hx

/-- the documented component stack = the surviving components found reading backwards -/
theorem canonComps_eq_rnorm (rooted : Bool) (L : List Str) (h : rooted = true ∨ esc 0 L.reverse = 0) :
    canonComps rooted L = (rnorm 0 L.reverse).reverse := by
  have := (fold_eq_rnorm rooted L.reverse 0 h).1
  simp only [List.drop_zero] at this
  rw [this, canonComps, List.foldr_reverse]


theorem rnorm_skn (cs : List Str) : rnorm 0 (skn 0 cs) = rnorm 0 cs := by
  rw [rnorm_eq_skn cs 0]
  cases hs : skn 0 cs with
  | nil => rfl
  | cons c r =>
    have := skn_head cs 0 c r hs
    simp only []
    exact rnorm_normal_cons c r this.1 this.2

/-- **the repaired iterator reads the documented canonical form** (abstract form: `root` leading characters of the
    mapped raw string `raw` are the root) -/
theorem read_eq_canon (root : Nat) (raw : Str) (hn : NUL ∉ raw) (hdom : CanonDomain root raw = true) :
    (readFrom .fixed root (skips .fixed root false raw.reverse)).reverse = canon root raw := by
  simp only [CanonDomain, Bool.and_eq_true, decide_eq_true_eq, Bool.or_eq_true, bne_iff_ne, ne_eq] at hdom
  obtain ⟨⟨hlen, hclosed⟩, hrel⟩ := hdom
  -- the pieces
  let R := (raw.take root).reverse
  let rest := raw.drop root
  have hRlen : R.length = root := by simp [R, Nat.min_eq_left hlen]
  have hraw : raw.reverse = rest.reverse ++ R := by
    have : raw = raw.take root ++ raw.drop root := (List.take_append_drop root raw).symm
    conv => lhs; rw [this]
    simp [R, rest]
  have hR : R = [] ∨ ∃ R', R = '/' :: R' := by
    simp only [closedRoot, Bool.or_eq_true, beq_iff_eq] at hclosed
    rcases hclosed with h | h
    · left; subst h; simp [R]
    · right
      have : R.head? = some '/' := by simpa [R, List.head?_reverse] using h
      cases hR' : R with
      | nil => rw [hR'] at this; simp at this
      | cons d R' =>
        rw [hR'] at this
        have : d = '/' := by simpa using this
        subst this; exact ⟨R', rfl⟩
  have hRn : NUL ∉ R := by
    intro h
    apply hn
    have : NUL ∈ raw.take root := by simpa [R] using h
    exact List.mem_of_mem_take this
  have hrestn : NUL ∉ rest := fun h => hn (List.mem_of_mem_drop h)
  let L := splitSlash rest
  let cs0 := splitSlash rest.reverse
  have hcs0 : cs0 = (L.reverse).map List.reverse := by
    simp only [cs0, L, splitSlash_reverse, List.map_reverse]
  have hx : rest.reverse = joinSlash cs0 := (joinSlash_splitSlash _).symm
  have hok : compsOk cs0 := by
    intro c hc
    refine ⟨splitSlash_no_slash _ c hc, ?_⟩
    intro hm
    have := splitSlash_mem _ c hc NUL hm
    exact hrestn (by simpa using this)
  have hrooted : root > 0 → R ≠ [] := by
    intro h e
    rw [e] at hRlen
    simp at hRlen
    omega
  have hesc : root > 0 ∨ esc 0 cs0 = 0 := by
    rcases hrel with h | h
    · exact Or.inl h
    · right
      have := h.1
      simp only [noEscape, beq_iff_eq] at this
      rw [hcs0, esc_map_reverse]
      exact this
  have hHF : R ≠ [] ∨ esc 0 cs0 = 0 := hesc.elim (fun h => Or.inl (hrooted h)) Or.inr
  have hF := skips_false_comps R hR _ cs0 (splitSlash_ne_nil _) hok (Nat.le_refl _) hHF
  rw [hRlen] at hF
  rw [hraw, hx, hF]
  -- reading
  have hHR : R ≠ [] ∨ (esc 0 (skn 0 cs0) = 0 ∧ (skn 0 cs0).getLast? ≠ some []) := by
    rcases hesc with h | h
    · exact Or.inl (hrooted h)
    · by_cases hr0 : R ≠ []
      · exact Or.inl hr0
      · right
        cases hs : skn 0 cs0 with
        | nil => simp [esc]
        | cons c r =>
          refine ⟨by rw [← esc_eq_of_skn_cons _ _ _ _ hs]; exact h, ?_⟩
          obtain ⟨pre, hpre⟩ := skn_suffix cs0 0
          rw [hs] at hpre
          rw [← getLast?_suffix_ne (pre := pre) (by simp : c :: r ≠ []), ← hpre]
          -- the last component in reading order is the first component of the string, which does not start with '/'
          have hroot0 : root = 0 := by
            have : R = [] := by simpa using hr0
            rw [this] at hRlen; simpa using hRlen.symm
          have hrest : rest = raw := by simp [rest, hroot0]
          rcases hrel with h' | h'
          · omega
          · have hhead := h'.2
            rw [hcs0]
            simp only [List.map_reverse, List.getLast?_reverse, List.head?_map]
            cases hL : L with
            | nil => exact absurd hL (splitSlash_ne_nil _)
            | cons a A =>
              simp only [List.head?_cons, Option.map_some, Option.some.injEq, List.reverse_eq_nil_iff]
              intro ha
              have ha' : a = [] := by simpa using ha
              subst ha'
              -- `splitSlash raw` starts with the empty component: raw is empty or starts with '/'
              cases hraw' : raw with
              | nil =>
                -- then nothing survives
                have : cs0 = [[]] := by simp [cs0, hrest, hraw', splitSlash]
                rw [this] at hs
                simp [skn, ignorable] at hs
              | cons d raw' =>
                have hd' : d ≠ '/' := by
                  intro e; apply hhead; rw [hraw', e]; rfl
                have : L = splitSlash (d :: raw') := by simp [L, hrest, hraw']
                rw [hL] at this
                simp only [splitSlash] at this
                have hb : (d == '/') = false := by simp [hd']
                simp only [hb, Bool.false_eq_true, if_false] at this
                split at this <;> simp at this
  have hRd := readFrom_pos R hR hRn _ (skn 0 cs0) (Nat.le_refl _) (headNormal_skn 0 cs0)
    (by obtain ⟨pre, hpre⟩ := skn_suffix cs0 0; rw [hpre] at hok; exact compsOk_suffix hok) hHR
  rw [hRlen] at hRd
  rw [hRd]
  rw [rnorm_skn, List.reverse_append, joinSlash_reverse, hcs0, rnorm_map_reverse]
  simp only [List.map_map, R, List.reverse_reverse]
  have hid : (List.reverse ∘ List.reverse : Str → Str) = id := by funext l; simp
  rw [hid, List.map_id]
  unfold canon
  congr 1
  have hcan := canonComps_eq_rnorm (decide (root > 0)) L (by
    rcases hrel with h | h
    · left; simpa using h
    · right
      have := h.1
      simpa [noEscape] using this)
  rw [hcan]

/-! ### the iterator object -/

theorem cstr_no_nul (s : Str) : NUL ∉ cstr s := by
  induction s with
  | nil => simp [cstr]
  | cons c r ih =>
    simp only [cstr, List.takeWhile_cons]
    split
    · rename_i h
      intro hm
      simp only [List.mem_cons] at hm
      rcases hm with hm | hm
      · simp [hm] at h
      · exact ih hm
    · simp

theorem toNat_ofNat_valid (n : Nat) (h : n.isValidChar) : (Char.ofNat n).toNat = n := by
  rw [Char.ofNat, dif_pos h]
  simp only [Char.ofNatAux, Char.toNat]
  exact UInt32.toNat_ofNatLT ..

theorem toLowerAscii_ne_nul (c : Char) (h : c ≠ NUL) : toLowerAscii c ≠ NUL := by
  unfold toLowerAscii
  split
  · rename_i hr
    simp only [Bool.and_eq_true, decide_eq_true_eq] at hr
    intro e
    have h1 : 65 ≤ c.toNat := hr.1
    have h2 : c.toNat ≤ 90 := hr.2
    have hv : (c.toNat + 32).isValidChar := by left; omega
    have := congrArg Char.toNat e
    rw [toNat_ofNat_valid _ hv] at this
    simp [NUL] at this
  · exact h

theorem mapChar_ne_nul (syn : Syntax) (c : Char) (h : c ≠ NUL) : mapChar syn c ≠ NUL := by
  cases syn with
  | unix => exact h
  | windows =>
    simp only [mapChar]
    split
    · decide
    · exact toLowerAscii_ne_nul c h

theorem rawOf_no_nul (syn : Syntax) (a b : Str) : NUL ∉ (rawOf syn a b).2 := by
  simp only [rawOf, List.mem_map, not_exists, not_and]
  intro c hc
  apply mapChar_ne_nul
  intro e
  subst e
  simp only [joinRaw, List.mem_append] at hc
  rcases hc with (hc | hc) | hc
  · exact cstr_no_nul a hc
  · split at hc
    · simp [NUL] at hc
    · simp at hc
  · exact cstr_no_nul b hc

/-- **C31 `pathiter_eq_canon`**: for every pair of strings and both syntaxes, the repaired `PathIterator` reads the
    documented canonical form of the joined path, inside the documented domain (root closed by a separator; without
    a root no `..` above the start) -/
theorem iter_read_eq_canon (syn : Syntax) (a b : Str)
    (h : CanonDomain (rawOf syn a b).1 (rawOf syn a b).2 = true) :
    (Iter.mk' .fixed syn a b).read .fixed = canonOf syn a b := by
  have := read_eq_canon (rawOf syn a b).1 (rawOf syn a b).2 (rawOf_no_nul syn a b) h
  simpa [Iter.read, Iter.stream_def, Iter.mk', canonOf, rawOf] using this

theorem iter_stream_eq_canon (syn : Syntax) (a b : Str)
    (h : CanonDomain (rawOf syn a b).1 (rawOf syn a b).2 = true) :
    (Iter.mk' .fixed syn a b).stream .fixed = (canonOf syn a b).reverse := by
  have := iter_read_eq_canon syn a b h
  simp only [Iter.read] at this
  rw [← this, List.reverse_reverse]

/-! ### joining a relative string onto an absolute base path -/

/-- with no `..` left over, the component stack is built on top of whatever stack it starts from -/
theorem foldr_step_append (rooted : Bool) : ∀ (M : List Str) (st : List Str), esc 0 M = 0 →
    M.foldr (fun c s => canonStep rooted s c) st = rnorm 0 M ++ st := by
  intro M
  induction M with
  | nil => intro st _; simp [rnorm]
  | cons c M ih =>
    intro st h
    simp only [List.foldr_cons]
    by_cases h1 : ignorable c = true
    · have h' : esc 0 M = 0 := by simpa [esc, h1] using h
      rw [ih st h']
      have hs : ∀ s, canonStep rooted s c = s := by
        intro s
        simp only [ignorable, Bool.or_eq_true, beq_iff_eq] at h1
        rcases h1 with e | e <;> subst e <;> simp [canonStep]
      rw [hs]; simp [rnorm, h1]
    · have h1' : ignorable c = false := by simpa using h1
      by_cases h2 : (c == dotdot) = true
      · have h' : esc 1 M = 0 := by simpa [esc, h1', h2] using h
        have h0 : esc 0 M = 0 := by have := esc_mono M 0 1 (by omega); omega
        rw [ih st h0]
        have hf := fold_eq_rnorm true M 0 (Or.inl rfl)
        have hf1 := (fold_eq_rnorm true M 1 (Or.inl rfl)).1
        simp only [List.drop_zero] at hf
        rw [← hf.1] at hf1
        cases hr : rnorm 0 M with
        | nil =>
          have := esc_ge_of_rnorm_nil M 1 hr
          omega
        | cons x r =>
          have hx : x ≠ dotdot := by
            have := hf.2 x (by rw [← hf.1, hr]; simp)
            exact this
          rw [hr] at hf1
          simp only [List.drop_one, List.tail_cons] at hf1
          have hs : canonStep rooted (x :: r ++ st) c = r ++ st := by
            simp only [ignorable, Bool.or_eq_false_iff] at h1'
            simp [canonStep, h1'.1, h1'.2, h2, hx]
          simp only [List.cons_append] at hs ⊢
          rw [hs]
          simp [rnorm, h1', h2, hf1]
      · have h2' : (c == dotdot) = false := by simpa using h2
        have h' : esc 0 M = 0 := by simpa [esc, h1', h2'] using h
        rw [ih st h']
        have hs : ∀ s, canonStep rooted s c = c :: s := by
          intro s
          simp only [ignorable, Bool.or_eq_false_iff] at h1'
          simp [canonStep, h1'.1, h1'.2, h2']
        rw [hs]; simp [rnorm, h1', h2']

theorem splitSlash_append_sep (s t : Str) : splitSlash (s ++ '/' :: t) = splitSlash s ++ splitSlash t := by
  induction s with
  | nil => simp [splitSlash]
  | cons d r ih =>
    simp only [List.cons_append, splitSlash]
    by_cases hd' : d = '/'
    · subst hd'; simp [ih]
    · have hb : (d == '/') = false := by simp [hd']
      simp only [hb, Bool.false_eq_true, if_false, ih]
      cases hs : splitSlash r with
      | nil => exact absurd hs (splitSlash_ne_nil r)
      | cons h t' => simp

theorem joinSlash_append (A B : List Str) (hA : A ≠ []) (hB : B ≠ []) :
    joinSlash (A ++ B) = joinSlash A ++ '/' :: joinSlash B := by
  induction A with
  | nil => exact absurd rfl hA
  | cons a A ih =>
    cases A with
    | nil =>
      cases B with
      | nil => exact absurd rfl hB
      | cons b B' => simp [joinSlash_cons_cons, joinSlash_single]
    | cons a2 A' =>
      simp only [List.cons_append, joinSlash_cons_cons] at ih ⊢
      rw [ih (by simp)]
      simp

/-- joining a relative string without escaping `..` onto a rooted one: the canonical component list is the concatenation -/
theorem canonComps_append (CB CP : List Str) (h : esc 0 CP.reverse = 0) :
    canonComps true (CB ++ CP) = canonComps true CB ++ canonComps false CP := by
  have h1 : canonComps false CP = (rnorm 0 CP.reverse).reverse := canonComps_eq_rnorm false CP (Or.inr h)
  rw [h1]
  simp only [canonComps, List.foldl_append]
  have := foldr_step_append true CP.reverse (CB.foldl (canonStep true) []) h
  rw [List.foldr_reverse] at this
  rw [this]
  simp

theorem rootLen_le (syn : Syntax) (s : Str) : rootLen syn s ≤ s.length := by
  have hnul : ∀ sy, issep sy NUL = false := by intro sy; cases sy <;> decide
  have n1 : NUL ≠ ':' := by decide
  have n2 : NUL ≠ '.' := by decide
  have n3 : NUL ≠ '?' := by decide
  have n4 : isdrive NUL = false := by decide
  rcases s with _ | ⟨a, _ | ⟨b, _ | ⟨c, _ | ⟨d, r⟩⟩⟩⟩ <;>
    simp only [rootLen, cat, List.getD_cons_zero, List.getD_cons_succ, List.getD_nil, List.length_cons, List.length_nil, hnul] <;>
    (repeat' split) <;> simp_all <;> omega

theorem one_le_ite {c : Prop} [Decidable c] {a b : Nat} (ha : 1 ≤ a) (hb : 1 ≤ b) : 1 ≤ (if c then a else b) := by
  split <;> assumption

theorem rootLen_pos (syn : Syntax) (r : Str) : 1 ≤ rootLen syn ('/' :: r) := by
  have h : issep syn '/' = true := by cases syn <;> decide
  simp only [rootLen, cat, List.getD_cons_zero, h, if_true]
  exact one_le_ite (one_le_ite (one_le_ite (by omega) (by omega)) (by omega)) (by omega)

theorem mapChar_slash (syn : Syntax) : mapChar syn '/' = '/' := by cases syn <;> decide


theorem cstr_nil : cstr [] = [] := rfl

theorem rawOf_single (syn : Syntax) (q : Str) :
    rawOf syn q [] = (if (cstr q).isEmpty then 0 else rootLen syn (cstr q), (cstr q).map (mapChar syn)) := by
  unfold rawOf
  rw [cstr_nil]
  generalize cstr q = Q
  cases Q <;> simp [joinRaw]

theorem rawOf_pair (syn : Syntax) (a b : Str) (ha : cstr a ≠ []) :
    rawOf syn a b = (rootLen syn (cstr a),
      (if (cstr b).isEmpty then cstr a else cstr a ++ '/' :: cstr b).map (mapChar syn)) := by
  unfold rawOf
  generalize cstr a = A at *
  generalize cstr b = B
  cases A with
  | nil => exact absurd rfl ha
  | cons x A' => cases B <;> simp [joinRaw]

theorem canonOf_nil_left (syn : Syntax) (p : Str) : canonOf syn [] p = canonOf syn p [] := by
  unfold canonOf rawOf
  rw [cstr_nil]
  generalize cstr p = Q
  cases Q <;> simp [joinRaw]

theorem canon_zero_nil : canon 0 [] = [] := by
  simp [canon, splitSlash, canonComps, canonStep, joinSlash]

/-- a relative string (no `..` above its start) appended behind a rooted one -/
theorem canon_join_core (rB : Nat) (Bm Qm : Str) (hpos : 1 ≤ rB) (hlen : rB ≤ Bm.length)
    (hhead : Bm.head? = some '/') (hclosed : (Bm.take rB).getLast? = some '/')
    (hesc : esc 0 (splitSlash Qm).reverse = 0) :
    ∃ pre, canon rB (Bm ++ '/' :: Qm) = pre ++ canon 0 Qm ∧
      (pre.getLast? = some '/' ∨ (canon 0 Qm = [] ∧ (canon rB (Bm ++ '/' :: Qm)).head? = some '/')) := by
  have htake : (Bm ++ '/' :: Qm).take rB = Bm.take rB := List.take_append_of_le_length hlen
  have hdrop : (Bm ++ '/' :: Qm).drop rB = Bm.drop rB ++ '/' :: Qm := List.drop_append_of_le_length hlen
  have hdec : decide (rB > 0) = true := by simp; omega
  have hdec0 : decide (0 > 0) = false := by simp
  simp only [canon, htake, hdrop, splitSlash_append_sep, hdec, hdec0, List.take_zero, List.drop_zero, List.nil_append]
  rw [canonComps_append _ _ hesc]
  generalize canonComps true (splitSlash (Bm.drop rB)) = SB
  generalize canonComps false (splitSlash Qm) = PC
  cases PC with
  | nil =>
    refine ⟨Bm.take rB ++ joinSlash (SB ++ []), by simp [joinSlash], Or.inr ⟨by simp [joinSlash], ?_⟩⟩
    cases Bm with
    | nil => simp at hhead
    | cons x Bm' =>
      have hx : x = '/' := by simpa using hhead
      subst hx
      have : rB = (rB - 1) + 1 := by omega
      rw [this]
      simp
  | cons c PC' =>
    cases SB with
    | nil => exact ⟨Bm.take rB, by simp, Or.inl hclosed⟩
    | cons b SB' =>
      refine ⟨Bm.take rB ++ joinSlash (b :: SB') ++ ['/'], ?_, Or.inl (by simp)⟩
      rw [joinSlash_append _ _ (by simp) (by simp)]
      simp

/-- a relative string (no root of its own, no `..` above its start) joined onto an absolute base path: the canonical
    form ends with the canonical form of the relative string, behind a separator -/
theorem canonOf_join (syn : Syntax) (base p : Str) (hb : isAbsolute base = true) (hr : rootLen syn (cstr p) = 0)
    (hdp : CanonDomain (rawOf syn p []).1 (rawOf syn p []).2 = true)
    (hdx : CanonDomain (rawOf syn base p).1 (rawOf syn base p).2 = true) :
    ∃ pre, canonOf syn base p = pre ++ canonOf syn p [] ∧
      (pre.getLast? = some '/' ∨ (canonOf syn p [] = [] ∧ (canonOf syn base p).head? = some '/')) := by
  obtain ⟨B', hB⟩ : ∃ B', cstr base = '/' :: B' := by
    cases base with
    | nil => simp [isAbsolute] at hb
    | cons c r =>
      have hc : c = '/' := by simpa [isAbsolute] using hb
      subst hc
      exact ⟨cstr r, by simp [cstr, List.takeWhile_cons, NUL]⟩
  have hBne : cstr base ≠ [] := by rw [hB]; simp
  have hrB := rootLen_pos syn B'
  have hrBle := rootLen_le syn ('/' :: B')
  unfold canonOf
  rw [rawOf_pair syn base p hBne, hB] at hdx
  rw [rawOf_single syn p] at hdp
  rw [rawOf_pair syn base p hBne, rawOf_single syn p, hB]
  generalize hrB' : rootLen syn ('/' :: B') = rB at *
  by_cases hQ : cstr p = []
  · simp only [hQ, List.isEmpty_nil, if_true, List.map_nil, canon_zero_nil, List.append_nil]
    refine ⟨_, rfl, Or.inr ⟨trivial, ?_⟩⟩
    simp only [canon, List.map_cons, mapChar_slash]
    have : rB = (rB - 1) + 1 := by omega
    rw [this]
    simp
  · have hQne : (cstr p).isEmpty = false := by cases h : cstr p <;> simp_all
    simp only [hQne, Bool.false_eq_true, if_false, hr] at hdp hdx ⊢
    have hmap : (('/' :: B') ++ '/' :: cstr p).map (mapChar syn) =
        ('/' :: B').map (mapChar syn) ++ '/' :: (cstr p).map (mapChar syn) := by simp [mapChar_slash]
    rw [hmap] at hdx ⊢
    simp only [CanonDomain, Bool.and_eq_true, decide_eq_true_eq, Bool.or_eq_true, Nat.lt_irrefl, decide_false,
      Bool.false_or] at hdp hdx
    have hlen : rB ≤ (('/' :: B').map (mapChar syn)).length := by simpa using hrBle
    have hclosed : ((('/' :: B').map (mapChar syn)).take rB).getLast? = some '/' := by
      have := hdx.1.2
      simp only [closedRoot, Bool.or_eq_true, beq_iff_eq, List.take_append_of_le_length hlen] at this
      rcases this with h | h
      · omega
      · exact h
    have hesc : esc 0 (splitSlash ((cstr p).map (mapChar syn))).reverse = 0 := by
      have := hdp.2.1
      simpa [noEscape] using this
    exact canon_join_core rB _ _ hrB hlen (by simp [mapChar_slash]) hclosed hesc

end Cppcheck.PathCanon

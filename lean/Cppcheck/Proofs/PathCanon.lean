import Cppcheck.Model.PathCanon
/-
C31 — helper lemmas for the path iterator: `skips` is independent of its fuel, the iterator of the repaired code
reads the documented canonical form.
-/
namespace Cppcheck.PathCanon
open Cppcheck.Wire

theorem dropComp_length_le (root : Nat) (r : Str) : (dropComp root r).length ≤ r.length := by
  induction r with
  | nil => simp [dropComp]
  | cons c r ih =>
    unfold dropComp
    split
    · simp; omega
    · simp

theorem tail_length_le (r : Str) : r.tail.length ≤ r.length := by cases r <;> simp

theorem tail_length_lt (r : Str) (h : r ≠ []) : r.tail.length < r.length := by
  cases r with
  | nil => exact absurd rfl h
  | cons c r => simp

/-- one iteration of the loop of `skips`, the continuation (`continue` / the recursive call) as a parameter -/
def skipsBody (v : Variant) (root : Nat) (leadsep : Bool) (rem : Str) (rec : Bool → Str → Str) : Str :=
  if rem.length ≤ root then rem
  else if leadsep && hd rem != '/' then rem
  else
    let r1 := if leadsep then rem.tail else rem
    if hd r1 == '.' then
      let r2 := r1.tail
      if hd r2 == '.' then
        let r3 := r2.tail
        if hd r3 == '/' then
          let r4 := if v.rootdd && r3.length ≤ root then r3 else r3.tail
          rec leadsep (dropComp root (rec false r4))
        else rem
      else if hd r2 == '/' then rec leadsep r2
      else if hd r2 == NUL then r2
      else rem
    else if hd r1 == '/' then
      if v.dsep && leadsep then rec leadsep r1 else rec false r1.tail
    else rem

theorem skipsF_succ (v : Variant) (fuel root : Nat) (ls : Bool) (rem : Str) :
    skipsF v (fuel + 1) root ls rem = skipsBody v root ls rem (skipsF v fuel root) := by
  rw [skipsF]; rfl

theorem skipsBody_length_le (v : Variant) (root : Nat) (ls : Bool) (rem : Str) (rec : Bool → Str → Str)
    (hrec : ∀ l r, (rec l r).length ≤ r.length) : (skipsBody v root ls rem rec).length ≤ rem.length := by
  unfold skipsBody
  by_cases h0 : rem.length ≤ root
  · simp [h0]
  · by_cases h1 : (ls && hd rem != '/') = true
    · simp [h0, h1]
    · simp only [h0, h1, if_false, Bool.false_eq_true]
      generalize hr1 : (if ls = true then rem.tail else rem) = r1
      have l1 : r1.length ≤ rem.length := by
        rw [← hr1]; split
        · exact tail_length_le rem
        · exact Nat.le_refl _
      have l2 := tail_length_le r1
      have l3 := tail_length_le r1.tail
      have l4 := tail_length_le r1.tail.tail
      by_cases c1 : (hd r1 == '.') = true
      · simp only [c1, if_true]
        by_cases c2 : (hd r1.tail == '.') = true
        · simp only [c2, if_true]
          by_cases c3 : (hd r1.tail.tail == '/') = true
          · simp only [c3, if_true]
            refine Nat.le_trans (hrec _ _) (Nat.le_trans (dropComp_length_le _ _) (Nat.le_trans (hrec _ _) ?_))
            split <;> omega
          · simp only [c3, Bool.false_eq_true, if_false]; omega
        · simp only [c2, Bool.false_eq_true, if_false]
          by_cases c3 : (hd r1.tail == '/') = true
          · simp only [c3, if_true]; exact Nat.le_trans (hrec _ _) (by omega)
          · simp only [c3, Bool.false_eq_true, if_false]
            split <;> omega
      · simp only [c1, Bool.false_eq_true, if_false]
        by_cases c2 : (hd r1 == '/') = true
        · simp only [c2, if_true]
          split
          · exact Nat.le_trans (hrec _ _) (by omega)
          · exact Nat.le_trans (hrec _ _) (by omega)
        · simp only [c2, Bool.false_eq_true, if_false]; omega

/-- `skips` never moves backwards -/
theorem skipsF_length_le (v : Variant) : ∀ (fuel root : Nat) (ls : Bool) (rem : Str),
    (skipsF v fuel root ls rem).length ≤ rem.length := by
  intro fuel
  induction fuel with
  | zero => intro root ls rem; simp [skipsF]
  | succ fuel ih =>
    intro root ls rem
    rw [skipsF_succ]
    exact skipsBody_length_le v root ls rem _ (fun l r => ih root l r)


theorem hd_ne_nul_ne_nil {r : Str} {c : Char} (h : (hd r == c) = true) (hc : c ≠ NUL) : r ≠ [] := by
  intro e; subst e
  simp only [hd, List.headD_nil, beq_iff_eq] at h
  exact hc h.symm

theorem skipsBody_congr (v : Variant) (root : Nat) (ls : Bool) (rem : Str) (rec1 rec2 : Bool → Str → Str)
    (h1 : ∀ l r, (rec1 l r).length ≤ r.length)
    (heq : ∀ l r, r.length < rem.length → rec1 l r = rec2 l r) :
    skipsBody v root ls rem rec1 = skipsBody v root ls rem rec2 := by
  unfold skipsBody
  by_cases h0 : rem.length ≤ root
  · simp [h0]
  · by_cases hg : (ls && hd rem != '/') = true
    · simp [h0, hg]
    · simp only [h0, hg, if_false, Bool.false_eq_true]
      have hne : rem ≠ [] := by intro e; subst e; simp at h0
      generalize hr1 : (if ls = true then rem.tail else rem) = r1
      have l1 : r1.length ≤ rem.length := by
        rw [← hr1]; split
        · exact tail_length_le rem
        · exact Nat.le_refl _
      have l1' : ls = true → r1.length < rem.length := by
        intro hl; rw [← hr1]; simp only [hl, if_true]; exact tail_length_lt rem hne
      have l3 := tail_length_le r1.tail
      have l4 := tail_length_le r1.tail.tail
      by_cases c1 : (hd r1 == '.') = true
      · have l2 := tail_length_lt r1 (hd_ne_nul_ne_nil c1 (by decide))
        simp only [c1, if_true]
        by_cases c2 : (hd r1.tail == '.') = true
        · simp only [c2, if_true]
          by_cases c3 : (hd r1.tail.tail == '/') = true
          · simp only [c3, if_true]
            generalize hr4 : (if (v.rootdd && decide (r1.tail.tail.length ≤ root)) = true then r1.tail.tail else r1.tail.tail.tail) = r4
            have l5 : r4.length < rem.length := by rw [← hr4]; split <;> omega
            rw [heq false r4 l5]
            have := h1 false r4
            rw [heq false r4 l5] at this
            have l6 := dropComp_length_le root (rec2 false r4)
            exact heq ls _ (by omega)
          · simp only [c3, Bool.false_eq_true, if_false]
        · simp only [c2, Bool.false_eq_true, if_false]
          by_cases c3 : (hd r1.tail == '/') = true
          · simp only [c3, if_true]; exact heq ls _ (by omega)
          · simp only [c3, Bool.false_eq_true, if_false]
      · simp only [c1, Bool.false_eq_true, if_false]
        by_cases c2 : (hd r1 == '/') = true
        · have l2 := tail_length_lt r1 (hd_ne_nul_ne_nil c2 (by decide))
          simp only [c2, if_true]
          by_cases c3 : (v.dsep && ls) = true
          · simp only [c3, if_true]
            have : ls = true := by simp only [Bool.and_eq_true] at c3; exact c3.2
            exact heq ls r1 (l1' this)
          · simp only [c3, Bool.false_eq_true, if_false]
            exact heq false _ (by omega)
        · simp only [c2, Bool.false_eq_true, if_false]

/-- the result of `skips` does not depend on the fuel once it exceeds the number of characters left -/
theorem skipsF_fuel (v : Variant) (root : Nat) : ∀ (f1 f2 : Nat) (ls : Bool) (rem : Str),
    rem.length < f1 → rem.length < f2 → skipsF v f1 root ls rem = skipsF v f2 root ls rem := by
  intro f1
  induction f1 with
  | zero => intro f2 ls rem h; omega
  | succ f1 ih =>
    intro f2 ls rem h1 h2
    cases f2 with
    | zero => omega
    | succ f2 =>
      rw [skipsF_succ, skipsF_succ]
      exact skipsBody_congr v root ls rem _ _ (fun l r => skipsF_length_le v f1 root l r)
        (fun l r hr => ih f2 l r (by omega) (by omega))

/-- `skips` unfolds to one loop iteration followed by `skips` -/
theorem skips_eq (v : Variant) (root : Nat) (ls : Bool) (rem : Str) :
    skips v root ls rem = skipsBody v root ls rem (skips v root) := by
  unfold skips
  rw [skipsF_succ]
  exact skipsBody_congr v root ls rem _ _ (fun l r => skipsF_length_le v _ root l r)
    (fun l r hr => skipsF_fuel v root _ _ l r hr (by omega))

theorem skips_length_le (v : Variant) (root : Nat) (ls : Bool) (rem : Str) :
    (skips v root ls rem).length ≤ rem.length := skipsF_length_le v _ root ls rem


/-! ### reading -/

def readFrom (v : Variant) (root : Nat) (rem : Str) : Str := streamF v (rem.length + 1) root rem

theorem advance_length_lt (v : Variant) (root : Nat) (rem : Str) (h : rem ≠ []) :
    (advance v root rem).length < rem.length := by
  unfold advance
  have := tail_length_lt rem h
  simp only []
  split
  · exact Nat.lt_of_le_of_lt (skips_length_le v root true _) this
  · exact this

theorem ne_nil_of_hd_ne_nul {r : Str} (h : (hd r == NUL) = false) : r ≠ [] := by
  intro e; subst e; simp [hd] at h

theorem streamF_fuel (v : Variant) (root : Nat) : ∀ (f1 f2 : Nat) (rem : Str),
    rem.length < f1 → rem.length < f2 → streamF v f1 root rem = streamF v f2 root rem := by
  intro f1
  induction f1 with
  | zero => intro f2 rem h; omega
  | succ f1 ih =>
    intro f2 rem h1 h2
    cases f2 with
    | zero => omega
    | succ f2 =>
      simp only [streamF]
      by_cases hc : (hd rem == NUL) = true
      · simp [hc]
      · simp only [hc, Bool.false_eq_true, if_false]
        have := advance_length_lt v root rem (ne_nil_of_hd_ne_nul (by simpa using hc))
        rw [ih f2 _ (by omega) (by omega)]

theorem readFrom_eq (v : Variant) (root : Nat) (rem : Str) :
    readFrom v root rem = if hd rem == NUL then [] else hd rem :: readFrom v root (advance v root rem) := by
  unfold readFrom
  rw [streamF]
  by_cases hc : (hd rem == NUL) = true
  · simp [hc]
  · simp only [hc, Bool.false_eq_true, if_false]
    have := advance_length_lt v root rem (ne_nil_of_hd_ne_nul (by simpa using hc))
    rw [streamF_fuel v root _ _ _ (by omega) (Nat.lt_succ_self _)]

theorem Iter.stream_def (v : Variant) (it : Iter) : it.stream v = readFrom v it.root it.rem := rfl

end Cppcheck.PathCanon
